(* Specification of build_random_tree (independent of the stream) and the
   proofs that the model of RandomTree.v meets it for EVERY stream. *)
From Coq Require Import List ZArith Bool Arith Lia QArith Qreduction Lqa.
From NT Require Import Sx Rose RandomTree.
Import ListNotations.
Open Scope Z_scope.

(* ------------------------------------------------------------------------ *)
(* draws                                                                     *)
(* ------------------------------------------------------------------------ *)
Lemma rand01_range d : (0 <= rand01 d)%Q /\ (rand01 d < 1)%Q.
Proof.
  unfold rand01. set (den := Z.to_pos (dd d)).
  assert (B : 0 <= dn d mod Zpos den < Zpos den) by (apply Z.mod_pos_bound; reflexivity).
  split.
  - unfold Qle. cbn [Qnum Qden]. lia.
  - unfold Qlt. cbn [Qnum Qden]. lia.
Qed.

Lemma randrange_range lo hi d : lo < hi -> lo <= randrange lo hi d < hi.
Proof.
  intros Hlt. unfold randrange.
  assert (B : 0 <= dn d mod (hi - lo) < hi - lo) by (apply Z.mod_pos_bound; lia).
  lia.
Qed.

Lemma uniform_range lo hi d : (lo < hi)%Q -> (lo <= uniform lo hi d)%Q /\ (uniform lo hi d < hi)%Q.
Proof.
  intros Hlt. unfold uniform. rewrite Qred_correct.
  destruct (rand01_range d) as [H0 H1].
  set (r := rand01 d) in *. set (w := (hi - lo)%Q).
  assert (Hw : (0 < w)%Q) by (unfold w; lra).
  assert (A : (0 <= w * r)%Q) by (apply Qmult_le_0_compat; [apply Qlt_le_weak; exact Hw | exact H0]).
  assert (B : (w * r < w * 1)%Q) by (apply Qmult_lt_l; assumption).
  unfold w in *. split; lra.
Qed.

Lemma total_nonneg cnts : Forall (fun x => 0 <= x) cnts -> 0 <= total cnts.
Proof. induction 1 as [|x l Hx Hl IH]; [cbn; lia|]. change (total (x :: l)) with (x + total l). lia. Qed.

Lemma pick_in : forall vals cnts k,
  length cnts = length vals -> Forall (fun x => 0 <= x) cnts -> 0 <= k < total cnts ->
  exists c, In (pick vals cnts k, c) (combine vals cnts) /\ 0 < c.
Proof.
  induction vals as [|v vs IH]; intros [|c cs] k Hlen Hnn Hk; cbn [length] in Hlen; try discriminate.
  - cbn [total fold_right] in Hk. lia.
  - cbn [pick combine]. inversion Hnn as [|x l Hc Hcs]; subst.
    cbn [total fold_right] in Hk. fold (total cs) in Hk.
    destruct (k <? c) eqn:E.
    + apply Z.ltb_lt in E. exists c. split; [left; reflexivity | lia].
    + apply Z.ltb_ge in E.
      destruct (IH cs (k - c)) as [c' [Hin Hpos]]; [lia | exact Hcs | lia |].
      exists c'. split; [right; exact Hin | exact Hpos].
Qed.

(* ------------------------------------------------------------------------ *)
(* randomizers: declared ranges (no stream in the statement)                 *)
(* ------------------------------------------------------------------------ *)
(* what the constructors assert *)
Definition rnd_wf (r : rnd) : Prop :=
  match r with
  | RRangeI lo hi _ _ => lo < hi
  | RRangeF lo hi _ _ => (lo < hi)%Q
  | RDate _ days _ _ => 0 < days
  | RValue _ _ => True
  | RSample vals counts _ =>
      let c := counts_of vals counts in
      length c = length vals /\ Forall (fun x => 0 <= x) c /\ 0 < total c
  | RText _ _ => True
  end.

Definition prob_of (r : rnd) : Q :=
  match r with
  | RRangeI _ _ p _ | RRangeF _ _ p _ | RDate _ _ _ p | RValue _ p | RSample _ _ p | RText _ p => p
  end.
(* what generate() answers when the value is skipped *)
Definition none_of (r : rnd) : value :=
  match r with RRangeI _ _ _ n | RRangeF _ _ _ n => n | _ => VNone end.

(* the declared range of a randomizer *)
Definition in_range (r : rnd) (raw : value) : Prop :=
  match r with
  | RRangeI lo hi _ _ => exists z, raw = VInt z /\ lo <= z < hi
  | RRangeF lo hi _ _ => exists q, raw = VFlt q /\ (lo <= q)%Q /\ (q < hi)%Q /\ Qred q = q   (* canonical *)
  | RDate mn days stamp _ =>
      exists k, 0 <= k < days /\ raw = if stamp then VFlt (js_stamp (mn + k)) else VDate (mn + k)
  | RValue v _ => raw = v
  | RSample vals counts _ =>
      exists c, In (raw, c) (combine vals (counts_of vals counts)) /\ 0 < c
  | RText arg _ => exists t, raw = VStr (arg ++ t)   (* fabulist called with the declared arguments *)
  end.

(* the values randomizer r may answer: inside the declared range – unless its
   probability is 0.0 – or the none value – unless its probability is 1.0 *)
Definition rnd_may (r : rnd) (raw : value) : Prop :=
  (~ (prob_of r == 0)%Q /\ in_range r raw) \/ (~ (prob_of r == 1)%Q /\ raw = none_of r).

Lemma skip_true p s : fst (skip_value p s) = true -> ~ (p == 1)%Q.
Proof.
  unfold skip_value. destruct (Qeq_bool p 1) eqn:E.
  - cbn [fst]. discriminate.
  - intros _. apply Qeq_bool_neq. exact E.
Qed.

Lemma skip_false p s : fst (skip_value p s) = false -> ~ (p == 0)%Q.
Proof.
  unfold skip_value. destruct (Qeq_bool p 1) eqn:E.
  - intros _ H0. apply Qeq_bool_iff in E. rewrite H0 in E. discriminate E.
  - destruct (next s) as [d s1]. cbn [fst]. intros Hle H0.
    destruct (rand01_range d) as [Hr _].
    assert (Hle' : (p <= rand01 d)%Q) by (rewrite H0; exact Hr).
    apply Qle_bool_iff in Hle'. congruence.
Qed.

(* the drawn value, once the skip test has passed *)
Lemma gen_may r s : rnd_wf r -> rnd_may r (fst (gen r s)).
Proof.
  intros Hwf. unfold rnd_may.
  destruct r as [lo hi p none | lo hi p none | mn days stamp p | v p | vals counts p | arg p];
    cbn [rnd_wf prob_of none_of in_range gen] in *;
    pose proof (skip_true p s) as Hsk; pose proof (skip_false p s) as Hns;
    destruct (skip_value p s) as [sk s1]; cbn [fst] in Hsk, Hns;
    (destruct sk; [right; split; [apply Hsk; reflexivity | reflexivity] | left; split; [apply Hns; reflexivity|]]).
  - destruct (next s1) as [d s2]. cbn [fst]. exists (randrange lo hi d).
    split; [reflexivity | apply randrange_range; exact Hwf].
  - destruct (next s1) as [d s2]. cbn [fst]. exists (uniform lo hi d).
    destruct (uniform_range lo hi d Hwf) as [U1 U2].
    refine (conj eq_refl (conj U1 (conj U2 _))). unfold uniform. apply Qred_complete. apply Qred_correct.
  - destruct (next s1) as [d s2]. cbn [fst]. exists (randrange 0 days d).
    split; [pose proof (randrange_range 0 days d Hwf); lia | reflexivity].
  - reflexivity.
  - destruct (next s1) as [d s2]. cbn [fst].
    destruct Hwf as [Hlen [Hnn Htot]]. unfold sample.
    apply pick_in; [exact Hlen | exact Hnn | apply Z.mod_pos_bound; exact Htot].
  - destruct (next s1) as [d s2]. cbn [fst]. exists (dt d). reflexivity.
Qed.

(* stream-aware: a randomizer whose probability is not 1.0 consumes one draw
   u = random(); if u >= probability the none value is answered and nothing else
   is consumed; probability 1.0 consumes no draw for the test *)
Lemma gen_skipped r s :
  ~ (prob_of r == 1)%Q -> (prob_of r <= rand01 (fst (next s)))%Q ->
  gen r s = (none_of r, snd (next s)).
Proof.
  intros Hp Hu.
  assert (E : skip_value (prob_of r) s = (true, snd (next s))).
  { unfold skip_value. destruct (Qeq_bool (prob_of r) 1) eqn:E1.
    - exfalso. apply Hp. apply Qeq_bool_eq. exact E1.
    - destruct (next s) as [d s1]. cbn [fst snd] in *.
      apply Qle_bool_iff in Hu. rewrite Hu. reflexivity. }
  destruct r; cbn [prob_of none_of gen] in *; rewrite E; reflexivity.
Qed.

(* probability 0.0: always the none value, for every stream (D60) *)
Lemma gen_prob_zero r s : (prob_of r == 0)%Q -> gen r s = (none_of r, snd (next s)).
Proof.
  intros H0. apply gen_skipped.
  - intros H1. rewrite H0 in H1. discriminate H1.
  - rewrite H0. apply (rand01_range (fst (next s))).
Qed.

Lemma skip_value_used p s :
  (p == 1)%Q \/ (rand01 (fst (next s)) < p)%Q -> fst (skip_value p s) = false.
Proof.
  intros H. unfold skip_value. destruct (Qeq_bool p 1) eqn:E; [reflexivity|].
  destruct H as [H|H]; [apply Qeq_bool_iff in H; congruence|].
  destruct (next s) as [d s1]. cbn [fst] in *.
  destruct (Qle_bool p (rand01 d)) eqn:E2; [|reflexivity].
  apply Qle_bool_iff in E2. exfalso. apply (Qlt_not_le _ _ H). exact E2.
Qed.

Lemma skip_value_p1 p s : (p == 1)%Q -> skip_value p s = (false, s).
Proof. intros H. unfold skip_value. apply Qeq_bool_iff in H. rewrite H. reflexivity. Qed.

(* ------------------------------------------------------------------------ *)
(* str(int) and the dotted index path                                        *)
(* ------------------------------------------------------------------------ *)
Lemma dec_aux_nonempty : forall fuel n acc, (acc <> [] \/ fuel <> O) -> dec_aux fuel n acc <> [].
Proof.
  induction fuel as [|f IH]; intros n acc H; cbn [dec_aux].
  - destruct H as [H|H]; [exact H | congruence].
  - destruct (n <? 10)%nat; [discriminate|]. apply IH. left. discriminate.
Qed.

Lemma dec_nonempty n : dec n <> [].
Proof. unfold dec. apply dec_aux_nonempty. right. discriminate. Qed.

(* ".".join(str(i) for i in path) *)
Fixpoint dotted (path : list nat) : text :=
  match path with
  | [] => []
  | i :: rest => match rest with [] => dec i | _ => dec i ++ DOT :: dotted rest end
  end.

Lemma dotted_nil_iff path : dotted path = [] <-> path = [].
Proof.
  split; [|intros ->; reflexivity].
  destruct path as [|i [|j r]]; [reflexivity | |]; cbn [dotted].
  - intros H. exfalso. exact (dec_nonempty i H).
  - intros H. exfalso. destruct (dec i) eqn:E; [exact (dec_nonempty i E) | discriminate].
Qed.

Lemma dotted_snoc : forall path i, path <> [] -> dotted path ++ DOT :: dec i = dotted (path ++ [i]).
Proof.
  induction path as [|j rest IH]; intros i Hne; [congruence|].
  destruct rest as [|r rs].
  - reflexivity.
  - change (dotted (j :: r :: rs)) with (dec j ++ DOT :: dotted (r :: rs)).
    change ((j :: r :: rs) ++ [i]) with (j :: (r :: (rs ++ [i]))).
    change (dotted (j :: r :: rs ++ [i])) with (dec j ++ DOT :: dotted ((r :: rs) ++ [i])).
    rewrite <- (IH i) by discriminate.
    rewrite <- app_assoc. reflexivity.
Qed.

(* the prefix string the code threads through the recursion is the dotted path *)
Lemma hier_dotted path i : hier (dotted path) i = dotted (path ++ [i]).
Proof.
  unfold hier. destruct (dotted path) eqn:E.
  - apply dotted_nil_iff in E. subst. reflexivity.
  - rewrite <- E. apply dotted_snoc. intros ->. discriminate.
Qed.

(* ------------------------------------------------------------------------ *)
(* dictionaries                                                              *)
(* ------------------------------------------------------------------------ *)
Lemma text_eqb_sym a b : text_eqb a b = text_eqb b a.
Proof.
  destruct (text_eqb a b) eqn:E1, (text_eqb b a) eqn:E2; try reflexivity.
  - apply text_eqb_eq in E1. subst. rewrite text_eqb_refl in E2. discriminate.
  - apply text_eqb_eq in E2. subst. rewrite text_eqb_refl in E1. discriminate.
Qed.

Lemma lookup_In {X} k (l : list (text * X)) x : lookup k l = Some x -> In (k, x) l.
Proof.
  induction l as [|[k' x'] l IH]; cbn [lookup]; [discriminate|].
  destruct (text_eqb k k') eqn:E.
  - intros H. injection H as ->. apply text_eqb_eq in E. subst. left. reflexivity.
  - intros H. right. apply IH. exact H.
Qed.

Lemma lookup_app {X} k (a b : list (text * X)) :
  lookup k (a ++ b) = match lookup k a with Some x => Some x | None => lookup k b end.
Proof.
  induction a as [|[k' x'] a IH]; cbn [lookup app]; [reflexivity|].
  destruct (text_eqb k k'); [reflexivity | exact IH].
Qed.

Lemma lookup_upd {X} k (l : list (text * X)) k' v :
  lookup k (upd l k' v) = if text_eqb k k' then Some v else lookup k l.
Proof.
  induction l as [|[k0 x0] l IH]; cbn [upd lookup].
  - destruct (text_eqb k k'); reflexivity.
  - destruct (text_eqb k' k0) eqn:E0; cbn [lookup].
    + apply text_eqb_eq in E0. subst k0. destruct (text_eqb k k'); reflexivity.
    + destruct (text_eqb k k0) eqn:E1.
      * destruct (text_eqb k k') eqn:E2; [|reflexivity].
        apply text_eqb_eq in E1. apply text_eqb_eq in E2. subst. rewrite text_eqb_refl in E0. discriminate.
      * exact IH.
Qed.

(* a.update(b): the LAST binding of k in b wins (the only one for a dict), otherwise a's *)
Lemma lookup_update {X} k : forall (b a : list (text * X)),
  lookup k (update a b) = match lookup k (rev b) with Some v => Some v | None => lookup k a end.
Proof.
  unfold update. induction b as [|[k0 v0] b IH]; intros a; cbn [fold_left rev fst snd]; [reflexivity|].
  rewrite IH, lookup_app, lookup_upd. cbn [lookup].
  destruct (lookup k (rev b)); [reflexivity|]. destruct (text_eqb k k0); reflexivity.
Qed.

Lemma lookup_rev_nodup {X} k : forall (l : list (text * X)), NoDup (map fst l) -> lookup k (rev l) = lookup k l.
Proof.
  induction l as [|[k0 v0] l IH]; intros Hnd; [reflexivity|].
  cbn [map fst] in Hnd. inversion Hnd as [|x xs Hnotin Hnd']; subst.
  cbn [rev lookup]. rewrite lookup_app, (IH Hnd'). cbn [lookup].
  destruct (text_eqb k k0) eqn:E.
  - apply text_eqb_eq in E. subst k0.
    destruct (lookup k l) eqn:El; [|reflexivity].
    exfalso. apply Hnotin. apply lookup_In in El. apply (in_map fst) in El. exact El.
  - destruct (lookup k l); reflexivity.
Qed.

(* precedence of _merge_specs: relation spec, then type defaults, then "*" *)
Lemma merge_lookup k nt sp types :
  lookup k (merge_specs nt sp types) =
  match lookup k (rev sp) with
  | Some v => Some v
  | None => match lookup k (rev (getd nt types)) with
            | Some v => Some v
            | None => lookup k (getd K_star types)
            end
  end.
Proof. unfold merge_specs. rewrite !lookup_update. reflexivity. Qed.

Lemma keys_upd {X} (l : list (text * X)) k v :
  map fst (upd l k v) = if mem k l then map fst l else map fst l ++ [k].
Proof.
  unfold mem. induction l as [|[k0 x0] l IH]; cbn [upd lookup map fst app]; [reflexivity|].
  destruct (text_eqb k k0) eqn:E; cbn [map fst]; [reflexivity|].
  rewrite IH. destruct (lookup k l); reflexivity.
Qed.

Lemma mem_false_notin {X} k (l : list (text * X)) : mem k l = false -> ~ In k (map fst l).
Proof.
  unfold mem. induction l as [|[k0 x0] l IH]; cbn [lookup map fst In]; [intros _ []|].
  destruct (text_eqb k k0) eqn:E; [discriminate|].
  intros H [H1|H1].
  - subst. rewrite text_eqb_refl in E. discriminate.
  - exact (IH H H1).
Qed.

Lemma nodup_keys_upd {X} (l : list (text * X)) k v : NoDup (map fst l) -> NoDup (map fst (upd l k v)).
Proof.
  intros H. rewrite keys_upd. destruct (mem k l) eqn:E; [exact H|].
  apply mem_false_notin in E.
  induction (map fst l) as [|a m IH]; cbn [app].
  - constructor; [intros []|constructor].
  - inversion H as [|x xs Hn Hnd]; subst. constructor.
    + rewrite in_app_iff. intros [H1|[H1|[]]]; [exact (Hn H1)|]. subst. apply E. left. reflexivity.
    + apply IH; [exact Hnd|]. intros H1. apply E. right. exact H1.
Qed.

Lemma nodup_keys_update {X} : forall (b a : list (text * X)), NoDup (map fst a) -> NoDup (map fst (update a b)).
Proof.
  unfold update. induction b as [|[k v] b IH]; intros a H; cbn [fold_left]; [exact H|].
  apply IH. apply nodup_keys_upd. exact H.
Qed.

Lemma Forall_upd {X} (P : X -> Prop) (l : list (text * X)) k v :
  Forall (fun kv => P (snd kv)) l -> P v -> Forall (fun kv => P (snd kv)) (upd l k v).
Proof.
  intros Hl Hv. induction Hl as [|[k0 x0] l Hx Hl IH]; cbn [upd].
  - constructor; [exact Hv|constructor].
  - destruct (text_eqb k k0); constructor; try assumption.
Qed.

Lemma Forall_update {X} (P : X -> Prop) : forall (b a : list (text * X)),
  Forall (fun kv => P (snd kv)) a -> Forall (fun kv => P (snd kv)) b ->
  Forall (fun kv => P (snd kv)) (update a b).
Proof.
  unfold update. induction b as [|[k v] b IH]; intros a Ha Hb; cbn [fold_left]; [exact Ha|].
  inversion Hb as [|x xs Hv Hb']; subst. apply IH; [|exact Hb'].
  apply Forall_upd; assumption.
Qed.

Lemma Forall_remove_key {X} (P : text * X -> Prop) k l : Forall P l -> Forall P (remove_key k l).
Proof.
  intros H. unfold remove_key. apply Forall_forall. intros x Hx. apply filter_In in Hx.
  destruct Hx as [Hx _]. revert x Hx. apply Forall_forall. exact H.
Qed.

(* ------------------------------------------------------------------------ *)
(* well-formed definitions: what the randomizer constructors assert          *)
(* ------------------------------------------------------------------------ *)
Definition sval_wf (sv : sval) : Prop := match sv with SV _ => True | SR r => rnd_wf r end.
Definition spec_wf (sp : spec) : Prop := Forall (fun kv => sval_wf (snd kv)) sp.
Definition def_wf (Df : sdef) : Prop :=
  Forall (fun e => spec_wf (snd e)) (d_types Df) /\
  Forall (fun e => Forall (fun c => spec_wf (snd c)) (snd e)) (d_rels Df).

Lemma getd_wf k types : Forall (fun e => spec_wf (snd e)) types -> spec_wf (getd k types).
Proof.
  intros H. unfold getd. destruct (lookup k types) eqn:E; [|constructor].
  apply lookup_In in E. rewrite Forall_forall in H. exact (H _ E).
Qed.

Lemma merge_wf nt sp types :
  Forall (fun e => spec_wf (snd e)) types -> spec_wf sp -> spec_wf (merge_specs nt sp types).
Proof.
  intros Ht Hs. unfold merge_specs, spec_wf.
  apply Forall_update; [apply Forall_update; apply getd_wf; exact Ht | exact Hs].
Qed.

Lemma strip_wf m : spec_wf m -> spec_wf (strip m).
Proof. intros H. unfold strip, spec_wf. do 3 apply Forall_remove_key. exact H. Qed.

Lemma lookup_wf k m sv : spec_wf m -> lookup k m = Some sv -> sval_wf sv.
Proof.
  intros H E. apply lookup_In in E. unfold spec_wf in H. rewrite Forall_forall in H. exact (H _ E).
Qed.

(* ------------------------------------------------------------------------ *)
(* the stream-threading loop                                                 *)
(* ------------------------------------------------------------------------ *)
Lemma Forall2_imp {X Y} (P Q : X -> Y -> Prop) l l' :
  (forall x y, P x y -> Q x y) -> Forall2 P l l' -> Forall2 Q l l'.
Proof. intros H F. induction F; constructor; auto. Qed.

Lemma smap_Forall2 {X Y} (f : X -> stream -> Y * stream) : forall l s,
  Forall2 (fun x y => In x l /\ exists s1, y = fst (f x s1)) l (fst (smap f l s)).
Proof.
  induction l as [|x l IH]; intros s; cbn [smap]; [constructor|].
  destruct (f x s) as [y s1] eqn:E1. specialize (IH s1).
  destruct (smap f l s1) as [ys s2]. cbn [fst] in *. constructor.
  - split; [left; reflexivity | exists s; rewrite E1; reflexivity].
  - eapply Forall2_imp; [|exact IH]. cbn beta. intros a b [Hin Hex]. split; [right; exact Hin | exact Hex].
Qed.

Lemma smap_ext {X Y} (f g : X -> stream -> Y * stream) : forall l s,
  (forall x s', In x l -> f x s' = g x s') -> smap f l s = smap g l s.
Proof.
  induction l as [|x l IH]; intros s H; cbn [smap]; [reflexivity|].
  rewrite (H x s (or_introl eq_refl)). destruct (g x s) as [y s1].
  rewrite (IH s1); [reflexivity|]. intros x' s' Hin. apply H. right. exact Hin.
Qed.

(* ------------------------------------------------------------------------ *)
(* THE SPECIFICATION: conformance of a forest to a structure definition.     *)
(* Declarative, no stream, no fuel, no prefix string.                        *)
(* ------------------------------------------------------------------------ *)
(* number of children one relation may create *)
Definition count_ok (c : option sval) (n : nat) : Prop :=
  match c with
  | None => n = 1%nat                                   (* default of spec.pop(":count", 1) *)
  | Some (SV v) => n = count_of v                       (* fixed *)
  | Some (SR r) => exists raw, rnd_may r raw /\ n = count_of raw
  end.

(* value of one attribute of the child with 1-based index i (= last element of path) *)
Definition val_ok (sv : sval) (i : nat) (path : list nat) (v : value) : Prop :=
  match sv with
  | SV v0 => v = expand i (dotted path) v0
  | SR r => exists raw, rnd_may r raw /\ raw <> VNone /\ v = expand i (dotted path) raw
  end.
Definition may_skip (sv : sval) : Prop :=
  match sv with SV _ => False | SR r => rnd_may r VNone end.

(* the node's dict, aligned with the merged spec: every key in spec order, present
   with an allowed value, or absent – only possible for a randomizer that may
   answer None *)
Inductive attrs_ok (i : nat) (path : list nat) : spec -> list (text * value) -> Prop :=
| AO_nil : attrs_ok i path [] []
| AO_keep k sv v m a : val_ok sv i path v -> attrs_ok i path m a ->
                       attrs_ok i path ((k, sv) :: m) ((k, v) :: a)
| AO_skip k sv m a : may_skip sv -> attrs_ok i path m a -> attrs_ok i path ((k, sv) :: m) a.

(* the node's data object: class = the merged ":factory" (DictWrapper by default),
   content = a dict aligned with the merged spec, after the merged ":callback" *)
Definition data_ok (m : spec) (i : nat) (path : list nat) (t : gt) : Prop :=
  g_fac t = fac_of (lookup K_factory m) /\
  exists a0, attrs_ok i path (strip m) a0 /\
             g_attrs t = apply_cb (cb_of (lookup K_callback m)) a0.

Lemma data_ok_nocb m i path t :
  cb_of (lookup K_callback m) = CbNone -> data_ok m i path t -> attrs_ok i path (strip m) (g_attrs t).
Proof. intros E [_ [a0 [Ha Hg]]]. rewrite E in Hg. cbn [apply_cb] in Hg. rewrite Hg. exact Ha. Qed.

Section Spec.
  Variable Df : sdef.
  Let types := d_types Df.
  Let rels := d_rels Df.

  Definition mspec (e : text * spec) : spec := merge_specs (fst e) (snd e) types.

  (* the children below a node of type ptype at index path [path] *)
  Inductive Conf : text -> list nat -> list gt -> Prop :=
  | Conf_intro ptype path cs groups :
      lookup ptype rels = Some cs ->
      Forall2 (fun (e : text * spec) (g : list gt) =>
                 exists n, count_ok (lookup K_count (mspec e)) n /\
                   Forall2 (fun (i : nat) (t : gt) =>
                              g_type t = fst e /\
                              data_ok (mspec e) i (path ++ [i]) t /\
                              (mem (fst e) rels = true -> Conf (fst e) (path ++ [i]) (g_ch t)) /\
                              (mem (fst e) rels = false -> g_ch t = []))
                           (seq 1 n) g)
              cs groups ->
      Conf ptype path (concat groups).

  (* a relation that can create a child *)
  Definition can_be_pos (c : option sval) : bool :=
    match c with Some (SV v) => Nat.ltb 0 (count_of v) | _ => true end.

  (* D39: acyclic relation graph = a rank that decreases along every relation that
     can create a child whose type has relations of its own *)
  Definition rank_ok (rk : text -> nat) : Prop :=
    forall p cs e, lookup p rels = Some cs -> In e cs ->
      can_be_pos (lookup K_count (mspec e)) = true -> mem (fst e) rels = true ->
      (rk (fst e) < rk p)%nat.

  Hypothesis Hwf : def_wf Df.

  (* :count resolves to something range() accepts (otherwise the code raises TypeError) *)
  Definition count_wf (c : option sval) : Prop :=
    match c with
    | None => True
    | Some (SV v) => countable v = true
    | Some (SR r) => forall raw, rnd_may r raw -> countable raw = true
    end.
  Definition counts_wf : Prop :=
    forall p cs e, lookup p rels = Some cs -> In e cs -> count_wf (lookup K_count (mspec e)).
  Hypothesis Hcw : counts_wf.

  Lemma count_err_false c s : (forall sv, c = Some sv -> sval_wf sv) -> count_wf c -> count_err c s = false.
  Proof.
    intros Hs Hc. destruct c as [[v|r]|]; cbn [count_err count_wf] in *.
    - rewrite Hc. reflexivity.
    - rewrite (Hc _ (gen_may r s (Hs _ eq_refl))). reflexivity.
    - reflexivity.
  Qed.

  Lemma mspec_wf p cs e : lookup p rels = Some cs -> In e cs -> spec_wf (mspec e).
  Proof.
    intros Hl Hin. destruct Hwf as [Ht Hr]. apply merge_wf; [exact Ht|].
    apply lookup_In in Hl. rewrite Forall_forall in Hr. specialize (Hr _ Hl). cbn [snd] in Hr.
    rewrite Forall_forall in Hr. exact (Hr _ Hin).
  Qed.

  Lemma resolve_count_ok c s : (forall sv, c = Some sv -> sval_wf sv) -> count_ok c (fst (resolve_count c s)).
  Proof.
    intros H. destruct c as [[v|r]|]; cbn [resolve_count count_ok].
    - reflexivity.
    - specialize (H _ eq_refl). cbn [sval_wf] in H.
      pose proof (gen_may r s H) as Hm. destruct (gen r s) as [raw s1]. cbn [fst] in *.
      exists raw. split; [exact Hm | reflexivity].
    - reflexivity.
  Qed.

  Lemma resolve_count_pos c s : (0 < fst (resolve_count c s))%nat -> can_be_pos c = true.
  Proof.
    destruct c as [[v|r]|]; cbn [resolve_count can_be_pos fst]; intros H; try reflexivity.
    apply Nat.ltb_lt. exact H.
  Qed.

  Lemma resolve_dict_ok i path : forall d s, spec_wf d ->
    attrs_ok i path d (fst (resolve_dict d i (dotted path) s)).
  Proof.
    induction d as [|[k sv] d IH]; intros s Hd; cbn [resolve_dict]; [constructor|].
    inversion Hd as [|x xs Hsv Hd']; subst. cbn [snd] in Hsv.
    destruct sv as [v|r].
    - specialize (IH s Hd'). destruct (resolve_dict d i (dotted path) s) as [rest s2]. cbn [fst] in *.
      apply AO_keep; [reflexivity | exact IH].
    - cbn [sval_wf] in Hsv. pose proof (gen_may r s Hsv) as Hm.
      destruct (gen r s) as [raw s1]. cbn [fst] in Hm.
      specialize (IH s1 Hd'). destruct (resolve_dict d i (dotted path) s1) as [rest s2]. cbn [fst] in *.
      destruct raw; try (apply AO_keep; [eexists; split; [exact Hm | split; [discriminate | reflexivity]] | exact IH]).
      apply AO_skip; [exact Hm | exact IH].
  Qed.

  (* MAIN THEOREM: for every stream, every path and enough fuel *)
  Theorem make_tree_conf (rk : text -> nat) : rank_ok rk ->
    forall fuel ptype path s, (rk ptype < fuel)%nat -> mem ptype rels = true ->
      Conf ptype path (fst (make_tree Df fuel ptype (dotted path) s)).
  Proof.
    intros Hrk. induction fuel as [|fuel IH]; intros ptype path s Hfuel Hmem; [lia|].
    cbn [make_tree]. fold rels. unfold mem in Hmem.
    destruct (lookup ptype rels) as [cs|] eqn:Hl; [|discriminate].
    pose proof (smap_Forall2 (make_group Df (make_tree Df fuel) (dotted path)) cs s) as HF.
    destruct (smap (make_group Df (make_tree Df fuel) (dotted path)) cs s) as [groups s']. cbn [fst] in *.
    apply Conf_intro with (cs := cs); [exact Hl|].
    eapply Forall2_imp; [|exact HF]. cbn beta. clear HF groups s'.
    intros e g [Hin [s1 ->]].
    unfold make_group. fold types. fold (mspec e).
    pose proof (mspec_wf _ _ _ Hl Hin) as Hmw.
    rewrite (count_err_false _ s1 (fun sv E => lookup_wf _ _ _ Hmw E) (Hcw _ _ _ Hl Hin)).
    pose proof (resolve_count_ok (lookup K_count (mspec e)) s1 (fun sv E => lookup_wf _ _ _ Hmw E)) as Hc.
    pose proof (resolve_count_pos (lookup K_count (mspec e)) s1) as Hpos.
    destruct (resolve_count (lookup K_count (mspec e)) s1) as [cnt s2]. cbn [fst] in *.
    exists cnt. split; [exact Hc|].
    pose proof (smap_Forall2 (make_node Df (make_tree Df fuel) (fst e) (cb_of (lookup K_callback (mspec e)))
                                        (fac_of (lookup K_factory (mspec e))) (strip (mspec e)) (dotted path)) (seq 1 cnt) s2) as HG.
    eapply Forall2_imp; [|exact HG]. cbn beta. clear HG.
    intros i t [Hi [s3 ->]].
    apply in_seq in Hi.
    unfold make_node. fold rels. rewrite hier_dotted.
    pose proof (resolve_dict_ok i (path ++ [i]) (strip (mspec e)) s3 (strip_wf _ Hmw)) as Ha.
    destruct (resolve_dict (strip (mspec e)) i (dotted (path ++ [i])) s3) as [data s4]. cbn [fst] in Ha.
    assert (Hd : forall ch, data_ok (mspec e) i (path ++ [i])
                   (G (fst e) (fac_of (lookup K_factory (mspec e))) (apply_cb (cb_of (lookup K_callback (mspec e))) data) ch)).
    { intros ch. split; [reflexivity|]. exists data. split; [exact Ha | reflexivity]. }
    destruct (mem (fst e) rels) eqn:Hm.
    - assert (Hlt : (rk (fst e) < fuel)%nat).
      { assert (rk (fst e) < rk ptype)%nat; [|lia].
        apply (Hrk ptype cs e Hl Hin); [apply Hpos; lia | exact Hm]. }
      pose proof (IH (fst e) (path ++ [i]) s4 Hlt Hm) as Hch.
      destruct (make_tree Df fuel (fst e) (dotted (path ++ [i])) s4) as [ch s5]. cbn [fst g_type g_ch] in *.
      refine (conj eq_refl (conj (Hd ch) (conj (fun _ => Hch) _))). discriminate.
    - cbn [fst g_type g_ch].
      refine (conj eq_refl (conj (Hd []) (conj _ (fun _ => eq_refl)))). discriminate.
  Qed.

  (* fuel sufficiency: any two fuels above the rank give the same tree and the same rest stream *)
  Theorem make_tree_fuel (rk : text -> nat) : rank_ok rk ->
    forall f1 f2 ptype prefix s, (rk ptype < f1)%nat -> (rk ptype < f2)%nat ->
      make_tree Df f1 ptype prefix s = make_tree Df f2 ptype prefix s.
  Proof.
    intros Hrk. induction f1 as [|f1 IH]; intros f2 ptype prefix s H1 H2; [lia|].
    destruct f2 as [|f2]; [lia|]. cbn [make_tree]. fold rels.
    destruct (lookup ptype rels) as [cs|] eqn:Hl; [|reflexivity].
    rewrite (smap_ext (make_group Df (make_tree Df f1) prefix) (make_group Df (make_tree Df f2) prefix)); [reflexivity|].
    intros e s1 Hin. unfold make_group. fold types. fold (mspec e).
    destruct (count_err (lookup K_count (mspec e)) s1); [reflexivity|].
    pose proof (resolve_count_pos (lookup K_count (mspec e)) s1) as Hpos.
    destruct (resolve_count (lookup K_count (mspec e)) s1) as [cnt s2]. cbn [fst] in Hpos.
    apply smap_ext. intros i s3 Hi. apply in_seq in Hi.
    unfold make_node. fold rels.
    destruct (resolve_dict (strip (mspec e)) i (hier prefix i) s3) as [data s4].
    destruct (mem (fst e) rels) eqn:Hm; [|reflexivity].
    assert (Hlt : (rk (fst e) < rk ptype)%nat).
    { apply (Hrk ptype cs e Hl Hin); [apply Hpos; lia | exact Hm]. }
    rewrite (IH f2 (fst e) (hier prefix i) s4); [reflexivity | lia | lia].
  Qed.
End Spec.

(* ------------------------------------------------------------------------ *)
(* consequences of conformance, node by node                                 *)
(* ------------------------------------------------------------------------ *)
Section Consequences.
  Variable Df : sdef.
  Let types := d_types Df.
  Let rels := d_rels Df.

  (* what conformance says about one node of the forest *)
  Definition node_ok (ptype : text) (path : list nat) (t : gt) : Prop :=
    exists cs e i,
      lookup ptype rels = Some cs /\ In e cs /\ (1 <= i)%nat /\
      g_type t = fst e /\
      data_ok (mspec Df e) i (path ++ [i]) t /\
      (mem (fst e) rels = true -> Conf Df (fst e) (path ++ [i]) (g_ch t)) /\
      (mem (fst e) rels = false -> g_ch t = []).

  Lemma Forall2_In_r {X Y} (R : X -> Y -> Prop) l l' y :
    Forall2 R l l' -> In y l' -> exists x, In x l /\ R x y.
  Proof.
    induction 1 as [|x0 y0 l l' HR HF IH]; intros Hin; [destruct Hin|].
    destruct Hin as [->|Hin].
    - exists x0. split; [left; reflexivity | exact HR].
    - destruct (IH Hin) as [x [Hx HRx]]. exists x. split; [right; exact Hx | exact HRx].
  Qed.

  Lemma Conf_node ptype path f t : Conf Df ptype path f -> In t f -> node_ok ptype path t.
  Proof.
    intros HC Hin. inversion HC as [pt pa cs groups Hl HF]; subst.
    apply in_concat in Hin. destruct Hin as [g [Hg Ht]].
    destruct (Forall2_In_r _ _ _ _ HF Hg) as [e [He [n [Hc HG]]]].
    destruct (Forall2_In_r _ _ _ _ HG Ht) as [i [Hi [Hty [Ha [Hch Hleaf]]]]].
    apply in_seq in Hi.
    exists cs, e, i. refine (conj Hl (conj He (conj _ (conj Hty (conj Ha (conj Hch Hleaf)))))). lia.
  Qed.

  (* node u occurs somewhere in forest f (the children of a node of type pt) and its
     parent has type q ("__root__" for top-level nodes) *)
  Inductive NodeAt : text -> list gt -> text -> gt -> Prop :=
  | NA_here pt f t : In t f -> NodeAt pt f pt t
  | NA_below pt f t q u : In t f -> NodeAt (g_type t) (g_ch t) q u -> NodeAt pt f q u.

  (* EVERY node, at any depth: its type is one its parent's type may have according to
     the relations, its dict is the merged spec of that relation with its own index
     path, its children conform again / a leaf type has no children *)
  Theorem every_node ptype path f q u :
    Conf Df ptype path f -> NodeAt ptype f q u -> exists path', node_ok q path' u.
  Proof.
    intros HC HN. revert path HC.
    induction HN as [pt f t Hin | pt f t q u Hin HN IH]; intros path HC.
    - exists path. exact (Conf_node _ _ _ _ HC Hin).
    - destruct (Conf_node _ _ _ _ HC Hin) as [cs [e [i [Hl [He [Hi [Hty [Ha [Hch Hleaf]]]]]]]]].
      destruct (mem (fst e) rels) eqn:Hm.
      + rewrite Hty in IH. exact (IH _ (Hch eq_refl)).
      + rewrite (Hleaf eq_refl) in HN. inversion HN as [? ? ? Hx | ? ? ? ? ? Hx]; destruct Hx.
  Qed.

  (* ---- per relation: the group of a relation = the children of that type,
          the macro index = 1 + position among the children of that type ------- *)
  Definition of_type (ct : text) (t : gt) : bool := text_eqb (g_type t) ct.

  Lemma filter_all {X} (p : X -> bool) l : Forall (fun x => p x = true) l -> filter p l = l.
  Proof. induction 1 as [|x l Hx Hl IH]; cbn [filter]; [reflexivity|]. rewrite Hx, IH. reflexivity. Qed.
  Lemma filter_none {X} (p : X -> bool) l : Forall (fun x => p x = false) l -> filter p l = [].
  Proof. induction 1 as [|x l Hx Hl IH]; cbn [filter]; [reflexivity|]. rewrite Hx, IH. reflexivity. Qed.

  Lemma filter_concat_groups (R : text * spec -> list gt -> Prop) :
    (forall e g, R e g -> Forall (fun t => g_type t = fst e) g) ->
    forall cs groups, Forall2 R cs groups -> NoDup (map fst cs) ->
    forall e, In e cs -> exists g, R e g /\ filter (of_type (fst e)) (concat groups) = g.
  Proof.
    intros Hty. induction 1 as [|e0 g0 cs groups HR HF IH]; intros Hnd e Hin; [destruct Hin|].
    cbn [map fst] in Hnd. inversion Hnd as [|x xs Hnotin Hnd']; subst.
    cbn [concat]. rewrite filter_app.
    destruct Hin as [->|Hin].
    - exists g0. split; [exact HR|].
      rewrite (filter_all _ g0).
      + rewrite (filter_none _ (concat groups)); [apply app_nil_r|].
        apply Forall_forall. intros t Ht. apply in_concat in Ht. destruct Ht as [g [Hg Ht]].
        destruct (Forall2_In_r _ _ _ _ HF Hg) as [e' [He' HR']].
        pose proof (Hty _ _ HR') as Hall. rewrite Forall_forall in Hall.
        unfold of_type. rewrite (Hall _ Ht).
        destruct (text_eqb (fst e') (fst e)) eqn:E; [|reflexivity].
        apply text_eqb_eq in E. exfalso. apply Hnotin. rewrite <- E. apply in_map. exact He'.
      + pose proof (Hty _ _ HR) as Hall. eapply Forall_impl; [|exact Hall].
        intros t Ht. cbv beta in Ht. unfold of_type. rewrite Ht. apply text_eqb_refl.
    - destruct (IH Hnd' e Hin) as [g [HRg Hg]]. exists g. split; [exact HRg|].
      rewrite (filter_none _ g0); [exact Hg|].
      pose proof (Hty _ _ HR) as Hall. eapply Forall_impl; [|exact Hall].
      intros t Ht. cbv beta in Ht. unfold of_type. rewrite Ht.
      destruct (text_eqb (fst e0) (fst e)) eqn:E; [|reflexivity].
      apply text_eqb_eq in E. exfalso. apply Hnotin. rewrite E. apply in_map. exact Hin.
  Qed.

  Lemma Forall2_seq_nth {Y} (R : nat -> Y -> Prop) : forall n start g,
    Forall2 R (seq start n) g ->
    length g = n /\ forall k t, nth_error g k = Some t -> R (start + k)%nat t.
  Proof.
    induction n as [|n IH]; intros start g HF; cbn [seq] in HF.
    - inversion HF; subst. split; [reflexivity|]. intros [|k] t H; discriminate H.
    - inversion HF as [|x y l l' HR HF']; subst. destruct (IH _ _ HF') as [Hlen Hnth].
      split; [cbn [length]; rewrite Hlen; reflexivity|].
      intros [|k] t H; cbn [nth_error] in H.
      + injection H as <-. rewrite Nat.add_0_r. exact HR.
      + replace (start + S k)%nat with (S start + k)%nat by lia. apply Hnth. exact H.
  Qed.

  (* For a parent whose relation dict has distinct keys (it is a dict): the children
     of type ct, in order, are exactly the group of relation ct; their number obeys
     :count; the k-th of them (0-based) carries macro index k+1. *)
  Theorem relation_group ptype path f cs e :
    Conf Df ptype path f -> lookup ptype rels = Some cs -> NoDup (map fst cs) -> In e cs ->
    let g := filter (of_type (fst e)) f in
    count_ok (lookup K_count (mspec Df e)) (length g) /\
    forall k t, nth_error g k = Some t ->
      g_type t = fst e /\
      data_ok (mspec Df e) (S k) (path ++ [S k]) t /\
      (mem (fst e) rels = true -> Conf Df (fst e) (path ++ [S k]) (g_ch t)) /\
      (mem (fst e) rels = false -> g_ch t = []).
  Proof.
    intros HC Hl Hnd Hin. inversion HC as [pt pa cs' groups Hl' HF]; subst.
    fold rels in Hl'. rewrite Hl in Hl'. injection Hl' as <-.
    match type of HF with Forall2 ?R0 _ _ => set (R := R0) in * end.
    destruct (filter_concat_groups R) with (cs := cs) (groups := groups) (e := e) as [g [HRg Hg]]; try assumption.
    - intros e0 g0 [n [_ HG]]. clear -HG. remember (seq 1 n) as l eqn:El. clear El.
      induction HG as [|i t l g HR HG IH]; constructor; [exact (proj1 HR) | exact IH].
    - cbn zeta. rewrite Hg. destruct HRg as [n [Hc HG]].
      apply Forall2_seq_nth in HG. destruct HG as [Hlen Hnth]. rewrite Hlen.
      split; [exact Hc|]. intros k t Hk. exact (Hnth k t Hk).
  Qed.
End Consequences.

(* ------------------------------------------------------------------------ *)
(* reading the alignment relation attribute by attribute                     *)
(* ------------------------------------------------------------------------ *)
Lemma attrs_ok_keys i path m a : attrs_ok i path m a -> forall k, In k (map fst a) -> In k (map fst m).
Proof.
  induction 1 as [|k0 sv v m a Hv H IH|k0 sv m a Hs H IH]; intros k Hin; cbn [map fst In] in *.
  - exact Hin.
  - destruct Hin as [->|Hin]; [left; reflexivity | right; exact (IH k Hin)].
  - right. exact (IH k Hin).
Qed.

Lemma lookup_notin {X} k (l : list (text * X)) : ~ In k (map fst l) -> lookup k l = None.
Proof.
  induction l as [|[k0 x0] l IH]; cbn [lookup map fst In]; intros H; [reflexivity|].
  destruct (text_eqb k k0) eqn:E.
  - apply text_eqb_eq in E. subst. exfalso. apply H. left. reflexivity.
  - apply IH. intros H1. apply H. right. exact H1.
Qed.

(* with distinct keys in the merged spec (it is a dict): *)
Theorem attrs_ok_lookup i path m a : attrs_ok i path m a -> NoDup (map fst m) -> forall k,
  match lookup k m with
  | None => lookup k a = None                                    (* nothing invented *)
  | Some (SV v0) => lookup k a = Some (expand i (dotted path) v0)  (* fixed: present, macros expanded *)
  | Some (SR r) =>
      match lookup k a with
      | Some v => exists raw, rnd_may r raw /\ raw <> VNone /\ v = expand i (dotted path) raw
      | None => rnd_may r VNone                                  (* absent only if r may answer None *)
      end
  end.
Proof.
  induction 1 as [|k0 sv v m a Hv H IH|k0 sv m a Hs H IH]; intros Hnd k; cbn [lookup map fst] in *.
  - reflexivity.
  - inversion Hnd as [|x xs Hnotin Hnd']; subst. destruct (text_eqb k k0) eqn:E.
    + destruct sv as [v0|r]; cbn [val_ok] in Hv; [rewrite Hv; reflexivity | exact Hv].
    + exact (IH Hnd' k).
  - inversion Hnd as [|x xs Hnotin Hnd']; subst. destruct (text_eqb k k0) eqn:E.
    + apply text_eqb_eq in E. subst k0.
      assert (Hn : lookup k a = None).
      { apply lookup_notin. intros Hin. apply Hnotin. exact (attrs_ok_keys _ _ _ _ H k Hin). }
      destruct sv as [v0|r]; cbn [may_skip] in Hs; [destruct Hs|]. rewrite Hn. exact Hs.
    + exact (IH Hnd' k).
Qed.

Lemma keys_remove_key {X} k (l : list (text * X)) :
  map fst (remove_key k l) = filter (fun k' => negb (text_eqb k k')) (map fst l).
Proof.
  unfold remove_key. induction l as [|[k0 x0] l IH]; cbn [filter map fst]; [reflexivity|].
  destruct (negb (text_eqb k k0)); cbn [map fst]; rewrite IH; reflexivity.
Qed.

Lemma lookup_remove_key {X} k k' (l : list (text * X)) :
  lookup k (remove_key k' l) = if text_eqb k' k then None else lookup k l.
Proof.
  unfold remove_key. induction l as [|[k0 x0] l IH]; cbn [filter lookup fst].
  - destruct (text_eqb k' k); reflexivity.
  - destruct (text_eqb k' k0) eqn:E0; cbn [negb lookup].
    + rewrite IH. destruct (text_eqb k' k) eqn:E1; [reflexivity|].
      destruct (text_eqb k k0) eqn:E2; [|reflexivity].
      apply text_eqb_eq in E0. apply text_eqb_eq in E2. subst. rewrite text_eqb_refl in E1. discriminate.
    + rewrite IH. destruct (text_eqb k k0) eqn:E2; [|reflexivity].
      destruct (text_eqb k' k) eqn:E1; [|reflexivity].
      apply text_eqb_eq in E1. apply text_eqb_eq in E2. subst. rewrite text_eqb_refl in E0. discriminate.
Qed.

(* what a callback does to the dict, key by key *)
Lemma lookup_apply_cb k cb a :
  lookup k (apply_cb cb a) =
  match cb with
  | CbNone => lookup k a
  | CbSet k' z => if text_eqb k k' then Some (VInt z) else lookup k a
  | CbDel k' => if text_eqb k' k then None else lookup k a
  end.
Proof. destruct cb as [|k' z|k']; cbn [apply_cb]; [reflexivity | apply lookup_upd | apply lookup_remove_key]. Qed.

Definition special (k : text) : bool :=
  text_eqb K_count k || text_eqb K_callback k || text_eqb K_factory k.

(* the dict of a node never has the three popped keys; every other key is looked up
   in the merge *)
Lemma lookup_strip k m : lookup k (strip m) = if special k then None else lookup k m.
Proof.
  unfold strip, special. rewrite !lookup_remove_key.
  destruct (text_eqb K_factory k), (text_eqb K_callback k), (text_eqb K_count k); reflexivity.
Qed.

Lemma filter_filter {X} (f g : X -> bool) l : filter f (filter g l) = filter (fun x => g x && f x) l.
Proof.
  induction l as [|x l IH]; cbn [filter]; [reflexivity|].
  destruct (g x); cbn [filter andb]; [destruct (f x)|]; rewrite IH; reflexivity.
Qed.

Lemma keys_strip m : map fst (strip m) = filter (fun k => negb (special k)) (map fst m).
Proof.
  unfold strip. rewrite !keys_remove_key, !filter_filter. apply filter_ext. intros k. unfold special.
  destruct (text_eqb K_count k), (text_eqb K_callback k), (text_eqb K_factory k); reflexivity.
Qed.

Lemma nodup_filter {X} (p : X -> bool) l : NoDup l -> NoDup (filter p l).
Proof.
  induction 1 as [|x l Hn Hnd IH]; cbn [filter]; [constructor|].
  destruct (p x); [|exact IH]. constructor; [|exact IH].
  intros H. apply filter_In in H. exact (Hn (proj1 H)).
Qed.

Lemma nodup_keys_strip m : NoDup (map fst m) -> NoDup (map fst (strip m)).
Proof. intros H. unfold strip. rewrite !keys_remove_key. do 3 apply nodup_filter. exact H. Qed.

Lemma nodup_keys_merge nt sp types :
  NoDup (map fst (getd K_star types)) -> NoDup (map fst (merge_specs nt sp types)).
Proof. intros H. unfold merge_specs. do 2 apply nodup_keys_update. exact H. Qed.

(* ------------------------------------------------------------------------ *)
(* reading count_ok                                                          *)
(* ------------------------------------------------------------------------ *)
Lemma rnd_may_p1 r raw : (prob_of r == 1)%Q -> rnd_may r raw -> in_range r raw.
Proof. intros H1 [[_ H]|[H _]]; [exact H | exfalso; exact (H H1)]. Qed.

Lemma rnd_may_p0 r raw : (prob_of r == 0)%Q -> rnd_may r raw -> raw = none_of r.
Proof. intros H0 [[H _]|[_ H]]; [exfalso; exact (H H0) | exact H]. Qed.

(* RangeRandomizer(lo, hi) with probability 1.0 as :count: lo <= n < hi *)
Lemma count_ok_range lo hi p none n :
  (p == 1)%Q -> 0 <= lo -> count_ok (Some (SR (RRangeI lo hi p none))) n -> lo <= Z.of_nat n < hi.
Proof.
  intros Hp Hlo [raw [Hm ->]]. apply rnd_may_p1 in Hm; [|exact Hp].
  destruct Hm as [z [-> Hz]]. cbn [count_of]. lia.
Qed.

(* ... with any probability: in the range, or the count the none value stands for *)
Lemma count_ok_range_any lo hi p none n :
  0 <= lo -> count_ok (Some (SR (RRangeI lo hi p none))) n -> lo <= Z.of_nat n < hi \/ n = count_of none.
Proof.
  intros Hlo [raw [[[_ Hm]|[_ Hm]] ->]].
  - destruct Hm as [z [-> Hz]]. left. cbn [count_of]. lia.
  - right. rewrite Hm. reflexivity.
Qed.

(* ------------------------------------------------------------------------ *)
(* stream-aware: an attribute skipped by probability is absent               *)
(* ------------------------------------------------------------------------ *)
Lemma resolve_dict_keys i p : forall d s k,
  In k (map fst (fst (resolve_dict d i p s))) -> In k (map fst d).
Proof.
  induction d as [|[k0 sv] d IH]; intros s k; cbn [resolve_dict]; [intros H; exact H|].
  destruct sv as [v|r].
  - specialize (IH s k). destruct (resolve_dict d i p s) as [rest s2]. cbn [fst map In] in *.
    intros [->|H]; [left; reflexivity | right; exact (IH H)].
  - destruct (gen r s) as [raw s1]. specialize (IH s1 k).
    destruct (resolve_dict d i p s1) as [rest s2]. cbn [fst map In] in *.
    destruct raw; cbn [fst map In]; try (intros [->|H]; [left; reflexivity | right; exact (IH H)]).
    intros H. right. exact (IH H).
Qed.

(* the draw u = random() of the skip test is >= probability (< 1.0), the randomizer
   answers None when skipped: the rest of the dict is resolved from the next draw on
   as if the key were not there, and the key is absent from the result *)
Theorem resolve_dict_skipped k r d i p s :
  ~ (prob_of r == 1)%Q -> (prob_of r <= rand01 (fst (next s)))%Q -> none_of r = VNone ->
  resolve_dict ((k, SR r) :: d) i p s = resolve_dict d i p (snd (next s)) /\
  (~ In k (map fst d) -> lookup k (fst (resolve_dict ((k, SR r) :: d) i p s)) = None).
Proof.
  intros Hp Hu Hn.
  assert (E : resolve_dict ((k, SR r) :: d) i p s = resolve_dict d i p (snd (next s))).
  { cbn [resolve_dict]. rewrite (gen_skipped r s Hp Hu), Hn.
    destruct (resolve_dict d i p (snd (next s))) as [rest s2]. reflexivity. }
  split; [exact E|]. intros Hnotin. rewrite E. apply lookup_notin.
  intros H. apply Hnotin. exact (resolve_dict_keys _ _ _ _ _ H).
Qed.

(* probability 0.0: skipped whatever the stream is *)
Corollary resolve_dict_prob_zero k r d i p s :
  (prob_of r == 0)%Q -> none_of r = VNone ->
  resolve_dict ((k, SR r) :: d) i p s = resolve_dict d i p (snd (next s)).
Proof.
  intros H0 Hn. apply resolve_dict_skipped; [| |exact Hn].
  - intros H1. rewrite H0 in H1. discriminate H1.
  - rewrite H0. apply (rand01_range (fst (next s))).
Qed.

(* ------------------------------------------------------------------------ *)
(* str(int): decoding law for [dec]                                          *)
(* ------------------------------------------------------------------------ *)
Definition undec (t : text) : Z := fold_left (fun a d => 10 * a + (d - 48)) t 0.

Lemma dec_aux_value : forall fuel n acc, (n < fuel)%nat ->
  fold_left (fun a d => 10 * a + (d - 48)) (dec_aux fuel n acc) 0 =
  fold_left (fun a d => 10 * a + (d - 48)) acc (Z.of_nat n).
Proof.
  induction fuel as [|f IH]; intros n acc Hlt; [lia|].
  cbn [dec_aux]. pose proof (Nat.div_mod n 10 ltac:(discriminate)) as Hdm.
  destruct (n <? 10)%nat eqn:E.
  - apply Nat.ltb_lt in E. cbn [fold_left].
    rewrite (Nat.mod_small n 10 E). f_equal. lia.
  - apply Nat.ltb_ge in E. rewrite IH.
    + cbn [fold_left]. f_equal.
      assert (Hm : (n mod 10 < 10)%nat) by (apply Nat.mod_upper_bound; discriminate). lia.
    + assert (n / 10 < n)%nat by (apply Nat.div_lt; lia). lia.
Qed.

Theorem dec_undec n : undec (dec n) = Z.of_nat n.
Proof. unfold undec, dec. rewrite dec_aux_value by lia. reflexivity. Qed.

Lemma dec_aux_digits : forall fuel n acc,
  Forall (fun d => 48 <= d <= 57) acc -> Forall (fun d => 48 <= d <= 57) (dec_aux fuel n acc).
Proof.
  induction fuel as [|f IH]; intros n acc Hacc; cbn [dec_aux]; [exact Hacc|].
  assert (Hm : (n mod 10 < 10)%nat) by (apply Nat.mod_upper_bound; discriminate).
  assert (Hd : 48 <= Z.of_nat (n mod 10) + 48 <= 57) by lia.
  destruct (n <? 10)%nat; [constructor; assumption | apply IH; constructor; assumption].
Qed.

Lemma dec_digits n : Forall (fun d => 48 <= d <= 57) (dec n).
Proof. apply dec_aux_digits. constructor. Qed.

(* ------------------------------------------------------------------------ *)
(* decidable versions of the domain hypotheses (used by the correspondence:   *)
(* every case the implementation ran on is inside the theorems' domain)       *)
(* ------------------------------------------------------------------------ *)
Definition rnd_wfb (r : rnd) : bool :=
  match r with
  | RRangeI lo hi _ _ => lo <? hi
  | RRangeF lo hi _ _ => negb (Qle_bool hi lo)
  | RDate _ days _ _ => 0 <? days
  | RValue _ _ => true
  | RSample vals counts _ =>
      let c := counts_of vals counts in
      Nat.eqb (length c) (length vals) && forallb (fun x => 0 <=? x) c && (0 <? total c)
  | RText _ _ => true
  end.
Definition sval_wfb (sv : sval) : bool := match sv with SV _ => true | SR r => rnd_wfb r end.
Definition spec_wfb (sp : spec) : bool := forallb (fun kv => sval_wfb (snd kv)) sp.
Definition def_wfb (Df : sdef) : bool :=
  forallb (fun e => spec_wfb (snd e)) (d_types Df) &&
  forallb (fun e => forallb (fun c => spec_wfb (snd c)) (snd e)) (d_rels Df).

(* the constructors' asserts give well-formedness (SampleRandomizer's counts are only
   checked by random.sample, when a value is generated) and a probability in [0,1] *)
Lemma ctor_ok_wf r : ctor_ok r = true ->
  (0 <= prob_of r)%Q /\ (prob_of r <= 1)%Q /\ (match r with RSample _ _ _ => True | _ => rnd_wf r end).
Proof.
  assert (P : forall p, Qle_bool 0 p && Qle_bool p 1 = true -> (0 <= p)%Q /\ (p <= 1)%Q).
  { intros p H. apply andb_true_iff in H. destruct H as [H1 H2]. split; apply Qle_bool_iff; assumption. }
  destruct r as [lo hi p none | lo hi p none | mn days stamp p | v p | vals counts p | arg p];
    cbn [ctor_ok prob_of rnd_wf]; intros H.
  - apply andb_true_iff in H. destruct H as [H H']. destruct (P p H) as [P0 P1].
    refine (conj P0 (conj P1 _)). apply Z.ltb_lt. exact H'.
  - apply andb_true_iff in H. destruct H as [H H']. destruct (P p H) as [P0 P1].
    refine (conj P0 (conj P1 _)). apply Qnot_le_lt. intros Hle. apply Qle_bool_iff in Hle. rewrite Hle in H'. discriminate.
  - apply andb_true_iff in H. destruct H as [H H']. destruct (P p H) as [P0 P1].
    refine (conj P0 (conj P1 _)). apply Z.ltb_lt. exact H'.
  - destruct (P p H) as [P0 P1]. exact (conj P0 (conj P1 Logic.I)).
  - destruct (P p H) as [P0 P1]. exact (conj P0 (conj P1 Logic.I)).
  - destruct (P p H) as [P0 P1]. exact (conj P0 (conj P1 Logic.I)).
Qed.

Lemma rnd_wfb_ok r : rnd_wfb r = true -> rnd_wf r.
Proof.
  destruct r as [lo hi p none | lo hi p none | mn days stamp p | v p | vals counts p | arg p];
    cbn [rnd_wfb rnd_wf]; intros H; try exact Logic.I.
  - apply Z.ltb_lt. exact H.
  - apply Qnot_le_lt. intros Hle. apply Qle_bool_iff in Hle. rewrite Hle in H. discriminate.
  - apply Z.ltb_lt. exact H.
  - apply andb_true_iff in H. destruct H as [H H3]. apply andb_true_iff in H. destruct H as [H1 H2].
    refine (conj _ (conj _ _)).
    + apply Nat.eqb_eq. exact H1.
    + apply Forall_forall. intros x Hx. rewrite forallb_forall in H2. apply Z.leb_le. exact (H2 x Hx).
    + apply Z.ltb_lt. exact H3.
Qed.

Lemma spec_wfb_ok sp : spec_wfb sp = true -> spec_wf sp.
Proof.
  unfold spec_wfb, spec_wf. rewrite forallb_forall, Forall_forall. intros H kv Hin.
  specialize (H kv Hin). destruct (snd kv) as [v|r]; [exact Logic.I | exact (rnd_wfb_ok r H)].
Qed.

Lemma def_wfb_ok Df : def_wfb Df = true -> def_wf Df.
Proof.
  unfold def_wfb, def_wf. intros H. apply andb_true_iff in H. destruct H as [H1 H2]. split.
  - apply Forall_forall. intros e He. rewrite forallb_forall in H1. exact (spec_wfb_ok _ (H1 e He)).
  - apply Forall_forall. intros e He. rewrite forallb_forall in H2. specialize (H2 e He).
    apply Forall_forall. intros c Hc. rewrite forallb_forall in H2. exact (spec_wfb_ok _ (H2 c Hc)).
Qed.

(* decidable (sufficient) form of counts_wf *)
Definition count_wfb (c : option sval) : bool :=
  match c with
  | None => true
  | Some (SV v) => countable v
  | Some (SR (RRangeI _ _ _ none)) => countable none
  | Some (SR (RValue v _)) => countable v
  | Some (SR (RSample vals _ _)) => forallb countable vals
  | Some (SR _) => false
  end.
Definition counts_wfb (Df : sdef) : bool :=
  forallb (fun pc : text * list (text * spec) =>
             forallb (fun e => count_wfb (lookup K_count (mspec Df e))) (snd pc)) (d_rels Df).

Lemma count_wfb_ok c : count_wfb c = true -> count_wf c.
Proof.
  destruct c as [[v|r]|]; cbn [count_wfb count_wf]; intros H; try exact H; try exact Logic.I.
  destruct r as [lo hi p none | lo hi p none | mn days stamp p | v p | vals counts p | arg p]; try discriminate;
    intros raw [[_ Hin]|[_ ->]]; cbn [in_range none_of] in *; try reflexivity; try exact H.
  - destruct Hin as [z [-> _]]. reflexivity.
  - subst raw. exact H.
  - destruct Hin as [c [Hin _]]. apply in_combine_l in Hin. rewrite forallb_forall in H. exact (H _ Hin).
Qed.

Lemma counts_wfb_ok Df : counts_wfb Df = true -> counts_wf Df.
Proof.
  unfold counts_wfb, counts_wf. intros H p cs e Hl Hin. apply lookup_In in Hl.
  rewrite forallb_forall in H. specialize (H _ Hl). cbn [snd] in H.
  rewrite forallb_forall in H. exact (count_wfb_ok _ (H _ Hin)).
Qed.

(* a :count that range() does not accept leaves the trace of the TypeError *)
Lemma count_err_raises Df rec prefix e s :
  count_err (lookup K_count (mspec Df e)) s = true ->
  fst (make_group Df rec prefix e s) = [err_node (fst e)] /\ raised (err_node (fst e)) = true.
Proof. intros H. unfold make_group. fold (mspec Df e). rewrite H. split; reflexivity. Qed.

Definition rk_of (l : list (text * nat)) (t : text) : nat :=
  match lookup t l with Some n => n | None => O end.

Definition rank_okb (Df : sdef) (rk : text -> nat) : bool :=
  forallb (fun pc : text * list (text * spec) =>
             forallb (fun e => negb (can_be_pos (lookup K_count (mspec Df e)))
                               || negb (mem (fst e) (d_rels Df))
                               || Nat.ltb (rk (fst e)) (rk (fst pc))) (snd pc))
          (d_rels Df).

Lemma rank_okb_ok Df rk : rank_okb Df rk = true -> rank_ok Df rk.
Proof.
  unfold rank_okb, rank_ok. intros H p cs e Hl Hin Hpos Hmem.
  apply lookup_In in Hl. rewrite forallb_forall in H. specialize (H _ Hl). cbn [fst snd] in H.
  rewrite forallb_forall in H. specialize (H _ Hin). rewrite Hpos, Hmem in H. cbn [negb orb] in H.
  apply Nat.ltb_lt. exact H.
Qed.

(* ------------------------------------------------------------------------ *)
(* D39: a cyclic definition – no fuel suffices, no rank exists               *)
(* ------------------------------------------------------------------------ *)
Definition TA : text := [97].
Definition Dcyc : sdef := SD None [] [(K_root, [(TA, [])]); (TA, [(TA, [])])].

Fixpoint chain (n : nat) : list gt := match n with O => [] | S k => [G TA 0 [] (chain k)] end.

Lemma cyc_chain : forall fuel pt prefix s, pt = K_root \/ pt = TA ->
  make_tree Dcyc fuel pt prefix s = (chain fuel, s).
Proof.
  induction fuel as [|fuel IH]; intros pt prefix s H; [reflexivity|].
  assert (Hl : lookup pt (d_rels Dcyc) = Some [(TA, [])]) by (destruct H as [->| ->]; reflexivity).
  cbn [make_tree]. rewrite Hl. cbn [smap]. unfold make_group.
  change (merge_specs (fst (TA, [])) (snd (TA, [])) (d_types Dcyc)) with (@nil (text * sval)).
  cbn [lookup count_err resolve_count seq smap]. unfold make_node.
  change (strip []) with (@nil (text * sval)). cbn [resolve_dict fst cb_of fac_of apply_cb].
  change (mem TA (d_rels Dcyc)) with true. cbv iota.
  rewrite (IH TA (hier prefix 1) s (or_intror eq_refl)). reflexivity.
Qed.

Lemma chain_height n : list_max (map g_height (chain n)) = n.
Proof.
  induction n as [|n IH]; [reflexivity|].
  cbn [chain map g_height list_max fold_right]. fold (list_max (map g_height (chain n))).
  rewrite IH. lia.
Qed.

Theorem cyclic_unbounded fuel s :
  list_max (map g_height (fst (make_tree Dcyc fuel K_root [] s))) = fuel.
Proof. rewrite cyc_chain by (left; reflexivity). apply chain_height. Qed.

Theorem cyclic_no_rank : ~ exists rk, rank_ok Dcyc rk.
Proof.
  intros [rk H].
  specialize (H TA [(TA, [])] (TA, []) eq_refl (or_introl eq_refl) eq_refl eq_refl).
  cbn [fst] in H. lia.
Qed.
