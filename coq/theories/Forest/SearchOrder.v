(* C09 — "in pre-order" without reference to the recursion that computes it:
   the order of a search answer is the document order of the forest, i.e. for
   two different nodes of the answer, x comes first iff y is a proper
   descendant of x, or x lies in the branch of an earlier sibling than y
   (somewhere up the tree).  Ported from the round-0 prototype Pre.v. *)
From Coq Require Import List ZArith Bool Arith Lia.
From NT Require Import Sx Rose ListFacts RoseFacts Search SearchProofs.
Import ListNotations.

(* x occurs strictly before y in l *)
Definition before {X} (l : list X) (x y : X) : Prop := exists l1 l2 l3, l = l1 ++ x :: l2 ++ y :: l3.

(* structural relations *)
Definition desc_of (x y : rt) : Prop := In y (pre_f (rch x)).     (* y is a proper descendant of x *)

Inductive left_of : forest -> rt -> rt -> Prop :=      (* x in the branch of an earlier sibling than y's *)
| left_here f1 a f2 b f3 x y : In x (pre a) -> In y (pre b) -> left_of (f1 ++ a :: f2 ++ b :: f3) x y
| left_deep f t x y : In t f -> left_of (rch t) x y -> left_of f x y.

Definition doc_before (f : forest) (x y : rt) : Prop := desc_of x y \/ left_of f x y.

Ltac la := repeat (rewrite <- app_assoc || rewrite <- app_comm_cons); try reflexivity.

Section Before.
  Context {X : Type}.
  Implicit Types (l : list X) (x y z : X).

  Lemma before_app_l l1 l2 x y : before l1 x y -> before (l1 ++ l2) x y.
  Proof. intros (a & b & c & ->). exists a, b, (c ++ l2). la. Qed.
  Lemma before_app_r l1 l2 x y : before l2 x y -> before (l1 ++ l2) x y.
  Proof. intros (a & b & c & ->). exists (l1 ++ a), b, c. la. Qed.
  Lemma before_app_cross l1 l2 x y : In x l1 -> In y l2 -> before (l1 ++ l2) x y.
  Proof.
    intros Hx Hy. apply in_split in Hx as (a & b & ->). apply in_split in Hy as (c & d & ->).
    exists a, (b ++ c), d. la.
  Qed.
  Lemma before_cons_head x l y : In y l -> before (x :: l) x y.
  Proof. intros Hy. apply in_split in Hy as (c & d & ->). exists [], c, d. reflexivity. Qed.
  Lemma before_cons z l x y : before l x y -> before (z :: l) x y.
  Proof. intros H. change (z :: l) with ([z] ++ l). now apply before_app_r. Qed.

  Lemma before_in l x y : before l x y -> In x l /\ In y l.
  Proof.
    intros (a & b & c & ->). split.
    - apply in_or_app. right. left. reflexivity.
    - apply in_or_app. right. right. apply in_or_app. right. left. reflexivity.
  Qed.

  Lemma before_total l x y : In x l -> In y l -> x <> y -> before l x y \/ before l y x.
  Proof.
    intros Hx Hy Hne. apply in_split in Hx as (a & b & ->).
    apply in_app_or in Hy as [Hy|[Hy|Hy]]; [|congruence|].
    - right. apply in_split in Hy as (c & d & ->). exists c, d, b. la.
    - left. apply in_split in Hy as (c & d & ->). exists a, c, d. reflexivity.
  Qed.

  Lemma split_unique z : forall p q r s, NoDup (p ++ z :: q) -> p ++ z :: q = r ++ z :: s -> length p = length r.
  Proof.
    induction p as [|h p IH]; intros q r s ND E.
    - destruct r as [|h' r]; [reflexivity|]. exfalso. cbn in E. inversion E as [[Eh Et]]. subst h'.
      cbn in ND. apply NoDup_cons_iff in ND as [Hn _]. apply Hn. rewrite Et. apply in_or_app; right; now left.
    - destruct r as [|h' r].
      + exfalso. cbn in E. inversion E as [[Eh Et]]. subst h.
        cbn in ND. apply NoDup_cons_iff in ND as [Hn _]. apply Hn. apply in_or_app; right; now left.
      + cbn in E. inversion E as [[Eh Et]]. cbn. f_equal. cbn in ND. apply NoDup_cons_iff in ND as [_ ND].
        eapply IH; eauto.
  Qed.

  Lemma before_asym l x y : NoDup l -> before l x y -> before l y x -> False.
  Proof.
    intros ND (a & b & c & E1) (a' & b' & c' & E2).
    assert (H1 : length a = length (a' ++ y :: b')).
    { apply (split_unique x a (b ++ y :: c) (a' ++ y :: b') c'); [now rewrite <- E1|].
      rewrite <- E1, E2. la. }
    assert (H2 : length (a ++ x :: b) = length a').
    { apply (split_unique y (a ++ x :: b) c a' (b' ++ x :: c')).
      - replace ((a ++ x :: b) ++ y :: c) with l; [exact ND|]. rewrite E1. la.
      - rewrite <- E2, E1. la. }
    rewrite !app_length in *. cbn in *. lia.
  Qed.

  Lemma subseq_before (a b : list X) : subseq a b -> forall x y, before a x y -> before b x y.
  Proof.
    induction 1 as [l|x0 a b H IH|x0 a b H IH]; intros x y Hb.
    - destruct Hb as (l1 & l2 & l3 & E). destruct l1; discriminate E.
    - destruct Hb as (l1 & l2 & l3 & E). destruct l1 as [|z l1].
      + cbn in E. injection E as -> ->. apply before_cons_head. apply (subseq_in _ _ H).
        apply in_or_app. right. left. reflexivity.
      + cbn in E. injection E as -> ->. apply before_cons. apply IH. exists l1, l2, l3. reflexivity.
    - apply before_cons. apply IH. exact Hb.
  Qed.
End Before.

(* ---- structure => order ------------------------------------------------- *)
Lemma pre_f_in_split f1 a f2 : pre_f (f1 ++ a :: f2) = pre_f f1 ++ pre a ++ pre_f f2.
Proof. rewrite flat_map_app. reflexivity. Qed.

Lemma desc_before f x y : In x (pre_f f) -> desc_of x y -> before (pre_f f) x y.
Proof.
  intros Hx Hy. destruct (pre_f_segment f x Hx) as (a & b & E). rewrite E, (pre_unfold x).
  apply before_app_r, before_app_l. apply before_cons_head. exact Hy.
Qed.

Lemma left_before : forall f x y, left_of f x y -> before (pre_f f) x y.
Proof.
  intros f x y H. induction H as [f1 a f2 b f3 x y Hx Hy | f t x y Ht H IH].
  - rewrite pre_f_in_split. apply before_app_r.
    rewrite pre_f_in_split. rewrite app_assoc. apply before_app_cross.
    + apply in_or_app; now left.
    + apply in_or_app; now left.
  - apply in_split in Ht as (f1 & f2 & ->). rewrite pre_f_in_split.
    apply before_app_r, before_app_l. rewrite (pre_unfold t). apply before_cons. exact IH.
Qed.

(* ---- two different nodes are always related ------------------------------ *)
Lemma struct_total_t : forall t x y, In x (pre t) -> In y (pre t) -> x <> y ->
  desc_of x y \/ desc_of y x \/ left_of (rch t) x y \/ left_of (rch t) y x.
Proof.
  induction t as [id i ch IH] using rt_ind'. intros x y Hx Hy Hne.
  rewrite pre_unfold in Hx, Hy. cbn [rch] in *.
  destruct Hx as [<-|Hx], Hy as [<-|Hy]; try congruence.
  - left. exact Hy.
  - right; left. exact Hx.
  - apply in_flat_map in Hx as (cx & Hcx & Hx). apply in_flat_map in Hy as (cy & Hcy & Hy).
    rewrite Forall_forall in IH.
    destruct (in_split _ _ Hcx) as (f1 & f2 & E).
    rewrite E in Hcy. apply in_app_or in Hcy as [Hcy | [<- | Hcy]].
    + apply in_split in Hcy as (g1 & g2 & ->).
      right; right; right. rewrite E. rewrite <- app_assoc. cbn. now constructor.
    + destruct (IH cx Hcx x y Hx Hy Hne) as [H|[H|[H|H]]].
      * left. exact H.
      * right; left. exact H.
      * right; right; left. eapply left_deep; eauto.
      * right; right; right. eapply left_deep; eauto.
    + apply in_split in Hcy as (g1 & g2 & ->).
      right; right; left. rewrite E. now constructor.
Qed.

Lemma struct_total_f f x y : In x (pre_f f) -> In y (pre_f f) -> x <> y ->
  desc_of x y \/ desc_of y x \/ left_of f x y \/ left_of f y x.
Proof.
  intros Hx Hy Hne.
  apply (struct_total_t (T 0 (rinfo x) f) x y); try exact Hne; rewrite pre_unfold; right; assumption.
Qed.

Lemma NoDup_pre_f f : NoDup (ids f) -> NoDup (pre_f f).
Proof. intros H. exact (NoDup_map_inv rid _ H). Qed.

(* the pre-order list is the document order *)
Lemma pre_f_is_document_order f x y :
  NoDup (ids f) -> In x (pre_f f) -> In y (pre_f f) -> x <> y ->
  (before (pre_f f) x y <-> doc_before f x y).
Proof.
  intros ND Hx Hy Hne. apply NoDup_pre_f in ND. unfold doc_before. split.
  - intros Hb. destruct (struct_total_f f x y Hx Hy Hne) as [H|[H|[H|H]]]; auto.
    + exfalso. exact (before_asym _ _ _ ND Hb (desc_before f y x Hy H)).
    + exfalso. exact (before_asym _ _ _ ND Hb (left_before f y x H)).
  - intros [H|H]; [apply desc_before; assumption|apply left_before; assumption].
Qed.

(* ---- the order of a search answer ---------------------------------------- *)
Definition start_in (f : forest) (s : start) : Prop :=
  match s with SRoot => True | SNode t => In t (pre_f f) end.

Lemma branch_before f s b x y : start_in f s -> before (branch f s b) x y -> before (pre_f f) x y.
Proof.
  destruct s as [|t]; cbn [start_in branch]; intros Hs Hb; [exact Hb|].
  destruct (pre_f_segment f t Hs) as (a & c & E). rewrite E. apply before_app_r, before_app_l.
  destruct b; [exact Hb|]. rewrite pre_unfold. apply before_cons. exact Hb.
Qed.

Lemma ordered_answer_document_order f s b (p : rt -> bool) k r :
  NoDup (ids f) -> start_in f s -> r = py_limit k (filter p (branch f s b)) ->
  forall x y, In x r -> In y r -> x <> y -> (before r x y <-> doc_before f x y).
Proof.
  intros ND Hs -> x y Hx Hy Hne.
  assert (Hsub : subseq (py_limit k (filter p (branch f s b))) (branch f s b))
    by (apply subseq_py_limit, subseq_filter).
  assert (Hup : forall u v, before (py_limit k (filter p (branch f s b))) u v -> before (pre_f f) u v).
  { intros u v Hb. apply (branch_before f s b); [exact Hs|]. exact (subseq_before _ _ Hsub u v Hb). }
  split.
  - intros Hb. pose proof (Hup _ _ Hb) as Hb'. destruct (before_in _ _ _ Hb') as [Hx' Hy'].
    apply (pre_f_is_document_order f x y ND Hx' Hy' Hne). exact Hb'.
  - intros Hd. destruct (before_total _ x y Hx Hy Hne) as [Hb|Hb]; [exact Hb|exfalso].
    pose proof (Hup _ _ Hb) as Hb'. destruct (before_in _ _ _ Hb') as [Hy' Hx'].
    apply (pre_f_is_document_order f x y ND Hx' Hy' Hne) in Hd.
    exact (before_asym _ _ _ (NoDup_pre_f f ND) Hd Hb').
Qed.

Lemma find_all_document_order f s ms add_self k r :
  NoDup (ids f) -> start_in f s ->
  node_find_all (iterator f s) None (Some ms) None add_self k = Ok r ->
  forall x y, In x r -> In y r -> x <> y -> (before r x y <-> doc_before f x y).
Proof.
  intros ND Hs E. rewrite node_find_all_match in E. injection E as E.
  apply (ordered_answer_document_order f s add_self (cb_match ms) k r ND Hs). symmetry. exact E.
Qed.

Lemma find_all_by_id_document_order f s data data_id d add_self k r :
  NoDup (ids f) -> start_in f s -> merge_data data data_id = Ok (Some d) ->
  node_find_all (iterator f s) data None data_id add_self k = Ok r ->
  forall x y, In x r -> In y r -> x <> y -> (before r x y <-> doc_before f x y).
Proof.
  intros ND Hs M E. rewrite (node_find_all_did _ _ _ _ _ _ _ M) in E. injection E as E.
  apply (ordered_answer_document_order f s add_self (did_is d) k r ND Hs). symmetry. exact E.
Qed.

(* ---- lookups by data object as data equality ------------------------------ *)
Lemma branch_incl f s b : start_in f s -> incl (branch f s b) (pre_f f).
Proof.
  destruct s as [|t]; cbn [start_in branch]; intros Hs x Hx; [exact Hx|].
  destruct (pre_f_segment f t Hs) as (a & c & E). rewrite E. apply in_or_app. right. apply in_or_app. left.
  destruct b; [exact Hx|]. rewrite pre_unfold. right. exact Hx.
Qed.

Lemma node_find_all_by_data_equality f s o_hash o_eqc add_self k :
  default_ids f -> hash_separates f o_hash o_eqc -> start_in f s ->
  node_find_all (iterator f s) (Some (DInt o_hash)) None None add_self k
  = Ok (py_limit k (filter (data_equals o_eqc) (branch f s add_self))).
Proof.
  intros Hd Hh Hs. rewrite (node_find_all_did f s (Some (DInt o_hash)) None (DInt o_hash) add_self k eq_refl).
  rewrite (filter_did_is_data_equality f s add_self o_hash o_eqc Hd Hh (branch_incl f s add_self Hs)). reflexivity.
Qed.

Lemma tree_find_all_by_data_equality st o_hash o_eqc k :
  state_wf st -> default_ids (t_forest st) -> hash_separates (t_forest st) o_hash o_eqc ->
  exists r, tree_find_all st (Some (DInt o_hash)) None None k = Ok r /\
    NoDup r /\ incl r (map rid (filter (data_equals o_eqc) (pre_f (t_forest st)))) /\
    (k = 0 -> Permutation.Permutation r (map rid (filter (data_equals o_eqc) (pre_f (t_forest st))))) /\
    (1 <= k -> length r = Nat.min k (length (filter (data_equals o_eqc) (pre_f (t_forest st))))).
Proof.
  intros W Hd Hh.
  destruct (tree_find_all_index st (Some (DInt o_hash)) None (DInt o_hash) k W eq_refl) as (r & E & Hn & Hi & Hp & Hl).
  rewrite (all_by_did_is_data_equality _ _ _ Hd Hh) in Hi, Hp, Hl. rewrite map_length in Hl.
  exists r. auto.
Qed.

(* ---- no node is returned twice -------------------------------------------- *)
Lemma subseq_refl {X} (l : list X) : subseq l l.
Proof. induction l; constructor; assumption. Qed.
Lemma subseq_app_r {X} (a b c : list X) : subseq a b -> subseq a (c ++ b).
Proof. intros H. induction c as [|x c IH]; [exact H|]. cbn. constructor. exact IH. Qed.
Lemma subseq_app_l {X} (a b c : list X) : subseq a b -> subseq a (b ++ c).
Proof.
  induction 1 as [l|x a b H IH|x a b H IH]; cbn; constructor; assumption.
Qed.
Lemma subseq_trans {X} (a b c : list X) : subseq a b -> subseq b c -> subseq a c.
Proof.
  intros Hab Hbc. revert a Hab. induction Hbc as [l|x b c H IH|x b c H IH]; intros a Hab.
  - inversion Hab; subst. constructor.
  - inversion Hab as [l|y a' b' H'|y a' b' H']; subst.
    + constructor.
    + constructor. apply IH. exact H'.
    + apply sub_skip. apply IH. exact H'.
  - apply sub_skip. apply IH. exact Hab.
Qed.
Lemma subseq_map {X Y} (g : X -> Y) (a b : list X) : subseq a b -> subseq (map g a) (map g b).
Proof. induction 1; cbn; constructor; assumption. Qed.
Lemma subseq_NoDup {X} (a b : list X) : subseq a b -> NoDup b -> NoDup a.
Proof.
  induction 1 as [l|x a b H IH|x a b H IH]; intros ND.
  - constructor.
  - inversion ND as [|y l Hn Hd]; subst. constructor; [|apply IH; exact Hd].
    intros Hin. apply Hn. exact (subseq_in _ _ H x Hin).
  - inversion ND as [|y l Hn Hd]; subst. apply IH. exact Hd.
Qed.

Lemma branch_subseq f s b : start_in f s -> subseq (branch f s b) (pre_f f).
Proof.
  destruct s as [|t]; cbn [start_in branch]; intros Hs; [apply subseq_refl|].
  destruct (pre_f_segment f t Hs) as (a & c & E). rewrite E. apply subseq_app_r, subseq_app_l.
  destruct b; [apply subseq_refl|]. rewrite pre_unfold. apply sub_skip, subseq_refl.
Qed.

Lemma ordered_answer_NoDup f s b (p : rt -> bool) k :
  NoDup (ids f) -> start_in f s -> NoDup (map rid (py_limit k (filter p (branch f s b)))).
Proof.
  intros ND Hs. refine (subseq_NoDup _ _ (subseq_map rid _ _ _) ND).
  eapply subseq_trans; [apply subseq_py_limit, subseq_filter|apply branch_subseq; exact Hs].
Qed.

Lemma find_all_NoDup f s ms add_self k r :
  NoDup (ids f) -> start_in f s ->
  node_find_all (iterator f s) None (Some ms) None add_self k = Ok r -> NoDup (map rid r).
Proof.
  intros ND Hs E. rewrite node_find_all_match in E. injection E as <-. apply ordered_answer_NoDup; assumption.
Qed.
