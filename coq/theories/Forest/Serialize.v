(* Executable model of nutree's native file format (C05, C12).

   Mirrors, function by function:
     node.py   Node._make_list_entry, Node._compress_entry, Node.to_list_iter
     typed_tree.py  TypedNode._make_list_entry, TypedTree.save (kind value map),
                    TypedTree._from_list, TypedTree.deserialize_mapper
     tree.py   Tree.save, Tree._uncompress_entry, Tree._from_list, Tree.load
   json.dump/json.load, zipfile and the text wrappers are the identity on [jv]
   (trusted, exercised by the harness with real files).
   No proofs in this file. *)
From Coq Require Import List ZArith Bool Arith String Ascii.
From NT Require Import Sx Rose.
From NTGen Require Import Generated.
Import ListNotations.

(* ---------------------------------------------------------------- JSON *)
Inductive jv :=
| JNull
| JBool (b : bool)
| JInt (z : Z)
| JFloat (s : text)              (* floats are carried as their literal text *)
| JStr (s : text)
| JList (l : list jv)
| JDict (d : list (text * jv)).  (* insertion ordered, as a Python dict *)

Notation dict := (list (text * jv)).

Inductive res (X : Type) := Ok (x : X) | Err (e : Z).
Arguments Ok {X} x.
Arguments Err {X} e.

(* error classes (harness: err_class) *)
Definition EUnique : Z := 1%Z.   (* UniqueConstraintError *)
Definition EKey : Z := 4%Z.      (* KeyError *)
Definition ENotImpl : Z := 5%Z.  (* NotImplementedError *)
Definition EAssert : Z := 6%Z.   (* AssertionError *)
Definition EType : Z := 7%Z.     (* TypeError *)
Definition ECrash : Z := 8%Z.    (* anything else / outside the modelled domain *)
Definition EFormat : Z := 9%Z.   (* RuntimeError("Invalid file format") *)
Definition EIndex : Z := 10%Z.   (* IndexError *)

Definition t_ (s : string) : text := map (fun a => Z.of_N (N_of_ascii a)) (list_ascii_of_string s).

Definition k_str := t_ "str".
Definition k_data_id := t_ "data_id".
Definition k_kind := t_ "kind".
Definition k_meta := t_ "meta".
Definition k_nodes := t_ "nodes".
Definition k_generator := t_ "$generator".
Definition k_format_version := t_ "$format_version".
Definition k_key_map := t_ "$key_map".
Definition k_value_map := t_ "$value_map".
Definition s_nutree_slash := t_ "nutree/".

Fixpoint jv_eqb (a b : jv) {struct a} : bool :=
  match a, b with
  | JNull, JNull => true
  | JBool x, JBool y => Bool.eqb x y
  | JInt x, JInt y => Z.eqb x y
  | JFloat x, JFloat y => text_eqb x y
  | JStr x, JStr y => text_eqb x y
  | JList xs, JList ys =>
      (fix go (xs ys : list jv) {struct xs} : bool :=
         match xs, ys with
         | [], [] => true
         | x :: xs', y :: ys' => jv_eqb x y && go xs' ys'
         | _, _ => false
         end) xs ys
  | JDict xs, JDict ys =>
      (fix go (xs ys : dict) {struct xs} : bool :=
         match xs, ys with
         | [], [] => true
         | (k, x) :: xs', (k', y) :: ys' => text_eqb k k' && jv_eqb x y && go xs' ys'
         | _, _ => false
         end) xs ys
  | _, _ => false
  end.

Definition dict_eqb (a b : dict) : bool := jv_eqb (JDict a) (JDict b).

(* the generated example documents (Generated.v has its own JSON type) *)
Fixpoint jv_of_gj (g : gjson) : jv :=
  match g with
  | GNull => JNull
  | GBool b => JBool b
  | GInt z => JInt z
  | GStr s => JStr s
  | GList l => JList (map jv_of_gj l)
  | GDict d => JDict (map (fun kv => (fst kv, jv_of_gj (snd kv))) d)
  end.

(* ---- insertion-ordered dict operations (CPython dict semantics) ---- *)
Fixpoint dget (k : text) (d : dict) : option jv :=
  match d with
  | [] => None
  | (k', v) :: r => if text_eqb k k' then Some v else dget k r
  end.
Definition dhas (k : text) (d : dict) : bool := match dget k d with Some _ => true | None => false end.
(* d[k] = v : in place when present, appended otherwise *)
Fixpoint dset (k : text) (v : jv) (d : dict) : dict :=
  match d with
  | [] => [(k, v)]
  | (k', v') :: r => if text_eqb k k' then (k', v) :: r else (k', v') :: dset k v r
  end.
(* del d[k] *)
Fixpoint dpop (k : text) (d : dict) : dict :=
  match d with
  | [] => []
  | (k', v') :: r => if text_eqb k k' then r else (k', v') :: dpop k r
  end.
(* d.update(u) *)
Definition dupdate (d u : dict) : dict := fold_left (fun d kv => dset (fst kv) (snd kv) d) u d.

Fixpoint assoc_t {X} (k : text) (m : list (text * X)) : option X :=
  match m with
  | [] => None
  | (k', v) :: r => if text_eqb k k' then Some v else assoc_t k r
  end.

Definition is_nil {X} (l : list X) : bool := match l with [] => true | _ => false end.

(* order-insensitive comparison of documents (JSON objects are unordered) *)
Fixpoint jv_equivb (a b : jv) {struct a} : bool :=
  match a, b with
  | JNull, JNull => true
  | JBool x, JBool y => Bool.eqb x y
  | JInt x, JInt y => Z.eqb x y
  | JFloat x, JFloat y => text_eqb x y
  | JStr x, JStr y => text_eqb x y
  | JList xs, JList ys =>
      (fix go (xs ys : list jv) {struct xs} : bool :=
         match xs, ys with
         | [], [] => true
         | x :: xs', y :: ys' => jv_equivb x y && go xs' ys'
         | _, _ => false
         end) xs ys
  | JDict xs, JDict ys =>
      Nat.eqb (List.length xs) (List.length ys) &&
      (fix go (xs : dict) {struct xs} : bool :=
         match xs with
         | [] => true
         | (k, x) :: xs' => match dget k ys with Some y => jv_equivb x y | None => false end && go xs'
         end) xs
  | _, _ => false
  end.

(* ---- observation ---- *)
Fixpoint sx_jv (j : jv) : sx :=
  match j with
  | JNull => L [A 0%Z]
  | JBool b => L [A 1%Z; sx_bool b]
  | JInt z => L [A 2%Z; A z]
  | JFloat s => L [A 3%Z; sx_text s]
  | JStr s => L [A 4%Z; sx_text s]
  | JList l => L [A 5%Z; L (map sx_jv l)]
  | JDict d => L [A 6%Z; L (map (fun kv => L [sx_text (fst kv); sx_jv (snd kv)]) d)]
  end.
Definition sx_res {X} (f : X -> sx) (r : res X) : sx :=
  match r with Ok x => L [A 0%Z; f x] | Err e => L [A 1%Z; A e] end.

Definition jv_did (d : did) : jv := match d with DInt z => JInt z | DStr s => JStr s end.

(* ------------------------------------------------- storage options *)
Inductive cls := CPlain | CTyped | CFs.           (* Tree, TypedTree, FileSystemTree *)
Definition is_typed (c : cls) : bool := match c with CTyped => true | _ => false end.
Inductive kopt := KTrue | KFalse | KCustom (m : list (text * text)).
Inductive vopt := VTrue | VFalse | VCustom (m : list (text * list text)).

Definition default_key_map (c : cls) : list (text * text) :=
  match c with CPlain => TREE_KEY_MAP | CTyped => TYPED_KEY_MAP | CFs => FS_KEY_MAP end.
Definition default_value_map (c : cls) : list (text * list text) :=
  match c with CPlain => TREE_VALUE_MAP | CTyped => TYPED_VALUE_MAP | CFs => TREE_VALUE_MAP end.

(* ------------------------------------------------- writing *)
(* Node._make_list_entry *)
Definition custom_id (i : info) : bool := negb (did_eqb (i_did i) (DInt (i_hash i))).
Definition mle_plain (i : info) : jv :=
  if i_isstr i then
    if custom_id i then JDict [(k_str, JStr (i_name i)); (k_data_id, jv_did (i_did i))]
    else JStr (i_name i)
  else JDict (if custom_id i then [(k_data_id, jv_did (i_did i))] else []).
(* TypedNode._make_list_entry (always a dict) *)
Definition mle_typed (i : info) : jv :=
  let d := if i_isstr i then
             (k_str, JStr (i_name i)) :: (if custom_id i then [(k_data_id, jv_did (i_did i))] else [])
           else match mle_plain i with JDict d => d | _ => [] end in
  JDict (match i_kind i with Some k => dset k_kind (JStr k) d | None => d end).
Definition make_list_entry (c : cls) (i : info) : jv :=
  if is_typed c then mle_typed i else mle_plain i.

(* {v: i for i, v in enumerate(a)}[value] : the LAST index of value in a *)
Fixpoint last_index_from (n : nat) (s : text) (a : list text) (acc : option nat) : option nat :=
  match a with
  | [] => acc
  | x :: r => last_index_from (S n) s r (if text_eqb s x then Some n else acc)
  end.
Definition last_index (s : text) (a : list text) : option nat := last_index_from 0 s a None.
Definition vm_index (a : list text) (v : jv) : res Z :=
  match v with
  | JStr s => match last_index s a with Some i => Ok (Z.of_nat i) | None => Err EKey end
  | JList _ | JDict _ => Err EType          (* unhashable *)
  | _ => Err EKey
  end.

(* One iteration of the loops in Node._compress_entry and Tree._uncompress_entry
   (over the snapshot list(data.items())): rename the key ([data[new] = data.pop(key)]),
   then optionally replace the value under the new key.
   [ren key] = the new key if the key is mapped; [conv key new_key value] = the
   replacement value, if any. *)
Definition remap_step (ren : text -> option text) (conv : text -> text -> jv -> res (option jv))
           (acc : res dict) (kv : text * jv) : res dict :=
  match acc with
  | Err e => Err e
  | Ok d =>
      let key := fst kv in
      let value := snd kv in
      let nd := match ren key with
                | Some nk => (nk, dset nk (match dget key d with Some v => v | None => JNull end) (dpop key d))
                | None => (key, d)
                end in
      match conv key (fst nd) value with
      | Ok (Some v') => Ok (dset (fst nd) v' (snd nd))
      | Ok None => Ok (snd nd)
      | Err e => Err e
      end
  end.
Definition remap_dict ren conv (d : dict) : res dict := fold_left (remap_step ren conv) d (Ok d).

(* Node._compress_entry *)
Definition compress_conv (vm : list (text * list text)) (key _nk : text) (value : jv) : res (option jv) :=
  match assoc_t key vm with
  | Some a => match vm_index a value with Ok i => Ok (Some (JInt i)) | Err e => Err e end
  | None => Ok None
  end.
Definition compress_dict (km : list (text * text)) (vm : list (text * list text)) (d : dict) : res dict :=
  remap_dict (fun k => assoc_t k km) (compress_conv vm) d.
Definition compress_entry km vm (data : jv) : res jv :=
  match data with
  | JDict d => match compress_dict km vm d with Ok d' => Ok (JDict d') | Err e => Err e end
  | _ => Ok data
  end.

(* (parent node id, node) in iteration order; the system root has id 0 *)
Fixpoint pre_par (p : nat) (t : rt) : list (nat * rt) :=
  match t with T id _ ch => (p, t) :: flat_map (pre_par id) ch end.
Notation pre_par_f p := (flat_map (pre_par p)).

Definition count_did (d : did) (f : forest) : nat :=
  List.length (filter (fun t => did_eqb (rdid t) d) (pre_f f)).
(* node.is_clone() *)
Definition is_clone (whole : forest) (t : rt) : bool := Nat.ltb 1 (count_did (rdid t) whole).

Fixpoint lookup_nat {X} (k : nat) (m : list (nat * X)) : option X :=
  match m with
  | [] => None
  | (k', v) :: r => if Nat.eqb k k' then Some v else lookup_nat k r
  end.
Fixpoint lookup_did {X} (k : did) (m : list (did * X)) : option X :=
  match m with
  | [] => None
  | (k', v) :: r => if did_eqb k k' then Some v else lookup_did k r
  end.

Definition jnat (n : nat) : jv := JInt (Z.of_nat n).
Definition entry (pidx : nat) (data : jv) : jv := JList [jnat pidx; data].

Section Writer.
  Variable c : cls.
  Variable ser : info -> dict -> dict.            (* the serialize mapper *)
  Variable km : list (text * text).
  Variable vm : list (text * list text).
  Variable whole : forest.

  (* the data part of a full entry *)
  Definition full_data (t : rt) : res jv :=
    let data := make_list_entry c (rinfo t) in
    let data := match data with JDict d => JDict (ser (rinfo t) d) | _ => data end in
    if is_nil km && is_nil vm then Ok data else compress_entry km vm data.

  (* Node.to_list_iter: the generator loop; loop state = (id_gen, parent_id_map,
     clone_idx_and_kind_map) *)
  Fixpoint tli_go (l : list (nat * rt)) (id_gen : nat) (pmap : list (nat * nat))
           (cmap : list (did * (nat * kind))) {struct l} : res (list jv) :=
    match l with
    | [] => Ok []
    | (parent_id, node) :: rest =>
        let pmap := if is_nil (rch node) then pmap else (rid node, id_gen) :: pmap in
        match lookup_nat parent_id pmap with
        | None => Err EKey
        | Some parent_idx =>
            let data_id := rdid node in
            let node_kind := rkind node in
            let full cmap :=
              match full_data node with
              | Err e => Err e
              | Ok data =>
                  match tli_go rest (S id_gen) pmap cmap with
                  | Ok out => Ok (entry parent_idx data :: out)
                  | Err e => Err e
                  end
              end in
            match lookup_did data_id cmap with
            | Some (clone_idx, clone_kind) =>
                if kind_eqb node_kind clone_kind then
                  match tli_go rest (S id_gen) pmap cmap with
                  | Ok out => Ok (entry parent_idx (jnat clone_idx) :: out)
                  | Err e => Err e
                  end
                else full cmap
            | None =>
                full (if is_clone whole node then (data_id, (id_gen, node_kind)) :: cmap else cmap)
            end
        end
    end.

  Definition to_list_iter : res (list jv) := tli_go (pre_par_f 0 whole) 1 [(0, 0)] [].
End Writer.

(* collections.Counter over n.kind: distinct kinds in first-occurrence order *)
Fixpoint dedup_text (seen : list text) (l : list text) : list text :=
  match l with
  | [] => []
  | x :: r => if existsb (text_eqb x) seen then dedup_text seen r else x :: dedup_text (x :: seen) r
  end.
Definition kinds_of (f : forest) : list text :=
  dedup_text [] (flat_map (fun t => match rkind t with Some k => [k] | None => [] end) (pre_f f)).

Definition resolve_km (c : cls) (k : kopt) : list (text * text) :=
  match k with KTrue => default_key_map c | KFalse => [] | KCustom m => m end.
(* Tree.save / TypedTree.save: value_map True/False/dict *)
Definition resolve_vm (c : cls) (v : vopt) (f : forest) : list (text * list text) :=
  match v with
  | VFalse => []
  | _ =>
      let m := match v with VCustom m => m | _ => default_value_map c end in
      if is_typed c then
        match assoc_t k_kind m with Some _ => m | None => m ++ [(k_kind, kinds_of f)] end
      else m
  end.

Definition jv_key_map (km : list (text * text)) : jv := JDict (map (fun kv => (fst kv, JStr (snd kv))) km).
Definition jv_value_map (vm : list (text * list text)) : jv :=
  JDict (map (fun kv => (fst kv, JList (map JStr (snd kv)))) vm).

Definition header (km : list (text * text)) (vm : list (text * list text)) (meta : dict) : dict :=
  let h := [(k_generator, JStr (s_nutree_slash ++ NUTREE_VERSION)); (k_format_version, JStr FILE_FORMAT_VERSION)] in
  let h := if is_nil km then h else dset k_key_map (jv_key_map km) h in
  let h := if is_nil vm then h else dset k_value_map (jv_value_map vm) h in
  if is_nil meta then h else dupdate h meta.

Definition save_doc (c : cls) (ser : info -> dict -> dict) (ko : kopt) (vo : vopt) (meta : dict)
           (f : forest) : res jv :=
  let km := resolve_km c ko in
  let vm := resolve_vm c vo f in
  match to_list_iter c ser km vm f with
  | Err e => Err e
  | Ok nodes => Ok (JDict [(k_meta, JDict (header km vm meta)); (k_nodes, JList nodes)])
  end.

(* ------------------------------------------------- reading *)
Record dval := DV { dv_isstr : bool; dv_name : text; dv_hash : Z }.   (* a rebuilt data object *)

Definition is_intlike (v : jv) : option Z :=
  match v with JInt z => Some z | JBool b => Some (if b then 1 else 0)%Z | _ => None end.

(* list[z] with Python's negative indexing *)
Definition py_index {X} (l : list X) (z : Z) : option X :=
  let n := Z.of_nat (List.length l) in
  if (0 <=? z)%Z then nth_error l (Z.to_nat z)
  else if (0 <=? n + z)%Z then nth_error l (Z.to_nat (n + z)) else None.

(* Tree._uncompress_entry; [vmj] is the raw "$value_map" object *)
Definition uncompress_conv (vmj : dict) (_key lk : text) (value : jv) : res (option jv) :=
  match is_intlike value, dget lk vmj with
  | Some z, Some (JList a) =>
      match py_index a z with
      | Some v => Ok (Some v)
      | None => Err EIndex
      end
  | Some _, Some _ => Err ECrash        (* value list is not a list: outside the modelled domain *)
  | _, _ => Ok None
  end.
Definition uncompress_dict (ikm : list (text * text)) (vmj : dict) (d : dict) : res dict :=
  remap_dict (fun k => assoc_t k ikm) (uncompress_conv vmj) d.

(* {v: k for k, v in key_map.items()} : later entries win, so look up in the reversed list *)
Definition inverse_key_map (kmj : dict) : list (text * text) :=
  rev (flat_map (fun kv => match snd kv with JStr s => [(s, fst kv)] | _ => [] end) kmj).

(* "nutree/" in str(x) *)
Fixpoint is_prefix (p s : text) : bool :=
  match p, s with
  | [], _ => true
  | x :: p', y :: s' => Z.eqb x y && is_prefix p' s'
  | _ :: _, [] => false
  end.
Fixpoint is_substr (p s : text) : bool :=
  is_prefix p s || match s with [] => false | _ :: s' => is_substr p s' end.
Fixpoint mentions_nutree (j : jv) : bool :=
  match j with
  | JStr s => is_substr s_nutree_slash s
  | JList l => existsb mentions_nutree l
  | JDict d => existsb (fun kv => is_substr s_nutree_slash (fst kv) || mentions_nutree (snd kv)) d
  | _ => false
  end.

(* the header test of Tree.load; Ok meta when accepted *)
Definition check_header (j : jv) : res dict :=
  match j with
  | JDict o =>
      match dget k_meta o, dget k_nodes o with
      | Some m, Some _ =>
          match m with
          | JDict md =>
              match dget k_generator md with
              | Some g => if mentions_nutree g then Ok md else Err EFormat
              | None => Err EFormat
              end
          | JList ml =>                                  (* '"$generator" in list', then list["$generator"] *)
              if existsb (jv_eqb (JStr k_generator)) ml then Err EType else Err EFormat
          | JStr s => if is_substr k_generator s then Err EType else Err EFormat
          | _ => Err EType                               (* 'in' on None/number *)
          end
      | _, _ => Err EFormat
      end
  | _ => Err EFormat
  end.

(* loaded nodes in creation order: (index, parent index, payload) *)
Definition lnode := (nat * nat * info)%type.
Definition ln_idx (e : lnode) : nat := fst (fst e).
Definition ln_par (e : lnode) : nat := snd (fst e).
Definition ln_info (e : lnode) : info := snd e.

Definition find_ln (idx : nat) (es : list lnode) : option lnode :=
  find (fun e => Nat.eqb (ln_idx e) idx) es.

(* children lists are only appended to: the children of p are the nodes
   created with parent p, in creation order *)
Fixpoint unflat (fuel : nat) (es : list lnode) (p : nat) : forest :=
  match fuel with
  | 0 => []
  | S k => map (fun e => T (ln_idx e) (ln_info e) (unflat k es (ln_idx e)))
               (filter (fun e => Nat.eqb (ln_par e) p) es)
  end.

Section Reader.
  Variable c : cls.
  Variable deser : nat -> dict -> res dval.       (* the deserialize mapper, called for entry #idx:
                                                     rebuilt objects may differ per call (identity hashes) *)
  Variable shash : text -> Z.                     (* hash() of a str *)

  Definition default_kind : kind := if is_typed c then Some DEFAULT_CHILD_TYPE else None.

  (* Tree._register: refuse a second child of [p] with the same data_id *)
  Definition add_node (es : list lnode) (idx p : nat) (i : info) : res (list lnode) :=
    if existsb (fun e => Nat.eqb (ln_par e) p && did_eqb (i_did (ln_info e)) (i_did i)) es
    then Err EUnique else Ok (es ++ [(idx, p, i)]).

  Definition parent_ok (es : list lnode) (p : nat) : bool :=
    Nat.eqb p 0 || match find_ln p es with Some _ => true | None => false end.

  (* one iteration of Tree._from_list / TypedTree._from_list *)
  Definition from_list_step (es : list lnode) (idx : nat) (e : jv) : res (list lnode) :=
    match e with
    | JList [pj; data] =>
        match is_intlike pj with
        | None => Err ECrash
        | Some pz =>
            if (pz <? 0)%Z then Err EKey else
            let p := Z.to_nat pz in
            if negb (parent_ok es p) then Err EKey else
            match data with
            | JStr s => add_node es idx p (I (Z.of_nat idx) (Z.of_nat idx) (shash s) true s (DInt (shash s)) default_kind [])
            | JInt _ | JBool _ =>
                match is_intlike data with
                | Some rz =>
                    if (rz <=? 0)%Z then (if (rz =? 0)%Z then Err ECrash else Err EKey) else
                    match find_ln (Z.to_nat rz) es with
                    | None => Err EKey
                    | Some fc => add_node es idx p (ln_info fc)
                    end
                | None => Err ECrash
                end
            | JDict d =>
                let k := if is_typed c then
                           match dget k_kind d with
                           | None => Ok default_kind
                           | Some (JStr s) => Ok (Some s)
                           | Some _ => Err ECrash
                           end
                         else Ok None in
                let di := match dget k_data_id d with
                          | None | Some JNull => Ok None
                          | Some (JInt z) => Ok (Some (DInt z))
                          | Some (JStr s) => Ok (Some (DStr s))
                          | Some _ => Err ECrash
                          end in
                match k, di with
                | Ok k, Ok di =>
                    match deser idx d with
                    | Err e => Err e
                    | Ok dv =>
                        add_node es idx p
                          (I (Z.of_nat idx) (Z.of_nat idx) (dv_hash dv) (dv_isstr dv) (dv_name dv)
                             (match di with Some x => x | None => DInt (dv_hash dv) end) k [])
                    end
                | Err e, _ => Err e
                | _, Err e => Err e
                end
            | _ => Err EAssert
            end
        end
    | _ => Err ECrash
    end.

  Fixpoint from_list_go (l : list jv) (idx : nat) (es : list lnode) : res (list lnode) :=
    match l with
    | [] => Ok es
    | e :: rest =>
        match from_list_step es idx e with
        | Ok es' => from_list_go rest (S idx) es'
        | Err e => Err e
        end
    end.

  Definition from_list (l : list jv) : res forest :=
    match from_list_go l 1 [] with
    | Ok es => Ok (unflat (S (List.length es)) es 0)
    | Err e => Err e
    end.

  (* the loop "for _parent_idx, data in obj['nodes']: uncompress dict entries" *)
  Fixpoint uncompress_nodes ikm vmj (l : list jv) : res (list jv) :=
    match l with
    | [] => Ok []
    | JList [pj; JDict d] :: rest =>
        match uncompress_dict ikm vmj d with
        | Err e => Err e
        | Ok d' => match uncompress_nodes ikm vmj rest with
                   | Ok r => Ok (JList [pj; JDict d'] :: r)
                   | Err e => Err e
                   end
        end
    | JList [pj; x] :: rest =>
        match uncompress_nodes ikm vmj rest with
        | Ok r => Ok (JList [pj; x] :: r)
        | Err e => Err e
        end
    | _ => Err ECrash
    end.

  (* Tree.load on the parsed JSON value: (file_meta, loaded forest) *)
  Definition load_doc (j : jv) : res (dict * forest) :=
    match check_header j with
    | Err e => Err e
    | Ok md =>
        match j with
        | JDict o =>
            match dget k_nodes o with
            | Some (JList nodes) =>
                let kmj := match dget k_key_map md with Some (JDict m) => Ok m | None => Ok [] | Some _ => Err ECrash end in
                let vmj := match dget k_value_map md with Some (JDict m) => Ok m | None => Ok [] | Some _ => Err ECrash end in
                match kmj, vmj with
                | Ok kmj, Ok vmj =>
                    match uncompress_nodes (inverse_key_map kmj) vmj nodes with
                    | Err e => Err e
                    | Ok nodes' =>
                        match from_list nodes' with
                        | Ok f => Ok (md, f)
                        | Err e => Err e
                        end
                    end
                | Err e, _ => Err e
                | _, Err e => Err e
                end
            | _ => Err ECrash
            end
        | _ => Err EFormat
        end
    end.
End Reader.

(* default mappers *)
Definition default_ser : info -> dict -> dict := fun _ d => d.       (* Tree.serialize_mapper *)
(* Tree.deserialize_mapper: str entries with a custom data_id ({"str", "data_id"}) are read natively (D92 repaired) *)
Definition default_deser_plain (shash : text -> Z) (_idx : nat) (d : dict) : res dval :=
  match dget k_str d with
  | Some v =>
      if forallb (fun kv => text_eqb (fst kv) k_str || text_eqb (fst kv) k_data_id) d
      then match v with
           | JStr s => Ok (DV true s (shash s))
           | _ => Err ECrash
           end
      else Err ENotImpl
  | None => Err ENotImpl
  end.
(* TypedTree.deserialize_mapper *)
Definition default_deser_typed (shash : text -> Z) (_idx : nat) (d : dict) : res dval :=
  match dget k_str d with
  | Some v =>
      if forallb (fun kv => text_eqb (fst kv) k_str || text_eqb (fst kv) k_kind || text_eqb (fst kv) k_data_id) d
      then match v with
           | JStr s => Ok (DV true s (shash s))
           | _ => Err ECrash
           end
      else Err ENotImpl
  | None => Err ENotImpl
  end.
Definition default_deser (c : cls) (shash : text -> Z) : nat -> dict -> res dval :=
  if is_typed c then default_deser_typed shash else default_deser_plain shash.

(* what is observed of a loaded tree *)
Fixpoint sx_loaded (t : rt) : sx :=
  match t with
  | T id i ch =>
      L [ sx_nat id; sx_bool (i_isstr i); sx_text (i_name i); A (i_hash i); sx_did (i_did i);
          sx_kind (i_kind i); (if i_isstr i then A (-1)%Z else A (i_obj i)); L (map sx_loaded ch) ]
  end.
Definition sx_load_result (r : res (dict * forest)) : sx :=
  sx_res (fun mf => L [sx_jv (JDict (fst mf)); L (map sx_loaded (snd mf))]) r.
