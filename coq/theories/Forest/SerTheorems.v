(* Combined statements used by Properties/C05.v and Properties/C12.v. *)
From Coq Require Import List ZArith Bool Arith Lia Permutation.
From NT Require Import Sx Rose ListFacts RoseFacts Serialize SerializeSpec SerDictFacts SerCompressProofs
     SerLayFacts SerWriterProofs SerReaderProofs SerUnflatProofs SerIsoProofs SerializeProofs.
From NTGen Require Import Generated.
Import ListNotations.

(* node ids of the loaded tree are the pre-order positions 1..n *)
Lemma ids_cons_t t f : ids (t :: f) = ids_t t ++ ids f.
Proof. unfold ids, ids_t. cbn [flat_map]. now rewrite map_app. Qed.

Lemma ids_relabel infos : forall t p, ids_t (relabel infos p t) = seq p (size t).
Proof.
  induction t as [id i ch IH] using rt_ind'. intros p. rewrite relabel_unfold, ids_t_unfold, size_unfold. cbn [rid rch seq]. f_equal.
  generalize (S p) as p0. induction ch as [|c ch IHc]; intros p0; [reflexivity|].
  inversion IH as [|? ? Hc Hch]; subst. cbn [relabel_f]. rewrite ids_cons_t, size_f_cons, seq_app, Hc. f_equal. now apply IHc.
Qed.
Lemma ids_relabel_f infos : forall g p, ids (relabel_f infos p g) = seq p (size_f g).
Proof.
  induction g as [|c g IH]; intros p; [reflexivity|]. cbn [relabel_f]. now rewrite ids_cons_t, size_f_cons, seq_app, ids_relabel, IH.
Qed.

Lemma header_spec_user_meta km vm meta k v : meta_ok meta -> In (k, v) meta -> dget k (header_spec km vm meta) = Some v.
Proof.
  intros [Hn Hr] Hi. unfold header_spec.
  assert (Hk : In k (keys meta)) by (change k with (fst (k, v)); now apply in_map).
  pose proof (Hr k Hk) as Hres. unfold reserved in Hres. cbn [In] in Hres.
  assert (N1 : k <> k_generator) by (intros E; apply Hres; auto).
  assert (N2 : k <> k_format_version) by (intros E; apply Hres; auto).
  assert (N3 : k <> k_key_map) by (intros E; apply Hres; auto).
  assert (N4 : k <> k_value_map) by (intros E; apply Hres; auto 6).
  cbn [app dget]. rewrite (text_eqb_neq _ _ N1), (text_eqb_neq _ _ N2).
  rewrite !dget_app_notin.
  - now apply in_dget.
  - destruct (is_nil vm); cbn [map In]; [tauto|]. intros [E|[]]. now apply N4.
  - destruct (is_nil km); cbn [map In]; [tauto|]. intros [E|[]]. now apply N3.
Qed.

Section Combined.
  Variable c : cls.
  Variable ser : info -> dict -> dict.
  Variable deser : nat -> dict -> res dval.
  Variable shash : text -> Z.
  Variable f : forest.

  (* everything the round trip needs of the tree *)
  Definition tree_ok : Prop := ids_ok f /\ sib_unique f /\ kinds_ok c f /\ clones_consistent f.
  (* everything it needs of the mapper pair (the assumption "deser (ser i) ~ i") *)
  Definition mapper_ok : Prop := mappers_ok c ser deser f /\ mapper_rebuilds c ser deser f.

  Theorem layout_loads ko vo meta :
    tree_ok -> opts_ok c ser ko vo meta f -> mapper_ok -> id_stable c ser deser shash f ->
    exists f', load_doc c deser shash (layout_doc c ser ko vo meta f)
               = Ok (header_spec (resolve_km c ko) (resolve_vm c vo f) meta, f') /\
               iso f f' /\ ids f' = seq 1 (size_f f) /\ f' = described c ser deser shash f.
  Proof.
    intros (Hids & Hsib & Hk & Hcc) (Hkm & Hent & Hmeta) (Hm & Hmr) Hst.
    pose proof (id_stable_ids_stable c ser deser shash f Hst) as Hst'.
    exists (described c ser deser shash f). split.
    - unfold layout_doc. apply load_layout_described; auto. now apply described_unique_of_source.
    - split; [now apply described_iso|]. split; [apply ids_relabel_f|reflexivity].
  Qed.

  Theorem roundtrip ko vo meta :
    tree_ok -> opts_ok c ser ko vo meta f -> mapper_ok -> id_stable c ser deser shash f ->
    exists j f', save_doc c ser ko vo meta f = Ok j /\
                 load_doc c deser shash j = Ok (header_spec (resolve_km c ko) (resolve_vm c vo f) meta, f') /\
                 iso f f' /\ map rdid (pre_f f') = map rdid (pre_f f) /\ ids f' = seq 1 (size_f f).
  Proof.
    intros Ht Ho Hm Hst. destruct (layout_loads ko vo meta Ht Ho Hm Hst) as (f' & Hl & Hi & Hids & _).
    exists (layout_doc c ser ko vo meta f), f'. split; [apply save_doc_is_layout; [apply Ht|exact Ho]|].
    split; [exact Hl|]. split; [exact Hi|]. split; [symmetry; now apply iso_dids|exact Hids].
  Qed.

  (* the stored header is handed back: generator, version, the maps in use, and every user member *)
  Theorem file_meta_back ko vo meta :
    tree_ok -> opts_ok c ser ko vo meta f -> mapper_ok -> id_stable c ser deser shash f ->
    exists j md f', save_doc c ser ko vo meta f = Ok j /\ load_doc c deser shash j = Ok (md, f') /\
      (forall k v, In (k, v) meta -> dget k md = Some v) /\
      dget k_generator md = Some (JStr (s_nutree_slash ++ NUTREE_VERSION)) /\
      dget k_format_version md = Some (JStr FILE_FORMAT_VERSION) /\
      dget k_key_map md = (if is_nil (resolve_km c ko) then None else Some (jv_key_map (resolve_km c ko))) /\
      dget k_value_map md = (if is_nil (resolve_vm c vo f) then None else Some (jv_value_map (resolve_vm c vo f))).
  Proof.
    intros Ht Ho Hm Hst. destruct (roundtrip ko vo meta Ht Ho Hm Hst) as (j & f' & Hs & Hl & _).
    destruct Ho as (_ & _ & Hmeta).
    exists j, (header_spec (resolve_km c ko) (resolve_vm c vo f) meta), f'. split; [exact Hs|]. split; [exact Hl|].
    destruct (header_spec_get (resolve_km c ko) (resolve_vm c vo f) meta Hmeta) as (G1 & G2 & G3).
    split; [intros k v Hi; now apply header_spec_user_meta|]. split; [exact G1|]. split; [reflexivity|]. split; assumption.
  Qed.

  (* key_map and value_map do not change the loaded tree *)
  Theorem option_independent ko1 vo1 ko2 vo2 meta1 meta2 :
    tree_ok -> opts_ok c ser ko1 vo1 meta1 f -> opts_ok c ser ko2 vo2 meta2 f -> mapper_ok -> id_stable c ser deser shash f ->
    exists j1 j2 md1 md2 f', save_doc c ser ko1 vo1 meta1 f = Ok j1 /\ save_doc c ser ko2 vo2 meta2 f = Ok j2 /\
                             load_doc c deser shash j1 = Ok (md1, f') /\ load_doc c deser shash j2 = Ok (md2, f').
  Proof.
    intros Ht Ho1 Ho2 Hm Hst.
    destruct (layout_loads ko1 vo1 meta1 Ht Ho1 Hm Hst) as (f1 & Hl1 & _ & _ & E1).
    destruct (layout_loads ko2 vo2 meta2 Ht Ho2 Hm Hst) as (f2 & Hl2 & _ & _ & E2).
    exists (layout_doc c ser ko1 vo1 meta1 f), (layout_doc c ser ko2 vo2 meta2 f). do 2 eexists. exists f1.
    split; [apply save_doc_is_layout; [apply Ht|exact Ho1]|]. split; [apply save_doc_is_layout; [apply Ht|exact Ho2]|].
    split; [exact Hl1|]. rewrite E1, <- E2. exact Hl2.
  Qed.
End Combined.

(* ---- the layout is what the guide describes: one entry per node in pre-order; the parent field is 0
   for a top-level node and otherwise the position of an EARLIER entry, namely the entry of the node's
   parent; a data field that is a number is the position of an earlier entry with the same data_id and kind *)
Lemma lay_entries_length c ser km vm : forall l prev, List.length (lay_entries c ser km vm prev l) = List.length l.
Proof. induction l as [|[[a b] t] l IH]; intros prev; cbn; [reflexivity|]. now rewrite IH. Qed.

Theorem layout_shape c ser km vm f :
  List.length (layout c ser km vm f) = size_f f /\
  map q_node (lay_f 0 1 f) = pre_f f /\
  map q_pos (lay_f 0 1 f) = seq 1 (size_f f) /\
  (forall q, In q (lay_f 0 1 f) -> q_ppos q = 0 \/ (1 <= q_ppos q /\ q_ppos q < q_pos q)).
Proof.
  split; [unfold layout; rewrite lay_entries_length, <- (map_length q_pos), lay_f_positions, seq_length; reflexivity|].
  split; [apply lay_f_nodes|]. split; [apply lay_f_positions|].
  intros q Hq. destruct (lay_f_range f 0 1 q Hq) as [_ [H|H]]; [now left|now right].
Qed.

(* the parent field names the entry of the node's parent *)
Lemma lay_parent : forall t pp p q, In q (lay pp p t) ->
  q = (pp, p, t) \/ exists y, In y (lay pp p t) /\ q_pos y = q_ppos q /\ In (q_node q) (rch (q_node y)).
Proof.
  induction t as [id i ch IH] using rt_ind'. intros pp p q Hq. rewrite lay_unfold in *. cbn [rch] in *.
  destruct Hq as [<-|Hq]; [now left|]. right.
  assert (G : forall g p0, Forall (fun t => forall pp p q, In q (lay pp p t) ->
                 q = (pp, p, t) \/ exists y, In y (lay pp p t) /\ q_pos y = q_ppos q /\ In (q_node q) (rch (q_node y))) g ->
              In q (lay_f p p0 g) ->
              (q_ppos q = p /\ In (q_node q) g) \/
              exists y, In y (lay_f p p0 g) /\ q_pos y = q_ppos q /\ In (q_node q) (rch (q_node y))).
  { induction g as [|c g IHg]; intros p0 Hall Hi; [contradiction|]. inversion Hall as [|? ? Hc Hg]; subst.
    cbn [lay_f] in Hi. apply in_app_or in Hi as [Hi|Hi].
    - destruct (Hc p p0 q Hi) as [->|(y & Hy & H1 & H2)]; [left; split; [reflexivity|now left]|].
      right. exists y. split; [cbn [lay_f]; apply in_or_app; now left|auto].
    - destruct (IHg (p0 + size c) Hg Hi) as [[H1 H2]|(y & Hy & H1 & H2)]; [left; split; [exact H1|now right]|].
      right. exists y. split; [cbn [lay_f]; apply in_or_app; now right|auto]. }
  destruct (G ch (S p) IH Hq) as [[H1 H2]|(y & Hy & H1 & H2)].
  - exists (pp, p, T id i ch). split; [now left|]. split; [symmetry; exact H1|exact H2].
  - exists y. split; [now right|auto].
Qed.

Theorem layout_parent f : forall q, In q (lay_f 0 1 f) ->
  (q_ppos q = 0 /\ In (q_node q) f) \/
  exists y, In y (lay_f 0 1 f) /\ q_pos y = q_ppos q /\ In (q_node q) (rch (q_node y)).
Proof.
  generalize 1 as p0. induction f as [|c g IH]; intros p0 q Hq; [contradiction|]. cbn [lay_f] in Hq.
  apply in_app_or in Hq as [Hq|Hq].
  - destruct (lay_parent c 0 p0 q Hq) as [->|(y & Hy & H1 & H2)]; [left; split; [reflexivity|now left]|].
    right. exists y. split; [cbn [lay_f]; apply in_or_app; now left|auto].
  - destruct (IH (p0 + size c) q Hq) as [[H1 H2]|(y & Hy & H1 & H2)]; [left; split; [exact H1|now right]|].
    right. exists y. split; [cbn [lay_f]; apply in_or_app; now right|auto].
Qed.
