(* C06 — stop signals and errors: for ANY (stateful) callback the calls of
   visit() are the prefix, up to and including the first halting call, of the
   calls made with the same callback muted (halting answers replaced by
   "continue"); the result is the value carried by the signal. *)
From Coq Require Import List ZArith Bool Arith Lia Permutation.
From NT Require Import Sx Rose ListFacts RoseFacts Traverse TraverseProofs TraverseLevelOrd TraverseVisit.
Import ListNotations.

Definition mute_out (o : outcome) : outcome :=
  match o with Stop _ | Err _ => Continue | _ => o end.
(* cb' answers like cb, except that it continues where cb stops or fails *)
Definition mutes (cb cb' : cbT) : Prop :=
  forall calls x, call_cb cb' x calls = mute_out (call_cb cb x calls).
Definition halt_out (h : halt) : outcome := match h with HStop v => Stop v | HErr e => Err e end.

(* [quiet cb calls tr]: made after the history [calls], none of the calls [tr] halts *)
Inductive quiet (cb : cbT) : list nat -> list nat -> Prop :=
| q_nil calls : quiet cb calls []
| q_cons calls x tr : nonhalt (call_cb cb x calls) -> quiet cb (calls ++ [x]) tr -> quiet cb calls (x :: tr).

(* [halted cb calls tr h]: the last call of [tr] halts with [h], no earlier one does *)
Inductive halted (cb : cbT) : list nat -> list nat -> halt -> Prop :=
| h_here calls x h : call_cb cb x calls = halt_out h -> halted cb calls [x] h
| h_cons calls x tr h : nonhalt (call_cb cb x calls) -> halted cb (calls ++ [x]) tr h -> halted cb calls (x :: tr) h.

Lemma quiet_app cb calls a b : quiet cb calls a -> quiet cb (calls ++ a) b -> quiet cb calls (a ++ b).
Proof.
  induction 1 as [calls|calls x tr Hx Hq IH]; intros Hb; [now rewrite app_nil_r in Hb|].
  cbn [app]. constructor; [exact Hx|]. apply IH. now rewrite <- app_assoc.
Qed.

Lemma halted_app cb calls a b h : quiet cb calls a -> halted cb (calls ++ a) b h -> halted cb calls (a ++ b) h.
Proof.
  induction 1 as [calls|calls x tr Hx Hq IH]; intros Hb; [now rewrite app_nil_r in Hb|].
  cbn [app]. apply h_cons; [exact Hx|]. apply IH. now rewrite <- app_assoc.
Qed.

Lemma quiet_one cb calls x : nonhalt (call_cb cb x calls) -> quiet cb calls [x].
Proof. intros H. constructor; [exact H|constructor]. Qed.

(* position-wise reading *)
Lemma quiet_nth cb : forall calls tr, quiet cb calls tr ->
  forall k x, nth_error tr k = Some x -> nonhalt (call_cb cb x (calls ++ firstn k tr)).
Proof.
  induction 1 as [calls|calls y tr Hy Hq IH]; intros k x Hk; [destruct k; discriminate|].
  destruct k as [|k]; cbn in Hk.
  - inversion Hk; subst. cbn [firstn]. now rewrite app_nil_r.
  - cbn [firstn]. specialize (IH k x Hk). now rewrite <- app_assoc in IH.
Qed.

Lemma halted_last cb : forall calls tr h, halted cb calls tr h ->
  exists tr0 x, tr = tr0 ++ [x] /\ quiet cb calls tr0 /\ call_cb cb x (calls ++ tr0) = halt_out h.
Proof.
  induction 1 as [calls x h E|calls y tr h Hy Hh IH].
  - exists [], x. rewrite app_nil_r. repeat split; [constructor|exact E].
  - destruct IH as (tr0 & x & -> & Hq & E). exists (y :: tr0), x.
    split; [reflexivity|]. split; [now constructor|]. now rewrite <- app_assoc in E.
Qed.

(* ------------------------------------------------------------------ *)
(* the relation between a piece of traversal code run with cb and with cb' *)
(* ------------------------------------------------------------------ *)

Definition vrel (cb : cbT) (v v' : visitor) : Prop := forall calls,
  exists tr', v' calls = (tr', None) /\
    match v calls with
    | (tr, None) => tr' = tr /\ quiet cb calls tr
    | (tr, Some h) => halted cb calls tr h /\ exists rest, tr' = tr ++ rest
    end.

Lemma Forall2_map_same {X Y} (R : Y -> Y -> Prop) (g g' : X -> Y) l :
  Forall (fun c => R (g c) (g' c)) l -> Forall2 R (map g l) (map g' l).
Proof. induction 1; cbn [map]; constructor; auto. Qed.

Lemma vrel_seq cb vs vs' : Forall2 (vrel cb) vs vs' -> vrel cb (seq_visit vs) (seq_visit vs').
Proof.
  induction 1 as [|v v' r r' Hv Hr IH]; intros calls.
  - exists []. split; [reflexivity|]. cbn. split; [reflexivity|constructor].
  - cbn [seq_visit]. destruct (Hv calls) as (t1' & E1' & H1). rewrite E1'.
    destruct (v calls) as [t1 [h|]].
    + destruct H1 as [Hh (rest & ->)].
      destruct (IH (calls ++ t1 ++ rest)) as (t2' & E2' & _). rewrite E2'.
      eexists. split; [reflexivity|]. split; [exact Hh|]. exists (rest ++ t2'). now rewrite app_assoc.
    + destruct H1 as [-> Hq].
      destruct (IH (calls ++ t1)) as (t2' & E2' & H2). rewrite E2'.
      eexists. split; [reflexivity|].
      destruct (seq_visit r (calls ++ t1)) as [t2 [h|]].
      * destruct H2 as [Hh (rest & ->)]. split; [now apply halted_app|]. exists rest. now rewrite app_assoc.
      * destruct H2 as [-> Hq2]. split; [reflexivity|now apply quiet_app].
Qed.

Section Mutes.
  Variables cb cb' : cbT.
  Hypothesis Hm : mutes cb cb'.

  Lemma vrel_self_call id rest rest' :
    vrel cb rest rest' -> vrel cb (self_call cb id rest) (self_call cb' id rest').
  Proof.
    intros Hr calls. unfold self_call. rewrite (Hm calls id).
    destruct (call_cb cb id calls) as [| |v|e] eqn:E; cbn [mute_out].
    - destruct (Hr (calls ++ [id])) as (t' & E' & H). rewrite E'.
      eexists. split; [reflexivity|].
      destruct (rest (calls ++ [id])) as [t [h|]].
      + destruct H as [Hh (r & ->)]. split; [|now exists r].
        apply h_cons; [left; exact E|exact Hh].
      + destruct H as [-> Hq]. split; [reflexivity|]. constructor; [left; exact E|exact Hq].
    - exists [id]. split; [reflexivity|]. split; [reflexivity|]. apply quiet_one. right; exact E.
    - destruct (Hr (calls ++ [id])) as (t' & E' & _). rewrite E'.
      eexists. split; [reflexivity|]. split; [apply (h_here cb calls id (HStop v)); exact E|now exists t'].
    - destruct (Hr (calls ++ [id])) as (t' & E' & _). rewrite E'.
      eexists. split; [reflexivity|]. split; [apply (h_here cb calls id (HErr e)); exact E|now exists t'].
  Qed.

  Lemma then_call_mute id body' calls t' :
    body' calls = (t', None) -> then_call cb' id body' calls = (t' ++ [id], None).
  Proof.
    intros E. unfold then_call. rewrite E, (Hm (calls ++ t') id).
    destruct (call_cb cb id (calls ++ t')); reflexivity.
  Qed.

  Lemma vrel_then_call id body body' :
    vrel cb body body' -> vrel cb (then_call cb id body) (then_call cb' id body').
  Proof.
    intros Hb calls. destruct (Hb calls) as (t' & E' & H).
    rewrite (then_call_mute id body' calls t' E'). eexists. split; [reflexivity|].
    unfold then_call. destruct (body calls) as [t [h|]].
    - destruct H as [Hh (r & ->)]. split; [exact Hh|]. exists (r ++ [id]). now rewrite app_assoc.
    - destruct H as [-> Hq].
      destruct (call_cb cb id (calls ++ t)) as [| |v|e] eqn:E.
      + split; [reflexivity|]. apply quiet_app; [exact Hq|]. apply quiet_one. left; exact E.
      + split; [reflexivity|]. apply quiet_app; [exact Hq|]. apply quiet_one. right; exact E.
      + split; [|exists []; now rewrite app_nil_r].
        apply halted_app; [exact Hq|]. apply (h_here cb _ id (HStop v)). exact E.
      + split; [|exists []; now rewrite app_nil_r].
        apply halted_app; [exact Hq|]. apply (h_here cb _ id (HErr e)). exact E.
  Qed.

  Lemma vrel_visit_pre : forall t, vrel cb (visit_pre cb t) (visit_pre cb' t).
  Proof.
    induction t as [id i ch IH] using rt_ind'. cbn [visit_pre].
    apply vrel_self_call, vrel_seq. now apply Forall2_map_same.
  Qed.

  Lemma vrel_visit_post : forall t, vrel cb (visit_post cb t) (visit_post cb' t).
  Proof.
    induction t as [id i ch IH] using rt_ind'. cbn [visit_post].
    apply vrel_then_call, vrel_seq. now apply Forall2_map_same.
  Qed.

  (* one level of _visit_level *)
  Lemma level_row_rel : forall f calls,
    exists t' n', level_row cb' f calls = (t', n', None) /\
      match level_row cb f calls with
      | (t, n, None) => t' = t /\ n' = n /\ quiet cb calls t
      | (t, n, Some h) => halted cb calls t h /\ exists rest, t' = t ++ rest
      end.
  Proof.
    induction f as [|c r IH]; intros calls.
    - exists [], []. split; [reflexivity|]. cbn. repeat split. constructor.
    - cbn [level_row]. rewrite (Hm calls (rid c)).
      destruct (IH (calls ++ [rid c])) as (t' & n' & E' & H).
      destruct (call_cb cb (rid c) calls) as [| |v|e] eqn:E; cbn [mute_out]; rewrite E'.
      + eexists _, _. split; [reflexivity|].
        destruct (level_row cb r (calls ++ [rid c])) as [[t n] [h|]].
        * destruct H as [Hh (rest & ->)]. split; [|now exists rest]. apply h_cons; [left; exact E|exact Hh].
        * destruct H as (-> & -> & Hq). repeat split. constructor; [left; exact E|exact Hq].
      + eexists _, _. split; [reflexivity|].
        destruct (level_row cb r (calls ++ [rid c])) as [[t n] [h|]].
        * destruct H as [Hh (rest & ->)]. split; [|now exists rest]. apply h_cons; [right; exact E|exact Hh].
        * destruct H as (-> & -> & Hq). repeat split. constructor; [right; exact E|exact Hq].
      + eexists _, _. split; [reflexivity|]. split; [apply (h_here cb calls _ (HStop v)); exact E|now exists t'].
      + eexists _, _. split; [reflexivity|]. split; [apply (h_here cb calls _ (HErr e)); exact E|now exists t'].
  Qed.

  Lemma vrel_visit_level : forall fuel f, vrel cb (visit_level fuel cb f) (visit_level fuel cb' f).
  Proof.
    induction fuel as [|k IH]; intros f calls.
    - exists []. split; [reflexivity|]. cbn. split; [reflexivity|constructor].
    - destruct f as [|c r].
      + exists []. split; [reflexivity|]. cbn. split; [reflexivity|constructor].
      + cbn [visit_level]. destruct (level_row_rel (c :: r) calls) as (t' & n' & E' & H). rewrite E'.
        destruct (level_row cb (c :: r) calls) as [[t n] [h|]].
        * destruct H as [Hh (rest & ->)].
          destruct (IH n' (calls ++ t ++ rest)) as (t2' & E2' & _). rewrite E2'.
          eexists. split; [reflexivity|]. split; [exact Hh|]. exists (rest ++ t2'). now rewrite app_assoc.
        * destruct H as (-> & -> & Hq).
          destruct (IH n (calls ++ t)) as (t2' & E2' & H2). rewrite E2'.
          eexists. split; [reflexivity|].
          destruct (visit_level k cb n (calls ++ t)) as [t2 [h|]].
          -- destruct H2 as [Hh (rest & ->)]. split; [now apply halted_app|]. exists rest. now rewrite app_assoc.
          -- destruct H2 as [-> Hq2]. split; [reflexivity|now apply quiet_app].
  Qed.

  Lemma vrel_visit_body s m a v :
    visit_body cb s m a = Some v -> exists v', visit_body cb' s m a = Some v' /\ vrel cb v v'.
  Proof.
    destruct m; cbn [visit_body]; try discriminate; intros H; inversion H; subst; clear H;
      eexists; (split; [reflexivity|]).
    - assert (B : vrel cb (seq_visit (map (visit_pre cb) (rch s))) (seq_visit (map (visit_pre cb') (rch s)))).
      { apply vrel_seq, Forall2_map_same, Forall_forall. intros c _. apply vrel_visit_pre. }
      destruct a; [now apply vrel_self_call|exact B].
    - assert (B : vrel cb (seq_visit (map (visit_post cb) (rch s))) (seq_visit (map (visit_post cb') (rch s)))).
      { apply vrel_seq, Forall2_map_same, Forall_forall. intros c _. apply vrel_visit_post. }
      destruct a; [now apply vrel_then_call|exact B].
    - destruct a; [apply vrel_self_call|]; apply vrel_visit_level.
  Qed.
End Mutes.

Definition vres_of (h : halt) : vres := match h with HStop v => VReturn v | HErr e => VRaise e end.

Lemma visit_body_supported cb s m a : visit_supported m = true -> exists v, visit_body cb s m a = Some v.
Proof. destruct m; try discriminate; intros _; cbn [visit_body]; eauto. Qed.

(* General law of stop signals and errors, for any callback [cb] and its muted form [cb'] *)
Theorem visit_halt_general cb cb' s m a :
  mutes cb cb' -> visit_supported m = true ->
  exists tr tr' r, visit cb s m a = (tr, r) /\ visit cb' s m a = (tr', VReturn None) /\
    ((quiet cb [] tr /\ tr = tr' /\ r = VReturn None) \/
     (exists h, halted cb [] tr h /\ (exists rest, tr' = tr ++ rest) /\ r = vres_of h)).
Proof.
  intros Hm Hs. unfold visit.
  destruct (visit_body_supported cb s m a Hs) as (v & E). rewrite E.
  destruct (vrel_visit_body cb cb' Hm s m a v E) as (v' & E' & R). rewrite E'.
  destruct (R []) as (t' & Ev' & H). rewrite Ev'. cbn [finish].
  destruct (v []) as [t [h|]].
  - destruct H as [Hh Hrest]. exists t, t', (vres_of h). split; [now destruct h|]. split; [reflexivity|].
    right. exists h. auto.
  - destruct H as [-> Hq]. exists t, t, (VReturn None). split; [reflexivity|]. split; [reflexivity|].
    left. auto.
Qed.

Lemma halt_out_inj h h' : halt_out h = halt_out h' -> h = h'.
Proof. destruct h, h'; cbn; intros E; inversion E; reflexivity. Qed.
Lemma halt_out_halts h : ~ nonhalt (halt_out h).
Proof. destruct h; intros [E|E]; discriminate. Qed.

(* a callback that continues except at the k-th call (0-based), where it answers [o] *)
Definition at_call (cb : cbT) (k : nat) (o : outcome) : Prop :=
  forall calls x, call_cb cb x calls = if Nat.eqb (length calls) k then o else Continue.

Definition cb_continue : cbT := fun _ _ => RetNone.
Lemma cb_continue_all : all_continue cb_continue.
Proof. intros calls x. reflexivity. Qed.

(* Stop (or fail) at the k-th call: exactly the first k+1 nodes of the iterator's
   order are called and visit() returns the carried value (re-raises the error) *)
Theorem visit_stop_at_call cb s m a k h l :
  at_call cb k (halt_out h) -> visit_supported m = true -> iterator s m a = Some l ->
  visit cb s m a = if k <? length l then (firstn (S k) (map rid l), vres_of h) else (map rid l, VReturn None).
Proof.
  intros Hcb Hs Hl.
  assert (Hm : mutes cb cb_continue).
  { intros calls x. rewrite Hcb. change (call_cb cb_continue x calls) with Continue.
    destruct (Nat.eqb (length calls) k); [now destruct h|reflexivity]. }
  destruct (visit_all_continue cb_continue s m a cb_continue_all Hs) as (l0 & Hl0 & Hv0).
  rewrite Hl in Hl0. inversion Hl0; subst l0; clear Hl0.
  destruct (visit_halt_general cb cb_continue s m a Hm Hs) as (tr & tr' & r & Ev & Ev' & H).
  rewrite Hv0 in Ev'. inversion Ev'; subst tr'; clear Ev'. rewrite Ev.
  destruct H as [(Hq & -> & ->) | (h0 & Hh & (rest & Er) & ->)].
  - destruct (Nat.ltb_spec k (length l)) as [Hlt|Hge]; [exfalso|reflexivity].
    destruct (nth_error (map rid l) k) as [x|] eqn:En.
    + pose proof (quiet_nth cb _ _ Hq k x En) as Hn. rewrite Hcb in Hn. cbn [app] in Hn.
      rewrite firstn_length, map_length, Nat.min_l, Nat.eqb_refl in Hn by lia.
      now apply halt_out_halts in Hn.
    + apply nth_error_None in En. rewrite map_length in En. lia.
  - destruct (halted_last cb _ _ _ Hh) as (tr0 & x & -> & Hq & E). cbn [app] in E. rewrite Hcb in E.
    destruct (Nat.eqb_spec (length tr0) k) as [Hk|Hk].
    + apply halt_out_inj in E. subst h0.
      assert (Hlen : length l = length ((tr0 ++ [x]) ++ rest)) by (rewrite <- Er; now rewrite map_length).
      rewrite !app_length in Hlen. cbn [length] in Hlen.
      destruct (Nat.ltb_spec k (length l)) as [Hlt|Hge]; [|lia].
      rewrite Er. replace (S k) with (length (tr0 ++ [x])) by (rewrite app_length; cbn [length]; lia).
      now rewrite firstn_app_len.
    + exfalso. apply (halt_out_halts h0). rewrite <- E. now left.
Qed.

(* a callback that continues except at node n, where it answers [o] *)
Definition at_node (cb : cbT) (n : nat) (o : outcome) : Prop :=
  forall calls x, call_cb cb x calls = if Nat.eqb x n then o else Continue.

(* Stop (or fail) at node n: the calls are the iterator's order up to and including n *)
Theorem visit_stop_at_node cb s m a n h l :
  at_node cb n (halt_out h) -> visit_supported m = true -> iterator s m a = Some l ->
  (~ In n (map rid l) /\ visit cb s m a = (map rid l, VReturn None)) \/
  (exists l1 l2, map rid l = l1 ++ n :: l2 /\ ~ In n l1 /\ visit cb s m a = (l1 ++ [n], vres_of h)).
Proof.
  intros Hcb Hs Hl.
  assert (Hm : mutes cb cb_continue).
  { intros calls x. rewrite Hcb. change (call_cb cb_continue x calls) with Continue.
    destruct (Nat.eqb x n); [now destruct h|reflexivity]. }
  destruct (visit_all_continue cb_continue s m a cb_continue_all Hs) as (l0 & Hl0 & Hv0).
  rewrite Hl in Hl0. inversion Hl0; subst l0; clear Hl0.
  destruct (visit_halt_general cb cb_continue s m a Hm Hs) as (tr & tr' & r & Ev & Ev' & H).
  rewrite Hv0 in Ev'. inversion Ev'; subst tr'; clear Ev'. rewrite Ev.
  assert (QN : forall t0 c0, quiet cb c0 t0 -> ~ In n t0).
  { intros t0 c0 Hq. induction Hq as [c0|c0 y t0 Hy Hq IH]; [intros []|].
    intros [->|Hin]; [|now apply IH]. rewrite Hcb, Nat.eqb_refl in Hy. now apply halt_out_halts in Hy. }
  destruct H as [(Hq & -> & ->) | (h0 & Hh & (rest & Er) & ->)].
  - left. split; [eapply QN; eauto|reflexivity].
  - right. destruct (halted_last cb _ _ _ Hh) as (tr0 & x & -> & Hq & E). rewrite Hcb in E.
    destruct (Nat.eqb_spec x n) as [->|Hne].
    + apply halt_out_inj in E. subst h0. exists tr0, rest. split; [rewrite Er; now rewrite <- app_assoc|].
      split; [eapply QN; eauto|reflexivity].
    + exfalso. apply (halt_out_halts h0). rewrite <- E. now left.
Qed.

(* ------------------------------------------------------------------ *)
(* every returned / raised signal shape and its documented meaning     *)
(* ------------------------------------------------------------------ *)

Theorem signal_shapes : forall (v : option Z) (e : nat),
  (* no signal *)
  call_traversal_cb RetNone = Continue /\
  (* skip: SkipBranch class or instance, returned or raised *)
  call_traversal_cb RetSkipCls = Skip /\ call_traversal_cb RetSkipInst = Skip /\
  call_traversal_cb RaiseSkipCls = Skip /\ call_traversal_cb RaiseSkipInst = Skip /\
  (* stop: StopTraversal, False, StopIteration; an instance carries its value *)
  call_traversal_cb RetStopCls = Stop None /\ call_traversal_cb (RetStopInst v) = Stop v /\
  call_traversal_cb RaiseStopCls = Stop None /\ call_traversal_cb (RaiseStopInst v) = Stop v /\
  call_traversal_cb RetFalse = Stop None /\
  call_traversal_cb RetStopIterCls = Stop None /\ call_traversal_cb (RetStopIterInst v) = Stop v /\
  call_traversal_cb RaiseStopIterCls = Stop None /\ call_traversal_cb (RaiseStopIterInst v) = Stop v /\
  (* anything else: ValueError for a returned value, the exception itself otherwise *)
  call_traversal_cb RetOther = Err E_VALUE /\ call_traversal_cb (RaiseOther e) = Err e.
Proof. intros v e. cbv [call_traversal_cb cb_try_body]. repeat split. Qed.

(* the signal shapes that stop, with the value each carries *)
Inductive stop_shape : raw -> option Z -> Prop :=
| ss_ret_cls : stop_shape RetStopCls None
| ss_ret_inst v : stop_shape (RetStopInst v) v
| ss_raise_cls : stop_shape RaiseStopCls None
| ss_raise_inst v : stop_shape (RaiseStopInst v) v
| ss_false : stop_shape RetFalse None
| ss_iter_ret_cls : stop_shape RetStopIterCls None
| ss_iter_ret_inst v : stop_shape (RetStopIterInst v) v
| ss_iter_raise_cls : stop_shape RaiseStopIterCls None
| ss_iter_raise_inst v : stop_shape (RaiseStopIterInst v) v.

Lemma stop_shape_stops r v : stop_shape r v -> call_traversal_cb r = Stop v.
Proof. destruct 1; reflexivity. Qed.

(* the statement of the property, for every stop shape: a callback answering with
   shape [r] at its k-th call (and None otherwise) ends the traversal there and
   visit() returns the carried value *)
Theorem visit_stop_every_shape (r : raw) (v : option Z) s m a k l :
  stop_shape r v -> visit_supported m = true -> iterator s m a = Some l -> k < length l ->
  visit (fun calls _ => if Nat.eqb (length calls) k then r else RetNone) s m a
  = (firstn (S k) (map rid l), VReturn v).
Proof.
  intros Hr Hs Hl Hk.
  rewrite (visit_stop_at_call _ s m a k (HStop v) l); [|  |exact Hs|exact Hl].
  - apply Nat.ltb_lt in Hk. now rewrite Hk.
  - intros calls x. unfold call_cb. destruct (Nat.eqb (length calls) k); [now apply stop_shape_stops|reflexivity].
Qed.

(* ------------------------------------------------------------------ *)
(* fuel of _visit_level                                                *)
(* ------------------------------------------------------------------ *)

Lemma len_top_le f : length f <= length (pre_f f).
Proof.
  induction f as [|t r IH]; [cbn; lia|]. cbn [flat_map length]. rewrite app_length, (pre_unfold t). cbn [length]. lia.
Qed.

Lemma level_row_nxt_len cb : forall f calls tr nxt h,
  level_row cb f calls = (tr, nxt, h) -> length (pre_f nxt) + length f <= length (pre_f f).
Proof.
  induction f as [|c r IH]; intros calls tr nxt h H; cbn [level_row] in H.
  - inversion H; subst. cbn. lia.
  - pose proof (len_top_le r) as Lr.
    assert (Lc : length (pre c) = S (length (pre_f (rch c)))) by (now rewrite (pre_unfold c)).
    cbn [flat_map length]. rewrite app_length.
    destruct (call_cb cb (rid c) calls).
    + destruct (level_row cb r (calls ++ [rid c])) as [[t n] h'] eqn:E. inversion H; subst.
      specialize (IH _ _ _ _ E). rewrite flat_map_app, app_length. lia.
    + destruct (level_row cb r (calls ++ [rid c])) as [[t n] h'] eqn:E. inversion H; subst.
      specialize (IH _ _ _ _ E). lia.
    + inversion H; subst. cbn [flat_map length]. lia.
    + inversion H; subst. cbn [flat_map length]. lia.
Qed.

Theorem visit_level_fuel cb : forall n m f calls,
  length (pre_f f) <= n -> length (pre_f f) <= m -> visit_level n cb f calls = visit_level m cb f calls.
Proof.
  induction n as [|n IH]; intros m f calls Hn Hm.
  - pose proof (len_top_le f). destruct f; [|cbn [length] in *; lia]. destruct m; reflexivity.
  - destruct m as [|m].
    + pose proof (len_top_le f). destruct f; [|cbn [length] in *; lia]. reflexivity.
    + destruct f as [|c r]; [reflexivity|]. cbn [visit_level].
      destruct (level_row cb (c :: r) calls) as [[t nx] h] eqn:E.
      destruct h; [reflexivity|].
      apply level_row_nxt_len in E. cbn [length] in E.
      rewrite (IH m nx); [reflexivity|lia|lia].
Qed.

(* visit(LEVEL): [level_fuel s] iterations are enough for every callback *)
Theorem visit_level_fuel_enough cb s k calls :
  visit_level (level_fuel s + k) cb (rch s) calls = visit_level (level_fuel s) cb (rch s) calls.
Proof.
  unfold level_fuel. pose proof (len_pre_children s). apply visit_level_fuel; lia.
Qed.
