(* mermaid.py / node.py / tree.py: to_mermaid_flowchart called WITHOUT options – the default arguments of the four
   signatures (as_markdown=True, direction="TD" = mermaid.DEFAULT_DIRECTION, title=True, add_self/add_root=True,
   unique_nodes=True, headers=None, node_mapper=None, edge_mapper=None) as one options record of Export.v.
   Executable model, no proofs (MiscMermaidProofs.v). *)
From Coq Require Import List ZArith Bool.
From NT Require Import Sx Rose Export.
Import ListNotations.

Definition default_mopts (direction : text) : mopts := MO true direction TitleName [] true true None None.

Definition default_chart (direction : text) (s : rt) : option (list text) := mer_chart (default_mopts direction) s.

(* decoding of a lifted (parameter, default) table into the options record *)
Definition dflt (tbl : list (text * text)) (k : text) : option text :=
  option_map snd (find (fun e => text_eqb (fst e) k) tbl).

Definition t_True : text := [84; 114; 117; 101]%Z.
Definition t_None : text := [78; 111; 110; 101]%Z.
Definition is_true (o : option text) : option bool :=
  match o with Some t => if text_eqb t t_True then Some true else if text_eqb t [70; 97; 108; 115; 101]%Z then Some false else None | None => None end.
Definition is_none (o : option text) : bool := match o with Some t => text_eqb t t_None | None => false end.

Definition k_as_markdown : text := [97; 115; 95; 109; 97; 114; 107; 100; 111; 119; 110]%Z.
Definition k_direction : text := [100; 105; 114; 101; 99; 116; 105; 111; 110]%Z.
Definition k_title : text := [116; 105; 116; 108; 101]%Z.
Definition k_headers : text := [104; 101; 97; 100; 101; 114; 115]%Z.
Definition k_unique : text := [117; 110; 105; 113; 117; 101; 95; 110; 111; 100; 101; 115]%Z.
Definition k_node_mapper : text := [110; 111; 100; 101; 95; 109; 97; 112; 112; 101; 114]%Z.
Definition k_edge_mapper : text := [101; 100; 103; 101; 95; 109; 97; 112; 112; 101; 114]%Z.
Definition k_format : text := [102; 111; 114; 109; 97; 116]%Z.

(* [k_add]: "add_self" for Node.to_mermaid_flowchart, "add_root" for Tree.to_mermaid_flowchart; a str default of
   `direction` is lifted as its repr: 'TD' *)
Definition mopts_of_defaults (tbl : list (text * text)) (k_add : text) : option mopts :=
  match is_true (dflt tbl k_as_markdown), dflt tbl k_direction, is_true (dflt tbl k_title), is_true (dflt tbl k_add),
        is_true (dflt tbl k_unique) with
  | Some md, Some dir, Some true, Some add, Some uq =>
      if is_none (dflt tbl k_headers) && is_none (dflt tbl k_node_mapper) && is_none (dflt tbl k_edge_mapper) && is_none (dflt tbl k_format)
      then Some (MO md (removelast (tl dir)) TitleName [] add uq None None) else None
  | _, _, _, _, _ => None
  end.
