(* C08 — the predicate-call trace of the executable scans.
   [ip_node_tr] / [af_node_tr] (Filter.v) are the two scans with a log written where the Python
   loops call call_predicate; the correspondence evaluates them.  Here: forgetting the log gives
   the scans of the theorems ([ip_node] / [af_node]) back, and the log is the spec's call list
   [calls v f] = the reached nodes in pre-order up to and including the first stop answer. *)
From Coq Require Import List ZArith Bool Arith Lia.
From NT Require Import Sx Rose ListFacts RoseFacts Filter FilterProofs.
Import ListNotations.

Section T.
Variable v : nat -> verdict.
Variable mk : info -> info.

Lemma ip_tr_go l : forall s,
  (fix go (l : list rt) (s : bool) {struct l} : (list rt * list nat * bool * bool) * list nat :=
     match l with
     | [] => (([], [], false, s), [])
     | x :: xs =>
         let a := ip_node_tr v s x in
         let b := go xs (snd (fst a)) in
         ((fst (fst (fst (fst a))) :: fst (fst (fst (fst b))),
           (if snd (fst (fst (fst a))) then rid x :: snd (fst (fst (fst b))) else snd (fst (fst (fst b)))),
           snd (fst (fst a)) || snd (fst (fst b)),
           snd (fst b)),
          snd a ++ snd b)
     end) l s = ip_children_tr v s l.
Proof. induction l as [|x l IH]; intros s; [reflexivity|]. cbn [ip_children_tr]. rewrite IH. reflexivity. Qed.

Lemma ip_node_tr_unfold s id i ch :
  ip_node_tr v s (T id i ch) =
  if s then ((T id i ch, true, false, true), []) else
  let r := ip_children_tr v false ch in
  let ch' := remove_ids (snd (fst (fst (fst r)))) (fst (fst (fst (fst r)))) in
  let mkp := snd (fst (fst r)) in
  match v id with
  | VFalse => ((T id i ch', negb mkp, mkp, snd (fst r)), id :: snd r)
  | VTrue => ((T id i ch', false, true, snd (fst r)), id :: snd r)
  | VSelect => ((T id i ch, false, true, false), [id])
  | VSkipKeepSelf => ((T id i [], false, true, false), [id])
  | VSkip => ((T id i ch, true, false, false), [id])
  | VStop => ((T id i ch, true, false, true), [id])
  end.
Proof. cbn [ip_node_tr]. rewrite ip_tr_go. reflexivity. Qed.

Lemma ip_children_tr_cons s x xs :
  ip_children_tr v s (x :: xs) =
  let a := ip_node_tr v s x in
  let b := ip_children_tr v (snd (fst a)) xs in
  ((fst (fst (fst (fst a))) :: fst (fst (fst (fst b))),
    (if snd (fst (fst (fst a))) then rid x :: snd (fst (fst (fst b))) else snd (fst (fst (fst b)))),
    snd (fst (fst a)) || snd (fst (fst b)),
    snd (fst b)),
   snd a ++ snd b).
Proof. reflexivity. Qed.

Definition ip_tr_ok (t : rt) : Prop := forall s,
  fst (ip_node_tr v s t) = ip_node v s t /\
  snd (ip_node_tr v s t) = if s then [] else upto_stop v (reach_t v t).

Lemma ip_children_tr_ok l : Forall ip_tr_ok l -> forall s,
  fst (ip_children_tr v s l) = ip_children v s l /\
  snd (ip_children_tr v s l) = if s then [] else upto_stop v (reach v l).
Proof.
  induction 1 as [|x l Hx _ IH]; intros s; [destruct s; split; reflexivity|].
  rewrite ip_children_tr_cons, ip_children_cons. cbv zeta. destruct (Hx s) as [E1 E2].
  destruct (IH (snd (fst (ip_node_tr v s x)))) as [I1 I2].
  cbn [fst snd]. rewrite I1, I2, E1, E2. split; [reflexivity|].
  rewrite ip_node_stop, F_t_stop, reach_cons, upto_stop_app.
  destruct s; [reflexivity|]. cbn [orb].
  destruct (has_stop v (reach_t v x)) eqn:E; [apply app_nil_r|].
  rewrite (upto_stop_nostop v _ E). reflexivity.
Qed.

Lemma ip_node_tr_ok : forall t, ip_tr_ok t.
Proof.
  induction t as [id i ch IH] using rt_ind'. intros s.
  rewrite ip_node_tr_unfold, ip_node_unfold, reach_t_unfold. destruct s; [split; reflexivity|].
  cbv zeta. destruct (ip_children_tr_ok ch IH false) as [I1 I2]. cbv beta iota in I2.
  unfold ip_visit. rewrite I1, I2. cbn [fst snd upto_stop].
  destruct (v id); cbn [fst snd is_stop opens]; split; reflexivity.
Qed.

(* Node.filter: forgetting the log gives the scan of the theorems; the log is the spec's call list *)
Theorem filter_inplace_tr_spec f : filter_inplace_tr v f = (filter_inplace v f, calls v f).
Proof.
  unfold filter_inplace_tr, filter_inplace, ip_visit, calls.
  assert (H : Forall ip_tr_ok f) by (apply Forall_forall; intros t _; apply ip_node_tr_ok).
  destruct (ip_children_tr_ok f H false) as [I1 I2]. cbv beta iota in I2. rewrite I1, I2. reflexivity.
Qed.

(* ---- the copying scan ---- *)
Lemma af_tr_go l : forall sl,
  (fix go (l : list rt) (sl : afst * list nat) {struct l} : afst * list nat :=
     match l with
     | [] => sl
     | x :: xs => go xs (af_node_tr v mk x sl)
     end) l sl = af_children_tr v mk l sl.
Proof. induction l as [|x l IH]; intros sl; [reflexivity|]. cbn [af_children_tr]. rewrite IH. reflexivity. Qed.

Lemma af_node_tr_unfold id i ch stk nx s lg :
  af_node_tr v mk (T id i ch) ((stk, nx, s), lg) =
  if s then ((stk, nx, s), lg) else
  let stk1 := Virtual (T id i ch) :: stk in
  let lg' := lg ++ [id] in
  match v id with
  | VSkipKeepSelf =>
      let m := materialise mk stk1 nx in
      ((pop (add_top (T (snd m) (mk i) []) (fst m)), S (snd m), false), lg')
  | VStop => ((pop stk1, nx, true), lg')
  | VSelect =>
      let m := materialise mk stk1 nx in
      let c := copy_f ch (snd m) in
      ((pop (add_tops (fst c) (fst m)), snd c, false), lg')
  | VFalse =>
      let r := af_children_tr v mk ch ((stk1, nx, false), lg') in
      ((pop (fst (fst (fst r))), snd (fst (fst r)), snd (fst r)), snd r)
  | VTrue =>
      let m := materialise mk stk1 nx in
      let r := af_children_tr v mk ch ((add_top (T (snd m) (mk i) []) (fst m), S (snd m), false), lg') in
      ((pop (fst (fst (fst r))), snd (fst (fst r)), snd (fst r)), snd r)
  | VSkip => ((pop stk1, nx, false), lg')
  end.
Proof.
  cbn [af_node_tr fst snd]. destruct s; [reflexivity|].
  destruct (v id); try reflexivity; rewrite af_tr_go; reflexivity.
Qed.

Definition af_tr_ok (t : rt) : Prop := forall stk nx s lg,
  fst (af_node_tr v mk t ((stk, nx, s), lg)) = af_node v mk t (stk, nx, s) /\
  snd (af_node_tr v mk t ((stk, nx, s), lg)) = lg ++ (if s then [] else upto_stop v (reach_t v t)).

Lemma af_children_tr_ok l : Forall af_tr_ok l -> forall stk nx s lg,
  fst (af_children_tr v mk l ((stk, nx, s), lg)) = af_children v mk l (stk, nx, s) /\
  snd (af_children_tr v mk l ((stk, nx, s), lg)) = lg ++ (if s then [] else upto_stop v (reach v l)).
Proof.
  induction 1 as [|x l Hx _ IH]; intros stk nx s lg.
  - cbn. destruct s; rewrite app_nil_r; split; reflexivity.
  - cbn [af_children_tr af_children]. destruct (Hx stk nx s lg) as [E1 E2].
    destruct (af_node_tr v mk x ((stk, nx, s), lg)) as [st1 lg1]. cbn [fst snd] in E1, E2. subst st1 lg1.
    pose proof (af_node_stop v mk x stk nx s) as Es.
    destruct (af_node v mk x (stk, nx, s)) as [[stk1 nx1] s1]. cbn [snd] in Es. subst s1.
    destruct (IH stk1 nx1 (snd (F_t v s x)) (lg ++ (if s then [] else upto_stop v (reach_t v x)))) as [I1 I2].
    split; [exact I1|]. etransitivity; [exact I2|].
    rewrite F_t_stop, reach_cons, upto_stop_app.
    rewrite <- app_assoc. f_equal. destruct s; [reflexivity|]. cbn [orb].
    destruct (has_stop v (reach_t v x)) eqn:E; [apply app_nil_r|].
    rewrite (upto_stop_nostop v _ E). reflexivity.
Qed.

Lemma af_node_tr_ok : forall t, af_tr_ok t.
Proof.
  induction t as [id i ch IH] using rt_ind'. intros stk nx s lg.
  rewrite af_node_tr_unfold, af_node_unfold, reach_t_unfold.
  destruct s; [rewrite app_nil_r; split; reflexivity|]. cbv zeta. cbn [upto_stop].
  pose proof (af_children_tr_ok ch IH) as Hk.
  destruct (v id); cbn [fst snd is_stop opens]; try (split; reflexivity).
  all: match goal with |- context [af_children_tr v mk ?C ((?A, ?B, false), ?L)] =>
         destruct (Hk A B false L) as [I1 I2]; destruct (af_children_tr v mk C ((A, B, false), L)) as [st1 lg1] end;
       cbn [fst snd] in *; subst st1 lg1; rewrite <- app_assoc; split; reflexivity.
Qed.

(* _add_filtered: forgetting the log gives the scan of the theorems; the log is the spec's call list *)
Theorem add_filtered_tr_spec f nx :
  add_filtered_tr v mk f nx = (fst (add_filtered v mk f nx), snd (add_filtered v mk f nx), calls v f).
Proof.
  unfold add_filtered_tr, add_filtered, calls.
  assert (H : Forall af_tr_ok f) by (apply Forall_forall; intros t _; apply af_node_tr_ok).
  destruct (af_children_tr_ok f H [Existing 0 (I 0 0 0 false [] (DInt 0) None []) []] nx false []) as [I1 I2].
  rewrite I1, I2. cbn [snd app].
  destruct (fst (fst (af_children v mk f ([Existing 0 (I 0 0 0 false [] (DInt 0) None []) []], nx, false)))) as [|[a b rc|src] [|fr rest]];
    reflexivity.
Qed.

End T.

(* the same for a predicate given by what it does -- returns or RAISES (SkipBranch / SelectBranch /
   StopTraversal instances or classes, StopIteration): each scan sees it through its own chain of tests *)
Lemma reach_ext v w : (forall n, v n = w n) -> forall f, reach v f = reach w f.
Proof.
  intros H. assert (Ht : forall t, reach_t v t = reach_t w t).
  { induction t as [id i ch IH] using rt_ind'. cbn [reach_t]. rewrite (H id). f_equal.
    destruct (opens (w id)); [|reflexivity].
    induction IH as [|c ch Hc _ IHch]; [reflexivity|]. cbn [flat_map]. rewrite Hc, IHch. reflexivity. }
  induction f as [|t f IH]; [reflexivity|]. unfold reach in *. cbn [flat_map]. rewrite Ht, IH. reflexivity.
Qed.

Lemma upto_stop_ext v w : (forall n, v n = w n) -> forall l, upto_stop v l = upto_stop w l.
Proof. intros H. induction l as [|x l IH]; [reflexivity|]. cbn [upto_stop]. rewrite (H x), IH. reflexivity. Qed.

Theorem traces_raw (p : nat -> raw) mk f nx :
  snd (filter_inplace_tr (fun n => classify_ip (call_predicate (p n))) f) = calls (fun n => classify_ip (call_predicate (p n))) f /\
  snd (add_filtered_tr (fun n => classify_cp (call_predicate (p n))) mk f nx) = calls (fun n => classify_cp (call_predicate (p n))) f /\
  calls (fun n => classify_ip (call_predicate (p n))) f = calls (fun n => classify_cp (call_predicate (p n))) f.
Proof.
  rewrite filter_inplace_tr_spec, add_filtered_tr_spec. refine (conj eq_refl (conj eq_refl _)).
  unfold calls. rewrite (reach_ext _ (fun n => classify_cp (call_predicate (p n)))) by (intros n; apply classify_same).
  apply upto_stop_ext. intros n. apply classify_same.
Qed.
