(* More about the model of diff.py: diff() does not raise in the domain of the
   theorems (the UniqueConstraintError of Tree._register cannot occur), and the
   iteration order built from the hints is a permutation of added_nodes. *)
From Coq Require Import List ZArith Bool Arith Lia Permutation.
From NT Require Import Sx Rose ListFacts RoseFacts Diff DiffProofs.
Import ListNotations.

(* ------------------------------------------------------------------ *)
(* no UniqueConstraintError                                            *)
(* ------------------------------------------------------------------ *)
(* what Tree._register guarantees for every real tree: no two siblings with
   one data_id, at any level *)
Definition dsu (f : forest) : Prop :=
  NoDup (map rdid f) /\ forall x, In x (pre_f f) -> NoDup (map rdid (rch x)).
(* equal data_ids only for equal data, among the nodes of a list *)
Definition did_inj (l : list rt) : Prop :=
  forall x y, In x l -> In y l -> rdid x = rdid y -> key x = key y.

Lemma existsb_did_in d l : existsb (did_eqb d) l = true <-> In d l.
Proof.
  rewrite existsb_exists. split.
  - intros [x [Hx E]]. apply did_eqb_eq in E. now subst.
  - intros H. exists d. split; [exact H|apply did_eqb_refl].
Qed.

Lemma dids_nodup_iff l : dids_nodup l = true <-> NoDup l.
Proof.
  induction l as [|d l IH]; cbn.
  - split; [constructor|reflexivity].
  - rewrite andb_true_iff, negb_true_iff, IH. split.
    + intros [H1 H2]. constructor; [|exact H2]. intros Hi. apply existsb_did_in in Hi. congruence.
    + intros H. inversion H as [|? ? Hn Hnd]; subst. split; [|exact Hnd].
      destruct (existsb (did_eqb d) l) eqn:E; [|reflexivity]. apply existsb_did_in in E. contradiction.
Qed.

Lemma NoDup_map_transfer {X Y W} (f : X -> Y) (g : X -> W) l :
  NoDup (map f l) -> (forall x y, In x l -> In y l -> g x = g y -> f x = f y) -> NoDup (map g l).
Proof.
  induction l as [|a l IH]; cbn; intros H Hfg; [constructor|]. inversion H as [|? ? Hn Hnd]; subst. constructor.
  - intros Hi. apply in_map_iff in Hi. destruct Hi as [b [E Hb]]. apply Hn.
    rewrite (Hfg a b); auto. now apply in_map.
  - apply IH; auto.
Qed.

(* every node of the result wraps the data of a source node: same key, same data_id *)
Definition src_of (x s : rt) : Prop := key x = key s /\ rdid x = rdid s.

Lemma dsu_sub f c : dsu f -> In c f -> dsu (rch c).
Proof.
  intros [U V] Hc. split; [apply V; now apply in_pre_f_top|]. intros x Hx. apply V. eapply pre_f_sub; eauto.
Qed.

Lemma sibs_ok_unfold x : sibs_ok x = sibs_ok_f (rch x).
Proof. now destruct x. Qed.

Lemma rdid_copy_child m n : rdid (copy_child m n) = rdid n. Proof. now destruct n. Qed.
Lemma rdid_add_top c : rdid (add_top c) = rdid c. Proof. now destruct c. Qed.
Lemma rdid_cmp ordered ch1 i0 c0 : rdid (fst (cmp ordered ch1 i0 c0)) = rdid c0.
Proof. rewrite cmp_unfold. destruct (find_child ch1 (key c0)) as [[i1 c1]|]; now destruct c0. Qed.

(* copies of t1 branches *)
Lemma copy_child_sibs_ok : forall n m,
  (forall x, In x (pre n) -> NoDup (map rdid (rch x))) -> sibs_ok (copy_child m n) = true.
Proof.
  induction n as [id i ch IH] using rt_ind'. intros m HU. cbn [copy_child sibs_ok].
  apply andb_true_iff. split.
  - apply dids_nodup_iff. rewrite map_map. erewrite map_ext; [apply (HU (T id i ch)); now left|].
    intros c. apply rdid_copy_child.
  - apply forallb_forall. intros x' Hx'. apply in_map_iff in Hx'. destruct Hx' as [c [<- Hc]].
    rewrite Forall_forall in IH. apply IH; [exact Hc|].
    intros x Hx. apply HU. right. apply in_flat_map. eauto.
Qed.

Lemma add_top_sibs_ok c1 :
  (forall x, In x (pre c1) -> NoDup (map rdid (rch x))) -> sibs_ok (add_top c1) = true.
Proof.
  destruct c1 as [id i ch]. intros HU. unfold add_top. cbn [rid rinfo rch sibs_ok]. unfold copy_children.
  apply andb_true_iff. split.
  - apply dids_nodup_iff. rewrite map_map. erewrite map_ext; [apply (HU (T id i ch)); now left|].
    intros c. apply rdid_copy_child.
  - apply forallb_forall. intros x' Hx'. apply in_map_iff in Hx'. destruct Hx' as [c [<- Hc]].
    apply copy_child_sibs_ok. intros x Hx. apply HU. right. apply in_flat_map. eauto.
Qed.

Lemma r0_dids ordered ch1 ch0 : map rdid (r0_of ordered ch1 ch0) = map rdid ch0.
Proof.
  unfold r0_of. generalize 0. induction ch0 as [|c ch0 IH]; intros i; cbn; [reflexivity|].
  now rewrite IH, rdid_cmp.
Qed.

Lemma compare_sibs_ok_aux ordered ch0 :
  Forall (fun c => forall ch1 i0, (forall x, In x (pre c) -> NoDup (map rdid (rch x))) -> dsu ch1 ->
                   sibs_ok (fst (cmp ordered ch1 i0 c)) = true) ch0 ->
  forall ch1, dsu ch0 -> dsu ch1 -> sibs_ok_f (fst (compare ordered ch0 ch1)) = true.
Proof.
  intros IH ch1 D0 D1. unfold sibs_ok_f. rewrite compare_split. apply andb_true_iff. split.
  - apply dids_nodup_iff. rewrite map_app, r0_dids. apply NoDup_app_intro; [apply D0| |].
    + unfold added_part. rewrite map_map. erewrite map_ext; [|intros c; apply rdid_add_top].
      apply NoDup_map_filter, D1.
    + intros d H0 Ha. apply in_map_iff in Ha. destruct Ha as [x [<- Hx]].
      apply added_part_in in Hx. destruct Hx as [c1 [_ [Hno ->]]]. rewrite rdid_add_top in H0.
      apply in_dids_false in Hno. contradiction.
  - apply forallb_forall. intros x Hx. apply in_app_or in Hx. destruct Hx as [Hx|Hx].
    + apply r0_in in Hx. destruct Hx as [i0 [c0 [Hi ->]]]. pose proof (nth_error_In _ _ Hi) as H0.
      rewrite Forall_forall in IH. apply (IH c0 H0 ch1 i0); [|exact D1].
      intros y Hy. apply D0. apply in_flat_map. eauto.
    + apply added_part_in in Hx. destruct Hx as [c1 [H1 [_ ->]]]. apply add_top_sibs_ok.
      intros y Hy. apply D1. apply in_flat_map. eauto.
Qed.

Lemma cmp_sibs_ok ordered : forall c0 ch1 i0,
  (forall x, In x (pre c0) -> NoDup (map rdid (rch x))) -> dsu ch1 -> sibs_ok (fst (cmp ordered ch1 i0 c0)) = true.
Proof.
  induction c0 as [n0 inf0 ch0 IH] using rt_ind'. intros ch1 i0 HU D1. rewrite cmp_unfold.
  destruct (find_child ch1 (key (T n0 inf0 ch0))) as [[i1 c1]|] eqn:F; [|reflexivity].
  destruct (find_child_some _ _ _ _ F) as [_ [_ [H1 _]]]. cbv zeta. cbn [fst]. rewrite sibs_ok_unfold. cbn [rch].
  apply (compare_sibs_ok_aux ordered ch0 IH (rch c1)).
  - split; [apply (HU (T n0 inf0 ch0)); now left|]. intros x Hx. apply HU. now right.
  - eapply dsu_sub; eauto.
Qed.

Lemma compare_sibs_ok ordered ch0 ch1 : dsu ch0 -> dsu ch1 -> sibs_ok_f (fst (compare ordered ch0 ch1)) = true.
Proof. apply compare_sibs_ok_aux. apply Forall_forall. intros c _. apply cmp_sibs_ok. Qed.

(* for well-formed inputs (no two siblings with one data_id) diff() returns a
   result: no domain hypothesis is needed *)
Theorem diff_no_error hints ordered reduce t0 t1 : dsu t0 -> dsu t1 ->
  diff_tree_lit hints ordered reduce t0 t1 =
  Some (diff_with (eff_order hints (fst (compare ordered t0 t1))) ordered reduce t0 t1).
Proof.
  intros D0 D1. rewrite diff_tree_lit_eq. unfold diff_tree, diff_gen.
  now rewrite (compare_sibs_ok ordered t0 t1 D0 D1).
Qed.

(* ------------------------------------------------------------------ *)
(* the order built from the hints is a permutation of added_nodes      *)
(* ------------------------------------------------------------------ *)
Lemma mem_in n l : mem n l = true <-> In n l.
Proof.
  unfold mem. rewrite existsb_exists. split.
  - intros [x [Hx E]]. apply Nat.eqb_eq in E. now subst.
  - intros H. exists n. split; [exact H|apply Nat.eqb_refl].
Qed.

Theorem eff_order_perm hints f : NoDup (added_ids f) -> Permutation (eff_order hints f) (added_ids f).
Proof.
  intros Hnd. unfold eff_order. set (added := added_ids f) in *.
  apply NoDup_Permutation; [|exact Hnd|].
  - apply NoDup_app_intro.
    + apply NoDup_nodup.
    + now apply NoDup_filter.
    + intros x H1 H2. apply nodup_In, filter_In in H1. apply filter_In in H2.
      destruct H1 as [H1 _]. destruct H2 as [_ H2]. apply negb_true_iff in H2.
      apply mem_in in H1. congruence.
  - intros x. rewrite in_app_iff, nodup_In, !filter_In, negb_true_iff, mem_in. split.
    + intros [[_ H]|[H _]]; auto.
    + intros H. destruct (mem x hints) eqn:E; [left|right; auto]. split; [now apply mem_in|exact H].
Qed.

(* ------------------------------------------------------------------ *)
(* completeness of the re-classification for complete orders           *)
(* ------------------------------------------------------------------ *)
(* If every added node is visited (as the Python loop does), no REMOVED mark
   survives on a node whose data_id also occurs on a node copied from t1:
   whatever can be explained as a move is classified as a move. *)
Definition odd_no_gone (f : forest) : Prop := forall x, In x (pre_f f) -> Nat.odd (rid x) = true -> gone x = false.
Definition done_for (S : list nat) (f : forest) : Prop :=
  forall x y, In x (pre_f f) -> In y (pre_f f) -> In (rid x) S -> Nat.odd (rid x) = true ->
              has_dc y REMOVED = true -> rdid y <> rdid x.

Lemma step_removed_shrinks g y : step_ok g -> has_dc (map_info g y) REMOVED = true -> has_dc y REMOVED = true.
Proof.
  intros Hg. rewrite has_dc_map_info, has_dc_info.
  destruct (Hg (rid y) (rinfo y)) as [-> |[[_ ->]|[_ ->]]]; auto; rewrite info_has_dc_set_b; discriminate.
Qed.

Lemma filter_map_swap {X Y} (p : Y -> bool) (F : X -> Y) l : filter p (map F l) = map F (filter (fun x => p (F x)) l).
Proof. induction l as [|x l IH]; [reflexivity|]. cbn. destruct (p (F x)); cbn; now rewrite IH. Qed.

Lemma odd_node_unique f x y : NoDup (added_ids f) -> In x (pre_f f) -> In y (pre_f f) ->
  Nat.odd (rid x) = true -> rid x = rid y -> x = y.
Proof.
  unfold added_ids, ids. rewrite filter_map_swap. intros Hnd Hx Hy Ho E.
  apply (NoDup_map_inj rid _ x y Hnd); [| |exact E]; apply filter_In; split; auto. now rewrite <- E.
Qed.

Lemma reclass_step_complete f a S :
  odd_no_gone f -> NoDup (added_ids f) -> done_for S f ->
  odd_no_gone (reclass_step f a) /\ ids (reclass_step f a) = ids f /\ done_for (a :: S) (reclass_step f a).
Proof.
  intros G1 Hnd HD. unfold reclass_step.
  destruct (Nat.odd a) eqn:Ha.
  2:{ refine (conj G1 (conj eq_refl _)). intros x y Hx Hy [<-|Hs] Ho; [congruence|now apply HD]. }
  destruct (find_node a f) as [n|] eqn:Fn.
  2:{ refine (conj G1 (conj eq_refl _)). intros x y Hx Hy [E|Hs] Ho; [|now apply HD].
      exfalso. unfold find_node in Fn. pose proof (find_none _ _ Fn x Hx) as Hf. cbn in Hf.
      rewrite <- E, Nat.eqb_refl in Hf. discriminate. }
  pose proof Fn as Fn'. apply find_some in Fn'. destruct Fn' as [Hn Rn]. apply Nat.eqb_eq in Rn.
  match goal with |- context [if ?b then _ else _] => destruct b eqn:Ex end.
  - (* the step is applied *)
    set (g := reclass_fn a (rdid n)). assert (Hg : step_ok g) by now apply reclass_fn_ok.
    assert (Pre : forall z', In z' (pre_f (map (map_info g) f)) <-> exists z, In z (pre_f f) /\ z' = map_info g z).
    { intros z'. rewrite map_info_pre_f, in_map_iff. split; intros [z [A B]]; exists z; auto. }
    refine (conj _ (conj _ _)).
    + intros z' Hz' Ho. apply Pre in Hz'. destruct Hz' as [z [Hz ->]].
      destruct (step_node g z Hg) as [Rz [_ [_ [_ [_ [_ Ok]]]]]]. rewrite Rz in Ho. apply Ok. split; auto.
    + unfold ids. rewrite map_info_pre_f, map_map. apply map_ext. intros z. apply map_info_rid.
    + intros x' y' Hx' Hy' Hs Ho Ry. apply Pre in Hx'. destruct Hx' as [x [Hx ->]]. apply Pre in Hy'. destruct Hy' as [y [Hy ->]].
      destruct (step_node g x Hg) as [Rx [_ [Dx _]]]. destruct (step_node g y Hg) as [_ [_ [Dy _]]].
      rewrite Rx in Hs, Ho. rewrite Dx, Dy. pose proof (step_removed_shrinks g y Hg Ry) as Ry0.
      destruct Hs as [E|Hs]; [|now apply (HD x y)].
      (* x is the processed node n *)
      assert (x = n) by (apply (odd_node_unique f); auto; congruence). subst x.
      intros Ed. rewrite has_dc_map_info in Ry. unfold g, reclass_fn in Ry. fold (rdid y) in Ry.
      rewrite Ed, did_eqb_refl in Ry. rewrite has_dc_info in Ry0. rewrite Ry0 in Ry.
      destruct (Nat.eqb (rid y) a); cbn in Ry; rewrite info_has_dc_set_b in Ry; discriminate.
  - (* nothing to re-classify for a *)
    refine (conj G1 (conj eq_refl _)). intros x y Hx Hy [E|Hs] Ho Ry; [|now apply HD].
    assert (x = n) by (apply (odd_node_unique f); auto; congruence). subst x. intros Ed.
    assert (existsb (fun x => negb (Nat.eqb (rid x) a) && did_eqb (rdid x) (rdid n) && has_dc x REMOVED) (pre_f f) = true);
      [|congruence].
    apply existsb_exists. exists y. split; [exact Hy|]. rewrite Ed, did_eqb_refl, Ry, andb_true_r, andb_true_r.
    apply negb_true_iff, Nat.eqb_neq. intros Ey.
    assert (gone y = false) by (apply G1; auto; now rewrite Ey).
    unfold gone, gone_i in H. rewrite has_dc_info in Ry. rewrite Ry in H. discriminate.
Qed.

Lemma reclass_complete_gen order : forall f S,
  odd_no_gone f -> NoDup (added_ids f) -> done_for S f ->
  done_for (rev order ++ S) (reclass order f) /\ ids (reclass order f) = ids f.
Proof.
  unfold reclass. induction order as [|a order IH]; intros f S G1 Hnd HD; [auto|].
  cbn [fold_left rev]. destruct (reclass_step_complete f a S G1 Hnd HD) as [G1' [I' HD']].
  destruct (IH (reclass_step f a) (a :: S) G1') as [A B]; [unfold added_ids; now rewrite I'|exact HD'|].
  split; [|congruence]. now rewrite <- app_assoc.
Qed.

Theorem reclass_complete order ordered t0 t1 :
  let raw := fst (compare ordered t0 t1) in
  NoDup (added_ids raw) -> incl (added_ids raw) order ->
  let f := snd (diff_with order ordered false t0 t1) in
  forall x y, In x (pre_f f) -> In y (pre_f f) -> Nat.odd (rid x) = true -> has_dc y REMOVED = true ->
              rdid y <> rdid x.
Proof.
  intros raw Hnd Hincl f x y Hx Hy Ho Ry. subst f. unfold diff_with in Hx, Hy. cbn [snd] in Hx, Hy. fold raw in Hx, Hy.
  destruct (reclass_complete_gen order raw []) as [HD HI]; auto.
  - intros z Hz. apply (moved_inv_raw ordered t0 t1). exact Hz.
  - intros ? ? ? ? [].
  - apply (HD x y); auto. rewrite app_nil_r. apply in_rev. rewrite rev_involutive. apply Hincl.
    unfold added_ids. rewrite <- HI. apply filter_In. split; [|exact Ho]. unfold ids. now apply in_map.
Qed.

Lemma eff_order_complete hints f : incl (added_ids f) (eff_order hints f).
Proof.
  intros a Ha. unfold eff_order. apply in_or_app. destruct (mem a hints) eqn:E.
  - left. apply nodup_In, filter_In. split; [now apply mem_in|]. now apply mem_in.
  - right. apply filter_In. split; [exact Ha|]. now rewrite E.
Qed.

(* ------------------------------------------------------------------ *)
(* every t1 node is copied at most once: added_nodes has no repeats    *)
(* ------------------------------------------------------------------ *)
Definition SubP {X} (a b : list X) : Prop := exists rest, Permutation b (a ++ rest).

Lemma SubP_refl {X} (a : list X) : SubP a a.
Proof. exists []. now rewrite app_nil_r. Qed.

Lemma SubP_app {X} (a b a' b' : list X) : SubP a b -> SubP a' b' -> SubP (a ++ a') (b ++ b').
Proof.
  intros [r Hr] [r' Hr']. exists (r ++ r').
  eapply Permutation_trans; [apply Permutation_app; eassumption|].
  rewrite <- !app_assoc. apply Permutation_app_head. rewrite !app_assoc. apply Permutation_app_tail.
  apply Permutation_app_comm.
Qed.

Lemma SubP_perm_r {X} (a b b' : list X) : SubP a b -> Permutation b b' -> SubP a b'.
Proof. intros [r Hr] Hp. exists r. eapply Permutation_trans; [apply Permutation_sym; exact Hp|exact Hr]. Qed.

Lemma SubP_NoDup {X} (a b : list X) : SubP a b -> NoDup b -> NoDup a.
Proof. intros [r Hr] Hb. eapply NoDup_app_l. eapply Permutation_NoDup; eauto. Qed.

Lemma subp_flat_by_key {X Y W} (kx : X -> Z) (ky : Y -> Z) (F : X -> list W) (G : Y -> list W) :
  forall l l', NoDup (map kx l) -> NoDup (map ky l') ->
  (forall x, In x l -> In (kx x) (map ky l')) ->
  (forall x y, In x l -> In y l' -> kx x = ky y -> SubP (F x) (G y)) ->
  SubP (flat_map F l) (flat_map G l').
Proof.
  induction l as [|x l IH]; intros l' Nx Ny Hxy HP.
  - exists (flat_map G l'). reflexivity.
  - assert (Hx : In (kx x) (map ky l')) by (apply Hxy; now left).
    apply in_map_iff in Hx. destruct Hx as [y [Ky Hy]].
    destruct (in_split _ _ Hy) as [a [b ->]].
    rewrite map_app in Ny. cbn [map] in Ny. pose proof (NoDup_remove _ _ _ Ny) as [Nab Nny].
    inversion Nx as [|? ? Nnx Nl]; subst.
    apply (SubP_perm_r _ (G y ++ flat_map G (a ++ b))).
    + cbn [flat_map]. apply SubP_app.
      * apply HP; [now left|apply in_or_app; right; now left|auto].
      * apply IH; [exact Nl|now rewrite map_app| |].
        -- intros x' Hx'. assert (H : In (kx x') (map ky (a ++ y :: b))) by (apply Hxy; now right).
           rewrite map_app in H |- *. cbn [map] in H. apply in_app_or in H. apply in_or_app.
           destruct H as [H|[H|H]]; auto. exfalso. apply Nnx. rewrite <- Ky, H. now apply in_map.
        -- intros x' y' Hx' Hy'. apply HP; [now right|]. apply in_app_or in Hy'. apply in_or_app.
           destruct Hy'; [now left|right; now right].
    + rewrite !flat_map_app. cbn [flat_map]. rewrite app_assoc.
      eapply Permutation_trans; [apply Permutation_app_tail, Permutation_app_comm|]. now rewrite <- app_assoc.
Qed.

Definition oddids (x : rt) : list nat := filter Nat.odd (ids_t x).

Lemma added_ids_flat f : added_ids f = flat_map oddids f.
Proof.
  unfold added_ids, ids, oddids, ids_t. induction f as [|c f IH]; [reflexivity|].
  cbn [flat_map]. now rewrite map_app, filter_app, IH.
Qed.

Lemma filter_all_odd l : filter Nat.odd (map id1 l) = map id1 l.
Proof. apply filter_all_true. intros x Hx. apply in_map_iff in Hx. destruct Hx as [n [<- _]]. apply odd_id1. Qed.

Lemma map_id1_ids l : map id1 (ids l) = flat_map (fun y => map id1 (ids_t y)) l.
Proof. unfold ids, ids_t. induction l as [|c l IHl]; [reflexivity|]. cbn [flat_map]. now rewrite !map_app, IHl. Qed.

Lemma lvl_added_sub ordered : forall ren r ch0 ch1, lvl ordered ren r ch0 ch1 ->
  SubP (added_ids r) (map id1 (ids ch1)).
Proof.
  intros ren r ch0 ch1 H. pose proof (lvl_in_keys _ _ _ _ _ H) as IK.
  induction H as [ren r ch0 ch1 N0 N1 L1 L2 L3 L4 L5 L6 L7 L8 L9 IH L10].
  rewrite added_ids_flat.
  rewrite map_id1_ids.
  rewrite (flat_map_filter_nil (fun x => negb (gone x))).
  2:{ intros x Hx G. apply negb_false_iff in G. unfold oddids. rewrite ids_t_unfold, (L7 x Hx G). cbn.
      pose proof (gone_new_excl _ G) as Hn. fold (new x) in Hn. now rewrite (L3 x Hx), Hn. }
  apply (subp_flat_by_key key key).
  - now apply NoDup_map_filter.
  - exact N1.
  - intros x Hx. apply filter_In in Hx. destruct Hx as [Hx G]. apply negb_true_iff in G. now apply (IK x Hx).
  - intros x y Hx Hy K. apply filter_In in Hx. destruct Hx as [Hx G]. apply negb_true_iff in G.
    destruct (new x) eqn:Hn.
    + destruct (L4 x Hx Hn) as [_ [c1 [H1 [K1 [_ [_ [I _]]]]]]].
      assert (c1 = y) by (apply (NoDup_map_inj key ch1); auto; congruence). subst c1.
      unfold oddids. rewrite I, filter_all_odd. apply SubP_refl.
    + unfold oddids. rewrite ids_t_unfold. cbn [filter]. rewrite (L3 x Hx), Hn.
      destruct (IK x Hx) as [I0 _]. destruct (in_keys_ex _ _ (I0 Hn)) as [c0 [H0 K0]].
      assert (S : SubP (added_ids (rch x)) (map id1 (ids (rch y)))).
      { apply (IH x c0 y Hx Hn H0 Hy K0 (eq_sym K)). eapply lvl_in_keys. eauto. }
      destruct S as [rest Hr]. exists (id1 (rid y) :: rest). rewrite ids_t_unfold. cbn [map].
      eapply Permutation_trans; [apply perm_skip; exact Hr|]. apply Permutation_middle.
Qed.

Lemma NoDup_map_id1 l : NoDup l -> NoDup (map id1 l).
Proof.
  induction 1 as [|x l Hn Hnd IH]; cbn; constructor; auto.
  intros Hi. apply in_map_iff in Hi. destruct Hi as [y [E Hy]]. unfold id1 in E. assert (y = x) by lia. now subst.
Qed.

Theorem added_ids_nodup ordered t0 t1 : dom t0 t1 -> NoDup (ids t1) ->
  NoDup (added_ids (fst (compare ordered t0 t1))).
Proof.
  intros Hd Hn. eapply SubP_NoDup; [eapply lvl_added_sub, compare_lvl, Hd|now apply NoDup_map_id1].
Qed.

(* in the domain, for the order the correspondence runs (and for every other
   complete order): a REMOVED mark survives only where no node copied from t1
   carries the same data_id *)
Theorem diff_moves_complete order ordered t0 t1 : dom t0 t1 -> NoDup (ids t1) ->
  incl (added_ids (fst (compare ordered t0 t1))) order ->
  let f := snd (diff_with order ordered false t0 t1) in
  forall x y, In x (pre_f f) -> In y (pre_f f) -> Nat.odd (rid x) = true -> has_dc y REMOVED = true ->
              rdid y <> rdid x.
Proof. intros Hd Hn Hi. apply reclass_complete; [now apply added_ids_nodup|exact Hi]. Qed.

Theorem eff_order_is_permutation hints ordered t0 t1 : dom t0 t1 -> NoDup (ids t1) ->
  let raw := fst (compare ordered t0 t1) in
  Permutation (eff_order hints raw) (added_ids raw).
Proof. intros Hd Hn. apply eff_order_perm. now apply added_ids_nodup. Qed.

(* ------------------------------------------------------------------ *)
(* the executable test of the no-error hypothesis is sound             *)
(* ------------------------------------------------------------------ *)
Lemma dsu_b_sound f : dsu_b f = true -> dsu f.
Proof.
  unfold dsu_b. intros H. apply andb_true_iff in H. destruct H as [H1 H2]. rewrite forallb_forall in H2.
  split; [now apply dids_nodup_iff|]. intros x Hx. apply dids_nodup_iff. now apply H2.
Qed.

Theorem no_raise_b_sound hints ordered reduce t0 t1 : no_raise_b t0 t1 = true ->
  diff_tree_lit hints ordered reduce t0 t1 <> None.
Proof.
  unfold no_raise_b. intros H. apply andb_true_iff in H. destruct H as [H1 H2].
  rewrite (diff_no_error hints ordered reduce t0 t1); [discriminate|now apply dsu_b_sound|now apply dsu_b_sound].
Qed.
