(* C19 -- [visit] (the function with the loop structure of fs.py: collect `files` and
   `dirs`, sort files by name, sort dirs by their Path, recurse after sorting) equals
   [load] (the structural definition all theorems are about), for every root path and
   every fuel above the nesting depth.  In particular: on a POSIX flavour sorting
   sibling directories by Path is sorting them by name. *)
From Coq Require Import List ZArith Bool Lia Arith Permutation.
From NT Require Import Sx Rose FsLoad FsLoadProofs.
Import ListNotations.
Open Scope nat_scope.

(* ---- Path order of siblings = name order ---- *)
Lemma path_ltb_siblings (pre : path) (a b : text) :
  path_ltb (pre ++ [a]) (pre ++ [b]) = text_ltb a b.
Proof.
  induction pre as [|x pre IH]; cbn.
  - destruct (text_eqb a b) eqn:E; [|reflexivity].
    apply text_eqb_eq in E. subst b. rewrite text_ltb_irrefl. reflexivity.
  - rewrite text_eqb_refl. exact IH.
Qed.

(* Path order is a strict total order as well (lexicographic lift) *)
Lemma path_ltb_irrefl a : path_ltb a a = false.
Proof. induction a as [|x a IH]; cbn; [reflexivity|]. rewrite text_eqb_refl. exact IH. Qed.

(* ---- the generic stable sort ---- *)
Section SortG.
  Context {X : Type}.

  Lemma ins_g_in (ltb : X -> X -> bool) x l y : In y (ins_g ltb x l) <-> y = x \/ In y l.
  Proof.
    induction l as [|z r IH]; cbn; [intuition|].
    destruct (ltb z x); cbn; [rewrite IH|]; intuition.
  Qed.

  Lemma sort_g_in (ltb : X -> X -> bool) l y : In y (sort_g ltb l) <-> In y l.
  Proof.
    induction l as [|x l IH]; cbn; [reflexivity|].
    fold (sort_g ltb l). rewrite ins_g_in, IH. intuition.
  Qed.

  Lemma ins_g_ext_in (ltb ltb' : X -> X -> bool) x l :
    (forall y, In y l -> ltb y x = ltb' y x) -> ins_g ltb x l = ins_g ltb' x l.
  Proof.
    induction l as [|z r IH]; intros H; cbn; [reflexivity|].
    rewrite (H z (or_introl eq_refl)). destruct (ltb' z x); [|reflexivity].
    f_equal. apply IH. intros y Hy. apply H. right; exact Hy.
  Qed.

  Lemma sort_g_ext_in (ltb ltb' : X -> X -> bool) l :
    (forall a b, In a l -> In b l -> ltb a b = ltb' a b) -> sort_g ltb l = sort_g ltb' l.
  Proof.
    induction l as [|x l IH]; intros H; cbn; [reflexivity|].
    fold (sort_g ltb l) (sort_g ltb' l).
    rewrite <- IH by (intros a b Ha Hb; apply H; right; assumption).
    apply ins_g_ext_in. intros y Hy. apply sort_g_in in Hy. apply H; [right; exact Hy|left; reflexivity].
  Qed.

  Lemma sort_by_is_sort_g (key : X -> text) l :
    sort_by key l = sort_g (fun a b => text_ltb (key a) (key b)) l.
  Proof.
    induction l as [|x l IH]; cbn; [reflexivity|].
    fold (sort_by key l) (sort_g (fun a b => text_ltb (key a) (key b)) l). rewrite <- IH.
    generalize (sort_by key l) as s. induction s as [|z r IHr]; cbn; [reflexivity|].
    destruct (text_ltb (key z) (key x)); [|reflexivity]. rewrite IHr. reflexivity.
  Qed.
End SortG.

Lemma ins_map {X Y} (k1 : X -> text) (k2 : Y -> text) (f : X -> Y) x l :
  (forall x, k2 (f x) = k1 x) -> ins k2 (f x) (map f l) = map f (ins k1 x l).
Proof.
  intros H. induction l as [|z r IH]; cbn; [reflexivity|].
  rewrite !H. destruct (text_ltb (k1 z) (k1 x)); cbn; [rewrite IH|]; reflexivity.
Qed.

Lemma sort_by_map {X Y} (k1 : X -> text) (k2 : Y -> text) (f : X -> Y) l :
  (forall x, k2 (f x) = k1 x) -> sort_by k2 (map f l) = map f (sort_by k1 l).
Proof.
  intros H. induction l as [|x l IH]; cbn; [reflexivity|].
  fold (sort_by k2 (map f l)) (sort_by k1 l). rewrite IH. apply ins_map; exact H.
Qed.

(* ---- depth ---- *)
Lemma fdepth_le_depth_l c l : In c l -> fdepth c <= depth_l l.
Proof.
  induction l as [|x l IH]; cbn; [intros []|]. intros [->|H]; [lia|]. specialize (IH H). unfold depth_l in IH. lia.
Qed.

Lemma fdepth_dir n l : fdepth (Dir n l) = S (depth_l l).
Proof. reflexivity. Qed.

(* ---- the collected lists against the structural definition ---- *)
Definition files_of (listing : list fsn) : list fse :=
  flat_map (fun c => match c with File n s m => [entry_file n s m] | _ => [] end) listing.
Definition dirs_of (pth : path) (listing : list fsn) : list (pathobj * fse) :=
  flat_map (fun c => match c with Dir n l => [((pth ++ [n], l), entry_dir n)] | _ => [] end) listing.

Definition leaf (o : fse) : ft := FN o [].
Definition sub (s : bool) (co : pathobj * fse) : ft := FN (snd co) (load s (snd (fst co))).

Lemma filter_files l :
  filter (fun t => negb (ft_isdir t)) (flat_map (conv true) l) = map leaf (files_of l).
Proof.
  induction l as [|c l IH]; cbn; [reflexivity|].
  rewrite filter_app, IH. unfold files_of. cbn [flat_map]. rewrite map_app. f_equal. destruct c; reflexivity.
Qed.

Lemma filter_dirs pth l :
  filter ft_isdir (flat_map (conv true) l) = map (sub true) (dirs_of pth l).
Proof.
  induction l as [|c l IH]; cbn; [reflexivity|].
  rewrite filter_app, IH. unfold dirs_of. cbn [flat_map]. rewrite map_app. f_equal. destruct c; reflexivity.
Qed.

Lemma dirs_of_in pth l co :
  In co (dirs_of pth l) -> exists n sl, In (Dir n sl) l /\ co = ((pth ++ [n], sl), entry_dir n).
Proof.
  unfold dirs_of. intros H. apply in_flat_map in H as (c & Hc & Hin).
  destruct c as [n s m|n sl|n]; cbn in Hin; try contradiction.
  destruct Hin as [<-|[]]. exists n, sl. split; [exact Hc|reflexivity].
Qed.

Theorem visit_is_load : forall fuel sort pth l, depth_l l < fuel -> visit fuel sort pth l = load sort l.
Proof.
  induction fuel as [|fuel IH]; intros sort pth l Hd; [lia|].
  destruct sort.
  - (* sort=True *)
    cbn [visit]. fold (files_of l) (dirs_of pth l). unfold load, kids.
    rewrite filter_files, (filter_dirs pth).
    rewrite (sort_by_map e_name ft_name leaf) by reflexivity. f_equal.
    rewrite (sort_by_map (fun co => e_name (snd co)) ft_name (sub true)) by reflexivity.
    rewrite sort_by_is_sort_g.
    rewrite (sort_g_ext_in (fun a b => path_ltb (fst (fst a)) (fst (fst b)))
                           (fun a b => text_ltb (e_name (snd a)) (e_name (snd b)))).
    + apply map_ext_in. intros co Hco. apply sort_g_in in Hco.
      apply dirs_of_in in Hco as (n & sl & Hin & ->). unfold sub. cbn [fst snd]. f_equal.
      apply IH. pose proof (fdepth_le_depth_l _ _ Hin) as Hle. rewrite fdepth_dir in Hle. lia.
    + intros a b Ha Hb.
      apply dirs_of_in in Ha as (na & sa & _ & ->). apply dirs_of_in in Hb as (nb & sb & _ & ->).
      cbn [fst snd entry_dir e_name]. apply path_ltb_siblings.
  - (* sort=False *)
    cbn [visit]. unfold load, kids. apply flat_map_eq_pointwise. rewrite Forall_forall. intros c Hc.
    destruct c as [n s m|n sl|n]; try reflexivity.
    rewrite conv_dir. do 2 f_equal. unfold kids.
    change (flat_map (conv false) sl) with (load false sl).
    apply IH. pose proof (fdepth_le_depth_l _ _ Hc) as Hle. rewrite fdepth_dir in Hle. lia.
Qed.

Theorem load_tree_from_fs_is_load sort root l : load_tree_from_fs sort root l = load sort l.
Proof. unfold load_tree_from_fs. apply visit_is_load. lia. Qed.

(* ------------------------------------------------------------------ *)
(* A case-folding path flavour (Windows): sibling directories are ordered by their
   lower-cased names, files by their names as they are -- within one folder two
   different orders are in use, and [ordered] fails. *)
Open Scope Z_scope.

Lemma path_ltb_win_siblings (pre : path) (a b : text) :
  path_ltb_win (pre ++ [a]) (pre ++ [b]) = text_ltb (fold_text a) (fold_text b).
Proof. unfold path_ltb_win. rewrite !map_app. cbn [map]. apply path_ltb_siblings. Qed.

Definition win_witness : list fsn :=
  [Dir [66] []; Dir [97] []; File [66; 46; 116] 0 (0, 1)%Z; File [97; 46; 116] 0 (0, 1)%Z].   (* B/  a/  B.t  a.t *)

Lemma win_witness_names :
  map ft_name (visit_win 2 [] win_witness) = [[66; 46; 116]; [97; 46; 116]; [97]; [66]] /\
  map ft_name (load true win_witness) = [[66; 46; 116]; [97; 46; 116]; [66]; [97]].
Proof. vm_compute. split; reflexivity. Qed.

Lemma win_witness_not_ordered : ~ ordered (visit_win 2 [] win_witness).
Proof.
  intros (fs & ds & E & Hf & Hd & Sf & Sd).
  assert (V : visit_win 2 [] win_witness =
              [FN (entry_file [66; 46; 116] 0 (0, 1)%Z) []; FN (entry_file [97; 46; 116] 0 (0, 1)%Z) [];
               FN (entry_dir [97]) []; FN (entry_dir [66]) []]) by (vm_compute; reflexivity).
  rewrite V in E. clear V.
  (* the two folders are the last two elements of [ds], in the order a, B *)
  destruct fs as [|f1 [|f2 [|f3 fs']]]; cbn in E.
  - subst ds. inversion Hd as [|x xs Hx _]; subst. discriminate Hx.
  - inversion E; subst. inversion Hd as [|x xs Hx _]; subst. discriminate Hx.
  - inversion E; subst.
    inversion Sd as [|x xs _ Hh]; subst. inversion Hh as [|y ys Hr]; subst.
    unfold name_le, text_le in Hr. vm_compute in Hr. discriminate Hr.
  - inversion E; subst. inversion Hf as [|x1 r1 _ Hf1]; subst. inversion Hf1 as [|x2 r2 _ Hf2]; subst.
    inversion Hf2 as [|x3 r3 Hf3 _]; subst. discriminate Hf3.
Qed.
