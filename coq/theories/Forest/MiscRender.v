(* node.py / typed_tree.py: the default rendering templates of format() – Node.DEFAULT_RENDER_REPR = "{node.data!r}",
   TypedNode.DEFAULT_RENDER_REPR = "{node.kind} → {node.data}" – interpreted by Export.format_with (str.format for literal text
   and {field} references; "node.data!r" is the field with the repr conversion).  repr(data) of an ASCII str is modelled
   (MiscRepr.repr_text); of any other data object it is an input.  Executable model, no proofs (MiscRenderProofs.v). *)
From Coq Require Import List ZArith Bool.
From NT Require Import Sx Rose Export MiscMapper MiscRepr.
Import ListNotations.

Definition f_data_r : text := [110; 111; 100; 101; 46; 100; 97; 116; 97; 33; 114]%Z.   (* node.data!r *)
Definition f_data : text := [110; 111; 100; 101; 46; 100; 97; 116; 97]%Z.                (* node.data   *)
Definition f_name : text := [110; 111; 100; 101; 46; 110; 97; 109; 101]%Z.              (* node.name   *)
Definition f_kind : text := [110; 111; 100; 101; 46; 107; 105; 110; 100]%Z.              (* node.kind   *)

(* repr(node.data): computed for ASCII str data, given for anything else (which non-ASCII code points print as themselves
   is the Unicode database's business) *)
Definition is_ascii (s : text) : bool := forallb (fun c => Z.ltb c 128) s.
Definition data_repr (t : rt) (given : text) : text :=
  if i_isstr (rinfo t) && is_ascii (i_name (rinfo t)) then repr_text (i_name (rinfo t)) else given.

(* the attributes a template can name; `node.kind` on a plain node is an AttributeError *)
Definition render_env (t : rt) (given : text) (f : text) : option text :=
  if text_eqb f f_data_r then Some (data_repr t given)
  else if text_eqb f f_data || text_eqb f f_name then Some (i_name (rinfo t))
  else if text_eqb f f_kind then rkind t
  else None.

Definition render_with (templ : text) (t : rt) (given : text) : option text := format_with templ (render_env t given).
