(* C06 — a skip signal suppresses exactly the descendants: the calls of visit()
   under a continue/skip callback are the subsequence of the iterator's order
   consisting of the nodes without a skipping proper ancestor. *)
From Coq Require Import List ZArith Bool Arith Lia Permutation.
From NT Require Import Sx Rose ListFacts RoseFacts Traverse TraverseProofs TraverseLevelOrd TraverseVisit.
Import ListNotations.

Lemma map_flat_map {X Y Z} (g : Y -> Z) (h : X -> list Y) l :
  map g (flat_map h l) = flat_map (fun x => map g (h x)) l.
Proof. induction l as [|x r IH]; [reflexivity|]. cbn [flat_map]. now rewrite map_app, IH. Qed.

Section Prune.
  Variable sk : nat -> bool.

  (* ---- order: the pruned sequences are subsequences ---- *)

  Lemma ids_prune_subseq : forall t, subseq (ids_t (prune sk t)) (ids_t t).
  Proof.
    induction t as [id i ch IH] using rt_ind'. rewrite !ids_t_unfold. cbn [prune rid rch].
    apply ss_keep. destruct (sk id); [apply subseq_nil|].
    rewrite !ids_flat, flat_map_map'. now apply subseq_flat_map2.
  Qed.

  Lemma ids_prune_f_subseq f : subseq (ids (map (prune sk) f)) (ids f).
  Proof.
    rewrite !ids_flat, flat_map_map'. apply subseq_flat_map2, Forall_forall. intros c _. apply ids_prune_subseq.
  Qed.

  Lemma lv_prune_subseq : forall t k d, subseq (map rid (lv k d (prune sk t))) (map rid (lv k d t)).
  Proof.
    induction t as [id i ch IH] using rt_ind'. intros k d. rewrite !lv_unfold. cbn [prune rch].
    rewrite !map_app. apply subseq_app.
    - destruct (Nat.eqb d k); cbn [map rid]; apply subseq_refl.
    - rewrite !map_flat_map. destruct (sk id); [apply subseq_nil|].
      rewrite flat_map_map'. apply subseq_flat_map2. eapply Forall_impl; [|exact IH].
      intros c Hc. apply Hc.
  Qed.

  Lemma lids_prune_subseq k f : subseq (lids k (map (prune sk) f)) (lids k f).
  Proof.
    unfold lids. rewrite !level_of_flat, !map_flat_map, flat_map_map'.
    apply subseq_flat_map2, Forall_forall. intros c _. apply lv_prune_subseq.
  Qed.

  Lemma lev_ids_prune_subseq rv tg f n : subseq (lev_ids rv tg (map (prune sk) f) n) (lev_ids rv tg f n).
  Proof.
    rewrite !lev_ids_concat. apply subseq_concat_map. intros k.
    destruct (level_dir rv tg k); [apply subseq_rev|]; apply lids_prune_subseq.
  Qed.

  Lemma lev_ids_nil rv tg n : lev_ids rv tg [] n = [].
  Proof. unfold lev_ids. now rewrite <- iter_level_levels, iter_level_nil. Qed.

  (* ---- membership: exactly the nodes without a skipping proper ancestor ---- *)

  Lemma in_prune_sub t y : In y (ids_t (prune sk t)) -> In y (ids_t t).
  Proof. apply subseq_in, ids_prune_subseq. Qed.

  Lemma prune_mem_t : forall t, NoDup (ids_t t) ->
    forall y, In y (ids_t (prune sk t)) -> forall x, sk x = true -> anc_t t x y -> False.
  Proof.
    induction t as [id i ch IH] using rt_ind'. intros ND y Hy x Hsk Hanc.
    rewrite ids_t_unfold in Hy. cbn [prune rid rch] in Hy.
    pose proof ND as ND'. rewrite ids_t_unfold in ND'. cbn [rid rch] in ND'.
    apply NoDup_cons_iff in ND' as [Hn NDch].
    inversion Hanc as [id' i' ch' y' Hin | id' i' ch' c x' y' Hc Hanc']; subst.
    - rewrite Hsk in Hy. destruct Hy as [<-|[]]. now apply Hn.
    - destruct (anc_t_in _ _ _ Hanc') as [_ Hyc].
      destruct Hy as [<-|Hy]; [apply Hn; eapply in_ids_of_child; eauto|].
      destruct (sk id); [destruct Hy|].
      apply in_ids_child in Hy as (c' & Hc' & Hy). apply in_map_iff in Hc' as (c0 & <- & Hc0).
      assert (c0 = c) as -> by (eapply top_unique; eauto using in_prune_sub).
      rewrite Forall_forall in IH. eapply (IH c Hc); eauto. eapply NoDup_top; eauto.
  Qed.

  Lemma prune_mem_t_conv : forall t y, In y (ids_t t) ->
    (forall x, sk x = true -> ~ anc_t t x y) -> In y (ids_t (prune sk t)).
  Proof.
    induction t as [id i ch IH] using rt_ind'. intros y Hy Hno.
    rewrite ids_t_unfold in Hy |- *. cbn [prune rid rch] in *.
    destruct Hy as [<-|Hy]; [now left|right].
    destruct (sk id) eqn:E; [exfalso; apply (Hno id E); now constructor|].
    apply in_ids_child in Hy as (c & Hc & Hy). apply (in_ids_of_child _ (prune sk c)); [now apply in_map|].
    rewrite Forall_forall in IH. apply (IH c Hc y Hy). intros x Hx Hanc. apply (Hno x Hx).
    eapply anc_deep; eauto.
  Qed.

  Lemma prune_mem_f f y : NoDup (ids f) ->
    In y (ids (map (prune sk) f)) -> forall x, sk x = true -> anc_f f x y -> False.
  Proof.
    intros ND Hy x Hsk (t & Ht & Hanc).
    apply in_ids_child in Hy as (c' & Hc' & Hy). apply in_map_iff in Hc' as (c0 & <- & Hc0).
    destruct (anc_t_in _ _ _ Hanc) as [_ Hyt].
    assert (c0 = t) as -> by (eapply top_unique; eauto using in_prune_sub).
    eapply (prune_mem_t t); eauto using NoDup_top.
  Qed.

  Lemma prune_mem_f_conv f y : In y (ids f) ->
    (forall x, sk x = true -> ~ anc_f f x y) -> In y (ids (map (prune sk) f)).
  Proof.
    intros Hy Hno. apply in_ids_child in Hy as (c & Hc & Hy).
    apply (in_ids_of_child _ (prune sk c)); [now apply in_map|].
    apply prune_mem_t_conv; [exact Hy|]. intros x Hx Hanc. apply (Hno x Hx). now exists c.
  Qed.
End Prune.

(* ---- the identities listed by the iterator, per method ---- *)

Lemma iterator_ids_PRE t a l :
  iterator t PRE a = Some l -> map rid l = if a then ids_t t else ids (rch t).
Proof.
  unfold iterator. cbn [iter_handler is_post]. intros H. inversion H; subst; clear H.
  rewrite iter_pre_eq. destruct a; cbn [andb negb app]; rewrite app_nil_r; [|reflexivity].
  rewrite <- pre_unfold. reflexivity.
Qed.

Lemma iterator_ids_LEVEL t a l :
  iterator t LEVEL a = Some l ->
  map rid l = (if a then [rid t] else []) ++ lev_ids false false (rch t) (size t).
Proof.
  unfold iterator. cbn [iter_handler is_post]. intros H. inversion H; subst; clear H.
  rewrite iter_level_n_levels. destruct a; cbn [andb negb app]; rewrite app_nil_r; reflexivity.
Qed.

Lemma lev_ids_fuel rv tg f n m :
  length (pre_f f) <= n -> length (pre_f f) <= m -> lev_ids rv tg f n = lev_ids rv tg f m.
Proof.
  intros Hn Hm. unfold lev_ids. rewrite <- !iter_level_levels.
  now rewrite (iter_level_fuel _ _ _ n), (iter_level_fuel _ _ _ m).
Qed.

Lemma anc_t_to_f s x y : NoDup (ids_t s) -> In x (ids (rch s)) -> anc_t s x y -> anc_f (rch s) x y.
Proof.
  intros ND Hx H. inversion H as [id' i' ch' y' Hin | id' i' ch' c x' y' Hc Hanc]; subst.
  - exfalso. rewrite ids_t_unfold in ND. apply NoDup_cons_iff in ND as [Hn _]. now apply Hn.
  - now exists c.
Qed.

Lemma anc_f_to_t s x y : anc_f (rch s) x y -> anc_t s x y /\ In x (ids (rch s)).
Proof.
  intros (c & Hc & H). split.
  - destruct s as [id i ch]. eapply anc_deep; eauto.
  - destruct (anc_t_in _ _ _ H) as [Hx _]. eapply in_ids_of_child; eauto.
Qed.

Lemma branch_ids t a : map rid (branch t a) = if a then ids_t t else ids (rch t).
Proof. destruct a; reflexivity. Qed.

(* y has a proper ancestor, among the called nodes, at which the callback skips *)
Definition skipped_above (sk : nat -> bool) (s : rt) (called : list nat) (y : nat) : Prop :=
  exists x, sk x = true /\ In x called /\ anc_t s x y.

Theorem visit_skip_char cb sk s m a l :
  skip_only cb sk -> m = PRE \/ m = LEVEL -> NoDup (ids_t s) -> iterator s m a = Some l ->
  exists tr, visit cb s m a = (tr, VReturn None) /\ subseq tr (map rid l) /\
    forall y, In y tr <-> (In y (map rid l) /\ ~ skipped_above sk s (map rid l) y).
Proof.
  intros Hcb Hm ND Hl.
  destruct (visit_skip_pruned cb sk s m a Hcb Hm) as (l' & Hl' & Hv).
  exists (map rid l'). split; [exact Hv|].
  set (ps := prune_start sk a s) in *.
  split.
  - (* order *)
    destruct Hm as [-> | ->].
    + rewrite (iterator_ids_PRE _ _ _ Hl), (iterator_ids_PRE _ _ _ Hl'). unfold ps, prune_start.
      destruct a; [apply ids_prune_subseq|cbn [rch]; apply ids_prune_f_subseq].
    + rewrite (iterator_ids_LEVEL _ _ _ Hl), (iterator_ids_LEVEL _ _ _ Hl').
      unfold ps. rewrite rid_prune_start. apply subseq_app; [apply subseq_refl|].
      rewrite rch_prune_start. destruct (a && sk (rid s)) eqn:E.
      * rewrite lev_ids_nil. apply subseq_nil.
      * rewrite (lev_ids_fuel _ _ _ _ (size s)).
        -- apply lev_ids_prune_subseq.
        -- pose proof (len_pre_children (prune_start sk a s)) as H. rewrite rch_prune_start, E in H. lia.
        -- pose proof (len_pre_f_prune sk (rch s)). pose proof (len_pre_children s). lia.
  - (* membership *)
    pose proof (Permutation_map rid (iterator_perm _ _ _ _ Hl)) as P. rewrite branch_ids in P.
    pose proof (Permutation_map rid (iterator_perm _ _ _ _ Hl')) as P'. rewrite branch_ids in P'.
    assert (Q : forall z, In z (map rid l) <-> In z (if a then ids_t s else ids (rch s))).
    { intros z. split; apply Permutation_in; [exact P|apply Permutation_sym, P]. }
    assert (Q' : forall z, In z (map rid l') <-> In z (if a then ids_t ps else ids (rch ps))).
    { intros z. split; apply Permutation_in; [exact P'|apply Permutation_sym, P']. }
    intros y. rewrite Q', Q. unfold skipped_above. unfold ps, prune_start.
    destruct a; cbn [rch].
    + split.
      * intros Hy. split; [now apply in_prune_sub in Hy|].
        intros (x & Hx & _ & Hanc). eapply prune_mem_t; eauto.
      * intros [Hy Hno]. apply prune_mem_t_conv; [exact Hy|]. intros x Hx Hanc. apply Hno.
        exists x. split; [exact Hx|]. split; [|exact Hanc]. apply Q. now destruct (anc_t_in _ _ _ Hanc).
    + assert (NDc : NoDup (ids (rch s))).
      { rewrite ids_t_unfold in ND. now apply NoDup_cons_iff in ND as [_ ND]. }
      split.
      * intros Hy. split; [eapply subseq_in; [apply ids_prune_f_subseq|exact Hy]|].
        intros (x & Hx & Hin & Hanc). apply Q in Hin.
        eapply prune_mem_f; eauto. now apply anc_t_to_f.
      * intros [Hy Hno]. apply prune_mem_f_conv; [exact Hy|]. intros x Hx Hanc. apply Hno.
        destruct (anc_f_to_t _ _ _ Hanc) as [H1 H2].
        exists x. split; [exact Hx|]. split; [now apply Q|exact H1].
Qed.

(* consequences, in list terms: no repetition and the iterator's relative order *)
Corollary visit_skip_order cb sk s m a l :
  skip_only cb sk -> m = PRE \/ m = LEVEL -> NoDup (ids_t s) -> iterator s m a = Some l ->
  NoDup (fst (visit cb s m a)) /\
  forall x y, before (fst (visit cb s m a)) x y -> before (map rid l) x y.
Proof.
  intros Hcb Hm ND Hl. destruct (visit_skip_char cb sk s m a l Hcb Hm ND Hl) as (tr & -> & Hs & _).
  cbn [fst]. split.
  - eapply subseq_nodup; [exact Hs|]. eapply iterator_nodup; eauto.
  - intros x y. now apply subseq_before.
Qed.
