(* A concrete mapper pair satisfying the mapper assumptions for every tree (so the
   theorems are not vacuous), default options are always admissible, the literal
   documents of the user guide, and the witness of known finding D40. *)
From Coq Require Import List ZArith Bool Arith Lia Permutation String.
From NT Require Import Sx Rose ListFacts RoseFacts Serialize SerializeSpec SerDictFacts SerCompressProofs
     SerLayFacts SerWriterProofs SerReaderProofs SerUnflatProofs SerIsoProofs SerializeProofs.
From NTGen Require Import Generated.
Import ListNotations.
Open Scope list_scope.

Definition k_n : text := t_ "n".
Definition k_h : text := t_ "h".

(* serialize: str data untouched, other data stores its text and its hash *)
Definition wser (i : info) (d : dict) : dict :=
  if i_isstr i then d else d ++ [(k_n, JStr (i_name i)); (k_h, JInt (i_hash i))].
(* hash of a str: any function of its text *)
Definition whash (s : text) : Z := fold_right (fun x acc => (x + 31 * acc)%Z) 7%Z s.
(* deserialize: [stable] = the rebuilt object hashes like the stored one (value-hashed
   data); otherwise every call yields an object with a fresh hash (identity-hashed data) *)
Definition wdeser (stable : bool) (idx : nat) (d : dict) : res dval :=
  match dget k_str d with
  | Some (JStr s) => Ok (DV true s (whash s))
  | Some _ => Err ECrash
  | None =>
      match dget k_n d, dget k_h d with
      | Some (JStr n), Some (JInt h) => Ok (DV false n (if stable then h else (Z.of_nat idx + 1000000)%Z))
      | _, _ => Err EKey
      end
  end.

Lemma dget_app k a b : dget k (a ++ b) = match dget k a with Some v => Some v | None => dget k b end.
Proof. induction a as [|[k' v'] a IH]; cbn; [reflexivity|]. destruct (text_eqb k k'); [reflexivity|exact IH]. Qed.

Ltac ed_cases c i :=
  unfold entry_dict; destruct (i_isstr i) eqn:?; destruct (custom_id i) eqn:?; destruct (is_typed c) eqn:?;
  try destruct (i_kind i) eqn:?; cbn [app].

Ltac keyneq := let H := fresh in intros H; vm_compute in H; discriminate H.

Lemma entry_dict_keys c i : NoDup (keys (entry_dict c i)) /\
  forall k, In k (keys (entry_dict c i)) -> k = k_str \/ k = k_data_id \/ k = k_kind.
Proof.
  ed_cases c i; cbn [map fst]; (split; [repeat constructor; cbn [In]; intuition; match goal with H : _ = _ |- _ => vm_compute in H; discriminate H end
                                      | intros k Hk; cbn [In] in Hk; intuition ]).
Qed.

Lemma wser_keys c i : NoDup (keys (wser i (entry_dict c i))) /\
  forall k, In k (keys (wser i (entry_dict c i))) -> k = k_str \/ k = k_data_id \/ k = k_kind \/ k = k_n \/ k = k_h.
Proof.
  destruct (entry_dict_keys c i) as [Hn Hk]. unfold wser. destruct (i_isstr i).
  - split; [exact Hn|]. intros k H. destruct (Hk k H) as [-> | [-> | ->]]; tauto.
  - rewrite map_app. split.
    + apply NoDup_app_intro; [exact Hn| |].
      * cbn. repeat constructor; cbn [In]; intuition. match goal with H : _ = _ |- _ => vm_compute in H; discriminate H end.
      * intros k H1 H2. cbn [map fst In] in H2. destruct (Hk k H1) as [-> | [-> | ->]];
          destruct H2 as [H2|[H2|[]]]; vm_compute in H2; discriminate H2.
    + intros k H. apply in_app_or in H as [H|H].
      * destruct (Hk k H) as [-> | [-> | ->]]; tauto.
      * cbn [map fst In] in H. destruct H as [<- | [<- | []]]; tauto.
Qed.

Lemma wser_dget c i :
  dget k_kind (wser i (entry_dict c i)) = dget k_kind (entry_dict c i) /\
  dget k_data_id (wser i (entry_dict c i)) = dget k_data_id (entry_dict c i).
Proof.
  unfold wser. destruct (i_isstr i); [split; reflexivity|]. rewrite !dget_app. split.
  - destruct (dget k_kind (entry_dict c i)); reflexivity.
  - destruct (dget k_data_id (entry_dict c i)); reflexivity.
Qed.

Lemma wser_keeps c f : ser_keeps c wser f.
Proof. intros t _. cbn zeta. split; [apply wser_keys|apply wser_dget]. Qed.

(* what wdeser makes of an entry *)
Lemma wdeser_entry c b idx i : bare_str c i = false ->
  wdeser b idx (wser i (entry_dict c i)) =
  Ok (if i_isstr i then DV true (i_name i) (whash (i_name i))
      else DV false (i_name i) (if b then i_hash i else (Z.of_nat idx + 1000000)%Z)).
Proof.
  intros Hb. unfold wdeser, wser. destruct (i_isstr i) eqn:Es.
  - unfold entry_dict. rewrite Es. reflexivity.
  - rewrite !dget_app. unfold entry_dict. rewrite Es. cbn [app].
    destruct (custom_id i); destruct (is_typed c); try destruct (i_kind i); reflexivity.
Qed.

Lemma wdeser_total c b f : deser_total c wser (wdeser b) f.
Proof. intros idx t _ Hb. rewrite (wdeser_entry c b idx _ Hb). eauto. Qed.

Lemma wdeser_perm c b f : deser_perm c wser (wdeser b) f.
Proof.
  intros idx t d' _ Hp. destruct (wser_keys c (rinfo t)) as [Hn _]. unfold wdeser.
  now rewrite !(dget_perm _ _ _ Hn (Permutation_sym Hp)).
Qed.

Lemma wmappers_ok c b f : mappers_ok c wser (wdeser b) f.
Proof. split; [apply wser_keeps|]. split; [apply wdeser_total|apply wdeser_perm]. Qed.

Lemma wmapper_rebuilds c b f : mapper_rebuilds c wser (wdeser b) f.
Proof.
  intros p t _ Hb. cbn zeta. rewrite (wdeser_entry c b p _ Hb). cbn [dv_or].
  destruct (i_isstr (rinfo t)) eqn:Es; cbn; rewrite ?Es; split; reflexivity.
Qed.

(* the hash of a str node is the hash of its text *)
Definition str_hash_ok (f : forest) : Prop :=
  forall t, In t (pre_f f) -> i_isstr (rinfo t) = true -> i_hash (rinfo t) = whash (i_name (rinfo t)).

Lemma wid_stable c f : str_hash_ok f -> id_stable c wser (wdeser true) whash f.
Proof.
  intros Hs. split.
  - intros t Ht Hb. symmetry. apply Hs; [exact Ht|]. unfold bare_str in Hb.
    apply andb_true_iff in Hb as [Hb _]. now apply andb_true_iff in Hb as [_ Hb].
  - intros p t Ht Hb _. rewrite (wdeser_entry c true p _ Hb). cbn [dv_or].
    destruct (i_isstr (rinfo t)) eqn:Es; cbn [dv_hash]; [symmetry; now apply Hs|reflexivity].
Qed.

(* ---- default options (and maps off) are admissible for every tree *)
Lemma last_index_from_some' s a : forall n acc, (acc <> None \/ In s a) -> exists r, last_index_from n s a acc = Some r.
Proof.
  induction a as [|x a IH]; intros n acc H; cbn.
  - destruct H as [H|[]]. destruct acc as [r|]; [eauto|contradiction].
  - apply IH. destruct (text_eqb s x) eqn:E; [left; discriminate|].
    destruct H as [H|[H|H]]; [now left| |now right].
    subst x. rewrite text_eqb_refl in E. discriminate.
Qed.
Lemma last_index_from_some s a n acc : In s a -> exists r, last_index_from n s a acc = Some r.
Proof. intros H. apply last_index_from_some'. now right. Qed.

Lemma dedup_text_in : forall l seen k, In k l -> ~ In k seen -> In k (dedup_text seen l).
Proof.
  induction l as [|x l IH]; intros seen k Hi Hs; [contradiction|]. cbn.
  destruct (existsb (text_eqb x) seen) eqn:Ex.
  - destruct Hi as [->|Hi]; [|now apply IH]. exfalso. apply existsb_exists in Ex as (y & Hy & E).
    apply text_eqb_eq in E. subst. contradiction.
  - destruct Hi as [->|Hi]; [now left|]. destruct (text_eq_dec x k) as [->|Hne]; [now left|].
    right. apply IH; [exact Hi|]. intros [H|H]; [contradiction|contradiction].
Qed.

Lemma kinds_covered f t k : In t (pre_f f) -> rkind t = Some k -> exists n, last_index k (kinds_of f) = Some n.
Proof.
  intros Ht Hk. unfold last_index. apply last_index_from_some. unfold kinds_of. apply dedup_text_in; [|intros []].
  apply in_flat_map. exists t. split; [exact Ht|]. rewrite Hk. now left.
Qed.

Lemma k_kind_not_str : text_eqb k_kind k_str = false. Proof. reflexivity. Qed.

Lemma wentries_ok_off c f : entries_ok c wser [] [] f.
Proof.
  intros t _ _. destruct (wser_keys c (rinfo t)) as [Hn _]. split; [exact Hn|]. split; [intros k _ []|]. intros k v a _ E. discriminate E.
Qed.

Lemma wser_in_kind c i v : In (k_kind, v) (wser i (entry_dict c i)) -> exists k, i_kind i = Some k /\ v = JStr k.
Proof.
  destruct (wser_keys c i) as [Hn _]. intros Hi. apply (in_dget _ _ _ Hn) in Hi.
  destruct (wser_dget c i) as [Hk _]. rewrite Hk in Hi. unfold entry_dict in Hi. rewrite !dget_app in Hi.
  destruct (i_isstr i); destruct (custom_id i); destruct (is_typed c); destruct (i_kind i); cbn in Hi; try discriminate Hi;
    injection Hi as <-; eauto.
Qed.

(* ---- decidable checks of the tree-level side conditions (for concrete examples) *)
Fixpoint nodupb {X} (eqb : X -> X -> bool) (l : list X) : bool :=
  match l with [] => true | x :: r => negb (existsb (eqb x) r) && nodupb eqb r end.
Lemma nodupb_sound {X} (eqb : X -> X -> bool) (Hrefl : forall x, eqb x x = true) l : nodupb eqb l = true -> NoDup l.
Proof.
  induction l as [|x l IH]; intros H; [constructor|]. cbn in H. apply andb_true_iff in H as [H1 H2]. constructor; [|auto].
  intros Hi. apply negb_true_iff in H1. assert (existsb (eqb x) l = true); [|congruence].
  apply existsb_exists. exists x. auto.
Qed.

Definition tree_okb (c : cls) (f : forest) : bool :=
  nodupb Nat.eqb (0 :: ids f) &&
  nodupb did_eqb (map rdid f) && forallb (fun t => nodupb did_eqb (map rdid (rch t))) (pre_f f) &&
  forallb (fun t => implb (i_isstr (rinfo t)) (Z.eqb (i_hash (rinfo t)) (whash (i_name (rinfo t))))) (pre_f f) &&
  forallb (fun t => if is_typed c then match rkind t with Some _ => true | None => false end
                    else match rkind t with Some _ => false | None => true end) (pre_f f) &&
  forallb (fun x => forallb (fun y => implb (did_eqb (rdid x) (rdid y))
                                        (Bool.eqb (i_isstr (rinfo x)) (i_isstr (rinfo y)) &&
                                         text_eqb (i_name (rinfo x)) (i_name (rinfo y)))) (pre_f f)) (pre_f f).

Lemma tree_okb_sound c f : tree_okb c f = true ->
  ids_ok f /\ sib_unique f /\ str_hash_ok f /\ kinds_ok c f /\ clones_consistent f.
Proof.
  unfold tree_okb. intros H.
  apply andb_true_iff in H as [H H6]. apply andb_true_iff in H as [H H5]. apply andb_true_iff in H as [H H4].
  apply andb_true_iff in H as [H H3]. apply andb_true_iff in H as [H1 H2].
  split; [apply (nodupb_sound Nat.eqb Nat.eqb_refl); exact H1|].
  split; [split; [apply (nodupb_sound did_eqb did_eqb_refl); exact H2|]|].
  { intros t Ht. rewrite forallb_forall in H3. apply (nodupb_sound did_eqb did_eqb_refl). now apply H3. }
  split; [|split].
  - intros t Ht Hs. rewrite forallb_forall in H4. specialize (H4 t Ht). rewrite Hs in H4. cbn in H4. now apply Z.eqb_eq.
  - intros t Ht. rewrite forallb_forall in H5. specialize (H5 t Ht). destruct (is_typed c); destruct (rkind t); try discriminate; auto.
  - intros x y Hx Hy Hd. rewrite forallb_forall in H6. specialize (H6 x Hx). rewrite forallb_forall in H6. specialize (H6 y Hy).
    rewrite Hd, did_eqb_refl in H6. cbn in H6. apply andb_true_iff in H6 as [A B]. split; [now apply Bool.eqb_prop|now apply text_eqb_eq].
Qed.

(* ---- default options and "maps off" are admissible for every tree (all classes) *)
Lemma keys_not_short c i (km : list (text * text)) :
  (forall k, In k [k_str; k_data_id; k_kind; k_n; k_h] -> existsb (text_eqb k) (map snd km) = false) ->
  forall k, In k (keys (wser i (entry_dict c i))) -> ~ In k (map snd km).
Proof.
  intros H k Hk Hin. destruct (wser_keys c i) as [_ Hks]. specialize (Hks k Hk).
  assert (In k [k_str; k_data_id; k_kind; k_n; k_h]) by (cbn [In]; intuition).
  specialize (H k H0). assert (existsb (text_eqb k) (map snd km) = true); [|congruence].
  apply existsb_exists. exists k. split; [exact Hin|apply text_eqb_refl].
Qed.

Lemma default_km_ok c : km_ok (default_key_map c) /\
  (forall k, In k [k_str; k_data_id; k_kind; k_n; k_h] -> existsb (text_eqb k) (map snd (default_key_map c)) = false).
Proof.
  destruct c; (split; [split; apply (nodupb_sound text_eqb text_eqb_refl); vm_compute; reflexivity|]);
    intros k Hk; cbn [In] in Hk; repeat (destruct Hk as [<-|Hk]; [vm_compute; reflexivity|]); contradiction.
Qed.

Lemma wentries_ok c ko vo f : (ko = KTrue \/ ko = KFalse) -> (vo = VTrue \/ vo = VFalse) ->
  entries_ok c wser (resolve_km c ko) (resolve_vm c vo f) f.
Proof.
  intros Hko Hvo t Ht _. destruct (wser_keys c (rinfo t)) as [Hn _]. split; [exact Hn|]. split.
  - destruct Hko as [-> | ->]; cbn [resolve_km]; [|intros k _ []].
    apply keys_not_short. apply default_km_ok.
  - intros k v a Hi Ha.
    assert (Hvm : resolve_vm c vo f = [] \/ resolve_vm c vo f = [(k_kind, kinds_of f)]).
    { destruct Hvo as [-> | ->]; [|now left]. destruct c; vm_compute; auto. }
    destruct Hvm as [E|E]; rewrite E in Ha; [discriminate Ha|]. cbn [assoc_t] in Ha.
    destruct (text_eqb k k_kind) eqn:Ek; [|discriminate Ha]. injection Ha as <-. apply text_eqb_eq in Ek. subst k.
    destruct (wser_in_kind c _ v Hi) as (kd & Hkd & ->).
    destruct (kinds_covered f t kd Ht Hkd) as [n Hn']. eauto.
Qed.

Lemma wopts_ok c ko vo meta f : (ko = KTrue \/ ko = KFalse) -> (vo = VTrue \/ vo = VFalse) -> meta_ok meta ->
  opts_ok c wser ko vo meta f.
Proof.
  intros Hko Hvo Hm. split; [|split; [now apply wentries_ok|exact Hm]].
  destruct Hko as [-> | ->]; cbn [resolve_km]; [apply default_km_ok|split; constructor].
Qed.

(* ---- round trip for the concrete mappers: only conditions on the tree remain *)
Theorem wroundtrip c ko vo meta f :
  (ko = KTrue \/ ko = KFalse) -> (vo = VTrue \/ vo = VFalse) -> meta_ok meta ->
  ids_ok f -> sib_unique f -> str_hash_ok f -> kinds_ok c f -> clones_consistent f ->
  exists j f', save_doc c wser ko vo meta f = Ok j /\
               load_doc c (wdeser true) whash j = Ok (header_spec (resolve_km c ko) (resolve_vm c vo f) meta, f') /\
               iso f f'.
Proof.
  intros Hko Hvo Hm Hids Hsib Hsh Hk Hcc.
  pose proof (id_stable_ids_stable c wser (wdeser true) whash f (wid_stable c f Hsh)) as Hst.
  destruct (load_save_described c wser (wdeser true) whash f ko vo meta Hids (wopts_ok c ko vo meta f Hko Hvo Hm)
              (wmappers_ok c true f) (described_unique_of_source c wser (wdeser true) whash f Hst Hsib)) as (j & Hs & Hl).
  exists j, (described c wser (wdeser true) whash f). split; [exact Hs|]. split; [exact Hl|].
  apply described_iso; auto. apply wmapper_rebuilds.
Qed.

(* ---- concrete trees *)
Definition si (s : text) (k : kind) : info := I 0 0 (whash s) true s (DInt (whash s)) k [].
Definition oi (o h : Z) (n : text) (k : kind) : info := I o o h false n (DInt h) k [].

(* plain tree: "a" is cloned nested below its first occurrence (#4) and below a sibling
   of its first occurrence (#6); an object is cloned (#2, #5); #7 has an explicit id *)
Definition f_ex : forest :=
  [ T 1 (si (t_ "a") None) [ T 2 (oi 1 77 (t_ "O1") None) []; T 3 (si (t_ "c") None) [ T 4 (si (t_ "a") None) [] ] ];
    T 5 (oi 1 77 (t_ "O1") None) [ T 6 (si (t_ "a") None) []; T 7 (set_did_i (DStr (t_ "k")) (si (t_ "c") None)) [] ] ].
(* typed tree with a clone of another kind *)
Definition f_ty : forest :=
  [ T 1 (oi 1 77 (t_ "O1") (Some (t_ "a"))) [];
    T 2 (si (t_ "y") (Some (t_ "a"))) [ T 3 (oi 1 77 (t_ "O1") (Some (t_ "b"))) [] ];
    T 4 (si (t_ "z") (Some (t_ "a"))) [ T 5 (oi 1 77 (t_ "O1") (Some (t_ "a"))) [] ] ].

Lemma f_ex_ok : tree_okb CPlain f_ex = true. Proof. vm_compute. reflexivity. Qed.
Lemma f_ty_ok : tree_okb CTyped f_ty = true. Proof. vm_compute. reflexivity. Qed.

Definition ex_meta : dict := [(t_ "foo", JStr (t_ "bar"))].
Lemma ex_meta_ok : meta_ok ex_meta.
Proof.
  split; [repeat constructor; intros []|]. intros k [<-|[]] H. cbn [reserved In] in H.
  repeat (destruct H as [H|H]; [vm_compute in H; discriminate H|]). exact H.
Qed.

(* the layout of f_ex has the documented references *)
Lemma f_ex_layout_refs :
  let l := layout CPlain wser (resolve_km CPlain KTrue) (resolve_vm CPlain VTrue f_ex) f_ex in
  List.length l = 7 /\ nth 0 l JNull = entry 0 (JStr (t_ "a")) /\ nth 3 l JNull = entry 3 (jnat 1) /\
  nth 4 l JNull = entry 0 (jnat 2) /\ nth 5 l JNull = entry 5 (jnat 1) /\
  nth 6 l JNull = entry 5 (JDict [(t_ "s", JStr (t_ "c")); (t_ "i", JStr (t_ "k"))]).
Proof. vm_compute. repeat split. Qed.

(* a custom key map and value map on f_ty *)
Definition ex_km : list (text * text) := [(t_ "kind", t_ "K"); (t_ "n", t_ "N"); (t_ "unused", t_ "u")].
Definition ex_vm : list (text * list text) := [(t_ "kind", [t_ "zz"; t_ "b"; t_ "a"])].

Definition dict_okb (km : list (text * text)) (vm : list (text * list text)) (d : dict) : bool :=
  nodupb text_eqb (keys d) &&
  forallb (fun k => negb (existsb (text_eqb k) (map snd km))) (keys d) &&
  forallb (fun kv => match assoc_t (fst kv) vm with
                     | None => true
                     | Some a => match snd kv with
                                 | JStr s => match last_index s a with Some _ => true | None => false end
                                 | _ => false
                                 end
                     end) d.
Lemma dict_okb_sound km vm d : dict_okb km vm d = true -> dict_ok km vm d.
Proof.
  unfold dict_okb. intros H. apply andb_true_iff in H as [H H3]. apply andb_true_iff in H as [H1 H2].
  split; [apply (nodupb_sound text_eqb text_eqb_refl); exact H1|]. split.
  - intros k Hk Hin. rewrite forallb_forall in H2. specialize (H2 k Hk). apply negb_true_iff in H2.
    assert (existsb (text_eqb k) (map snd km) = true); [|congruence].
    apply existsb_exists. exists k. split; [exact Hin|apply text_eqb_refl].
  - intros k v a Hi Ha. rewrite forallb_forall in H3. specialize (H3 (k, v) Hi). cbn [fst snd] in H3. rewrite Ha in H3.
    destruct v; try discriminate H3. destruct (last_index s a) eqn:E; [eauto|discriminate H3].
Qed.
Definition opts_okb (c : cls) (ser : info -> dict -> dict) (ko : kopt) (vo : vopt) (f : forest) : bool :=
  nodupb text_eqb (map fst (resolve_km c ko)) && nodupb text_eqb (map snd (resolve_km c ko)) &&
  forallb (fun t => bare_str c (rinfo t) || dict_okb (resolve_km c ko) (resolve_vm c vo f) (ser (rinfo t) (entry_dict c (rinfo t)))) (pre_f f).
Lemma opts_okb_sound c ser ko vo meta f : opts_okb c ser ko vo f = true -> meta_ok meta -> opts_ok c ser ko vo meta f.
Proof.
  unfold opts_okb. intros H Hm. apply andb_true_iff in H as [H H3]. apply andb_true_iff in H as [H1 H2].
  split; [split; apply (nodupb_sound text_eqb text_eqb_refl); assumption|]. split; [|exact Hm].
  intros t Ht Hb. rewrite forallb_forall in H3. specialize (H3 t Ht). rewrite Hb in H3. now apply dict_okb_sound.
Qed.

Lemma f_ty_custom_ok : opts_okb CTyped wser (KCustom ex_km) (VCustom ex_vm) f_ty = true.
Proof. vm_compute. reflexivity. Qed.

(* ---- the literal documents of the user guide *)
Inductive nt := N (s : string) (ch : list nt).
Fixpoint nt_sx (n : nt) : sx := match n with N s ch => L [sx_text (t_ s); L (map nt_sx ch)] end.
Fixpoint name_tree (t : rt) : sx := match t with T _ i ch => L [sx_text (i_name i); L (map name_tree ch)] end.

Definition guide_tree_0 : list nt :=
  [ N "A" [ N "a1" [ N "a11" []; N "a12" [] ]; N "a2" [] ]; N "B" [ N "a11" []; N "b1" [ N "b11" [] ] ] ].
Definition guide_tree_1 : list nt :=
  [ N "Development" [ N "Alice" []; N "Bob" []; N "Charleen" [] ]; N "Marketing" [ N "Charleen" []; N "Dave" [] ] ].

(* the deserialize mapper of the guide: data["type"], then data["name"]; objects hash by value *)
Definition guide_deser (idx : nat) (d : dict) : res dval :=
  match dget (t_ "type") d with
  | None => Err EKey
  | Some _ => match dget (t_ "name") d with
              | Some (JStr n) => Ok (DV false n (whash n))
              | Some _ => Err ECrash
              | None => Err EKey
              end
  end.

Definition loads_as (deser : nat -> dict -> res dval) (g : gjson) (shape : list nt) (clone_a clone_b : nat) : Prop :=
  exists md f, load_doc CPlain deser whash (jv_of_gj g) = Ok (md, f) /\
               map name_tree f = map nt_sx shape /\
               md = match jv_of_gj g with JDict o => match dget k_meta o with Some (JDict m) => m | _ => [] end | _ => [] end /\
               nth clone_a (map rdid (pre_f f)) (DInt 0) = nth clone_b (map rdid (pre_f f)) (DInt 1) /\
               nth clone_a (map (fun t => i_obj (rinfo t)) (pre_f f)) 0%Z = nth clone_b (map (fun t => i_obj (rinfo t)) (pre_f f)) 1%Z.

Lemma guide_example_0 : loads_as (default_deser CPlain whash) DOC_EXAMPLE_0 guide_tree_0 2 6 /\
  dget (t_ "foo") (match jv_of_gj DOC_EXAMPLE_0 with JDict o => match dget k_meta o with Some (JDict m) => m | _ => [] end | _ => [] end)
  = Some (JStr (t_ "bar")).
Proof. split; [do 2 eexists; split; [vm_compute; reflexivity|]; vm_compute; repeat split|vm_compute; reflexivity]. Qed.
Lemma guide_example_1 : loads_as guide_deser DOC_EXAMPLE_1 guide_tree_1 3 5.
Proof. do 2 eexists; split; [vm_compute; reflexivity|]; vm_compute; repeat split. Qed.
Lemma guide_example_2 : loads_as guide_deser DOC_EXAMPLE_2 guide_tree_1 3 5.
Proof. do 2 eexists; split; [vm_compute; reflexivity|]; vm_compute; repeat split. Qed.
Lemma guide_example_3 : loads_as guide_deser DOC_EXAMPLE_3 guide_tree_1 3 5.
Proof. do 2 eexists; split; [vm_compute; reflexivity|]; vm_compute; repeat split. Qed.
(* the three renderings of the company tree (plain, short keys, short keys and values) load to one tree *)
Lemma guide_examples_agree :
  match load_doc CPlain guide_deser whash (jv_of_gj DOC_EXAMPLE_1), load_doc CPlain guide_deser whash (jv_of_gj DOC_EXAMPLE_2),
        load_doc CPlain guide_deser whash (jv_of_gj DOC_EXAMPLE_3) with
  | Ok (_, f1), Ok (_, f2), Ok (_, f3) => f1 = f2 /\ f2 = f3
  | _, _, _ => False
  end.
Proof. vm_compute. split; reflexivity. Qed.
Lemma guide_examples_count : List.length DOC_EXAMPLES = 4.
Proof. reflexivity. Qed.

(* ---- known finding D40: without stable ids the round trip loses a clone group *)
Definition roundtrip_without_id_stable : Prop :=
  forall c ser deser shash ko vo meta f,
    ids_ok f -> sib_unique f -> opts_ok c ser ko vo meta f -> mappers_ok c ser deser f ->
    mapper_rebuilds c ser deser f -> kinds_ok c f -> clones_consistent f -> described_unique c ser deser shash f ->
    exists j md f', save_doc c ser ko vo meta f = Ok j /\ load_doc c deser shash j = Ok (md, f') /\ iso f f'.

Theorem roundtrip_without_id_stable_refuted : ~ roundtrip_without_id_stable.
Proof.
  intros H. destruct (tree_okb_sound CTyped f_ty f_ty_ok) as (Hids & Hsib & _ & Hk & Hcc).
  assert (Hm : meta_ok []) by (split; [constructor|intros k []]).
  assert (Hu : described_unique CTyped wser (wdeser false) whash f_ty).
  { unfold described_unique. apply (nodupb_sound (fun a b => Nat.eqb (fst a) (fst b) && did_eqb (snd a) (snd b))).
    - intros [a b]. cbn. now rewrite Nat.eqb_refl, did_eqb_refl.
    - vm_compute. reflexivity. }
  destruct (H CTyped wser (wdeser false) whash KTrue VTrue [] f_ty Hids Hsib
              (wopts_ok CTyped KTrue VTrue [] f_ty (or_introl eq_refl) (or_introl eq_refl) Hm)
              (wmappers_ok CTyped false f_ty) (wmapper_rebuilds CTyped false f_ty) Hk Hcc Hu)
    as (j & md & f' & Hs & Hl & Hiso).
  vm_compute in Hs. injection Hs as <-. vm_compute in Hl. injection Hl as _ <-.
  unfold iso in Hiso. vm_compute in Hiso. discriminate Hiso.
Qed.

(* the clone group {#1, #3, #5} of f_ty: #3 (other kind) gets a fresh id, #5 stays with #1 *)
Lemma d40_partition :
  match save_doc CTyped wser KTrue VTrue [] f_ty with
  | Ok j => match load_doc CTyped (wdeser false) whash j with
            | Ok (_, f') => let ds := map rdid (pre_f f') in
                            nth 0 ds (DInt 0) = nth 4 ds (DInt 1) /\ nth 0 ds (DInt 0) <> nth 2 ds (DInt 0)
            | Err _ => False
            end
  | Err _ => False
  end.
Proof. vm_compute. split; [reflexivity|discriminate]. Qed.
