(* The reader (Tree.load, _uncompress_entry, _from_list) rebuilds, from a document of
   the declared layout, exactly the tree that document describes. *)
From Coq Require Import List ZArith Bool Arith Lia Permutation.
From NT Require Import Sx Rose ListFacts RoseFacts Serialize SerializeSpec SerDictFacts SerCompressProofs SerLayFacts SerWriterProofs.
From NTGen Require Import Generated.
Import ListNotations.

(* ---- the node list with an arbitrary rendering of full entries *)
Fixpoint gen_entries (full : rt -> jv) (prev : list (nat * rt)) (l : list (nat * nat * rt)) : list jv :=
  match l with
  | [] => []
  | (ppos, pos, t) :: r =>
      entry ppos (match first_same (rdid t) prev with
                  | Some (j, x) => if kind_eqb (rkind t) (rkind x) then jnat j else full t
                  | None => full t
                  end)
      :: gen_entries full (prev ++ [(pos, t)]) r
  end.

Lemma lay_entries_gen c ser km vm : forall l prev,
  lay_entries c ser km vm prev l = gen_entries (full_entry c ser km vm) prev l.
Proof. induction l as [|[[ppos pos] t] l IH]; intros prev; cbn; [reflexivity|]. now rewrite IH. Qed.

(* full entries after the reader's un-shortening *)
Definition full_canon (c : cls) (ser : info -> dict -> dict) (km : list (text * text)) (t : rt) : jv :=
  let i := rinfo t in
  if bare_str c i then JStr (i_name i) else JDict (canon_dict km (ser i (entry_dict c i))).

Lemma uncompress_nodes_gen c ser km vm (Hkm : km_ok km) : forall l prev,
  (forall q, In q l -> bare_str c (rinfo (q_node q)) = false ->
             dict_ok km vm (ser (rinfo (q_node q)) (entry_dict c (rinfo (q_node q))))) ->
  uncompress_nodes (ikm_of km) (vmj_of vm) (gen_entries (full_entry c ser km vm) prev l)
  = Ok (gen_entries (full_canon c ser km) prev l).
Proof.
  induction l as [|[[ppos pos] t] l IH]; intros prev Hok; [reflexivity|].
  assert (Hfull : uncompress_nodes (ikm_of km) (vmj_of vm)
                    (entry ppos (full_entry c ser km vm t) :: gen_entries (full_entry c ser km vm) (prev ++ [(pos, t)]) l)
                  = Ok (entry ppos (full_canon c ser km t) :: gen_entries (full_canon c ser km) (prev ++ [(pos, t)]) l)).
  { unfold full_entry, full_canon, entry. destruct (bare_str c (rinfo t)) eqn:Eb.
    - cbn [uncompress_nodes]. rewrite IH; [reflexivity|]. intros q Hq. apply Hok. now right.
    - pose proof (Hok (ppos, pos, t) (or_introl eq_refl) Eb) as Hd. cbn [q_node snd] in Hd.
      cbn [uncompress_nodes]. rewrite (uncompress_short km vm Hkm _ Hd).
      rewrite IH; [reflexivity|]. intros q Hq. apply Hok. now right. }
  cbn [gen_entries]. destruct (first_same (rdid t) prev) as [[j x]|]; [|exact Hfull].
  destruct (kind_eqb (rkind t) (rkind x)); [|exact Hfull].
  unfold entry, jnat. cbn [uncompress_nodes]. rewrite IH; [reflexivity|]. intros q Hq. apply Hok. now right.
Qed.

(* ---- header *)
Definition reserved : list text := [k_generator; k_format_version; k_key_map; k_value_map].
Definition meta_ok (meta : dict) : Prop :=
  NoDup (keys meta) /\ forall k, In k (keys meta) -> ~ In k reserved.

Lemma dupdate_fresh : forall u d, NoDup (keys u) -> (forall k, In k (keys u) -> ~ In k (keys d)) -> dupdate d u = d ++ u.
Proof.
  unfold dupdate. induction u as [|[k v] u IH]; intros d Hn Hf; cbn [fold_left]; [now rewrite app_nil_r|].
  inversion Hn as [|? ? Hk Hu]; subst. cbn [fst snd]. rewrite dset_notin by (apply Hf; now left).
  rewrite IH; [la| exact Hu |].
  intros k' Hk' Hi. rewrite map_app in Hi. apply in_app_or in Hi as [Hi|[<-|[]]].
  - apply (Hf k'); [now right|exact Hi].
  - contradiction.
Qed.

Lemma dset_km x a b : dset k_key_map x [(k_generator, a); (k_format_version, b)]
                      = [(k_generator, a); (k_format_version, b); (k_key_map, x)].
Proof. reflexivity. Qed.
Lemma dset_vm0 x a b : dset k_value_map x [(k_generator, a); (k_format_version, b)]
                       = [(k_generator, a); (k_format_version, b); (k_value_map, x)].
Proof. reflexivity. Qed.
Lemma dset_vm1 x a b y : dset k_value_map x [(k_generator, a); (k_format_version, b); (k_key_map, y)]
                         = [(k_generator, a); (k_format_version, b); (k_key_map, y); (k_value_map, x)].
Proof. reflexivity. Qed.

Lemma header_is_spec km vm meta : meta_ok meta -> header km vm meta = header_spec km vm meta.
Proof.
  intros [Hn Hr]. unfold header, header_spec.
  assert (Hm : forall k, In k (keys meta) -> k <> k_generator /\ k <> k_format_version /\ k <> k_key_map /\ k <> k_value_map).
  { intros k Hk. pose proof (Hr k Hk) as H. unfold reserved in H. cbn [In] in H. repeat split; intros ->; apply H; tauto. }
  destruct km as [|kv km]; destruct vm as [|vv vm]; cbn [is_nil app]; rewrite ?dset_km, ?dset_vm0, ?dset_vm1.
  all: destruct meta as [|m meta]; cbn [is_nil]; [now rewrite ?app_nil_r|].
  all: rewrite dupdate_fresh; [reflexivity|exact Hn|].
  all: intros k Hk; destruct (Hm k Hk) as (H1 & H2 & H3 & H4); cbn [map fst In]; intuition congruence.
Qed.


Lemma is_prefix_app p s : is_prefix p (p ++ s) = true.
Proof. induction p as [|x p IH]; cbn; [reflexivity|]. now rewrite Z.eqb_refl, IH. Qed.
Lemma is_substr_prefix p s : is_substr p (p ++ s) = true.
Proof. destruct (p ++ s) eqn:E; cbn; rewrite <- ?E, is_prefix_app; reflexivity. Qed.

Lemma dget_meta_reserved k meta : meta_ok meta -> In k reserved -> dget k meta = None.
Proof. intros [_ Hr] Hk. apply dget_notin. intros Hi. exact (Hr k Hi Hk). Qed.

Lemma header_spec_get km vm meta : meta_ok meta ->
  dget k_generator (header_spec km vm meta) = Some (JStr (s_nutree_slash ++ NUTREE_VERSION)) /\
  dget k_key_map (header_spec km vm meta) = (if is_nil km then None else Some (jv_key_map km)) /\
  dget k_value_map (header_spec km vm meta) = (if is_nil vm then None else Some (jv_value_map vm)).
Proof.
  intros Hm. unfold header_spec.
  pose proof (dget_meta_reserved k_key_map meta Hm) as G1.
  pose proof (dget_meta_reserved k_value_map meta Hm) as G2.
  assert (R1 : In k_key_map reserved) by (cbn; tauto). assert (R2 : In k_value_map reserved) by (cbn; tauto).
  specialize (G1 R1). specialize (G2 R2).
  split; [reflexivity|].
  destruct km as [|kv km]; destruct vm as [|vv vm]; cbn [is_nil app]; split;
    repeat (cbn [dget]; match goal with |- context [text_eqb ?a ?b] => let r := eval vm_compute in (text_eqb a b) in change (text_eqb a b) with r; cbn iota end);
    try exact G1; try exact G2; reflexivity.
Qed.

Lemma seq_prefix : forall (l1 l2 : list nat) a n, seq a n = l1 ++ l2 -> l1 = seq a (length l1).
Proof.
  induction l1 as [|x l1 IH]; intros l2 a n E; [reflexivity|]. destruct n as [|n]; [discriminate|].
  cbn in E. injection E as <- E. cbn. f_equal. eapply IH; eauto.
Qed.

(* ---- from_list *)
Definition prev3 (l : list (nat * nat * rt)) : list (nat * rt) := map (fun q => (q_pos q, q_node q)) l.

Section Reader.
  Variable c : cls.
  Variable ser : info -> dict -> dict.
  Variable deser : nat -> dict -> res dval.
  Variable shash : text -> Z.
  Variable km : list (text * text).
  Variable f : forest.

  Let L := lay_f 0 1 f.
  Let DN := described_nodes c ser deser shash.

  (* the mapper pair: what the theorems assume about it (never an axiom) *)
  Definition ser_keeps : Prop := forall t, In t (pre_f f) ->
    let i := rinfo t in
    NoDup (keys (ser i (entry_dict c i))) /\
    dget k_kind (ser i (entry_dict c i)) = dget k_kind (entry_dict c i) /\
    dget k_data_id (ser i (entry_dict c i)) = dget k_data_id (entry_dict c i).
  Definition deser_total : Prop := forall idx t, In t (pre_f f) -> bare_str c (rinfo t) = false ->
    exists dv, deser idx (ser (rinfo t) (entry_dict c (rinfo t))) = Ok dv.
  Definition deser_perm : Prop := forall idx t d', In t (pre_f f) ->
    Permutation d' (ser (rinfo t) (entry_dict c (rinfo t))) -> deser idx d' = deser idx (ser (rinfo t) (entry_dict c (rinfo t))).
  (* no two described siblings with one data_id (follows from the same property of the source when ids are stable) *)
  Definition described_unique : Prop :=
    NoDup (map (fun e => (ln_par e, i_did (ln_info e))) (DN [] L)).

  Hypothesis Hkeeps : ser_keeps.
  Hypothesis Htotal : deser_total.
  Hypothesis Hperm : deser_perm.
  Hypothesis Huniq : described_unique.

  Lemma DN_app : forall a prev b, DN prev (a ++ b) = DN prev a ++ DN (prev ++ prev3 a) b.
  Proof.
    unfold DN. induction a as [|[[ppos pos] t] a IH]; intros prev b; cbn [app described_nodes prev3 map].
    - now rewrite app_nil_r.
    - rewrite IH. cbn [q_pos q_node fst snd]. rewrite <- app_assoc. reflexivity.
  Qed.

  Lemma DN_idx : forall l prev, map ln_idx (DN prev l) = map q_pos l.
  Proof. unfold DN. induction l as [|[[ppos pos] t] l IH]; intros prev; cbn; [reflexivity|]. now rewrite IH. Qed.
  Lemma DN_par : forall l prev, map ln_par (DN prev l) = map q_ppos l.
  Proof. unfold DN. induction l as [|[[ppos pos] t] l IH]; intros prev; cbn; [reflexivity|]. now rewrite IH. Qed.

  Lemma find_ln_app_notin es e' j : ~ In j (map ln_idx es) -> find_ln j (es ++ [e']) = if Nat.eqb (ln_idx e') j then Some e' else None.
  Proof.
    unfold find_ln. intros H. rewrite find_app_none.
    - cbn. reflexivity.
    - destruct (find (fun e => Nat.eqb (ln_idx e) j) es) eqn:E; [|reflexivity].
      apply find_some in E as [Hi He]. apply Nat.eqb_eq in He. exfalso. apply H. rewrite <- He. now apply in_map.
  Qed.

  Lemma entry_dict_kind i : dget k_kind (entry_dict c i) =
    if is_typed c then match i_kind i with Some k => Some (JStr k) | None => None end else None.
  Proof.
    unfold entry_dict. destruct (i_isstr i); destruct (custom_id i); destruct (is_typed c); cbn [app]; try reflexivity;
      destruct (i_kind i); reflexivity.
  Qed.
  Lemma entry_dict_did i : dget k_data_id (entry_dict c i) = if custom_id i then Some (jv_did (i_did i)) else None.
  Proof.
    unfold entry_dict. destruct (i_isstr i); destruct (custom_id i); destruct (is_typed c); cbn [app]; try reflexivity;
      destruct (i_kind i); reflexivity.
  Qed.

  (* one dict entry *)
  Lemma dict_step es idx p t :
    In t (pre_f f) -> bare_str c (rinfo t) = false ->
    from_list_step c deser shash es idx (entry p (full_canon c ser km t))
    = (if negb (parent_ok es p) then Err EKey else add_node es idx p (rb_info c ser deser shash idx t)).
  Proof.
    intros Ht Eb. unfold from_list_step, entry, jnat. cbn [is_intlike].
    replace (Z.of_nat p <? 0)%Z with false by (symmetry; apply Z.ltb_ge; lia). rewrite Nat2Z.id.
    destruct (negb (parent_ok es p)); [reflexivity|].
    unfold full_canon, rb_info. rewrite Eb. cbn zeta.
    set (i := rinfo t). set (d := ser i (entry_dict c i)).
    destruct (Hkeeps t Ht) as (Hnd & Hk & Hdid). fold i in Hnd, Hk, Hdid. fold d in Hnd, Hk, Hdid.
    pose proof (canon_perm km d) as Hp.
    rewrite (dget_perm k_kind d (canon_dict km d) Hnd (Permutation_sym Hp)), Hk, entry_dict_kind.
    rewrite (dget_perm k_data_id d (canon_dict km d) Hnd (Permutation_sym Hp)), Hdid, entry_dict_did.
    rewrite (Hperm idx t (canon_dict km d) Ht Hp). fold i. fold d.
    destruct (Htotal idx t Ht Eb) as [dv Hdv]. fold i in Hdv. fold d in Hdv. rewrite Hdv. cbn [dv_or].
    unfold default_kind.
    destruct (is_typed c) eqn:Ety; destruct (custom_id i) eqn:Ecu; cbn [jv_did].
    - destruct (i_kind i); destruct (i_did i); reflexivity.
    - destruct (i_kind i); reflexivity.
    - destruct (i_did i); reflexivity.
    - reflexivity.
  Qed.

  Lemma bare_step es idx p t :
    bare_str c (rinfo t) = true ->
    from_list_step c deser shash es idx (entry p (full_canon c ser km t))
    = (if negb (parent_ok es p) then Err EKey else add_node es idx p (rb_info c ser deser shash idx t)).
  Proof.
    intros Eb. unfold from_list_step, entry, jnat. cbn [is_intlike].
    replace (Z.of_nat p <? 0)%Z with false by (symmetry; apply Z.ltb_ge; lia). rewrite Nat2Z.id.
    destruct (negb (parent_ok es p)); [reflexivity|].
    unfold full_canon, rb_info. rewrite Eb. reflexivity.
  Qed.

  Lemma ref_step es idx p j fc :
    1 <= j -> find_ln j es = Some fc ->
    from_list_step c deser shash es idx (entry p (jnat j))
    = (if negb (parent_ok es p) then Err EKey else add_node es idx p (ln_info fc)).
  Proof.
    intros Hj Hf. unfold from_list_step, entry, jnat. cbn [is_intlike].
    replace (Z.of_nat p <? 0)%Z with false by (symmetry; apply Z.ltb_ge; lia). rewrite Nat2Z.id.
    destruct (negb (parent_ok es p)); [reflexivity|].
    replace (Z.of_nat j <=? 0)%Z with false by (symmetry; apply Z.leb_gt; lia). rewrite Nat2Z.id, Hf. reflexivity.
  Qed.

  Definition Finv (L1 : list (nat * nat * rt)) (es : list lnode) : Prop :=
    forall d j x, first_same d (prev3 L1) = Some (j, x) ->
                  exists e, find_ln j es = Some e /\ ln_info e = rb_info c ser deser shash j x.

  Lemma L_nodes : map q_node L = pre_f f.
  Proof. apply lay_f_nodes. Qed.

  Lemma from_list_go_described : forall L2 L1, L = L1 ++ L2 -> Finv L1 (DN [] L1) ->
    from_list_go c deser shash (gen_entries (full_canon c ser km) (prev3 L1) L2) (S (length L1)) (DN [] L1)
    = Ok (DN [] L).
  Proof.
    induction L2 as [|[[ppos pos] t] L2 IH]; intros L1 E HF.
    - rewrite app_nil_r in E. subst L1. reflexivity.
    - set (q := (ppos, pos, t)) in *.
      assert (Epos : pos = S (length L1)).
      { pose proof (lay_f_positions f 0 1) as P. fold L in P. rewrite E, map_app in P. cbn [map] in P.
        symmetry in P. apply seq_split_pos in P. rewrite map_length in P. exact P. }
      assert (Ht : In t (pre_f f)).
      { rewrite <- L_nodes, E, map_app. apply in_or_app. right. now left. }
      assert (Hrange : ppos = 0 \/ (1 <= ppos /\ ppos < pos)).
      { assert (Hq : In q L) by (rewrite E; apply in_or_app; right; now left).
        destruct (lay_f_range f 0 1 q Hq) as [_ [H|H]]; [now left|right; exact H]. }
      assert (Hidx : map ln_idx (DN [] L1) = seq 1 (length L1)).
      { rewrite DN_idx. pose proof (lay_f_positions f 0 1) as P. fold L in P. rewrite E, map_app in P.
        symmetry in P. apply seq_prefix in P. now rewrite map_length in P. }
      assert (Hpok : parent_ok (DN [] L1) ppos = true).
      { unfold parent_ok. destruct Hrange as [->|[H1 H2]]; [reflexivity|]. apply orb_true_iff. right.
        destruct (find_ln ppos (DN [] L1)) eqn:Ef; [reflexivity|]. exfalso.
        assert (Hin : In ppos (map ln_idx (DN [] L1))) by (rewrite Hidx; apply in_seq; lia).
        apply in_map_iff in Hin as (e & He & Hi). unfold find_ln in Ef.
        apply (find_none _ _ Ef) in Hi. rewrite He, Nat.eqb_refl in Hi. discriminate. }
      (* the node that is materialised *)
      set (s := src_of (prev3 L1) pos t).
      assert (Hstep : from_list_step c deser shash (DN [] L1) (S (length L1))
                        (entry ppos (match first_same (rdid t) (prev3 L1) with
                                     | Some (j, x) => if kind_eqb (rkind t) (rkind x) then jnat j else full_canon c ser km t
                                     | None => full_canon c ser km t
                                     end))
                      = add_node (DN [] L1) (S (length L1)) ppos (rb_info c ser deser shash (fst s) (snd s))).
      { assert (Hfullstep : from_list_step c deser shash (DN [] L1) (S (length L1)) (entry ppos (full_canon c ser km t))
                            = add_node (DN [] L1) (S (length L1)) ppos (rb_info c ser deser shash pos t)).
        { rewrite Epos. destruct (bare_str c (rinfo t)) eqn:Eb.
          - rewrite (bare_step _ _ _ _ Eb), Hpok. reflexivity.
          - rewrite (dict_step _ _ _ _ Ht Eb), Hpok. reflexivity. }
        unfold s, src_of. destruct (first_same (rdid t) (prev3 L1)) as [[j x]|] eqn:Ef; [|exact Hfullstep].
        destruct (kind_eqb (rkind t) (rkind x)); [|exact Hfullstep].
        destruct (HF _ _ _ Ef) as (e & Hfe & Hie). cbn [fst snd].
        assert (Hj : 1 <= j).
        { destruct (first_same_in _ _ _ _ Ef) as [Hi _]. unfold prev3 in Hi. apply in_map_iff in Hi as (y & [= <- _] & Hy).
          assert (Hy' : In y L) by (rewrite E; apply in_or_app; now left).
          destruct (lay_f_range f 0 1 y Hy') as [H _]. lia. }
        rewrite (ref_step _ _ _ _ _ Hj Hfe), Hpok, Hie. reflexivity. }
      unfold q at 1. cbn [gen_entries from_list_go]. rewrite Hstep.
      (* the uniqueness check passes *)
      assert (EDN : DN [] (L1 ++ [q]) = DN [] L1 ++ [(pos, ppos, rb_info c ser deser shash (fst s) (snd s))]).
      { rewrite DN_app. cbn [app]. unfold DN at 3. reflexivity. }
      assert (Hadd : add_node (DN [] L1) (S (length L1)) ppos (rb_info c ser deser shash (fst s) (snd s))
                     = Ok (DN [] (L1 ++ [q]))).
      { unfold add_node. rewrite EDN, <- Epos.
        destruct (existsb _ (DN [] L1)) eqn:Eex; [|reflexivity]. exfalso.
        apply existsb_exists in Eex as (e & He & Hc). apply andb_true_iff in Hc as [Hc1 Hc2].
        apply Nat.eqb_eq in Hc1. apply did_eqb_eq in Hc2.
        unfold described_unique in Huniq. rewrite E in Huniq.
        assert (E2 : L1 ++ q :: L2 = (L1 ++ [q]) ++ L2) by la. rewrite E2, DN_app, map_app in Huniq.
        apply NoDup_app_l in Huniq. rewrite EDN, map_app in Huniq. cbn [map] in Huniq.
        eapply NoDup_app_disj; [exact Huniq| |now left].
        apply in_map_iff. exists e. split; [|exact He]. cbn [ln_par ln_info fst snd]. now rewrite Hc1, Hc2. }
      rewrite Hadd.
      assert (E' : L = (L1 ++ [q]) ++ L2) by (rewrite E; la).
      assert (Eprev : prev3 (L1 ++ [q]) = prev3 L1 ++ [(pos, t)]) by (unfold prev3; rewrite map_app; reflexivity).
      assert (Elen : S (S (length L1)) = S (length (L1 ++ [q]))) by (rewrite app_length; cbn; lia).
      rewrite Elen, <- Eprev. apply IH; [exact E'|].
      (* the invariant *)
      intros d j x Hfs. rewrite Eprev in Hfs. rewrite EDN.
      assert (Hnotin : ~ In pos (map ln_idx (DN [] L1))) by (rewrite Hidx, in_seq; lia).
      unfold first_same in Hfs.
      destruct (find (fun e => did_eqb (rdid (snd e)) d) (prev3 L1)) as [[j' x']|] eqn:Ef.
      + rewrite (find_app_some _ _ _ _ Ef) in Hfs. injection Hfs as <- <-.
        destruct (HF d j' x' Ef) as (e & Hfe & Hie). exists e. split; [|exact Hie].
        unfold find_ln in *. now apply find_app_some.
      + rewrite (find_app_none _ _ _ Ef) in Hfs. cbn [find snd] in Hfs.
        destruct (did_eqb (rdid t) d) eqn:Ed; [|discriminate]. injection Hfs as <- <-.
        apply did_eqb_eq in Ed. subst d.
        exists (pos, ppos, rb_info c ser deser shash (fst s) (snd s)). split.
        * rewrite (find_ln_app_notin _ _ _ Hnotin). cbn [ln_idx fst]. now rewrite Nat.eqb_refl.
        * cbn [ln_info snd]. unfold s, src_of, first_same. rewrite Ef. reflexivity.
  Qed.
End Reader.
