(* The writer (Node.to_list_iter, Tree.save) produces exactly the declarative layout. *)
From Coq Require Import List ZArith Bool Arith Lia Permutation.
From NT Require Import Sx Rose ListFacts RoseFacts Serialize SerializeSpec SerDictFacts SerCompressProofs SerLayFacts.
From NTGen Require Import Generated.
Import ListNotations.

Lemma lookup_did_cons {X} d k (v : X) m :
  lookup_did d ((k, v) :: m) = if did_eqb d k then Some v else lookup_did d m.
Proof. reflexivity. Qed.

Lemma did_eqb_neq a b : a <> b -> did_eqb a b = false.
Proof. intros H. destruct (did_eqb a b) eqn:E; [apply did_eqb_eq in E; contradiction|reflexivity]. Qed.

Lemma find_app_some {X} (p : X -> bool) a b x : find p a = Some x -> find p (a ++ b) = Some x.
Proof. induction a as [|y a IH]; cbn; [discriminate|]. destruct (p y); auto. Qed.
Lemma find_app_none {X} (p : X -> bool) a b : find p a = None -> find p (a ++ b) = find p b.
Proof. induction a as [|y a IH]; cbn; [reflexivity|]. destruct (p y); [discriminate|auto]. Qed.

(* ---- make_list_entry is the declared entry *)
Lemma make_list_entry_spec c i :
  make_list_entry c i = if bare_str c i then JStr (i_name i) else JDict (entry_dict c i).
Proof.
  unfold make_list_entry, bare_str, entry_dict, mle_typed, mle_plain.
  destruct c; cbn [is_typed negb andb]; destruct (i_isstr i); destruct (custom_id i); cbn [negb andb app];
    try reflexivity; destruct (i_kind i); reflexivity.
Qed.

Lemma short_dict_nil d : short_dict [] [] d = d.
Proof.
  unfold short_dict. cbn. rewrite filter_true, filter_false, app_nil_r.
  rewrite <- (map_id d) at 2. apply map_ext. intros [k v]. reflexivity.
Qed.

Definition entries_ok (c : cls) (ser : info -> dict -> dict) km vm (f : forest) : Prop :=
  forall t, In t (pre_f f) -> bare_str c (rinfo t) = false -> dict_ok km vm (ser (rinfo t) (entry_dict c (rinfo t))).

Lemma full_data_spec c ser km vm t :
  km_ok km ->
  (bare_str c (rinfo t) = false -> dict_ok km vm (ser (rinfo t) (entry_dict c (rinfo t)))) ->
  full_data c ser km vm t = Ok (full_entry c ser km vm t).
Proof.
  intros Hkm Hd. unfold full_data, full_entry. rewrite make_list_entry_spec.
  destruct (bare_str c (rinfo t)) eqn:Eb.
  - destruct (is_nil km && is_nil vm); reflexivity.
  - destruct (is_nil km && is_nil vm) eqn:En.
    + apply andb_true_iff in En as [E1 E2]. destruct km; [|discriminate]. destruct vm; [|discriminate].
      now rewrite short_dict_nil.
    + unfold compress_entry. now rewrite (compress_dict_short km vm Hkm _ (Hd eq_refl)).
Qed.

Section Writer.
  Variable c : cls.
  Variable ser : info -> dict -> dict.
  Variable km : list (text * text).
  Variable vm : list (text * list text).
  Variable whole : forest.
  Hypothesis Hids : NoDup (0 :: ids whole).
  Hypothesis Hfull : forall t, In t (pre_f whole) -> full_data c ser km vm t = Ok (full_entry c ser km vm t).

  Let L4 := lay4_f 0 0 1 whole.

  Definition prev_of (A : list q4) : list (nat * rt) := map (fun q => (q_pos (q4_q q), snd q)) A.

  Definition Pinv (A : list q4) (pmap : list (nat * nat)) : Prop :=
    NoDup (map fst pmap) /\ In (0, 0) pmap /\
    (forall y, In y A -> rch (snd y) <> [] -> In (rid (snd y), q_pos (q4_q y)) pmap) /\
    (forall k, In k (map fst pmap) -> k = 0 \/ In k (map (fun q => rid (snd q)) A)).

  Definition Cinv (A : list q4) (cmap : list (did * (nat * kind))) : Prop :=
    forall d, lookup_did d cmap =
              match first_same d (prev_of A) with
              | Some (j, x) => if is_clone whole x then Some (j, rkind x) else None
              | None => None
              end.

  Lemma rids_L4 : map (fun q : q4 => rid (snd q)) L4 = ids whole.
  Proof. unfold L4, ids. rewrite <- (lay4_f_nodes whole 0 0 1), map_map. reflexivity. Qed.

  Lemma first_same_in d prev j x : first_same d prev = Some (j, x) -> In (j, x) prev /\ rdid x = d.
  Proof.
    unfold first_same. intros H. apply find_some in H as [Hi He]. cbn in He. apply did_eqb_eq in He. auto.
  Qed.

  (* two nodes of the tree with one data_id: both are clones *)
  Lemma is_clone_two A q B x : L4 = A ++ q :: B -> In x (map (@snd _ rt) A) -> rdid x = rdid (snd q) -> is_clone whole x = true.
  Proof.
    intros E Hx Hd. unfold is_clone, count_did. rewrite <- (lay4_f_nodes whole 0 0 1). fold L4. rewrite E, map_app. cbn [map].
    rewrite filter_app, app_length. cbn [filter]. rewrite Hd, did_eqb_refl. cbn [length].
    assert (1 <= length (filter (fun t : rt => did_eqb (rdid t) (rdid (snd q))) (map (@snd _ rt) A))).
    { apply in_split in Hx as (l1 & l2 & ->). rewrite filter_app, app_length. cbn [filter]. rewrite Hd, did_eqb_refl. cbn. lia. }
    apply Nat.ltb_lt. apply Nat.lt_le_trans with (1 + 1); [lia|]. apply Nat.add_le_mono; [exact H|apply le_n_S, Nat.le_0_l].
  Qed.

  Lemma tli_go_lay : forall B A pmap cmap, L4 = A ++ B -> Pinv A pmap -> Cinv A cmap ->
    tli_go c ser km vm whole (map q4_pn B) (S (length A)) pmap cmap
    = Ok (lay_entries c ser km vm (prev_of A) (map q4_q B)).
  Proof.
    induction B as [|q B IH]; intros A pmap cmap E HP HC; [reflexivity|].
    destruct q as [[[pid ppos] pos] t] eqn:Eq. rewrite <- Eq in E.
    assert (Epos : pos = S (length A)).
    { pose proof (lay4_f_pos whole 0 0 1 A q B E) as P. rewrite Eq in P. cbn in P. lia. }
    assert (Hlink : linked 0 0 A q) by (eapply lay4_f_linked; exact E).
    assert (Ht : In t (pre_f whole)).
    { rewrite <- (lay4_f_nodes whole 0 0 1). fold L4. rewrite E, map_app. apply in_or_app. right. rewrite Eq. now left. }
    assert (HidA : rid t <> 0 /\ ~ In (rid t) (map (fun q : q4 => rid (snd q)) A)).
    { pose proof Hids as Hn. rewrite <- rids_L4, E, map_app in Hn. rewrite Eq in Hn. cbn [map snd] in Hn.
      inversion Hn as [|? ? H0 Hn']; subst. split.
      - intros E0. apply H0. apply in_or_app. right. left. exact E0.
      - intros Hi. eapply NoDup_app_disj; [exact Hn'|exact Hi|now left]. }
    destruct HidA as [Hid0 HidA].
    destruct HP as (HPn & HP0 & HPy & HPk).
    cbn [map q4_pn q4_q q4_pid fst snd tli_go lay_entries].
    set (pmap' := if is_nil (rch t) then pmap else (rid t, S (length A)) :: pmap).
    assert (HP' : Pinv (A ++ [q]) pmap').
    { unfold pmap'. refine (conj _ (conj _ (conj _ _))).
      - destruct (rch t); cbn [is_nil]; [exact HPn|]. cbn [map fst]. constructor; [|exact HPn].
        intros Hi. apply HPk in Hi as [Hi|Hi]; contradiction.
      - destruct (rch t); cbn [is_nil]; [exact HP0|now right].
      - intros y Hy Hch. apply in_app_or in Hy as [Hy|[<-|[]]].
        + destruct (rch t); cbn [is_nil]; [auto|right; auto].
        + rewrite Eq in *. cbn [snd q4_q q_pos fst] in *. destruct (rch t); [contradiction|]. cbn [is_nil]. left. now rewrite Epos.
      - intros k Hk. rewrite map_app. destruct (rch t); cbn [is_nil] in Hk.
        + apply HPk in Hk as [Hk|Hk]; [now left|right; apply in_or_app; now left].
        + cbn [map fst] in Hk. destruct Hk as [<-|Hk].
          * right. apply in_or_app. right. rewrite Eq. now left.
          * apply HPk in Hk as [Hk|Hk]; [now left|right; apply in_or_app; now left]. }
    assert (Hlook : lookup_nat pid pmap' = Some ppos).
    { destruct HP' as (HPn' & HP0' & HPy' & _). apply lookup_nat_in; [exact HPn'|].
      destruct Hlink as [[Hp Hpp]|(y & Hy & Hr & Hyp & Hch)].
      - rewrite Eq in Hp, Hpp. cbn in Hp, Hpp. subst. exact HP0'.
      - rewrite Eq in Hr, Hyp. cbn in Hr, Hyp. rewrite <- Hr, <- Hyp. apply HPy'; [apply in_or_app; now left|exact Hch]. }
    fold pmap'. rewrite Hlook.
    assert (E' : L4 = (A ++ [q]) ++ B) by (rewrite E; la).
    assert (Elen : S (S (length A)) = S (length (A ++ [q]))) by (rewrite app_length; cbn; lia).
    assert (Eprev : prev_of (A ++ [q]) = prev_of A ++ [(pos, t)]).
    { unfold prev_of. rewrite map_app. rewrite Eq. reflexivity. }
    rewrite (Hfull t Ht).
    (* the clone map *)
    rewrite (HC (rdid t)). destruct (first_same (rdid t) (prev_of A)) as [[j x]|] eqn:Ef.
    - (* an earlier node has this data_id: it was recorded *)
      destruct (first_same_in _ _ _ _ Ef) as [Hjx Hdx].
      assert (Hxc : is_clone whole x = true).
      { apply (is_clone_two A q B x E).
        - unfold prev_of in Hjx. apply in_map_iff in Hjx as (y & [= _ <-] & Hy). now apply in_map.
        - rewrite Eq. exact Hdx. }
      rewrite Hxc.
      assert (HC' : Cinv (A ++ [q]) cmap).
      { intros d. rewrite (HC d), Eprev. destruct (first_same d (prev_of A)) as [[j' x']|] eqn:Ef'.
        - unfold first_same in *. now rewrite (find_app_some _ _ _ _ Ef').
        - unfold first_same in *. rewrite (find_app_none _ _ _ Ef'). cbn [find snd].
          destruct (did_eqb (rdid t) d) eqn:Ed; [|reflexivity]. apply did_eqb_eq in Ed. subst d. rewrite Ef in Ef'. discriminate. }
      destruct (kind_eqb (rkind t) (rkind x)).
      + rewrite Elen, (IH (A ++ [q]) pmap' cmap E' HP' HC'), Eprev, Epos. reflexivity.
      + rewrite Elen, (IH (A ++ [q]) pmap' cmap E' HP' HC'), Eprev, Epos. reflexivity.
    - (* first occurrence *)
      set (cmap' := if is_clone whole t then (rdid t, (S (length A), rkind t)) :: cmap else cmap).
      assert (HC' : Cinv (A ++ [q]) cmap').
      { intros d. rewrite Eprev. unfold first_same in *. destruct (find (fun e => did_eqb (rdid (snd e)) d) (prev_of A)) as [[j' x']|] eqn:Ef'.
        - rewrite (find_app_some _ _ _ _ Ef').
          assert (Hd : d <> rdid t).
          { intros ->. rewrite Ef in Ef'. discriminate. }
          unfold cmap'. destruct (is_clone whole t).
          + rewrite lookup_did_cons, (did_eqb_neq _ _ Hd). rewrite (HC d). unfold first_same. now rewrite Ef'.
          + rewrite (HC d). unfold first_same. now rewrite Ef'.
        - rewrite (find_app_none _ _ _ Ef'). cbn [find snd]. unfold cmap'.
          destruct (did_eqb (rdid t) d) eqn:Ed.
          + apply did_eqb_eq in Ed. subst d. destruct (is_clone whole t).
            * rewrite lookup_did_cons, did_eqb_refl, Epos. reflexivity.
            * rewrite (HC (rdid t)). unfold first_same. now rewrite Ef'.
          + assert (Hd : d <> rdid t) by (intros ->; rewrite did_eqb_refl in Ed; discriminate).
            destruct (is_clone whole t).
            * rewrite lookup_did_cons, (did_eqb_neq _ _ Hd). rewrite (HC d). unfold first_same. now rewrite Ef'.
            * rewrite (HC d). unfold first_same. now rewrite Ef'. }
      fold cmap'. rewrite Elen, (IH (A ++ [q]) pmap' cmap' E' HP' HC'), Eprev, Epos. reflexivity.
  Qed.

  Theorem to_list_iter_layout : to_list_iter c ser km vm whole = Ok (layout c ser km vm whole).
  Proof.
    unfold to_list_iter, layout. rewrite <- (lay4_f_pn whole 0 0 1), <- (lay4_f_q whole 0 0 1).
    apply (tli_go_lay L4 [] [(0, 0)] []); [reflexivity| |].
    - refine (conj _ (conj _ (conj _ _))).
      + cbn. constructor; [intros []|constructor].
      + now left.
      + intros y [].
      + intros k [<-|[]]. now left.
    - intros d. reflexivity.
  Qed.
End Writer.
