(* Theorems about the default rendering templates (model: MiscRender.v). *)
From Coq Require Import List ZArith Bool.
From NT Require Import Sx Rose Export FsReprDecode MiscMapper MiscRepr MiscRender.
Import ListNotations.

Definition templ_node : text := [123; 110; 111; 100; 101; 46; 100; 97; 116; 97; 33; 114; 125]%Z.      (* "{node.data!r}" *)
Definition templ_typed : text :=                                                                        (* "{node.kind} → {node.data}" *)
  [123; 110; 111; 100; 101; 46; 107; 105; 110; 100; 125; 32; 8594; 32; 123; 110; 111; 100; 101; 46; 100; 97; 116; 97; 125]%Z.

(* a plain tree shows repr(data) *)
Theorem render_node_default t given : render_with templ_node t given = Some (data_repr t given).
Proof. unfold render_with, format_with. cbn. rewrite app_nil_r. reflexivity. Qed.

(* a typed tree shows "kind → str(data)"; the typed template on a node without kind raises *)
Theorem render_typed_default t given :
  render_with templ_typed t given = match rkind t with Some k => Some (k ++ [32; 8594; 32]%Z ++ i_name (rinfo t)) | None => None end.
Proof. unfold render_with, format_with. cbn. destruct (rkind t); cbn; [rewrite app_nil_r|]; reflexivity. Qed.

(* for ASCII str data the shown text determines the data (quotes and escapes included) *)
Theorem render_node_default_injective a b ga gb :
  i_isstr (rinfo a) = true -> i_isstr (rinfo b) = true -> is_ascii (i_name (rinfo a)) = true -> is_ascii (i_name (rinfo b)) = true ->
  Forall cp_ok (i_name (rinfo a)) -> Forall cp_ok (i_name (rinfo b)) ->
  render_with templ_node a ga = render_with templ_node b gb -> i_name (rinfo a) = i_name (rinfo b).
Proof.
  intros Ia Ib Aa Ab Ca Cb. rewrite !render_node_default. unfold data_repr. rewrite Ia, Ib, Aa, Ab. cbn [andb]. intros E.
  assert (E' : repr_text (i_name (rinfo a)) = repr_text (i_name (rinfo b))) by congruence.
  exact (repr_str_injective no_print _ _ Ca Cb E').
Qed.
