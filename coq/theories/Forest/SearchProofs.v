(* C09 — specification-side definitions and proofs about Search.v. *)
From Coq Require Import List ZArith Bool Arith Lia Permutation.
From NT Require Import Sx Rose ListFacts RoseFacts Search.
Import ListNotations.

(* ---- the searched branch, by the structural pre-order of Rose.v -------- *)
Definition branch (f : forest) (s : start) (add_self : bool) : list rt :=
  match s with
  | SRoot => pre_f f
  | SNode t => if add_self then pre t else pre_f (rch t)
  end.

Lemma iter_pre_eq : forall t, iter_pre t = pre_f (rch t).
Proof.
  induction t as [id i ch IH] using rt_ind'. cbn [iter_pre rch].
  induction ch as [|c ch IHch]; [reflexivity|].
  inversion IH as [|c' ch' Hc Hch]; subst.
  cbn [flat_map]. rewrite (IHch Hch), Hc, <- pre_unfold. reflexivity.
Qed.

Lemma iter_pre_ch_eq : forall ch, iter_pre_ch ch = pre_f ch.
Proof.
  induction ch as [|c ch IH]; [reflexivity|].
  unfold iter_pre_ch in *. cbn [flat_map]. rewrite IH, iter_pre_eq, <- pre_unfold. reflexivity.
Qed.

Lemma iterator_branch f s b : iterator f s b = branch f s b.
Proof.
  destruct s as [|t]; cbn [iterator branch].
  - apply iter_pre_ch_eq.
  - rewrite iter_pre_eq. destruct b; [symmetry; apply pre_unfold|reflexivity].
Qed.

(* ---- the search loop is "the first k of the matches" ------------------- *)
Lemma search_loop_unlimited cb c l : search_loop cb 0 c l = filter cb l.
Proof.
  revert c. induction l as [|n l IH]; intros c; [reflexivity|].
  cbn [search_loop filter]. destruct (cb n).
  - cbn [Nat.eqb negb andb]. rewrite IH. reflexivity.
  - apply IH.
Qed.

Lemma search_loop_limited cb k l : forall c, c < k -> search_loop cb k c l = firstn (k - c) (filter cb l).
Proof.
  induction l as [|n l IH]; intros c Hc.
  - cbn [search_loop filter]. rewrite firstn_nil. reflexivity.
  - cbn [search_loop filter]. destruct (cb n).
    + replace (k - c) with (S (k - S c)) by lia. cbn [firstn]. f_equal.
      destruct (Nat.eqb k 0) eqn:Ek; [apply Nat.eqb_eq in Ek; lia|]. cbn [negb andb].
      destruct (Nat.leb k (S c)) eqn:El.
      * apply Nat.leb_le in El. replace (k - S c) with 0 by lia. reflexivity.
      * apply Nat.leb_gt in El. apply IH. lia.
    + apply IH. exact Hc.
Qed.

Lemma search_loop_spec cb k l : search_loop cb k 0 l = py_limit k (filter cb l).
Proof.
  unfold py_limit. destruct (Nat.eqb k 0) eqn:Ek.
  - apply Nat.eqb_eq in Ek. subst k. apply search_loop_unlimited.
  - apply Nat.eqb_neq in Ek. rewrite search_loop_limited by lia. rewrite Nat.sub_0_r. reflexivity.
Qed.

(* ---- facts about the limit -------------------------------------------- *)
Lemma py_limit_0 {X} (l : list X) : py_limit 0 l = l.
Proof. reflexivity. Qed.

Lemma py_limit_pos {X} k (l : list X) : 1 <= k -> py_limit k l = firstn k l.
Proof. intros Hk. unfold py_limit. destruct (Nat.eqb k 0) eqn:E; [apply Nat.eqb_eq in E; lia|reflexivity]. Qed.

Lemma py_limit_length {X} k (l : list X) : 1 <= k -> length (py_limit k l) = Nat.min k (length l).
Proof. intros Hk. rewrite py_limit_pos by exact Hk. apply firstn_length. Qed.

Lemma py_limit_prefix {X} k (l : list X) : exists rest, l = py_limit k l ++ rest.
Proof.
  unfold py_limit. destruct (Nat.eqb k 0).
  - exists []. symmetry. apply app_nil_r.
  - exists (skipn k l). symmetry. apply firstn_skipn.
Qed.

Lemma py_limit_incl {X} k (l : list X) : incl (py_limit k l) l.
Proof.
  destruct (py_limit_prefix k l) as [rest E]. intros x Hx. rewrite E. apply in_or_app. left. exact Hx.
Qed.

Lemma NoDup_firstn {X} k (l : list X) : NoDup l -> NoDup (firstn k l).
Proof.
  intros H. rewrite <- (firstn_skipn k l) in H. exact (NoDup_app_l _ _ H).
Qed.

Lemma py_limit_NoDup {X} k (l : list X) : NoDup l -> NoDup (py_limit k l).
Proof. unfold py_limit. destruct (Nat.eqb k 0); [auto|apply NoDup_firstn]. Qed.

Lemma hd_error_py_limit_1 {X} (l : list X) : hd_error (py_limit 1 l) = hd_error l.
Proof. destruct l; reflexivity. Qed.

(* order: the answer is a subsequence of the searched branch *)
Inductive subseq {X} : list X -> list X -> Prop :=
| sub_nil l : subseq [] l
| sub_take x a b : subseq a b -> subseq (x :: a) (x :: b)
| sub_skip x a b : subseq a b -> subseq a (x :: b).

Lemma subseq_filter {X} (p : X -> bool) l : subseq (filter p l) l.
Proof.
  induction l as [|x l IH]; [constructor|]. cbn [filter]. destruct (p x); constructor; exact IH.
Qed.

Lemma subseq_firstn {X} (a b : list X) : subseq a b -> forall k, subseq (firstn k a) b.
Proof.
  induction 1 as [l|x a b H IH|x a b H IH]; intros k.
  - rewrite firstn_nil. constructor.
  - destruct k; cbn [firstn]; [constructor|]. constructor. apply IH.
  - constructor. apply IH.
Qed.

Lemma subseq_py_limit {X} k (a b : list X) : subseq a b -> subseq (py_limit k a) b.
Proof. intros H. unfold py_limit. destruct (Nat.eqb k 0); [exact H|apply subseq_firstn; exact H]. Qed.

Lemma subseq_in {X} (a b : list X) : subseq a b -> incl a b.
Proof.
  induction 1 as [l|x a b H IH|x a b H IH]; intros y Hy.
  - destruct Hy.
  - destruct Hy as [->|Hy]; [left; reflexivity|right; apply IH; exact Hy].
  - right. apply IH. exact Hy.
Qed.

(* ---- pattern / predicate searches -------------------------------------- *)
Lemma node_find_all_match f s ms add_self k :
  node_find_all (iterator f s) None (Some ms) None add_self k
  = Ok (py_limit k (filter (cb_match ms) (branch f s add_self))).
Proof.
  unfold node_find_all. cbn [merge_data]. rewrite search_loop_spec, iterator_branch. reflexivity.
Qed.

Lemma node_find_all_regex (m : text -> bool) f s add_self k :
  node_find_all (iterator f s) None (Some (MsRe m)) None add_self k
  = Ok (py_limit k (filter (fun n => m (i_name (rinfo n))) (branch f s add_self))).
Proof. apply node_find_all_match. Qed.

Lemma node_find_all_pred (p : rt -> bool) f s add_self k :
  node_find_all (iterator f s) None (Some (MsPred p)) None add_self k
  = Ok (py_limit k (filter p (branch f s add_self))).
Proof.
  rewrite node_find_all_match. do 2 f_equal.
Qed.

Lemma node_find_first_match f s ms :
  node_find_first (iterator f s) None (Some ms) None
  = Ok (hd_error (filter (cb_match ms) (branch f s false))).
Proof.
  unfold node_find_first. rewrite node_find_all_match, hd_error_py_limit_1. reflexivity.
Qed.

(* data / data_id on a branch: ordered path *)
Lemma node_find_all_did f s data data_id d add_self k :
  merge_data data data_id = Ok (Some d) ->
  node_find_all (iterator f s) data None data_id add_self k
  = Ok (py_limit k (filter (did_is d) (branch f s add_self))).
Proof.
  intros E. unfold node_find_all. rewrite E, iterator_branch. reflexivity.
Qed.

Lemma node_find_first_did f s data data_id d :
  merge_data data data_id = Ok (Some d) ->
  node_find_first (iterator f s) data None data_id
  = Ok (hd_error (filter (did_is d) (branch f s false))).
Proof.
  intros E. unfold node_find_first. rewrite (node_find_all_did _ _ _ _ _ _ _ E), hd_error_py_limit_1. reflexivity.
Qed.

(* the properties of "the first k of the matches", in relational form *)
Lemma limited_filter_props {X} (p : X -> bool) (k : nat) (all : list X) :
  let r := py_limit k (filter p all) in
  (forall x, In x r -> In x all /\ p x = true) /\
  (k = 0 -> forall x, In x all -> p x = true -> In x r) /\
  subseq r all /\
  (exists rest, filter p all = r ++ rest) /\
  (1 <= k -> r = firstn k (filter p all) /\ length r <= k /\ length r = Nat.min k (length (filter p all))).
Proof.
  cbv zeta. refine (conj _ (conj _ (conj _ (conj _ _)))).
  - intros x Hx. apply py_limit_incl in Hx. apply filter_In in Hx. exact Hx.
  - intros -> x Hx Hp. rewrite py_limit_0. apply filter_In. split; assumption.
  - apply subseq_py_limit, subseq_filter.
  - apply py_limit_prefix.
  - intros Hk. refine (conj _ (conj _ _)).
    + apply py_limit_pos. exact Hk.
    + rewrite py_limit_length by exact Hk. lia.
    + apply py_limit_length. exact Hk.
Qed.

(* Tree-level searches by pattern / predicate *)
Lemma tree_find_all_match st ms k :
  tree_find_all st None (Some ms) None k
  = Ok (map rid (py_limit k (filter (cb_match ms) (pre_f (t_forest st))))).
Proof.
  unfold tree_find_all. cbn [merge_data]. rewrite node_find_all_match. reflexivity.
Qed.

Lemma tree_find_first_match st ms :
  tree_find_first st None (Some ms) None None
  = Ok (option_map rid (hd_error (filter (cb_match ms) (pre_f (t_forest st))))).
Proof.
  unfold tree_find_first. cbn [merge_data]. rewrite node_find_first_match. reflexivity.
Qed.

(* ---- well-formed registry and clone index ------------------------------ *)
Definition all_by_did (f : forest) (d : did) : list nat := map rid (filter (did_is d) (pre_f f)).
Definition group (ix : list (did * list nat)) (d : did) : list nat :=
  match idx_get d ix with Some g => g | None => [] end.

Record state_wf (st : tstate) : Prop := {
  wf_ids : NoDup (ids (t_forest st));
  (* each index group is a duplicate-free list of exactly the nodes of the
     forest carrying that data_id *)
  wf_group : forall d, NoDup (group (t_idx st) d) /\
                       (forall n, In n (group (t_idx st) d) <-> In n (all_by_did (t_forest st) d));
  wf_nonempty : forall d g, idx_get d (t_idx st) = Some g -> g <> [];
  wf_reg : forall z n, reg_get z (t_reg st) = Some n -> In n (ids (t_forest st))
}.

Lemma all_by_did_incl f d : incl (all_by_did f d) (ids f).
Proof.
  intros n Hn. unfold all_by_did in Hn. apply in_map_iff in Hn as (t & <- & Ht).
  apply filter_In in Ht as [Ht _]. unfold ids. apply in_map. exact Ht.
Qed.

Lemma NoDup_map_filter {X Y} (g : X -> Y) (p : X -> bool) l : NoDup (map g l) -> NoDup (map g (filter p l)).
Proof.
  induction l as [|x l IH]; intros H; [constructor|].
  cbn [map] in H. inversion H as [|y ys Hn Hd]; subst.
  cbn [filter]. destruct (p x); [|apply IH; exact Hd].
  cbn [map]. constructor; [|apply IH; exact Hd].
  intros Hin. apply Hn. apply in_map_iff in Hin as (z & E & Hz). apply filter_In in Hz as [Hz _].
  rewrite <- E. apply in_map. exact Hz.
Qed.

Lemma all_by_did_NoDup f d : NoDup (ids f) -> NoDup (all_by_did f d).
Proof. intros H. apply NoDup_map_filter. exact H. Qed.

Lemma wf_perm st d : state_wf st -> Permutation (group (t_idx st) d) (all_by_did (t_forest st) d).
Proof.
  intros W. destruct (wf_group st W d) as [Hn Hiff].
  apply NoDup_Permutation; [exact Hn|apply all_by_did_NoDup, (wf_ids st W)|exact Hiff].
Qed.

(* what the index path of Tree.find_all reads *)
Lemma tree_find_all_index_eq st data data_id d k :
  merge_data data data_id = Ok (Some d) ->
  tree_find_all st data None data_id k = Ok (py_limit k (group (t_idx st) d)).
Proof.
  intros E. unfold tree_find_all, group. rewrite E.
  destruct (idx_get d (t_idx st)) as [[|x g]|]; try reflexivity;
    unfold py_limit; destruct (Nat.eqb k 0); try reflexivity; rewrite firstn_nil; reflexivity.
Qed.

Lemma tree_find_all_index st data data_id d k :
  state_wf st -> merge_data data data_id = Ok (Some d) ->
  exists r, tree_find_all st data None data_id k = Ok r /\
    NoDup r /\ incl r (all_by_did (t_forest st) d) /\
    (k = 0 -> Permutation r (all_by_did (t_forest st) d)) /\
    (1 <= k -> length r = Nat.min k (length (all_by_did (t_forest st) d))).
Proof.
  intros W E. eexists. split; [apply (tree_find_all_index_eq _ _ _ _ _ E)|].
  pose proof (wf_perm st d W) as P. destruct (wf_group st W d) as [Hn Hiff].
  refine (conj _ (conj _ (conj _ _))).
  - apply py_limit_NoDup. exact Hn.
  - intros n Hn'. apply Hiff. apply (py_limit_incl k). exact Hn'.
  - intros ->. rewrite py_limit_0. exact P.
  - intros Hk. rewrite py_limit_length by exact Hk. rewrite (Permutation_length P). reflexivity.
Qed.

Lemma tree_find_first_index_eq st data data_id d :
  merge_data data data_id = Ok (Some d) ->
  tree_find_first st data None data_id None = Ok (hd_error (group (t_idx st) d)).
Proof.
  intros E. unfold tree_find_first, group. rewrite E.
  destruct (idx_get d (t_idx st)) as [[|x g]|]; reflexivity.
Qed.

Lemma tree_find_first_index st data data_id d :
  state_wf st -> merge_data data data_id = Ok (Some d) ->
  exists o, tree_find_first st data None data_id None = Ok o /\
    (o = None <-> all_by_did (t_forest st) d = []) /\
    (forall n, o = Some n -> In n (all_by_did (t_forest st) d)).
Proof.
  intros W E. eexists. split; [apply (tree_find_first_index_eq _ _ _ _ E)|].
  pose proof (wf_perm st d W) as P. destruct (wf_group st W d) as [_ Hiff].
  split.
  - destruct (group (t_idx st) d) as [|x g] eqn:G; cbn [hd_error].
    + split; [intros _; apply Permutation_nil; exact P|reflexivity].
    + split; [discriminate|]. intros E0. rewrite E0 in P. apply Permutation_sym, Permutation_nil in P. discriminate P.
  - intros n Hn. apply Hiff. destruct (group (t_idx st) d) as [|x g]; [discriminate|].
    cbn [hd_error] in Hn. injection Hn as ->. left. reflexivity.
Qed.

Lemma tree_find_first_node_id st z :
  tree_find_first st None None None (Some z) = Ok (reg_get z (t_reg st)).
Proof. reflexivity. Qed.

(* ---- index access ------------------------------------------------------ *)
Definition classify (l : list nat) : res nat :=
  match l with [] => Err EKey | [n] => Ok n | _ => Err EAmbiguous end.

Lemma classify_key l : classify l = Err EKey <-> l = [].
Proof. destruct l as [|a [|b l]]; cbn; split; (reflexivity || discriminate). Qed.
Lemma classify_ok l n : classify l = Ok n <-> l = [n].
Proof.
  destruct l as [|a [|b l]]; cbn; split; try discriminate.
  - intros E. injection E as ->. reflexivity.
  - intros E. injection E as ->. reflexivity.
Qed.
Lemma classify_ambiguous l : classify l = Err EAmbiguous <-> 2 <= length l.
Proof.
  destruct l as [|a [|b l]]; cbn [classify length]; split; try discriminate; try lia.
  reflexivity.
Qed.

Lemma classify_perm a b : Permutation a b -> classify a = classify b.
Proof.
  intros P. pose proof (Permutation_length P) as Hl.
  destruct a as [|x [|y a]], b as [|u [|v b]]; cbn [length] in Hl; try discriminate Hl; try reflexivity.
  apply Permutation_length_1 in P. subst. reflexivity.
Qed.

Definition node_id_stage (st : tstate) (k : key) : option nat :=
  match key_as_node_id k with Some z => reg_get z (t_reg st) | None => None end.

Lemma getitem_node st c : getitem st (KNode c) = Err EValue.
Proof. reflexivity. Qed.

Lemma getitem_none st : node_id_stage st KNone = None /\ getitem st KNone = Err ENotImpl.
Proof. split; reflexivity. Qed.

Lemma getitem_node_id st z c n : reg_get z (t_reg st) = Some n -> getitem st (KInt z c) = Ok n.
Proof. intros E. unfold getitem. cbn [key_as_node_id]. rewrite E. reflexivity. Qed.

Lemma idx_has_iff st d : state_wf st -> (idx_has d (t_idx st) = true <-> all_by_did (t_forest st) d <> []).
Proof.
  intros W. pose proof (wf_perm st d W) as P. unfold idx_has, group in *.
  destruct (idx_get d (t_idx st)) as [g|] eqn:G.
  - split; [|reflexivity]. intros _ E. rewrite E in P. apply Permutation_sym, Permutation_nil in P.
    exact (wf_nonempty st W d g G P).
  - split; [discriminate|]. intros H. exfalso. apply H. apply Permutation_nil. exact P.
Qed.

Lemma tfa_did0 st d : tree_find_all st None None (Some d) 0 = Ok (group (t_idx st) d).
Proof. rewrite (tree_find_all_index_eq st None (Some d) d 0 eq_refl). apply f_equal, py_limit_0. Qed.
Lemma tfa_data0 st c : tree_find_all st (Some c) None None 0 = Ok (group (t_idx st) c).
Proof. rewrite (tree_find_all_index_eq st (Some c) None c 0 eq_refl). apply f_equal, py_limit_0. Qed.

Lemma getitem_tail st (k : key) d :
  state_wf st -> (forall c, k <> KNode c) -> node_id_stage st k = None ->
  (match key_as_did k with
   | Some d' => if idx_has d' (t_idx st) then Some d' else key_calc k
   | None => key_calc k
   end) = Some d ->
  getitem st k = classify (all_by_did (t_forest st) d).
Proof.
  intros W Hk Hs Hd. rewrite <- (classify_perm _ _ (wf_perm st d W)).
  unfold node_id_stage in Hs.
  destruct k as [c| |z c|s c|c]; [exfalso; exact (Hk c eq_refl)|discriminate Hd| | |];
    unfold getitem; rewrite ?Hs; cbn [key_as_node_id key_as_did key_calc] in *.
  - destruct (idx_has (DInt z) (t_idx st)); injection Hd as <-;
      rewrite ?tfa_did0, ?tfa_data0;
      destruct (group (t_idx st) _) as [|a [|b l]]; reflexivity.
  - destruct (idx_has (DStr s) (t_idx st)); injection Hd as <-;
      rewrite ?tfa_did0, ?tfa_data0;
      destruct (group (t_idx st) _) as [|a [|b l]]; reflexivity.
  - injection Hd as <-.
    rewrite ?tfa_did0, ?tfa_data0;
      destruct (group (t_idx st) _) as [|a [|b l]]; reflexivity.
Qed.

(* second stage: the key, read as a data_id, names at least one node *)
Lemma getitem_data_id st k d :
  state_wf st -> (forall c, k <> KNode c) -> node_id_stage st k = None ->
  key_as_did k = Some d -> all_by_did (t_forest st) d <> [] ->
  getitem st k = classify (all_by_did (t_forest st) d).
Proof.
  intros W Hk Hs Hd Hne. apply getitem_tail; try assumption.
  rewrite Hd. apply (idx_has_iff st d W) in Hne. rewrite Hne. reflexivity.
Qed.

(* third stage: the key as a data object *)
Lemma getitem_data st k c :
  state_wf st -> (forall c', k <> KNode c') -> node_id_stage st k = None ->
  (forall d, key_as_did k = Some d -> all_by_did (t_forest st) d = []) ->
  key_calc k = Some c ->
  getitem st k = classify (all_by_did (t_forest st) c).
Proof.
  intros W Hk Hs Hd Hc. apply getitem_tail; try assumption.
  destruct (key_as_did k) as [d|]; [|exact Hc].
  destruct (idx_has d (t_idx st)) eqn:E; [|exact Hc].
  apply (idx_has_iff st d W) in E. exfalso. apply E. apply Hd. reflexivity.
Qed.

Lemma find_node_in f n : In n (ids f) -> exists t, find_node n f = Some t /\ rid t = n /\ In t (pre_f f).
Proof.
  intros Hn. unfold ids in Hn. apply in_map_iff in Hn as (t & Ht & Hin).
  unfold find_node. destruct (find (fun t0 => Nat.eqb (rid t0) n) (pre_f f)) as [u|] eqn:F.
  - apply find_some in F as [Hu Hb]. apply Nat.eqb_eq in Hb. exists u. auto.
  - exfalso. pose proof (find_none _ _ F t Hin) as Hb. cbn beta in Hb. rewrite Ht, Nat.eqb_refl in Hb. discriminate.
Qed.

Lemma group_head_in st d a l : state_wf st -> group (t_idx st) d = a :: l -> In a (ids (t_forest st)).
Proof.
  intros W G. apply (all_by_did_incl (t_forest st) d). apply (wf_group st W d). rewrite G. left. reflexivity.
Qed.

Lemma getitem_in_tree st k n : state_wf st -> getitem st k = Ok n -> In n (ids (t_forest st)).
Proof.
  intros W. unfold getitem.
  destruct k as [c| |z c|s c|c]; try discriminate; cbn [key_as_node_id key_as_did key_calc].
  - destruct (reg_get z (t_reg st)) as [m|] eqn:R.
    + intros E. injection E as <-. exact (wf_reg st W z m R).
    + destruct (idx_has (DInt z) (t_idx st));
        rewrite ?tfa_did0, ?tfa_data0;
        (destruct (group (t_idx st) _) as [|a [|b l]] eqn:G; try discriminate;
         intros E; injection E as <-; exact (group_head_in st _ _ _ W G)).
  - destruct (idx_has (DStr s) (t_idx st));
      rewrite ?tfa_did0, ?tfa_data0;
      (destruct (group (t_idx st) _) as [|a [|b l]] eqn:G; try discriminate;
       intros E; injection E as <-; exact (group_head_in st _ _ _ W G)).
  - rewrite ?tfa_did0, ?tfa_data0.
    destruct (group (t_idx st) _) as [|a [|b l]] eqn:G; try discriminate.
    intros E; injection E as <-; exact (group_head_in st _ _ _ W G).
Qed.

Lemma contains_spec st k c :
  state_wf st -> key_calc k = Some c ->
  contains st k = Ok (match all_by_did (t_forest st) c with [] => false | _ => true end).
Proof.
  intros W Hc.
  assert (E : contains st k = res_map (fun o => match o with Some _ => true | None => false end)
                                (tree_find_first st (key_calc k) None None None)).
  { destruct k as [[c'|]| | | |]; try reflexivity. discriminate Hc. }
  rewrite E, Hc. rewrite (tree_find_first_index_eq st (Some c) None c eq_refl). cbn [res_map].
  pose proof (wf_perm st c W) as P.
  destruct (group (t_idx st) c) as [|x g]; cbn [hd_error].
  - apply Permutation_nil in P. rewrite P. reflexivity.
  - destruct (all_by_did (t_forest st) c); [apply Permutation_sym, Permutation_nil in P; discriminate P|reflexivity].
Qed.

Lemma contains_errors st : contains st (KNode None) = Err EType /\ contains st KNone = Err ENotImpl.
Proof. split; reflexivity. Qed.

Lemma delitem_spec st k :
  state_wf st ->
  (forall e, getitem st k = Err e -> delitem st k = Err e) /\
  (forall n, getitem st k = Ok n ->
     exists t, In t (pre_f (t_forest st)) /\ rid t = n /\ delitem st k = Ok (ids_t t)).
Proof.
  intros W. split.
  - intros e E. unfold delitem. rewrite E. reflexivity.
  - intros n E. destruct (find_node_in _ _ (getitem_in_tree st k n W E)) as (t & F & Hr & Hin).
    exists t. refine (conj Hin (conj Hr _)). unfold delitem. rewrite E, F. reflexivity.
Qed.

(* ---- a decision procedure for the well-formedness hypothesis ----------- *)
Definition nat_mem (n : nat) (l : list nat) : bool := existsb (Nat.eqb n) l.
Fixpoint nodup_b (l : list nat) : bool :=
  match l with [] => true | x :: r => negb (nat_mem x r) && nodup_b r end.
Definition same_set_b (a b : list nat) : bool :=
  forallb (fun x => nat_mem x b) a && forallb (fun x => nat_mem x a) b.
Definition group_ok_b (f : forest) (ix : list (did * list nat)) (d : did) : bool :=
  let g := group ix d in
  nodup_b g && same_set_b g (all_by_did f d) && negb (match g with [] => true | _ => false end).
Definition state_wf_b (st : tstate) : bool :=
  let f := t_forest st in
  let ix := t_idx st in
  nodup_b (ids f)
  && forallb (fun e => group_ok_b f ix (fst e)) ix
  && forallb (fun t => idx_has (rdid t) ix) (pre_f f)
  && forallb (fun e => nat_mem (snd e) (ids f)) (t_reg st).

Lemma nat_mem_In n l : nat_mem n l = true <-> In n l.
Proof.
  unfold nat_mem. rewrite existsb_exists. split.
  - intros (x & Hx & E). apply Nat.eqb_eq in E. subst. exact Hx.
  - intros H. exists n. split; [exact H|apply Nat.eqb_refl].
Qed.

Lemma nodup_b_NoDup l : nodup_b l = true -> NoDup l.
Proof.
  induction l as [|x l IH]; intros H; [constructor|].
  cbn [nodup_b] in H. apply andb_true_iff in H as [Hx Hl]. constructor; [|apply IH; exact Hl].
  intros Hin. apply nat_mem_In in Hin. rewrite Hin in Hx. discriminate.
Qed.

Lemma same_set_b_iff a b : same_set_b a b = true -> forall n, In n a <-> In n b.
Proof.
  unfold same_set_b. intros H. apply andb_true_iff in H as [Hab Hba].
  rewrite forallb_forall in Hab, Hba. intros n. split; intros Hn.
  - apply nat_mem_In, Hab, Hn.
  - apply nat_mem_In, Hba, Hn.
Qed.

Lemma idx_get_some d ix g : idx_get d ix = Some g -> In (d, g) ix.
Proof.
  unfold idx_get. destruct (find (fun e => did_eqb (fst e) d) ix) as [[d' g']|] eqn:F; [|discriminate].
  cbn [option_map snd]. intros E. injection E as ->. apply find_some in F as [Hin Hb].
  cbn [fst] in Hb. apply did_eqb_eq in Hb. subst. exact Hin.
Qed.

Lemma state_wf_b_sound st : state_wf_b st = true -> state_wf st.
Proof.
  unfold state_wf_b. intros H.
  apply andb_true_iff in H as [H Hreg]. apply andb_true_iff in H as [H Hcov].
  apply andb_true_iff in H as [Hids Hgrp].
  rewrite forallb_forall in Hgrp, Hcov, Hreg.
  assert (Hg : forall d g, idx_get d (t_idx st) = Some g -> group_ok_b (t_forest st) (t_idx st) d = true).
  { intros d g E. apply idx_get_some in E. exact (Hgrp _ E). }
  constructor.
  - apply nodup_b_NoDup. exact Hids.
  - intros d. destruct (idx_get d (t_idx st)) as [g|] eqn:E.
    + specialize (Hg d g E). unfold group_ok_b in Hg.
      apply andb_true_iff in Hg as [Hg _]. apply andb_true_iff in Hg as [Hn Hs].
      split; [apply nodup_b_NoDup; exact Hn|apply same_set_b_iff; exact Hs].
    + unfold group. rewrite E. split; [constructor|]. intros n. split; [intros []|].
      intros Hn. unfold all_by_did in Hn. apply in_map_iff in Hn as (t & _ & Ht).
      apply filter_In in Ht as [Ht Hd]. unfold did_is in Hd. apply did_eqb_eq in Hd.
      specialize (Hcov t Ht). unfold idx_has in Hcov. rewrite Hd, E in Hcov. discriminate.
  - intros d g E Hnil. specialize (Hg d g E). unfold group_ok_b in Hg.
    apply andb_true_iff in Hg as [_ Hne]. unfold group in Hne. rewrite E, Hnil in Hne. discriminate.
  - intros z n E. unfold reg_get in E.
    destruct (find (fun e => Z.eqb (fst e) z) (t_reg st)) as [[z' n']|] eqn:F; [|discriminate].
    cbn [option_map snd] in E. injection E as ->. apply find_some in F as [Hin _].
    apply nat_mem_In. exact (Hreg _ Hin).
Qed.

(* ---- the relational reading of an ordered search answer ----------------- *)
Definition ordered_answer (p : rt -> bool) (k : nat) (all r : list rt) : Prop :=
  (forall x, In x r -> In x all /\ p x = true) /\
  (k = 0 -> forall x, In x all -> p x = true -> In x r) /\
  subseq r all /\
  (exists rest, filter p all = r ++ rest) /\
  (1 <= k -> r = firstn k (filter p all) /\ length r <= k /\ length r = Nat.min k (length (filter p all))).

Lemma node_find_all_match_props f s ms add_self k r :
  node_find_all (iterator f s) None (Some ms) None add_self k = Ok r ->
  ordered_answer (cb_match ms) k (branch f s add_self) r.
Proof.
  rewrite node_find_all_match. intros E. injection E as <-. apply limited_filter_props.
Qed.

Lemma node_find_all_did_props f s data data_id d add_self k r :
  merge_data data data_id = Ok (Some d) ->
  node_find_all (iterator f s) data None data_id add_self k = Ok r ->
  ordered_answer (did_is d) k (branch f s add_self) r.
Proof.
  intros M. rewrite (node_find_all_did _ _ _ _ _ _ _ M). intros E. injection E as <-. apply limited_filter_props.
Qed.

Lemma merge_data_cases data data_id :
  merge_data data data_id =
    match data, data_id with
    | Some _, Some _ => Err EAssert
    | Some c, None => Ok (Some c)
    | None, d => Ok d
    end.
Proof. destruct data, data_id; reflexivity. Qed.

(* ---- lookups by data object, in terms of data equality -------------------- *)
(* With default data_ids (hash of the data object, no explicit data_id on any
   node) and a hash that separates the equality classes present in the tree,
   the nodes carrying calc_data_id(o) = hash(o) are the nodes whose data
   object equals o. *)
Definition default_ids (f : forest) : Prop :=
  forall t, In t (pre_f f) -> rdid t = DInt (i_hash (rinfo t)).
Definition hash_separates (f : forest) (o_hash o_eqc : Z) : Prop :=
  forall t, In t (pre_f f) -> (i_hash (rinfo t) = o_hash <-> i_eqc (rinfo t) = o_eqc).
Definition data_equals (o_eqc : Z) (t : rt) : bool := Z.eqb (i_eqc (rinfo t)) o_eqc.

Lemma all_by_did_is_data_equality f o_hash o_eqc :
  default_ids f -> hash_separates f o_hash o_eqc ->
  all_by_did f (DInt o_hash) = map rid (filter (data_equals o_eqc) (pre_f f)).
Proof.
  intros Hd Hs. unfold all_by_did. f_equal. apply filter_ext_in'.
  intros t Ht. unfold did_is, data_equals. rewrite (Hd t Ht). cbn [did_eqb].
  destruct (Z.eqb (i_hash (rinfo t)) o_hash) eqn:E1, (Z.eqb (i_eqc (rinfo t)) o_eqc) eqn:E2; try reflexivity.
  - apply Z.eqb_eq in E1. apply (Hs t Ht) in E1. apply Z.eqb_neq in E2. congruence.
  - apply Z.eqb_eq in E2. apply (Hs t Ht) in E2. apply Z.eqb_neq in E1. congruence.
Qed.

Lemma filter_did_is_data_equality f s b o_hash o_eqc :
  default_ids f -> hash_separates f o_hash o_eqc -> incl (branch f s b) (pre_f f) ->
  filter (did_is (DInt o_hash)) (branch f s b) = filter (data_equals o_eqc) (branch f s b).
Proof.
  intros Hd Hs Hi. apply filter_ext_in'. intros t Ht. apply Hi in Ht.
  unfold did_is, data_equals. rewrite (Hd t Ht). cbn [did_eqb].
  destruct (Z.eqb (i_hash (rinfo t)) o_hash) eqn:E1, (Z.eqb (i_eqc (rinfo t)) o_eqc) eqn:E2; try reflexivity.
  - apply Z.eqb_eq in E1. apply (Hs t Ht) in E1. apply Z.eqb_neq in E2. congruence.
  - apply Z.eqb_eq in E2. apply (Hs t Ht) in E2. apply Z.eqb_neq in E1. congruence.
Qed.

(* ---- clone queries --------------------------------------------------------- *)
Lemma Permutation_filter' {X} (p : X -> bool) (a b : list X) :
  Permutation a b -> Permutation (filter p a) (filter p b).
Proof.
  induction 1 as [|x a b H IH|x y a|a b c H1 IH1 H2 IH2]; cbn [filter].
  - constructor.
  - destruct (p x); [constructor|]; exact IH.
  - destruct (p x), (p y); try apply Permutation_refl. apply perm_swap.
  - eapply Permutation_trans; eassumption.
Qed.

Lemma group_of_node st n :
  state_wf st -> In n (pre_f (t_forest st)) ->
  exists g, idx_get (rdid n) (t_idx st) = Some g /\ g = group (t_idx st) (rdid n) /\ In (rid n) g.
Proof.
  intros W Hn.
  assert (Hin : In (rid n) (group (t_idx st) (rdid n))).
  { apply (wf_group st W). unfold all_by_did. apply in_map. apply filter_In. split; [exact Hn|].
    unfold did_is. apply did_eqb_refl. }
  unfold group in *. destruct (idx_get (rdid n) (t_idx st)) as [g|]; [|destruct Hin].
  exists g. auto.
Qed.

Lemma node_is_clone_spec st n :
  state_wf st -> In n (pre_f (t_forest st)) ->
  node_is_clone st n = Ok (Nat.ltb 1 (length (all_by_did (t_forest st) (rdid n)))).
Proof.
  intros W Hn. destruct (group_of_node st n W Hn) as (g & E & Eg & _).
  unfold node_is_clone. rewrite E, Eg, (Permutation_length (wf_perm st (rdid n) W)). reflexivity.
Qed.

Lemma node_get_clones_spec st n add_self :
  state_wf st -> In n (pre_f (t_forest st)) ->
  exists r, node_get_clones st n add_self = Ok r /\
    Permutation r (if add_self then all_by_did (t_forest st) (rdid n)
                   else filter (fun x => negb (Nat.eqb x (rid n))) (all_by_did (t_forest st) (rdid n))) /\
    NoDup r /\ (add_self = false -> ~ In (rid n) r) /\ (add_self = true -> In (rid n) r).
Proof.
  intros W Hn. destruct (group_of_node st n W Hn) as (g & E & Eg & Hin).
  pose proof (wf_perm st (rdid n) W) as P. rewrite <- Eg in P.
  destruct (wf_group st W (rdid n)) as [Hnd _]. rewrite <- Eg in Hnd.
  unfold node_get_clones. rewrite E. eexists. split; [reflexivity|]. destruct add_self.
  - refine (conj P (conj Hnd (conj _ _))); [discriminate|intros _; exact Hin].
  - refine (conj (Permutation_filter' _ _ _ P) (conj _ (conj _ _))).
    + apply NoDup_filter. exact Hnd.
    + intros _ Hx. apply filter_In in Hx as [_ Hb]. rewrite Nat.eqb_refl in Hb. discriminate.
    + discriminate.
Qed.

(* ---- tree[key] as one function of forest and registry (no index) ---------- *)
Definition getitem_spec (f : forest) (reg : list (Z * nat)) (k : key) : res nat :=
  match k with
  | KNode _ => Err EValue
  | KNone => Err ENotImpl
  | _ =>
      match (match key_as_node_id k with Some z => reg_get z reg | None => None end) with
      | Some n => Ok n
      | None =>
          let by_data := match key_calc k with Some c => classify (all_by_did f c) | None => Err ENotImpl end in
          match key_as_did k with
          | Some d => match all_by_did f d with [] => by_data | l => classify l end
          | None => by_data
          end
      end
  end.

Lemma getitem_is_spec st k : state_wf st -> getitem st k = getitem_spec (t_forest st) (t_reg st) k.
Proof.
  intros W. destruct k as [c| |z c|s c|c]; try reflexivity.
  - cbn [getitem_spec key_as_node_id key_as_did key_calc].
    destruct (reg_get z (t_reg st)) as [n|] eqn:R; [apply getitem_node_id; exact R|].
    destruct (all_by_did (t_forest st) (DInt z)) as [|a l] eqn:A.
    + apply (getitem_data st (KInt z c) c W); [discriminate|exact R| |reflexivity].
      intros d E. injection E as <-. exact A.
    + rewrite <- A. apply (getitem_data_id st (KInt z c) (DInt z) W); [discriminate|exact R|reflexivity|].
      rewrite A. discriminate.
  - cbn [getitem_spec key_as_node_id key_as_did key_calc].
    destruct (all_by_did (t_forest st) (DStr s)) as [|a l] eqn:A.
    + apply (getitem_data st (KStr s c) c W); [discriminate|reflexivity| |reflexivity].
      intros d E. injection E as <-. exact A.
    + rewrite <- A. apply (getitem_data_id st (KStr s c) (DStr s) W); [discriminate|reflexivity|reflexivity|].
      rewrite A. discriminate.
  - cbn [getitem_spec key_as_node_id key_as_did key_calc].
    apply (getitem_data st (KObj c) c W); [discriminate|reflexivity|discriminate|reflexivity].
Qed.
