(* C08 — filtering.  Executable model (no proofs here).

   Python sources mirrored (nutree/node.py, with the repairs D05 and D25):
     Node.filter._visit        -> [ip_node] / [ip_children] / [ip_visit]
     Node._add_filtered        -> [af_node] / [af_children] with the
                                  [parent_stack] and [_create_parents]
     Node._add_from (no pred.) -> [copy_t] / [copy_f]
     Tree.filter / Tree.copy(predicate=) / Tree.filtered,
     Node.filter / Node.copy(predicate=) / Node.filtered -> [api_filter] / [api_filtered] /
                                  [api_copy] (optional predicate: ValueError or plain copy),
                                  branch starts through [upd_at] (in place) and the first
                                  allocation index of [add_filtered] (copies)
     nutree.common.call_predicate -> [raw] (what the predicate does: returns / raises),
                                  [call_predicate], and the two chains of tests
                                  [classify_ip] / [classify_cp]
     the calls of the predicate  -> [scan_calls] with the stopped flag of each loop
                                  ([ip_calls] / [af_calls])
   The scans themselves take the predicate as a function from node identities to
   [verdict] (the classified canonical result).

   Specification side (independent of the two mirrors):
     [F_t]/[F_f]  the filter spec as a structural recursion with an explicit
                  "stopped" state threaded in pre-order,
     [reach], [visited], [kept]  the set characterisation of the statement,
     [dbl]        the leaves the copying form adds (defect D24, pinned by the suite). *)
From Coq Require Import List ZArith Bool Arith.
From NT Require Import Sx Rose.
Import ListNotations.

Inductive verdict :=
  | VTrue            (* True *)
  | VFalse           (* False / None *)
  | VSkip            (* SkipBranch(), SkipBranch(and_self=True) *)
  | VSkipKeepSelf    (* SkipBranch(and_self=False) *)
  | VSelect          (* SelectBranch *)
  | VStop.           (* StopTraversal / StopIteration *)

(* What a predicate can do, as far as the quantifier of the property goes:
   return True / False / None or a control instance, raise a control instance
   (a raised control *class* is instantiated by Python without arguments, i.e.
   with the defaults and_self=None / value=None), or raise the builtin
   StopIteration.  [and_self] is the keyword of SkipBranch. *)
Inductive ctl := CSkip (and_self : option bool) | CSelect | CStop.
Inductive raw :=
  | RBool (b : bool) | RNone
  | RRet (c : ctl)
  | RRaise (c : ctl)
  | RRaiseStopIteration.

(* nutree.common.call_predicate: the canonical result *)
Inductive pres := PBool (b : bool) | PNone | PCtl (c : ctl).
Definition call_predicate (r : raw) : pres :=
  match r with
  | RBool b => PBool b
  | RNone => PNone
  | RRet c => PCtl c                  (* res = fn(node) *)
  | RRaise c => PCtl c                (* except IterationControl as e: return e *)
  | RRaiseStopIteration => PCtl CStop (* except StopIteration as e: return StopTraversal(e.value) *)
  end.

Definition skip_verdict (a : option bool) : verdict :=
  match a with Some false => VSkipKeepSelf | _ => VSkip end.   (* res.and_self is False *)

(* the if/elif chain of Node.filter._visit *)
Definition classify_ip (r : pres) : verdict :=
  match r with
  | PNone | PBool false => VFalse            (* res in (None, False) *)
  | PBool true => VTrue                      (* res is True *)
  | PCtl CSelect => VSelect
  | PCtl (CSkip a) => skip_verdict a
  | PCtl CStop => VStop
  end.

(* the if/elif chain of Node._add_filtered._visit (other order of the tests) *)
Definition classify_cp (r : pres) : verdict :=
  match r with
  | PCtl (CSkip a) => skip_verdict a
  | PCtl CStop => VStop
  | PCtl CSelect => VSelect
  | PNone => VFalse
  | PBool b => if b then VTrue else VFalse
  end.

Definition ocons {X} (o : option X) (l : list X) : list X :=
  match o with Some x => x :: l | None => l end.

Definition is_nil {X} (l : list X) : bool := match l with [] => true | _ => false end.

Section WithPredicate.
Variable v : nat -> verdict.
(* how the copying scan re-creates a node from a source node: parent.add_child(n) / parent.add(n)
   WITHOUT a kind argument -- the identity in a plain Tree; in a TypedTree the new node gets the
   default kind instead of the source node's kind (nodes copied by _add_from keep theirs) *)
Variable mk : info -> info.

(* ------------------------------------------------------------------ *)
(* (a) the spec F: [s] = a stop signal was seen earlier in pre-order  *)
Fixpoint F_t (s : bool) (t : rt) {struct t} : option rt * bool :=
  match t with
  | T id i ch =>
      if s then (None, true) else
      let kids :=
        (fix go (l : list rt) (s : bool) {struct l} : list rt * bool :=
           match l with
           | [] => ([], s)
           | x :: xs => let a := F_t s x in
                        let b := go xs (snd a) in
                        (ocons (fst a) (fst b), snd b)
           end) ch false in
      match v id with
      | VStop => (None, true)
      | VSkip => (None, false)
      | VSkipKeepSelf => (Some (T id i []), false)
      | VSelect => (Some (T id i ch), false)
      | VTrue => (Some (T id i (fst kids)), snd kids)
      | VFalse => (if is_nil (fst kids) then None else Some (T id i (fst kids)), snd kids)
      end
  end.

Fixpoint F_f (s : bool) (l : list rt) {struct l} : list rt * bool :=
  match l with
  | [] => ([], s)
  | x :: xs => let a := F_t s x in
               let b := F_f (snd a) xs in
               (ocons (fst a) (fst b), snd b)
  end.

Definition F (f : forest) : forest := fst (F_f false f).

(* ------------------------------------------------------------------ *)
(* (b) the in-place filter, Node.filter._visit (repaired: D05, D25).
   One child [n] of the loop: the (possibly updated) child, whether it was
   appended to [remove_nodes], whether it set [must_keep], the [stopped] flag. *)
Definition remove_ids (rm : list nat) (l : list rt) : list rt :=
  filter (fun c => negb (existsb (Nat.eqb (rid c)) rm)) l.

Fixpoint ip_node (s : bool) (t : rt) {struct t} : rt * bool * bool * bool :=
  match t with
  | T id i ch =>
      if s then (t, true, false, true)            (* stopped: remove_nodes.append(n) *)
      else
      (* _visit(n): the loop over n.children, then the removals *)
      let r :=
        (fix go (l : list rt) (s : bool) {struct l} : list rt * list nat * bool * bool :=
           match l with
           | [] => ([], [], false, s)
           | x :: xs =>
               let a := ip_node s x in
               let b := go xs (snd a) in
               (fst (fst (fst a)) :: fst (fst (fst b)),
                (if snd (fst (fst a)) then rid x :: snd (fst (fst b)) else snd (fst (fst b))),
                snd (fst a) || snd (fst b),
                snd b)
           end) ch false in
      let ch' := remove_ids (snd (fst (fst r))) (fst (fst (fst r))) in
      let mk := snd (fst r) in
      match v id with
      | VFalse => (T id i ch', negb mk, mk, snd r)   (* keep only with a kept descendant *)
      | VTrue => (T id i ch', false, true, snd r)
      | VSelect => (t, false, true, false)
      | VSkipKeepSelf => (T id i [], false, true, false)   (* n.remove_children() *)
      | VSkip => (t, true, false, false)
      | VStop => (t, true, false, true)
      end
  end.

Fixpoint ip_children (s : bool) (l : list rt) {struct l} : list rt * list nat * bool * bool :=
  match l with
  | [] => ([], [], false, s)
  | x :: xs =>
      let a := ip_node s x in
      let b := ip_children (snd a) xs in
      (fst (fst (fst a)) :: fst (fst (fst b)),
       (if snd (fst (fst a)) then rid x :: snd (fst (fst b)) else snd (fst (fst b))),
       snd (fst a) || snd (fst b),
       snd b)
  end.

(* _visit(parent) on the child list of [parent]: new child list, must_keep, stopped *)
Definition ip_visit (s : bool) (l : list rt) : list rt * bool * bool :=
  let r := ip_children s l in
  (remove_ids (snd (fst (fst r))) (fst (fst (fst r))), snd (fst r), snd r).

Definition filter_inplace (f : forest) : forest := fst (fst (ip_visit false f)).

(* ------------------------------------------------------------------ *)
(* (c) the copying form.  The target tree under construction is its open
   right spine: one [frame] per entry of the Python [parent_stack]
   (head = top of the stack).  [Existing] = (True, node of the new tree) with
   the children added so far (latest first); [Virtual] = (False, source node).
   A new node gets the next allocation index.  Closing a frame appends the
   finished node to the frame below (in Python it was appended when created;
   nothing else can be appended to that parent in between, because every
   add goes to the top-most existing frame). *)
Inductive frame :=
  | Existing (id : nat) (i : info) (rev_children : list rt)
  | Virtual (src : rt).

(* _create_parents(): materialise every virtual entry, bottom first *)
Fixpoint materialise (stk : list frame) (nx : nat) : list frame * nat :=
  match stk with
  | [] => ([], nx)
  | fr :: below =>
      let r := materialise below nx in
      match fr with
      | Existing _ _ _ => (fr :: fst r, snd r)
      | Virtual src => (Existing (snd r) (mk (rinfo src)) [] :: fst r, S (snd r))
      end
  end.

(* p.add_child(c) for the top-most (existing) frame p *)
Definition add_top (c : rt) (stk : list frame) : list frame :=
  match stk with
  | Existing id i rc :: below => Existing id i (c :: rc) :: below
  | _ => stk
  end.

Definition add_tops (cs : list rt) (stk : list frame) : list frame :=
  fold_left (fun st c => add_top c st) cs stk.

(* parent_stack.pop() *)
Definition pop (stk : list frame) : list frame :=
  match stk with
  | [] => []
  | Virtual _ :: below => below
  | Existing id i rc :: below => add_top (T id i (rev rc)) below
  end.

(* _add_from without predicate: copies of all descendants, pre-order allocation *)
Fixpoint copy_t (t : rt) (nx : nat) {struct t} : rt * nat :=
  match t with
  | T _ i ch =>
      let r :=
        (fix go (l : list rt) (nx : nat) {struct l} : list rt * nat :=
           match l with
           | [] => ([], nx)
           | x :: xs => let a := copy_t x nx in
                        let b := go xs (snd a) in
                        (fst a :: fst b, snd b)
           end) ch (S nx) in
      (T nx i (fst r), snd r)
  end.

Fixpoint copy_f (l : list rt) (nx : nat) {struct l} : list rt * nat :=
  match l with
  | [] => ([], nx)
  | x :: xs => let a := copy_t x nx in
               let b := copy_f xs (snd a) in
               (fst a :: fst b, snd b)
  end.

(* one iteration of the loop in _add_filtered._visit; state = (stack, next id, stopped) *)
Definition afst := (list frame * nat * bool)%type.

Fixpoint af_node (t : rt) (st : afst) {struct t} : afst :=
  match t with
  | T id i ch =>
      let stk := fst (fst st) in
      let nx := snd (fst st) in
      if snd st then st                             (* StopTraversal propagates *)
      else
      let stk1 := Virtual (T id i ch) :: stk in   (* parent_stack.append((False, n)) *)
      let visit :=
        (fix go (l : list rt) (st : afst) {struct l} : afst :=
           match l with
           | [] => st
           | x :: xs => go xs (af_node x st)
           end) ch in
      match v id with
      | VSkipKeepSelf =>
          let m := materialise stk1 nx in
          (pop (add_top (T (snd m) (mk i) []) (fst m)), S (snd m), false)
      | VStop => (pop stk1, nx, true)
      | VSelect =>
          let m := materialise stk1 nx in
          let c := copy_f ch (snd m) in
          (pop (add_tops (fst c) (fst m)), snd c, false)
      | VFalse =>
          let r := visit (stk1, nx, false) in
          (pop (fst (fst r)), snd (fst r), snd r)
      | VTrue =>
          let m := materialise stk1 nx in
          let r := visit (add_top (T (snd m) (mk i) []) (fst m), S (snd m), false) in
          (pop (fst (fst r)), snd (fst r), snd r)
      | VSkip => (pop stk1, nx, false)
      end
  end.

Fixpoint af_children (l : list rt) (st : afst) {struct l} : afst :=
  match l with
  | [] => st
  | x :: xs => af_children xs (af_node x st)
  end.

(* target._add_filtered(other, predicate) where the target node is new and
   empty; result = the children it received, and the next allocation index *)
Definition add_filtered (f : forest) (nx : nat) : forest * nat :=
  let r := af_children f ([Existing 0 (I 0 0 0 false [] (DInt 0) None []) []], nx, false) in
  match fst (fst r) with
  | [Existing _ _ rc] => (rev rc, snd (fst r))
  | _ => ([], snd (fst r))
  end.

(* Tree.copy(predicate=) / Tree.filtered: new ids start at 1 *)
Definition filtered (f : forest) : forest := fst (add_filtered f 1).

(* ------------------------------------------------------------------ *)
(* (c'') the two scans once more, line by line the same, with every call of the
   predicate written to a log at the place where the Python loop calls
   call_predicate(predicate, n).  These are the functions the correspondence
   evaluates ([run08]); FilterTrace.v proves that forgetting the log gives
   [ip_node] / [af_node] back and that the log is the spec's call list. *)
Definition ipres := (rt * bool * bool * bool)%type.

Fixpoint ip_node_tr (s : bool) (t : rt) {struct t} : ipres * list nat :=
  match t with
  | T id i ch =>
      if s then ((t, true, false, true), [])      (* stopped: no call *)
      else
      let r :=
        (fix go (l : list rt) (s : bool) {struct l} : (list rt * list nat * bool * bool) * list nat :=
           match l with
           | [] => (([], [], false, s), [])
           | x :: xs =>
               let a := ip_node_tr s x in
               let b := go xs (snd (fst a)) in
               ((fst (fst (fst (fst a))) :: fst (fst (fst (fst b))),
                 (if snd (fst (fst (fst a))) then rid x :: snd (fst (fst (fst b))) else snd (fst (fst (fst b)))),
                 snd (fst (fst a)) || snd (fst (fst b)),
                 snd (fst b)),
                snd a ++ snd b)
           end) ch false in
      let ch' := remove_ids (snd (fst (fst (fst r)))) (fst (fst (fst (fst r)))) in
      let mkp := snd (fst (fst r)) in
      (* res = call_predicate(predicate, n): logged; _visit(n) only in the first two arms *)
      match v id with
      | VFalse => ((T id i ch', negb mkp, mkp, snd (fst r)), id :: snd r)
      | VTrue => ((T id i ch', false, true, snd (fst r)), id :: snd r)
      | VSelect => ((t, false, true, false), [id])
      | VSkipKeepSelf => ((T id i [], false, true, false), [id])
      | VSkip => ((t, true, false, false), [id])
      | VStop => ((t, true, false, true), [id])
      end
  end.

Fixpoint ip_children_tr (s : bool) (l : list rt) {struct l} : (list rt * list nat * bool * bool) * list nat :=
  match l with
  | [] => (([], [], false, s), [])
  | x :: xs =>
      let a := ip_node_tr s x in
      let b := ip_children_tr (snd (fst a)) xs in
      ((fst (fst (fst (fst a))) :: fst (fst (fst (fst b))),
        (if snd (fst (fst (fst a))) then rid x :: snd (fst (fst (fst b))) else snd (fst (fst (fst b)))),
        snd (fst (fst a)) || snd (fst (fst b)),
        snd (fst b)),
       snd a ++ snd b)
  end.

(* Node.filter on a child list: (new child list, log of the predicate calls) *)
Definition filter_inplace_tr (f : forest) : forest * list nat :=
  let r := ip_children_tr false f in
  (remove_ids (snd (fst (fst (fst r)))) (fst (fst (fst (fst r)))), snd r).

(* the copying scan: the log is part of the loop state *)
Fixpoint af_node_tr (t : rt) (sl : afst * list nat) {struct t} : afst * list nat :=
  match t with
  | T id i ch =>
      let st := fst sl in
      let stk := fst (fst st) in
      let nx := snd (fst st) in
      if snd st then sl                             (* StopTraversal propagates: no call *)
      else
      let stk1 := Virtual (T id i ch) :: stk in   (* parent_stack.append((False, n)) *)
      let lg := snd sl ++ [id] in                  (* res = call_predicate(predicate, n) *)
      let visit :=
        (fix go (l : list rt) (sl : afst * list nat) {struct l} : afst * list nat :=
           match l with
           | [] => sl
           | x :: xs => go xs (af_node_tr x sl)
           end) ch in
      match v id with
      | VSkipKeepSelf =>
          let m := materialise stk1 nx in
          ((pop (add_top (T (snd m) (mk i) []) (fst m)), S (snd m), false), lg)
      | VStop => ((pop stk1, nx, true), lg)
      | VSelect =>
          let m := materialise stk1 nx in
          let c := copy_f ch (snd m) in
          ((pop (add_tops (fst c) (fst m)), snd c, false), lg)
      | VFalse =>
          let r := visit ((stk1, nx, false), lg) in
          ((pop (fst (fst (fst r))), snd (fst (fst r)), snd (fst r)), snd r)
      | VTrue =>
          let m := materialise stk1 nx in
          let r := visit ((add_top (T (snd m) (mk i) []) (fst m), S (snd m), false), lg) in
          ((pop (fst (fst (fst r))), snd (fst (fst r)), snd (fst r)), snd r)
      | VSkip => ((pop stk1, nx, false), lg)
      end
  end.

Fixpoint af_children_tr (l : list rt) (sl : afst * list nat) {struct l} : afst * list nat :=
  match l with
  | [] => sl
  | x :: xs => af_children_tr xs (af_node_tr x sl)
  end.

(* target._add_filtered(other, predicate): (children received, next allocation index, log) *)
Definition add_filtered_tr (f : forest) (nx : nat) : forest * nat * list nat :=
  let r := af_children_tr f (([Existing 0 (I 0 0 0 false [] (DInt 0) None []) []], nx, false), []) in
  match fst (fst (fst r)) with
  | [Existing _ _ rc] => (rev rc, snd (fst (fst r)), snd r)
  | _ => ([], snd (fst (fst r)), snd r)
  end.

End WithPredicate.

(* the public entry points with an optional predicate:
   Tree.filter / Tree.filtered / Node.filter / Node.filtered raise ValueError
   ("Predicate is required (use copy() instead)") without one;
   Tree.copy / Node.copy fall back to the plain copy of _add_from *)
Inductive outcome (X : Type) := Ok (x : X) | EValue | EUnique.
Arguments Ok {X} x.
Arguments EValue {X}.
Arguments EUnique {X}.

(* Node.add_child refuses a second child with one data_id (UniqueConstraintError).
   The scan of the copying form adds every node of its result by add_child, and
   the only thing observable after a refusal is the error, so: the copying form
   fails iff the tree it would build has two siblings with one data_id.  (With
   the D24 leaves this happens on legal inputs: an accepted node with a kept
   child that carries the node's own data.) *)
Fixpoint did_dup (l : list rt) : bool :=
  match l with
  | [] => false
  | x :: r => existsb (fun y => did_eqb (rdid x) (rdid y)) r || did_dup r
  end.
Fixpoint sib_dup_t (t : rt) : bool := match t with T _ _ ch => did_dup ch || existsb sib_dup_t ch end.
Definition sib_dup (f : forest) : bool := did_dup f || existsb sib_dup_t f.
Definition copy_result (g : forest) : outcome forest := if sib_dup g then EUnique else Ok g.

Definition api_filter (p : option (nat -> verdict)) (f : forest) : outcome forest :=
  match p with None => EValue | Some v => Ok (filter_inplace v f) end.
Definition api_filtered (mk : info -> info) (p : option (nat -> verdict)) (f : forest) (nx : nat) : outcome forest :=
  match p with None => EValue | Some v => copy_result (fst (add_filtered v mk f nx)) end.
Definition api_copy (mk : info -> info) (p : option (nat -> verdict)) (f : forest) (nx : nat) : outcome forest :=
  match p with None => copy_result (fst (copy_f f nx)) | Some v => copy_result (fst (add_filtered v mk f nx)) end.

Section WithPredicate2.
Variable v : nat -> verdict.
Variable mk : info -> info.

(* ------------------------------------------------------------------ *)
(* (c') the calls of the predicate made by the two scans, in order.  Both
   loops have the same skeleton: no call once stopped, one call per child,
   descend only after True / False(None); [after s x] is the stopped flag
   the loop holds after the iteration for child [x]. *)
Definition opens (x : verdict) : bool :=        (* the children are scanned *)
  match x with VTrue | VFalse => true | _ => false end.

Fixpoint scan_calls (after : bool -> rt -> bool) (s : bool) (t : rt) {struct t} : list nat :=
  match t with
  | T id i ch =>
      if s then [] else
      id :: (if opens (v id) then
               (fix go (l : list rt) (s : bool) {struct l} : list nat :=
                  match l with
                  | [] => []
                  | x :: xs => scan_calls after s x ++ go xs (after s x)
                  end) ch false
             else [])
  end.

Fixpoint scan_calls_f (after : bool -> rt -> bool) (s : bool) (l : list rt) {struct l} : list nat :=
  match l with
  | [] => []
  | x :: xs => scan_calls after s x ++ scan_calls_f after (after s x) xs
  end.

Definition ip_calls (f : forest) : list nat :=
  scan_calls_f (fun s x => snd (ip_node v s x)) false f.
Definition af_calls (f : forest) : list nat :=
  scan_calls_f (fun s x => snd (af_node v mk x ([], 0, s))) false f.

(* ------------------------------------------------------------------ *)
(* (d) set characterisation *)
Definition accepts (x : verdict) : bool :=
  match x with VTrue | VSkipKeepSelf | VSelect => true | _ => false end.
Definition is_stop (x : verdict) : bool := match x with VStop => true | _ => false end.
Definition is_select (x : verdict) : bool := match x with VSelect => true | _ => false end.

(* nodes without a proper ancestor answered skip/select (or stop), pre-order *)
Fixpoint reach_t (t : rt) : list nat :=
  match t with T id _ ch => id :: (if opens (v id) then flat_map reach_t ch else []) end.
Definition reach (f : forest) : list nat := flat_map reach_t f.

Fixpoint before_stop (l : list nat) : list nat :=
  match l with
  | [] => []
  | n :: r => if is_stop (v n) then [] else n :: before_stop r
  end.

(* the nodes on which the predicate is called and does not answer stop *)
Definition visited (f : forest) : list nat := before_stop (reach f).

(* every call of the predicate, in order (the stopping call included) *)
Fixpoint upto_stop (l : list nat) : list nat :=
  match l with
  | [] => []
  | n :: r => if is_stop (v n) then [n] else n :: upto_stop r
  end.
Definition calls (f : forest) : list nat := upto_stop (reach f).

Definition kept (f : forest) (n : nat) : Prop :=
  exists t, In t (pre_f f) /\ In (rid t) (visited f) /\ accepts (v (rid t)) = true /\
    (   n = rid t                                                   (* accepted and visited *)
     \/ (exists p, In p (pre_f f) /\ rid p = n /\ In t (pre_f (rch p)))   (* an ancestor of such a node *)
     \/ (v (rid t) = VSelect /\ In n (ids (rch t)))).               (* below a select-branch answer *)

(* executable version of [kept] (used for the non-vacuity example) *)
Definition keptb (f : forest) (n : nat) : bool :=
  existsb (fun t =>
     existsb (Nat.eqb (rid t)) (visited f) && accepts (v (rid t)) &&
     (Nat.eqb n (rid t)
      || existsb (fun p => Nat.eqb (rid p) n && existsb (fun d => Nat.eqb (rid d) (rid t)) (pre_f (rch p))) (pre_f f)
      || (is_select (v (rid t)) && existsb (Nat.eqb n) (ids (rch t))))) (pre_f f).

(* D24: what the copying form adds to F: every visited node answered True or
   SkipBranch(and_self=False) receives a leaf copy of itself as first child.
   (Applied to the output of F: nodes below a select answer were not visited.) *)
Fixpoint dbl_t (t : rt) : rt :=
  match t with
  | T id i ch =>
      match v id with
      | VSelect => T id (mk i) ch               (* the node re-created by the scan, its branch copied by _add_from *)
      | VTrue | VSkipKeepSelf => T id (mk i) (T id (mk i) [] :: map dbl_t ch)
      | _ => T id (mk i) (map dbl_t ch)
      end
  end.
Definition dbl (f : forest) : forest := map dbl_t f.

End WithPredicate2.

(* equality modulo node identity: same data objects, data ids, shape, order *)
Fixpoint erase (t : rt) : rt := match t with T _ i ch => T 0 i (map erase ch) end.
Definition same_modulo_ids (a b : forest) : Prop := map erase a = map erase b.

(* order- and ancestry-preserving sub-forest: obtained by deleting branches *)
Inductive emb : forest -> forest -> Prop :=
  | emb_nil : forall b, emb [] b
  | emb_drop : forall a t b, emb a b -> emb a (t :: b)
  | emb_keep : forall id i ch' ch a b, emb ch' ch -> emb a b -> emb (T id i ch' :: a) (T id i ch :: b).

Inductive sublist {X} : list X -> list X -> Prop :=
  | sub_nil : forall b, sublist [] b
  | sub_drop : forall a x b, sublist a b -> sublist a (x :: b)
  | sub_keep : forall x a b, sublist a b -> sublist (x :: a) (x :: b).

(* [c] is a child of [p] in [f] *)
Definition child_in (f : forest) (p c : nat) : Prop :=
  exists t, In t (pre_f f) /\ rid t = p /\ In c (map rid (rch t)).

(* ------------------------------------------------------------------ *)
(* branch starts: apply a forest transformer to the children of node [n] *)
Fixpoint upd_at (n : nat) (g : forest -> forest) (t : rt) {struct t} : rt :=
  match t with
  | T id i ch => if Nat.eqb id n then T id i (g ch) else T id i (map (upd_at n g) ch)
  end.
