(* The described tree is iso to the source tree; the uniqueness side condition of the
   reader follows from the source's sibling uniqueness when ids are stable. *)
From Coq Require Import List ZArith Bool Arith Lia Permutation.
From NT Require Import Sx Rose ListFacts RoseFacts Serialize SerializeSpec SerDictFacts SerCompressProofs
     SerLayFacts SerWriterProofs SerReaderProofs SerUnflatProofs.
Import ListNotations.

(* what save/load is required to reproduce of a node: str-ness and text of the data,
   data_id, kind; shape and order are kept by the recursion *)
Definition obs_info (i : info) : info := I 0 0 0 (i_isstr i) (i_name i) (i_did i) (i_kind i) [].
Fixpoint erase (t : rt) : rt := match t with T _ i ch => T 0 (obs_info i) (map erase ch) end.
Definition iso (f f' : forest) : Prop := map erase f = map erase f'.

Lemma erase_unfold t : erase t = T 0 (obs_info (rinfo t)) (map erase (rch t)).
Proof. destruct t; reflexivity. Qed.

Lemma pre_erase : forall t, map rdid (pre (erase t)) = map rdid (pre t).
Proof.
  induction t as [id i ch IH] using rt_ind'. cbn [erase pre map]. f_equal.
  induction ch as [|c ch IHc]; [reflexivity|]. inversion IH as [|? ? Hc Hch]; subst.
  cbn [map flat_map]. rewrite !map_app, Hc, IHc; auto.
Qed.

(* iso trees have the same data_ids in pre-order, hence the same clone partition *)
Lemma iso_dids f f' : iso f f' -> map rdid (pre_f f) = map rdid (pre_f f').
Proof.
  unfold iso. revert f'. induction f as [|t f IH]; intros [|t' f'] E; try discriminate; [reflexivity|].
  cbn [map] in E. injection E as Et Ef. cbn [flat_map]. rewrite !map_app, (IH f' Ef). f_equal.
  rewrite <- (pre_erase t), <- (pre_erase t'), Et. reflexivity.
Qed.

(* ---- relabel with the right payloads erases to the source *)
Lemma erase_relabel infos : forall t pp p,
  (forall q, In q (lay pp p t) -> obs_info (infos (q_pos q)) = obs_info (rinfo (q_node q))) ->
  erase (relabel infos p t) = erase t.
Proof.
  induction t as [id i ch IH] using rt_ind'. intros pp p H. rewrite relabel_unfold, lay_unfold in *. cbn [rch] in *.
  cbn [erase]. f_equal.
  - apply (H (pp, p, T id i ch)). now left.
  - assert (H' : forall q, In q (lay_f p (S p) ch) -> obs_info (infos (q_pos q)) = obs_info (rinfo (q_node q))).
    { intros q Hq. apply H. now right. }
    clear H. revert H'. generalize (S p) as p0. induction ch as [|c ch IHc]; intros p0 H'; [reflexivity|].
    inversion IH as [|? ? Hc Hch]; subst. cbn [relabel_f map lay_f] in *. f_equal.
    + apply (Hc p p0). intros q Hq. apply H'. apply in_or_app. now left.
    + apply IHc; [exact Hch|]. intros q Hq. apply H'. apply in_or_app. now right.
Qed.

Lemma erase_relabel_f infos : forall g pp p0,
  (forall q, In q (lay_f pp p0 g) -> obs_info (infos (q_pos q)) = obs_info (rinfo (q_node q))) ->
  map erase (relabel_f infos p0 g) = map erase g.
Proof.
  induction g as [|c g IH]; intros pp p0 H; [reflexivity|]. cbn [relabel_f map lay_f] in *. f_equal.
  - apply (erase_relabel infos c pp p0). intros q Hq. apply H. apply in_or_app. now left.
  - apply (IH pp). intros q Hq. apply H. apply in_or_app. now right.
Qed.

(* ---- uniqueness of (parent position, data_id) from sibling uniqueness *)
Definition sib_unique (f : forest) : Prop :=
  NoDup (map rdid f) /\ forall t, In t (pre_f f) -> NoDup (map rdid (rch t)).

Definition pardid (q : nat * nat * rt) : nat * did := (q_ppos q, rdid (q_node q)).

Lemma lay_ppos_root t pp p q : In q (lay pp p t) -> q_ppos q = pp -> pp < p -> q = (pp, p, t).
Proof.
  rewrite lay_unfold. intros [<-|Hq] Hp Hlt; [reflexivity|].
  destruct (lay_f_range (rch t) p (S p) q Hq) as [_ [H|H]]; lia.
Qed.
Lemma lay_f_ppos_root : forall g pp p0 q, In q (lay_f pp p0 g) -> q_ppos q = pp -> pp < p0 -> In (q_node q) g.
Proof.
  induction g as [|c g IH]; intros pp p0 q Hq Hp Hlt; [contradiction|]. cbn [lay_f] in Hq. apply in_app_or in Hq as [Hq|Hq].
  - rewrite (lay_ppos_root c pp p0 q Hq Hp Hlt). now left.
  - right. apply (IH pp (p0 + size c) q Hq Hp). lia.
Qed.

Lemma lay_pardid_nodup : forall t pp p, pp < p ->
  (forall x, In x (pre t) -> NoDup (map rdid (rch x))) -> NoDup (map pardid (lay pp p t)).
Proof.
  induction t as [id i ch IH] using rt_ind'. intros pp p Hlt Hs. rewrite lay_unfold. cbn [map rch].
  assert (Hch : NoDup (map rdid ch)) by (apply (Hs (T id i ch)); apply pre_in_self).
  assert (Hs' : forall c, In c ch -> forall x, In x (pre c) -> NoDup (map rdid (rch x))).
  { intros c Hc x Hx. apply Hs. cbn [pre]. right. apply in_flat_map. eauto. }
  constructor.
  - intros Hi. apply in_map_iff in Hi as (q & Eq & Hq). unfold pardid in Eq. cbn in Eq. injection Eq as Ep _.
    destruct (lay_f_range ch p (S p) q Hq) as [_ [H|H]]; lia.
  - clear Hs. assert (Hlt' : p < S p) by lia. revert Hlt'. generalize (S p) as p0. generalize p as pp0.
    induction ch as [|c ch IHc]; intros pp0 p0 Hlt'; [constructor|].
    inversion IH as [|? ? Hc Hrest]; subst. cbn [lay_f map] in *. rewrite map_app.
    inversion Hch as [|? ? Hcn Hchn]; subst.
    apply NoDup_app_intro.
    + apply Hc; [exact Hlt'|]. apply Hs'. now left.
    + apply IHc; auto. intros c' Hc'. apply Hs'. now right. lia.
    + intros [a d] H1 H2. apply in_map_iff in H1 as (q1 & E1 & Hq1). apply in_map_iff in H2 as (q2 & E2 & Hq2).
      unfold pardid in E1, E2. injection E1 as Ea1 Ed1. injection E2 as Ea2 Ed2.
      destruct (lay_range c pp0 p0 q1 Hq1) as [Hr1 Hp1].
      destruct (lay_f_range ch pp0 (p0 + size c) q2 Hq2) as [Hr2 Hp2].
      destruct Hp1 as [[Hp1 _]|Hp1].
      * (* q1 is the root c *)
        rewrite (lay_ppos_root c pp0 p0 q1 Hq1 Hp1 Hlt') in Ed1. cbn in Ed1.
        assert (Hq2p : q_ppos q2 = pp0) by lia.
        assert (Hin : In (q_node q2) ch) by (apply (lay_f_ppos_root ch pp0 (p0 + size c) q2 Hq2 Hq2p); lia).
        apply Hcn. rewrite Ed1, <- Ed2. now apply in_map.
      * destruct Hp2 as [Hp2|Hp2]; lia.
Qed.

Lemma lay_f_pardid_nodup : forall g pp p0, pp < p0 -> NoDup (map rdid g) ->
  (forall x, In x (pre_f g) -> NoDup (map rdid (rch x))) -> NoDup (map pardid (lay_f pp p0 g)).
Proof.
  induction g as [|c g IH]; intros pp p0 Hlt Hn Hs; [constructor|]. cbn [lay_f map] in *. rewrite map_app.
  inversion Hn as [|? ? Hcn Hgn]; subst. apply NoDup_app_intro.
  - apply lay_pardid_nodup; [exact Hlt|]. intros x Hx. apply Hs. cbn [flat_map]. apply in_or_app. now left.
  - apply IH; [lia|exact Hgn|]. intros x Hx. apply Hs. cbn [flat_map]. apply in_or_app. now right.
  - intros [a d] H1 H2. apply in_map_iff in H1 as (q1 & E1 & Hq1). apply in_map_iff in H2 as (q2 & E2 & Hq2).
    unfold pardid in E1, E2. injection E1 as Ea1 Ed1. injection E2 as Ea2 Ed2.
    destruct (lay_range c pp p0 q1 Hq1) as [Hr1 Hp1].
    destruct (lay_f_range g pp (p0 + size c) q2 Hq2) as [Hr2 Hp2].
    destruct Hp1 as [[Hp1 _]|Hp1].
    + rewrite (lay_ppos_root c pp p0 q1 Hq1 Hp1 Hlt) in Ed1. cbn in Ed1.
      assert (Hq2p : q_ppos q2 = pp) by lia.
      assert (Hin : In (q_node q2) g) by (apply (lay_f_ppos_root g pp (p0 + size c) q2 Hq2 Hq2p); lia).
      apply Hcn. rewrite Ed1, <- Ed2. now apply in_map.
    + destruct Hp2 as [Hp2|Hp2]; lia.
Qed.

Section Described.
  Variable c : cls.
  Variable ser : info -> dict -> dict.
  Variable deser : nat -> dict -> res dval.
  Variable shash : text -> Z.
  Variable f : forest.

  Let L := lay_f 0 1 f.
  Notation RB := (rb_info c ser deser shash).

  (* rebuilt data_ids are the stored ones *)
  Definition ids_stable : Prop := forall p t, In t (pre_f f) -> i_did (RB p t) = rdid t.
  (* ... in primitive terms: the hash of a str is a function of its text, and the
     mapper rebuilds objects whose default id (hash) is the stored node's *)
  Definition id_stable : Prop :=
    (forall t, In t (pre_f f) -> bare_str c (rinfo t) = true -> shash (i_name (rinfo t)) = i_hash (rinfo t)) /\
    (forall p t, In t (pre_f f) -> bare_str c (rinfo t) = false -> custom_id (rinfo t) = false ->
                 dv_hash (dv_or (deser p (ser (rinfo t) (entry_dict c (rinfo t))))) = i_hash (rinfo t)).

  Lemma custom_id_false i : custom_id i = false -> i_did i = DInt (i_hash i).
  Proof. unfold custom_id. intros H. apply negb_false_iff in H. now apply did_eqb_eq in H. Qed.

  Lemma id_stable_ids_stable : id_stable -> ids_stable.
  Proof.
    intros [Hs Ho] p t Ht. unfold rb_info, rdid. destruct (bare_str c (rinfo t)) eqn:Eb.
    - cbn [i_did]. rewrite (Hs t Ht Eb). symmetry. apply custom_id_false.
      unfold bare_str in Eb. apply andb_true_iff in Eb as [_ Eb]. now apply negb_true_iff in Eb.
    - cbn [i_did]. destruct (custom_id (rinfo t)) eqn:Ec; [reflexivity|].
      rewrite (Ho p t Ht Eb Ec). symmetry. now apply custom_id_false.
  Qed.

  Lemma src_of_in prev p t : (forall e, In e prev -> In (snd e) (pre_f f)) -> In t (pre_f f) ->
    In (snd (src_of prev p t)) (pre_f f) /\ rdid (snd (src_of prev p t)) = rdid t.
  Proof.
    intros Hp Ht. unfold src_of. destruct (first_same (rdid t) prev) as [[j x]|] eqn:Ef; [|auto].
    destruct (kind_eqb (rkind t) (rkind x)); [|auto]. destruct (first_same_in _ _ _ _ Ef) as [Hi Hd].
    cbn [snd]. split; [apply (Hp (j, x) Hi)|exact Hd].
  Qed.

  Lemma DN_pardid : ids_stable -> forall l prev,
    (forall e, In e prev -> In (snd e) (pre_f f)) -> (forall q, In q l -> In (q_node q) (pre_f f)) ->
    map (fun e => (ln_par e, i_did (ln_info e))) (described_nodes c ser deser shash prev l) = map pardid l.
  Proof.
    intros Hst. induction l as [|[[ppos pos] t] l IH]; intros prev Hp Hl; [reflexivity|].
    cbn [described_nodes map]. f_equal.
    - unfold pardid. cbn [ln_par ln_info fst snd q_ppos q_node]. f_equal.
      assert (Ht : In t (pre_f f)) by (apply (Hl (ppos, pos, t)); now left).
      destruct (src_of_in prev pos t Hp Ht) as [Hs Hd]. rewrite (Hst _ _ Hs). exact Hd.
    - apply IH.
      + intros e He. apply in_app_or in He as [He|[<-|[]]]; [auto|]. apply (Hl (ppos, pos, t)). now left.
      + intros q Hq. apply Hl. now right.
  Qed.

  Theorem described_unique_of_source : ids_stable -> sib_unique f -> described_unique c ser deser shash f.
  Proof.
    intros Hst [Hn Hs]. unfold described_unique. rewrite (DN_pardid Hst).
    - apply lay_f_pardid_nodup; [lia|exact Hn|exact Hs].
    - intros e [].
    - intros q Hq. rewrite <- (lay_f_nodes f 0 1). now apply in_map.
  Qed.

  (* ---- iso *)
  (* the mapper rebuilds str-ness and text of the data *)
  Definition mapper_rebuilds : Prop := forall p t, In t (pre_f f) -> bare_str c (rinfo t) = false ->
    let dv := dv_or (deser p (ser (rinfo t) (entry_dict c (rinfo t)))) in
    dv_isstr dv = i_isstr (rinfo t) /\ dv_name dv = i_name (rinfo t).
  (* nodes of a TypedTree have a kind, nodes of a plain Tree have none *)
  Definition kinds_ok : Prop := forall t, In t (pre_f f) ->
    if is_typed c then rkind t <> None else rkind t = None.
  (* nodes sharing a data_id carry the same data (what "clone" means) *)
  Definition clones_consistent : Prop := forall x y, In x (pre_f f) -> In y (pre_f f) -> rdid x = rdid y ->
    i_isstr (rinfo x) = i_isstr (rinfo y) /\ i_name (rinfo x) = i_name (rinfo y).

  Lemma obs_rb p t : ids_stable -> mapper_rebuilds -> kinds_ok -> In t (pre_f f) ->
    obs_info (RB p t) = obs_info (rinfo t).
  Proof.
    intros Hst Hmr Hk Ht. pose proof (Hst p t Ht) as Hd. pose proof (Hk t Ht) as Hkt.
    unfold rb_info in *. unfold rdid, rkind in *. destruct (bare_str c (rinfo t)) eqn:Eb.
    - unfold bare_str in Eb. apply andb_true_iff in Eb as [Eb _]. apply andb_true_iff in Eb as [Ety Estr].
      apply negb_true_iff in Ety. rewrite Ety in Hkt. unfold obs_info. cbn [i_isstr i_name i_did i_kind] in *.
      unfold default_kind. rewrite Ety, Estr, Hd, Hkt. reflexivity.
    - destruct (Hmr p t Ht Eb) as [H1 H2]. cbn zeta in *. unfold obs_info. cbn [i_isstr i_name i_did i_kind] in *.
      rewrite H1, H2, Hd. f_equal. destruct (is_typed c).
      + destruct (i_kind (rinfo t)); [reflexivity|contradiction].
      + now rewrite Hkt.
  Qed.

  Theorem described_iso : ids_stable -> mapper_rebuilds -> kinds_ok -> clones_consistent ->
    iso f (described c ser deser shash f).
  Proof.
    intros Hst Hmr Hk Hcc. unfold iso, described. symmetry. apply (erase_relabel_f _ f 0 1).
    fold L. intros q Hq.
    apply in_split in Hq as (A & B & E).
    set (es := described_nodes c ser deser shash [] L).
    assert (Hnd : NoDup (map ln_idx es)).
    { unfold es. rewrite (DN_idx c ser deser shash). unfold L. rewrite lay_f_positions. apply seq_NoDup. }
    destruct q as [[ppos pos] t].
    set (s := src_of (prev3 A) pos t).
    assert (He : In (pos, ppos, RB (fst s) (snd s)) es).
    { unfold es. rewrite E. rewrite (DN_app c ser deser shash). apply in_or_app. right. cbn [app described_nodes]. now left. }
    unfold info_at. cbn [q_pos q_node fst snd].
    pose proof (find_ln_unique es _ Hnd He) as Hf. cbn [ln_idx fst] in Hf. rewrite Hf. cbn [ln_info snd].
    assert (HL : forall q, In q L -> In (q_node q) (pre_f f)).
    { intros q Hq. rewrite <- (lay_f_nodes f 0 1). now apply in_map. }
    assert (Ht : In t (pre_f f)) by (apply (HL (ppos, pos, t)); rewrite E; apply in_or_app; right; now left).
    assert (HA : forall e, In e (prev3 A) -> In (snd e) (pre_f f)).
    { intros e Hein. unfold prev3 in Hein. apply in_map_iff in Hein as (y & <- & Hy). cbn [snd]. apply HL. rewrite E. apply in_or_app. now left. }
    destruct (src_of_in (prev3 A) pos t HA Ht) as [Hs Hd]. fold s in Hs, Hd.
    rewrite (obs_rb (fst s) (snd s) Hst Hmr Hk Hs).
    destruct (Hcc (snd s) t Hs Ht Hd) as [C1 C2]. unfold obs_info. unfold rdid in Hd. rewrite C1, C2, Hd. f_equal.
    (* kinds: a reference is only written for equal kinds *)
    unfold s, src_of. destruct (first_same (rdid t) (prev3 A)) as [[j x]|]; [|reflexivity].
    destruct (kind_eqb (rkind t) (rkind x)) eqn:Ek; [|reflexivity]. apply kind_eqb_eq in Ek. cbn [snd]. unfold rkind in Ek. now rewrite Ek.
  Qed.
End Described.
