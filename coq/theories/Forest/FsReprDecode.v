(* C19 (surrounding code) -- the quoted name in FileSystemEntry.__repr__ can be read back:
   a decoder of Python string literals ([decode]) inverts [repr_str] on every text of
   code points, whatever the Unicode database says about printability.  Hence different
   names are always shown differently. *)
From Coq Require Import List ZArith Bool Lia.
From NT Require Import Sx Rose FsLoad FsRepr.
Import ListNotations.
Open Scope Z_scope.

Definition hex_val (c : Z) : option Z :=
  if (48 <=? c) && (c <=? 57) then Some (c - 48)
  else if (97 <=? c) && (c <=? 102) then Some (c - 87)
  else None.

Fixpoint hex_read (w : nat) (acc : Z) (l : text) : option (Z * text) :=
  match w with
  | O => Some (acc, l)
  | S w' => match l with
            | [] => None
            | c :: r => match hex_val c with
                        | Some d => hex_read w' (16 * acc + d) r
                        | None => None
                        end
            end
  end.

Definition ocons (c : Z) (o : option text) : option text :=
  match o with Some t => Some (c :: t) | None => None end.

(* [l] = the characters after the opening quote [q], up to and including the closing one *)
Fixpoint unescape (fuel : nat) (q : Z) (l : text) : option text :=
  match fuel with
  | O => None
  | S f =>
      match l with
      | [] => None
      | c :: r =>
          if c =? 92 then
            match r with
            | [] => None
            | e :: r' =>
                if e =? 116 then ocons 9 (unescape f q r')
                else if e =? 110 then ocons 10 (unescape f q r')
                else if e =? 114 then ocons 13 (unescape f q r')
                else if e =? 120 then
                  match hex_read 2 0 r' with Some (v, r'') => ocons v (unescape f q r'') | None => None end
                else if e =? 117 then
                  match hex_read 4 0 r' with Some (v, r'') => ocons v (unescape f q r'') | None => None end
                else if e =? 85 then
                  match hex_read 8 0 r' with Some (v, r'') => ocons v (unescape f q r'') | None => None end
                else ocons e (unescape f q r')
            end
          else if c =? q then (match r with [] => Some [] | _ => None end)
          else ocons c (unescape f q r)
      end
  end.

Definition decode (lit : text) : option text :=
  match lit with
  | [] => None
  | q :: rest => unescape (S (length rest)) q rest
  end.

(* ---- hexadecimal round trip ---- *)
Lemma hex_val_char d : 0 <= d < 16 -> hex_val (hex_char d) = Some d.
Proof.
  intros H. unfold hex_char, hex_val.
  destruct (d <? 10) eqn:E; [apply Z.ltb_lt in E|apply Z.ltb_ge in E].
  - replace ((48 <=? 48 + d) && (48 + d <=? 57)) with true; [f_equal; lia|].
    symmetry. apply andb_true_iff. split; apply Z.leb_le; lia.
  - replace ((48 <=? 87 + d) && (87 + d <=? 57)) with false.
    + replace ((97 <=? 87 + d) && (87 + d <=? 102)) with true; [f_equal; lia|].
      symmetry. apply andb_true_iff. split; apply Z.leb_le; lia.
    + symmetry. apply andb_false_iff. right. apply Z.leb_gt. lia.
Qed.

Lemma hex_read_snoc w : forall acc l,
  hex_read (S w) acc l =
  match hex_read w acc l with
  | Some (v, c :: r) => match hex_val c with Some d => Some (16 * v + d, r) | None => None end
  | _ => None
  end.
Proof.
  induction w as [|w IH]; intros acc l.
  - cbn. destruct l as [|c r]; [reflexivity|]. destruct (hex_val c); reflexivity.
  - change (hex_read (S (S w)) acc l) with
      (match l with [] => None | c :: r => match hex_val c with Some d => hex_read (S w) (16 * acc + d) r | None => None end end).
    change (hex_read (S w) acc l) with
      (match l with [] => None | c :: r => match hex_val c with Some d => hex_read w (16 * acc + d) r | None => None end end).
    destruct l as [|c r]; [reflexivity|]. destruct (hex_val c) as [d|]; [|reflexivity]. apply IH.
Qed.

Lemma hex_read_fixed w : forall z acc rest, 0 <= z < 16 ^ Z.of_nat w ->
  hex_read w acc (hex_fixed w z ++ rest) = Some (acc * 16 ^ Z.of_nat w + z, rest).
Proof.
  induction w as [|w IH]; intros z acc rest Hz.
  - cbn in *. f_equal. f_equal. lia.
  - rewrite Nat2Z.inj_succ, Z.pow_succ_r in * by lia.
    rewrite hex_read_snoc. cbn [hex_fixed]. rewrite <- app_assoc. cbn [app].
    assert (Hq : 0 <= z / 16 < 16 ^ Z.of_nat w) by (split; [apply Z.div_pos; lia|apply Z.div_lt_upper_bound; lia]).
    rewrite (IH (z / 16) acc _ Hq).
    rewrite hex_val_char by (apply Z.mod_pos_bound; lia).
    f_equal. f_equal. set (P := 16 ^ Z.of_nat w). pose proof (Z.div_mod z 16 ltac:(lia)) as D.
    replace (16 * (acc * P + z / 16) + z mod 16) with (acc * (16 * P) + (16 * (z / 16) + z mod 16)) by ring.
    rewrite <- D. reflexivity.
Qed.

(* ---- one decoding step per shape of [repr_char] ---- *)
Lemma un_plain f q c l : c <> 92 -> c <> q ->
  unescape (S f) q (c :: l) = ocons c (unescape f q l).
Proof.
  intros H1 H2. cbn [unescape]. apply Z.eqb_neq in H1, H2. rewrite H1, H2. reflexivity.
Qed.

Lemma un_simple f q e l : e <> 116 -> e <> 110 -> e <> 114 -> e <> 120 -> e <> 117 -> e <> 85 ->
  unescape (S f) q (92 :: e :: l) = ocons e (unescape f q l).
Proof.
  intros H1 H2 H3 H4 H5 H6. cbn [unescape]. rewrite Z.eqb_refl.
  apply Z.eqb_neq in H1, H2, H3, H4, H5, H6. rewrite H1, H2, H3, H4, H5, H6. reflexivity.
Qed.

Lemma un_hex2 f q c l : 0 <= c < 256 ->
  unescape (S f) q (92 :: 120 :: hex_fixed 2 c ++ l) = ocons c (unescape f q l).
Proof.
  intros H. cbn [unescape]. rewrite Z.eqb_refl. cbn [Z.eqb Pos.eqb].
  rewrite (hex_read_fixed 2 c 0 l) by (cbn; lia). f_equal.
Qed.

Lemma un_hex4 f q c l : 0 <= c < 65536 ->
  unescape (S f) q (92 :: 117 :: hex_fixed 4 c ++ l) = ocons c (unescape f q l).
Proof.
  intros H. cbn [unescape]. rewrite Z.eqb_refl. cbn [Z.eqb Pos.eqb].
  rewrite (hex_read_fixed 4 c 0 l) by (cbn; lia). f_equal.
Qed.

Lemma un_hex8 f q c l : 0 <= c < 4294967296 ->
  unescape (S f) q (92 :: 85 :: hex_fixed 8 c ++ l) = ocons c (unescape f q l).
Proof.
  intros H. cbn [unescape]. rewrite Z.eqb_refl. cbn [Z.eqb Pos.eqb].
  rewrite (hex_read_fixed 8 c 0 l) by (cbn; lia). f_equal.
Qed.

Lemma unescape_mono f : forall q l t, unescape f q l = Some t -> unescape (S f) q l = Some t.
Proof.
  induction f as [|f IH]; intros q l t H; [discriminate H|].
  revert H. cbn [unescape]. destruct l as [|c r]; [intros H; exact H|].
  assert (O : forall c' l', (forall t', unescape f q l' = Some t' -> unescape (S f) q l' = Some t') ->
            forall t', ocons c' (unescape f q l') = Some t' -> ocons c' (unescape (S f) q l') = Some t').
  { intros c' l' Hm t'. destruct (unescape f q l') as [u|] eqn:E; [|discriminate].
    rewrite (Hm u eq_refl). intros H; exact H. }
  destruct (c =? 92).
  - destruct r as [|e r']; [intros H; exact H|].
    destruct (e =? 116); [apply O, IH|]. destruct (e =? 110); [apply O, IH|]. destruct (e =? 114); [apply O, IH|].
    destruct (e =? 120); [destruct (hex_read 2 0 r') as [[v r'']|]; [apply O, IH|intros H; exact H]|].
    destruct (e =? 117); [destruct (hex_read 4 0 r') as [[v r'']|]; [apply O, IH|intros H; exact H]|].
    destruct (e =? 85); [destruct (hex_read 8 0 r') as [[v r'']|]; [apply O, IH|intros H; exact H]|].
    apply O, IH.
  - destruct (c =? q); [intros H; exact H|]. apply O, IH.
Qed.

Lemma unescape_more f g q l t : (f <= g)%nat -> unescape f q l = Some t -> unescape g q l = Some t.
Proof. induction 1 as [|g Hle IH]; intros H; [exact H|]. apply unescape_mono, IH, H. Qed.

(* ---- the body ---- *)
Definition cp_ok (c : Z) : Prop := 0 <= c <= 1114111.

Lemma repr_char_decodes p q c l f t :
  (q = 39 \/ q = 34) -> cp_ok c -> unescape f q l = Some t ->
  unescape (S f) q (repr_char p q c ++ l) = Some (c :: t).
Proof.
  intros Hq Hc Hl. unfold repr_char, cp_ok in *.
  destruct ((c =? q) || (c =? 92)) eqn:E1.
  { cbn [app]. rewrite un_simple by (apply orb_true_iff in E1 as [E|E]; apply Z.eqb_eq in E; lia).
    rewrite Hl. reflexivity. }
  apply orb_false_iff in E1 as [Eq E92]. apply Z.eqb_neq in Eq, E92.
  destruct (c =? 9) eqn:E9.
  { apply Z.eqb_eq in E9. subst c. cbn [app unescape]. cbn [Z.eqb Pos.eqb]. rewrite Hl. reflexivity. }
  destruct (c =? 10) eqn:E10.
  { apply Z.eqb_eq in E10. subst c. cbn [app unescape]. cbn [Z.eqb Pos.eqb]. rewrite Hl. reflexivity. }
  destruct (c =? 13) eqn:E13.
  { apply Z.eqb_eq in E13. subst c. cbn [app unescape]. cbn [Z.eqb Pos.eqb]. rewrite Hl. reflexivity. }
  destruct ((c <? 32) || (c =? 127)) eqn:Ectl.
  { cbn [app]. rewrite un_hex2; [rewrite Hl; reflexivity|].
    apply orb_true_iff in Ectl as [E|E]; [apply Z.ltb_lt in E|apply Z.eqb_eq in E]; lia. }
  destruct (c <? 127) eqn:Easc.
  { cbn [app]. rewrite un_plain by assumption. rewrite Hl. reflexivity. }
  apply Z.ltb_ge in Easc.
  destruct (p c).
  { cbn [app]. rewrite un_plain by lia. rewrite Hl. reflexivity. }
  destruct (c <=? 255) eqn:E255.
  { apply Z.leb_le in E255. cbn [app]. rewrite un_hex2 by lia. rewrite Hl. reflexivity. }
  apply Z.leb_gt in E255.
  destruct (c <=? 65535) eqn:E16.
  { apply Z.leb_le in E16. cbn [app]. rewrite un_hex4 by lia. rewrite Hl. reflexivity. }
  apply Z.leb_gt in E16. cbn [app]. rewrite un_hex8 by lia. rewrite Hl. reflexivity.
Qed.

Lemma body_decodes p q s : (q = 39 \/ q = 34) -> Forall cp_ok s ->
  unescape (S (length s)) q (flat_map (repr_char p q) s ++ [q]) = Some s.
Proof.
  intros Hq. induction 1 as [|c s Hc Hs IH].
  - cbn. assert (q =? 92 = false) as -> by (apply Z.eqb_neq; lia). rewrite Z.eqb_refl. reflexivity.
  - cbn [flat_map length]. rewrite <- app_assoc. apply repr_char_decodes; assumption.
Qed.

Lemma repr_char_nonempty p q c : (1 <= length (repr_char p q c))%nat.
Proof.
  unfold repr_char.
  repeat match goal with |- context [if ?b then _ else _] => destruct b end; cbn; try lia;
    rewrite ?app_length; cbn; lia.
Qed.

Theorem decode_repr_str p s : Forall cp_ok s -> decode (repr_str p s) = Some s.
Proof.
  intros H. unfold repr_str, decode. cbn [app].
  assert (Hq : repr_quote s = 39 \/ repr_quote s = 34) by (unfold repr_quote; destruct (_ && _); auto).
  eapply unescape_more; [|apply body_decodes; assumption].
  rewrite app_length. cbn [length].
  assert (L : (length s <= length (flat_map (repr_char p (repr_quote s)) s))%nat).
  { generalize (repr_quote s) as q. intros q. clear. induction s as [|c s IH]; cbn; [lia|].
    rewrite app_length. pose proof (repr_char_nonempty p q c). lia. }
  lia.
Qed.

(* different names are shown differently, whatever is printable *)
Corollary repr_str_injective p a b :
  Forall cp_ok a -> Forall cp_ok b -> repr_str p a = repr_str p b -> a = b.
Proof.
  intros Ha Hb E. pose proof (decode_repr_str p a Ha) as Da. rewrite E, (decode_repr_str p b Hb) in Da.
  injection Da as ->. reflexivity.
Qed.
