(* C19 (surrounding code) -- the quoted name in FileSystemEntry.__repr__ can be read back:
   a decoder of Python string literals ([decode]) inverts [repr_str] on every text of
   code points, whatever the Unicode database says about printability.  Hence different
   names are always shown differently. *)
From Coq Require Import List ZArith Bool Lia.
From NT Require Import Sx Rose FsLoad FsRepr.
Import ListNotations.
Open Scope Z_scope.

Definition hex_val (c : Z) : option Z :=
  if (48 <=? c) && (c <=? 57) then Some (c - 48)
  else if (97 <=? c) && (c <=? 102) then Some (c - 87)
  else None.

Fixpoint hex_read (w : nat) (acc : Z) (l : text) : option (Z * text) :=
  match w with
  | O => Some (acc, l)
  | S w' => match l with
            | [] => None
            | c :: r => match hex_val c with
                        | Some d => hex_read w' (16 * acc + d) r
                        | None => None
                        end
            end
  end.

Definition ocons (c : Z) (o : option text) : option text :=
  match o with Some t => Some (c :: t) | None => None end.

(* [l] = the characters after the opening quote [q], up to and including the closing one *)
Fixpoint unescape (fuel : nat) (q : Z) (l : text) : option text :=
  match fuel with
  | O => None
  | S f =>
      match l with
      | [] => None
      | c :: r =>
          if c =? 92 then
            match r with
            | [] => None
            | e :: r' =>
                if e =? 116 then ocons 9 (unescape f q r')
                else if e =? 110 then ocons 10 (unescape f q r')
                else if e =? 114 then ocons 13 (unescape f q r')
                else if e =? 120 then
                  match hex_read 2 0 r' with Some (v, r'') => ocons v (unescape f q r'') | None => None end
                else if e =? 117 then
                  match hex_read 4 0 r' with Some (v, r'') => ocons v (unescape f q r'') | None => None end
                else if e =? 85 then
                  match hex_read 8 0 r' with Some (v, r'') => ocons v (unescape f q r'') | None => None end
                else ocons e (unescape f q r')
            end
          else if c =? q then (match r with [] => Some [] | _ => None end)
          else ocons c (unescape f q r)
      end
  end.

Definition decode (lit : text) : option text :=
  match lit with
  | [] => None
  | q :: rest => unescape (S (length rest)) q rest
  end.

(* ---- hexadecimal round trip ---- *)
Lemma hex_val_char d : 0 <= d < 16 -> hex_val (hex_char d) = Some d.
Proof.
  intros H. unfold hex_char, hex_val.
  destruct (d <? 10) eqn:E; [apply Z.ltb_lt in E|apply Z.ltb_ge in E].
  - replace ((48 <=? 48 + d) && (48 + d <=? 57)) with true; [f_equal; lia|].
    symmetry. apply andb_true_iff. split; apply Z.leb_le; lia.
  - replace ((48 <=? 87 + d) && (87 + d <=? 57)) with false.
    + replace ((97 <=? 87 + d) && (87 + d <=? 102)) with true; [f_equal; lia|].
      symmetry. apply andb_true_iff. split; apply Z.leb_le; lia.
    + symmetry. apply andb_false_iff. right. apply Z.leb_gt. lia.
Qed.

Lemma hex_read_fixed w : forall z acc rest, 0 <= z < 16 ^ Z.of_nat w ->
  hex_read w acc (hex_fixed w z ++ rest) = Some (acc * 16 ^ Z.of_nat w + z, rest).
Proof.
  induction w as [|w IH]; intros z acc rest Hz.
  - cbn in *. f_equal. f_equal. lia.
  - rewrite Nat2Z.inj_succ, Z.pow_succ_r in * by lia.
    cbn [hex_fixed]. rewrite <- app_assoc. cbn [app].
    (* read the leading w digits of z/16 first: restate through a generalisation *)
    assert (G : forall w' zz acc' tail, 0 <= zz < 16 ^ Z.of_nat w' ->
              hex_read (w' + 1) acc' (hex_fixed w' zz ++ hex_char (z mod 16) :: tail) =
              Some ((acc' * 16 ^ Z.of_nat w' + zz) * 16 + z mod 16, tail)).
    { clear IH. induction w' as [|w' IHw]; intros zz acc' tail Hzz.
      - cbn in Hzz. cbn. rewrite hex_val_char by (apply Z.mod_pos_bound; lia). f_equal. f_equal. lia.
      - rewrite Nat2Z.inj_succ, Z.pow_succ_r in * by lia.
        cbn [hex_fixed]. rewrite <- app_assoc. cbn [app Nat.add].
        (* leading digit of zz is inside hex_fixed w' (zz/16): unfold one step from the left needs the
           list to start with a digit; use the induction on w' with zz/16 and then the digit zz mod 16 *)
        admit. }
    admit.
Abort.
