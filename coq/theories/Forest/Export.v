(* Executable model of the graph exports of nutree (C17):
     nutree/dot.py      node_to_dot            (+ TypedNode.to_dot: edge label = kind)
     nutree/mermaid.py  _node_to_mermaid_flowchart_iter
     nutree/rdf.py      _add_child_node / _add_child_nodes / node_to_rdf / tree_to_rdf
   The outputs are structured (node definitions, edges, triples), not text; the
   harness parses the emitted lines / triples back into these structures.
   Each function mirrors the Python loop it models (same accumulators).
   The flag [fx] selects the code after the repairs D36 / D37 ([true], the code
   that exists) or the code before them ([false], kept for the witnesses).
   No proofs here. *)
From Coq Require Import List ZArith Bool Arith.
From NT Require Import Sx Rose.
From NTGen Require Import Generated.
Import ListNotations.

(* ---- graph keys: [n._data_id if unique_nodes else n._node_id] ---- *)
Inductive gkey := KD (d : did) | KN (n : nat).

Definition gkey_eqb (a b : gkey) : bool :=
  match a, b with
  | KD x, KD y => did_eqb x y
  | KN x, KN y => Nat.eqb x y
  | _, _ => false
  end.

Definition key (u : bool) (t : rt) : gkey := if u then KD (rdid t) else KN (rid t).
Definition rname (t : rt) : text := i_name (rinfo t).

(* [key in used_keys] / [key in id_to_idx] *)
Definition kmem (k : gkey) (used : list gkey) : bool := existsb (gkey_eqb k) used.

(* [for n in node]: the descendants of [p] in pre-order; every yielded node
   is paired with its [_parent] *)
Fixpoint desc_p (p : rt) : list (rt * rt) :=
  match p with T _ _ ch => flat_map (fun c => (p, c) :: desc_p c) ch end.

(* [n._parent is node] *)
Definition same_node (a b : rt) : bool := Nat.eqb (rid a) (rid b).

(* ------------------------------------------------------------------ DOT *)
Definition ddef := (gkey * option text * bool)%type.      (* key, label, shape="box" *)
Definition dedge := (gkey * gkey * option text)%type.     (* from, to, label *)

(* second loop of node_to_dot: [for n in node: if unique_nodes: ... used_keys] *)
Fixpoint dot_loop (u : bool) (ns : list rt) (used : list gkey) : list ddef :=
  match ns with
  | [] => []
  | n :: r =>
      if u then
        let k := KD (rdid n) in
        if kmem k used then dot_loop u r used
        else (k, Some (rname n), false) :: dot_loop u r (k :: used)
      else (KN (rid n), Some (rname n), false) :: dot_loop u r used
  end.

(* [if add_self: ...]: the start node is defined without a label unless it is
   the system root, which is a box labelled with the tree name *)
Definition dot_self (u isroot : bool) (tname : text) (s : rt) : ddef :=
  (key u s, if isroot then Some tname else None, isroot).

Definition dot_nodes (fx u add_self isroot : bool) (tname : text) (s : rt) : list ddef :=
  let ds := map snd (desc_p s) in
  if add_self
  then dot_self u isroot tname s :: dot_loop u ds (if fx then [key u s] else [])
  else dot_loop u ds [].

(* third loop: [if not add_self and n._parent is node: continue]; the edge
   label is the kind for typed nodes (TypedNode.to_dot), absent for plain ones *)
Definition dot_edge (u : bool) (pn : rt * rt) : dedge :=
  (key u (fst pn), key u (snd pn), rkind (snd pn)).

Definition dot_edges (u add_self : bool) (s : rt) : list dedge :=
  flat_map (fun pn => if negb add_self && same_node (fst pn) s then [] else [dot_edge u pn])
           (desc_p s).

Definition dot_export (fx u add_self isroot : bool) (tname : text) (s : rt) : list ddef * list dedge :=
  (dot_nodes fx u add_self isroot tname s, dot_edges u add_self s).

(* -------------------------------------------------------------- Mermaid *)
Definition mnode := (nat * text * bool)%type.                    (* idx, name, root shape *)
Definition medge := (option nat * option nat * option text)%type. (* from idx, to idx, kind *)

(* [id_to_idx[key]] *)
Fixpoint klookup (k : gkey) (m : list (gkey * nat)) : option nat :=
  match m with
  | [] => None
  | (k', i) :: r => if gkey_eqb k k' then Some i else klookup k r
  end.

(* node loop: returns the emitted node lines and the final [id_to_idx]
   (insertion order) *)
Fixpoint mer_loop (u : bool) (ns : list rt) (m : list (gkey * nat)) (idx : nat)
  : list mnode * list (gkey * nat) :=
  match ns with
  | [] => ([], m)
  | n :: r =>
      let k := key u n in
      match klookup k m with
      | Some _ => mer_loop u r m idx
      | None =>
          let res := mer_loop u r (m ++ [(k, idx)]) (S idx) in
          ((idx, rname n, false) :: fst res, snd res)
      end
  end.

(* [templ = DEFAULT_EDGE_TEMPLATE_TYPED if kind else DEFAULT_EDGE_TEMPLATE]:
   truthiness of the kind, so an empty kind gives an unlabelled edge *)
Definition mer_label (k : kind) : option text :=
  match k with Some (c :: r) => Some (c :: r) | _ => None end.

Definition mer_edge (u : bool) (m : list (gkey * nat)) (pn : rt * rt) : medge :=
  (klookup (key u (fst pn)) m, klookup (key u (snd pn)) m, mer_label (rkind (snd pn))).

Definition mer_map (u add_root : bool) (s : rt) : list (gkey * nat) :=
  snd (mer_loop u (map snd (desc_p s)) (if add_root then [(key u s, 0)] else []) 1).

Definition mer_nodes (u add_root : bool) (s : rt) : list mnode :=
  (if add_root then [(0, rname s, true)] else [])
  ++ fst (mer_loop u (map snd (desc_p s)) (if add_root then [(key u s, 0)] else []) 1).

Definition mer_edges (u add_root : bool) (s : rt) : list medge :=
  flat_map (fun pn => if negb add_root && same_node (fst pn) s then []
                      else [mer_edge u (mer_map u add_root s) pn])
           (desc_p s).

Definition mer_export (u add_root : bool) (s : rt) : list mnode * list medge :=
  (mer_nodes u add_root s, mer_edges u add_root s).

(* ------------------------------------------------ Mermaid, as text lines *)
(* The edge and node templates are the GENERATED values lifted from
   nutree/mermaid.py (DEFAULT_EDGE_TEMPLATE, DEFAULT_EDGE_TEMPLATE_TYPED,
   DEFAULT_NODE_TEMPLATE); [tokenize] / [render] model str.format for
   templates made of literal text and {field} references (no "{{" escapes,
   no format specs: anything else fails closed with [None]). *)
Inductive tok := TLit (s : text) | TField (s : text).

Definition flush (acc : text) : list tok := match acc with [] => [] | _ => [TLit (rev acc)] end.

Fixpoint tokenize_go (inb : bool) (acc : text) (s : text) : option (list tok) :=
  match s with
  | [] => if inb then None else Some (flush acc)
  | c :: r =>
      if inb then
        if Z.eqb c 125 then option_map (cons (TField (rev acc))) (tokenize_go false [] r)
        else if Z.eqb c 123 then None
        else tokenize_go true (c :: acc) r
      else
        if Z.eqb c 123 then option_map (app (flush acc)) (tokenize_go true [] r)
        else if Z.eqb c 125 then None
        else tokenize_go false (c :: acc) r
  end.
Definition tokenize (s : text) : option (list tok) := tokenize_go false [] s.

(* a missing field is a KeyError / AttributeError *)
Fixpoint render (env : text -> option text) (ts : list tok) : option text :=
  match ts with
  | [] => Some []
  | TLit s :: r => option_map (app s) (render env r)
  | TField f :: r =>
      match env f, render env r with
      | Some v, Some w => Some (v ++ w)
      | _, _ => None
      end
  end.

Definition format_with (templ : text) (env : text -> option text) : option text :=
  match tokenize templ with Some ts => render env ts | None => None end.

(* str(int) for a non-negative int *)
Fixpoint uint_text (d : Decimal.uint) : text :=
  match d with
  | Decimal.Nil => []
  | Decimal.D0 r => 48 :: uint_text r | Decimal.D1 r => 49 :: uint_text r
  | Decimal.D2 r => 50 :: uint_text r | Decimal.D3 r => 51 :: uint_text r
  | Decimal.D4 r => 52 :: uint_text r | Decimal.D5 r => 53 :: uint_text r
  | Decimal.D6 r => 54 :: uint_text r | Decimal.D7 r => 55 :: uint_text r
  | Decimal.D8 r => 56 :: uint_text r | Decimal.D9 r => 57 :: uint_text r
  end%Z.
Definition dec (n : nat) : text := uint_text (Nat.to_uint n).

Definition F_from_id : text := [102; 114; 111; 109; 95; 105; 100]%Z.      (* from_id *)
Definition F_to_id : text := [116; 111; 95; 105; 100]%Z.                   (* to_id *)
Definition F_kind : text := [107; 105; 110; 100]%Z.                        (* kind *)
Definition F_node_name : text := [110; 111; 100; 101; 46; 110; 97; 109; 101]%Z.   (* node.name *)

(* templ.format(from_id=.., from_node=.., to_id=.., to_node=.., kind=kind):
   the node objects' reprs are not modelled (fail closed) *)
Definition F_from_name : text := [102; 114; 111; 109; 95; 110; 111; 100; 101; 46; 110; 97; 109; 101]%Z.   (* from_node.name *)
Definition F_to_name : text := [116; 111; 95; 110; 111; 100; 101; 46; 110; 97; 109; 101]%Z.              (* to_node.name *)

(* [k]: the kind keyword (absent for a string edge_mapper: KeyError);
   [fn], [tn]: names of the two nodes, for {from_node.name} / {to_node.name} *)
Definition edge_env (i j : nat) (k fn tn : option text) (f : text) : option text :=
  if text_eqb f F_from_id then Some (dec i)
  else if text_eqb f F_to_id then Some (dec j)
  else if text_eqb f F_kind then k
  else if text_eqb f F_from_name then fn
  else if text_eqb f F_to_name then tn
  else None.

Definition mer_edge_text (e : medge) : option text :=
  match e with
  | (Some i, Some j, l) =>
      format_with (match l with Some _ => MERMAID_DEFAULT_EDGE_TEMPLATE_TYPED | None => MERMAID_DEFAULT_EDGE_TEMPLATE end)
                  (edge_env i j l None None)
  | _ => None                                                              (* KeyError in id_to_idx *)
  end.

(* f'0{{"{name}"}}' for the start node, f'{idx}("{node_mapper(n)}")' otherwise *)
Definition mer_node_text (d : mnode) : option text :=
  match d with
  | (i, nm, true) => Some (dec i ++ [123; 123; 34]%Z ++ nm ++ [34; 125; 125]%Z)
  | (i, nm, false) =>
      option_map (fun v => dec i ++ [40; 34]%Z ++ v ++ [34; 41]%Z)
                 (format_with MERMAID_DEFAULT_NODE_TEMPLATE
                              (fun f => if text_eqb f F_node_name then Some nm else None))
  end.

(* ---- the whole chart, with the options of _node_to_mermaid_flowchart_iter ---- *)
Inductive mtitle := TitleOff | TitleName | TitleText (t : text).   (* falsy | True | non-empty str *)
Record mopts := MO {
  mo_markdown : bool;
  mo_direction : text;
  mo_title : mtitle;
  mo_headers : list text;
  mo_add_root : bool;
  mo_unique : bool;
  mo_node_templ : option text;      (* node_mapper given as a str *)
  mo_edge_templ : option text       (* edge_mapper given as a str *)
}.

Definition node_env (nm : text) (f : text) : option text :=
  if text_eqb f F_node_name then Some nm else None.

(* name = node_mapper(n); f'{idx}("{name}")' *)
Definition mer_node_line (nt : option text) (d : mnode) : option text :=
  match d with
  | (i, nm, true) => Some (dec i ++ [123; 123; 34]%Z ++ nm ++ [34; 125; 125]%Z)
  | (i, nm, false) =>
      option_map (fun v => dec i ++ [40; 34]%Z ++ v ++ [34; 41]%Z)
                 (format_with (match nt with Some t => t | None => MERMAID_DEFAULT_NODE_TEMPLATE end) (node_env nm))
  end.

(* edge_mapper(parent_idx, n._parent, idx, n) *)
Definition mer_edge_line (et : option text) (u : bool) (m : list (gkey * nat)) (pn : rt * rt) : option text :=
  match klookup (key u (fst pn)) m, klookup (key u (snd pn)) m with
  | Some i, Some j =>
      let fn := Some (rname (fst pn)) in
      let tn := Some (rname (snd pn)) in
      match et with
      | Some t => format_with t (edge_env i j None fn tn)
      | None =>
          let k := mer_label (rkind (snd pn)) in
          format_with (match k with Some _ => MERMAID_DEFAULT_EDGE_TEMPLATE_TYPED | None => MERMAID_DEFAULT_EDGE_TEMPLATE end)
                      (edge_env i j k fn tn)
      end
  | _, _ => None
  end.

(* a generator that raises yields no chart *)
Fixpoint oseq {X} (l : list (option X)) : option (list X) :=
  match l with
  | [] => Some []
  | None :: _ => None
  | Some x :: r => option_map (cons x) (oseq r)
  end.

Definition L_md_open : text := [96; 96; 96; 109; 101; 114; 109; 97; 105; 100]%Z.
Definition L_md_close : text := [96; 96; 96]%Z.
Definition L_dashes : text := [45; 45; 45]%Z.
Definition L_title : text := [116; 105; 116; 108; 101; 58; 32]%Z.
Definition L_generator : text :=
  [37; 37; 32; 71; 101; 110; 101; 114; 97; 116; 111; 114; 58; 32; 104; 116; 116; 112; 115; 58; 47; 47; 103; 105; 116; 104; 117;
   98; 46; 99; 111; 109; 47; 109; 97; 114; 49; 48; 47; 110; 117; 116; 114; 101; 101; 47]%Z.
Definition L_flowchart : text := [102; 108; 111; 119; 99; 104; 97; 114; 116; 32]%Z.
Definition L_headers : text := [37; 37; 32; 72; 101; 97; 100; 101; 114; 115; 58]%Z.
Definition L_nodes : text := [37; 37; 32; 78; 111; 100; 101; 115; 58]%Z.
Definition L_edges : text := [37; 37; 32; 69; 100; 103; 101; 115; 58]%Z.

Definition mer_head (o : mopts) (s : rt) : list text :=
  (if mo_markdown o then [L_md_open] else [])
  ++ (match mo_title o with
      | TitleOff => []
      | TitleName => [L_dashes; L_title ++ rname s; L_dashes]
      | TitleText t => [L_dashes; L_title ++ t; L_dashes]
      end)
  ++ [[]; L_generator; []; L_flowchart ++ mo_direction o]
  ++ (match mo_headers o with [] => [] | h => [[]; L_headers] ++ h end)
  ++ [[]; L_nodes].

Definition mer_node_lines (o : mopts) (s : rt) : list (option text) :=
  map (mer_node_line (mo_node_templ o)) (mer_nodes (mo_unique o) (mo_add_root o) s).

Definition mer_edge_lines (o : mopts) (s : rt) : list (option text) :=
  flat_map (fun pn => if negb (mo_add_root o) && same_node (fst pn) s then []
                      else [mer_edge_line (mo_edge_templ o) (mo_unique o) (mer_map (mo_unique o) (mo_add_root o) s) pn])
           (desc_p s).

Definition mer_chart (o : mopts) (s : rt) : option (list text) :=
  match oseq (mer_node_lines o s), oseq (mer_edge_lines o s) with
  | Some ns, Some es =>
      Some (mer_head o s ++ ns ++ [[]; L_edges] ++ es ++ (if mo_markdown o then [L_md_close] else []))
  | _, _ => None
  end.

(* the lines between "%% Nodes:" and the end of the chart *)
Definition mer_text (x : list mnode * list medge) : list (option text) * list (option text) :=
  (map mer_node_text (fst x), map mer_edge_text (snd x)).

(* ---- the DOT document as text, with attribute dictionaries and mappers ---- *)
(* A dict of str -> str in insertion order; [d[k] = v] *)
Definition attrs := list (text * text).
Fixpoint dset (k v : text) (d : attrs) : attrs :=
  match d with
  | [] => [(k, v)]
  | (k', v') :: r => if text_eqb k k' then (k, v) :: r else (k', v') :: dset k v r
  end.

(* a mapper callback that sets one attribute in place: [data[k] = v] *)
Definition amapper := option (text * text).
Definition run_mapper (m : amapper) (d : attrs) : attrs :=
  match m with Some (k, v) => dset k v d | None => d end.

Fixpoint join_sp (l : list text) : text :=
  match l with
  | [] => []
  | [x] => x
  | x :: r => x ++ [32%Z] ++ join_sp r
  end.

(* _attr_str: "" for an empty dict, else ' [k="v" k2="v2"]' *)
Definition attr_str (d : attrs) : text :=
  match d with
  | [] => []
  | _ => [32; 91]%Z ++ join_sp (map (fun kv => fst kv ++ [61; 34]%Z ++ snd kv ++ [34%Z]) d) ++ [93%Z]
  end.

Definition int_text (i : Decimal.int) : text :=
  match i with Decimal.Pos u => uint_text u | Decimal.Neg u => 45%Z :: uint_text u end.

(* str(key); node ids are memory addresses: the harness rewrites them to @<allocation index> *)
Definition key_text (k : gkey) : text :=
  match k with
  | KD (DInt z) => int_text (Z.to_int z)
  | KD (DStr t) => t
  | KN n => 64%Z :: dec n
  end.

Record dopts := DO {
  do_add_self : bool;
  do_unique : bool;
  do_graph : attrs;
  do_node : attrs;
  do_edge : attrs;
  do_nmap : amapper;
  do_emap : amapper
}.

Definition D_indent : text := [32; 32]%Z.
Definition D_generator : text :=
  [35; 32; 71; 101; 110; 101; 114; 97; 116; 111; 114; 58; 32; 104; 116; 116; 112; 115; 58; 47; 47; 103; 105; 116; 104; 117; 98;
   46; 99; 111; 109; 47; 109; 97; 114; 49; 48; 47; 110; 117; 116; 114; 101; 101; 47]%Z.
Definition D_digraph : text := [100; 105; 103; 114; 97; 112; 104; 32; 34]%Z.           (* digraph + quote *)
Definition D_open : text := [34; 32; 123]%Z.
Definition D_defaults : text := D_indent ++ [35; 32; 68; 101; 102; 97; 117; 108; 116; 32; 68; 101; 102; 105; 110; 105; 116; 105; 111; 110; 115]%Z.
Definition D_graph : text := D_indent ++ [103; 114; 97; 112; 104; 32]%Z.
Definition D_node : text := D_indent ++ [110; 111; 100; 101; 32]%Z.
Definition D_edge : text := D_indent ++ [101; 100; 103; 101; 32]%Z.
Definition D_nodes : text := D_indent ++ [35; 32; 78; 111; 100; 101; 32; 68; 101; 102; 105; 110; 105; 116; 105; 111; 110; 115]%Z.
Definition D_edges : text := D_indent ++ [35; 32; 69; 100; 103; 101; 32; 68; 101; 102; 105; 110; 105; 116; 105; 111; 110; 115]%Z.
Definition D_arrow : text := [32; 45; 62; 32]%Z.
Definition A_label : text := [108; 97; 98; 101; 108]%Z.
Definition A_shape : text := [115; 104; 97; 112; 101]%Z.
Definition A_box : text := [98; 111; 120]%Z.

Definition nonempty {X} (l : list X) : bool := match l with [] => false | _ => true end.

Definition dot_head (o : dopts) (tname : text) : list text :=
  [D_generator; D_digraph ++ tname ++ D_open]
  ++ (if nonempty (do_graph o) || nonempty (do_node o) || nonempty (do_edge o)
      then [[]; D_defaults]
           ++ (if nonempty (do_graph o) then [D_graph ++ attr_str (do_graph o)] else [])
           ++ (if nonempty (do_node o) then [D_node ++ attr_str (do_node o)] else [])
           ++ (if nonempty (do_edge o) then [D_edge ++ attr_str (do_edge o)] else [])
      else [])
  ++ [[]; D_nodes].

(* attr_def of a definition before the mapper runs: {} | {label, shape=box} | {label} *)
Definition ddef_attrs (d : ddef) : attrs :=
  match d with (_, lbl, box) =>
    (match lbl with Some l => [(A_label, l)] | None => [] end) ++ (if box then [(A_shape, A_box)] else [])
  end.
Definition ddef_line (m : amapper) (d : ddef) : text :=
  D_indent ++ key_text (fst (fst d)) ++ attr_str (run_mapper m (ddef_attrs d)).

(* edges: {} for plain nodes, {label: kind} for typed ones (TypedNode.to_dot), then the edge_mapper *)
Definition dedge_line (m : amapper) (e : dedge) : text :=
  match e with (a, b, l) =>
    D_indent ++ key_text a ++ D_arrow ++ key_text b
    ++ attr_str (run_mapper m (match l with Some k => [(A_label, k)] | None => [] end))
  end.

Definition dot_doc (o : dopts) (isroot : bool) (tname : text) (s : rt) : list text :=
  dot_head o tname
  ++ map (ddef_line (do_nmap o)) (dot_nodes true (do_unique o) (do_add_self o) isroot tname s)
  ++ [[]; D_edges]
  ++ map (dedge_line (do_emap o)) (dot_edges (do_unique o) (do_add_self o) s)
  ++ [[125%Z]].

(* ------------------------------------------------------------------ RDF *)
Inductive rnode := RLit (d : did) | RSys.   (* Literal(data_id) | URIRef(system_root) *)
Inductive triple :=
| THasChild (p c : rnode)
| TKind (n : rnode) (k : text)
| TName (n : rnode) (nm : text)
| TIndex (n : rnode) (i : nat).

(* bool(Literal(v)) = bool(v); a URIRef is a non-empty str *)
Definition rnode_truthy (g : rnode) : bool :=
  match g with
  | RSys => true
  | RLit (DInt z) => negb (Z.eqb z 0)
  | RLit (DStr s) => match s with [] => false | _ => true end
  end.

(* _add_child_node; [fx]: [if parent_graph_node is not None] (D37 repaired)
   instead of [if parent_graph_node];  [std] = false when the node_mapper
   answered False: the has_child triple is added, the standard attributes are
   not (and, after the repair, the node's graph node is still returned) *)
Definition rdf_node (fx std : bool) (pg : option rnode) (n : rt) (index : option nat) : list triple :=
  let g := RLit (rdid n) in
  (match pg with
   | Some p => if fx || rnode_truthy p then [THasChild p g] else []
   | None => []
   end)
  ++ (if std
      then (match rkind n with Some k => [TKind g k] | None => [] end)
           ++ [TName g (rname n)]
           ++ (match index with Some i => [TIndex g i] | None => [] end)
      else []).

Section MapI.
  Context {X Y : Type} (g : nat -> X -> list Y).
  (* [for index, x in enumerate(l)] concatenating the results *)
  Fixpoint mapi_cat (l : list X) (i : nat) : list Y :=
    match l with
    | [] => []
    | x :: r => g i x ++ mapi_cat r (S i)
    end.
End MapI.

(* _add_child_nodes: the graph node returned for a child is Literal(child.data_id);
   the recursion is entered for every child ([has_children] is a bound method,
   always truthy) and does nothing for a leaf.  [sk n]: the node_mapper answers
   False for n ([fun _ => false] for no mapper / a mapper answering None) *)
Fixpoint rdf_children (fx : bool) (sk : rt -> bool) (pg : option rnode) (t : rt) : list triple :=
  match t with
  | T _ _ ch =>
      mapi_cat (fun i c => rdf_node fx (negb (sk c)) pg c (Some i)
                           ++ rdf_children fx sk (Some (RLit (rdid c))) c) ch 0
  end.

(* node_to_rdf *)
Definition rdf_of_node (fx : bool) (sk : rt -> bool) (add_self : bool) (s : rt) : list triple :=
  if add_self
  then rdf_node fx (negb (sk s)) None s None ++ rdf_children fx sk (Some (RLit (rdid s))) s
  else rdf_children fx sk None s.

Definition no_mapper (_ : rt) : bool := false.

(* tree_to_rdf; [root] is the system root node; Tree.to_rdf_graph passes no mapper *)
Definition rdf_of_tree (fx : bool) (tname : text) (root : rt) : list triple :=
  TName RSys tname :: rdf_children fx no_mapper (Some RSys) root.

(* ------------------------------------------------- canonical rendering *)
Definition sx_gkey (k : gkey) : sx :=
  match k with KD d => L [A 0%Z; sx_did d] | KN n => L [A 1%Z; sx_nat n] end.
Definition sx_otext (o : option text) : sx := sx_opt sx_text o.
Definition sx_onat' (o : option nat) : sx := sx_opt sx_nat o.

Definition sx_ddef (d : ddef) : sx :=
  match d with (k, l, b) => L [sx_gkey k; sx_otext l; sx_bool b] end.
Definition sx_dedge (e : dedge) : sx :=
  match e with (a, b, l) => L [sx_gkey a; sx_gkey b; sx_otext l] end.
Definition sx_dot (x : list ddef * list dedge) : sx :=
  L [sx_list sx_ddef (fst x); sx_list sx_dedge (snd x)].

Definition sx_mnode (d : mnode) : sx :=
  match d with (i, nm, b) => L [sx_nat i; sx_text nm; sx_bool b] end.
Definition sx_medge (e : medge) : sx :=
  match e with (a, b, l) => L [sx_onat' a; sx_onat' b; sx_otext l] end.
Definition sx_mer (x : list mnode * list medge) : sx :=
  L [sx_list sx_mnode (fst x); sx_list sx_medge (snd x)].

Definition sx_chart (c : option (list text)) : sx :=
  match c with Some ls => L (map sx_text ls) | None => A (-1)%Z end.

Definition sx_rnode (g : rnode) : sx :=
  match g with RLit d => sx_did d | RSys => L [A 2%Z] end.
Definition sx_triple (t : triple) : sx :=
  match t with
  | THasChild p c => L [A 0%Z; sx_rnode p; sx_rnode c]
  | TKind n k => L [A 1%Z; sx_rnode n; sx_text k]
  | TName n nm => L [A 2%Z; sx_rnode n; sx_text nm]
  | TIndex n i => L [A 3%Z; sx_rnode n; sx_nat i]
  end.

(* a total order on observation terms, to present a triple SET canonically *)
Fixpoint sx_leb (a b : sx) {struct a} : bool :=
  match a, b with
  | A x, A y => Z.leb x y
  | A _, L _ => true
  | L _, A _ => false
  | L xs, L ys =>
      (fix go (xs ys : list sx) {struct xs} : bool :=
         match xs, ys with
         | [], _ => true
         | _ :: _, [] => false
         | x :: xs', y :: ys' => if sx_eqb x y then go xs' ys' else sx_leb x y
         end) xs ys
  end.

Fixpoint sx_insert (x : sx) (l : list sx) : list sx :=
  match l with
  | [] => [x]
  | y :: r => if sx_eqb x y then l else if sx_leb x y then x :: l else y :: sx_insert x r
  end.
Definition sx_sort (l : list sx) : list sx := fold_right sx_insert [] l.

Definition sx_rdf (ts : list triple) : sx := L (sx_sort (map sx_triple ts)).
