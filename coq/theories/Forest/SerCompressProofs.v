(* Node._compress_entry writes exactly the shortening the header declares, and
   Tree._uncompress_entry undoes it (up to the order of the members). *)
From Coq Require Import List ZArith Bool Arith Lia Permutation.
From NT Require Import Sx Rose ListFacts RoseFacts Serialize SerializeSpec SerDictFacts.
Import ListNotations.

(* ---- association lists *)
Lemma assoc_t_in {X} k (v : X) m : assoc_t k m = Some v -> In (k, v) m.
Proof.
  induction m as [|[k' v'] m IH]; cbn; [discriminate|].
  destruct (text_eqb k k') eqn:E; [apply text_eqb_eq in E; subst; intros [= ->]; now left|intros H; right; auto].
Qed.
Lemma in_assoc_t {X} k (v : X) m : NoDup (map fst m) -> In (k, v) m -> assoc_t k m = Some v.
Proof.
  induction m as [|[k' v'] m IH]; cbn; intros Hn Hi; [contradiction|].
  inversion Hn as [|x l Hx Hl]; subst. destruct Hi as [[= -> ->]|Hi].
  - now rewrite text_eqb_refl.
  - rewrite text_eqb_neq; [auto|]. intros ->. apply Hx. change k' with (fst (k', v)). now apply in_map.
Qed.
Lemma assoc_t_none {X} k (m : list (text * X)) : ~ In k (map fst m) -> assoc_t k m = None.
Proof.
  induction m as [|[k' v'] m IH]; cbn; intros H; [reflexivity|].
  rewrite text_eqb_neq by (intros ->; apply H; now left). apply IH. intros Hi; apply H; now right.
Qed.
Lemma assoc_t_some_in_fst {X} k (v : X) m : assoc_t k m = Some v -> In k (map fst m).
Proof. intros H. apply assoc_t_in in H. change k with (fst (k, v)). now apply in_map. Qed.

Lemma NoDup_map_inj_in {X Y} (g : X -> Y) (l : list X) :
  (forall x y, In x l -> In y l -> g x = g y -> x = y) -> NoDup l -> NoDup (map g l).
Proof.
  induction l as [|x l IH]; intros Hi Hn; cbn; [constructor|].
  inversion Hn as [|? ? Hx Hl]; subst. constructor.
  - intros H. apply in_map_iff in H as (y & E & Hy). assert (y = x) by (apply Hi; [now right|now left|exact E]). subst. contradiction.
  - apply IH; [|exact Hl]. intros a b Ha Hb. apply Hi; now right.
Qed.

Lemma filter_false {X} (l : list X) : filter (fun _ => false) l = [].
Proof. induction l; cbn; auto. Qed.

(* ---- side conditions on the maps and on one entry *)
Definition km_ok (km : list (text * text)) : Prop := NoDup (map fst km) /\ NoDup (map snd km).
Definition dict_ok (km : list (text * text)) (vm : list (text * list text)) (d : dict) : Prop :=
  NoDup (keys d) /\
  (forall k, In k (keys d) -> ~ In k (map snd km)) /\
  (forall k v a, In (k, v) d -> assoc_t k vm = Some a -> exists s n, v = JStr s /\ last_index s a = Some n).

Lemma km_snd_inj km k1 k2 s : km_ok km -> In (k1, s) km -> In (k2, s) km -> k1 = k2.
Proof.
  intros [_ Hs] H1 H2. assert (E : (k1, s) = (k2, s)) by (apply (NoDup_map_inj snd km); auto). now injection E.
Qed.
Lemma km_fst_inj km k s1 s2 : km_ok km -> In (k, s1) km -> In (k, s2) km -> s1 = s2.
Proof.
  intros [Hf _] H1 H2. assert (E : (k, s1) = (k, s2)) by (apply (NoDup_map_inj fst km); auto). now injection E.
Qed.

(* ---- writer *)
Section Compress.
  Variable km : list (text * text).
  Variable vm : list (text * list text).
  Hypothesis Hkm : km_ok km.

  Let ren := fun k : text => assoc_t k km.
  Let conv := compress_conv vm.

  Lemma compress_rf d kv : dict_ok km vm d -> In kv d -> rf ren conv kv = short_kv km vm kv.
  Proof.
    intros (_ & _ & Hcov) Hi. destruct kv as [k v]. unfold rf, short_kv. cbn [fst snd]. f_equal.
    unfold nv, conv, compress_conv, short_val. destruct (assoc_t k vm) as [a|] eqn:Ea; [|reflexivity].
    destruct (Hcov k v a Hi Ea) as (s & n & -> & En). cbn. now rewrite En.
  Qed.

  Lemma compress_remap_ok d : dict_ok km vm d -> remap_ok ren conv d.
  Proof.
    intros (Hnd & Hfree & Hcov). refine (conj Hnd (conj _ (conj _ _))).
    - intros k v Hi. unfold conv, compress_conv. destruct (assoc_t k vm) as [a|] eqn:Ea; [|eauto].
      destruct (Hcov k v a Hi Ea) as (s & n & -> & En). cbn. rewrite En. eauto.
    - intros k s Hk Er Hs. apply (Hfree s Hs). apply assoc_t_in in Er. change s with (snd (k, s)). now apply in_map.
    - intros k1 k2 s _ _ E1 E2. apply assoc_t_in in E1, E2. eapply km_snd_inj; eauto.
  Qed.

  Lemma compress_dict_short d : dict_ok km vm d -> compress_dict km vm d = Ok (short_dict km vm d).
  Proof.
    intros H. unfold compress_dict. change (remap_dict ren conv d = Ok (short_dict km vm d)).
    rewrite (remap_dict_ok _ _ _ (compress_remap_ok d H)). f_equal.
    unfold RU, RM, short_dict. f_equal.
    - apply map_ext_in. intros kv Hi. apply filter_In in Hi as [Hi _]. now apply compress_rf with d.
    - apply map_ext_in. intros kv Hi. apply filter_In in Hi as [Hi _]. now apply compress_rf with d.
  Qed.
End Compress.

(* ---- reader *)
Lemma inverse_key_map_spec km : inverse_key_map (match jv_key_map km with JDict m => m | _ => [] end)
                                = rev (map (fun kv => (snd kv, fst kv)) km).
Proof.
  unfold inverse_key_map, jv_key_map. f_equal. induction km as [|[k s] km IH]; cbn; [reflexivity|]. now rewrite IH.
Qed.

Definition ikm_of (km : list (text * text)) : list (text * text) := rev (map (fun kv => (snd kv, fst kv)) km).
Definition vmj_of (vm : list (text * list text)) : dict := map (fun kv => (fst kv, JList (map JStr (snd kv)))) vm.

Lemma ikm_some km s k : km_ok km -> In (k, s) km -> assoc_t s (ikm_of km) = Some k.
Proof.
  intros [Hf Hs] Hi. apply in_assoc_t.
  - unfold ikm_of. rewrite map_rev, map_map. cbn. apply NoDup_rev. exact Hs.
  - unfold ikm_of. apply -> in_rev. apply in_map_iff. exists (k, s). split; [reflexivity|exact Hi].
Qed.
Lemma ikm_none km s : ~ In s (map snd km) -> assoc_t s (ikm_of km) = None.
Proof.
  intros H. apply assoc_t_none. unfold ikm_of. rewrite map_rev, map_map. cbn. intros Hi. apply in_rev in Hi. contradiction.
Qed.
Lemma ikm_in km s k : assoc_t s (ikm_of km) = Some k -> In (k, s) km.
Proof.
  intros H. apply assoc_t_in in H. unfold ikm_of in H. apply in_rev in H. apply in_map_iff in H as ([k' s'] & [= <- <-] & Hi). exact Hi.
Qed.

Lemma dget_vmj k vm : dget k (vmj_of vm) = match assoc_t k vm with Some a => Some (JList (map JStr a)) | None => None end.
Proof. induction vm as [|[k' a] vm IH]; cbn; [reflexivity|]. destruct (text_eqb k k'); [reflexivity|exact IH]. Qed.

Lemma last_index_from_nth s a : forall n acc r,
  last_index_from n s a acc = Some r ->
  (acc = Some r) \/ (n <= r /\ nth_error a (r - n) = Some s).
Proof.
  induction a as [|x a IH]; cbn; intros n acc r H; [now left|].
  apply IH in H as [H|[Hle Hn]].
  - destruct (text_eqb s x) eqn:E; [|now left]. injection H as <-. right. split; [lia|].
    rewrite Nat.sub_diag. cbn. apply text_eqb_eq in E. now subst.
  - right. split; [lia|]. replace (r - n) with (S (r - S n)) by lia. exact Hn.
Qed.
Lemma last_index_nth s a n : last_index s a = Some n -> nth_error a n = Some s.
Proof.
  unfold last_index. intros H. apply last_index_from_nth in H as [H|[_ H]]; [discriminate|]. now rewrite Nat.sub_0_r in H.
Qed.

Lemma py_index_nat (a : list jv) n v : nth_error a n = Some v -> py_index a (Z.of_nat n) = Some v.
Proof.
  intros H. unfold py_index. replace (0 <=? Z.of_nat n)%Z with true by (symmetry; apply Z.leb_le; lia).
  now rewrite Nat2Z.id.
Qed.

Section Uncompress.
  Variable km : list (text * text).
  Variable vm : list (text * list text).
  Hypothesis Hkm : km_ok km.

  Let ren := fun k : text => assoc_t k (ikm_of km).
  Let conv := uncompress_conv (vmj_of vm).

  (* the members in the order the reader leaves them: not renamed first *)
  Definition canon_dict (d : dict) : dict := filter (fun kv => negb (is_mapped km kv)) d ++ filter (is_mapped km) d.

  Lemma canon_perm d : Permutation (canon_dict d) d.
  Proof. apply filter_partition_perm. Qed.

  Lemma restore d k v : dict_ok km vm d -> In (k, v) d ->
    let kv2 := short_kv km vm (k, v) in
    nk ren (fst kv2) = k /\
    (exists o, conv (fst kv2) k (snd kv2) = Ok o) /\
    nv ren conv (fst kv2) (snd kv2) = v /\
    rmapped ren kv2 = is_mapped km (k, v).
  Proof.
    intros (Hnd & Hfree & Hcov) Hi. cbn zeta. unfold short_kv. cbn [fst snd].
    assert (Hk : In k (keys d)) by (change k with (fst (k, v)); now apply in_map).
    assert (Enk : nk ren (short_key km k) = k /\ rmapped ren (short_key km k, short_val vm k v) = is_mapped km (k, v)).
    { unfold nk, rmapped, is_mapped, short_key, ren. cbn [fst]. destruct (assoc_t k km) as [s|] eqn:Es.
      - apply assoc_t_in in Es. now rewrite (ikm_some km s k Hkm Es).
      - now rewrite (ikm_none km k (Hfree k Hk)). }
    destruct Enk as [Enk Erm]. split; [exact Enk|].
    assert (Hc : (exists o, conv (short_key km k) k (short_val vm k v) = Ok o) /\
                 (match conv (short_key km k) k (short_val vm k v) with Ok (Some v') => v' | _ => short_val vm k v end) = v).
    { unfold conv, uncompress_conv, short_val. rewrite dget_vmj. destruct (assoc_t k vm) as [a|] eqn:Ea.
      - destruct (Hcov k v a Hi Ea) as (s & n & -> & En). rewrite En. cbn [is_intlike].
        rewrite (py_index_nat (map JStr a) n (JStr s)); [split; eauto|].
        rewrite nth_error_map. now rewrite (last_index_nth s a n En).
      - destruct (is_intlike v); split; eauto. }
    destruct Hc as [Hc1 Hc2]. split; [exact Hc1|]. split; [|exact Erm].
    unfold nv. rewrite Enk. exact Hc2.
  Qed.

  Lemma short_key_inj d k1 k2 : dict_ok km vm d -> In k1 (keys d) -> In k2 (keys d) ->
    short_key km k1 = short_key km k2 -> k1 = k2.
  Proof.
    intros (_ & Hfree & _) H1 H2. unfold short_key.
    destruct (assoc_t k1 km) as [s1|] eqn:E1; destruct (assoc_t k2 km) as [s2|] eqn:E2; intros E.
    - rewrite E in E1. apply assoc_t_in in E1, E2. eapply km_snd_inj; eauto.
    - exfalso. apply (Hfree k2 H2). apply assoc_t_in in E1. rewrite E in E1. change k2 with (snd (k1, k2)). now apply in_map.
    - exfalso. apply (Hfree k1 H1). apply assoc_t_in in E2. rewrite <- E in E2. change k1 with (snd (k2, k1)). now apply in_map.
    - exact E.
  Qed.

  Lemma keys_short_dict d : Permutation (keys (short_dict km vm d)) (map (short_key km) (keys d)).
  Proof.
    unfold short_dict. rewrite <- map_app, map_map.
    rewrite (map_ext _ (fun kv => short_key km (fst kv))) by reflexivity.
    rewrite <- (map_map fst (short_key km)).
    apply Permutation_map, Permutation_map, filter_partition_perm.
  Qed.

  Lemma in_short_dict d kv2 : In kv2 (short_dict km vm d) -> exists k v, In (k, v) d /\ kv2 = short_kv km vm (k, v).
  Proof.
    unfold short_dict. intros H. apply in_app_or in H as [H|H]; apply in_map_iff in H as ([k v] & <- & H);
      apply filter_In in H as [H _]; eauto.
  Qed.

  Lemma uncompress_remap_ok d : dict_ok km vm d -> remap_ok ren conv (short_dict km vm d).
  Proof.
    intros Hd. pose proof Hd as (Hnd & Hfree & Hcov). refine (conj _ (conj _ (conj _ _))).
    - eapply Permutation_NoDup; [apply Permutation_sym, keys_short_dict|].
      apply NoDup_map_inj_in; [|exact Hnd]. intros x y Hx Hy. now apply short_key_inj with d.
    - intros k2 v2 Hi. apply in_short_dict in Hi as (k & v & Hi & E).
      destruct (restore d k v Hd Hi) as (Enk & Hc & _). cbn zeta in Enk, Hc. rewrite <- E in Enk, Hc.
      cbn [fst snd] in Enk, Hc. rewrite Enk. exact Hc.
    - intros k2 k Hk2 Er Hk. unfold ren in Er. apply ikm_in in Er.
      (* k2 is a short name in use, k its long name; k cannot be a key of the short dict *)
      apply (Permutation_in _ (keys_short_dict d)) in Hk2, Hk.
      apply in_map_iff in Hk2 as (a & Ea & Ha). apply in_map_iff in Hk as (b & Eb & Hb).
      assert (a = k).
      { unfold short_key in Ea. destruct (assoc_t a km) as [s|] eqn:Es.
        - subst s. apply assoc_t_in in Es. eapply km_snd_inj; eauto.
        - subst a. exfalso. apply (Hfree k2 Ha). change k2 with (snd (k, k2)). now apply in_map. }
      subst a. unfold short_key in Eb. destruct (assoc_t b km) as [s|] eqn:Es.
      + subst s. apply (Hfree k Ha). apply assoc_t_in in Es. change k with (snd (b, k)). now apply in_map.
      + subst b. destruct Hkm as [Hf _]. rewrite (in_assoc_t k k2 km Hf Er) in Es. discriminate.
    - intros a b k _ _ Ea Eb. unfold ren in *. apply ikm_in in Ea, Eb. eapply km_fst_inj; eauto.
  Qed.

  Lemma uncompress_short d : dict_ok km vm d ->
    uncompress_dict (ikm_of km) (vmj_of vm) (short_dict km vm d) = Ok (canon_dict d).
  Proof.
    intros Hd. unfold uncompress_dict. change (remap_dict ren conv (short_dict km vm d) = Ok (canon_dict d)).
    rewrite (remap_dict_ok _ _ _ (uncompress_remap_ok d Hd)). f_equal.
    unfold RU, RM, short_dict, canon_dict.
    assert (HA : forall l, incl l d ->
               filter (fun kv => negb (rmapped ren kv)) (map (short_kv km vm) l) = map (short_kv km vm) (filter (fun kv => negb (is_mapped km kv)) l) /\
               filter (rmapped ren) (map (short_kv km vm) l) = map (short_kv km vm) (filter (is_mapped km) l)).
    { induction l as [|[k v] l IH]; intros Hincl; [split; reflexivity|].
      assert (Hi : In (k, v) d) by (apply Hincl; now left).
      destruct (restore d k v Hd Hi) as (_ & _ & _ & Erm). cbn zeta in Erm.
      destruct (IH (fun x Hx => Hincl x (or_intror Hx))) as [IH1 IH2].
      cbn [map filter]. rewrite Erm. destruct (is_mapped km (k, v)); cbn [negb map]; rewrite IH1, IH2; split; reflexivity. }
    assert (Hrf : forall l, incl l d -> map (rf ren conv) (map (short_kv km vm) l) = l).
    { induction l as [|[k v] l IH]; intros Hincl; [reflexivity|].
      assert (Hi : In (k, v) d) by (apply Hincl; now left).
      destruct (restore d k v Hd Hi) as (Enk & _ & Env & _). cbn zeta in *.
      cbn [map]. rewrite IH by (intros x Hx; apply Hincl; now right). f_equal.
      unfold rf. now rewrite Enk, Env. }
    set (U := filter (fun kv => negb (is_mapped km kv)) d). set (M := filter (is_mapped km) d).
    assert (HU : incl U d) by (intros x Hx; apply filter_In in Hx; tauto).
    assert (HM : incl M d) by (intros x Hx; apply filter_In in Hx; tauto).
    rewrite !filter_app.
    destruct (HA U HU) as [A1 A2].
    destruct (HA M HM) as [B1 B2].
    rewrite A1, A2, B1, B2.
    assert (EU1 : filter (fun kv => negb (is_mapped km kv)) U = U).
    { apply filter_all_true. intros x Hx. apply filter_In in Hx. tauto. }
    assert (EU2 : filter (is_mapped km) U = []).
    { unfold U. rewrite filter_filter_comm. rewrite (filter_ext_in' _ (fun _ => false)); [apply filter_false|].
      intros x _. destruct (is_mapped km x); reflexivity. }
    assert (EM1 : filter (fun kv => negb (is_mapped km kv)) M = []).
    { unfold M. rewrite filter_filter_comm. rewrite (filter_ext_in' _ (fun _ => false)); [apply filter_false|].
      intros x _. destruct (is_mapped km x); reflexivity. }
    assert (EM2 : filter (is_mapped km) M = M).
    { apply filter_all_true. intros x Hx. apply filter_In in Hx. tauto. }
    rewrite EU1, EU2, EM1, EM2. cbn [map]. rewrite !app_nil_r. cbn [app].
    rewrite (Hrf U HU), (Hrf M HM). reflexivity.
  Qed.
End Uncompress.
