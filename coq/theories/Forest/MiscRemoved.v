(* Removed nodes: what Tree._unregister(node, clear=True) leaves behind on the node object, and what every public
   accessor of node.py then answers or raises.  Executable model, no proofs (MiscRemovedProofs.v).

       node._tree = None; node._parent = None
       if clear:
           node._data = _DELETED_TAG; node._data_id = None; node._node_id = None; node._children = None; node._meta = None

   A [sheap] gives the raw slots of every node object (by identity; 0 is a system root).  The accessors are written
   as the Python methods are, on the slots – so the model also says what they do on a LIVE node as far as only
   pointers are involved; the registry lookups of is_clone / get_clones on a node that still has a tree are outside
   this file ([QLive]: see Mut/Lookup.v).  Attribute access on None is AttributeError, subscripting / iterating None is
   TypeError, as in CPython.  Loops over the parent chain carry explicit fuel.  `_kind` of a TypedNode is NOT cleared. *)
From Coq Require Import List ZArith Bool Arith.
From NT Require Import Sx Rose MiscMapper MiscRepr.
Import ListNotations.

Record slots := SL {
  s_parent : option nat;             (* _parent  : None | an object                               *)
  s_tree : option nat;               (* _tree    : None | the tree (identity)                     *)
  s_children : option (list nat);    (* _children: None | a list object                           *)
  s_data : text;                     (* f"{_data}"                                                *)
  s_data_id : option did;            (* _data_id                                                  *)
  s_node_id : option Z;              (* _node_id                                                  *)
  s_meta : option (list (text * sx));(* _meta                                                     *)
  s_kind : kind                      (* _kind of a TypedNode (None for a plain node)              *)
}.
Definition sheap := nat -> slots.

(* Tree._unregister, the attribute assignments *)
Definition clear_slots (tag : text) (clear : bool) (s : slots) : slots :=
  if clear then SL None None None tag None None None (s_kind s)
  else SL None None (s_children s) (s_data s) (s_data_id s) (s_node_id s) (s_meta s) (s_kind s).

Inductive acc :=
| AName | AData | ADataId | ANodeId | AMeta | ATree | AKind | AParent | AChildren | AGetChildren | AFirstChild | ALastChild
| AIsSystemRoot | AIsTop | AIsLeaf | AHasChildren | AIsClone | AIsFirstSibling | AIsLastSibling
| ASiblings (add_self : bool) | AFirstSibling | ALastSibling | APrevSibling | ANextSibling | AGetIndex
| ADepth | ACalcDepth | ACalcHeight | ACountDescendants (leaves_only : bool) | AIterator (add_self : bool)
| AGetTop | AParentList (add_self bottom_up : bool) | APath | AGetPath (add_self : bool) | AUp (level : Z) | AGetMeta (key : text)
| AGetClones (add_self : bool) | ARepr (cls : text)
| AIsDescendantOf (other : nat) | AIsAncestorOf (other : nat) | ACommonAncestor (other : nat).

Inductive ans :=
| QNone | QBool (b : bool) | QInt (z : Z) | QText (t : text) | QDid (d : did) | QMeta (m : list (text * sx)) | QVal (v : sx)
| QTree (t : nat) | QNode (n : nat) | QNodes (l : list nat) | QErr (code : Z) | QLive.

Definition E_VALUE : Z := 3%Z.
Definition E_TYPE : Z := 7%Z.
Definition E_ATTR : Z := 8%Z.      (* AttributeError / IndexError: no class of their own in harness/common.py:err_class *)

Section Eval.
  Variable h : sheap.
  Variable fuel : nat.

  (* `x._parent` where x itself may be None *)
  Definition parent_of (o : option nat) : Z + option nat :=
    match o with None => inl E_ATTR | Some x => inr (s_parent (h x)) end.

  (* pe = self._parent; while pe is not None: depth += 1; pe = pe._parent *)
  Fixpoint chain_len (k : nat) (pe : option nat) : nat :=
    match k, pe with
    | S k', Some p => S (chain_len k' (s_parent (h p)))
    | _, _ => 0
    end.

  (* parent = start; while parent is not None and parent._parent is not None: res.append(parent); parent = parent._parent *)
  Fixpoint parent_chain (k : nat) (p : option nat) : list nat :=
    match k, p with
    | S k', Some x => match s_parent (h x) with
                      | Some _ => x :: parent_chain k' (s_parent (h x))
                      | None => []
                      end
    | _, _ => []
    end.

  (* _iter_pre *)
  Fixpoint iter_pre (k : nat) (n : nat) : list nat :=
    match k with
    | O => []
    | S k' => match s_children (h n) with
              | Some l => flat_map (fun c => c :: iter_pre k' c) l
              | None => []
              end
    end.

  (* calc_height: deepest level at which a node without children sits *)
  Fixpoint height_at (k : nat) (n : nat) (lvl : nat) : nat :=
    match k with
    | O => lvl
    | S k' => match s_children (h n) with
              | Some (c :: l) => fold_left Nat.max (map (fun x => height_at k' x (S lvl)) (c :: l)) 0
              | _ => lvl
              end
    end.

  Definition no_children (n : nat) : bool := match s_children (h n) with Some (_ :: _) => false | _ => true end.

  (* self._parent._children: AttributeError if _parent is None *)
  Definition sib_list (s : slots) : Z + option (list nat) :=
    match s_parent s with None => inl E_ATTR | Some p => inr (s_children (h p)) end.

  Fixpoint index_in (n : nat) (l : list nat) : option nat :=
    match l with
    | [] => None
    | x :: r => if Nat.eqb x n then Some 0 else match index_in n r with Some k => Some (S k) | None => None end
    end.

  Definition did_text (o : option did) : text :=
    match o with None => t_None | Some (DInt z) => repr_int z | Some (DStr s) => s end.
  Definition did_rtext (o : option did) : text :=
    match o with None => t_None | Some (DInt z) => repr_int z | Some (DStr s) => repr_text s end.

  (* other.is_descendant_of(me) *)
  Definition is_desc (other me : nat) : bool := existsb (Nat.eqb me) (parent_chain fuel (s_parent (h other))).

  Definition eval (n : nat) (a : acc) : ans :=
    let s := h n in
    match a with
    | AName | AData => QText (s_data s)
    | ADataId => match s_data_id s with Some d => QDid d | None => QNone end
    | ANodeId => match s_node_id s with Some z => QInt z | None => QNone end
    | AMeta => match s_meta s with Some m => QMeta m | None => QNone end
    | ATree => match s_tree s with Some t => QTree t | None => QNone end
    | AKind => match s_kind s with Some k => QText k | None => QNone end
    | AParent =>                                          (* p = self._parent; return p if p._parent else None *)
        match s_parent s with
        | None => QErr E_ATTR
        | Some p => match s_parent (h p) with Some _ => QNode p | None => QNone end
        end
    | AChildren | AGetChildren => QNodes (match s_children s with Some l => l | None => [] end)
    | AFirstChild => match s_children s with Some (x :: _) => QNode x | _ => QNone end
    | ALastChild => match s_children s with Some (x :: l) => QNode (last l x) | _ => QNone end
    | AIsSystemRoot => QBool (match s_parent s with None => true | Some _ => false end)
    | AIsTop =>                                           (* self._parent._parent is None *)
        match s_parent s with
        | None => QErr E_ATTR
        | Some p => QBool (match s_parent (h p) with None => true | Some _ => false end)
        end
    | AIsLeaf => QBool (no_children n)
    | AHasChildren => QBool (negb (no_children n))
    | AIsClone => match s_tree s with None => QErr E_ATTR | Some _ => QLive end
    | AGetClones _ => match s_tree s with None => QErr E_ATTR | Some _ => QLive end
    | AIsFirstSibling =>                                  (* self is self._parent._children[0] *)
        match sib_list s with
        | inl e => QErr e
        | inr None => QErr E_TYPE
        | inr (Some []) => QErr E_ATTR
        | inr (Some (x :: _)) => QBool (Nat.eqb x n)
        end
    | AIsLastSibling =>
        match sib_list s with
        | inl e => QErr e
        | inr None => QErr E_TYPE
        | inr (Some []) => QErr E_ATTR
        | inr (Some (x :: l)) => QBool (Nat.eqb (last l x) n)
        end
    | ASiblings add_self =>
        match sib_list s with
        | inl e => QErr e
        | inr None => if add_self then QNone else QErr E_TYPE
        | inr (Some l) => QNodes (if add_self then l else filter (fun x => negb (Nat.eqb x n)) l)
        end
    | AFirstSibling =>
        match sib_list s with
        | inl e => QErr e | inr None => QErr E_TYPE | inr (Some []) => QErr E_ATTR | inr (Some (x :: _)) => QNode x
        end
    | ALastSibling =>
        match sib_list s with
        | inl e => QErr e | inr None => QErr E_TYPE | inr (Some []) => QErr E_ATTR | inr (Some (x :: l)) => QNode (last l x)
        end
    | AGetIndex =>
        match sib_list s with
        | inl e => QErr e | inr None => QErr E_TYPE
        | inr (Some l) => match index_in n l with Some k => QInt (Z.of_nat k) | None => QErr E_VALUE end
        end
    | APrevSibling =>                                     (* if self.is_first_sibling(): return None; ... [idx - 1] *)
        match sib_list s with
        | inl e => QErr e | inr None => QErr E_TYPE | inr (Some []) => QErr E_ATTR
        | inr (Some (x :: l)) =>
            if Nat.eqb x n then QNone
            else match index_in n (x :: l) with
                 | Some (S k) => QNode (nth k (x :: l) 0)
                 | Some O => QNone
                 | None => QErr E_VALUE
                 end
        end
    | ANextSibling =>
        match sib_list s with
        | inl e => QErr e | inr None => QErr E_TYPE | inr (Some []) => QErr E_ATTR
        | inr (Some (x :: l)) =>
            if Nat.eqb (last l x) n then QNone
            else match index_in n (x :: l) with
                 | Some k => match nth_error (x :: l) (S k) with Some y => QNode y | None => QErr E_ATTR end
                 | None => QErr E_VALUE
                 end
        end
    | ADepth | ACalcDepth => QInt (Z.of_nat (chain_len fuel (s_parent s)))
    | ACalcHeight => QInt (Z.of_nat (height_at fuel n 0))
    | ACountDescendants leaves_only =>
        QInt (Z.of_nat (length (filter (fun x => if leaves_only then no_children x else true) (iter_pre fuel n))))
    | AIterator add_self => QNodes ((if add_self then [n] else []) ++ iter_pre fuel n)
    | AGetTop =>                                          (* root = self; while root._parent._parent: root = root._parent *)
        match s_parent s with
        | None => QErr E_ATTR
        | Some _ => QNode (last (parent_chain fuel (Some n)) n)
        end
    | AParentList add_self bottom_up =>
        let l := parent_chain fuel (if add_self then Some n else s_parent s) in
        QNodes (if bottom_up then l else rev l)
    | APath | AGetPath true =>
        QText (match rev (parent_chain fuel (Some n)) with
               | [] => [47%Z]
               | l => flat_map (fun x => 47%Z :: s_data (h x)) l
               end)
    | AGetPath false =>
        QText (match rev (parent_chain fuel (s_parent s)) with
               | [] => [47%Z]
               | l => flat_map (fun x => 47%Z :: s_data (h x)) l
               end)
    | AUp level =>                                        (* level < 1: ValueError; p = p._parent level times; None: ValueError *)
        if (level <? 1)%Z then QErr E_VALUE
        else (fix go (k : nat) (p : nat) : ans :=
                match k with
                | O => QNode p
                | S k' => match s_parent (h p) with None => QErr E_VALUE | Some q => go k' q end
                end) (Z.to_nat level) n
    | AGetMeta key =>
        match s_meta s with
        | None => QNone
        | Some m => match find (fun kv => text_eqb (fst kv) key) m with Some kv => QVal (snd kv) | None => QNone end
        end
    | ARepr cls =>
        QText (match s_kind s with
               | None => cls ++ [60%Z] ++ repr_text (s_data s) ++ [44; 32; 100; 97; 116; 97; 95; 105; 100; 61]%Z ++ did_text (s_data_id s) ++ [62%Z]
               | Some k => cls ++ [60; 107; 105; 110; 100; 61]%Z ++ k ++ t_sep ++ s_data s ++ [44; 32; 100; 97; 116; 97; 95; 105; 100; 61]%Z
                           ++ did_rtext (s_data_id s) ++ [62%Z]
               end)
    | AIsDescendantOf other => QBool (existsb (Nat.eqb other) (parent_chain fuel (s_parent s)))
    | AIsAncestorOf other => QBool (is_desc other n)
    | ACommonAncestor other =>
        (* if self._tree is other._tree: first of self's chain (bottom up, self included) that is in other's chain *)
        let same := match s_tree s, s_tree (h other) with
                    | None, None => true | Some a, Some b => Nat.eqb a b | _, _ => false end in
        if same then
          let oc := parent_chain fuel (Some other) in
          match find (fun p => existsb (Nat.eqb p) oc) (parent_chain fuel (Some n)) with
          | Some p => QNode p
          | None => QNone
          end
        else QNone
    end.
End Eval.

(* the node identities an answer mentions *)
Definition nodes_of (r : ans) : list nat :=
  match r with QNode n => [n] | QNodes l => l | _ => [] end.

Definition sx_ans (r : ans) : sx :=
  match r with
  | QNone => L [A 0%Z]
  | QBool b => L [A 1%Z; sx_bool b]
  | QInt z => L [A 2%Z; A z]
  | QText t => L [A 3%Z; sx_text t]
  | QDid d => L [A 4%Z; sx_did d]
  | QNode n => L [A 5%Z; sx_nat n]
  | QNodes l => L [A 6%Z; L (map sx_nat l)]
  | QTree t => L [A 7%Z]
  | QMeta m => L [A 8%Z; sx_meta m]
  | QVal v => L [A 9%Z; v]
  | QErr c => L [A (-1)%Z; A c]
  | QLive => L [A (-2)%Z]
  end.
