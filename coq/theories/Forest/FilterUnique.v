(* C08 — when the copying form is refused by add_child's uniqueness check.
   [sib_dup g]: the forest g has two siblings with one data_id.  The copying
   form raises UniqueConstraintError iff the tree it would build has such a
   pair; by the main theorem that tree is dbl v mk (F v f) up to node identity.
   Without the D24 leaves this never happens on a legal tree (sub-forests of
   a legal tree are legal); with them it happens exactly when an accepted,
   visited node keeps a child that carries the node's own data_id. *)
From Coq Require Import List ZArith Bool Arith Lia.
From NT Require Import Sx Rose ListFacts RoseFacts Filter FilterProofs.
Import ListNotations.

(* data_ids only *)
Fixpoint ddup (l : list did) : bool :=
  match l with [] => false | x :: r => existsb (did_eqb x) r || ddup r end.

Lemma existsb_rdid x l : existsb (fun y => did_eqb x (rdid y)) l = existsb (did_eqb x) (map rdid l).
Proof. induction l as [|y l IH]; [reflexivity|]. cbn [existsb map]. rewrite IH. reflexivity. Qed.

Lemma did_dup_cons x r : did_dup (x :: r) = existsb (fun y => did_eqb (rdid x) (rdid y)) r || did_dup r.
Proof. reflexivity. Qed.

Lemma did_dup_ddup l : did_dup l = ddup (map rdid l).
Proof.
  induction l as [|x l IH]; [reflexivity|]. cbn [did_dup map ddup]. rewrite IH, existsb_rdid. reflexivity.
Qed.

Lemma existsb_sublist {X} (p : X -> bool) a b : sublist a b -> existsb p a = true -> existsb p b = true.
Proof.
  induction 1 as [b|a y b _ IH|y a b _ IH]; cbn [existsb]; intros H.
  - discriminate H.
  - rewrite (IH H). apply orb_true_r.
  - apply orb_true_iff in H. destruct H as [H|H]; [rewrite H; reflexivity|rewrite (IH H); apply orb_true_r].
Qed.

Lemma ddup_sublist a b : sublist a b -> ddup a = true -> ddup b = true.
Proof.
  induction 1 as [b|a y b _ IH|y a b S IH]; cbn [ddup]; intros H.
  - discriminate H.
  - rewrite (IH H). apply orb_true_r.
  - apply orb_true_iff in H. destruct H as [H|H].
    + rewrite (existsb_sublist _ _ _ S H). reflexivity.
    + rewrite (IH H). apply orb_true_r.
Qed.

Lemma emb_top_dids a b : emb a b -> sublist (map rdid a) (map rdid b).
Proof. induction 1; cbn [map rdid rinfo]; constructor; assumption. Qed.

(* node identities play no role *)
Lemma rdid_erase t : rdid (erase t) = rdid t.
Proof. destruct t; reflexivity. Qed.

Lemma map_rdid_erase l : map rdid (map erase l) = map rdid l.
Proof. rewrite map_map. apply map_ext. intros t. apply rdid_erase. Qed.

Lemma sib_dup_t_unfold id i ch : sib_dup_t (T id i ch) = did_dup ch || existsb sib_dup_t ch.
Proof. reflexivity. Qed.

Lemma sib_dup_f_erase_of l : Forall (fun t => sib_dup_t (erase t) = sib_dup_t t) l ->
  existsb sib_dup_t (map erase l) = existsb sib_dup_t l.
Proof. induction 1 as [|x l Hx _ IH]; [reflexivity|]. cbn [map existsb]. rewrite Hx, IH. reflexivity. Qed.

Lemma sib_dup_t_erase : forall t, sib_dup_t (erase t) = sib_dup_t t.
Proof.
  induction t as [id i ch IH] using rt_ind'. cbn [erase]. rewrite !sib_dup_t_unfold.
  rewrite (sib_dup_f_erase_of ch IH), !did_dup_ddup, map_rdid_erase. reflexivity.
Qed.

Lemma sib_dup_erase f : sib_dup (map erase f) = sib_dup f.
Proof.
  unfold sib_dup. rewrite !did_dup_ddup, map_rdid_erase. f_equal.
  apply sib_dup_f_erase_of. apply Forall_forall. intros t _. apply sib_dup_t_erase.
Qed.

Lemma sib_dup_modulo_ids a b : same_modulo_ids a b -> sib_dup a = sib_dup b.
Proof. unfold same_modulo_ids. intros H. rewrite <- (sib_dup_erase a), H. apply sib_dup_erase. Qed.

(* sub-forests of a legal forest are legal *)
Lemma emb_sib_dup a b : emb a b -> sib_dup b = false -> sib_dup a = false.
Proof.
  unfold sib_dup. induction 1 as [b|a t b E IH|id i ch' ch a b E1 IH1 E2 IH2]; intros H.
  - reflexivity.
  - apply orb_false_iff in H. destruct H as [H1 H2]. cbn [existsb] in H2. apply orb_false_iff in H2. destruct H2 as [_ H2].
    apply IH. apply orb_false_iff. split; [|exact H2].
    rewrite did_dup_ddup in *. cbn [map ddup] in H1. apply orb_false_iff in H1. exact (proj2 H1).
  - apply orb_false_iff in H. destruct H as [H1 H2]. cbn [existsb] in H2. apply orb_false_iff in H2. destruct H2 as [H2 H3].
    rewrite sib_dup_t_unfold in H2.
    assert (Hd : did_dup (T id i ch' :: a) = false).
    { destruct (did_dup (T id i ch' :: a)) eqn:Ed; [|reflexivity]. rewrite did_dup_ddup in Ed, H1.
      rewrite (ddup_sublist _ _ (emb_top_dids _ _ (emb_keep id i ch' ch a b E1 E2)) Ed) in H1. discriminate H1. }
    rewrite Hd. cbn [orb existsb]. rewrite sib_dup_t_unfold.
    assert (Hrest : did_dup a || existsb sib_dup_t a = false).
    { apply IH2. apply orb_false_iff. split; [|exact H3].
      rewrite did_dup_ddup in *. cbn [map ddup] in H1. apply orb_false_iff in H1. exact (proj2 H1). }
    apply orb_false_iff in Hrest. destruct Hrest as [_ Hrest]. rewrite Hrest, orb_false_r.
    exact (IH1 H2).
Qed.

(* a node with a child that carries the node's own data_id *)
Fixpoint pc_dup_t (t : rt) : bool :=
  match t with T _ i ch => existsb (fun c => did_eqb (i_did i) (rdid c)) ch || existsb pc_dup_t ch end.
Definition pc_dup (f : forest) : bool := existsb pc_dup_t f.

Lemma emb_pc_dup a b : emb a b -> pc_dup b = false -> pc_dup a = false.
Proof.
  unfold pc_dup. induction 1 as [b|a t b E IH|id i ch' ch a b E1 IH1 E2 IH2]; intros H.
  - reflexivity.
  - cbn [existsb] in H. apply orb_false_iff in H. exact (IH (proj2 H)).
  - cbn [existsb pc_dup_t] in *. apply orb_false_iff in H. destruct H as [H1 H2].
    apply orb_false_iff in H1. destruct H1 as [H0 H1].
    rewrite (IH2 H2), (IH1 H1), !orb_false_r.
    destruct (existsb (fun c => did_eqb (i_did i) (rdid c)) ch') eqn:Ex; [|reflexivity].
    rewrite <- H0. symmetry.
    assert (S : sublist (map rdid ch') (map rdid ch)) by exact (emb_top_dids _ _ E1).
    assert (Em : forall l, existsb (fun c => did_eqb (i_did i) (rdid c)) l = existsb (did_eqb (i_did i)) (map rdid l)).
    { induction l as [|y l IHl]; [reflexivity|]. cbn [existsb map]. rewrite IHl. reflexivity. }
    rewrite Em in *. exact (existsb_sublist _ _ _ S Ex).
Qed.

Section P.
Variable v : nat -> verdict.
Variable mk : info -> info.
Hypothesis mk_did : forall i, i_did (mk i) = i_did i.   (* re-creating a node never changes its data_id *)

Lemma rdid_dbl t : rdid (dbl_t v mk t) = rdid t.
Proof. destruct t as [id i ch]. cbn [dbl_t]. destruct (v id); unfold rdid; cbn [rinfo]; apply mk_did. Qed.

Lemma map_rdid_dbl l : map rdid (map (dbl_t v mk) l) = map rdid l.
Proof. rewrite map_map. apply map_ext. intros t. apply rdid_dbl. Qed.

Lemma existsb_did_map i l : existsb (fun c => did_eqb (i_did i) (rdid c)) l = existsb (did_eqb (i_did i)) (map rdid l).
Proof. induction l as [|y l IHl]; [reflexivity|]. cbn [existsb map]. rewrite IHl. reflexivity. Qed.

(* the D24 leaves make a sibling pair exactly where a doubled node has a child with its own data_id *)
Definition dbl_safe (t : rt) : Prop := sib_dup_t t = false -> pc_dup_t t = false -> sib_dup_t (dbl_t v mk t) = false.

Lemma dbl_safe_f l : Forall dbl_safe l -> existsb sib_dup_t l = false -> existsb pc_dup_t l = false ->
  existsb sib_dup_t (map (dbl_t v mk) l) = false.
Proof.
  induction 1 as [|x l Hx _ IH]; intros H1 H2; [reflexivity|]. cbn [existsb map] in *.
  apply orb_false_iff in H1. apply orb_false_iff in H2. destruct H1 as [A1 B1], H2 as [A2 B2].
  rewrite (Hx A1 A2), (IH B1 B2). reflexivity.
Qed.

Lemma dbl_t_safe : forall t, dbl_safe t.
Proof.
  induction t as [id i ch IH] using rt_ind'. intros H1 H2. rewrite sib_dup_t_unfold in H1.
  cbn [pc_dup_t] in H2. apply orb_false_iff in H1. apply orb_false_iff in H2. destruct H1 as [A1 B1], H2 as [A2 B2].
  pose proof (dbl_safe_f ch IH B1 B2) as Hk.
  assert (Hd : did_dup (map (dbl_t v mk) ch) = false) by (rewrite did_dup_ddup, map_rdid_dbl, <- did_dup_ddup; exact A1).
  cbn [dbl_t]. destruct (v id); rewrite sib_dup_t_unfold.
  - rewrite did_dup_cons. cbn [existsb]. rewrite sib_dup_t_unfold. cbn [did_dup existsb orb].
    change (rdid (T id (mk i) [])) with (i_did (mk i)). rewrite mk_did.
    rewrite existsb_did_map, map_rdid_dbl, <- existsb_did_map, A2, Hd, Hk. reflexivity.
  - rewrite Hd, Hk. reflexivity.
  - rewrite Hd, Hk. reflexivity.
  - rewrite did_dup_cons. cbn [existsb]. rewrite sib_dup_t_unfold. cbn [did_dup existsb orb].
    change (rdid (T id (mk i) [])) with (i_did (mk i)). rewrite mk_did.
    rewrite existsb_did_map, map_rdid_dbl, <- existsb_did_map, A2, Hd, Hk. reflexivity.
  - rewrite A1, B1. reflexivity.
  - rewrite Hd, Hk. reflexivity.
Qed.

Lemma dbl_sib_dup g : sib_dup g = false -> pc_dup g = false -> sib_dup (dbl v mk g) = false.
Proof.
  unfold sib_dup, pc_dup, dbl. intros H1 H2. apply orb_false_iff in H1. destruct H1 as [A1 B1].
  rewrite did_dup_ddup, map_rdid_dbl, <- did_dup_ddup, A1. cbn [orb].
  apply dbl_safe_f; try assumption. apply Forall_forall. intros t _. apply dbl_t_safe.
Qed.

(* the copying form is refused iff the doubled result has a sibling pair with one data_id *)
Theorem copy_refused_iff f nx :
  api_filtered mk (Some v) f nx = (if sib_dup (dbl v mk (F v f)) then EUnique else Ok (fst (add_filtered v mk f nx))) /\
  api_copy mk (Some v) f nx = api_filtered mk (Some v) f nx.
Proof.
  unfold api_filtered, api_copy, copy_result.
  rewrite (sib_dup_modulo_ids _ _ (add_filtered_is_dbl_F v mk f nx)). split; reflexivity.
Qed.

(* never on a tree without a child carrying its parent's data_id ... *)
Theorem copy_not_refused f nx : sib_dup f = false -> pc_dup f = false ->
  api_filtered mk (Some v) f nx = Ok (fst (add_filtered v mk f nx)).
Proof.
  intros H1 H2. rewrite (proj1 (copy_refused_iff f nx)).
  rewrite (dbl_sib_dup (F v f)); [reflexivity| |].
  - exact (emb_sib_dup _ _ (F_emb v f) H1).
  - exact (emb_pc_dup _ _ (F_emb v f) H2).
Qed.

(* ... and never at all without the D24 leaves: F of a legal tree is legal *)
Theorem F_legal f : sib_dup f = false -> sib_dup (F v f) = false.
Proof. exact (emb_sib_dup _ _ (F_emb v f)). Qed.

(* the plain copy of a legal tree is never refused *)
Theorem plain_copy_not_refused f nx : sib_dup f = false -> api_copy mk None f nx = Ok (fst (copy_f f nx)).
Proof.
  intros H. unfold api_copy, copy_result.
  rewrite (sib_dup_modulo_ids (fst (copy_f f nx)) f (copy_f_erase f nx)), H. reflexivity.
Qed.

End P.
