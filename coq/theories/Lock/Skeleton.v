(* Lock skeletons generated from the source (gen/Generated.v: [lev], paths with
   [Call m]) and their expansion to programs of the lock machine.
   Executable definitions only; proofs are in SkeletonProofs.v.

   A skeleton is the list of control-flow paths of one snapshot operation.
   [Call m] = the operation re-enters a snapshot operation with method id m on
   the same tree; which override runs is decided by Python's dynamic dispatch,
   so the model lets it be ANY table entry with that method id (Tree.save and
   TypedTree.save for `self.save(..)`), and any of its paths.  Expansion is the
   inductive relation [exp] (all finite unfoldings, recursion included);
   [expansions] enumerates the unfoldings of call depth <= fuel. *)
From Coq Require Import List Arith Bool.
From NTGen Require Import Generated.
From NT Require Import RLock.
Import ListNotations.

Definition table := list (nat * list (list lev)).

Definition callees (tbl : table) (m : nat) : list (list lev) :=
  flat_map (fun e => if fst e =? m then snd e else []) tbl.

(* bracket check at Call level: a Call is neutral, the callee brackets itself *)
Fixpoint brkC (d : nat) (p : list lev) : bool :=
  match p with
  | [] => d =? 0
  | Acq :: r => brkC (S d) r
  | Rel :: r => match d with 0 => false | S d' => brkC d' r end
  | Read :: r => (0 <? d) && brkC d r
  | Call _ :: r => brkC d r
  end.

Definition table_bracketed (tbl : table) : bool :=
  forallb (fun e => forallb (brkC 0) (snd e)) tbl.

(* outermost sections at Call level: an Acq at depth 0 opens one, a Call at depth 0
   contributes the (at most one, if the table is [table_onesec]) section of its callee *)
Fixpoint nsecC (d : nat) (p : list lev) : nat :=
  match p with
  | [] => 0
  | Acq :: r => (match d with 0 => 1 | S _ => 0 end) + nsecC (S d) r
  | Rel :: r => nsecC (pred d) r
  | Read :: r => nsecC d r
  | Call _ :: r => (match d with 0 => 1 | S _ => 0 end) + nsecC d r
  end.

Definition table_onesec (tbl : table) : bool :=
  forallb (fun e => forallb (fun p => nsecC 0 p <=? 1) (snd e)) tbl.

Inductive exp (tbl : table) : list lev -> prog -> Prop :=
| exp_nil : exp tbl [] []
| exp_acq r q : exp tbl r q -> exp tbl (Acq :: r) (EAcq :: q)
| exp_rel r q : exp tbl r q -> exp tbl (Rel :: r) (ERel :: q)
| exp_read r q : exp tbl r q -> exp tbl (Read :: r) (ERead :: q)
| exp_call m r body q1 q2 :
    In body (callees tbl m) -> exp tbl body q1 -> exp tbl r q2 ->
    exp tbl (Call m :: r) (q1 ++ q2).

Fixpoint expansions (tbl : table) (fuel : nat) : list lev -> list prog :=
  fix go (p : list lev) : list prog :=
    match p with
    | [] => [[]]
    | Acq :: r => map (cons EAcq) (go r)
    | Rel :: r => map (cons ERel) (go r)
    | Read :: r => map (cons ERead) (go r)
    | Call m :: r =>
        match fuel with
        | 0 => []
        | S f =>
            let heads := flat_map (expansions tbl f) (callees tbl m) in
            flat_map (fun q1 => map (app q1) (go r)) heads
        end
    end.

(* all unfoldings (call depth <= fuel) of all paths of all operations *)
Definition all_expansions (tbl : table) (fuel : nat) : list prog :=
  flat_map (fun e => flat_map (expansions tbl fuel) (snd e)) tbl.

(* consecutive reads are one read (the generator collapses them as well) *)
Fixpoint collapse (p : prog) : prog :=
  match p with
  | ERead :: ((ERead :: _) as r) => collapse r
  | e :: r => e :: collapse r
  | [] => []
  end.

Fixpoint prog_eqb (a b : prog) : bool :=
  match a, b with
  | [], [] => true
  | x :: a', y :: b' => ev_eqb x y && prog_eqb a' b'
  | _, _ => false
  end.

(* the unfoldings of operation number i of the table *)
Definition op_expansions (tbl : table) (fuel i : nat) : list prog :=
  match nth_error tbl i with
  | Some e => map collapse (flat_map (expansions tbl fuel) (snd e))
  | None => []
  end.
