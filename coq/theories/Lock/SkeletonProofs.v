(* Every finite unfolding of a generated lock skeleton is a bracketed, Write-free
   program with at most one outermost critical section - for ALL unfoldings
   (recursion through `self.save(fp)` and dynamic dispatch included), given the
   two table-level checks [table_bracketed] and [table_onesec] (decided by
   vm_compute on the generated table in Properties/C18.v). *)
From Coq Require Import List Arith Bool Lia.
From NTGen Require Import Generated.
From NT Require Import RLock Skeleton.
Import ListNotations.

(* a bracketed block is transparent for the bracket check of its context *)
Lemma brk_app : forall q1 a d q2, brk a q1 = true -> brk (a + d) (q1 ++ q2) = brk d q2.
Proof.
  induction q1 as [|e q1 IH]; intros a d q2 H; cbn [app].
  - cbn [brk] in H. apply Nat.eqb_eq in H. subst a. reflexivity.
  - destruct e; cbn [brk] in *.
    + apply (IH (S a) d q2 H).
    + destruct a as [|a']; [discriminate|]. cbn [Nat.add]. apply (IH a' d q2 H).
    + apply andb_true_iff in H. destruct H as [H1 H2]. rewrite (IH a d q2 H2).
      apply Nat.ltb_lt in H1. assert (0 <? a + d = true) as -> by (apply Nat.ltb_lt; lia). reflexivity.
    + apply andb_true_iff in H. destruct H as [H1 H2]. rewrite (IH a d q2 H2).
      apply Nat.ltb_lt in H1. assert (0 <? a + d = true) as -> by (apply Nat.ltb_lt; lia). reflexivity.
Qed.

(* ... opens no outermost section when it runs inside a section ... *)
Lemma nsec_app_inner : forall q1 a d q2, brk a q1 = true -> 0 < d -> nsec (a + d) (q1 ++ q2) = nsec d q2.
Proof.
  induction q1 as [|e q1 IH]; intros a d q2 H Hd; cbn [app].
  - cbn [brk] in H. apply Nat.eqb_eq in H. subst a. reflexivity.
  - destruct e; cbn [brk nsec] in *.
    + destruct (a + d) as [|k] eqn:K; [lia|]. rewrite <- K. apply (IH (S a) d q2 H Hd).
    + destruct a as [|a']; [discriminate|]. cbn [Nat.add pred]. apply (IH a' d q2 H Hd).
    + apply andb_true_iff in H. destruct H as [_ H]. apply (IH a d q2 H Hd).
    + apply andb_true_iff in H. destruct H as [_ H]. apply (IH a d q2 H Hd).
Qed.

(* ... and contributes its own sections when it runs at depth 0 *)
Lemma nsec_app_outer : forall q1 a q2, brk a q1 = true -> nsec a (q1 ++ q2) = nsec a q1 + nsec 0 q2.
Proof.
  induction q1 as [|e q1 IH]; intros a q2 H; cbn [app].
  - cbn [brk] in H. apply Nat.eqb_eq in H. subst a. reflexivity.
  - destruct e; cbn [brk nsec] in *.
    + rewrite (IH (S a) q2 H). lia.
    + destruct a as [|a']; [discriminate|]. cbn [pred]. apply (IH a' q2 H).
    + apply andb_true_iff in H. destruct H as [_ H]. apply (IH a q2 H).
    + apply andb_true_iff in H. destruct H as [_ H]. apply (IH a q2 H).
Qed.

Lemma callee_in_table tbl m body : In body (callees tbl m) -> exists e, In e tbl /\ In body (snd e).
Proof.
  unfold callees. intros H. apply in_flat_map in H. destruct H as [e [He Hb]].
  exists e. split; [exact He|]. destruct (fst e =? m); [exact Hb|destruct Hb].
Qed.

Lemma table_bracketed_callee tbl m body : table_bracketed tbl = true -> In body (callees tbl m) -> brkC 0 body = true.
Proof.
  intros T H. destruct (callee_in_table _ _ _ H) as [e [He Hb]]. unfold table_bracketed in T.
  rewrite forallb_forall in T. specialize (T e He). rewrite forallb_forall in T. apply T. exact Hb.
Qed.

Lemma table_onesec_callee tbl m body : table_onesec tbl = true -> In body (callees tbl m) -> nsecC 0 body <= 1.
Proof.
  intros T H. destruct (callee_in_table _ _ _ H) as [e [He Hb]]. unfold table_onesec in T.
  rewrite forallb_forall in T. specialize (T e He). rewrite forallb_forall in T. apply Nat.leb_le. apply T. exact Hb.
Qed.

Theorem exp_bracketed tbl p q : table_bracketed tbl = true -> exp tbl p q ->
  forall d, brkC d p = true -> brk d q = true.
Proof.
  intros T E. induction E as [|r q E IH|r q E IH|r q E IH|m r body q1 q2 Hb E1 IH1 E2 IH2]; intros d B; cbn [brkC brk] in *.
  - exact B.
  - apply IH. exact B.
  - destruct d; [discriminate|]. apply IH. exact B.
  - apply andb_true_iff in B. destruct B as [B1 B2]. rewrite B1. apply IH. exact B2.
  - pose proof (IH1 0 (table_bracketed_callee _ _ _ T Hb)) as H1.
    rewrite <- (Nat.add_0_l d). rewrite (brk_app q1 0 d q2 H1). apply IH2. exact B.
Qed.

Theorem exp_sections tbl p q : table_bracketed tbl = true -> table_onesec tbl = true -> exp tbl p q ->
  forall d, brkC d p = true -> nsec d q <= nsecC d p.
Proof.
  intros T O E. induction E as [|r q E IH|r q E IH|r q E IH|m r body q1 q2 Hb E1 IH1 E2 IH2]; intros d B; cbn [brkC nsec nsecC] in *.
  - lia.
  - specialize (IH (S d) B). lia.
  - destruct d; [discriminate|]. cbn [pred]. apply IH. exact B.
  - apply andb_true_iff in B. destruct B as [B1 B2]. apply IH. exact B2.
  - pose proof (table_bracketed_callee _ _ _ T Hb) as Bb.
    pose proof (exp_bracketed tbl body q1 T E1 0 Bb) as H1.
    destruct d as [|d].
    + rewrite (nsec_app_outer q1 0 q2 H1). specialize (IH1 0 Bb). specialize (IH2 0 B).
      pose proof (table_onesec_callee _ _ _ O Hb). lia.
    + change (S d) with (0 + S d). rewrite (nsec_app_inner q1 0 (S d) q2 H1 (Nat.lt_0_succ d)).
      specialize (IH2 (S d) B). cbn [Nat.add]. lia.
Qed.

Theorem exp_no_write tbl p q : exp tbl p q -> writes q = false.
Proof.
  unfold writes. intros E. induction E as [|r q E IH|r q E IH|r q E IH|m r body q1 q2 Hb E1 IH1 E2 IH2]; cbn [existsb ev_eqb orb]; try assumption; try reflexivity.
  rewrite existsb_app, IH1, IH2. reflexivity.
Qed.

(* what the theorems of RLockProofs need of a reader thread, for every unfolding of every path of the table *)
Corollary exp_snapshot tbl e p q :
  table_bracketed tbl = true -> table_onesec tbl = true -> In e tbl -> In p (snd e) -> exp tbl p q ->
  bracketed q = true /\ one_section q = true /\ writes q = false.
Proof.
  intros T O He Hp E.
  assert (B : brkC 0 p = true).
  { unfold table_bracketed in T. rewrite forallb_forall in T. specialize (T e He). rewrite forallb_forall in T. apply T. exact Hp. }
  assert (S1 : nsecC 0 p <= 1).
  { unfold table_onesec in O. rewrite forallb_forall in O. specialize (O e He). rewrite forallb_forall in O. apply Nat.leb_le. apply O. exact Hp. }
  split; [exact (exp_bracketed tbl p q T E 0 B)|]. split; [|exact (exp_no_write tbl p q E)].
  unfold one_section. apply Nat.leb_le. pose proof (exp_sections tbl p q T O E 0 B). lia.
Qed.

(* the bounded enumerator only produces unfoldings *)
Theorem expansions_sound tbl : forall fuel p q, In q (expansions tbl fuel p) -> exp tbl p q.
Proof.
  induction fuel as [|f IHf]; intros p; induction p as [|x r IHr]; intros q H.
  - cbn in H. destruct H as [<-|[]]. constructor.
  - destruct x; cbn in H.
    + apply in_map_iff in H. destruct H as [q' [<- H]]. constructor. apply IHr. exact H.
    + apply in_map_iff in H. destruct H as [q' [<- H]]. constructor. apply IHr. exact H.
    + apply in_map_iff in H. destruct H as [q' [<- H]]. constructor. apply IHr. exact H.
    + destruct H.
  - cbn in H. destruct H as [<-|[]]. constructor.
  - destruct x; cbn in H.
    + apply in_map_iff in H. destruct H as [q' [<- H]]. constructor. apply IHr. exact H.
    + apply in_map_iff in H. destruct H as [q' [<- H]]. constructor. apply IHr. exact H.
    + apply in_map_iff in H. destruct H as [q' [<- H]]. constructor. apply IHr. exact H.
    + apply in_flat_map in H. destruct H as [q1 [H1 H2]].
      apply in_map_iff in H2. destruct H2 as [q2 [<- H2]].
      apply in_flat_map in H1. destruct H1 as [body [Hb H1]].
      apply (exp_call tbl m r body q1 q2 Hb); [apply IHf; exact H1|apply IHr; exact H2].
Qed.
