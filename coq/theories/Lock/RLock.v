(* Layer C - the re-entrant tree lock as a machine (executable model, no proofs).

   nutree: Tree.__init__  self._lock = threading.RLock()
           Tree.__enter__ self._lock.acquire()      Tree.__exit__ self._lock.release()

   A thread is a list of events Acq | Rel | Read | Write (its remaining
   program).  The machine interleaves any number of threads under an arbitrary
   schedule (a list of thread ids).  A step of a thread that is finished, that
   does not exist, or whose next event is an Acq while ANOTHER thread owns the
   lock, leaves the state unchanged (the thread is blocked / the step is
   skipped) - so every list of thread ids is a schedule, and "all schedules"
   includes all the unfair ones.

   What is NOT here: threading.RLock itself, the GIL, atomicity of a single
   Python read.  The model is of the bracket discipline only. *)
From Coq Require Import List Arith Bool.
Import ListNotations.

Inductive ev := EAcq | ERel | ERead | EWrite.
Definition tid := nat.
Definition prog := list ev.

Definition ev_eqb (a b : ev) : bool :=
  match a, b with
  | EAcq, EAcq | ERel, ERel | ERead, ERead | EWrite, EWrite => true
  | _, _ => false
  end.

(* one executed event, with the version counter, the lock owner and the lock
   depth as they were immediately BEFORE the event *)
Record entry := E { e_tid : tid; e_ev : ev; e_ver : nat; e_owner : option tid; e_depth : nat }.

Record st := St {
  owner : option tid;      (* RLock._owner *)
  depth : nat;             (* RLock._count *)
  progs : list prog;       (* remaining program of thread 0, 1, ... *)
  ver   : nat;             (* number of Writes executed so far = identity of the tree state *)
  log   : list entry       (* executed events, NEWEST FIRST *)
}.

Fixpoint upd {X} (l : list X) (n : nat) (x : X) : list X :=
  match l, n with
  | [], _ => []
  | _ :: r, 0 => x :: r
  | y :: r, S n' => y :: upd r n' x
  end.

Definition is_owner (o : option tid) (t : tid) : bool :=
  match o with Some u => u =? t | None => false end.

(* next event of thread t and the rest of its program *)
Definition next (s : st) (t : tid) : option (ev * prog) :=
  match nth_error (progs s) t with
  | Some (e :: r) => Some (e, r)
  | _ => None
  end.

(* RLock.acquire() is enabled iff the lock is free or owned by the caller;
   everything else is always enabled *)
Definition enabled (s : st) (t : tid) : bool :=
  match next s t with
  | None => false
  | Some (EAcq, _) => match owner s with None => true | Some u => u =? t end
  | Some _ => true
  end.

(* lock state: owner, depth, version *)
Definition lstate := (option tid * nat * nat)%type.

(* the effect of thread t executing event e on the lock (o, d) and the version v;
   None = blocked (only an Acq while ANOTHER thread owns the lock) *)
Definition fire (o : option tid) (d v : nat) (t : tid) (e : ev) : option lstate :=
  match e with
  | EAcq =>
      match o with
      | None => Some (Some t, 1, v)
      | Some u => if u =? t then Some (Some t, S d, v) else None
      end
  | ERel =>
      if is_owner o t then
        match d with
        | S (S d') => Some (Some t, S d', v)
        | _ => Some (None, 0, v)
        end
      else Some (o, d, v)
           (* Python: RuntimeError "cannot release un-acquired lock"; the lock is
              untouched.  Unreachable for bracketed programs (proved). *)
  | ERead => Some (o, d, v)
  | EWrite => Some (o, d, S v)
  end.

(* thread t executes event e (rest r), the lock becomes (o, d), the version v *)
Definition adv (s : st) (t : tid) (e : ev) (r : prog) (o : option tid) (d v : nat) : st :=
  St o d (upd (progs s) t r) v (E t e (ver s) (owner s) (depth s) :: log s).

Definition step (t : tid) (s : st) : st :=
  match next s t with
  | None => s
  | Some (e, r) =>
      match fire (owner s) (depth s) (ver s) t e with
      | None => s                                           (* blocked *)
      | Some (o, d, v) => adv s t e r o d v
      end
  end.

Definition run (sched : list tid) (s : st) : st := fold_left (fun s t => step t s) sched s.

Definition init (ps : list prog) : st := St None 0 ps 0 [].

Definition finished (s : st) : bool := forallb (fun p => match p with [] => true | _ => false end) (progs s).

(* ---- the bracket discipline ------------------------------------------- *)
(* [brk d p]: started at lock depth d, program p never releases below 0,
   executes every Read/Write at depth >= 1 and ends at depth 0 *)
Fixpoint brk (d : nat) (p : prog) : bool :=
  match p with
  | [] => d =? 0
  | EAcq :: r => brk (S d) r
  | ERel :: r => match d with 0 => false | S d' => brk d' r end
  | ERead :: r | EWrite :: r => (0 <? d) && brk d r
  end.

Definition bracketed (p : prog) : bool := brk 0 p.

(* the WRITERS' discipline of the property statement ("mutate only inside `with tree:`"):
   Acq/Rel balanced, never released below 0, every Write at depth >= 1 - Reads anywhere
   (a thread may look at the tree without the lock; it just gets no snapshot guarantee) *)
Fixpoint wbrk (d : nat) (p : prog) : bool :=
  match p with
  | [] => d =? 0
  | EAcq :: r => wbrk (S d) r
  | ERel :: r => match d with 0 => false | S d' => wbrk d' r end
  | ERead :: r => wbrk d r
  | EWrite :: r => (0 <? d) && wbrk d r
  end.

Definition disciplined (p : prog) : bool := wbrk 0 p.

Definition writes (p : prog) : bool := existsb (ev_eqb EWrite) p.

(* number of OUTERMOST critical sections of p (acquisitions at depth 0), started at depth d *)
Fixpoint nsec (d : nat) (p : prog) : nat :=
  match p with
  | [] => 0
  | EAcq :: r => (match d with 0 => 1 | S _ => 0 end) + nsec (S d) r
  | ERel :: r => nsec (pred d) r
  | ERead :: r | EWrite :: r => nsec d r
  end.

(* a snapshot: no Write, and everything in at most one outermost critical section *)
Definition one_section (p : prog) : bool := nsec 0 p <=? 1.

(* ---- properties of a log entry (used by the theorems) ------------------ *)
(* outermost acquisition by t: the lock was free *)
Definition is_oacq (t : tid) (e : entry) : Prop :=
  e_tid e = t /\ e_ev e = EAcq /\ e_owner e = None.
(* outermost release by t: depth 1 -> 0 *)
Definition is_orel (t : tid) (e : entry) : Prop :=
  e_tid e = t /\ e_ev e = ERel /\ e_depth e = 1.

Definition is_oacqb (t : tid) (e : entry) : bool :=
  (e_tid e =? t) && ev_eqb (e_ev e) EAcq && match e_owner e with None => true | Some _ => false end.

(* the history in chronological order, and what thread t executed *)
Definition hist (s : st) : list entry := rev (log s).
Definition proj (t : tid) (l : list entry) : prog := map e_ev (filter (fun e => e_tid e =? t) l).
Definition prog_of (s : st) (t : tid) : prog := nth t (progs s) [].
Definition held (s : st) (t : tid) : nat := if is_owner (owner s) t then depth s else 0.
