(* Why the lock has to be re-entrant (generated fact LOCK_IS_RLOCK): the same machine with a plain
   lock (threading.Lock: Acq enabled only when the lock is free).  A thread that reaches an Acq while
   it owns the lock is stuck for ever, under every schedule - and the generated snapshot operations
   do nest (TypedTree.save -> Tree.save; any operation called inside `with tree:`). *)
From Coq Require Import List Arith Bool Lia.
From NT Require Import RLock.
Import ListNotations.

Definition fire_nr (o : option tid) (d v : nat) (t : tid) (e : ev) : option lstate :=
  match e with
  | EAcq => match o with None => Some (Some t, 1, v) | Some _ => None end
  | _ => fire o d v t e
  end.

Definition step_nr (t : tid) (s : st) : st :=
  match next s t with
  | None => s
  | Some (e, r) =>
      match fire_nr (owner s) (depth s) (ver s) t e with
      | None => s
      | Some (o, d, v) => adv s t e r o d v
      end
  end.

Definition run_nr (sched : list tid) (s : st) : st := fold_left (fun s t => step_nr t s) sched s.

Lemma nth_error_upd_neq {X} (l : list X) n m x : n <> m -> nth_error (upd l n x) m = nth_error l m.
Proof.
  revert n m. induction l as [|y l IH]; intros [|n] [|m] H; cbn [upd nth_error]; try reflexivity; try congruence.
  apply IH. congruence.
Qed.

Definition self_blocked (t : tid) (s : st) : Prop :=
  owner s = Some t /\ exists r, next s t = Some (EAcq, r).

Lemma self_blocked_step t u s : self_blocked t s -> self_blocked t (step_nr u s).
Proof.
  intros [O [r N]]. unfold step_nr.
  destruct (next s u) as [[e r']|] eqn:Nu; [|split; eauto].
  destruct (Nat.eq_dec u t) as [->|Ne].
  - rewrite N in Nu. injection Nu as <- <-. cbn [fire_nr]. rewrite O. split; eauto.
  - assert (K : forall o d v, owner (adv s u e r' o d v) = o /\ next (adv s u e r' o d v) t = next s t).
    { intros o d v. split; [reflexivity|]. unfold next, adv. cbn [progs]. rewrite nth_error_upd_neq; [reflexivity|exact Ne]. }
    destruct e; cbn [fire_nr fire].
    + rewrite O. split; eauto.
    + rewrite O. cbn [is_owner]. assert (t =? u = false) as -> by (apply Nat.eqb_neq; congruence).
      destruct (K (Some t) (depth s) (ver s)) as [K1 K2]. split; [exact K1|]. exists r. rewrite K2. exact N.
    + destruct (K (owner s) (depth s) (ver s)) as [K1 K2]. split; [rewrite K1; exact O|]. exists r. rewrite K2. exact N.
    + destruct (K (owner s) (depth s) (S (ver s))) as [K1 K2]. split; [rewrite K1; exact O|]. exists r. rewrite K2. exact N.
Qed.

(* under EVERY schedule the thread stays where it is, holding the lock: nobody ever gets it again *)
Theorem nr_self_deadlock t : forall sched s, self_blocked t s ->
  self_blocked t (run_nr sched s) /\ finished (run_nr sched s) = false.
Proof.
  induction sched as [|u sched IH]; intros s B.
  - split; [exact B|]. destruct B as [_ [r N]]. cbn [run_nr fold_left].
    unfold next in N. destruct (nth_error (progs s) t) as [[|e r']|] eqn:E; try discriminate.
    destruct (finished s) eqn:F; [|reflexivity]. exfalso. unfold finished in F.
    rewrite forallb_forall in F. specialize (F _ (nth_error_In _ _ E)). discriminate.
  - cbn [run_nr fold_left]. apply (IH (step_nr u s)). apply self_blocked_step. exact B.
Qed.
