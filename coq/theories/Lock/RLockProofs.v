(* Proofs about the lock machine (RLock.v).

   Two stages.
   (1) Machine invariant, by induction over the schedule: the history is a
       VALID TRACE of a re-entrant lock in which every Rel/Write is
       executed by the owner ([vtrace], an independent, declarative description
       of such histories: entry by entry, "pre-state of the next = post-state of
       this one"); the remaining program of every thread keeps the writers'
       discipline ([wbrk]: Writes under the lock, Reads anywhere) from the depth
       it currently holds, and stays bracketed ([brk]) if it started bracketed,
       in which case its Reads were made as owner; the executed events of a thread followed by
       its remaining program are its program; outermost acquisitions are
       counted by [nsec].
   (2) Pure list reasoning about valid traces: mutual exclusion, one version
       per critical section, every owned event lies in a section that was opened
       while the lock was free. *)
From Coq Require Import List Arith Bool Lia.
From NT Require Import RLock.
Import ListNotations.

(* ------------------------------------------------------------------ *)
(* lists                                                               *)
(* ------------------------------------------------------------------ *)
Lemma length_upd {X} (l : list X) n x : length (upd l n x) = length l.
Proof.
  revert n. induction l as [|y l IH]; intros [|n]; cbn [upd length]; try reflexivity.
  rewrite IH. reflexivity.
Qed.

Lemma nth_upd_eq {X} (l : list X) n x d : n < length l -> nth n (upd l n x) d = x.
Proof.
  revert n. induction l as [|y l IH]; intros [|n] H; cbn [upd nth length] in *; try lia; try reflexivity.
  apply IH. lia.
Qed.

Lemma nth_upd_neq {X} (l : list X) n m x d : n <> m -> nth m (upd l n x) d = nth m l d.
Proof.
  revert n m. induction l as [|y l IH]; intros [|n] [|m] H; cbn [upd nth]; try reflexivity; try congruence.
  apply IH. congruence.
Qed.

Lemma nth_error_nth' {X} (l : list X) n x d : nth_error l n = Some x -> nth n l d = x /\ n < length l.
Proof.
  revert n. induction l as [|y l IH]; intros [|n] H; cbn in *; try discriminate.
  - injection H as ->. split; [reflexivity|lia].
  - destruct (IH _ H) as [A B]. split; [exact A|lia].
Qed.

Lemma nth_nonnil_error {X} (l : list (list X)) n : nth n l [] <> [] -> exists e r, nth_error l n = Some (e :: r).
Proof.
  revert n. induction l as [|y l IH]; intros [|n] H; cbn in *; try congruence.
  - destruct y as [|e r]; [congruence|]. exists e, r. reflexivity.
  - apply IH. exact H.
Qed.

(* ------------------------------------------------------------------ *)
(* valid traces of a re-entrant lock used with discipline              *)
(* ------------------------------------------------------------------ *)
Definition pre (e : entry) : lstate := (e_owner e, e_depth e, e_ver e).

Definition post (e : entry) : lstate :=
  match e_ev e with
  | EAcq => (Some (e_tid e), S (e_depth e), e_ver e)
  | ERel => match e_depth e with
            | S (S d) => (Some (e_tid e), S d, e_ver e)
            | _ => (None, 0, e_ver e)
            end
  | ERead => (e_owner e, e_depth e, e_ver e)
  | EWrite => (e_owner e, e_depth e, S (e_ver e))
  end.

Definition lock_ok (st : lstate) : Prop :=
  match st with
  | (None, d, _) => d = 0
  | (Some _, d, _) => 0 < d
  end.

(* an Acq finds the lock free or owned by the caller; a Rel and a Write are done by the owner;
   a Read may be done by anybody (it does not touch the lock) *)
Definition ok_entry (e : entry) : Prop :=
  match e_ev e with
  | EAcq => (e_owner e = None /\ e_depth e = 0) \/ (e_owner e = Some (e_tid e) /\ 0 < e_depth e)
  | ERead => lock_ok (pre e)
  | _ => e_owner e = Some (e_tid e) /\ 0 < e_depth e
  end.

(* chronological: from lock state st, the entries l lead to st' *)
Fixpoint vtrace (st : lstate) (l : list entry) (st' : lstate) : Prop :=
  match l with
  | [] => st = st'
  | e :: r => pre e = st /\ ok_entry e /\ vtrace (post e) r st'
  end.

Lemma vtrace_app st l1 l2 st' :
  vtrace st (l1 ++ l2) st' <-> exists m, vtrace st l1 m /\ vtrace m l2 st'.
Proof.
  revert st. induction l1 as [|e l1 IH]; intros st; cbn [app vtrace].
  - split.
    + intros H. exists st. split; [reflexivity|exact H].
    + intros [m [-> H]]. exact H.
  - split.
    + intros [A [B C]]. apply IH in C. destruct C as [m [C D]]. exists m. repeat split; assumption.
    + intros [m [[A [B C]] D]]. refine (conj A (conj B _)). apply IH. exists m. split; assumption.
Qed.

Lemma vtrace_snoc st l e :
  vtrace st l (pre e) -> ok_entry e -> vtrace st (l ++ [e]) (post e).
Proof.
  intros H K. apply vtrace_app. exists (pre e). split; [exact H|]. cbn. auto.
Qed.

Lemma ok_entry_post e : ok_entry e -> lock_ok (post e).
Proof.
  unfold ok_entry, lock_ok, post, pre. destruct (e_ev e); intros H.
  - lia.
  - destruct H as [_ H]. destruct (e_depth e) as [|[|d]]; lia.
  - exact H.
  - destruct H as [-> H]; exact H.
Qed.

Lemma vtrace_lock_ok st l st' : lock_ok st -> vtrace st l st' -> lock_ok st'.
Proof.
  revert st. induction l as [|e l IH]; intros st H V; cbn [vtrace] in V.
  - subst. exact H.
  - destruct V as [_ [K V]]. apply (IH (post e)); [apply ok_entry_post; exact K|exact V].
Qed.

Lemma vtrace_ok_entries st l st' : vtrace st l st' -> Forall ok_entry l.
Proof.
  revert st. induction l as [|e l IH]; intros st V; cbn [vtrace] in V; constructor.
  - tauto.
  - apply (IH (post e)). tauto.
Qed.

(* what an ok entry executed while t owns the lock looks like: anything but a Read is t's own *)
Lemma ok_entry_owned e t : ok_entry e -> e_owner e = Some t -> 0 < e_depth e /\ (e_ev e <> ERead -> e_tid e = t).
Proof.
  unfold ok_entry, lock_ok, pre. intros H O. rewrite O in H. destruct (e_ev e).
  - destruct H as [[H _]|[H K]]; [discriminate|]. injection H as <-. auto.
  - destruct H as [H K]. injection H as <-. auto.
  - split; [exact H|congruence].
  - destruct H as [H K]. injection H as <-. auto.
Qed.

Definition is_write (e : entry) : bool := ev_eqb (e_ev e) EWrite.
Definition wcount (l : list entry) : nat := length (filter is_write l).

(* MUTUAL EXCLUSION, version accounting: from a state in which t owns the lock, as long as t does
   not release it completely, the lock stays t's, every entry other than a Read is t's own, and
   the version moves only by t's own Writes *)
Lemma section_owned t : forall l2 d v e l3 st',
  0 < d ->
  vtrace (Some t, d, v) (l2 ++ e :: l3) st' ->
  (forall x, In x l2 -> ~ is_orel t x) ->
  (forall x, In x l2 -> e_owner x = Some t /\ (e_ev x <> ERead -> e_tid x = t)) /\
  e_owner e = Some t /\ (e_ev e <> ERead -> e_tid e = t) /\ 0 < e_depth e /\ e_ver e = v + wcount l2.
Proof.
  induction l2 as [|x l2 IH]; intros d v e l3 st' Hd V NR; cbn [app vtrace] in V.
  - destruct V as [P [K _]]. unfold pre in P. injection P as Po Pd Pv.
    destruct (ok_entry_owned e t K Po) as [A B].
    split; [intros x []|]. cbn. repeat split; try assumption. lia.
  - destruct V as [P [K V]]. unfold pre in P. injection P as Po Pd Pv.
    destruct (ok_entry_owned x t K Po) as [B A].
    assert (NRx : ~ is_orel t x) by (apply NR; left; reflexivity).
    assert (Hpost : exists d', 0 < d' /\ post x = (Some t, d', v + (if is_write x then 1 else 0))).
    { unfold post, is_write. unfold is_orel in NRx. destruct (e_ev x) eqn:Ev; cbn [ev_eqb].
      - exists (S (e_depth x)). rewrite A, Pv by discriminate. split; [lia|f_equal; lia].
      - destruct (e_depth x) as [|[|dd]] eqn:D.
        + lia.
        + exfalso. apply NRx. split; [apply A; discriminate|auto].
        + exists (S dd). rewrite A, Pv by discriminate. split; [lia|f_equal; lia].
      - exists (e_depth x). rewrite Po, Pv. split; [lia|f_equal; lia].
      - exists (e_depth x). rewrite Po, Pv. split; [lia|f_equal; lia]. }
    destruct Hpost as [d' [Hd' Hp]]. rewrite Hp in V.
    destruct (IH d' _ e l3 st' Hd' V (fun y Hy => NR y (or_intror Hy))) as [I1 [I2 [I3 [I4 I5]]]].
    split.
    + intros y [<-|Hy]; [auto|apply I1; exact Hy].
    + repeat split; try assumption. rewrite I5. unfold wcount. cbn [filter].
      destruct (is_write x); cbn [length]; lia.
Qed.

(* every moment at which t owns the lock lies in a section opened by an
   outermost acquisition of t (made while the lock was FREE) that t has not
   closed since *)
Lemma owned_has_section t d v : forall l st0,
  vtrace st0 l (Some t, d, v) ->
  (fst (fst st0) = Some t /\ forall x, In x l -> ~ is_orel t x) \/
  (exists l1 a l2, l = l1 ++ a :: l2 /\ is_oacq t a /\ forall x, In x l2 -> ~ is_orel t x).
Proof.
  induction l as [|x r IH]; intros st0 V; cbn [vtrace] in V.
  - left. subst. split; [reflexivity|intros x []].
  - destruct V as [P [K V]]. destruct (IH _ V) as [[O NR]|[l1 [a [l2 [-> [Ha NR]]]]]].
    + (* the rest runs inside one section that is open right after x *)
      unfold post in O. unfold ok_entry in K. unfold pre in P. subst st0. cbn [fst].
      destruct (e_ev x) eqn:Ev.
      * cbn [fst] in O. injection O as O.
        destruct K as [[Ko Kd]|[Ko Kd]].
        -- right. exists [], x, r. split; [reflexivity|]. split; [|exact NR].
           unfold is_oacq. auto.
        -- left. rewrite O in Ko. split; [exact Ko|].
           intros y [<-|Hy]; [|apply NR; exact Hy]. unfold is_orel. rewrite Ev. intros [_ [C _]]. discriminate.
      * destruct K as [Ko Kd]. destruct (e_depth x) as [|[|dd]] eqn:D; cbn [fst] in O; try discriminate.
        injection O as O. left. rewrite O in Ko. split; [exact Ko|].
        intros y [<-|Hy]; [|apply NR; exact Hy]. unfold is_orel. rewrite D. intros [_ [_ C]]. discriminate.
      * cbn [fst] in O. left. split; [exact O|].
        intros y [<-|Hy]; [|apply NR; exact Hy]. unfold is_orel. rewrite Ev. intros [_ [C _]]. discriminate.
      * cbn [fst] in O. left. split; [exact O|].
        intros y [<-|Hy]; [|apply NR; exact Hy]. unfold is_orel. rewrite Ev. intros [_ [C _]]. discriminate.
    + right. exists (x :: l1), a, l2. split; [reflexivity|]. split; assumption.
Qed.

(* ------------------------------------------------------------------ *)
(* the machine                                                         *)
(* ------------------------------------------------------------------ *)
Definition heldL (st : lstate) (t : tid) : nat :=
  match st with (o, d, _) => if is_owner o t then d else 0 end.

Lemma is_owner_true o t : is_owner o t = true -> o = Some t.
Proof. destruct o as [u|]; cbn; [|discriminate]. intros H. apply Nat.eqb_eq in H. subst. reflexivity. Qed.

Lemma is_owner_self t : is_owner (Some t) t = true.
Proof. cbn. apply Nat.eqb_refl. Qed.

Lemma is_owner_other t u : u <> t -> is_owner (Some t) u = false.
Proof. intros H. cbn. apply Nat.eqb_neq. congruence. Qed.

Lemma brk_wbrk : forall p d, brk d p = true -> wbrk d p = true.
Proof.
  induction p as [|e p IH]; intros d H; cbn [brk wbrk] in *; [exact H|].
  destruct e.
  - apply IH. exact H.
  - destruct d; [discriminate|]. apply IH. exact H.
  - apply andb_true_iff in H. apply IH. apply H.
  - apply andb_true_iff in H. destruct H as [H1 H2]. rewrite H1. apply IH. exact H2.
Qed.

(* one event of a thread whose remaining program is disciplined ([wbrk]) from the depth it holds;
   if it is even bracketed ([brk]: reads inside as well) it stays so, and its Reads are owner's reads *)
Lemma fire_spec o d v t e r :
  lock_ok (o, d, v) ->
  wbrk (heldL (o, d, v) t) (e :: r) = true ->
  (fire o d v t e = None /\ e = EAcq /\ exists u, o = Some u /\ u <> t) \/
  (fire o d v t e = Some (post (E t e v o d)) /\ ok_entry (E t e v o d) /\
   wbrk (heldL (post (E t e v o d)) t) r = true /\
   (brk (heldL (o, d, v) t) (e :: r) = true ->
      brk (heldL (post (E t e v o d)) t) r = true /\ (e = ERead -> o = Some t)) /\
   (forall u, u <> t -> heldL (post (E t e v o d)) u = heldL (o, d, v) u) /\
   nsec (heldL (o, d, v) t) (e :: r)
     = (if is_oacqb t (E t e v o d) then 1 else 0) + nsec (heldL (post (E t e v o d)) t) r).
Proof.
  intros LK B. unfold heldL in B. destruct e.
  - (* Acq *)
    destruct o as [u|].
    + destruct (Nat.eq_dec u t) as [->|Ne].
      * right. cbn [lock_ok] in LK. rewrite is_owner_self in B. cbn [wbrk] in B.
        unfold post, ok_entry, is_oacqb. cbn [fire e_ev e_tid e_depth e_ver e_owner heldL].
        rewrite Nat.eqb_refl, is_owner_self. refine (conj eq_refl (conj _ (conj B (conj _ (conj _ _))))).
        -- right. auto.
        -- cbn [brk]. intros H. split; [exact H|discriminate].
        -- intros u Hu. rewrite (is_owner_other t u Hu). reflexivity.
        -- cbn [nsec andb]. destruct d; [lia|]. rewrite andb_false_r. reflexivity.
      * left. cbn [fire]. apply Nat.eqb_neq in Ne. rewrite Ne. refine (conj eq_refl (conj eq_refl _)).
        exists u. split; [reflexivity|]. apply Nat.eqb_neq. exact Ne.
    + right. cbn [lock_ok] in LK. subst d. cbn [is_owner wbrk] in B.
      unfold post, ok_entry, is_oacqb. cbn [fire e_ev e_tid e_depth e_ver e_owner heldL].
      rewrite is_owner_self. refine (conj eq_refl (conj _ (conj B (conj _ (conj _ _))))).
      * left. auto.
      * cbn [is_owner brk]. intros H. split; [exact H|discriminate].
      * intros u Hu. rewrite (is_owner_other t u Hu). reflexivity.
      * cbn [is_owner nsec ev_eqb]. rewrite Nat.eqb_refl. reflexivity.
  - (* Rel *)
    right. cbn [wbrk] in B. destruct (is_owner o t) eqn:O; [|discriminate].
    apply is_owner_true in O. subst o. cbn [lock_ok] in LK.
    destruct d as [|h]; [discriminate|].
    unfold post, ok_entry, is_oacqb. cbn [fire e_ev e_tid e_depth e_ver e_owner].
    rewrite is_owner_self. cbn [heldL]. rewrite is_owner_self.
    destruct h as [|h].
    + refine (conj eq_refl (conj (conj eq_refl LK) (conj B (conj _ (conj _ _))))).
      * cbn [brk heldL is_owner]. intros H. split; [exact H|discriminate].
      * intros u Hu. cbn [heldL]. rewrite (is_owner_other t u Hu). reflexivity.
      * cbn [nsec pred ev_eqb heldL]. rewrite andb_false_r. reflexivity.
    + cbn [heldL]. rewrite is_owner_self.
      refine (conj eq_refl (conj (conj eq_refl LK) (conj B (conj _ (conj _ _))))).
      * cbn [brk]. intros H. split; [exact H|discriminate].
      * intros u Hu. rewrite (is_owner_other t u Hu). reflexivity.
      * cbn [nsec pred ev_eqb]. rewrite andb_false_r. reflexivity.
  - (* Read: anybody, any time *)
    right. cbn [wbrk] in B.
    unfold post, ok_entry, is_oacqb, pre. cbn [fire e_ev e_tid e_depth e_ver e_owner heldL].
    refine (conj eq_refl (conj LK (conj B (conj _ (conj _ _))))).
    + cbn [brk]. intros H. apply andb_true_iff in H. destruct H as [H1 H2]. split; [exact H2|].
      intros _. destruct (is_owner o t) eqn:O; [apply is_owner_true; exact O|discriminate].
    + intros u Hu. reflexivity.
    + cbn [nsec ev_eqb]. rewrite andb_false_r. reflexivity.
  - (* Write *)
    right. cbn [wbrk] in B. apply andb_true_iff in B. destruct B as [B1 B2].
    destruct (is_owner o t) eqn:O; [|discriminate].
    pose proof (is_owner_true _ _ O) as Eo. subst o. cbn [lock_ok] in LK.
    unfold post, ok_entry, is_oacqb. cbn [fire e_ev e_tid e_depth e_ver e_owner heldL].
    rewrite O. refine (conj eq_refl (conj (conj eq_refl LK) (conj B2 (conj _ (conj _ _))))).
    + cbn [brk]. intros H. apply andb_true_iff in H. split; [apply H|discriminate].
    + intros u Hu. reflexivity.
    + cbn [nsec ev_eqb]. rewrite andb_false_r. reflexivity.
Qed.

Record inv (ps : list prog) (s : st) : Prop := {
  i_len : length (progs s) = length ps;
  i_trace : vtrace (None, 0, 0) (hist s) (owner s, depth s, ver s);
  i_wbrk : forall t, wbrk (held s t) (prog_of s t) = true;
  i_brk : forall t, bracketed (nth t ps []) = true -> brk (held s t) (prog_of s t) = true;
  i_own : forall e, In e (hist s) -> bracketed (nth (e_tid e) ps []) = true -> e_ev e = ERead ->
                    e_owner e = Some (e_tid e);
  i_proj : forall t, proj t (hist s) ++ prog_of s t = nth t ps [];
  i_nsec : forall t, length (filter (is_oacqb t) (hist s)) + nsec (held s t) (prog_of s t) = nsec 0 (nth t ps [])
}.

Lemma inv_lock_ok ps s : inv ps s -> lock_ok (owner s, depth s, ver s).
Proof. intros I. apply (vtrace_lock_ok (None, 0, 0) (hist s)); [reflexivity|apply (i_trace _ _ I)]. Qed.

(* every thread keeps the writers' discipline; some may be bracketed *)
Definition all_disciplined (ps : list prog) : Prop := Forall (fun p => disciplined p = true) ps.

Lemma inv_init ps : all_disciplined ps -> inv ps (init ps).
Proof.
  intros F. constructor; cbn.
  - reflexivity.
  - reflexivity.
  - intros t. unfold held, prog_of. cbn. destruct (nth_in_or_default t ps []) as [H|H]; [|rewrite H; reflexivity].
    unfold all_disciplined in F. rewrite Forall_forall in F. apply F. exact H.
  - intros t H. exact H.
  - intros e [].
  - intros t. reflexivity.
  - intros t. reflexivity.
Qed.

Lemma next_spec s t e r : next s t = Some (e, r) -> prog_of s t = e :: r /\ t < length (progs s).
Proof.
  unfold next, prog_of. destruct (nth_error (progs s) t) as [[|e' r']|] eqn:N; try discriminate.
  intros H. injection H as -> ->. apply nth_error_nth'. exact N.
Qed.

Lemma proj_app t l1 l2 : proj t (l1 ++ l2) = proj t l1 ++ proj t l2.
Proof. unfold proj. rewrite filter_app, map_app. reflexivity. Qed.

Lemma inv_step ps s t : inv ps s -> inv ps (step t s).
Proof.
  intros I. unfold step. destruct (next s t) as [[e r]|] eqn:N; [|exact I].
  destruct (next_spec _ _ _ _ N) as [Pt Lt].
  pose proof (inv_lock_ok _ _ I) as LK.
  pose proof (i_wbrk _ _ I t) as B. rewrite Pt in B.
  destruct (fire_spec (owner s) (depth s) (ver s) t e r LK B) as [[F _]|[F [K [B' [BR [HO NS]]]]]].
  - rewrite F. exact I.
  - rewrite F. remember (E t e (ver s) (owner s) (depth s)) as en eqn:Een.
    destruct (post en) as [[o' d'] v'] eqn:Ep.
    assert (Hh : hist (adv s t e r o' d' v') = hist s ++ [en]).
    { unfold hist, adv. cbn [log rev]. rewrite Een. reflexivity. }
    assert (Hp : forall u, prog_of (adv s t e r o' d' v') u = if Nat.eq_dec u t then r else prog_of s u).
    { intros u. unfold prog_of, adv. cbn [progs]. destruct (Nat.eq_dec u t) as [->|Ne].
      - apply nth_upd_eq. exact Lt.
      - apply nth_upd_neq. congruence. }
    constructor.
    + unfold adv. cbn [progs]. rewrite length_upd. apply (i_len _ _ I).
    + rewrite Hh. unfold adv. cbn [owner depth ver]. rewrite <- Ep. apply vtrace_snoc; [|exact K].
      rewrite Een. unfold pre. cbn. apply (i_trace _ _ I).
    + intros u. rewrite Hp. change (held (adv s t e r o' d' v') u) with (heldL (o', d', v') u).
      destruct (Nat.eq_dec u t) as [->|Ne]; [exact B'|]. rewrite (HO u Ne). apply (i_wbrk _ _ I u).
    + intros u Hu. rewrite Hp. change (held (adv s t e r o' d' v') u) with (heldL (o', d', v') u).
      destruct (Nat.eq_dec u t) as [->|Ne].
      * apply BR. pose proof (i_brk _ _ I t Hu) as Bt. rewrite Pt in Bt. exact Bt.
      * rewrite (HO u Ne). apply (i_brk _ _ I u Hu).
    + intros x Hx Hb Hr. rewrite Hh in Hx. apply in_app_or in Hx. destruct Hx as [Hx|[<-|[]]].
      * apply (i_own _ _ I x Hx Hb Hr).
      * rewrite Een in Hb, Hr |- *. cbn [e_tid e_ev e_owner] in *.
        pose proof (i_brk _ _ I t Hb) as Bt. rewrite Pt in Bt. apply (BR Bt). exact Hr.
    + intros u. rewrite Hh, Hp, proj_app. rewrite <- (i_proj _ _ I u).
      unfold proj at 2. cbn [filter]. rewrite Een at 1. cbn [e_tid].
      destruct (Nat.eq_dec u t) as [->|Ne].
      * rewrite Nat.eqb_refl. cbn [map]. rewrite Pt, <- app_assoc, Een. reflexivity.
      * apply Nat.eqb_neq in Ne. rewrite Nat.eqb_sym, Ne. cbn [map]. rewrite app_nil_r. reflexivity.
    + intros u. rewrite Hh, Hp, filter_app, app_length. rewrite <- (i_nsec _ _ I u).
      change (held (adv s t e r o' d' v') u) with (heldL (o', d', v') u). cbn [filter].
      destruct (Nat.eq_dec u t) as [->|Ne].
      * rewrite Pt. change (held s t) with (heldL (owner s, depth s, ver s) t). rewrite NS.
        destruct (is_oacqb t en); cbn [length]; lia.
      * rewrite (HO u Ne). change (heldL (owner s, depth s, ver s) u) with (held s u).
        assert (Hf : is_oacqb u en = false).
        { unfold is_oacqb. rewrite Een. cbn [e_tid]. apply Nat.eqb_neq in Ne. rewrite Nat.eqb_sym, Ne. reflexivity. }
        rewrite Hf. cbn [length]. lia.
Qed.

Lemma inv_run ps sched : forall s, inv ps s -> inv ps (run sched s).
Proof.
  unfold run. induction sched as [|t sched IH]; intros s I; cbn [fold_left]; [exact I|].
  apply IH. apply inv_step. exact I.
Qed.

Lemma inv_reach ps sched : all_disciplined ps -> inv ps (run sched (init ps)).
Proof. intros F. apply inv_run. apply inv_init. exact F. Qed.

(* ------------------------------------------------------------------ *)
(* the theorems, for every reachable state                             *)
(* ------------------------------------------------------------------ *)
Definition all_bracketed (ps : list prog) : Prop := Forall (fun p => bracketed p = true) ps.

Lemma all_bracketed_disciplined ps : all_bracketed ps -> all_disciplined ps.
Proof.
  unfold all_bracketed, all_disciplined. intros F. rewrite Forall_forall in *. intros p Hp.
  apply brk_wbrk. apply F. exact Hp.
Qed.

(* the events a thread executed, in order, followed by what it still has to do, are its program *)
Theorem trace_is_program ps sched t : all_disciplined ps ->
  proj t (hist (run sched (init ps))) ++ prog_of (run sched (init ps)) t = nth t ps [].
Proof. intros F. apply (i_proj _ _ (inv_reach ps sched F)). Qed.

Lemma proj_in t x l : In x l -> e_tid x = t -> In (e_ev x) (proj t l).
Proof.
  intros H T. unfold proj. apply in_map. apply filter_In. split; [exact H|]. apply Nat.eqb_eq. exact T.
Qed.

Lemma thread_events ps sched t x : all_disciplined ps ->
  In x (hist (run sched (init ps))) -> e_tid x = t -> In (e_ev x) (nth t ps []).
Proof.
  intros F H T. rewrite <- (trace_is_program ps sched t F). apply in_or_app. left. apply proj_in; assumption.
Qed.

(* T1: every Write / Rel is executed by the owner of the lock; every Acq finds it free or its own;
   every Read of a BRACKETED thread (a snapshot operation) is executed by the owner *)
Theorem events_under_lock ps sched e : all_disciplined ps ->
  In e (hist (run sched (init ps))) ->
  (e_ev e = EWrite \/ e_ev e = ERel -> e_owner e = Some (e_tid e) /\ 0 < e_depth e) /\
  (e_ev e = EAcq -> (e_owner e = None /\ e_depth e = 0) \/ (e_owner e = Some (e_tid e) /\ 0 < e_depth e)) /\
  (e_ev e = ERead -> bracketed (nth (e_tid e) ps []) = true -> e_owner e = Some (e_tid e) /\ 0 < e_depth e).
Proof.
  intros F H. pose proof (inv_reach ps sched F) as I.
  pose proof (vtrace_ok_entries _ _ _ (i_trace _ _ I)) as A.
  rewrite Forall_forall in A. specialize (A e H). unfold ok_entry in A.
  split; [|split].
  - intros [C|C]; rewrite C in A; exact A.
  - intros C. rewrite C in A. exact A.
  - intros C Hb. pose proof (i_own _ _ I e H Hb C) as O. split; [exact O|].
    rewrite C in A. unfold lock_ok, pre in A. rewrite O in A. exact A.
Qed.

(* T2: between an outermost acquisition of t and its next outermost release the lock is t's:
   every executed event other than a Read is t's own (so: no Write of another thread), and the
   version moves by t's Writes only *)
Theorem section_exclusive ps sched t l1 a l2 e l3 : all_disciplined ps ->
  hist (run sched (init ps)) = l1 ++ a :: l2 ++ e :: l3 ->
  is_oacq t a -> (forall x, In x l2 -> ~ is_orel t x) ->
  e_owner a = None /\
  (forall x, In x l2 -> e_owner x = Some t /\ (e_ev x <> ERead -> e_tid x = t)) /\
  e_owner e = Some t /\ (e_ev e <> ERead -> e_tid e = t) /\ e_ver e = e_ver a + wcount l2.
Proof.
  intros F H [At [Ae Ao]] NR. pose proof (i_trace _ _ (inv_reach ps sched F)) as V. rewrite H in V.
  apply vtrace_app in V. destruct V as [m [_ V]]. cbn [vtrace] in V. destruct V as [_ [_ V]].
  unfold post in V. rewrite Ae, At in V.
  destruct (section_owned t l2 (S (e_depth a)) (e_ver a) e l3 _ (Nat.lt_0_succ _) V NR) as [I1 [I2 [I3 [_ I5]]]].
  auto.
Qed.

Lemma wcount_zero l : (forall x, In x l -> e_ev x <> EWrite) -> wcount l = 0.
Proof.
  unfold wcount. induction l as [|x l IH]; intros H; [reflexivity|]. cbn [filter].
  assert (is_write x = false) as ->.
  { unfold is_write. pose proof (H x (or_introl eq_refl)). destruct (e_ev x); try reflexivity. congruence. }
  apply IH. intros y Hy. apply H. right. exact Hy.
Qed.

Lemma writes_false p : writes p = false -> ~ In EWrite p.
Proof.
  unfold writes. intros H C. assert (existsb (ev_eqb EWrite) p = true); [|congruence].
  apply existsb_exists. exists EWrite. split; [exact C|reflexivity].
Qed.

(* T3: a thread whose program has no Write sees, at every event of a critical section, the
   version it found when it opened the section - and the lock was free at that moment *)
Theorem section_one_version ps sched t l1 a l2 e l3 : all_disciplined ps ->
  writes (nth t ps []) = false ->
  hist (run sched (init ps)) = l1 ++ a :: l2 ++ e :: l3 ->
  is_oacq t a -> (forall x, In x l2 -> ~ is_orel t x) ->
  e_ver e = e_ver a /\ e_owner a = None /\ e_owner e = Some t.
Proof.
  intros F W H A NR. destruct (section_exclusive ps sched t l1 a l2 e l3 F H A NR) as [Ao [I1 [I2 [I3 I5]]]].
  rewrite wcount_zero in I5; [rewrite Nat.add_0_r in I5; auto|].
  intros x Hx C. apply (writes_false _ W). rewrite <- C. apply (thread_events ps sched t x F).
  - rewrite H. apply in_or_app. right. right. apply in_or_app. left. exact Hx.
  - apply I1; [exact Hx|congruence].
Qed.

(* every event executed while t owns the lock lies in a section that t opened when the lock was free *)
Theorem owned_in_section ps sched t l0 e l3 : all_disciplined ps ->
  hist (run sched (init ps)) = l0 ++ e :: l3 -> e_owner e = Some t ->
  exists l1 a l2, l0 = l1 ++ a :: l2 /\ is_oacq t a /\ forall x, In x l2 -> ~ is_orel t x.
Proof.
  intros F H O. pose proof (i_trace _ _ (inv_reach ps sched F)) as V. rewrite H in V.
  apply vtrace_app in V. destruct V as [m [V1 V2]]. cbn [vtrace] in V2. destruct V2 as [P _].
  unfold pre in P. rewrite O in P. subst m.
  destruct (owned_has_section t _ _ l0 _ V1) as [[C _]|S]; [discriminate C|exact S].
Qed.

Lemma is_oacqb_spec t e : is_oacqb t e = true <-> is_oacq t e.
Proof.
  unfold is_oacqb, is_oacq. rewrite !andb_true_iff, Nat.eqb_eq. split.
  - intros [[A B] C]. destruct (e_ev e); try discriminate. destruct (e_owner e); [discriminate|]. auto.
  - intros [A [B C]]. rewrite B, C. auto.
Qed.

Lemma filter_length_zero {X} (f : X -> bool) l : length (filter f l) = 0 -> forall x, In x l -> f x = false.
Proof.
  induction l as [|y l IH]; intros H x []; cbn [filter] in H.
  - subst y. destruct (f x); [discriminate H|reflexivity].
  - destruct (f y); [discriminate H|]. apply IH; assumption.
Qed.

(* the number of sections a thread has opened is bounded by the static count of its program *)
Theorem sections_bounded ps sched t : all_disciplined ps ->
  length (filter (is_oacqb t) (hist (run sched (init ps)))) <= nsec 0 (nth t ps []).
Proof. intros F. pose proof (i_nsec _ _ (inv_reach ps sched F) t). lia. Qed.

Theorem one_section_unique ps sched t l1 a l2 : all_disciplined ps ->
  one_section (nth t ps []) = true ->
  hist (run sched (init ps)) = l1 ++ a :: l2 -> is_oacq t a ->
  forall x, In x (l1 ++ l2) -> ~ is_oacq t x.
Proof.
  intros F O H A x Hx C. pose proof (sections_bounded ps sched t F) as B.
  unfold one_section in O. apply Nat.leb_le in O. rewrite H, filter_app, app_length in B. cbn [filter] in B.
  apply is_oacqb_spec in A. rewrite A in B. cbn [length] in B.
  apply is_oacqb_spec in C. apply in_app_or in Hx. destruct Hx as [Hx|Hx].
  - rewrite (filter_length_zero (is_oacqb t) l1) in C; [discriminate|lia|exact Hx].
  - rewrite (filter_length_zero (is_oacqb t) l2) in C; [discriminate|lia|exact Hx].
Qed.

(* T3 for a whole snapshot operation (bracketed, no Write, one outermost section) among threads
   that only keep the writers' discipline: ALL its reads are made as owner of the lock and see ONE
   version, the version of the moment at which it found the lock free and took it *)
Theorem snapshot_one_version ps sched t e1 : all_disciplined ps ->
  bracketed (nth t ps []) = true -> writes (nth t ps []) = false -> one_section (nth t ps []) = true ->
  In e1 (hist (run sched (init ps))) -> e_tid e1 = t -> e_ev e1 = ERead ->
  exists a, In a (hist (run sched (init ps))) /\ is_oacq t a /\ e_owner a = None /\
    forall e2, In e2 (hist (run sched (init ps))) -> e_tid e2 = t -> e_ev e2 = ERead ->
      e_owner e2 = Some t /\ e_ver e2 = e_ver a.
Proof.
  intros F Bt W O H1 T1 R1.
  assert (K : forall e, In e (hist (run sched (init ps))) -> e_tid e = t -> e_ev e = ERead ->
            exists l1 a l2 l3, hist (run sched (init ps)) = l1 ++ a :: l2 ++ e :: l3 /\ is_oacq t a /\
                               e_ver e = e_ver a /\ e_owner e = Some t).
  { intros e He Te Re. destruct (in_split _ _ He) as [l0 [l3 Hs]].
    destruct (events_under_lock ps sched e F He) as [_ [_ Ow]].
    rewrite Te in Ow. destruct (Ow Re Bt) as [Ow' _].
    destruct (owned_in_section ps sched t l0 e l3 F Hs Ow') as [l1 [a [l2 [-> [A NR]]]]].
    rewrite <- app_assoc in Hs. cbn [app] in Hs.
    destruct (section_one_version ps sched t l1 a l2 e l3 F W Hs A NR) as [V [_ _]].
    exists l1, a, l2, l3. auto. }
  destruct (K e1 H1 T1 R1) as [l1 [a [l2 [l3 [Hs [A [V1 _]]]]]]].
  exists a. split; [rewrite Hs; apply in_or_app; right; left; reflexivity|].
  split; [exact A|]. split; [apply A|].
  intros e2 H2 T2 R2. destruct (K e2 H2 T2 R2) as [l1' [a' [l2' [l3' [Hs' [A' [V2 O2]]]]]]].
  split; [exact O2|]. rewrite V2.
  assert (In a' (l1 ++ a :: l2 ++ e1 :: l3)) as Hin.
  { rewrite <- Hs, Hs'. apply in_or_app; right; left; reflexivity. }
  apply in_app_or in Hin. destruct Hin as [Hin|[->|Hin]]; [exfalso| reflexivity |exfalso].
  - apply (one_section_unique ps sched t l1 a (l2 ++ e1 :: l3) F O Hs A a'); [apply in_or_app; left; exact Hin|exact A'].
  - apply (one_section_unique ps sched t l1 a (l2 ++ e1 :: l3) F O Hs A a'); [apply in_or_app; right; exact Hin|exact A'].
Qed.

(* ------------------------------------------------------------------ *)
(* re-entrancy, no deadlock, completion                                *)
(* ------------------------------------------------------------------ *)
(* an enabled step is a real step: it executes exactly the next event of the thread *)
Lemma enabled_step s t : enabled s t = true ->
  exists e r, next s t = Some (e, r) /\
    hist (step t s) = hist s ++ [E t e (ver s) (owner s) (depth s)] /\
    progs (step t s) = upd (progs s) t r.
Proof.
  unfold enabled, step. destruct (next s t) as [[e r]|] eqn:N; [|discriminate].
  intros H. exists e, r. split; [reflexivity|].
  assert (exists o d v, fire (owner s) (depth s) (ver s) t e = Some (o, d, v)) as [o [d [v ->]]].
  { destruct e; cbn [fire].
    - destruct (owner s) as [u|]; [|eauto]. rewrite H. eauto.
    - destruct (is_owner (owner s) t); [destruct (depth s) as [|[|dd]]|]; eauto.
    - eauto.
    - eauto. }
  unfold hist, adv. cbn [log progs rev]. auto.
Qed.

(* a step that is not enabled changes nothing *)
Lemma disabled_step s t : enabled s t = false -> step t s = s.
Proof.
  unfold enabled, step. destruct (next s t) as [[e r]|]; [|reflexivity].
  destruct e; try discriminate. cbn [fire]. destruct (owner s) as [u|]; [|discriminate].
  intros ->. reflexivity.
Qed.

(* the owner holds the lock only while it still has something to do ... *)
Lemma owner_unfinished ps s t : inv ps s -> owner s = Some t -> prog_of s t <> [].
Proof.
  intros I O C. pose proof (i_wbrk _ _ I t) as B. pose proof (inv_lock_ok _ _ I) as LK.
  unfold held in B. rewrite O, is_owner_self, C in B. rewrite O in LK. cbn in LK, B.
  apply Nat.eqb_eq in B. lia.
Qed.

(* ... and RE-ENTRANCY: it is never blocked, whatever its next event is *)
Theorem owner_enabled ps s t : inv ps s -> owner s = Some t -> enabled s t = true.
Proof.
  intros I O. destruct (nth_nonnil_error _ _ (owner_unfinished ps s t I O)) as [e [r N]].
  unfold enabled, next, prog in *. rewrite N, O. destruct e; try reflexivity. apply Nat.eqb_refl.
Qed.

Lemma finished_spec s : finished s = true <-> forall t, prog_of s t = [].
Proof.
  unfold finished, prog_of. rewrite forallb_forall. split.
  - intros H t. destruct (nth_in_or_default t (progs s) []) as [K|K]; [|exact K].
    specialize (H _ K). destruct (nth t (progs s) []); [reflexivity|discriminate].
  - intros H p Hp. destruct (In_nth _ _ [] Hp) as [n [_ E]]. rewrite <- E, H. reflexivity.
Qed.

(* nesting returns the depth to 0: when every thread is done the lock is free *)
Theorem finished_lock_free ps s : inv ps s -> finished s = true -> owner s = None /\ depth s = 0.
Proof.
  intros I Fin. pose proof (inv_lock_ok _ _ I) as LK. destruct (owner s) as [t|] eqn:O.
  - exfalso. apply (owner_unfinished ps s t I O). rewrite finished_spec in Fin. apply Fin.
  - split; [reflexivity|exact LK].
Qed.

(* a finished thread does not hold the lock *)
Theorem done_thread_released ps s t : inv ps s -> prog_of s t = [] -> owner s <> Some t.
Proof. intros I P O. exact (owner_unfinished ps s t I O P). Qed.

Lemma unfinished_ex s : finished s = false -> exists t, prog_of s t <> [].
Proof.
  unfold finished, prog_of. induction (progs s) as [|p l IH]; intros H; [discriminate|].
  destruct p as [|e r].
  - cbn [forallb andb] in H. destruct (IH H) as [n Hn]. exists (S n). exact Hn.
  - exists 0. cbn. discriminate.
Qed.

(* NO DEADLOCK: while some thread is unfinished, some thread is enabled *)
Theorem no_deadlock ps s : inv ps s -> finished s = false -> exists t, enabled s t = true.
Proof.
  intros I Fin. destruct (owner s) as [u|] eqn:O.
  - exists u. apply (owner_enabled ps s u I O).
  - assert (exists t, prog_of s t <> []) as [t Ht].
    { apply unfinished_ex. exact Fin. }
    destruct (nth_nonnil_error _ _ Ht) as [e [r N]]. exists t.
    unfold enabled, next, prog in *. rewrite N, O. destruct e; reflexivity.
Qed.

Definition todo (s : st) : nat := length (concat (progs s)).

Lemma todo_upd l t (e : ev) r : nth_error l t = Some (e :: r) ->
  length (concat (upd l t r)) < length (concat l).
Proof.
  revert t. induction l as [|p l IH]; intros [|t] H; cbn in H; try discriminate.
  - injection H as ->. cbn [upd concat]. rewrite !app_length. cbn [length]. lia.
  - cbn [upd concat]. rewrite !app_length. specialize (IH _ H). lia.
Qed.

Lemma todo_zero s : todo s = 0 -> finished s = true.
Proof.
  unfold todo, finished. induction (progs s) as [|p l IH]; intros H; [reflexivity|].
  cbn [concat] in H. rewrite app_length in H. destruct p; [|cbn in H; lia].
  cbn [forallb]. apply IH. exact H.
Qed.

(* ... and every enabled step makes progress, so from every reachable state some
   schedule completes all threads (with the lock free at the end) *)
Theorem completion ps : forall n s, todo s <= n -> inv ps s ->
  exists sched, finished (run sched s) = true /\ owner (run sched s) = None /\ depth (run sched s) = 0.
Proof.
  induction n as [|n IH]; intros s Hn I.
  - exists []. assert (Fin : finished s = true) by (apply todo_zero; lia).
    cbn. split; [exact Fin|]. apply (finished_lock_free ps); assumption.
  - destruct (finished s) eqn:Fin.
    + exists []. cbn. split; [exact Fin|]. apply (finished_lock_free ps); assumption.
    + destruct (no_deadlock ps s I Fin) as [t En].
      destruct (enabled_step s t En) as [e [r [N [_ P]]]].
      assert (todo (step t s) <= n).
      { unfold todo. rewrite P. unfold next in N.
        destruct (nth_error (progs s) t) as [[|e' r']|] eqn:NE; try discriminate. injection N as -> ->.
        pose proof (todo_upd _ _ _ _ NE). unfold todo in Hn. unfold prog in *. lia. }
      destruct (IH (step t s) H (inv_step ps s t I)) as [sched K].
      exists (t :: sched). exact K.
Qed.

Lemma run_app a b s : run (a ++ b) s = run b (run a s).
Proof. unfold run. apply fold_left_app. Qed.

Theorem every_schedule_extends_to_completion ps sched : all_disciplined ps ->
  exists more, finished (run (sched ++ more) (init ps)) = true /\
               owner (run (sched ++ more) (init ps)) = None /\ depth (run (sched ++ more) (init ps)) = 0.
Proof.
  intros F. destruct (completion ps _ (run sched (init ps)) (le_n _) (inv_reach ps sched F)) as [more K].
  exists more. rewrite run_app. exact K.
Qed.
