(* Uniform observation terms.  Both the model (inside Coq) and the harness
   (Python, running the implementation from /repo) render what they observed
   as an [sx]; the correspondence check is [sx_eqb] evaluated by the kernel's
   vm.  No proofs that matter for a property live here except
   [sx_eqb_eq], which makes "the check printed no index" mean equality. *)
From Coq Require Import List ZArith Bool.
Import ListNotations.

Inductive sx := A (z : Z) | L (l : list sx).

Fixpoint sx_eqb (a b : sx) {struct a} : bool :=
  match a, b with
  | A x, A y => Z.eqb x y
  | L xs, L ys =>
      (fix go (xs ys : list sx) {struct xs} : bool :=
         match xs, ys with
         | [], [] => true
         | x :: xs', y :: ys' => sx_eqb x y && go xs' ys'
         | _, _ => false
         end) xs ys
  | _, _ => false
  end.

Section SxInd.
  Variable P : sx -> Prop.
  Hypothesis HA : forall z, P (A z).
  Hypothesis HL : forall l, Forall P l -> P (L l).
  Fixpoint sx_ind' (s : sx) : P s :=
    match s with
    | A z => HA z
    | L l => HL l ((fix go (l : list sx) : Forall P l :=
                      match l with
                      | [] => Forall_nil _
                      | x :: xs => Forall_cons _ (sx_ind' x) (go xs)
                      end) l)
    end.
End SxInd.

Lemma sx_eqb_eq : forall a b, sx_eqb a b = true <-> a = b.
Proof.
  induction a as [z | l IH] using sx_ind'; intros b; destruct b as [z' | l'];
    cbn [sx_eqb]; try (split; [discriminate | intros E; discriminate E]).
  - rewrite Z.eqb_eq. split; [intros ->; reflexivity | intros E; injection E as ->; reflexivity].
  - revert l'. induction l as [|x xs IHxs]; intros l'; destruct l' as [|y ys];
      try (split; [discriminate | intros E; discriminate E]).
    + split; reflexivity.
    + inversion IH as [|x' xs' Hx Hxs]; subst.
      rewrite andb_true_iff, (Hx y), (IHxs Hxs ys).
      split.
      * intros [-> E]. injection E as ->. reflexivity.
      * intros E. injection E as -> ->. split; reflexivity.
Qed.

(* encoders *)
Definition sx_nat (n : nat) : sx := A (Z.of_nat n).
Definition sx_bool (b : bool) : sx := A (if b then 1 else 0)%Z.
Definition sx_list {X} (f : X -> sx) (l : list X) : sx := L (map f l).
Definition sx_opt {X} (f : X -> sx) (o : option X) : sx :=
  match o with None => L [] | Some x => L [f x] end.
Definition sx_text (t : list Z) : sx := L (map A t).
Definition sx_pair {X Y} (f : X -> sx) (g : Y -> sx) (p : X * Y) : sx :=
  L [f (fst p); g (snd p)].

(* indices (0-based) of the cases on which the model's observation differs
   from the expected one; the harness prints this list and nothing else *)
Fixpoint failing_from {C} (run : C -> sx) (n : nat) (cases : list (C * sx)) : list nat :=
  match cases with
  | [] => []
  | (c, e) :: rest =>
      if sx_eqb (run c) e then failing_from run (S n) rest
      else n :: failing_from run (S n) rest
  end.
Definition failing {C} (run : C -> sx) (cases : list (C * sx)) : list nat :=
  failing_from run 0 cases.
