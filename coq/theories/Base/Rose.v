(* Ordered forests of rose trees: the value a nutree [Tree] denotes.
   A node carries an identity (allocation index of the Python [Node] object)
   and an [info] record abstracting everything the library reads from it. *)
From Coq Require Import List ZArith Bool Arith Lia Permutation.
From NT Require Import Sx.
Import ListNotations.

Definition text := list Z.                 (* Python str as code points *)

Fixpoint text_eqb (a b : text) : bool :=
  match a, b with
  | [], [] => true
  | x :: a', y :: b' => Z.eqb x y && text_eqb a' b'
  | _, _ => false
  end.

Lemma text_eqb_eq a b : text_eqb a b = true <-> a = b.
Proof.
  revert b; induction a as [|x a IH]; intros [|y b]; cbn; try (split; [discriminate|intros E; discriminate E]).
  - split; reflexivity.
  - rewrite andb_true_iff, Z.eqb_eq, IH. split; [intros [-> ->]; reflexivity | intros E; injection E as -> ->; split; reflexivity].
Qed.

Lemma text_eqb_refl a : text_eqb a a = true.
Proof. apply text_eqb_eq; reflexivity. Qed.

(* data_id : Union[int, str] *)
Inductive did := DInt (z : Z) | DStr (s : text).

Definition did_eqb (a b : did) : bool :=
  match a, b with
  | DInt x, DInt y => Z.eqb x y
  | DStr x, DStr y => text_eqb x y
  | _, _ => false
  end.

Lemma did_eqb_eq a b : did_eqb a b = true <-> a = b.
Proof.
  destruct a as [x|x], b as [y|y]; cbn; try (split; [discriminate|intros E; discriminate E]).
  - rewrite Z.eqb_eq. split; [intros ->; reflexivity|intros E; injection E as ->; reflexivity].
  - rewrite text_eqb_eq. split; [intros ->; reflexivity|intros E; injection E as ->; reflexivity].
Qed.

Lemma did_eqb_refl a : did_eqb a a = true.
Proof. apply did_eqb_eq; reflexivity. Qed.

Lemma did_eq_dec (a b : did) : {a = b} + {a <> b}.
Proof.
  destruct (did_eqb a b) eqn:E; [left; now apply did_eqb_eq|right; intros H; apply did_eqb_eq in H; congruence].
Defined.

Definition sx_did (d : did) : sx :=
  match d with DInt z => L [A 0%Z; A z] | DStr s => L [A 1%Z; sx_text s] end.

(* kind of a TypedNode; [None] for plain nodes *)
Definition kind := option text.
Definition kind_eqb (a b : kind) : bool :=
  match a, b with
  | None, None => true
  | Some x, Some y => text_eqb x y
  | _, _ => false
  end.
Lemma kind_eqb_eq a b : kind_eqb a b = true <-> a = b.
Proof.
  destruct a as [x|], b as [y|]; cbn; try (split; [discriminate|intros E; discriminate E]).
  - rewrite text_eqb_eq. split; [intros ->; reflexivity|intros E; injection E as ->; reflexivity].
  - split; reflexivity.
Qed.
Definition sx_kind (k : kind) : sx := sx_opt sx_text k.

(* What the library can read from a node's data object and the node itself. *)
Record info := I {
  i_obj   : Z;        (* identity of the data object ([is])                  *)
  i_eqc   : Z;        (* equality class of the data object ([==])            *)
  i_hash  : Z;        (* hash(data)                                           *)
  i_isstr : bool;     (* isinstance(data, str)                                *)
  i_name  : text;     (* f"{data}" = node.name                                *)
  i_did   : did;      (* node.data_id                                         *)
  i_kind  : kind;     (* node.kind for typed nodes                            *)
  i_meta  : list (text * sx)   (* node.meta, [] for None                      *)
}.

Definition set_meta_i (m : list (text * sx)) (i : info) : info :=
  I (i_obj i) (i_eqc i) (i_hash i) (i_isstr i) (i_name i) (i_did i) (i_kind i) m.
Definition set_kind_i (k : kind) (i : info) : info :=
  I (i_obj i) (i_eqc i) (i_hash i) (i_isstr i) (i_name i) (i_did i) k (i_meta i).
Definition set_did_i (d : did) (i : info) : info :=
  I (i_obj i) (i_eqc i) (i_hash i) (i_isstr i) (i_name i) d (i_kind i) (i_meta i).

Definition sx_meta (m : list (text * sx)) : sx :=
  L (map (fun kv => L [sx_text (fst kv); snd kv]) m).

(* canonical rendering of a node's payload, as the harness renders it *)
Definition sx_info (i : info) : sx :=
  L [A (i_obj i); sx_did (i_did i); sx_kind (i_kind i); sx_meta (i_meta i)].

Inductive rt := T (id : nat) (i : info) (ch : list rt).

Definition rid (t : rt) : nat := match t with T id _ _ => id end.
Definition rinfo (t : rt) : info := match t with T _ i _ => i end.
Definition rch (t : rt) : list rt := match t with T _ _ ch => ch end.
Definition rkind (t : rt) : kind := i_kind (rinfo t).
Definition rdid (t : rt) : did := i_did (rinfo t).

Definition forest := list rt.

Section RtInd.
  Variable P : rt -> Prop.
  Hypothesis H : forall id i ch, Forall P ch -> P (T id i ch).
  Fixpoint rt_ind' (t : rt) : P t :=
    match t with
    | T id i ch =>
        H id i ch ((fix go (l : list rt) : Forall P l :=
                      match l with
                      | [] => Forall_nil _
                      | x :: xs => Forall_cons _ (rt_ind' x) (go xs)
                      end) ch)
    end.
End RtInd.

(* pre-order list of the sub-trees (nodes with their branches) *)
Fixpoint pre (t : rt) : list rt := match t with T _ _ ch => t :: flat_map pre ch end.
Notation pre_f := (flat_map pre).
Definition ids (f : forest) : list nat := map rid (pre_f f).
Definition ids_t (t : rt) : list nat := map rid (pre t).

Fixpoint size (t : rt) : nat := match t with T _ _ ch => S (list_sum (map size ch)) end.
Definition size_f (f : forest) : nat := list_sum (map size f).

Fixpoint height (t : rt) : nat :=        (* 0 for a leaf, as Node.calc_height *)
  match t with T _ _ ch => match ch with [] => 0 | _ => S (list_max (map height ch)) end end.

(* first sub-tree with the given identity, in pre-order *)
Definition find_node (n : nat) (f : forest) : option rt :=
  find (fun t => Nat.eqb (rid t) n) (pre_f f).

(* full structural rendering: (id, payload, children) *)
Fixpoint sx_rt (t : rt) : sx :=
  match t with T id i ch => L [sx_nat id; sx_info i; L (map sx_rt ch)] end.
Definition sx_forest (f : forest) : sx := L (map sx_rt f).

(* shape only *)
Fixpoint sx_shape (t : rt) : sx :=
  match t with T id _ ch => L [sx_nat id; L (map sx_shape ch)] end.

Definition sx_ids (l : list nat) : sx := sx_list sx_nat l.
Definition sx_nodes (l : list rt) : sx := sx_list (fun t => sx_nat (rid t)) l.
Definition sx_onode (o : option rt) : sx := sx_opt (fun t => sx_nat (rid t)) o.
