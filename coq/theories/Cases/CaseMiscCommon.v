(* Correspondence entry point of the common.py odds-and-ends part (host C14). *)
From Coq Require Import List ZArith Bool Arith.
From NT Require Import Sx Rose.
From NT Require Export MiscMapper MiscCommon.
From NTGen Require Import Generated.
Import ListNotations.

Inductive ccase :=
| CVersion (real3 cur3 : list Z) (mins : list (list Z))     (* check_python_version under a patched sys.version_info *)
| CClasses (names : list text).                              (* issubclass matrix of the named exception classes *)

Definition run_misc_common (c : ccase) : sx :=
  match c with
  | CVersion real3 cur3 mins =>
      L [ sx_text (python_version real3);
          L (map (fun m => match check_python_version real3 cur3 m with
                           | inl e => L [A (-1)%Z; A e]
                           | inr (r, w) => L [sx_bool r; sx_opt sx_text w]
                           end) mins) ]
  | CClasses names =>
      L (map (fun a => L (map (fun b => sx_bool (is_subclass 4 ERROR_BASES a b)) names)) names)
  end.
