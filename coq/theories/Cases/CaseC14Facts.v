(* The serialisation mappers the harness installs satisfy (or, for the one that
   drops data_id, do not satisfy) the mapper hypothesis of the C14 theorems;
   concrete examples showing that the hypotheses of the theorems are
   satisfiable and needed. *)
From Coq Require Import List ZArith Bool Arith.
From NT Require Import Sx Rose DictList DictListProofs CaseC14.
From NTGen Require Import Generated.
Import ListNotations.
Open Scope Z_scope.

Lemma sm_set_ok tbl : sm_ok (enc_of tbl) (sm_of (SMset tbl)).
Proof.
  intros i res H1 H2 H3. cbn [sm_of]. refine (conj _ (conj _ (conj _ _))).
  - apply dget_dset_same.
  - apply dget_dset_other. exact k_id_neq_data.
  - rewrite dget_dset_other by exact k_ch_neq_data. exact H2.
  - rewrite dget_dset_other by discriminate. exact H3.
Qed.

Lemma sm_wrap_ok tbl : sm_ok (fun i => JList [JStr (i_name i); enc_of tbl i]) (sm_of (SMwrap tbl)).
Proof.
  intros i res H1 H2 H3. cbn [sm_of]. rewrite H1. refine (conj _ (conj _ (conj _ _))).
  - apply dget_dset_same.
  - apply dget_dset_other. exact k_id_neq_data.
  - rewrite dget_dset_other by exact k_ch_neq_data. exact H2.
  - rewrite dget_dset_other by discriminate. exact H3.
Qed.

Lemma sm_new_keep_ok tbl : sm_ok (enc_of tbl) (sm_of (SMnew tbl true)).
Proof.
  intros i res H1 H2 H3. cbn [sm_of]. refine (conj _ (conj _ (conj _ _))).
  - reflexivity.
  - destruct (dget k_data_id res); reflexivity.
  - destruct (dget k_data_id res); reflexivity.
  - destruct (dget k_data_id res); reflexivity.
Qed.

Lemma sm_extra_ok tbl : sm_ok enc_name (sm_of (SMextra tbl)).
Proof.
  intros i res H1 H2 H3. cbn [sm_of]. refine (conj _ (conj _ (conj _ _))).
  - rewrite dget_dset_other by discriminate. exact H1.
  - apply dget_dset_other. discriminate.
  - rewrite dget_dset_other by discriminate. exact H2.
  - rewrite dget_dset_other by discriminate. exact H3.
Qed.

(* the mapper that returns a new dict without data_id is not admissible *)
Lemma sm_new_drop_not_ok tbl enc : ~ sm_ok enc (sm_of (SMnew tbl false)).
Proof.
  intros H.
  destruct (H (I 0 0 0 true [] (DInt 1) None []) [(k_data, JStr []); (k_data_id, JInt 1)] eq_refl eq_refl eq_refl) as (_ & E & _).
  discriminate E.
Qed.

(* ------------------------------------------------------------------ *)
(* a tree of strings with clones, falsy explicit ids, an explicit id equal to
   the default:   a#0 [ b#"" , a ] ; b [ a#0 ]      (hash a = 11, hash b = 22) *)
Definition ex_a (d : did) : info := I 1 1 11 true [97] d None [].
Definition ex_b (d : did) : info := I 2 2 22 true [98] d None [].
Definition ex_f : forest :=
  [ T 1 (ex_a (DInt 0)) [T 2 (ex_b (DStr [])) []; T 3 (ex_a (DInt 11)) []];
    T 4 (ex_b (DInt 22)) [T 5 (ex_a (DInt 0)) []] ].

Definition ex_raw (v : jv) : res info :=
  match v with
  | JStr s => if text_eqb s [97] then inl (I (-1) 1 11 true [97] (DInt 0) None [])
              else if text_eqb s [98] then inl (I (-1) 2 22 true [98] (DInt 0) None [])
              else inr E_CRASH
  | _ => inr E_TYPE
  end.

Ltac nodup := repeat (apply NoDup_cons; [cbn; intuition discriminate|]); apply NoDup_nil.
Ltac su := repeat first [apply Forall_nil | apply Forall_cons | apply sibuniq_node; [cbn; nodup|]].

Lemma ex_sibuniq : sibuniq_f ex_f.
Proof. split; [cbn; nodup|su]. Qed.

Lemma ex_strings : forall t, In t (pre_f ex_f) ->
  exists i', ex_raw (JStr (i_name (rinfo t))) = inl i' /\ same_data (rinfo t) i'.
Proof.
  intros t H. cbn in H.
  repeat (destruct H as [<-|H]; [eexists; split; [reflexivity|repeat split]|]). destruct H.
Qed.

Lemma ex_dump :
  to_dict_list sm_none ex_f =
  [ JDict [(k_data, JStr [97]); (k_data_id, JInt 0);
           (k_children, JList [JDict [(k_data, JStr [98]); (k_data_id, JStr [])]; JDict [(k_data, JStr [97])]])];
    JDict [(k_data, JStr [98]); (k_children, JList [JDict [(k_data, JStr [97]); (k_data_id, JInt 0)]])] ].
Proof. reflexivity. Qed.

Lemma ex_rebuilt :
  tree_from_dict (dd_raw ex_raw) 5 (to_dict_list sm_none ex_f) =
  inl [ T 6 (I (-1) 1 11 true [97] (DInt 0) None [])
          [T 7 (I (-1) 2 22 true [98] (DStr []) None []) []; T 8 (I (-1) 1 11 true [97] (DInt 11) None []) []];
        T 9 (I (-1) 2 22 true [98] (DInt 22) None []) [T 10 (I (-1) 1 11 true [97] (DInt 0) None []) []] ].
Proof. vm_compute. reflexivity. Qed.

(* objects with a mapper pair: value-equal objects 1,2 (one eq class 7) and an
   identity-hashed object 3, encoded by the [SMset] mapper *)
Definition ex_tbl : list (Z * jv) := [(1, JDict [([118], JInt 7)]); (2, JDict [([118], JInt 7)]); (3, JDict [([107], JInt 3)])].
Definition ex_o (o c h : Z) (d : did) : info := I o c h false [79] d None [].
Definition ex_g : forest :=
  [ T 1 (ex_o 1 7 70 (DInt 70)) [T 2 (ex_o 2 7 70 (DStr [107])) []; T 3 (ex_o 3 3 33 (DInt 33)) [T 4 (ex_o 1 7 70 (DInt 70)) []]] ].
Definition ex_dd : dmapper :=
  dd_raw (fun v => if jv_eqb v (JDict [([118], JInt 7)]) then inl (I (-1) 7 70 false [79] (DInt 0) None [])
                   else if jv_eqb v (JDict [([107], JInt 3)]) then inl (I (-1) 3 33 false [79] (DInt 0) None [])
                   else inr E_CRASH).

Lemma ex_g_sibuniq : sibuniq_f ex_g.
Proof. split; [cbn; nodup|su]. Qed.

Lemma ex_g_inverse : Forall (allinfo (inverse_on (sm_of (SMset ex_tbl)) ex_dd)) ex_g.
Proof.
  apply allinfo_f_of_pre. intros t H. cbn in H.
  repeat (destruct H as [<-|H];
          [apply (inverse_on_raw (enc_of ex_tbl)); [apply sm_set_ok|eexists; split; [reflexivity|repeat split]]|]).
  destruct H.
Qed.

(* a mapper pair that moves the id to another key and back: the serialisation
   mapper stores data_id under "g" (and the encoded object under "t"), the
   deserialisation mapper pops both and restores item["data_id"] *)
Lemma dget_dremove_other k k' d : k <> k' -> dget k (dremove k' d) = dget k d.
Proof.
  intros N. induction d as [|[k2 v2] r IH]; [reflexivity|]. cbn [dremove dget].
  destruct (text_eqb k' k2) eqn:E.
  - apply text_eqb_eq in E. subst k2. now rewrite (text_eqb_neq _ _ N).
  - cbn [dget]. destruct (text_eqb k k2); [reflexivity|exact IH].
Qed.

Lemma sm_guid_kids tbl : sm_kids (sm_of (SMguid tbl)).
Proof.
  intros i res H. cbn [sm_of]. rewrite dget_dset_other by discriminate.
  destruct (dget k_data_id res); [|exact H].
  rewrite dget_dset_other by discriminate. rewrite dget_dremove_other by discriminate. exact H.
Qed.

Definition ex_dec (v : jv) : res info :=
  if jv_eqb v (JDict [([118], JInt 7)]) then inl (I (-1) 7 70 false [79] (DInt 0) None [])
  else if jv_eqb v (JDict [([107], JInt 3)]) then inl (I (-1) 3 33 false [79] (DInt 0) None [])
  else inr E_CRASH.

Definition ex_dd_guid : dmapper := fun d =>
  match dget k_t d with
  | None => inr E_KEY
  | Some v =>
      match ex_dec v with
      | inr e => inr e
      | inl i => inl (i, match dget k_g d with
                         | Some g => dset k_data_id g (dremove k_g (dremove k_t d))
                         | None => dremove k_t d
                         end)
      end
  end.

Ltac guid_node :=
  let D := fresh "D" in let Hown := fresh "Hown" in
  intros D Hown; unfold ex_dd_guid;
  rewrite (Hown k_t ltac:(discriminate)), (Hown k_g ltac:(discriminate)); cbn;
  eexists; eexists; split; [reflexivity|]; split; [repeat split|]; split;
  [ first [ apply dget_dset_same
          | rewrite dget_dremove_other by discriminate; rewrite (Hown k_data_id ltac:(discriminate)); reflexivity ]
  | repeat first [rewrite dget_dset_other by discriminate | rewrite dget_dremove_other by discriminate];
    rewrite (Hown k_node_id ltac:(discriminate)); reflexivity ].

Lemma ex_guid_inverse : Forall (allinfo (inverse_on (sm_of (SMguid ex_tbl)) ex_dd_guid)) ex_g.
Proof.
  apply allinfo_f_of_pre. intros t H. cbn in H.
  destruct H as [<-|[<-|[<-|[<-|[]]]]]; guid_node.
Qed.

Lemma ex_guid_rebuilt :
  tree_from_dict ex_dd_guid 4 (to_dict_list (sm_of (SMguid ex_tbl)) ex_g) =
  inl [ T 5 (I (-1) 7 70 false [79] (DInt 70) None [])
          [T 6 (I (-1) 7 70 false [79] (DStr [107]) None []) [];
           T 7 (I (-1) 3 33 false [79] (DInt 33) None []) [T 8 (I (-1) 7 70 false [79] (DInt 70) None []) []]] ].
Proof. vm_compute. reflexivity. Qed.

(* the inverse-pair hypothesis is needed: a decoder that maps every value to
   one object makes two siblings collide *)
Lemma ex_not_inverse :
  tree_from_dict (dd_raw (fun _ => inl (I (-1) 0 0 true [] (DInt 0) None []))) 0
                 (to_dict_list sm_none [T 1 (ex_a (DInt 11)) []; T 2 (ex_b (DInt 22)) []]) = inr E_UNIQUE.
Proof. reflexivity. Qed.

(* sibling uniqueness is needed as well (a state the library refuses to build) *)
Lemma ex_not_unique :
  tree_from_dict (dd_raw ex_raw) 0 (to_dict_list sm_none [T 1 (ex_a (DInt 11)) []; T 2 (ex_a (DInt 11)) []]) = inr E_UNIQUE.
Proof. reflexivity. Qed.

(* the literal keys of the source (regenerated from /repo on every run) are the
   keys of the model; the data_id test is the guarded [self._data_id == hash(self._data)] *)
Lemma source_keys_ok :
  TO_DICT_KEYS = [k_data; k_data_id; k_children] /\
  FROM_DICT_KEYS = [k_data; k_data_id; k_node_id; k_children] /\
  TO_DICT_ID_TEST = 2 /\
  TO_DICT_SKELETON = [0; 5; 1; 2; 3; 4].
Proof. repeat split; vm_compute; reflexivity. Qed.

(* a mapper that returns a new dict without "data_id" loses explicit ids *)
Lemma ex_drop_loses_ids :
  tree_from_dict (dd_raw ex_raw) 0 (to_dict_list (sm_of (SMnew [(1, JStr [97])] false)) [T 1 (ex_a (DInt 0)) []]) =
  inl [T 1 (I (-1) 1 11 true [97] (DInt 11) None []) []].
Proof. reflexivity. Qed.

(* canonical dict lists: the four shapes of a canonical item *)
Lemma canon_leaf dd s i : dd [(k_data, JStr s)] = inl (i, [(k_data, JStr s)]) -> i_name i = s -> i_hash i <> (-1) ->
  canon dd (JDict [(k_data, JStr s)]).
Proof. intros H1 H2 Hh. apply (canon_item dd s i [] [] H1 H2 Hh); now left. Qed.

Lemma canon_id dd s i dv :
  dd [(k_data, JStr s); (k_data_id, jv_of_did dv)] = inl (i, [(k_data, JStr s); (k_data_id, jv_of_did dv)]) -> i_name i = s -> i_hash i <> (-1) -> dv <> DInt (i_hash i) ->
  canon dd (JDict [(k_data, JStr s); (k_data_id, jv_of_did dv)]).
Proof.
  intros H1 H2 Hh H3. apply (canon_item dd s i [(k_data_id, jv_of_did dv)] [] H1 H2 Hh); [right|now left].
  exists dv. split; [reflexivity|exact H3].
Qed.

Lemma canon_kids dd s i c cs :
  dd [(k_data, JStr s); (k_children, JList (c :: cs))] = inl (i, [(k_data, JStr s); (k_children, JList (c :: cs))]) -> i_name i = s -> i_hash i <> (-1) -> Forall (canon dd) (c :: cs) ->
  canon dd (JDict [(k_data, JStr s); (k_children, JList (c :: cs))]).
Proof.
  intros H1 H2 Hh H3. apply (canon_item dd s i [] [(k_children, JList (c :: cs))] H1 H2 Hh); [now left|right].
  exists c, cs. split; [reflexivity|exact H3].
Qed.

Lemma canon_full dd s i dv c cs :
  dd [(k_data, JStr s); (k_data_id, jv_of_did dv); (k_children, JList (c :: cs))] =
  inl (i, [(k_data, JStr s); (k_data_id, jv_of_did dv); (k_children, JList (c :: cs))]) -> i_name i = s -> i_hash i <> (-1) -> dv <> DInt (i_hash i) ->
  Forall (canon dd) (c :: cs) ->
  canon dd (JDict [(k_data, JStr s); (k_data_id, jv_of_did dv); (k_children, JList (c :: cs))]).
Proof.
  intros H1 H2 Hh H3 H4.
  apply (canon_item dd s i [(k_data_id, jv_of_did dv)] [(k_children, JList (c :: cs))] H1 H2 Hh); right.
  - exists dv. split; [reflexivity|exact H3].
  - exists c, cs. split; [reflexivity|exact H4].
Qed.

(* the dump of the example tree is canonical *)
Lemma ex_canon : Forall (canon (dd_raw ex_raw)) (to_dict_list sm_none ex_f).
Proof.
  rewrite ex_dump. apply Forall_cons; [|apply Forall_cons; [|apply Forall_nil]].
  - apply (canon_full _ [97] (I (-1) 1 11 true [97] (DInt 0) None []) (DInt 0)); [reflexivity|reflexivity|discriminate|discriminate|].
    apply Forall_cons; [|apply Forall_cons; [|apply Forall_nil]].
    + apply (canon_id _ [98] (I (-1) 2 22 true [98] (DInt 0) None []) (DStr [])); [reflexivity|reflexivity|discriminate|discriminate].
    + apply (canon_leaf _ [97] (I (-1) 1 11 true [97] (DInt 0) None [])); [reflexivity|reflexivity|discriminate].
  - apply (canon_kids _ [98] (I (-1) 2 22 true [98] (DInt 0) None [])); [reflexivity|reflexivity|discriminate|].
    apply Forall_cons; [|apply Forall_nil].
    apply (canon_id _ [97] (I (-1) 1 11 true [97] (DInt 0) None []) (DInt 0)); [reflexivity|reflexivity|discriminate|discriminate].
Qed.

(* explicit node ids of hand-written dicts: kept; a second use is refused by the
   assert of Tree._register (before the data_id of that item is looked at) *)
Lemma ex_node_ids :
  tree_from_dict (dd_raw ex_raw) 0
    [JDict [(k_data, JStr [97]); (k_node_id, JInt 5); (k_children, JList [JDict [(k_data, JStr [98]); (k_node_id, JStr [49; 50])]])]] =
  inl [T 1 (I (-1) 1 11 true [97] (DInt 11) None [(k_node_id, A 5)])
         [T 2 (I (-1) 2 22 true [98] (DInt 22) None [(k_node_id, A 12)]) []]] /\
  tree_from_dict (dd_raw ex_raw) 0
    [JDict [(k_data, JStr [97]); (k_node_id, JInt 5)]; JDict [(k_data, JStr [98]); (k_node_id, JInt 5); (k_data_id, JList [])]] =
  inr E_ASSERT.
Proof. split; reflexivity. Qed.
