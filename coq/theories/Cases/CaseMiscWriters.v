(* Correspondence entry point of the file-writers part (host C17). *)
From Coq Require Import List ZArith Bool Arith.
From NT Require Import Sx Rose.
From NT Require Export Export CaseC17 MiscWriters.
Import ListNotations.

(* long texts are compared as (length, polynomial hash mod 2^61), by the same formula on both sides (as CaseC16) *)
Definition WHM : Z := 2305843009213693951%Z.
Definition whstep (h c : Z) : Z := Z.land (h * 65599 + c + 1) WHM.
Definition sx_t (t : text) : sx :=
  if Nat.leb (length t) 100 then L [A 0%Z; sx_text t] else L [A 1%Z; A (Z.of_nat (length t)); A (fold_left whstep t 7%Z)].

Definition sx_wres' (r : wres) : sx :=
  match r with
  | WStream t => L [A 0%Z; sx_t t]
  | WFile b t => L [A 1%Z; sx_bool b; sx_t t]
  | WRefused => L [A 2%Z]
  | WBroken w b t => L [A 3%Z; A (match w with TStream => 0 | TPath => 1 end)%Z; sx_bool b; sx_t t]
  end.

(* (tree as its root node, Mermaid calls (start, options, path?, format?), DOT calls on the tree (options, path?, format?)) *)
Definition run_misc_writers (c : rt * list (Z * mopts * bool * bool) * list (dopts * bool * bool)) : sx :=
  let root := fst (fst c) in
  L [ L (map (fun q : Z * mopts * bool * bool => let '(z, o, p, f) := q in
                       match find_start root z with
                       | Some t => sx_wres' (mermaid_write o t (if p then TPath else TStream) f)
                       | None => A (-2)%Z
                       end) (snd (fst c)));
      L (map (fun q : dopts * bool * bool => let '(o, p, f) := q in
                       sx_wres' (dotfile_write (dot_doc o true (rname root) root) (if p then TPath else TStream) f)) (snd c)) ].
