(* Correspondence entry point of the file-writers part (host C17). *)
From Coq Require Import List ZArith Bool Arith.
From NT Require Import Sx Rose.
From NT Require Export Export CaseC17 MiscWriters.
Import ListNotations.

(* (tree as its root node, Mermaid calls (start, options, path?, format?), DOT calls on the tree (options, path?, format?)) *)
Definition run_misc_writers (c : rt * list (Z * mopts * bool * bool) * list (dopts * bool * bool)) : sx :=
  let root := fst (fst c) in
  L [ L (map (fun q : Z * mopts * bool * bool => let '(z, o, p, f) := q in
                       match find_start root z with
                       | Some t => sx_wres (mermaid_write o t (if p then TPath else TStream) f)
                       | None => A (-2)%Z
                       end) (snd (fst c)));
      L (map (fun q : dopts * bool * bool => let '(o, p, f) := q in
                       sx_wres (dotfile_write (dot_doc o true (rname root) root) (if p then TPath else TStream) f)) (snd c)) ].
