(* Correspondence entry point of the attribute-forwarding part (host C10). *)
From Coq Require Import List ZArith Bool.
From NT Require Import Sx Rose.
From NT Require Export MiscMapper MiscForward.
Import ListNotations.

(* (names found on the node's class, tree flag or None, attributes of the data object, probed names) *)
Definition run_misc_forward (c : list text * option bool * dict * list text) : sx :=
  let '(own, tf, attrs, names) := c in L (map (fun n => sx_got (node_getattr own tf attrs n)) names).
