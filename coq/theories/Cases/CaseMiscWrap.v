(* Correspondence entry point of the DictWrapper part (host C02): a case is (id() of every dict object in allocation order, script). *)
From Coq Require Import List ZArith Bool.
From NT Require Import Sx Rose.
From NT Require Export MiscMapper MiscWrap.
Import ListNotations.

Definition run_misc_wrap (c : list Z * list op) : sx := run_wrap (fst c) (snd c).
