(* Correspondence entry point for C18: the lock machine evaluated on
   - CSched : arbitrary programs under an arbitrary schedule (compared with a re-execution
              by real threads on the tree's real `_lock`, one event per scheduler tick,
              acquire(blocking=False) telling whether the step was enabled);
   - CTrace : the Acq/Read/Write/Rel trace recorded while one snapshot operation ran
              single-threaded, against the unfoldings of its GENERATED skeleton;
   - CPark  : a writer parks inside `with tree:` between two groups of mutations while a
              reader runs the recorded program of a snapshot operation;
   - COwner : the owner nests `with tree:` n times, runs the operation inside, a contender
              probes the lock in the middle and at the end;
   - CHist  : the global history recorded from FREE-RUNNING writer and reader threads (also used for
              "an operation that raised, then another thread uses the tree");
   - CInv   : the owner calls an operation inside `with tree:` while a reader is already blocked. *)
From Coq Require Import List ZArith Bool Arith.
From NTGen Require Import Generated.
From NT Require Import Sx RLock Skeleton.
Import ListNotations.

Inductive case :=
| CSched (ps : list (list Z)) (sched : list Z)
| CTrace (label : list Z) (tr : list Z)
| CPark (label : list Z) (tr : list Z) (nw1 nw2 : Z)
| COwner (label : list Z) (tr : list Z) (nest : Z)
| CHist (ps : list (list Z)) (sched : list Z) (readers : list Z)
| CInv (label : list Z) (tr : list Z) (labelw : list Z) (trw : list Z) (nw1 nw2 : Z).

Definition ev_of (z : Z) : ev :=
  match z with 0%Z => EAcq | 1%Z => ERel | 2%Z => ERead | _ => EWrite end.
Definition prog_of_z (l : list Z) : prog := map ev_of l.
Definition nat_of (z : Z) : nat := Z.to_nat z.

(* ---- CSched ---------------------------------------------------------- *)
(* what one scheduler tick did: 0 nothing to do, 1 blocked, 2 executed, 3 release of a lock
   the thread does not own (Python: RuntimeError) - with "does the thread own the lock" and the
   version, both before the tick *)
Definition tick_obs (s : st) (t : tid) : sx :=
  let kind :=
    match next s t with
    | None => 0
    | Some (e, _) =>
        match fire (owner s) (depth s) (ver s) t e with
        | None => 1
        | Some _ => match e with ERel => if is_owner (owner s) t then 2 else 3 | _ => 2 end
        end
    end in
  L [sx_nat kind; sx_bool (is_owner (owner s) t); sx_nat (ver s)].

Fixpoint run_obs (sched : list tid) (s : st) : list sx * st :=
  match sched with
  | [] => ([], s)
  | t :: r => let '(o, s') := run_obs r (step t s) in (tick_obs s t :: o, s')
  end.

Definition final_obs (s : st) : sx :=
  L [sx_bool (match owner s with None => true | Some _ => false end); sx_nat (ver s);
     sx_list (fun p => sx_nat (length p)) (progs s)].

(* ---- the generated table --------------------------------------------- *)
Fixpoint zs_eqb (a b : list Z) : bool :=
  match a, b with
  | [], [] => true
  | x :: a', y :: b' => Z.eqb x y && zs_eqb a' b'
  | _, _ => false
  end.

Fixpoint find_label (l : list Z) (ls : list (list Z)) (i : nat) : option nat :=
  match ls with
  | [] => None
  | x :: r => if zs_eqb l x then Some i else find_label l r (S i)
  end.

Definition FUEL := 4.

(* `with tree:` around a read: not a method with a skeleton of its own; its program is what
   __enter__/__exit__ are (generated facts LOCK_ACQUIRE_OK / LOCK_RELEASE_OK) *)
Definition with_label : list Z := [119; 105; 116; 104]%Z.
Definition with_progs : list prog :=
  if LOCK_ACQUIRE_OK && LOCK_RELEASE_OK then [[EAcq; ERead; ERel]; [EAcq; ERel]] else [].

Definition progs_of_label (l : list Z) : list prog :=
  if zs_eqb l with_label then with_progs
  else match find_label l SNAPSHOT_LABELS 0 with
       | Some i => op_expansions SNAPSHOT_PROGS FUEL i
       | None => []
       end.

Definition member (l : list Z) (tr : prog) : bool := existsb (prog_eqb (collapse tr)) (progs_of_label l).

(* ---- CPark / COwner schedules ----------------------------------------- *)
Definition reads_seen (t : tid) (s : st) : list nat :=
  map e_ver (filter (fun e => (e_tid e =? t) && ev_eqb (e_ev e) ERead) (hist s)).

Fixpoint dedup (l : list nat) : list nat :=
  match l with
  | x :: ((y :: _) as r) => if x =? y then dedup r else x :: dedup r
  | _ => l
  end.

Definition done (s : st) (t : tid) : bool := match nth t (progs s) [] with [] => true | _ => false end.
Definition free (s : st) : bool := match owner s with None => true | Some _ => false end.

Definition run_park (tr : prog) (nw1 nw2 : nat) : sx :=
  let w := EAcq :: repeat EWrite nw1 ++ repeat EWrite nw2 ++ [ERel] in
  let s0 := init [w; tr] in
  let s1 := run (repeat 0 (1 + nw1)) s0 in
  let s2 := run (repeat 1 (length tr)) s1 in          (* the reader tries while the writer is parked *)
  let s3 := run (repeat 0 (nw2 + 1)) s2 in
  let s4 := run (repeat 1 (length tr)) s3 in
  L [sx_bool (done s2 1); sx_bool (done s4 1); sx_list sx_nat (dedup (reads_seen 1 s4)); sx_bool (free s4)].

Definition run_owner (tr : prog) (nest : nat) : sx :=
  let o := repeat EAcq nest ++ tr ++ repeat ERel nest in
  let s0 := init [o; [EAcq; ERel]] in
  let s1 := run (repeat 0 (nest + length tr)) s0 in   (* owner: nested acquisitions, then the operation *)
  let s2 := run [1] s1 in                             (* contender probes: blocked (2 events left) iff nest > 0 *)
  let s3 := run (repeat 0 nest) s2 in
  let s4 := run [1; 1] s3 in
  L [sx_nat (length (nth 1 (progs s2) []));
     sx_bool (done s3 0); sx_bool (done s4 1); sx_bool (free s4);
     sx_list sx_nat (dedup (reads_seen 0 s4))].

(* the owner runs an operation (program trw) INSIDE its section while the reader (program tr) is
   already blocked on the tree lock: the owner is never blocked (re-entrancy), whatever the reader
   does; then it leaves and the reader completes on the committed state *)
Definition run_inv (tr trw : prog) (nw1 nw2 : nat) : sx :=
  let w := EAcq :: repeat EWrite nw1 ++ trw ++ repeat EWrite nw2 ++ [ERel] in
  let s0 := init [w; tr] in
  let s1 := run (repeat 0 (1 + nw1)) s0 in
  let s2 := run (repeat 1 (length tr)) s1 in          (* the reader tries: blocked *)
  let s3 := run (repeat 0 (length trw)) s2 in         (* the owner's nested operation *)
  let s4 := run (repeat 0 (nw2 + 1)) s3 in
  let s5 := run (repeat 1 (length tr)) s4 in
  L [sx_bool (done s2 1); sx_bool (length (nth 0 (progs s3) []) =? nw2 + 1); sx_bool (done s4 0);
     sx_bool (done s5 1); sx_list sx_nat (dedup (reads_seen 1 s5)); sx_list sx_nat (dedup (reads_seen 0 s5));
     sx_bool (free s5)].

Definition trace_obs (label : list Z) (p : prog) : sx :=
  L [sx_bool (member label p); sx_bool (bracketed p); sx_nat (nsec 0 p); sx_bool (writes p)].

Definition run18 (c : case) : sx :=
  match c with
  | CSched ps sched =>
      let '(o, s) := run_obs (map nat_of sched) (init (map prog_of_z ps)) in
      L [L o; final_obs s]
  | CTrace label tr => trace_obs label (prog_of_z tr)
  | CPark label tr nw1 nw2 =>
      L [trace_obs label (prog_of_z tr); run_park (prog_of_z tr) (nat_of nw1) (nat_of nw2)]
  | COwner label tr nest =>
      L [trace_obs label (prog_of_z tr); run_owner (prog_of_z tr) (nat_of nest)]
  | CInv label tr labelw trw nw1 nw2 =>
      L [trace_obs label (prog_of_z tr); trace_obs labelw (prog_of_z trw);
         run_inv (prog_of_z tr) (prog_of_z trw) (nat_of nw1) (nat_of nw2)]
  | CHist ps sched readers =>
      (* a history recorded from free-running threads, replayed: it must be a behaviour of the machine
         (every recorded tick enabled, all programs consumed) and the versions the readers saw must be
         the machine's *)
      let s := run (map nat_of sched) (init (map prog_of_z ps)) in
      L [sx_bool (finished s); sx_bool (length (log s) =? length sched);
         sx_bool (forallb bracketed (map prog_of_z ps));
         sx_list (fun t => sx_list sx_nat (dedup (reads_seen (nat_of t) s))) readers]
  end.
