(* Correspondence entry point of the node/tree miscellany part (host C10). *)
From Coq Require Import List ZArith Bool Arith.
From NT Require Import Sx Rose Nav MiscRepr.
From NT Require Export CaseNav MiscNode.
From NTGen Require Import Generated.
Import ListNotations.

Record mcase := MC {
  mc_f : forest;
  mc_reg : list Z;          (* keys of _node_by_id in dict order, as node identities *)
  mc_draws : list Z;        (* what the stream reader standing in for `random` will deliver *)
  mc_typed : bool;
  mc_names : list text      (* [node class; root class; tree class; tree name] *)
}.

Definition sx_err_or {X} (f : X -> sx) (r : Z + X) : sx :=
  match r with inl c => L [A (-1)%Z; A c] | inr x => f x end.

Definition run_misc_node (c : mcase) : sx :=
  let f := mc_f c in
  let reg := map Z.to_nat (mc_reg c) in
  let nm := fun k => nth k (mc_names c) [] in
  let ents := ERoot :: flat_map (fun t => match locate_f (rid t) f with Some x => [ENode x] | None => [] end) (pre_f f) in
  L [ L (map (fun e => L [ sx_bool (is_system_root e);
                           sx_nodes (ent_children f e);
                           sx_text (ent_repr (mc_typed c) (nm 0%nat) (nm 1%nat) (nm 3%nat) ROOT_DATA_ID e);
                           match e with
                           | ERoot => L []
                           | ENode x => L [sx_text (node_path x); sx_nodes (node_get_children x)]
                           end ]) ents);
      L [ sx_err_or sx_bool (tree_eq tt); sx_nat (tree_len reg); sx_nat (tree_count reg); sx_bool (tree_bool reg);
          sx_on (tree_first_child f); sx_on (tree_last_child f); sx_text (tree_repr (nm 2%nat) (nm 3%nat)) ];
      L (map (fun d => sx_err_or sx_nat (get_random_node reg d)) (mc_draws c));
      (* n == m for every ordered pair, n == n.data, hash(n) *)
      L [ L (map (fun a => L (map (fun b => sx_bool (node_eq a b)) (pre_f f))) (pre_f f));
          L (map (fun a => sx_bool (node_eq_obj a (i_eqc (rinfo a)))) (pre_f f));
          sx_err_or A (node_hash tt) ] ].
