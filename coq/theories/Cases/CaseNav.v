(* Correspondence entry points for C10 and C15: run every query of Nav.v on
   every node (and ordered pair) of a forest and render the answers. *)
From Coq Require Import List ZArith Bool Arith.
From NT Require Import Sx Rose Nav.
Import ListNotations.

Definition Tz (id : Z) (i : info) (ch : list rt) : rt := T (Z.to_nat id) i ch.

Definition sx_on (o : option rt) : sx := sx_onode o.
Definition sx_onat (o : option nat) : sx := sx_opt sx_nat o.

(* ---- C10 ---- *)
Definition obs_plain (c : ctx) : sx :=
  L [ sx_on (q_parent c); sx_nodes (q_children c); sx_on (q_first_child c); sx_on (q_last_child c);
      sx_nodes (q_siblings c false); sx_nodes (q_siblings c true);
      sx_on (q_first_sibling c); sx_on (q_last_sibling c); sx_on (q_prev c); sx_on (q_next c);
      sx_onat (q_index c); sx_nat (q_depth c); sx_nat (q_height c); sx_nat (rid (q_top c));
      sx_bool (q_is_top c); sx_bool (q_is_leaf c); sx_bool (q_is_first c); sx_bool (q_is_last c);
      sx_bool (q_has_children c);
      sx_nodes (q_parent_list c false false); sx_nodes (q_parent_list c true false);
      sx_nodes (q_parent_list c false true); sx_nodes (q_parent_list c true true);
      sx_text (q_path c true); sx_text (q_path c false);
      sx_nat (q_count_desc c false); sx_nat (q_count_desc c true);
      L (map (fun k => match q_up c k with
                       | None => A (-1)%Z
                       | Some None => A 0%Z
                       | Some (Some t) => sx_nat (rid t)
                       end) (seq 0 (q_depth c + 2))) ].

(* ordered pairs, compact: for the node with context c, the list of nodes it is a descendant of, the list of nodes it
   is an ancestor of, and for every node o (pre-order) the nearest common ancestor (0 = None; ids are >= 1) *)
Definition sx_cid (o : option rt) : sx := match o with Some t => sx_nat (rid t) | None => A 0%Z end.

Definition obs_pairs (cs : list ctx) (c : ctx) : sx :=
  L [ sx_nodes (map c_self (filter (fun o => q_is_descendant_of c (rid (c_self o))) cs));
      sx_nodes (map c_self (filter (fun o => q_is_ancestor_of o (rid (c_self c))) cs));
      L (map (fun o => sx_cid (q_common_ancestor c o)) cs) ].

Definition run10 (f : forest) : sx :=
  let ocs := map (fun t => locate_f (rid t) f) (pre_f f) in
  let cs := flat_map (fun oc => match oc with Some c => [c] | None => [] end) ocs in
  L [ L (map (fun oc => match oc with None => A (-1)%Z | Some c => obs_plain c end) ocs);
      L (map (fun oc => match oc with None => A (-1)%Z | Some c => obs_pairs cs c end) ocs);
      sx_nat (tree_height f);
      L [ sx_nodes (tr_children f); sx_on (tr_first_child f); sx_on (tr_last_child f); sx_nat (tr_count f);
          sx_nat (tr_count_desc f false); sx_nat (tr_count_desc f true) ];
      (* cross-tree pair queries against a twin tree with the same node_ids: nodes of different trees are never
         related, so the list of (a, b, query) answers other than False / None is empty *)
      L [] ].

(* ---- C15 ---- *)
Definition obs_typed_ch (t : rt) (k : option text) : sx :=
  L [ sx_nodes (t_get_children (rch t) k); sx_on (t_first_child (rch t) k);
      sx_on (t_last_child (rch t) k); sx_bool (t_has_children (rch t) k) ].

Definition obs_typed_sib (c : ctx) (any : bool) : sx :=
  L [ sx_nodes (t_siblings c any false); sx_nodes (t_siblings c any true);
      sx_on (t_first_sibling c any); sx_on (t_last_sibling c any);
      sx_on (t_prev c any); sx_on (t_next c any); sx_onat (t_index c any);
      sx_bool (t_is_first c any); sx_bool (t_is_last c any) ].

Definition run15 (cs : forest * list text) : sx :=
  let f := fst cs in
  let ks := None :: map Some (snd cs) in
  L [ L (map (fun t => match locate_f (rid t) f with
                       | None => A (-1)%Z
                       | Some c => L [ L (map (obs_typed_ch t) ks);
                                       obs_typed_sib c false; obs_typed_sib c true ]
                       end) (pre_f f));
      L (map (fun k => sx_nodes (t_iter_by_type f k)) ks);
      L (map (fun k => L [ sx_on (t_first_child f k); sx_on (t_last_child f k) ]) ks) ].
