(* Bridge between the function the Layer-B theorems are about ([Machine.step] / [run]) and the function the
   correspondence evaluates ([CaseMut.step_chk] / [run_chk] = step behind the liveness guard [op_live]).
   (audit, cross-cutting "step vs step_chk"; C01 F2, C02 low "after-history over run".) *)
From Coq Require Import List ZArith Bool Arith.
From NT Require Import Sx Rose Surgery Machine WF Invariant CaseMut.
Import ListNotations.

(* every reference the operation mentions is live: the guarded step IS the step *)
Lemma step_chk_live w o : op_live w o = true -> step_chk w o = step w o.
Proof. unfold step_chk. now intros ->. Qed.

(* some reference is stale: the model-level error, and the world is untouched (the harness raises NotLive there and
   does not call the library) *)
Lemma step_chk_stale w o : op_live w o = false -> step_chk w o = (Err EModel, w).
Proof. unfold step_chk. now intros ->. Qed.

Lemma step_chk_cases w o : step_chk w o = step w o \/ (op_live w o = false /\ step_chk w o = (Err EModel, w)).
Proof. unfold step_chk. destruct (op_live w o); [now left|now right]. Qed.

(* hence every theorem with the premise "step ... = (Ok r, w')" applies verbatim to a successful guarded step *)
Lemma step_chk_ok w o r w' : step_chk w o = (Ok r, w') -> step w o = (Ok r, w') /\ op_live w o = true.
Proof. unfold step_chk. destruct (op_live w o); [auto|discriminate]. Qed.

(* and a refusal of the guarded step is the machine's refusal, or the stale-reference answer with the world unchanged *)
Lemma step_chk_err w o e w' : step_chk w o = (Err e, w') ->
  step w o = (Err e, w') \/ (op_live w o = false /\ e = EModel /\ w' = w).
Proof. unfold step_chk. destruct (op_live w o); [now left|]. intros X. injection X as <- <-. now right. Qed.

(* histories: the guarded run is the plain run of the operations that were live when their turn came *)
Fixpoint live_ops (ops : list op) (w : world) : list op :=
  match ops with
  | [] => []
  | o :: rest => if op_live w o then o :: live_ops rest (snd (step w o)) else live_ops rest w
  end.

Lemma run_chk_is_run ops : forall w, run_chk ops w = run (live_ops ops w) w.
Proof.
  induction ops as [|o rest IH]; intros w; [reflexivity|]. change (run_chk (o :: rest) w) with (run_chk rest (snd (step_chk w o))).
  cbn [live_ops]. unfold step_chk. destruct (op_live w o); cbn [snd]; rewrite IH; reflexivity.
Qed.

Lemma live_ops_incl ops : forall w, incl (live_ops ops w) ops.
Proof.
  induction ops as [|o rest IH]; intros w x Hx; [exact Hx|]. cbn [live_ops] in Hx. destruct (op_live w o).
  - destruct Hx as [<-|Hx]; [now left|right; exact (IH _ _ Hx)].
  - right. exact (IH _ _ Hx).
Qed.

(* a world reached through the guarded run is reached through [run]: every "after ANY history" theorem stated over
   [run] covers the states the correspondence visits *)
Theorem run_chk_reachable ops w : exists ops', incl ops' ops /\ run_chk ops w = run ops' w.
Proof. exists (live_ops ops w). split; [apply live_ops_incl|apply run_chk_is_run]. Qed.

(* transfer of any step-invariant *)
Theorem run_chk_invariant (P : world -> Prop) : (forall w o, P w -> P (snd (step w o))) ->
  forall ops w, P w -> P (run_chk ops w).
Proof.
  intros Hs ops. induction ops as [|o rest IH]; intros w Hw; [exact Hw|].
  change (run_chk (o :: rest) w) with (run_chk rest (snd (step_chk w o))). apply IH.
  destruct (step_chk_cases w o) as [->|[_ ->]]; [now apply Hs|exact Hw].
Qed.

(* the per-step observations of the correspondence ([trace_x]): the k-th entry is the guarded step from the k-th state *)
Lemma trace_x_length ops : forall w, length (trace_x ops w) = length ops.
Proof.
  induction ops as [|o rest IH]; intros w; [reflexivity|]. cbn [trace_x]. destruct (step_chk w o) as [r w']. cbn [length]. now rewrite IH.
Qed.
