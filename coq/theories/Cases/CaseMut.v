(* Correspondence entry point for the Layer-B properties (C01-C04, C07, C13):
   run a history on the mutation machine and render, after every step, the
   result and the full state of every tree the way harness/mut.py observes the
   implementation. *)
From Coq Require Import List ZArith Bool Arith.
From NT Require Export Sx Rose Surgery Machine.
Import ListNotations.

(* ---- liveness of every reference an op mentions (harness/mut.py: NotLive) ---- *)
Definition tree_ok (w : world) (ti : nat) : bool :=
  match get_tree w ti with Some _ => true | None => false end.
Definition node_live (w : world) (ti n : nat) : bool :=
  match get_tree w ti with Some t => live t n | None => false end.
Definition pref_live (w : world) (ti p : nat) : bool :=
  if Nat.eqb p 0 then tree_ok w ti else node_live w ti p.
Definition any_live (w : world) (n : nat) : bool := existsb (fun t => live t n) (trees w).
Definition bef_live (w : world) (b : before) : bool :=
  match b with BNode n => any_live w n | _ => true end.

Definition op_live (w : world) (o : op) : bool :=
  match o with
  | OAdd ti p _ _ _ b => pref_live w ti p && bef_live w b
  | OShort ti n how _ _ _ =>
      pref_live w ti n && (negb (Nat.eqb n 0) || match how with SAppendChild | SPrependChild => true | _ => false end)
  | OAddNode ti p sti src _ _ b _ => pref_live w ti p && node_live w sti src && bef_live w b
  | OAddTree ti p sti b _ => pref_live w ti p && tree_ok w sti && bef_live w b
  | OCopyTo sti src ti target add_self b _ =>
      tree_ok w sti && pref_live w ti target && bef_live w b &&
      (if Nat.eqb src 0 then negb add_self else node_live w sti src)
  | OTreeCopy sti => tree_ok w sti
  | ONodeCopy sti src _ => node_live w sti src
  | OMove ti n tti target b => node_live w ti n && pref_live w tti target && bef_live w b
  | ORemove ti n _ _ => node_live w ti n
  | ORemoveChildren ti n => pref_live w ti n
  | OSort ti p _ _ _ => pref_live w ti p
  | OSetData ti n _ _ _ => node_live w ti n
  | ORename ti n _ => node_live w ti n
  | OMeta ti n _ => node_live w ti n
  | ONewTree _ _ => true
  | OClear ti => tree_ok w ti
  | ODel ti k => tree_ok w ti && match k with KNode n => node_live w ti n | _ => true end
  | OFilter ti n _ => pref_live w ti n
  | OFromDict ti p _ => pref_live w ti p
  | OTreeFromDict _ => true
  end.

Definition step_chk (w : world) (o : op) : res * world :=
  if op_live w o then step w o else (Err EModel, w).

(* ---- observation: Machine.sx_world plus node.parent / node.tree of every node ---- *)
Definition sx_parents (f : forest) : sx :=
  L (map (fun n => L [sx_nat n; sx_nat (match parent_of n f with Some p => p | None => 0 end); A 1%Z]) (ids f)).

Definition sx_tstate_x (t : tstate) : sx :=
  L [sx_forest (forest_of t); sx_ids (reg t); sx_idx (idx t); sx_parents (forest_of t)].

Definition sx_world_x (w : world) : sx := L (map sx_tstate_x (trees w)).

Fixpoint trace_x (ops : list op) (w : world) : list sx :=
  match ops with
  | [] => []
  | o :: rest => let (r, w') := step_chk w o in L [sx_res r; sx_world_x w'] :: trace_x rest w'
  end.

Definition run_chk (ops : list op) (w : world) : world := fold_left (fun w o => snd (step_chk w o)) ops w.

(* one history, or one setup followed by alternative last steps (all from the same state) *)
Inductive mcase :=
| CHist (ops : list op)
| CAlts (setup : list op) (alts : list op).

Definition run_hist (ops : list op) : sx := L (trace_x ops empty_world).

Definition run_mut (c : mcase) : sx :=
  match c with
  | CHist ops => run_hist ops
  | CAlts setup alts =>
      let w := run_chk setup empty_world in
      L [ L (trace_x setup empty_world);
          L (map (fun o => let (r, w') := step_chk w o in L [sx_res r; sx_world_x w']) alts) ]
  end.
