(* Entry points for the correspondence: the well-formedness checker of
   theories/Mut/WF.v ([wf_world_b w = true <-> WFw w], [wf_b t = true <-> WF t])
   evaluated on every state of a model run of a CaseMut case, and the theorem that
   every such flag is [true] (C01 over the guarded step [step_chk] of CaseMut.v). *)
From Coq Require Import List ZArith Bool Arith.
From NT Require Import Sx Rose Surgery Machine WF Invariant CaseMut.
Import ListNotations.

Definition wf_world_b : world -> bool := WF.wf_world_b.
Definition wf_tree_b : tstate -> bool := WF.wf_b.

Theorem wf_world_b_sound w : wf_world_b w = true <-> WFw w.
Proof. exact (wf_world_b_WFw w). Qed.

(* WF of every state along a history (one boolean per step), unguarded and guarded steps *)
Fixpoint wf_trace (ops : list op) (w : world) : list bool :=
  match ops with
  | [] => []
  | o :: rest => let w' := snd (step w o) in wf_world_b w' :: wf_trace rest w'
  end.

Fixpoint wf_trace_chk (ops : list op) (w : world) : list bool :=
  match ops with
  | [] => []
  | o :: rest => let w' := snd (step_chk w o) in wf_world_b w' :: wf_trace_chk rest w'
  end.

Definition wf_flags (c : mcase) : list bool :=
  match c with
  | CHist ops => wf_trace_chk ops empty_world
  | CAlts setup alts =>
      let w := run_chk setup empty_world in
      wf_trace_chk setup empty_world ++ map (fun o => wf_world_b (snd (step_chk w o))) alts
  end.

(* the observation: one 0/1 per state *)
Definition run_wf (c : mcase) : sx := sx_list sx_bool (wf_flags c).

(* ---- C01 for the guarded step ---- *)
Lemma WFw_step_chk w o : WFw w -> WFw (snd (step_chk w o)).
Proof. intros H. unfold step_chk. destruct (op_live w o); [now apply WFw_step|exact H]. Qed.

Lemma WFw_run_chk ops : forall w, WFw w -> WFw (run_chk ops w).
Proof.
  induction ops as [|o ops IH]; intros w H; [exact H|]. unfold run_chk. cbn [fold_left]. apply IH. now apply WFw_step_chk.
Qed.

Lemma wf_trace_chk_true ops : forall w, WFw w -> forallb (fun b => b) (wf_trace_chk ops w) = true.
Proof.
  induction ops as [|o ops IH]; intros w H; [reflexivity|]. cbn [wf_trace_chk forallb].
  assert (H' := WFw_step_chk w o H). rewrite (proj2 (wf_world_b_sound _) H'). cbn [andb]. now apply IH.
Qed.

Lemma wf_trace_true ops : forall w, WFw w -> forallb (fun b => b) (wf_trace ops w) = true.
Proof.
  induction ops as [|o ops IH]; intros w H; [reflexivity|]. cbn [wf_trace forallb].
  assert (H' := WFw_step w o H). rewrite (proj2 (wf_world_b_sound _) H'). cbn [andb]. now apply IH.
Qed.

(* every flag of every case is true: a 0 in [run_wf] can only come from the implementation side *)
Theorem wf_flags_true c : forallb (fun b => b) (wf_flags c) = true.
Proof.
  destruct c as [ops|setup alts]; cbn [wf_flags].
  - apply wf_trace_chk_true, WFw_empty.
  - rewrite forallb_app. apply andb_true_iff. split; [apply wf_trace_chk_true, WFw_empty|].
    apply forallb_forall. intros b Hb. apply in_map_iff in Hb. destruct Hb as (o & <- & _).
    apply wf_world_b_sound. apply WFw_step_chk. apply WFw_run_chk, WFw_empty.
Qed.
