(* Entry points for the correspondence: the well-formedness checker of
   theories/Mut/WF.v ([wf_world_b w = true <-> WFw w], [wf_b t = true <-> WF t]),
   so the harness can evaluate the invariant on every state of a model run. *)
From Coq Require Import List ZArith Bool Arith.
From NT Require Import Sx Rose Surgery Machine WF.
Import ListNotations.

Definition wf_world_b : world -> bool := WF.wf_world_b.
Definition wf_tree_b : tstate -> bool := WF.wf_b.

(* WF of every state along a history (one boolean per step) *)
Fixpoint wf_trace (ops : list op) (w : world) : list bool :=
  match ops with
  | [] => []
  | o :: rest => let w' := snd (step w o) in wf_world_b w' :: wf_trace rest w'
  end.

Definition sx_wf_trace (ops : list op) (w : world) : sx := sx_list sx_bool (wf_trace ops w).

Theorem wf_world_b_sound w : wf_world_b w = true <-> WFw w.
Proof. exact (wf_world_b_WFw w). Qed.
