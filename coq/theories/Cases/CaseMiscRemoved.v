(* Correspondence entry point of the removed-nodes part (host C01). *)
From Coq Require Import List ZArith Bool Arith.
From NT Require Import Sx Rose MiscRepr.
From NT Require Export MiscRemoved.
From NTGen Require Import Generated.
Import ListNotations.

Record rcase := RC {
  rc_typed : bool;
  rc_cls : text;                        (* class name of the nodes *)
  rc_live : list (Z * Z);               (* (node, its parent; 0 = the system root) of every node still in the tree *)
  rc_removed : list (Z * slots);        (* the removed node objects with their slots BEFORE the removal *)
  rc_others : list Z                    (* nodes (live or removed) used as the `other` argument *)
}.

Definition k_probe : text := [107]%Z.

(* accessors that TypedNode overrides with kind-aware versions are not probed on typed nodes *)
Definition accs (typed : bool) (cls : text) (others : list nat) : list acc :=
  [AName; AData; ADataId; ANodeId; AMeta; ATree; AKind; AParent; AChildren; AIsSystemRoot; AIsTop; AIsLeaf; AIsClone;
   ADepth; ACalcDepth; ACalcHeight; ACountDescendants false; ACountDescendants true; AIterator false; AIterator true; AGetTop;
   AParentList false false; AParentList true false; AParentList false true; AParentList true true;
   APath; AGetPath true; AGetPath false; AUp 1; AUp 0; AUp 2; AGetMeta k_probe; AGetClones false; AGetClones true; ARepr cls]
  ++ (if typed then [] else
        [AGetChildren; AFirstChild; ALastChild; AHasChildren; AIsFirstSibling; AIsLastSibling; ASiblings false; ASiblings true;
         AFirstSibling; ALastSibling; APrevSibling; ANextSibling; AGetIndex])
  ++ flat_map (fun o => [AIsDescendantOf o; AIsAncestorOf o; ACommonAncestor o]) others.

Definition kids_of (live : list (nat * nat)) (p : nat) : option (list nat) :=
  match map fst (filter (fun np => Nat.eqb (snd np) p) live) with [] => None | l => Some l end.

(* the heap after the removal: removed objects carry what _unregister assigns (flag and tag as lifted from the source),
   live nodes their pointers, every other identity is the system root *)
Definition heap_of (live : list (nat * nat)) (removed : list (nat * slots)) : sheap :=
  fun x =>
    match find (fun r => Nat.eqb (fst r) x) removed with
    | Some r => clear_slots DELETED_TAG UNREGISTER_CLEAR_DEFAULT (snd r)
    | None =>
        match find (fun np => Nat.eqb (fst np) x) live with
        | Some np => SL (Some (snd np)) (Some 1) (kids_of live x) [] None None None None
        | None => SL None (Some 1) (kids_of live 0) [] None None None None
        end
    end.

Definition run_misc_removed (c : rcase) : sx :=
  let live := map (fun p => (Z.to_nat (fst p), Z.to_nat (snd p))) (rc_live c) in
  let removed := map (fun p => (Z.to_nat (fst p), snd p)) (rc_removed c) in
  let h := heap_of live removed in
  let fuel := length live + 2 in
  L (map (fun r => L (map (fun a => sx_ans (eval h fuel (fst r) a)) (accs (rc_typed c) (rc_cls c) (map Z.to_nat (rc_others c))))) removed).
