(* Correspondence entry point for C19: load_tree_from_fs on an abstract
   directory, the flat list written by save, the tree read back by load; the
   FileSystemEntry constructor and the two mappers on arbitrary arguments. *)
From Coq Require Import List ZArith Bool.
From NT Require Import Sx Rose.
From NT Require Export FsLoad FsRepr.
Import ListNotations.
Open Scope Z_scope.

Inductive case19 :=
| CLoad (sort : bool) (root : path) (listing : list fsn)
| CEntry (name : text) (is_dir : bool) (size : option Z) (mdate : option mtime) (data0 : dict)
| CDeser (data : dict)
| CSort (l : list (text * Z))                      (* sorted(entries, key=attrgetter("name")) *)
| CPathSort (parent : path) (l : list (text * Z))  (* sorted([(parent / name, tag)], key=itemgetter(0)) *)
| CPathSortW (parent : path) (l : list (text * Z)) (* the same with PureWindowsPath *)
| CRepr (printable : list Z) (name : text) (is_dir : bool) (size : option Z) (mdate : option mtime).

Definition sx_ofse (o : option fse) : sx := sx_opt sx_fse o.

Definition run19 (c : case19) : sx :=
  match c with
  | CLoad s root l =>
      let f := load_tree_from_fs s root l in    (* the source-shaped function; = [load s l] by FsVisitProofs *)
      L [ sx_forest f; sx_entries (to_list f); sx_opt sx_forest (save_load f) ]
  | CEntry n d s m d0 =>
      match mk_entry n d s m with
      | None => L []
      | Some e => L [ sx_fse e; sx_dict (ser e d0); sx_ofse (deser (ser e d0)) ]
      end
  | CDeser d => sx_ofse (deser d)
  | CSort l => sx_list (fun p => L [sx_text (fst p); A (snd p)]) (sort_by fst l)
  | CPathSort parent l =>
      sx_list (fun p => L [sx_text (fst p); A (snd p)])
              (sort_g (fun a b => path_ltb (parent ++ [fst a]) (parent ++ [fst b])) l)
  | CPathSortW parent l =>
      sx_list (fun p => L [sx_text (fst p); A (snd p)])
              (sort_g (fun a b => path_ltb_win (parent ++ [fst a]) (parent ++ [fst b])) l)
  | CRepr pl n d s m =>
      sx_opt sx_text (match mk_entry n d s m with
                      | None => None
                      | Some e => repr_entry (fun c => existsb (Z.eqb c) pl) e
                      end)
  end.
