(* Correspondence entry point for C16: one case = one tree, a list of style
   arguments, the rendering text of every node, a title text and a join
   string.  For every style the model answers Tree.format_iter for the five
   title settings, Node.format_iter for every selected node (small trees:
   every node) as start node with add_self on/off, format(join=...) for the tree and every node, and
   Node.format_iter called on the system root itself. *)
From Coq Require Import List ZArith Bool Arith.
From NT Require Import Sx Rose.
From NT Require Export Format.
From NT Require Export CaseNav.
From NTGen Require Import Generated.
Import ListNotations.

Record case16 := mk16 {
  c_forest : forest;
  c_rends  : list (Z * text);      (* node id -> what repr renders for it *)
  c_cls    : text;                 (* class name of the tree *)
  c_name   : text;                 (* tree name *)
  c_styles : list style_arg;
  c_title  : text;                 (* the text used for title=<text> *)
  c_join   : text;
  c_starts : list Z;               (* ids of the nodes Node.format_iter is called on *)
  c_jstarts : list Z;              (* ids of the nodes Node.format(join=...) is called on *)
  c_full : bool }.                 (* compare every observation as full text (tiny trees: readable replays) *)

Definition sel (f : forest) (ids : list Z) : list nctx :=
  filter (fun x => existsb (Z.eqb (Z.of_nat (rid (n_node x)))) ids) (ctxs_l [] f).

Definition rend_of (rends : list (Z * text)) (t : rt) : text :=
  match find (fun e => Z.eqb (fst e) (Z.of_nat (rid t))) rends with
  | Some e => snd e
  | None => []
  end.

Definition sx_res {X} (enc : X -> sx) (r : res X) : sx :=
  match r with
  | Ok x => L [A 0%Z; enc x]
  | Err e => L [A (-1)%Z; A e]
  end.
Definition sx_lines (ls : list text) : sx := L (map sx_text ls).

(* Most observations of one case repeat the same lines (five title settings,
   every start node).  To keep the case terms small (coqc spends its time
   parsing them) only Tree.format_iter(title=default / False) and
   Tree.format(join=) are compared as full text; the others are compared as
   (number of lines, polynomial hash of all characters mod 2^61), computed
   by the same formula on both sides. *)
Definition HM : Z := 2305843009213693951%Z.
Definition HP : Z := 65599%Z.
Definition hstep (h c : Z) : Z := Z.land (h * HP + c + 1) HM.     (* = mod 2^61 *)
Definition hash_text (h : Z) (t : text) : Z := fold_left hstep t h.
Definition hash_line (h : Z) (l : text) : Z := hstep (hash_text h l) (-1)%Z.   (* end-of-line mark *)
Definition sx_hlines (ls : list text) : sx :=
  L [A (Z.of_nat (length ls)); A (fold_left hash_line ls 7%Z)].
Definition sx_htext (t : text) : sx := L [A (Z.of_nat (length t)); A (hash_text 7%Z t)].

Definition run16_style (c : case16) (a : style_arg) : sx :=
  let sx_hlines := if c_full c then sx_lines else sx_hlines in
  let sx_htext := if c_full c then sx_text else sx_htext in
  let f := c_forest c in
  let rend := rend_of (c_rends c) in
  let trepr := tree_repr (c_cls c) (c_name c) in
  let tfi := tree_format_iter CONNECTORS DEFAULT_CONNECTOR_STYLE rend trepr f a in
  let nfi := format_iter CONNECTORS DEFAULT_CONNECTOR_STYLE rend f in
  L [ L (map (fun ti => sx_res sx_lines (tfi ti)) [TiDefault; TiFalse]
           ++ map (fun ti => sx_res sx_hlines (tfi ti)) [TiTrue; TiText (c_title c); TiText []]);
      L (map (fun x => L [ sx_res sx_hlines (nfi (SNode x) a true);
                           sx_res sx_hlines (nfi (SNode x) a false) ])
             (sel f (c_starts c)));
      sx_res sx_text (tree_format CONNECTORS DEFAULT_CONNECTOR_STYLE rend trepr f a TiDefault (c_join c));
      L (map (fun x => L [ sx_res sx_htext (format CONNECTORS DEFAULT_CONNECTOR_STYLE rend f (SNode x) a true (c_join c));
                           sx_res sx_htext (format CONNECTORS DEFAULT_CONNECTOR_STYLE rend f (SNode x) a false (c_join c)) ])
             (sel f (c_jstarts c)));
      (* tree.system_root.format_iter(add_self=True / False) *)
      L [ sx_res sx_hlines (nfi SRoot a true); sx_res sx_hlines (nfi SRoot a false) ] ].

Definition run16 (c : case16) : sx := L (map (run16_style c) (c_styles c)).

(* one harness case = the states of ONE tree object at the moments it was
   formatted (query - mutate - query again; generators consumed late): the
   model is a pure function of the state at call time, so it is run on each *)
Definition run16m (cs : list case16) : sx := L (map run16 cs).
