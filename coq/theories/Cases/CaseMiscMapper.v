(* Correspondence entry point of the call_mapper part (host C14): a case is (site, callback script or None, dict). *)
From Coq Require Import List ZArith Bool.
From NT Require Import Sx Rose.
From NT Require Export MiscMapper.
Import ListNotations.

Definition run_misc_mapper (c : Z * option callback * dict) : sx :=
  let '(site, fn, d) := c in run_site site fn d.
