(* Correspondence entry point for the pointer-level model (theories/Mut/Heap.v): the history is run
   on the heap machine step by step (with the liveness guard of CaseMut.step_chk, evaluated on the
   forest-level machine running in parallel) and after every step the raw pointers of EVERY node
   ever allocated (live, removed, refused) are rendered: _parent, _children (None vs list), _tree.
   As soon as an operation outside [modelled_heap] occurs the heap model cannot follow any more and
   the observation is the marker -1 from there on. *)
From Coq Require Import List ZArith Bool Arith.
From NT Require Export Sx Rose Surgery Machine CaseMut.
From NT Require Import Heap.
Import ListNotations.

Definition h_next_state (w : world) (hw : option hworld) (o : op) : option hworld :=
  match hw with
  | Some h => if modelled_heap o then Some (if op_live w o then snd (h_step h o) else h) else None
  | None => None
  end.

Definition sx_hopt (hw : option hworld) : sx :=
  match hw with Some h => sx_hworld h | None => A (-1)%Z end.

Fixpoint h_trace (ops : list op) (w : world) (hw : option hworld) : list sx :=
  match ops with
  | [] => []
  | o :: rest =>
      let hw' := h_next_state w hw o in
      sx_hopt hw' :: h_trace rest (snd (step_chk w o)) hw'
  end.

Fixpoint h_run_chk (ops : list op) (w : world) (hw : option hworld) : option hworld :=
  match ops with
  | [] => hw
  | o :: rest => h_run_chk rest (snd (step_chk w o)) (h_next_state w hw o)
  end.

Definition run_heap (c : mcase) : sx :=
  match c with
  | CHist ops => L (h_trace ops empty_world (Some h_empty_world))
  | CAlts setup alts =>
      let w := run_chk setup empty_world in
      let hw := h_run_chk setup empty_world (Some h_empty_world) in
      L [ L (h_trace setup empty_world (Some h_empty_world));
          L (map (fun o => sx_hopt (h_next_state w hw o)) alts) ]
  end.
