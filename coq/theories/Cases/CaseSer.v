(* Shared by the correspondence entry points of C12 and C05: the harness' mappers
   as Gallina functions, option records, observation of results. *)
From Coq Require Export List ZArith Bool Arith.
From Coq Require Import String.
From NT Require Export Sx Rose Serialize SerializeSpec.
From NTGen Require Export Generated.
Import ListNotations.

Definition Tz (id : Z) (i : info) (ch : list rt) : rt := T (Z.to_nat id) i ch.

Fixpoint assoc_z {X} (k : Z) (m : list (Z * X)) : option X :=
  match m with
  | [] => None
  | (k', v) :: r => if Z.eqb k k' then Some v else assoc_z k r
  end.

(* mapper styles of the harness *)
Inductive mstyle := MNone | MHarness | MDoc | MFs | MDw.

(* --- the harness' serialize mapper (callback or method of a derived class):
   str data is left alone, other data adds the members recorded in [payload]
   (keyed by the identity of the data object) with data[k] = v *)
Definition ser_tab (payload : list (Z * dict)) : info -> dict -> dict :=
  fun i d => if i_isstr i then d
             else match assoc_z (i_obj i) payload with Some p => dupdate d p | None => d end.
(* DictWrapper.serialize_mapper (common.py): the entry IS a copy of the wrapped dict (the dict it is handed is dropped) *)
Definition ser_dw (payload : list (Z * dict)) : info -> dict -> dict :=
  fun i d => match assoc_z (i_obj i) payload with Some p => p | None => d end.
Definition ser_of (m : mstyle) (payload : list (Z * dict)) : info -> dict -> dict :=
  match m with MNone => default_ser | MDw => ser_dw payload | _ => ser_tab payload end.

Definition k_t := t_ "t"%string.
Definition k_v := t_ "v"%string.
Definition k_n := t_ "n"%string.
Definition k_type := t_ "type"%string.
Definition k_name := t_ "name"%string.

(* --- the harness' deserialize mapper: data["str"] if present, else an object
   built from data["t"], data["v"] whose str() is data["n"]; its hash is a fact
   of the run (table by entry index) *)
Definition hash_at (hashes : list (Z * Z)) (idx : nat) : Z :=
  match assoc_z (Z.of_nat idx) hashes with Some h => h | None => 0%Z end.
Definition deser_tab (shash : text -> Z) (hashes : list (Z * Z)) (idx : nat) (d : dict) : res dval :=
  match dget k_str d with
  | Some (JStr s) => Ok (DV true s (shash s))
  | Some _ => Err ECrash
  | None =>
      match dget k_t d with
      | None => Err EKey
      | Some _ =>
          match dget k_v d with
          | None => Err EKey
          | Some _ =>
              match dget k_n d with
              | Some (JStr n) => Ok (DV false n (hash_at hashes idx))
              | Some _ => Err ECrash
              | None => Err EKey
              end
          end
      end
  end.
(* the mapper of the user guide: data["type"], then data["name"] ... *)
Definition deser_doc (hashes : list (Z * Z)) (idx : nat) (d : dict) : res dval :=
  match dget k_type d with
  | None => Err EKey
  | Some _ =>
      match dget k_name d with
      | Some (JStr n) => Ok (DV false n (hash_at hashes idx))
      | Some _ => Err ECrash
      | None => Err EKey
      end
  end.

(* FileSystemTree.deserialize_mapper (fs.py): a directory if "d" is present, else a file from
   data["n"], data["s"], data["m"]; repr() and hash of the rebuilt FileSystemEntry are facts of the run *)
Definition k_d := t_ "d"%string.
Definition k_s := t_ "s"%string.
Definition k_m := t_ "m"%string.
Definition name_at (names : list (Z * text)) (idx : nat) : text :=
  match assoc_z (Z.of_nat idx) names with Some n => n | None => [] end.
Definition deser_fs (names : list (Z * text)) (hashes : list (Z * Z)) (idx : nat) (d : dict) : res dval :=
  let ok := Ok (DV false (name_at names idx) (hash_at hashes idx)) in
  match dget k_d d with
  | Some _ => match dget k_n d with Some _ => ok | None => Err EKey end
  | None => match dget k_n d with
            | None => Err EKey
            | Some _ => match dget k_s d with
                        | None => Err EKey
                        | Some _ => match dget k_m d with Some _ => ok | None => Err EKey end
                        end
            end
  end.

Definition shash_tab (tab : list (text * Z)) (s : text) : Z :=
  match assoc_t s tab with Some h => h | None => 0%Z end.

Definition deser_of (m : mstyle) (c : cls) (shash : text -> Z) (hashes : list (Z * Z)) (names : list (Z * text))
  : nat -> dict -> res dval :=
  match m with
  | MNone => default_deser c shash
  | MHarness => deser_tab shash hashes
  | MDoc => deser_doc hashes
  | MFs => deser_fs names hashes
  | MDw => fun idx _ => Ok (DV false (name_at names idx) (hash_at hashes idx))   (* the object built by DictWrapper.deserialize_mapper *)
  end.

(* storage options of one save *)
Record sopts := SO { so_cls : cls; so_ms : mstyle; so_ko : kopt; so_vo : vopt; so_meta : dict;
                     so_payload : list (Z * dict) }.
(* environment facts of one load *)
Record lenv := LE { le_cls : cls; le_ms : mstyle; le_shash : list (text * Z); le_hashes : list (Z * Z);
                    le_names : list (Z * text) }.

Definition m_save (o : sopts) (f : forest) : res jv :=
  save_doc (so_cls o) (ser_of (so_ms o) (so_payload o)) (so_ko o) (so_vo o) (so_meta o) f.
Definition m_layout (o : sopts) (f : forest) : jv :=
  layout_doc (so_cls o) (ser_of (so_ms o) (so_payload o)) (so_ko o) (so_vo o) (so_meta o) f.
Definition m_load (e : lenv) (j : jv) : res (dict * forest) :=
  load_doc (le_cls e) (deser_of (le_ms e) (le_cls e) (shash_tab (le_shash e)) (le_hashes e) (le_names e)) (shash_tab (le_shash e)) j.
