(* C14, audit follow-up: examples for the JSON transport and the premise-free
   strings theorem; the bridge to the C03 invariant predicate of the mutation
   machine. *)
From Coq Require Import List ZArith Bool Arith.
From NT Require Import Sx Rose DictList DictListProofs DictJson CaseC14 CaseC14Facts.
From NT Require WF.
Import ListNotations.
Open Scope Z_scope.

(* the mappers of the harness that write JSON-able values; the tuple-writing one does not *)
Lemma dict_tuple_free_get k d v : dict_tuple_free d = true -> dget k d = Some v -> tuple_free v = true.
Proof.
  unfold dict_tuple_free. induction d as [|[k' x] r IH]; [discriminate|]. cbn [forallb snd dget].
  intros H E. apply andb_true_iff in H as (H1 & H2). destruct (text_eqb k k'); [now injection E as <-|now apply IH].
Qed.

Lemma sm_tuple_not_json tbl : ~ sm_json (sm_of (SMtuple tbl)).
Proof.
  intros H. specialize (H (I 0 0 0 true [] (DInt 0) None []) [(k_data, JStr [])] eq_refl). discriminate H.
Qed.

(* a tuple-valued data_id (a calc_data_id hook may return one) is outside the
   domain: the structure is not a fixed point of the transport, and what comes
   back holds a list, which from_dict refuses (TypeError: unhashable type: 'list') *)
Definition ex_tuple_item : jv :=
  JDict [(k_data, JStr [97]); (k_data_id, JTuple [JStr [107]; JStr [97]])].

Lemma ex_tuple_id :
  tuple_free ex_tuple_item = false /\
  json_rt ex_tuple_item = JDict [(k_data, JStr [97]); (k_data_id, JList [JStr [107]; JStr [97]])] /\
  json_rt ex_tuple_item <> ex_tuple_item /\
  tree_from_dict (dd_raw ex_raw) 0 [json_rt ex_tuple_item] = inr E_TYPE.
Proof. repeat split; try reflexivity. discriminate. Qed.

(* a tuple written by a mapper: the dump is changed by the transport (the
   harness's decoder reads element 1 of either, so the round trip survives) *)
Lemma ex_tuple_mapper :
  map json_rt (to_dict_list (sm_of (SMtuple [(1, JInt 5)])) [T 1 (ex_a (DInt 11)) []]) =
  [JDict [(k_data, JList [JStr [97]; JInt 5])]] /\
  to_dict_list (sm_of (SMtuple [(1, JInt 5)])) [T 1 (ex_a (DInt 11)) []] =
  [JDict [(k_data, JTuple [JStr [97]; JInt 5])]].
Proof. split; reflexivity. Qed.

(* the premise-free strings theorem applies to the example tree: its payloads
   are str payloads for these hash / equality-class functions of the characters *)
Definition ex_hash (s : text) : Z := if text_eqb s [97] then 11 else 22.
Definition ex_eqc (s : text) : Z := if text_eqb s [97] then 1 else 2.

Lemma ex_str_payloads : forall t, In t (pre_f ex_f) -> str_payload ex_hash ex_eqc (rinfo t).
Proof.
  intros t H. cbn in H. repeat (destruct H as [<-|H]; [repeat split|]). destruct H.
Qed.

(* C03's invariant predicate of the mutation machine is the hypothesis of the
   round-trip theorems *)
Lemma sibuniq_SU_t : forall t, sibuniq t <-> WF.SU (rch t).
Proof.
  induction t as [id i ch IH] using rt_ind'. cbn [rch]. split.
  - intros H. inversion H as [a b c ND F]; subst. constructor; [exact ND|].
    intros t Ht. rewrite Forall_forall in IH, F. apply IH; auto.
  - intros H. inversion H as [f ND F]; subst. constructor; [exact ND|].
    rewrite Forall_forall in *. intros t Ht. apply IH; auto.
Qed.

Lemma sibuniq_f_SU f : sibuniq_f f <-> WF.SU f.
Proof.
  unfold sibuniq_f. split.
  - intros [ND F]. constructor; [exact ND|]. rewrite Forall_forall in F. intros t Ht. apply sibuniq_SU_t. auto.
  - intros H. inversion H as [f' ND F]; subst. split; [exact ND|]. apply Forall_forall. intros t Ht. apply sibuniq_SU_t. auto.
Qed.

(* ------------------------------------------------------------------ *)
(* Audit F4: the table-driven decoder the correspondence runs for the mapper
   kind "extra" ([CaseC14.dd_head]) satisfies the inverse-pair hypothesis in the
   form [inverse_on_c] (the dicts that occur), so the round-trip theorem applies
   to that very run *)
Definition ex_sm_extra : smapper := sm_of (SMextra ex_tbl).

Definition ex_dt : list (jv * res info) :=
  [ (JDict (head_dict ex_sm_extra (ex_o 1 7 70 (DInt 70))), dok (I (-1) 7 70 false [79] (DInt 0) None []));
    (JDict (head_dict ex_sm_extra (ex_o 2 7 70 (DStr [107]))), dok (I (-1) 7 70 false [79] (DInt 0) None []));
    (JDict (head_dict ex_sm_extra (ex_o 3 3 33 (DInt 33))), dok (I (-1) 3 33 false [79] (DInt 0) None [])) ].

Lemma ex_sm_extra_json : sm_json ex_sm_extra.
Proof.
  intros i res H. unfold ex_sm_extra. cbn [sm_of]. apply dset_tuple_free; [|exact H].
  unfold enc_of, ex_tbl. cbn [zlookup].
  repeat match goal with |- context [Z.eqb ?a ?b] => destruct (Z.eqb a b) end; reflexivity.
Qed.

Lemma ex_sm_extra_kids : sm_kids ex_sm_extra.
Proof. intros i res H. unfold ex_sm_extra. cbn [sm_of]. rewrite dget_dset_other by discriminate. exact H. Qed.

Lemma ex_table_decoder_inverse : Forall (allinfo (inverse_on_c ex_sm_extra (dd_head ex_dt))) ex_g.
Proof.
  apply allinfo_f_of_pre. intros t H. cbn in H.
  destruct H as [<-|[<-|[<-|[<-|[]]]]]; intros D [->|(js & ->)];
    (eexists; eexists; split; [vm_compute; reflexivity|]; split; [repeat split|]; split; vm_compute; reflexivity).
Qed.

Lemma ex_table_decoder_roundtrip :
  exists f', tree_from_dict (dd_for (SMextra ex_tbl) ex_dt) 4 (map json_rt (to_dict_list ex_sm_extra ex_g)) = inl f' /\
             Forall2 iso ex_g f'.
Proof.
  destruct (roundtrip_c ex_sm_extra (dd_head ex_dt) 4 ex_g ex_sm_extra_json ex_sm_extra_kids ex_g_sibuniq
                        ex_table_decoder_inverse) as (f' & E & I & _).
  exists f'. split; [exact E|exact I].
Qed.
