(* Correspondence entry point for C01: the history is run on the mutation
   machine exactly as for C04 ([CaseMut.run_mut]: result + full state of every
   tree after every step, compared with the implementation), and in addition
   the decidable well-formedness checker [wf_world_b] (= [WFw], theorem
   C01_checker_sound) is evaluated on every state the model goes through.  The
   harness expects [true] everywhere, so a model state outside the invariant
   is a disagreement even when the implementation agrees with the model. *)
From Coq Require Import List ZArith Bool Arith.
From NT Require Export Sx Rose Surgery Machine CaseMut.
From NT Require Import WF CaseWF CaseHeap.
Import ListNotations.

Fixpoint wf_trace_chk (ops : list op) (w : world) : list bool :=
  match ops with
  | [] => []
  | o :: rest => let w' := snd (step_chk w o) in wf_world_b w' :: wf_trace_chk rest w'
  end.

Definition run01 (c : mcase) : sx :=
  match c with
  | CHist ops => L [run_mut c; sx_list sx_bool (wf_trace_chk ops empty_world); run_heap c]
  | CAlts setup alts =>
      let w := run_chk setup empty_world in
      L [run_mut c;
         L [sx_list sx_bool (wf_trace_chk setup empty_world);
            sx_list sx_bool (map (fun o => wf_world_b (snd (step_chk w o))) alts)];
         run_heap c]
  end.
