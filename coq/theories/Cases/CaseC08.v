(* Correspondence entry point for C08: one case = a tree, a verdict per node
   and a start (whole tree or a branch); every filtering form is run. *)
From Coq Require Import List ZArith Bool Arith.
From NT Require Import Sx Rose.
From NT Require Export Filter.
From NTGen Require Import Generated.
Import ListNotations.

Definition Tz (id : Z) (i : info) (ch : list rt) : rt := T (Z.to_nat id) i ch.

(* compact node terms of the cases: identity, data object, data_id, (kind,) children
   (nothing else of a node is read by the filter model or its observation) *)
Definition Nd (id obj : Z) (d : did) (ch : list rt) : rt :=
  T (Z.to_nat id) (I obj obj 0 false [] d None []) ch.
Definition Ndk (id obj : Z) (d : did) (k : list Z) (ch : list rt) : rt :=
  T (Z.to_nat id) (I obj obj 0 false [] d (Some k) []) ch.

(* tree, what the predicate does on each node, start, TypedTree? *)
Definition case08 := (forest * list (Z * raw) * option Z * bool)%type.

(* a node re-created by add_child(n) / add(n) without a kind argument: unchanged in a plain Tree,
   the default kind (read off the source: TypedTree.DEFAULT_CHILD_TYPE) in a TypedTree *)
Definition remake (typed : bool) (i : info) : info :=
  if typed then set_kind_i (Some DEFAULT_CHILD_TYPE) i else i.

(* the predicate of a case: what it does on each node *)
Definition rmap (m : list (Z * raw)) (n : nat) : raw :=
  match find (fun p => Z.eqb (fst p) (Z.of_nat n)) m with
  | Some p => snd p
  | None => RNone
  end.

(* a node of a copy: (allocation index relative to the call, data object, data_id, children) *)
Fixpoint sx_copy (t : rt) : sx :=
  match t with T id i ch => L [sx_nat id; A (i_obj i); sx_did (i_did i); sx_kind (i_kind i); L (map sx_copy ch)] end.
Definition sx_copies (f : forest) : sx := L (map sx_copy f).
Definition sx_shapes (f : forest) : sx := L (map sx_shape f).

Definition sx_err {X} (o : outcome X) : sx := match o with Ok _ => A 0 | EValue => A 3 | EUnique => A 1 end.

(* a copy, or the error class the call raised (as the harness renders it) *)
Definition sx_outcome (wrap : forest -> forest) (o : outcome forest) : sx :=
  match o with
  | Ok g => sx_copies (wrap g)
  | EValue => L [A (-1); A 3]
  | EUnique => L [A (-1); A 1]
  end.
(* the log of predicate calls is compared only for calls that returned *)
Definition sx_log (o : outcome forest) (l : list nat) : sx :=
  match o with Ok _ => sx_ids l | _ => L [A (-1)] end.

Definition run08_phase (c : case08) : sx :=
  let f := fst (fst (fst c)) in
  let m := snd (fst (fst c)) in
  let mk := remake (snd c) in
  let v := fun n => classify_cp (call_predicate (rmap m n)) in   (* as seen by _add_filtered *)
  let w := fun n => classify_ip (call_predicate (rmap m n)) in   (* as seen by Node.filter *)
  let same := fun g : forest => g in
  match snd (fst c) with
  | None =>
      let r := api_filtered mk (Some v) f 1 in
      let r' := api_copy mk (Some v) f 1 in
      let ip := filter_inplace w f in
      L [ L [sx_outcome same r; sx_outcome same r'];      (* Tree.filtered, Tree.copy(predicate=) *)
          sx_shapes f;                                    (* the source afterwards *)
          sx_shapes ip; sx_nat (length (ids ip));         (* Tree.filter *)
          (let lg := snd (add_filtered_tr v mk f 1) in L [sx_log r lg; sx_log r' lg; sx_ids (snd (filter_inplace_tr w f))]);   (* the logs of the traced scans *)
          (* without a predicate: Tree.copy(), Tree.filtered(None), Tree.filter(None) *)
          L [sx_outcome same (api_copy mk None f 1); sx_err (api_filtered mk None f 1); sx_err (api_filter None f)] ]
  | Some z =>
      let n := Z.to_nat z in
      match find_node n f with
      | None => A (-1)%Z
      | Some t =>
          let g := rch t in
          let top := fun x : forest => [T 1 (mk (rinfo t)) x] in     (* add_self=True: new_tree.add(self) on top *)
          let r1 := api_filtered mk (Some v) g 2 in
          let r1' := api_copy mk (Some v) g 2 in
          let r0 := api_copy mk (Some v) g 1 in
          let ip := map (upd_at n (filter_inplace w)) f in
          L [ L [sx_outcome top r1; sx_outcome top r1'; sx_outcome same r0];   (* Node.filtered, Node.copy(predicate=), Node.copy(add_self=False, predicate=) *)
              sx_shapes f;
              sx_shapes ip; sx_nat (length (ids ip));         (* Node.filter *)
              (let lg := snd (add_filtered_tr v mk g 2) in L [sx_log r1 lg; sx_log r1' lg; sx_log r0 (snd (add_filtered_tr v mk g 1)); sx_ids (snd (filter_inplace_tr w g))]);
              (* Node.copy(), Node.copy(add_self=False), Node.filtered(None), Node.filter(None) *)
              L [sx_outcome top (api_copy mk None g 2); sx_outcome same (api_copy mk None g 1);
                 sx_err (api_filtered mk None g 2); sx_err (api_filter None g)] ]
      end
  end.

(* one case of the correspondence = the phases of one history (one process, one predicate object): each phase
   is a pure function of the tree as it is when the phase starts and of the answers the predicate gives then *)
Definition run08 (cs : list case08) : sx := L (map run08_phase cs).
