(* Correspondence entry point for C06: one case = one tree; the model runs every
   iterator method from every start node with add_self on/off, and visit() with
   callbacks that signal at a chosen node / at a chosen call number, for every
   signal shape handed in.  The harness performs the same enumeration on the
   implementation. *)
From Coq Require Import List ZArith Bool Arith.
From NT Require Import Sx Rose.
From NT Require Export Traverse.
Import ListNotations.

Definition Tz (id : Z) (i : info) (ch : list rt) : rt := T (Z.to_nat id) i ch.

Fixpoint insert_sorted (x : nat) (l : list nat) : list nat :=
  match l with
  | [] => [x]
  | y :: r => if x <=? y then x :: l else y :: insert_sorted x r
  end.
Definition sort_nat (l : list nat) : list nat := fold_right insert_sorted [] l.

Definition mem_nat (x : nat) (l : list nat) : bool := existsb (Nat.eqb x) l.

Definition sx_err (e : nat) : sx := L [A (-1)%Z; sx_nat e].

Definition sx_iter (o : option (list rt)) : sx :=
  match o with None => sx_err E_NOTIMPL | Some l => sx_nodes l end.
Definition sx_iter_sorted (o : option (list rt)) : sx :=
  match o with None => sx_err E_NOTIMPL | Some l => sx_ids (sort_nat (map rid l)) end.

Definition sx_vres (r : vres) : sx :=
  match r with
  | VReturn None => L []
  | VReturn (Some z) => L [A z]
  | VRaise e => sx_err e
  end.
Definition sx_visit (r : list nat * vres) : sx := L [sx_ids (fst r); sx_vres (snd r)].

(* callbacks used by the check: signal [r] at node n / at the k-th call (0-based), None otherwise *)
Inductive trigger := AtNode (n : nat) | AtCall (k : nat).
Definition cb_of (tg : trigger) (r : raw) : cbT := fun calls x =>
  match tg with
  | AtNode n => if Nat.eqb x n then r else RetNone
  | AtCall k => if Nat.eqb (length calls) k then r else RetNone
  end.

Record sel := Sel {
  s_istarts : list nat;      (* start nodes for iterator(); 0 = whole tree *)
  s_vstarts : list nat;      (* start nodes for visit() *)
  s_sigs : list nat;         (* nodes at which a callback signals *)
  s_counts : list nat;       (* call numbers at which a callback signals *)
  s_shapes_n : list raw;     (* signal shapes for the node triggers *)
  s_shapes_k : list raw      (* signal shapes for the call-number triggers *)
}.

Definition obs_visit_m (vis : cbT -> list nat * vres) (s : sel) : sx :=
  let base := vis (fun _ _ => RetNone) in
  L [ sx_visit base;
      L (map (fun x => L (map (fun r => sx_visit (vis (cb_of (AtNode x) r))) (s_shapes_n s)))
             (filter (fun x => mem_nat x (s_sigs s)) (fst base)));
      L (map (fun k => L (map (fun r => sx_visit (vis (cb_of (AtCall k) r))) (s_shapes_k s)))
             (filter (fun k => k <? length (fst base)) (s_counts s))) ].

Definition visit_meths : list meth := all_meths.

Definition run06 (c : forest * list nat * sel) : sx :=
  let '(f, reg, s) := c in
  let regn := flat_map (fun n => match find_node n f with Some t => [t] | None => [] end) reg in
  let rnd := map (fun k => 7 * k + 3) (seq 0 (length reg)) in
  let nodes := pre_f f in
  let pick (l : list nat) := filter (fun t => mem_nat (rid t) l) nodes in
  L [ (* Tree.iterator / Tree.visit *)
      (if mem_nat 0 (s_istarts s) then
         L (map (fun m => match m with
                          | RANDOM | UNORDERED => sx_iter_sorted (tree_iterator f regn rnd m)
                          | _ => sx_iter (tree_iterator f regn rnd m)
                          end) all_meths)
       else L []);
      (if mem_nat 0 (s_vstarts s) then
         L (map (fun m => obs_visit_m (fun cb => tree_visit cb f m) s) visit_meths)
       else L []);
      (* Node.iterator / Node.visit *)
      L (map (fun t => L (map (fun a => L (map (fun m => sx_iter (iterator t m a)) all_meths)) [false; true]))
             (pick (s_istarts s)));
      L (map (fun t => L (map (fun a => L (map (fun m => obs_visit_m (fun cb => visit cb t m a) s) visit_meths)) [false; true]))
             (pick (s_vstarts s)));
      (* the registry holds exactly the nodes of the forest (hypothesis of the UNORDERED/RANDOM theorems) *)
      sx_bool (sx_eqb (sx_ids (sort_nat reg)) (sx_ids (sort_nat (ids f)))) ].
