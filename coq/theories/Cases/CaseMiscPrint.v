(* Correspondence entry point of the Tree.print part (host C16). *)
From Coq Require Import List ZArith Bool Arith.
From NT Require Import Sx Rose.
From NT Require Export Format CaseNav MiscPrint MiscRender.
From NTGen Require Import Generated.
Import ListNotations.

Record pcase := PC {
  p_forest : forest;
  p_rends : list (Z * text);       (* node id -> what repr renders for it *)
  p_cls : text;
  p_name : text;
  p_calls : list (style_arg * title_arg * text * bool);   (* style, title, join, file given *)
  p_reprs : list (Z * text)        (* node id -> repr(data) of the nodes whose data is not a str *)
}.

Definition p_rend (rends : list (Z * text)) (t : rt) : text :=
  match find (fun e => Z.eqb (fst e) (Z.of_nat (rid t))) rends with Some e => snd e | None => [] end.

Definition sx_otext (o : option text) : sx := match o with Some t => L [A 0%Z; sx_text t] | None => L [A (-1)%Z] end.

Definition run_misc_print (c : pcase) : sx :=
  L [ L (map (fun call =>
            let '(a, ti, j, fg) := call in
            match tree_print CONNECTORS DEFAULT_CONNECTOR_STYLE (p_rend (p_rends c)) (tree_repr (p_cls c) (p_name c)) (p_forest c) a ti j fg with
            | Ok (s, t) => L [A 0%Z; sx_sink s; sx_text t]
            | Err e => L [A (-1)%Z; A e]
            end) (p_calls c));
      (* the two default templates (lifted from the source) applied to every node *)
      L (map (fun t => let g := p_rend (p_reprs c) t in
                       L [sx_otext (render_with NODE_DEFAULT_RENDER_REPR t g); sx_otext (render_with TYPED_DEFAULT_RENDER_REPR t g)])
             (pre_f (p_forest c))) ].
