(* Correspondence entry point for C02: a history is run on the mutation machine
   and after EVERY step every tree is probed through the lookup functions of
   Mut/Lookup.v ([sx_lookups]: find_all / find_first by data, data_id, node_id,
   tree[key], key in tree, get_clones, is_clone, count, count_unique,
   calc_data_id) with a fixed list of probes per tree: every data object, every
   data_id and every node_id used anywhere in the history, present or absent.

   What is rendered per step is the result of the step and, per tree, the list
   of (probe index, answer) for the probes whose answer CHANGED with respect to
   the previous step (for a tree that did not exist before: all of them).
   Equality of these delta sequences is equality of the full answer sequences.

   A probe that cannot be asked yet is rendered as the placeholder [L []]: the
   node_id of a node that is not allocated yet ([next w <= n]), the clone
   queries of a node that is not (or no longer) in the tree. *)
From Coq Require Import List ZArith Bool Arith.
From NT Require Export Sx Rose Surgery Machine CaseMut Lookup.
Import ListNotations.

Definition ready (w : world) (t : tstate) (p : probe) : bool :=
  match p with
  | PNid n _ => Nat.ltb n (next w)
  | PNode n _ => live t n
  | _ => true
  end.

Definition look_tree (w : world) (t : tstate) (ps : list probe) : list sx :=
  map (fun p => if ready w t p then sx_probe t p else L []) ps.

Fixpoint look_trees (w : world) (ts : list tstate) (pss : list (list probe)) : list (list sx) :=
  match ts, pss with
  | t :: ts', ps :: pss' => look_tree w t ps :: look_trees w ts' pss'
  | _, _ => []
  end.

Definition look_world (w : world) (pss : list (list probe)) : list (list sx) := look_trees w (trees w) pss.

Fixpoint delta (i : nat) (old new : list sx) : list sx :=
  match new with
  | [] => []
  | x :: new' =>
      match old with
      | o :: old' => if sx_eqb o x then delta (S i) old' new' else L [sx_nat i; x] :: delta (S i) old' new'
      | [] => L [sx_nat i; x] :: delta (S i) [] new'
      end
  end.

Fixpoint deltas (old new : list (list sx)) : list sx :=
  match new with
  | [] => []
  | n :: new' =>
      match old with
      | o :: old' => L (delta 0 o n) :: deltas old' new'
      | [] => L (delta 0 [] n) :: deltas [] new'
      end
  end.

Fixpoint trace02 (ops : list op) (w : world) (pss : list (list probe)) (prev : list (list sx)) : list sx :=
  match ops with
  | [] => []
  | o :: rest =>
      let (r, w') := step_chk w o in
      let cur := look_world w' pss in
      L [sx_res r; L (deltas prev cur)] :: trace02 rest w' pss cur
  end.

Inductive case02 :=
| C02H (ops : list op) (pss : list (list probe))
| C02A (setup : list op) (pss : list (list probe)) (alts : list (op * list (list probe))).

Definition run02 (c : case02) : sx :=
  match c with
  | C02H ops pss => L (trace02 ops empty_world pss [])
  | C02A setup pss alts =>
      let w := run_chk setup empty_world in
      L [ L (trace02 setup empty_world pss []);
          L (map (fun a => let old := look_world w (snd a) in
                           let (r, w') := step_chk w (fst a) in
                           L [sx_res r; L (deltas old (look_world w' (snd a)))]) alts) ]
  end.
