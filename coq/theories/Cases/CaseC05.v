(* Correspondence entry point of C05 (save then load reproduces the tree). *)
From NT Require Export CaseSer.
Import ListNotations.

(* one tree, one option set: the document written and the tree loaded from it *)
Inductive case05 := CRound (o : sopts) (e : lenv) (f : forest).

Definition run05 (c : case05) : sx :=
  match c with
  | CRound o e f =>
      let r := m_save o f in
      L [ sx_res sx_jv r;
          match r with Ok j => sx_load_result (m_load e j) | Err _ => L [] end ]
  end.
