(* Correspondence entry point for C14: one case = one tree, dumped with a
   serialisation mapper, rebuilt with the matching deserialisation table; or a
   hand-written list of dicts that is loaded. *)
From Coq Require Import List ZArith Bool Arith.
From NT Require Import Sx Rose.
From NT Require Export DictList.
Import ListNotations.
Open Scope Z_scope.

Definition Tz (id : Z) (i : info) (ch : list rt) : rt := T (Z.to_nat id) i ch.

(* serialisation mappers the harness can install; [tbl] maps the identity of a
   data object to the JSON value the mapper's encoder produces for it *)
Inductive smd :=
| SMnone
| SMset (tbl : list (Z * jv))               (* data["data"] = enc(node.data); return None *)
| SMwrap (tbl : list (Z * jv))              (* data["data"] = [data["data"], enc(node.data)] *)
| SMtuple (tbl : list (Z * jv))             (* data["data"] = (data["data"], enc(node.data)): a tuple,
                                               outside the JSON-able subset *)
| SMnew (tbl : list (Z * jv)) (keep : bool)  (* return a new dict {"data": enc, "x": 1[, "data_id"]} *)
| SMextra (tbl : list (Z * jv))             (* data["t"] = enc(node.data), "data" left alone; the
                                               decoder pops item["t"] (pinned-suite style) *)
| SMstock (tbl : list (Z * jv))            (* the stock DictWrapper.serialize_mapper: returns a COPY of the
                                               wrapped dict ([tbl]: data object -> JDict of the wrapped
                                               entries); "data"/"data_id" are dropped with the old dict *)
| SMguid (tbl : list (Z * jv)).             (* as SMextra, and the id is moved to another key:
                                               data["g"] = data.pop("data_id"); the decoder pops
                                               "t" and restores item["data_id"] = item.pop("g") *)

Fixpoint zlookup {X} (k : Z) (l : list (Z * X)) : option X :=
  match l with [] => None | (k', v) :: r => if Z.eqb k k' then Some v else zlookup k r end.

Definition enc_of (tbl : list (Z * jv)) (i : info) : jv :=
  match zlookup (i_obj i) tbl with Some v => v | None => JNull end.

Definition k_x : text := [120].
Definition k_t : text := [116].
Definition k_g : text := [103].

Fixpoint dremove (k : text) (d : jdict) : jdict :=
  match d with [] => [] | (k', v) :: r => if text_eqb k k' then dremove k r else (k', v) :: dremove k r end.

Definition sm_of (m : smd) : smapper :=
  match m with
  | SMnone => sm_none
  | SMset tbl => fun i res => dset k_data (enc_of tbl i) res
  | SMwrap tbl => fun i res =>
      dset k_data (JList [match dget k_data res with Some v => v | None => JNull end; enc_of tbl i]) res
  | SMtuple tbl => fun i res =>
      dset k_data (JTuple [match dget k_data res with Some v => v | None => JNull end; enc_of tbl i]) res
  | SMnew tbl keep => fun i res =>
      [(k_data, enc_of tbl i); (k_x, JInt 1)] ++
      (if keep then match dget k_data_id res with Some v => [(k_data_id, v)] | None => [] end else [])
  | SMextra tbl => fun i res => dset k_t (enc_of tbl i) res
  | SMstock tbl => fun i res => match enc_of tbl i with JDict d => d | _ => res end
  | SMguid tbl => fun i res =>
      dset k_t (enc_of tbl i)
           (match dget k_data_id res with
            | Some v => dset k_g v (dremove k_data_id res)
            | None => res
            end)
  end.

(* deserialisation: what Python makes of item["data"] (directly, or through the
   harness's decoder), as a table over the values that occur *)
Definition dok (i : info) : res info := inl i.
Definition derr (e : Z) : res info := inr e.

Fixpoint jlookup {X} (k : jv) (l : list (jv * X)) : option X :=
  match l with [] => None | (k', v) :: r => if jv_eqb k k' then Some v else jlookup k r end.

Definition dd_of (dt : list (jv * res info)) : dmapper :=
  dd_raw (fun v => match jlookup v dt with Some r => r | None => inr E_CRASH end).

(* decoders that read other entries of the item and change it: the table is keyed
   by the item's own entries as handed to the mapper (everything but "children");
   the second component is the item as the mapper leaves it *)
Definition head_lookup (dt : list (jv * res info)) (d : jdict) : res info :=
  match jlookup (JDict (dremove k_children d)) dt with Some r => r | None => inr E_CRASH end.

Definition dd_head (dt : list (jv * res info)) : dmapper :=
  fun d => match head_lookup dt d with
           | inl i => inl (i, dremove k_t d)
           | inr e => inr e
           end.

Definition dd_guid (dt : list (jv * res info)) : dmapper :=
  fun d => match head_lookup dt d with
           | inl i => inl (i, match dget k_g d with
                              | Some v => dset k_data_id v (dremove k_g (dremove k_t d))
                              | None => dremove k_t d
                              end)
           | inr e => inr e
           end.

Definition dd_for (m : smd) (dt : list (jv * res info)) : dmapper :=
  match m with SMextra _ => dd_head dt | SMstock _ => dd_head dt | SMguid _ => dd_guid dt | _ => dd_of dt end.

Inductive case :=
| CRound (f : forest) (m : smd) (subs : list Z) (dt : list (jv * res info)) (next : Z)
| CLoad (obj : list jv) (dt : list (jv * res info)) (next : Z)
| CNode (f : forest) (calc : Z) (target : Z) (obj : list jv) (dt : list (jv * res info)) (next : Z).

(* calc_data_id hooks of harness/build.py: 0 default hash, 1 "name", 2 "mod7" *)
Definition calc_of (c : Z) : info -> res did :=
  if Z.eqb c 1 then (fun i => inl (DStr (i_name i)))
  else if Z.eqb c 2 then (fun i => if unhashable i then inr E_TYPE else inl (DInt (i_hash i mod 7)))
  else default_did.

Definition sx_dump (l : list jv) : sx := L (map sx_jv l).
Definition sx_load (r : res forest) : sx := sx_res (fun f => L (map sx_rebuilt f)) r.

Definition run14 (c : case) : sx :=
  match c with
  | CRound f m subs dt next =>
      let sm := sm_of m in
      let dump := to_dict_list sm f in
      L [ sx_dump dump;
          L (map (fun n => match find_node (Z.to_nat n) f with
                           | Some t => sx_jv (to_dict sm t)
                           | None => A (-1)
                           end) subs);
          (* the structure goes through json.dumps / json.loads before from_dict *)
          sx_load (tree_from_dict (dd_for m dt) (Z.to_nat next) (map json_rt dump)) ]
  | CLoad obj dt next =>
      L [ sx_load (tree_from_dict (dd_of dt) (Z.to_nat next) obj) ]
  | CNode f calc target obj dt next =>
      L [ sx_load (node_from_dict (dd_of dt) (calc_of calc) (Z.to_nat next) f (Z.to_nat target) obj) ]
  end.
