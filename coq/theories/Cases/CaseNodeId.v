(* Correspondence entry point for explicit node ids (Mut/MachineNodeId.v): a history of machine operations and
   add_child(..., node_id=z) calls.  After every step: the result, the full observable state of the world in the
   format of CaseMut, the registry KEYS of every tree (node, explicit key or 0 for the automatic one, in registry
   order), and the decidable well-formedness of the machine's world. *)
From Coq Require Import List ZArith Bool Arith.
From NT Require Export Sx Rose Surgery Machine CaseMut MachineNodeId.
From NT Require Import WF.
Import ListNotations.

Definition sx_keys (wk : worldk) : sx :=
  L (map (fun t => L (map (fun n => L [sx_nat n; A (match km_get (kkeys wk) n with Some z => z | None => 0%Z end)]) (reg t)))
         (trees (kbase wk))).

Fixpoint trace_k (ops : list opk) (wk : worldk) : list sx :=
  match ops with
  | [] => []
  | o :: rest => let (r, wk') := step_k wk o in
                 L [sx_res r; sx_world_x (kbase wk'); sx_keys wk'; sx_bool (wf_world_b (kbase wk'))] :: trace_k rest wk'
  end.

Inductive kcase := CNid (ops : list opk).
Definition run_nid (c : kcase) : sx := match c with CNid ops => L (trace_k ops empty_worldk) end.
