(* Correspondence entry point for Tree.load / TypedTree.load on the mutation machine
   (Mut/MachineLoad.v): one node list, loaded into the empty world.  The output is the result and the
   full observable state of the world in the format of CaseMut (forest, registry, index, parent / tree
   of every node), plus the decidable well-formedness check of the resulting world. *)
From Coq Require Import List ZArith Bool Arith.
From NT Require Export Sx Rose Surgery Machine CaseMut MachineLoad.
From NT Require Import WF.
Import ListNotations.

Inductive lcase := CLoad (typed : bool) (doc : list lentry).

Definition run_load (c : lcase) : sx :=
  match c with
  | CLoad ty doc =>
      let (r, w') := step_x empty_world (OLoad ty doc) in
      L [sx_res r; sx_world_x w'; sx_bool (wf_world_b w')]
  end.
