(* Correspondence entry point of the default-arguments part (host C17): (tree as its root node, start nodes; 0 = Tree API). *)
From Coq Require Import List ZArith Bool Arith.
From NT Require Import Sx Rose.
From NT Require Export Export CaseC17 MiscMermaid.
From NTGen Require Import Generated.
Import ListNotations.

Definition run_misc_mermaid (c : rt * list Z) : sx :=
  L (map (fun z => match find_start (fst c) z with
                   | Some t => sx_chart (default_chart MERMAID_DEFAULT_DIRECTION t)
                   | None => A (-2)%Z
                   end) (snd c)).
