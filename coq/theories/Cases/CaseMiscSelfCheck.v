(* Correspondence entry point of the Tree._self_check part (host C01): the pointer-level state is the one OBSERVED on
   the real tree (possibly corrupted by hand), the model answers whether _self_check returns True. *)
From Coq Require Import List ZArith Bool Arith.
From NT Require Import Sx Rose Surgery Machine Heap.
From NT Require Export MiscSelfCheck.
Import ListNotations.

Record scase := SC {
  sc_nodes : list (Z * (option Z * list Z * bool * did));   (* node: _parent (0 = root), _children, `_tree is tree`, _data_id *)
  sc_root : list Z;                                          (* children of the system root *)
  sc_reg : list Z;                                           (* _node_by_id, as node identities *)
  sc_idx : list (did * list Z)                               (* _nodes_by_data_id *)
}.

Definition nz (z : Z) : nat := Z.to_nat z.

Definition mk_h (c : scase) : hstate :=
  let look := fun n => find (fun e => Nat.eqb (nz (fst e)) n) (sc_nodes c) in
  HS (fun n => match look n with Some e => option_map nz (fst (fst (fst (snd e)))) | None => None end)
     (fun n => if Nat.eqb n 0 then map nz (sc_root c)
               else match look n with Some e => map nz (snd (fst (fst (snd e)))) | None => [] end)
     (fun n => if Nat.eqb n 0 then true else match look n with Some e => snd (fst (snd e)) | None => false end)
     (fun n => match look n with Some e => I 0 0 0 false [] (snd (snd e)) None [] | None => dummy_i end)
     (map (fun e => nz (fst e)) (sc_nodes c))
     (map nz (sc_reg c))
     (map (fun e => (fst e, map nz (snd e))) (sc_idx c))
     false None false.

Definition run_misc_selfcheck (c : scase) : sx := sx_bool (h_self_check (mk_h c)).
