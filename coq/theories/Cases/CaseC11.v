(* Correspondence entry point for C11: one case = two forests, the options of
   Tree.diff and the iteration-order hints (identities of t1 nodes whose copies
   the implementation classified MOVED_HERE).  The observation is the meta of
   the result's system root, the result forest without node identities (data
   object, data_id, kind, meta, children) and both inputs as observed AFTER the
   call (they must equal the inputs given to the model: "inputs unchanged"). *)
From Coq Require Import List ZArith Bool Arith.
From NT Require Import Sx Rose Diff.
Import ListNotations.

Definition Tz (id : Z) (i : info) (ch : list rt) : rt := T (Z.to_nat id) i ch.

Fixpoint sx_rt_noid (t : rt) : sx :=
  match t with T _ i ch => L [sx_info i; L (map sx_rt_noid ch)] end.

Definition cfg11 := (bool * bool * list Z)%type.
Definition case11 := (forest * forest * list cfg11)%type.

Definition run_cfg (t0 t1 : forest) (c : cfg11) : sx :=
  let '(ordered, reduce, hints) := c in
  match diff_tree_lit (map (fun z => id1 (Z.to_nat z)) hints) ordered reduce t0 t1 with
  | None => L [A (-1)%Z; A 1%Z]
  | Some (m, f) => L [sx_meta m; L (map sx_rt_noid f)]
  end.

Definition run11 (c : case11) : sx :=
  let '(t0, t1, cfgs) := c in
  L [ L (map (run_cfg t0 t1) cfgs); sx_forest t0; sx_forest t1; sx_bool (dom_b t0 t1) ].
