(* Correspondence entry point for C11: one case = two forests, the options of
   Tree.diff and the iteration-order hints (identities of t1 nodes whose copies
   the implementation classified MOVED_HERE).  The observation is the meta of
   the result's system root, the result forest without node identities (data
   object, data_id, kind, meta, children) and both inputs as observed AFTER the
   call (they must equal the inputs given to the model: "inputs unchanged"). *)
From Coq Require Import List ZArith Bool Arith.
From NT Require Import Sx Rose Diff DiffFormat.
Import ListNotations.

Definition Tz (id : Z) (i : info) (ch : list rt) : rt := T (Z.to_nat id) i ch.

(* compact renderings (the case files are large literals; Coq's elaboration of
   them dominates the run time):
   result node  = [data object, D, meta, children] with D = 0 for "data_id =
   hash(data), no kind" (a plain default-id node) and the full (data_id,
   kind) otherwise; meta keys "dc" / "dc_renumbered" as 1 / 2;
   input node   = [identity, data object, children] (the harness compares
   the full payload of the inputs before/after by itself). *)
Definition sx_key (k : text) : sx :=
  if text_eqb k k_dc then A 1%Z else if text_eqb k k_ren then A 2%Z else sx_text k.
Definition sx_meta_c (m : meta) : sx := L (map (fun kv => L [sx_key (fst kv); snd kv]) m).
Definition sx_D (i : info) : sx :=
  if did_eqb (i_did i) (DInt (i_hash i)) && kind_eqb (i_kind i) None then A 0%Z
  else L [sx_did (i_did i); sx_kind (i_kind i)].
Fixpoint sx_res (t : rt) : sx :=
  match t with T _ i ch => L [A (i_obj i); sx_D i; sx_meta_c (i_meta i); L (map sx_res ch)] end.
Fixpoint sx_in (t : rt) : sx :=
  match t with T id i ch => L [sx_nat id; A (i_obj i); L (map sx_in ch)] end.

Definition cfg11 := (bool * bool * list Z)%type.
Definition case11 := (forest * forest * list cfg11)%type.

(* the labels of diff_node_formatter for every node of the result, for the
   configuration ordered=True, reduce=False only (size) *)
Definition run_cfg (t0 t1 : forest) (c : cfg11) : sx :=
  let '(ordered, reduce, hints) := c in
  match diff_tree_lit (map (fun z => id1 (Z.to_nat z)) hints) ordered reduce t0 t1 with
  | None => L [A (-1)%Z; A 1%Z]
  | Some (m, f) => L [sx_meta_c m; L (map sx_res f);
                      if ordered && negb reduce then L (map (fun x => sx_text (fmt_node x)) (pre_f f)) else L []]
  end.

Definition run11 (c : case11) : sx :=
  let '(t0, t1, cfgs) := c in
  L [ L (map (run_cfg t0 t1) cfgs); L (map sx_in t0); L (map sx_in t1);
      sx_bool (dom_b t0 t1); sx_bool (no_raise_b t0 t1) ].
