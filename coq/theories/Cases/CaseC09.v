(* Correspondence entry point for C09: one case = one tree state (forest,
   registry, clone index as observed from the implementation), a table of
   matchers (regular expressions as truth tables over node names evaluated by
   the real [re], callbacks as truth tables over node identities, identity
   matches) and a list of queries; the observation is the list of answers. *)
From Coq Require Import List ZArith Bool Arith.
From NT Require Import Sx Rose SearchProofs.
From NT Require Export Search Regex.   (* the case files name their constructors *)
Import ListNotations.

Definition Tz (id : Z) (i : info) (ch : list rt) : rt := T (Z.to_nat id) i ch.

Inductive matcher :=
| MRx (seq ic : bool) (r : regex) (* a pattern inside the modelled syntax, sent as its syntax tree: the model's own
                                     [fullmatchb] decides; seq = passed as (str, flags) / [str, flags], ic = IGNORECASE *)
| MRe (names : list text)       (* any other pattern: the node names the real `re` says it fully matches *)
| MPred (ids : list Z)          (* the nodes the callback answers true for *)
| MIs (o : Z).                  (* data object identity *)

Definition spec_of (m : matcher) : matchspec :=
  match m with
  | MRx seq ic r => search_dispatch (if seq then MaSeq r ic else MaStr r)
  | MRe names => MsRe (fun s => existsb (text_eqb s) names)
  | MPred l => MsPred (fun t => existsb (Z.eqb (Z.of_nat (rid t))) l)
  | MIs o => MsIs o
  end.

(* queries name data_ids and keys by their index in the case's tables (the
   case files stay small: a hash-valued data_id is written once per case) *)
Inductive query :=
| QNodeFindAll (start : Z) (data : option Z) (mt : option Z) (data_id : option Z) (ks : list Z)
    (* a sweep: add_self in [false; true] x max_results in ks *)
| QNodeFindFirst (start : Z) (data : option Z) (mt : option Z) (data_id : option Z)
| QTreeFindAll (data : option Z) (mt : option Z) (data_id : option Z) (ks : list Z)
| QTreeFindFirst (data : option Z) (mt : option Z) (data_id : option Z) (node_id : option Z)
| QGet (k : Z)
| QContains (k : Z)
| QDel (k : Z)
| QClones (start : Z)       (* is_clone, get_clones(add_self=False), get_clones(add_self=True) *)
| QName (start : Z).        (* node.name *)

Record case := C {
  c_state : tstate;
  c_matchers : list matcher;
  c_dids : list did;
  c_keys : list key;
  c_queries : list query
}.

Definition Reg (l : list (Z * Z)) : list (Z * nat) := map (fun e => (fst e, Z.to_nat (snd e))) l.
Definition Idx (l : list (did * list Z)) : list (did * list nat) := map (fun e => (fst e, map Z.to_nat (snd e))) l.
Definition St (f : forest) (r : list (Z * Z)) (ix : list (did * list Z)) : tstate := TS f (Reg r) (Idx ix).

Definition sx_res {X} (g : X -> sx) (r : res X) : sx :=
  match r with Ok x => L [A 0%Z; g x] | Err e => L [A 1%Z; sx_nat e] end.

Definition get_tab {X Y} (g : X -> Y) (tab : list X) (i : option Z) : res (option Y) :=
  match i with
  | None => Ok None
  | Some i => match nth_error tab (Z.to_nat i) with Some x => Ok (Some (g x)) | None => Err EModel end
  end.

Definition bad_ref : sx := L [A 1%Z; sx_nat EModel].

Definition run_query (c : case) (q : query) : sx :=
  let st := c_state c in
  let f := t_forest st in
  let gm := get_tab spec_of (c_matchers c) in
  let gd := get_tab (fun d : did => d) (c_dids c) in
  let gk i := nth_error (c_keys c) (Z.to_nat i) in
  match q with
  | QNodeFindAll s data mt data_id ks =>
      match start_of f (Z.to_nat s), gd data, gm mt, gd data_id with
      | Some s', Ok data', Ok mt', Ok did' =>
          L (map (fun add_self =>
                    L (map (fun k => sx_res sx_nodes (node_find_all (iterator f s') data' mt' did' add_self (Z.to_nat k))) ks))
                 [false; true])
      | _, _, _, _ => bad_ref
      end
  | QNodeFindFirst s data mt data_id =>
      match start_of f (Z.to_nat s), gd data, gm mt, gd data_id with
      | Some s', Ok data', Ok mt', Ok did' => sx_res sx_onode (node_find_first (iterator f s') data' mt' did')
      | _, _, _, _ => bad_ref
      end
  | QTreeFindAll data mt data_id ks =>
      match gd data, gm mt, gd data_id with
      | Ok data', Ok mt', Ok did' => L (map (fun k => sx_res sx_ids (tree_find_all st data' mt' did' (Z.to_nat k))) ks)
      | _, _, _ => bad_ref
      end
  | QTreeFindFirst data mt data_id node_id =>
      match gd data, gm mt, gd data_id with
      | Ok data', Ok mt', Ok did' => sx_res (sx_opt sx_nat) (tree_find_first st data' mt' did' node_id)
      | _, _, _ => bad_ref
      end
  | QGet i => match gk i with Some k => sx_res sx_nat (getitem st k) | None => bad_ref end
  | QContains i => match gk i with Some k => sx_res sx_bool (contains st k) | None => bad_ref end
  | QDel i => match gk i with Some k => sx_res sx_ids (delitem st k) | None => bad_ref end
  | QName s =>
      match find_node (Z.to_nat s) f with
      | Some n => L [A 0%Z; sx_text (i_name (rinfo n))]
      | None => bad_ref
      end
  | QClones s =>
      match find_node (Z.to_nat s) f with
      | Some n => L [ sx_res sx_bool (node_is_clone st n);
                      sx_res sx_ids (node_get_clones st n false); sx_res sx_ids (node_get_clones st n true) ]
      | None => bad_ref
      end
  end.

(* the first component says whether the observed registry and clone index
   satisfy the well-formedness hypothesis of the index-path theorems
   ([state_wf_b], proved sound in SearchProofs.v); the harness expects 1 *)
Definition run09 (c : case) : sx :=
  L [ sx_bool (state_wf_b (c_state c));
      L (map (run_query c) (c_queries c)) ].

(* a history on ONE tree object: query, mutate, query again ... — every phase is
   a case of its own (the state observed at that moment, the model is a pure
   function of it); the observation is the list of the phases' observations *)
Definition run09s (cs : list case) : sx := L (map run09 cs).
