(* Correspondence entry point for C09: one case = one tree state (forest,
   registry, clone index as observed from the implementation), a table of
   matchers (regular expressions as truth tables over node names evaluated by
   the real [re], callbacks as truth tables over node identities, identity
   matches) and a list of queries; the observation is the list of answers. *)
From Coq Require Import List ZArith Bool Arith.
From NT Require Import Sx Rose SearchProofs.
From NT Require Export Search.   (* the case files name its constructors *)
Import ListNotations.

Definition Tz (id : Z) (i : info) (ch : list rt) : rt := T (Z.to_nat id) i ch.

Inductive matcher :=
| MRe (names : list text)       (* the node names the pattern fully matches *)
| MPred (ids : list Z)          (* the nodes the callback answers true for *)
| MIs (o : Z).                  (* data object identity *)

Definition spec_of (m : matcher) : matchspec :=
  match m with
  | MRe names => MsRe (fun s => existsb (text_eqb s) names)
  | MPred l => MsPred (fun t => existsb (Z.eqb (Z.of_nat (rid t))) l)
  | MIs o => MsIs o
  end.

Inductive query :=
| QNodeFindAll (start : Z) (data : option did) (mt : option Z) (data_id : option did) (ks : list Z)
    (* a sweep: add_self in [false; true] x max_results in ks *)
| QNodeFindFirst (start : Z) (data : option did) (mt : option Z) (data_id : option did)
| QTreeFindAll (data : option did) (mt : option Z) (data_id : option did) (ks : list Z)
| QTreeFindFirst (data : option did) (mt : option Z) (data_id : option did) (node_id : option Z)
| QGet (k : key)
| QContains (k : key)
| QDel (k : key).

Record case := C {
  c_state : tstate;
  c_matchers : list matcher;
  c_queries : list query
}.

Definition Reg (l : list (Z * Z)) : list (Z * nat) := map (fun e => (fst e, Z.to_nat (snd e))) l.
Definition Idx (l : list (did * list Z)) : list (did * list nat) := map (fun e => (fst e, map Z.to_nat (snd e))) l.
Definition St (f : forest) (r : list (Z * Z)) (ix : list (did * list Z)) : tstate := TS f (Reg r) (Idx ix).

Definition sx_res {X} (g : X -> sx) (r : res X) : sx :=
  match r with Ok x => L [A 0%Z; g x] | Err e => L [A 1%Z; sx_nat e] end.

Definition get_matcher (ms : list matcher) (mt : option Z) : res (option matchspec) :=
  match mt with
  | None => Ok None
  | Some i => match nth_error ms (Z.to_nat i) with Some m => Ok (Some (spec_of m)) | None => Err EModel end
  end.

Definition run_query (st : tstate) (ms : list matcher) (q : query) : sx :=
  let f := t_forest st in
  match q with
  | QNodeFindAll s data mt data_id ks =>
      match start_of f (Z.to_nat s), get_matcher ms mt with
      | Some s', Ok mt' =>
          L (map (fun add_self =>
                    L (map (fun k => sx_res sx_nodes (node_find_all (iterator f s') data mt' data_id add_self (Z.to_nat k))) ks))
                 [false; true])
      | _, _ => L [A 1%Z; sx_nat EModel]
      end
  | QNodeFindFirst s data mt data_id =>
      match start_of f (Z.to_nat s), get_matcher ms mt with
      | Some s', Ok mt' => sx_res sx_onode (node_find_first (iterator f s') data mt' data_id)
      | _, _ => L [A 1%Z; sx_nat EModel]
      end
  | QTreeFindAll data mt data_id ks =>
      match get_matcher ms mt with
      | Ok mt' => L (map (fun k => sx_res sx_ids (tree_find_all st data mt' data_id (Z.to_nat k))) ks)
      | Err e => L [A 1%Z; sx_nat e]
      end
  | QTreeFindFirst data mt data_id node_id =>
      match get_matcher ms mt with
      | Ok mt' => sx_res (sx_opt sx_nat) (tree_find_first st data mt' data_id node_id)
      | Err e => L [A 1%Z; sx_nat e]
      end
  | QGet k => sx_res sx_nat (getitem st k)
  | QContains k => sx_res sx_bool (contains st k)
  | QDel k => sx_res sx_ids (delitem st k)
  end.

(* the first component says whether the observed registry and clone index
   satisfy the well-formedness hypothesis of the index-path theorems
   ([state_wf_b], proved sound in SearchProofs.v); the harness expects 1 *)
Definition run09 (c : case) : sx :=
  L [ sx_bool (state_wf_b (c_state c));
      L (map (run_query (c_state c) (c_matchers c)) (c_queries c)) ].
