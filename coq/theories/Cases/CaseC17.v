(* Correspondence entry point for C17: for a tree (given as its system root
   node with the forest below it) and a list of start nodes (0 = the whole
   tree through the Tree API, otherwise a node id through the Node API) run
   every exporter under every option combination and render the structured
   outputs.  [fx = true]: the code after the repairs D36 / D37. *)
From Coq Require Import List ZArith Bool Arith.
From NT Require Import Sx Rose.
From NT Require Export Export.   (* the case files name MO, TitleName, ... *)
Import ListNotations.

Definition Tz (id : Z) (i : info) (ch : list rt) : rt := T (Z.to_nat id) i ch.

(* (unique_nodes, add_self / add_root) *)
Definition combos : list (bool * bool) :=
  [(true, true); (true, false); (false, true); (false, false)].

Definition obs_start (skl : list Z) (root s : rt) (isroot : bool) : sx :=
  let sk := fun t : rt => existsb (Z.eqb (Z.of_nat (rid t))) skl in
  let tn := rname root in
  L [ L (map (fun ua => sx_dot (dot_export true (fst ua) (snd ua) isroot tn s)) combos);
      L (map (fun ua => sx_mer (mer_export (fst ua) (snd ua) s)) combos);
      if isroot then L [sx_rdf (rdf_of_tree true tn s)]
      else L [sx_rdf (rdf_of_node true no_mapper true s); sx_rdf (rdf_of_node true no_mapper false s);
              sx_rdf (rdf_of_node true sk true s); sx_rdf (rdf_of_node true sk false s)] ].

Definition find_start (root : rt) (z : Z) : option rt :=
  if Z.eqb z 0 then Some root
  else find (fun t => Nat.eqb (rid t) (Z.to_nat z)) (flat_map pre (rch root)).

(* a case: the tree, the start nodes for the structured exports, whole Mermaid
   charts requested as (start, options), whole DOT documents likewise, and the
   nodes for which the RDF node_mapper answers False *)
Definition run17 (c : rt * list Z * list (Z * mopts) * list (Z * dopts) * list Z) : sx :=
  let root := fst (fst (fst (fst c))) in
  let skl := snd c in
  L [ L (map (fun z =>
                match find_start root z with
                | Some t => obs_start skl root t (Z.eqb z 0)
                | None => A (-1)%Z
                end) (snd (fst (fst (fst c)))));
      L (map (fun zo =>
                match find_start root (fst zo) with
                | Some t => sx_chart (mer_chart (snd zo) t)
                | None => A (-2)%Z
                end) (snd (fst (fst c))));
      L (map (fun zo =>
                match find_start root (fst zo) with
                | Some t => L (map sx_text (dot_doc (snd zo) (Z.eqb (fst zo) 0) (rname root) t))
                | None => A (-2)%Z
                end) (snd (fst c))) ].
