(* Correspondence entry point for C20 (build_random_tree). *)
From Coq Require Import List ZArith Bool QArith Qreduction.
From NT Require Import Sx Rose.
From NT Require Export RandomTree.
From NT Require Import RandomTreeProofs RandomTreeComplete.
Import ListNotations.
Open Scope Z_scope.

Inductive case :=
| CBuild (typed : bool) (d : sdef) (fuel : Z) (rk : list (text * Z)) (s : stream)
    (* tree_class.build_random_tree(structure_def) with random/fabulist reading s;
       rk = a rank of the node types, proposed by the harness *)
| CCyclic (d : sdef) (fuel : Z) (s : stream)
| CCtor (r : rnd)
    (* constructing the randomizer: accepted, or AssertionError *)
| CCtorNoFab (r : rnd)
    (* the same with fabulist not installed: Text-/BlindTextRandomizer raise RuntimeError
       (after the probability assert of the base class) *)
| CSeq (l : list case).
    (* a session: several builds from ONE definition object / the same randomizer objects,
       re-configured in between.  The model is a pure function of the configuration at call
       time: each step is evaluated on its own *)
    (* D39: cyclic relation graph; the model's tree is as high as the fuel allows *)

Definition sx_q (q : Q) : sx := let r := Qred q in L [A 3; A (Qnum r); A (Zpos (Qden r))].

Definition sx_tmpl (t : tmpl) : sx :=
  L (flat_map (fun k => match k with Lit s => map A s | _ => [A (-1)] end) t).

Definition sx_value (v : value) : sx :=
  match v with
  | VNone => L [A 0]
  | VBool b => L [A 1; sx_bool b]
  | VInt z => L [A 2; A z]
  | VFlt q => sx_q q
  | VStr t => L [A 4; sx_tmpl t]
  | VDate o => L [A 5; A o]
  | VFac n => L [A 6; A n]
  | VCbSet _ _ => L [A 7]
  | VCbDel _ => L [A 8]
  end.

Fixpoint sx_gt (typed : bool) (t : gt) : sx :=
  match t with
  | G ty fac attrs ch =>
      L [ sx_opt sx_text (kind_of typed t); A fac;
          L (map (fun kv => L [sx_text (fst kv); sx_value (snd kv)]) attrs);
          L (map (sx_gt typed) ch) ]
  end.

(* the hypotheses of the C20 theorems, decided: the case is inside their domain *)
Definition in_domain (d : sdef) (fuel : Z) (rk : list (text * Z)) : bool :=
  let rkf := rk_of (map (fun p => (fst p, Z.to_nat (snd p))) rk) in
  def_wf2b d && counts_wfb d && rank_okb d rkf && Nat.ltb (rkf K_root) (Z.to_nat fuel) && mem K_root (d_rels d).

Fixpoint run20 (c : case) : sx :=
  match c with
  | CSeq l => L (map run20 l)
  | CCtor r => L [A (-3); sx_bool (ctor_ok r)]
  | CCtorNoFab r =>
      let pok := Qle_bool 0 (prob_of r) && Qle_bool (prob_of r) 1 in
      L [A (-3); A (if negb pok then 0                                   (* AssertionError *)
                    else match r with RText _ _ => 2                     (* RuntimeError *)
                         | _ => if ctor_ok r then 1 else 0 end)]
  | CBuild typed d fuel rk s =>
      if negb (def_accepted d) then L [A (-2); A 6] else       (* AssertionError *)
      match build_random_tree d typed (Z.to_nat fuel) s with
      | (cls, name, f) =>
          if existsb raised f then L [A (-2); A 7] else           (* range(count): TypeError *)
          L [sx_bool cls; sx_opt sx_text name; L (map (sx_gt typed) f); sx_bool (in_domain d fuel rk);
             sx_bool forward_attrs]
      end
  | CCyclic d fuel s =>
      let n := Z.to_nat fuel in
      let f := fst (make_tree d n K_root [] s) in
      L [A (-1); sx_bool (Nat.leb n (list_max (map g_height f)))]
  end.
