(* Correspondence entry point of the byte-transport part (host C05): (file name, compression argument, text) written with the
   library and read back with auto_uncompress on / off; hand-made containers read with auto_uncompress on. *)
From Coq Require Import List ZArith Bool.
From NT Require Import Sx Rose.
From NT Require Export MiscZipIO.
Import ListNotations.

Inductive zcase :=
| ZWrite (name : text) (c : comp) (t : text)
| ZRead (f : fcontent).

Definition run_misc_zipio (c : zcase) : sx :=
  match c with
  | ZWrite name cm t =>
      match write_file name cm t with
      | inl e => L [A (-1)%Z; A e]
      | inr f => L [sx_fcontent f; sx_rres (read_file f true); sx_rres (read_file f false)]
      end
  | ZRead f => L [sx_rres (read_file f true); sx_rres (read_file f false)]
  end.
