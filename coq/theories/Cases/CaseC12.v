(* Correspondence entry point of C12 (native file format, both ways). *)
From NT Require Export CaseSer.
Import ListNotations.

Inductive case12 :=
| CSave (o : sopts) (f : forest)       (* writer: the real text vs. save_doc and vs. layout_doc *)
| CSaveRaw (o : sopts) (f : forest)    (* writer with options outside opts_ok: the real text vs. save_doc only *)
| CLoad (e : lenv) (j : jv)            (* reader: an externally produced (or malformed) document *)
| CDocEx (n : nat) (e : lenv).         (* reader: literal example #n of the user guide *)

Definition run12 (c : case12) : sx :=
  match c with
  | CSave o f =>
      let r := m_save o f in
      L [ sx_res sx_jv r; match r with Ok _ => sx_jv (m_layout o f) | Err _ => L [] end ]
  | CSaveRaw o f => sx_res sx_jv (m_save o f)
  | CLoad e j => sx_load_result (m_load e j)
  | CDocEx n e => sx_load_result (m_load e (jv_of_gj (nth n DOC_EXAMPLES GNull)))
  end.
