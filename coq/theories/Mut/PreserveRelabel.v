(* set_data / rename: re-labelling a node or a whole clone group *)
From Coq Require Import List ZArith Bool Arith Lia Permutation.
From NT Require Import Sx Rose ListFacts RoseFacts Surgery SurgeryFacts Machine WF MachineFacts PreserveSteps PreserveOps RowsSU.
Import ListNotations.

Definition inb (n : nat) (G : list nat) : bool := existsb (Nat.eqb n) G.
Lemma inb_In n G : inb n G = true <-> In n G.
Proof.
  unfold inb. rewrite existsb_exists. split.
  - intros (m & Hm & E). apply Nat.eqb_eq in E. now subst.
  - intros H. exists n. split; [assumption|apply Nat.eqb_refl].
Qed.
Lemma inb_false n G : inb n G = false <-> ~ In n G.
Proof. rewrite <- inb_In. destruct (inb n G); split; congruence. Qed.

Definition rel_row (G : list nat) (g : info -> info) (r : row) : row :=
  if inb (r_id r) G then (r_par r, r_id r, g (r_info r)) else r.

Lemma rel_row_id G g r : r_id (rel_row G g r) = r_id r.
Proof. unfold rel_row. now destruct (inb (r_id r) G). Qed.
Lemma rel_row_par G g r : r_par (rel_row G g r) = r_par r.
Proof. unfold rel_row. now destruct (inb (r_id r) G). Qed.

Lemma node_loc_none_notin m f : node_loc m f = None -> ~ In m (ids f).
Proof.
  intros E X. destruct (get_node_complete m f X) as (s & Gs). destruct (get_node_loc m f s Gs) as (q0 & i & l & E' & _). congruence.
Qed.

(* one node *)
Lemma map_rel_single X r Y m g : NoDup (map r_id (X ++ r :: Y)) -> r_id r = m ->
  map (rel_row [m] g) (X ++ r :: Y) = X ++ (r_par r, m, g (r_info r)) :: Y.
Proof.
  intros NR Er.
  assert (Hid : forall Z, (forall r0, In r0 Z -> r_id r0 <> m) -> map (rel_row [m] g) Z = Z).
  { intros Z HZ. rewrite <- (map_id Z) at 2. apply map_ext_in. intros r0 Hr. unfold rel_row, inb. cbn [existsb].
    destruct (Nat.eqb (r_id r0) m) eqn:Em; [apply Nat.eqb_eq in Em; now apply HZ in Hr|reflexivity]. }
  rewrite map_app. cbn [map]. rewrite map_app in NR. cbn [map] in NR.
  rewrite (Hid X), (Hid Y).
  - unfold rel_row, inb. cbn [existsb]. rewrite Er, Nat.eqb_refl. reflexivity.
  - intros r0 Hr E0. apply NoDup_remove_2 in NR. apply NR. apply in_or_app. right. rewrite Er, <- E0. now apply in_map.
  - intros r0 Hr E0. apply NoDup_remove_2 in NR. apply NR. apply in_or_app. left. rewrite Er, <- E0. now apply in_map.
Qed.

Lemma set_info_at_rows m g f o : NoDup (ids f) -> rows o (set_info_at m g f) = map (rel_row [m] g) (rows o f).
Proof.
  intros ND. destruct (node_loc m f) as [[[q0 i] l]|] eqn:E.
  - destruct (set_info_at_spec m g f q0 i l E) as (a & s & b & -> & _ & R & G & ->).
    destruct (upd_ch_context q0 f o _ G) as (A & B & E1 & E2). rewrite E2. clear E2.
    rewrite <- (rows_ids f o) in ND. rewrite E1 in *. clear E1.
    rewrite !flat_map_in_split, !rows_t_unfold in *. cbn [rid rinfo rch]. rewrite R in *.
    set (o' := owner q0 f o) in *. set (Ra := rows o' a) in *. set (Rb := rows o' b) in *. set (Rs := rows m (rch s)) in *.
    assert (Q : forall x, A ++ (Ra ++ (x :: Rs) ++ Rb) ++ B = (A ++ Ra) ++ x :: (Rs ++ Rb ++ B)) by (intros x; la).
    rewrite !Q in *. now rewrite (map_rel_single _ _ _ m g ND eq_refl).
  - rewrite set_info_at_none by assumption. rewrite <- (map_id (rows o f)) at 1. apply map_ext_in. intros r Hr.
    unfold rel_row, inb. cbn [existsb]. destruct (Nat.eqb (r_id r) m) eqn:Em; [|reflexivity]. exfalso.
    apply Nat.eqb_eq in Em. apply (node_loc_none_notin m f E). rewrite <- (rows_ids f o), <- Em. now apply in_map.
Qed.

Lemma map_rel_ids G g R : map r_id (map (rel_row G g) R) = map r_id R.
Proof. rewrite map_map. apply map_ext. apply rel_row_id. Qed.

(* a group *)
Lemma relabel_rows g o : forall G f, NoDup (ids f) -> NoDup G ->
  rows o (relabel G g f) = map (rel_row G g) (rows o f) /\ ids (relabel G g f) = ids f.
Proof.
  induction G as [|m G IH]; intros f ND NG; unfold relabel; cbn [fold_left].
  - split; [|reflexivity]. rewrite <- (map_id (rows o f)) at 1. apply map_ext. intros r. reflexivity.
  - inversion NG as [|x l Hm NG']; subst.
    assert (Ei : ids (set_info_at m g f) = ids f).
    { rewrite <- !(rows_ids _ o), (set_info_at_rows m g f o ND). apply map_rel_ids. }
    assert (ND' : NoDup (ids (set_info_at m g f))) by (now rewrite Ei).
    destruct (IH (set_info_at m g f) ND' NG') as (E1 & E2). unfold relabel in E1, E2. split; [|congruence].
    rewrite E1, (set_info_at_rows m g f o ND), map_map. apply map_ext. intros r.
    unfold rel_row at 2. unfold inb at 1. cbn [existsb]. destruct (Nat.eqb (r_id r) m) eqn:Em.
    + apply Nat.eqb_eq in Em. cbn [orb]. unfold rel_row at 1. cbn [r_id fst snd].
      replace (inb (r_id r) G) with false by (symmetry; apply inb_false; now rewrite Em).
      unfold rel_row, inb. cbn [existsb]. rewrite Em, Nat.eqb_refl. reflexivity.
    + cbn [orb]. unfold rel_row, inb. cbn [existsb]. now rewrite Em.
Qed.

(* ---- data_id unchanged: any group ---- *)
Lemma WF_relabel_keep t G g : WF t -> NoDup G -> (forall inf, i_did (g inf) = i_did inf) ->
  WF (set_forest t (relabel G g (forest_of t))) /\ ids (relabel G g (forest_of t)) = ids (forest_of t).
Proof.
  intros H NG Hg. set (f := forest_of t). destruct (relabel_rows g 0 G f (wf_nodup t H) NG) as (E1 & E2). fold f in E1, E2.
  split; [|exact E2].
  assert (Ek : keys (relabel G g f) = keys f).
  { rewrite <- !(rows_keys' _ 0), E1, map_map. apply map_ext. intros r. unfold rel_row. destruct (inb (r_id r) G); [|reflexivity].
    unfold r_key, r_did. cbn. now rewrite Hg. }
  assert (Ep : map r_pd (rows 0 (relabel G g f)) = map r_pd (rows 0 f)).
  { rewrite E1, map_map. apply map_ext. intros r. unfold rel_row. destruct (inb (r_id r) G); [|reflexivity].
    unfold r_pd, r_did. cbn. now rewrite Hg. }
  destruct H as [H1 H2 H3 H4 H5 H6 H7]. fold f in H1, H2, H3, H6, H7.
  eapply WF_intro; [reflexivity| | | | |]; rewrite ?E2, ?Ek; auto; [now repeat split|].
  apply (SU_rows _); rewrite ?E2; auto. rewrite Ep. now apply (SU_rows f).
Qed.

(* ---- data_id changed ---- *)
Definition rekey (G : list nat) (e : did) (k : nat * did) : nat * did := if inb (fst k) G then (fst k, e) else k.

Lemma NoDup_map_inj_on {X Y} (h : X -> Y) (l : list X) :
  NoDup l -> (forall x y, In x l -> In y l -> h x = h y -> x = y) -> NoDup (map h l).
Proof.
  induction l as [|x l IH]; intros ND Hinj; [constructor|]. inversion ND as [|x' l' N1 N2]; subst. cbn. constructor.
  - intros X0. apply in_map_iff in X0. destruct X0 as (y & E & Hy). assert (y = x) by (apply Hinj; [now right|now left|assumption]). now subst.
  - apply IH; [assumption|]. intros a b Ha Hb. apply Hinj; now right.
Qed.

Lemma sib_clash_spec f G e m q0 i l : node_loc m f = Some (q0, i, l) -> sib_clash f G e m = false ->
  forall x, In x l -> rdid x = e -> In (rid x) G.
Proof.
  intros E C x Hx Ex. unfold sib_clash in C. rewrite E in C.
  destruct (inb (rid x) G) eqn:I; [now apply inb_In|]. exfalso.
  assert (Y : existsb (fun s => did_eqb (rdid s) e && negb (existsb (Nat.eqb (rid s)) G)) l = true).
  { apply existsb_exists. exists x. split; [assumption|]. apply andb_true_iff. split; [now apply did_eqb_eq|].
    apply negb_true_iff. exact I. }
  congruence.
Qed.

Lemma WF_rekey_forest t G g e dold :
  WF t -> NoDup G -> (forall inf, i_did (g inf) = e) ->
  (forall m, In m G -> In (m, dold) (keys (forest_of t))) ->
  (forall m, In m G -> sib_clash (forest_of t) G e m = false) ->
  let f' := relabel G g (forest_of t) in
  NoDup (ids f') /\ ~ In 0 (ids f') /\ ids f' = ids (forest_of t) /\ SU f' /\ keys f' = map (rekey G e) (keys (forest_of t)).
Proof.
  intros H NG Hg Hold Hcl f'. set (f := forest_of t) in *.
  assert (ND := wf_nodup t H). assert (Z := wf_pos t H). fold f in ND, Z.
  destruct (relabel_rows g 0 G f ND NG) as (E1 & E2). fold f' in E1, E2.
  assert (Ek : keys f' = map (rekey G e) (keys f)).
  { rewrite <- !(rows_keys' _ 0), E1, !map_map. apply map_ext. intros r. unfold rel_row, rekey. cbn [r_key fst].
    destruct (inb (r_id r) G); [|reflexivity]. unfold r_key, r_did. cbn. now rewrite Hg. }
  refine (conj _ (conj _ (conj E2 (conj _ Ek)))); rewrite ?E2; auto.
  apply (SU_rows f'); rewrite ?E2; auto. rewrite E1, map_map.
  set (R := rows 0 f) in *.
  assert (NR : NoDup R). { apply (NoDup_map_inv r_id). unfold R. now rewrite rows_ids. }
  assert (NP : NoDup (map r_pd R)) by (apply (SU_rows f); auto; apply H).
  assert (Gold : forall r, In r R -> In (r_id r) G -> r_did r = dold).
  { intros r Hr Hin. specialize (Hold _ Hin). rewrite <- (rows_keys' f 0) in Hold. fold R in Hold.
    apply in_map_iff in Hold. destruct Hold as (r' & E & Hr'). assert (r' = r).
    { apply (rows_id_unique f 0); auto. unfold r_key in E. now injection E. }
    subst r'. unfold r_key in E. now injection E. }
  assert (Cross : forall r1 r2, In r1 R -> In r2 R -> In (r_id r1) G -> ~ In (r_id r2) G ->
                    r_par r1 = r_par r2 -> r_did r2 = e -> False).
  { intros r1 r2 H1 H2 I1 I2 Ep Ed. set (m := r_id r1) in *.
    assert (Hm : In m (ids f)) by (rewrite <- (rows_ids f 0); now apply in_map).
    destruct (get_node_complete m f Hm) as (s & Gs). destruct (get_node_loc m f s Gs) as (q0 & i & l & E & N).
    destruct (node_loc_spec m f q0 i l E) as (Gc & s' & N' & Rs & _). rewrite N in N'. injection N' as <-.
    assert (Row1 := rows_child_in q0 f l 0 s Gc (nth_error_In _ _ N)). rewrite Rs in Row1.
    assert (X := rows_id_unique f 0 _ _ ND H1 Row1 eq_refl).
    assert (Po : r_par r1 = owner q0 f 0) by (now rewrite X).
    destruct r2 as [[p2 c2] inf2]. cbn [r_par r_id r_did fst snd] in *. rewrite Po in Ep. subst p2.
    destruct (rows_owner_member q0 f l c2 inf2 ND Z Gc H2) as (x & Hx & Rx & Ix).
    apply I2. rewrite <- Rx. apply (sib_clash_spec f G e m q0 i l E (Hcl m I1) x Hx). unfold rdid. now rewrite Ix. }
  apply NoDup_map_inj_on; [assumption|]. intros r1 r2 H1 H2 Eh.
  unfold rel_row in Eh. destruct (inb (r_id r1) G) eqn:I1; destruct (inb (r_id r2) G) eqn:I2.
  - apply inb_In in I1, I2. apply (NoDup_map_inj r_pd R); auto. unfold r_pd in *. cbn in Eh.
    rewrite (Gold r1 H1 I1), (Gold r2 H2 I2). f_equal. now injection Eh.
  - apply inb_In in I1. apply inb_false in I2. exfalso. unfold r_pd, r_did in Eh. cbn in Eh. rewrite Hg in Eh.
    injection Eh as Ep Ed. apply (Cross r1 r2 H1 H2 I1 I2 Ep). unfold r_did. now rewrite <- Ed.
  - apply inb_In in I2. apply inb_false in I1. exfalso. unfold r_pd, r_did in Eh. cbn in Eh. rewrite Hg in Eh.
    injection Eh as Ep Ed. apply (Cross r2 r1 H2 H1 I2 I1); [now symmetry|]. unfold r_did. now rewrite Ed.
  - now apply (NoDup_map_inj r_pd R).
Qed.

(* ------------------------------------------------------------------ *)
(* the index after re-keying *)
Lemma rekey_single_perm K n dold e : NoDup (map fst K) -> In (n, dold) K ->
  exists K0, Permutation K ((n, dold) :: K0) /\ Permutation (map (rekey [n] e) K) ((n, e) :: K0).
Proof.
  intros ND Hin. destruct (in_split _ _ Hin) as (X & Y & ->). exists (X ++ Y). split; [symmetry; apply Permutation_middle|].
  assert (Hid : forall Z, (forall k, In k Z -> fst k <> n) -> map (rekey [n] e) Z = Z).
  { intros Z HZ. rewrite <- (map_id Z) at 2. apply map_ext_in. intros k Hk. unfold rekey, inb. cbn [existsb].
    destruct (Nat.eqb (fst k) n) eqn:Em; [apply Nat.eqb_eq in Em; now apply HZ in Hk|reflexivity]. }
  rewrite map_app in *. cbn [map fst] in *. rewrite (Hid X), (Hid Y).
  - unfold rekey, inb. cbn [existsb fst]. rewrite Nat.eqb_refl. cbn [orb]. symmetry. apply Permutation_middle.
  - intros k Hk Ek. apply NoDup_remove_2 in ND. apply ND. apply in_or_app. right. rewrite <- Ek. now apply in_map.
  - intros k Hk Ek. apply NoDup_remove_2 in ND. apply ND. apply in_or_app. left. rewrite <- Ek. now apply in_map.
Qed.

Section IdxAddL.
  Variables (d : did) (ns : list nat).
  Let upd := fun e : did * list nat => if did_eqb (fst e) d then (fst e, snd e ++ ns) else e.

  Lemma idx_updl_id ix : ~ In d (map fst ix) -> map upd ix = ix.
  Proof.
    induction ix as [|e ix IH]; intros H; [reflexivity|]. cbn [map In] in *. rewrite IH by tauto. f_equal.
    unfold upd. destruct (did_eqb (fst e) d) eqn:E; [|reflexivity]. apply did_eqb_eq in E. tauto.
  Qed.

  Lemma idx_updl_flat ix : NoDup (map fst ix) -> In d (map fst ix) ->
    Permutation (idx_flat (map upd ix)) (map (fun m => (m, d)) ns ++ idx_flat ix).
  Proof.
    induction ix as [|e ix IH]; intros ND H; [contradiction|]. cbn [map] in *.
    inversion ND as [|x l Hx ND' E0]; subst. rewrite !idx_flat_cons.
    unfold upd at 1 2. destruct (did_eqb (fst e) d) eqn:E.
    - apply did_eqb_eq in E. rewrite E in Hx. rewrite (idx_updl_id ix Hx). cbn [fst snd]. rewrite map_app, E.
      rewrite <- app_assoc. apply Permutation_app_swap_app.
    - destruct H as [H|H]; [rewrite H, did_eqb_refl in E; discriminate|].
      rewrite (IH ND' H). apply Permutation_app_swap_app.
  Qed.

  Lemma idx_updl_keys ix : map fst (map upd ix) = map fst ix.
  Proof. rewrite map_map. apply map_ext. intros e. unfold upd. now destruct (did_eqb (fst e) d). Qed.
End IdxAddL.

Lemma idx_split_group dold ix : NoDup (map fst ix) ->
  Permutation (idx_flat ix)
    (map (fun m => (m, dold)) (idx_get dold ix) ++ idx_flat (filter (fun en => negb (did_eqb (fst en) dold)) ix)).
Proof.
  unfold idx_get. induction ix as [|e0 ix IH]; intros ND; [reflexivity|]. cbn [map] in ND. inversion ND as [|x l Hx ND' E0]; subst.
  cbn [find filter]. rewrite idx_flat_cons. destruct (did_eqb (fst e0) dold) eqn:E; cbn [negb].
  - apply did_eqb_eq in E. rewrite E in *. rewrite filter_all_true; [reflexivity|].
    intros en Hen. apply negb_true_iff. destruct (did_eqb (fst en) dold) eqn:E2; [|reflexivity].
    apply did_eqb_eq in E2. exfalso. apply Hx. rewrite <- E2. now apply in_map.
  - rewrite idx_flat_cons, (IH ND'). apply Permutation_app_swap_app.
Qed.

Lemma idx_move_group_ok ix K dold e :
  IdxOK ix K -> NoDup (map fst K) -> e <> dold -> idx_get dold ix <> [] ->
  IdxOK (idx_move_group dold e (idx_get dold ix) ix) (map (rekey (idx_get dold ix) e) K).
Proof.
  intros (H1 & H2 & H3) NK Ne Hne. set (cur := idx_get dold ix) in *.
  set (ix1 := filter (fun en => negb (did_eqb (fst en) dold)) ix).
  assert (N1 : NoDup (map fst ix1)).
  { unfold ix1. clear -H1. induction ix as [|e0 ix IH]; [constructor|]. cbn [map] in H1. inversion H1 as [|x l Hx ND' E0]; subst.
    cbn [filter]. destruct (negb (did_eqb (fst e0) dold)); [|auto]. cbn [map]. constructor; [|auto].
    intros X. apply Hx. apply in_map_iff in X. destruct X as (y & E & Hy). apply filter_In in Hy. rewrite <- E. apply in_map. tauto. }
  assert (F1 : Forall (fun en => snd en <> []) ix1).
  { unfold ix1. rewrite Forall_forall in *. intros en Hen. apply filter_In in Hen. now apply H2. }
  assert (O1 : ~ In dold (map fst ix1)).
  { intros X. apply in_map_iff in X. destruct X as (y & E & Hy). apply filter_In in Hy. destruct Hy as [_ Hy].
    rewrite E, did_eqb_refl in Hy. discriminate. }
  assert (Ps := idx_split_group dold ix H1). fold cur ix1 in Ps.
  (* the key list, re-keyed *)
  assert (PK : Permutation (map (rekey cur e) K) (map (fun m => (m, e)) cur ++ idx_flat ix1)).
  { rewrite <- H3, Ps, map_app. apply Permutation_app.
    - rewrite map_map. apply Permutation_refl'. apply map_ext_in. intros m Hm. unfold rekey. cbn [fst].
      now replace (inb m cur) with true by (symmetry; now apply inb_In).
    - apply Permutation_refl'. transitivity (map (fun x => x) (idx_flat ix1)); [|apply map_id]. apply map_ext_in. intros [m d0] Hk. unfold rekey. cbn [fst].
      destruct (inb m cur) eqn:I; [|reflexivity]. exfalso. apply inb_In in I.
      assert (Y1 : In (m, d0) K). { apply (Permutation_in _ H3). apply (Permutation_in _ (Permutation_sym Ps)). apply in_or_app. now right. }
      assert (Y2 : In (m, dold) K). { apply (Permutation_in _ H3). apply (Permutation_in _ (Permutation_sym Ps)). apply in_or_app. left. now apply (in_map (fun m0 => (m0, dold))). }
      assert (X := NoDup_map_inj fst K _ _ NK Y1 Y2 eq_refl). injection X as ->. apply O1. now apply idx_flat_key in Hk. }
  unfold idx_move_group. fold ix1. destruct (idx_has e ix1) eqn:Eh.
  - apply idx_has_In in Eh. repeat split.
    + now rewrite (idx_updl_keys e cur).
    + apply Forall_forall. intros en Hen. apply in_map_iff in Hen. destruct Hen as (e0 & <- & He0).
      rewrite Forall_forall in F1. destruct (did_eqb (fst e0) e); [|now apply F1].
      cbn. intros X. apply app_eq_nil in X. now destruct X.
    + rewrite (idx_updl_flat e cur ix1 N1 Eh). now symmetry.
  - assert (Hn : ~ In e (map fst ix1)) by (intros X; apply idx_has_In in X; congruence). repeat split.
    + rewrite map_app. cbn. apply NoDup_app_intro; auto. { constructor; [intros []|constructor]. }
      intros x Hx [<-|[]]. contradiction.
    + apply Forall_app. split; [assumption|]. constructor; [exact Hne|constructor].
    + rewrite idx_flat_app. cbn. rewrite app_nil_r. rewrite PK. apply Permutation_app_comm.
Qed.

(* ------------------------------------------------------------------ *)
(* set_data: the part of op_set_data after new data / new id have been determined *)
Definition set_data_core (w : world) (ti : nat) (t : tstate) (n : nat) (s : rt)
           (new_data : option dat) (new_did : option did) (with_clones : option bool) : res * world :=
  let cur := idx_get (rdid s) (idx t) in
  let has_clones := Nat.ltb 1 (length cur) in
  let wc := match with_clones with Some true => true | _ => false end in
  if has_clones && (match with_clones with None => true | _ => false end)
  then (Err EAmbiguous, w)
  else
    let setd := fun inf => match new_data with Some x => set_dat_i x inf | None => inf end in
    match new_did with
    | Some e =>
        let group := if has_clones && wc then cur else [n] in
        if existsb (sib_clash (forest_of t) group e) group then (Err EUnique, w)
        else
          let f' := relabel group (fun inf => set_did_i e (setd inf)) (forest_of t) in
          let ix' := if has_clones && wc then idx_move_group (rdid s) e cur (idx t)
                     else idx_add e n (idx_del (rdid s) n (idx t)) in
          (Ok [], put_tree w ti (set_all t f' (reg t) ix'))
    | None =>
        match new_data with
        | Some _ =>
            let group := if wc then cur else [n] in
            (Ok [], put_tree w ti (set_forest t (relabel group setd (forest_of t))))
        | None => (Ok [], w)
        end
    end.

Lemma existsb_false_forall {X} (p : X -> bool) l : existsb p l = false -> forall x, In x l -> p x = false.
Proof.
  intros E x Hx. destruct (p x) eqn:Px; [|reflexivity].
  assert (Y : existsb p l = true) by (apply existsb_exists; now exists x). congruence.
Qed.

Lemma WFx_set_data_core w ti t n s new_data new_did wcl :
  WFw w -> get_tree w ti = Some t -> get_node n (forest_of t) = Some s ->
  (forall e, new_did = Some e -> e <> rdid s) ->
  WFx w (snd (set_data_core w ti t n s new_data new_did wcl)).
Proof.
  intros H Gt Gn Hne. assert (Wt := WFw_tree w ti t H Gt). unfold set_data_core.
  set (f := forest_of t). set (cur := idx_get (rdid s) (idx t)).
  destruct (get_node_spec n f s Gn) as (Ps & Rs).
  assert (Kn : In (n, rdid s) (keys f)) by (rewrite <- Rs; now apply keys_in).
  assert (Hcur : forall m, In m cur <-> In (m, rdid s) (keys f)) by (intros m; apply (idx_get_keys t m (rdid s) Wt)).
  assert (Ncur : NoDup cur).
  { destruct (WF_spelled t Wt) as (_ & _ & _ & _ & G & _). unfold cur, idx_get.
    destruct (find (fun e => did_eqb (fst e) (rdid s)) (idx t)) as [e0|] eqn:E; [|constructor].
    apply find_some in E. destruct E as [E _]. rewrite Forall_forall in G. now apply (G e0 E). }
  destruct (Nat.ltb 1 (length cur) && match wcl with None => true | _ => false end); [exact (WFx_refl w H)|].
  set (wc := match wcl with Some true => true | _ => false end).
  set (setd := fun inf => match new_data with Some x => set_dat_i x inf | None => inf end).
  assert (Hsetd : forall inf, i_did (setd inf) = i_did inf) by (intros inf; unfold setd; now destruct new_data).
  destruct new_did as [e|].
  - specialize (Hne e eq_refl).
    set (G := if Nat.ltb 1 (length cur) && wc then cur else [n]).
    destruct (existsb (sib_clash f G e) G) eqn:Cl; [exact (WFx_refl w H)|]. cbn [snd]. unfold put_tree.
    assert (NG : NoDup G) by (unfold G; destruct (Nat.ltb 1 (length cur) && wc); [assumption|constructor; [intros []|constructor]]).
    assert (HG : forall m, In m G -> In (m, rdid s) (keys f)).
    { unfold G. destruct (Nat.ltb 1 (length cur) && wc); [intros m Hm; now apply Hcur|intros m [<-|[]]; assumption]. }
    destruct (WF_rekey_forest t G (fun inf => set_did_i e (setd inf)) e (rdid s) Wt NG (fun _ => eq_refl) HG
                (existsb_false_forall _ _ Cl)) as (F1 & F2 & F3 & F4 & F5). fold f in F1, F2, F3, F4, F5.
    unfold setd in F1, F2, F3, F4, F5. cbn beta in F1, F2, F3, F4, F5.
    apply (WFx_put w ti t); auto.
    + eapply WF_intro; [reflexivity|exact F1|exact F2| |  |exact F4].
      * rewrite F3. apply Wt.
      * rewrite F5. unfold G. destruct (Nat.ltb 1 (length cur) && wc).
        -- apply idx_move_group_ok; [apply (WF_idx t Wt)|rewrite keys_fst; apply Wt|assumption|].
           fold cur. intros X. apply Hcur in Kn. now rewrite X in Kn.
        -- destruct (rekey_single_perm (keys f) n (rdid s) e) as (K0 & P1 & P2); [rewrite keys_fst; apply Wt|assumption|].
           apply (IdxOK_perm _ ((n, e) :: K0)); [|now symmetry]. apply idx_add_ok. apply idx_del_ok.
           apply (IdxOK_perm _ (keys f)); [apply (WF_idx t Wt)|assumption].
    + intros m Hm. left. cbn [forest_of set_all] in Hm. now rewrite F3 in Hm.
  - destruct new_data as [x|]; [|exact (WFx_refl w H)]. cbn [snd]. unfold put_tree.
    set (G := if wc then cur else [n]).
    assert (NG : NoDup G) by (unfold G; destruct wc; [assumption|constructor; [intros []|constructor]]).
    destruct (WF_relabel_keep t G setd Wt NG Hsetd) as (W' & Ei).
    apply (WFx_put w ti t); [exact H|exact Gt|exact W'|lia|]. intros m Hm. left.
    assert (Hm' : In m (ids (relabel G setd (forest_of t)))) by exact Hm. rewrite Ei in Hm'. exact Hm'.
Qed.

Lemma WFw_set_data_core w ti t n s new_data new_did wcl :
  WFw w -> get_tree w ti = Some t -> get_node n (forest_of t) = Some s ->
  (forall e, new_did = Some e -> e <> rdid s) ->
  WFw (snd (set_data_core w ti t n s new_data new_did wcl)).
Proof. intros H0 H1 H2 H3. exact (proj1 (WFx_set_data_core w ti t n s new_data new_did wcl H0 H1 H2 H3)). Qed.


Definition sd_new_data (s : rt) (d : option dat) : option dat :=
  match d with Some x => if Z.eqb (d_obj x) (i_obj (rinfo s)) then None else Some x | None => None end.
Definition sd_did' (t : tstate) (nd : option dat) (explicit : option did) : option (option did) :=
  match nd, explicit with Some x, None => option_map Some (calc_id (calc t) x) | _, e => Some e end.
Definition sd_new_did (s : rt) (did' : option did) : option did :=
  match did' with Some e => if did_eqb e (rdid s) then None else Some e | None => None end.

Lemma op_set_data_eq w ti n d explicit wcl :
  op_set_data w ti n d explicit wcl =
  match get_tree w ti with
  | None => (Err EModel, w)
  | Some t =>
      match get_node n (forest_of t) with
      | None => (Err EModel, w)
      | Some s =>
          match d, explicit with
          | None, None => (Err EValue, w)
          | _, _ => match sd_did' t (sd_new_data s d) explicit with
                    | None => (Err ECrash, w)
                    | Some did' => set_data_core w ti t n s (sd_new_data s d) (sd_new_did s did') wcl
                    end
          end
      end
  end.
Proof.
  unfold op_set_data. destruct (get_tree w ti) as [t|]; [|reflexivity].
  destruct (get_node n (forest_of t)) as [s|]; [|reflexivity].
  destruct d as [x|]; destruct explicit as [e0|]; reflexivity.
Qed.

Theorem WFx_op_set_data w ti n d explicit wcl : WFw w -> WFx w (snd (op_set_data w ti n d explicit wcl)).
Proof.
  intros H. rewrite op_set_data_eq.
  destruct (get_tree w ti) as [t|] eqn:Gt; [|exact (WFx_refl w H)].
  destruct (get_node n (forest_of t)) as [s|] eqn:Gn; [|exact (WFx_refl w H)].
  assert (Core : forall nd did', WFx w (snd (set_data_core w ti t n s nd (sd_new_did s did') wcl))).
  { intros nd did'. apply WFx_set_data_core; try assumption. intros e E. unfold sd_new_did in E.
    destruct did' as [e1|]; [|discriminate]. destruct (did_eqb e1 (rdid s)) eqn:Q; [discriminate|].
    injection E as <-. intros X. rewrite X, did_eqb_refl in Q. discriminate. }
  destruct d as [x|]; destruct explicit as [e0|]; try exact (WFx_refl w H);
    (destruct (sd_did' t _ _) as [did'|]; [apply Core|exact (WFx_refl w H)]).
Qed.

Theorem WFw_op_set_data w ti n d explicit wcl : WFw w -> WFw (snd (op_set_data w ti n d explicit wcl)).
Proof. intros H. exact (proj1 (WFx_op_set_data w ti n d explicit wcl H)). Qed.

Theorem WFx_op_rename w ti n d : WFw w -> WFx w (snd (op_rename w ti n d)).
Proof.
  intros H. unfold op_rename. destruct (get_tree w ti) as [t|]; [|exact (WFx_refl w H)].
  destruct (get_node n (forest_of t)) as [s|]; [|exact (WFx_refl w H)]. destruct (i_isstr (rinfo s)); [|exact (WFx_refl w H)].
  now apply WFx_op_set_data.
Qed.

Theorem WFw_op_rename w ti n d : WFw w -> WFw (snd (op_rename w ti n d)).
Proof. intros H0. exact (proj1 (WFx_op_rename w ti n d H0)). Qed.

