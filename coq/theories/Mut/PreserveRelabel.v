(* set_data / rename: re-labelling a node or a whole clone group *)
From Coq Require Import List ZArith Bool Arith Lia Permutation.
From NT Require Import Sx Rose ListFacts RoseFacts Surgery SurgeryFacts Machine WF MachineFacts PreserveSteps PreserveOps RowsSU.
Import ListNotations.

Definition inb (n : nat) (G : list nat) : bool := existsb (Nat.eqb n) G.
Lemma inb_In n G : inb n G = true <-> In n G.
Proof.
  unfold inb. rewrite existsb_exists. split.
  - intros (m & Hm & E). apply Nat.eqb_eq in E. now subst.
  - intros H. exists n. split; [assumption|apply Nat.eqb_refl].
Qed.
Lemma inb_false n G : inb n G = false <-> ~ In n G.
Proof. rewrite <- inb_In. destruct (inb n G); split; congruence. Qed.

Definition rel_row (G : list nat) (g : info -> info) (r : row) : row :=
  if inb (r_id r) G then (r_par r, r_id r, g (r_info r)) else r.

Lemma rel_row_id G g r : r_id (rel_row G g r) = r_id r.
Proof. unfold rel_row. now destruct (inb (r_id r) G). Qed.
Lemma rel_row_par G g r : r_par (rel_row G g r) = r_par r.
Proof. unfold rel_row. now destruct (inb (r_id r) G). Qed.

Lemma node_loc_none_notin m f : node_loc m f = None -> ~ In m (ids f).
Proof.
  intros E X. destruct (get_node_complete m f X) as (s & Gs). destruct (get_node_loc m f s Gs) as (q0 & i & l & E' & _). congruence.
Qed.

(* one node *)
Lemma map_rel_single X r Y m g : NoDup (map r_id (X ++ r :: Y)) -> r_id r = m ->
  map (rel_row [m] g) (X ++ r :: Y) = X ++ (r_par r, m, g (r_info r)) :: Y.
Proof.
  intros NR Er.
  assert (Hid : forall Z, (forall r0, In r0 Z -> r_id r0 <> m) -> map (rel_row [m] g) Z = Z).
  { intros Z HZ. rewrite <- (map_id Z) at 2. apply map_ext_in. intros r0 Hr. unfold rel_row, inb. cbn [existsb].
    destruct (Nat.eqb (r_id r0) m) eqn:Em; [apply Nat.eqb_eq in Em; now apply HZ in Hr|reflexivity]. }
  rewrite map_app. cbn [map]. rewrite map_app in NR. cbn [map] in NR.
  rewrite (Hid X), (Hid Y).
  - unfold rel_row, inb. cbn [existsb]. rewrite Er, Nat.eqb_refl. reflexivity.
  - intros r0 Hr E0. apply NoDup_remove_2 in NR. apply NR. apply in_or_app. right. rewrite Er, <- E0. now apply in_map.
  - intros r0 Hr E0. apply NoDup_remove_2 in NR. apply NR. apply in_or_app. left. rewrite Er, <- E0. now apply in_map.
Qed.

Lemma set_info_at_rows m g f o : NoDup (ids f) -> rows o (set_info_at m g f) = map (rel_row [m] g) (rows o f).
Proof.
  intros ND. destruct (node_loc m f) as [[[q0 i] l]|] eqn:E.
  - destruct (set_info_at_spec m g f q0 i l E) as (a & s & b & -> & _ & R & G & ->).
    destruct (upd_ch_context q0 f o _ G) as (A & B & E1 & E2). rewrite E2. clear E2.
    rewrite <- (rows_ids f o) in ND. rewrite E1 in *. clear E1.
    rewrite !flat_map_in_split, !rows_t_unfold in *. cbn [rid rinfo rch]. rewrite R in *.
    set (o' := owner q0 f o) in *. set (Ra := rows o' a) in *. set (Rb := rows o' b) in *. set (Rs := rows m (rch s)) in *.
    assert (Q : forall x, A ++ (Ra ++ (x :: Rs) ++ Rb) ++ B = (A ++ Ra) ++ x :: (Rs ++ Rb ++ B)) by (intros x; la).
    rewrite !Q in *. now rewrite (map_rel_single _ _ _ m g ND eq_refl).
  - rewrite set_info_at_none by assumption. rewrite <- (map_id (rows o f)) at 1. apply map_ext_in. intros r Hr.
    unfold rel_row, inb. cbn [existsb]. destruct (Nat.eqb (r_id r) m) eqn:Em; [|reflexivity]. exfalso.
    apply Nat.eqb_eq in Em. apply (node_loc_none_notin m f E). rewrite <- (rows_ids f o), <- Em. now apply in_map.
Qed.

Lemma map_rel_ids G g R : map r_id (map (rel_row G g) R) = map r_id R.
Proof. rewrite map_map. apply map_ext. apply rel_row_id. Qed.

(* a group *)
Lemma relabel_rows g o : forall G f, NoDup (ids f) -> NoDup G ->
  rows o (relabel G g f) = map (rel_row G g) (rows o f) /\ ids (relabel G g f) = ids f.
Proof.
  induction G as [|m G IH]; intros f ND NG; unfold relabel; cbn [fold_left].
  - split; [|reflexivity]. rewrite <- (map_id (rows o f)) at 1. apply map_ext. intros r. reflexivity.
  - inversion NG as [|x l Hm NG']; subst.
    assert (Ei : ids (set_info_at m g f) = ids f).
    { rewrite <- !(rows_ids _ o), (set_info_at_rows m g f o ND). apply map_rel_ids. }
    assert (ND' : NoDup (ids (set_info_at m g f))) by (now rewrite Ei).
    destruct (IH (set_info_at m g f) ND' NG') as (E1 & E2). unfold relabel in E1, E2. split; [|congruence].
    rewrite E1, (set_info_at_rows m g f o ND), map_map. apply map_ext. intros r.
    unfold rel_row at 2. unfold inb at 1. cbn [existsb]. destruct (Nat.eqb (r_id r) m) eqn:Em.
    + apply Nat.eqb_eq in Em. cbn [orb]. unfold rel_row at 1. cbn [r_id fst snd].
      replace (inb (r_id r) G) with false by (symmetry; apply inb_false; now rewrite Em).
      unfold rel_row, inb. cbn [existsb]. rewrite Em, Nat.eqb_refl. reflexivity.
    + cbn [orb]. unfold rel_row, inb. cbn [existsb]. now rewrite Em.
Qed.

(* ---- data_id unchanged: any group ---- *)
Lemma WF_relabel_keep t G g : WF t -> NoDup G -> (forall inf, i_did (g inf) = i_did inf) ->
  WF (set_forest t (relabel G g (forest_of t))) /\ ids (relabel G g (forest_of t)) = ids (forest_of t).
Proof.
  intros H NG Hg. set (f := forest_of t). destruct (relabel_rows g 0 G f (wf_nodup t H) NG) as (E1 & E2). fold f in E1, E2.
  split; [|exact E2].
  assert (Ek : keys (relabel G g f) = keys f).
  { rewrite <- !(rows_keys' _ 0), E1, map_map. apply map_ext. intros r. unfold rel_row. destruct (inb (r_id r) G); [|reflexivity].
    unfold r_key, r_did. cbn. now rewrite Hg. }
  assert (Ep : map r_pd (rows 0 (relabel G g f)) = map r_pd (rows 0 f)).
  { rewrite E1, map_map. apply map_ext. intros r. unfold rel_row. destruct (inb (r_id r) G); [|reflexivity].
    unfold r_pd, r_did. cbn. now rewrite Hg. }
  destruct H as [H1 H2 H3 H4 H5 H6 H7]. fold f in H1, H2, H3, H6, H7.
  eapply WF_intro; [reflexivity| | | | |]; rewrite ?E2, ?Ek; auto; [now repeat split|].
  apply (SU_rows _); rewrite ?E2; auto. rewrite Ep. now apply (SU_rows f).
Qed.

(* ---- data_id changed ---- *)
Definition rekey (G : list nat) (e : did) (k : nat * did) : nat * did := if inb (fst k) G then (fst k, e) else k.

Lemma NoDup_map_inj_on {X Y} (h : X -> Y) (l : list X) :
  NoDup l -> (forall x y, In x l -> In y l -> h x = h y -> x = y) -> NoDup (map h l).
Proof.
  induction l as [|x l IH]; intros ND Hinj; [constructor|]. inversion ND as [|x' l' N1 N2]; subst. cbn. constructor.
  - intros X0. apply in_map_iff in X0. destruct X0 as (y & E & Hy). assert (y = x) by (apply Hinj; [now right|now left|assumption]). now subst.
  - apply IH; [assumption|]. intros a b Ha Hb. apply Hinj; now right.
Qed.

Lemma sib_clash_spec f G e m q0 i l : node_loc m f = Some (q0, i, l) -> sib_clash f G e m = false ->
  forall x, In x l -> rdid x = e -> In (rid x) G.
Proof.
  intros E C x Hx Ex. unfold sib_clash in C. rewrite E in C.
  destruct (inb (rid x) G) eqn:I; [now apply inb_In|]. exfalso.
  assert (Y : existsb (fun s => did_eqb (rdid s) e && negb (existsb (Nat.eqb (rid s)) G)) l = true).
  { apply existsb_exists. exists x. split; [assumption|]. apply andb_true_iff. split; [now apply did_eqb_eq|].
    apply negb_true_iff. exact I. }
  congruence.
Qed.

Lemma WF_rekey_forest t G g e dold :
  WF t -> NoDup G -> (forall inf, i_did (g inf) = e) ->
  (forall m, In m G -> In (m, dold) (keys (forest_of t))) ->
  (forall m, In m G -> sib_clash (forest_of t) G e m = false) ->
  let f' := relabel G g (forest_of t) in
  NoDup (ids f') /\ ~ In 0 (ids f') /\ ids f' = ids (forest_of t) /\ SU f' /\ keys f' = map (rekey G e) (keys (forest_of t)).
Proof.
  intros H NG Hg Hold Hcl f'. set (f := forest_of t) in *.
  assert (ND := wf_nodup t H). assert (Z := wf_pos t H). fold f in ND, Z.
  destruct (relabel_rows g 0 G f ND NG) as (E1 & E2). fold f' in E1, E2.
  assert (Ek : keys f' = map (rekey G e) (keys f)).
  { rewrite <- !(rows_keys' _ 0), E1, !map_map. apply map_ext. intros r. unfold rel_row, rekey. cbn [r_key fst].
    destruct (inb (r_id r) G); [|reflexivity]. unfold r_key, r_did. cbn. now rewrite Hg. }
  refine (conj _ (conj _ (conj E2 (conj _ Ek)))); rewrite ?E2; auto.
  apply (SU_rows f'); rewrite ?E2; auto. rewrite E1, map_map.
  set (R := rows 0 f) in *.
  assert (NR : NoDup R). { apply (NoDup_map_inv r_id). unfold R. now rewrite rows_ids. }
  assert (NP : NoDup (map r_pd R)) by (apply (SU_rows f); auto; apply H).
  assert (Gold : forall r, In r R -> In (r_id r) G -> r_did r = dold).
  { intros r Hr Hin. specialize (Hold _ Hin). rewrite <- (rows_keys' f 0) in Hold. fold R in Hold.
    apply in_map_iff in Hold. destruct Hold as (r' & E & Hr'). assert (r' = r).
    { apply (rows_id_unique f 0); auto. unfold r_key in E. now injection E. }
    subst r'. unfold r_key in E. now injection E. }
  assert (Cross : forall r1 r2, In r1 R -> In r2 R -> In (r_id r1) G -> ~ In (r_id r2) G ->
                    r_par r1 = r_par r2 -> r_did r2 = e -> False).
  { intros r1 r2 H1 H2 I1 I2 Ep Ed. set (m := r_id r1) in *.
    assert (Hm : In m (ids f)) by (rewrite <- (rows_ids f 0); now apply in_map).
    destruct (get_node_complete m f Hm) as (s & Gs). destruct (get_node_loc m f s Gs) as (q0 & i & l & E & N).
    destruct (node_loc_spec m f q0 i l E) as (Gc & s' & N' & Rs & _). rewrite N in N'. injection N' as <-.
    assert (Row1 := rows_child_in q0 f l 0 s Gc (nth_error_In _ _ N)). rewrite Rs in Row1.
    assert (X := rows_id_unique f 0 _ _ ND H1 Row1 eq_refl).
    assert (Po : r_par r1 = owner q0 f 0) by (now rewrite X).
    destruct r2 as [[p2 c2] inf2]. cbn [r_par r_id r_did fst snd] in *. rewrite Po in Ep. subst p2.
    destruct (rows_owner_member q0 f l c2 inf2 ND Z Gc H2) as (x & Hx & Rx & Ix).
    apply I2. rewrite <- Rx. apply (sib_clash_spec f G e m q0 i l E (Hcl m I1) x Hx). unfold rdid. now rewrite Ix. }
  apply NoDup_map_inj_on; [assumption|]. intros r1 r2 H1 H2 Eh.
  unfold rel_row in Eh. destruct (inb (r_id r1) G) eqn:I1; destruct (inb (r_id r2) G) eqn:I2.
  - apply inb_In in I1, I2. apply (NoDup_map_inj r_pd R); auto. unfold r_pd in *. cbn in Eh.
    rewrite (Gold r1 H1 I1), (Gold r2 H2 I2). f_equal. now injection Eh.
  - apply inb_In in I1. apply inb_false in I2. exfalso. unfold r_pd, r_did in Eh. cbn in Eh. rewrite Hg in Eh.
    injection Eh as Ep Ed. apply (Cross r1 r2 H1 H2 I1 I2 Ep). unfold r_did. now rewrite <- Ed.
  - apply inb_In in I2. apply inb_false in I1. exfalso. unfold r_pd, r_did in Eh. cbn in Eh. rewrite Hg in Eh.
    injection Eh as Ep Ed. apply (Cross r2 r1 H2 H1 I2 I1); [now symmetry|]. unfold r_did. now rewrite Ed.
  - now apply (NoDup_map_inj r_pd R).
Qed.
