(* Layer (b): one preservation lemma per SUB-STEP of the mutation machine
   (insert a fresh branch under a path; unlink a branch; unregister a subtree;
   splice children; permute a child list; re-label nodes), at the level of a
   single tree state, plus the world-level frame lemma [WFw_put]. *)
From Coq Require Import List ZArith Bool Arith Lia Permutation.
From NT Require Import Sx Rose ListFacts RoseFacts Surgery SurgeryFacts Machine WF MachineFacts.
Import ListNotations.

(* ------------------------------------------------------------------ *)
(* sibling uniqueness along a path *)
Lemma SU_get : forall p f c, SU f -> get_ch p f = Some c -> SU c.
Proof.
  induction p as [|i rest IH]; intros f c H G.
  - cbn in G. now injection G as <-.
  - cbn [get_ch] in G. destruct (nth_error f i) as [t|] eqn:E; [|discriminate].
    apply (IH (rch t)); [|assumption]. apply (SU_child f); [assumption|now apply nth_error_In in E].
Qed.

Lemma SU_upd : forall p f c g, SU f -> get_ch p f = Some c -> SU (g c) -> SU (upd_ch p g f).
Proof.
  induction p as [|i rest IH]; intros f c g H G Hg.
  - cbn in *. now injection G as <-.
  - cbn [get_ch upd_ch] in *. destruct (nth_error f i) as [t|] eqn:E; [|discriminate].
    destruct (nth_error_split f i E) as (a & b & -> & <-). rewrite upd_nth_split.
    assert (Ht : SU (rch t)) by (apply (SU_child _ t H); apply in_or_app; right; now left).
    constructor.
    + apply SU_top in H. rewrite map_app in *. cbn [map] in *. now destruct t.
    + intros s Hs. apply in_app_or in Hs. destruct Hs as [Hs|[<-|Hs]].
      * apply (SU_child _ s H). apply in_or_app. now left.
      * destruct t as [id inf ch]. cbn [set_ch rch] in *. now apply (IH ch c).
      * apply (SU_child _ s H). apply in_or_app. right. now right.
Qed.

Lemma SU_insert a x b : SU (a ++ b) -> SU (rch x) -> ~ In (rdid x) (map rdid (a ++ b)) -> SU (a ++ x :: b).
Proof.
  intros H Hx Hn. constructor.
  - apply SU_top in H. rewrite map_app in *. cbn [map]. apply (Permutation_NoDup (l := rdid x :: map rdid a ++ map rdid b)).
    + apply Permutation_middle.
    + now constructor.
  - intros s Hs. apply in_app_or in Hs. destruct Hs as [Hs|[<-|Hs]]; [|assumption|].
    + apply (SU_child _ s H). apply in_or_app. now left.
    + apply (SU_child _ s H). apply in_or_app. now right.
Qed.

Lemma SU_remove a x b : SU (a ++ x :: b) -> SU (a ++ b).
Proof.
  intros H. constructor.
  - apply SU_top in H. rewrite map_app in *. cbn [map] in H. now apply NoDup_remove_1 in H.
  - intros s Hs. apply (SU_child _ s H). apply in_app_or in Hs. apply in_or_app. destruct Hs; [now left|right; now right].
Qed.

(* ------------------------------------------------------------------ *)
(* rows under the structural edits *)
Lemma rows_top o f x : In x f -> In (o, rid x, rinfo x) (rows o f).
Proof. intros H. apply in_flat_map. exists x. split; [assumption|]. rewrite rows_t_unfold. now left. Qed.

Lemma rows_insert_perm pq f ch o nb x : get_ch pq f = Some ch ->
  Permutation (rows o (upd_ch pq (place nb x) f)) (rows_t (owner pq f o) x ++ rows o f).
Proof.
  intros G. destruct (upd_ch_context pq f o ch G) as (A & B & E1 & E2). rewrite E2, E1.
  destruct (place_split nb x ch) as (a & b & -> & ->). rewrite flat_map_in_split, rows_app.
  set (R := rows_t (owner pq f o) x). set (Ra := rows (owner pq f o) a). set (Rb := rows (owner pq f o) b).
  repeat rewrite <- app_assoc. rewrite !(app_assoc A Ra). apply Permutation_app_swap_app.
Qed.

Lemma rows_child_in pq f ch o x : get_ch pq f = Some ch -> In x ch -> In (owner pq f o, rid x, rinfo x) (rows o f).
Proof.
  intros G Hx. destruct (upd_ch_context pq f o ch G) as (A & B & E1 & _). rewrite E1.
  apply in_or_app. right. apply in_or_app. left. now apply rows_top.
Qed.

(* ------------------------------------------------------------------ *)
(* assembling WF from its parts *)
Lemma WF_intro t f r ix ty c :
  t = TS f r ix ty c -> NoDup (ids f) -> ~ In 0 (ids f) -> Permutation r (ids f) -> IdxOK ix (keys f) -> SU f -> WF t.
Proof. intros -> H1 H2 H3 (H4 & H5 & H6) H7. constructor; assumption. Qed.

Lemma WF_idx t : WF t -> IdxOK (idx t) (keys (forest_of t)).
Proof. intros [H1 H2 H3 H4 H5 H6 H7]. now repeat split. Qed.

Lemma ids_t_pre x : ids_t x = map rid (pre x).
Proof. reflexivity. Qed.

Lemma rows_t_ids x o : map r_id (rows_t o x) = ids_t x.
Proof. apply rows_ids_t. Qed.

Lemma rows_t_keys x o : map r_key (rows_t o x) = map key_of_node (pre x).
Proof. apply rows_keys_t. Qed.

(* SUB-STEP: link a branch [x] with fresh identities into the child list at a path
   and register its nodes *)
Lemma WF_insert t pq ch nb x :
  WF t -> get_ch pq (forest_of t) = Some ch ->
  NoDup (ids_t x) -> (forall m, In m (ids_t x) -> m <> 0 /\ ~ In m (ids (forest_of t))) ->
  SU (rch x) -> ~ In (rdid x) (map rdid ch) ->
  WF (set_all t (upd_ch pq (place nb x) (forest_of t)) (reg t ++ ids_t x)
        (fold_left (fun a s => idx_add (rdid s) (rid s) a) (pre x) (idx t))).
Proof.
  intros H G Nx Fx Sx Cx. set (f := forest_of t) in *. set (f' := upd_ch pq (place nb x) f).
  assert (P := rows_insert_perm pq f ch 0 nb x G). fold f' in P.
  assert (Pi : Permutation (ids f') (ids_t x ++ ids f)).
  { rewrite <- (rows_ids f' 0), <- (rows_ids f 0), <- (rows_t_ids x (owner pq f 0)), <- map_app. now apply Permutation_map. }
  assert (Pk : Permutation (keys f') (map key_of_node (pre x) ++ keys f)).
  { rewrite <- (rows_keys' f' 0), <- (rows_keys' f 0), <- (rows_t_keys x (owner pq f 0)), <- map_app. now apply Permutation_map. }
  destruct H as [H1 H2 H3 H4 H5 H6 H7]. fold f in H1, H2, H3, H6, H7.
  eapply WF_intro; [reflexivity| | | | |].
  - apply (Permutation_NoDup (Permutation_sym Pi)). apply NoDup_app_intro; auto. intros m Hm. now apply Fx.
  - intros X. apply (Permutation_in _ Pi) in X. apply in_app_or in X. destruct X as [X|X]; [now apply Fx in X|contradiction].
  - rewrite Pi. rewrite H3. apply Permutation_app_comm.
  - apply (IdxOK_perm _ (map key_of_node (pre x) ++ keys f)); [|now symmetry].
    apply register_all_ok. now repeat split.
  - unfold f'. rewrite (upd_ch_const pq f ch _ G). apply (SU_upd pq f ch); [assumption..|].
    assert (Sc := SU_get pq f ch H7 G).
    destruct (place_split nb x ch) as (a & b & E & ->). subst ch. now apply SU_insert.
Qed.

(* ------------------------------------------------------------------ *)
(* collides detects every child of the parent carrying the id *)
Lemma keys_in f x : In x (pre_f f) -> In (rid x, rdid x) (keys f).
Proof. intros H. unfold keys. change (rid x, rdid x) with (key_of_node x). now apply in_map. Qed.

Lemma idx_get_keys t n d : WF t -> (In n (idx_get d (idx t)) <-> In (n, d) (keys (forest_of t))).
Proof. intros H. apply WF_spelled in H. apply H. Qed.

Lemma collides_complete t p pq ch d :
  WF t -> parent_path p (forest_of t) = Some pq -> get_ch pq (forest_of t) = Some ch ->
  In d (map rdid ch) -> collides t p d = true.
Proof.
  intros H Hp G Hd. apply in_map_iff in Hd. destruct Hd as (x & <- & Hx).
  unfold collides. apply existsb_exists. exists (rid x). split.
  - apply (idx_get_keys t _ _ H). apply keys_in. apply (get_ch_pre pq _ ch G). now apply in_pre_f_top.
  - assert (E : parent_of (rid x) (forest_of t) = Some p).
    { apply parent_of_rows; [apply H|]. exists (rinfo x). rewrite <- (parent_path_owner p _ pq ch Hp G).
      now apply rows_child_in with (ch := ch). }
    rewrite E. apply Nat.eqb_refl.
Qed.

(* ------------------------------------------------------------------ *)
(* world-level frame: replacing one tree *)
Lemma NoDup_replace_mid {X} (A Y Y' B : list X) :
  NoDup (A ++ Y ++ B) -> NoDup Y' -> (forall m, In m Y' -> In m Y \/ (~ In m A /\ ~ In m B)) -> NoDup (A ++ Y' ++ B).
Proof.
  intros H N' F. assert (NA := NoDup_app_l _ _ H). assert (NYB := NoDup_app_r _ _ H).
  assert (NB := NoDup_app_r _ _ NYB).
  apply NoDup_app_intro; [assumption| |].
  - apply NoDup_app_intro; [assumption|assumption|]. intros m H1 H2. destruct (F m H1) as [HY|[_ HB]]; [|contradiction].
    apply (NoDup_app_disj _ _ m NYB HY H2).
  - intros m H1 H2. apply in_app_or in H2. destruct H2 as [H2|H2].
    + destruct (F m H2) as [HY|[HA _]]; [|contradiction]. apply (NoDup_app_disj _ _ m H H1). apply in_or_app. now left.
    + apply (NoDup_app_disj _ _ m H H1). apply in_or_app. now right.
Qed.

Lemma all_ids_split a t b n : all_ids (W (a ++ t :: b) n) = all_ids (W a n) ++ ids (forest_of t) ++ all_ids (W b n).
Proof. unfold all_ids. cbn [trees]. now rewrite flat_map_app. Qed.

Lemma WFw_put w ti t t' nx :
  WFw w -> get_tree w ti = Some t -> WF t' -> next w <= nx ->
  (forall m, In m (ids (forest_of t')) -> In m (ids (forest_of t)) \/ (next w <= m < nx)) ->
  WFw (W (upd_nth ti (fun _ => t') (trees w)) nx).
Proof.
  intros [H1 H2 H3 H4] G Ht' Hnx F. unfold get_tree in G.
  destruct (nth_error_split _ _ G) as (a & b & E & <-). destruct w as [ts nw]. cbn [trees next] in *. subst ts.
  rewrite upd_nth_split. rewrite all_ids_split in H2, H3. rewrite Forall_forall in H3.
  constructor; cbn [trees next].
  - apply Forall_app in H1. destruct H1 as [Ha Hb]. inversion Hb; subst. apply Forall_app. split; [assumption|now constructor].
  - rewrite all_ids_split. apply (NoDup_replace_mid _ _ _ _ H2); [apply Ht'|].
    intros m Hm. destruct (F m Hm) as [X|X]; [now left|right]. split; intros Y.
    + assert (m < nw) by (apply H3; apply in_or_app; now left). lia.
    + assert (m < nw) by (apply H3; apply in_or_app; right; apply in_or_app; now right). lia.
  - rewrite all_ids_split. apply Forall_forall. intros m Hm.
    apply in_app_or in Hm. destruct Hm as [Hm|Hm]; [|apply in_app_or in Hm; destruct Hm as [Hm|Hm]].
    + assert (m < nw) by (apply H3; apply in_or_app; now left). lia.
    + destruct (F m Hm) as [X|X]; [|lia]. assert (m < nw) by (apply H3; apply in_or_app; right; apply in_or_app; now left). lia.
    + assert (m < nw) by (apply H3; apply in_or_app; right; apply in_or_app; now right). lia.
  - lia.
Qed.

Lemma WFw_bump w k : WFw w -> WFw (bump w k).
Proof.
  intros [H1 H2 H3 H4]. constructor; cbn; try assumption; [|lia].
  unfold all_ids in *. cbn. eapply Forall_impl; [|exact H3]. cbn. intros; lia.
Qed.

Lemma WFw_tree w ti t : WFw w -> get_tree w ti = Some t -> WF t.
Proof. intros [H1 _ _ _] G. rewrite Forall_forall in H1. apply H1. now apply nth_error_In in G. Qed.

Lemma WFw_tree_lt w ti t m : WFw w -> get_tree w ti = Some t -> In m (ids (forest_of t)) -> m < next w.
Proof.
  intros [_ _ H3 _] G Hm. rewrite Forall_forall in H3. apply H3. unfold all_ids. apply in_flat_map. exists t.
  split; [now apply nth_error_In in G|assumption].
Qed.

(* ------------------------------------------------------------------ *)
(* contexts for identities and keys *)
Lemma ids_context p f c : get_ch p f = Some c ->
  exists A B, ids f = A ++ ids c ++ B /\ forall g, ids (upd_ch p g f) = A ++ ids (g c) ++ B.
Proof.
  intros G. destruct (upd_ch_context p f 0 c G) as (A & B & E1 & E2).
  exists (map r_id A), (map r_id B). split.
  - rewrite <- (rows_ids f 0), E1, !map_app, rows_ids. reflexivity.
  - intros g. rewrite <- (rows_ids _ 0), E2, !map_app, rows_ids. reflexivity.
Qed.

Lemma keys_context p f c : get_ch p f = Some c ->
  exists A B, keys f = A ++ keys c ++ B /\ forall g, keys (upd_ch p g f) = A ++ keys (g c) ++ B.
Proof.
  intros G. destruct (upd_ch_context p f 0 c G) as (A & B & E1 & E2).
  exists (map r_key A), (map r_key B). split.
  - rewrite <- (rows_keys' f 0), E1, !map_app, rows_keys'. reflexivity.
  - intros g. rewrite <- (rows_keys' _ 0), E2, !map_app, rows_keys'. reflexivity.
Qed.

Lemma keys_app a b : keys (a ++ b) = keys a ++ keys b.
Proof. unfold keys. now rewrite flat_map_app, map_app. Qed.

Lemma keys_cons t f : keys (t :: f) = (rid t, rdid t) :: keys (rch t) ++ keys f.
Proof. unfold keys. cbn [flat_map]. rewrite pre_unfold, map_app. reflexivity. Qed.

Lemma ids_sub_child p f c : get_ch p f = Some c -> incl (ids c) (ids f).
Proof. intros G. destruct (ids_context p f c G) as (A & B & E & _). rewrite E. intros x Hx. apply in_or_app. right. apply in_or_app. now left. Qed.

Lemma NoDup_child_list p f c : NoDup (ids f) -> get_ch p f = Some c -> NoDup (ids c).
Proof.
  intros ND G. destruct (ids_context p f c G) as (A & B & E & _). rewrite E in ND.
  apply NoDup_app_r in ND. now apply NoDup_app_l in ND.
Qed.

Lemma SU_remove_list a X b : SU (a ++ X ++ b) -> SU (a ++ b).
Proof.
  induction X as [|x X IH]; intros H; [exact H|]. apply IH. cbn [app] in H. now apply SU_remove in H.
Qed.

(* SUB-STEP: unlink the branches [X] from the child list at a path and
   unregister all their nodes *)
Lemma WF_cut t pq a X b :
  WF t -> get_ch pq (forest_of t) = Some (a ++ X ++ b) ->
  WF (set_all t (upd_ch pq (fun _ => a ++ b) (forest_of t))
        (fold_left (fun r s => reg_del (rid s) r) (pre_f X) (reg t))
        (fold_left (fun ix s => idx_del (rdid s) (rid s) ix) (pre_f X) (idx t)))
  /\ Permutation (ids (forest_of t)) (ids X ++ ids (upd_ch pq (fun _ => a ++ b) (forest_of t))).
Proof.
  intros H G. set (f := forest_of t) in *. set (f' := upd_ch pq (fun _ => a ++ b) f).
  destruct (ids_context pq f _ G) as (A & B & E1 & E2). specialize (E2 (fun _ => a ++ b)). fold f' in E2.
  destruct (keys_context pq f _ G) as (A' & B' & K1 & K2). specialize (K2 (fun _ => a ++ b)). fold f' in K2.
  cbn beta in E2, K2.
  assert (Pi : Permutation (ids f) (ids X ++ ids f')).
  { rewrite E1, E2, !ids_app. repeat rewrite <- app_assoc. rewrite !(app_assoc A (ids a)). apply Permutation_app_swap_app. }
  assert (Pk : Permutation (keys f) (keys X ++ keys f')).
  { rewrite K1, K2, !keys_app. repeat rewrite <- app_assoc. rewrite !(app_assoc A' (keys a)). apply Permutation_app_swap_app. }
  split; [|exact Pi].
  destruct H as [H1 H2 H3 H4 H5 H6 H7]. fold f in H1, H2, H3, H6, H7.
  assert (ND : NoDup (ids X ++ ids f')) by (apply (Permutation_NoDup Pi H1)).
  eapply WF_intro; [reflexivity| | | | |].
  - now apply NoDup_app_r in ND.
  - intros Y. apply H2. apply (Permutation_in _ (Permutation_sym Pi)). apply in_or_app. now right.
  - apply unregister_reg_ok.
    + apply (Permutation_NoDup (Permutation_sym H3) H1).
    + now rewrite H3.
  - apply unregister_idx_ok. apply (IdxOK_perm _ (keys f)); [now repeat split|exact Pk].
  - unfold f'. apply (SU_upd pq f (a ++ X ++ b)); [assumption..|].
    apply (SU_remove_list a X b). now apply (SU_get pq f).
Qed.

(* SUB-STEP: replace a node by its children (remove(keep_children=True)) *)
Lemma WF_splice t q0 a s b :
  WF t -> get_ch q0 (forest_of t) = Some (a ++ s :: b) ->
  (forall c o, In c (rch s) -> In o (a ++ b) -> rdid o <> rdid c) ->
  WF (set_all t (upd_ch q0 (fun _ => a ++ rch s ++ b) (forest_of t))
        (reg_del (rid s) (reg t)) (idx_del (rdid s) (rid s) (idx t)))
  /\ Permutation (ids (forest_of t)) (rid s :: ids (upd_ch q0 (fun _ => a ++ rch s ++ b) (forest_of t))).
Proof.
  intros H G Hc. set (f := forest_of t) in *. set (f' := upd_ch q0 (fun _ => a ++ rch s ++ b) f).
  destruct (ids_context q0 f _ G) as (A & B & E1 & E2). specialize (E2 (fun _ => a ++ rch s ++ b)). fold f' in E2.
  destruct (keys_context q0 f _ G) as (A' & B' & K1 & K2). specialize (K2 (fun _ => a ++ rch s ++ b)). fold f' in K2.
  cbn beta in E2, K2.
  assert (Pi : Permutation (ids f) (rid s :: ids f')).
  { rewrite E1, E2, !ids_app, ids_cons. la. rewrite !(app_assoc A (ids a)).
    symmetry. apply Permutation_middle. }
  assert (Pk : Permutation (keys f) ((rid s, rdid s) :: keys f')).
  { rewrite K1, K2, !keys_app, keys_cons. la. rewrite !(app_assoc A' (keys a)).
    symmetry. apply Permutation_middle. }
  split; [|exact Pi].
  destruct H as [H1 H2 H3 H4 H5 H6 H7]. fold f in H1, H2, H3, H6, H7.
  assert (ND : NoDup (rid s :: ids f')) by (apply (Permutation_NoDup Pi H1)).
  eapply WF_intro; [reflexivity| | | | |].
  - now inversion ND.
  - intros Y. apply H2. apply (Permutation_in _ (Permutation_sym Pi)). now right.
  - apply reg_del_perm.
    + apply (Permutation_NoDup (Permutation_sym H3) H1).
    + now rewrite H3.
  - apply idx_del_ok. apply (IdxOK_perm _ (keys f)); [now repeat split|exact Pk].
  - unfold f'. apply (SU_upd q0 f (a ++ s :: b)); [assumption..|].
    assert (Sl := SU_get q0 f _ H7 G).
    assert (Ss : SU (rch s)) by (apply (SU_child _ s Sl); apply in_or_app; right; now left).
    assert (Sab := SU_remove a s b Sl).
    constructor.
    + rewrite !map_app. apply SU_top in Sab. rewrite map_app in Sab.
      apply (Permutation_NoDup (l := map rdid (rch s) ++ map rdid a ++ map rdid b)); [apply Permutation_app_swap_app|].
      apply NoDup_app_intro; [now apply SU_top|assumption|].
      intros x Hx Hy. apply in_map_iff in Hx. destruct Hx as (c & <- & Hcin).
      rewrite <- map_app in Hy. apply in_map_iff in Hy. destruct Hy as (o & E & Ho). now apply (Hc c o Hcin Ho).
    + intros x Hx. apply in_app_or in Hx. destruct Hx as [Hx|Hx]; [|apply in_app_or in Hx; destruct Hx as [Hx|Hx]].
      * apply (SU_child _ x Sab). apply in_or_app. now left.
      * now apply (SU_child _ x Ss).
      * apply (SU_child _ x Sab). apply in_or_app. now right.
Qed.

(* ------------------------------------------------------------------ *)
Lemma rows_cut_perm pq f a X b o : get_ch pq f = Some (a ++ X ++ b) ->
  Permutation (rows o f) (rows (owner pq f o) X ++ rows o (upd_ch pq (fun _ => a ++ b) f)).
Proof.
  intros G. destruct (upd_ch_context pq f o _ G) as (A & B & E1 & E2). rewrite E2, E1, !rows_app.
  repeat rewrite <- app_assoc. rewrite !(app_assoc A (rows (owner pq f o) a)). apply Permutation_app_swap_app.
Qed.

Lemma ids_single s : ids [s] = ids_t s.
Proof. unfold ids, ids_t. cbn. now rewrite app_nil_r. Qed.

Lemma rows_single o s : rows o [s] = rows_t o s.
Proof. cbn. now rewrite app_nil_r. Qed.

(* SUB-STEP: re-link a branch of the same tree under another (or the same) parent *)
Lemma WF_relink t q0 a s b pq tch1 nb :
  WF t -> get_ch q0 (forest_of t) = Some (a ++ s :: b) ->
  let f1 := upd_ch q0 (fun _ => a ++ b) (forest_of t) in
  get_ch pq f1 = Some tch1 -> ~ In (rdid s) (map rdid tch1) ->
  WF (set_forest t (upd_ch pq (place nb s) f1))
  /\ Permutation (ids (forest_of t)) (ids (upd_ch pq (place nb s) f1)).
Proof.
  intros H G f1 G1 Hn. set (f := forest_of t) in *. set (f2 := upd_ch pq (place nb s) f1).
  assert (P1 := rows_cut_perm q0 f a [s] b 0 G). fold f1 in P1. rewrite rows_single in P1.
  assert (P2 := rows_insert_perm pq f1 tch1 0 nb s G1). fold f2 in P2.
  assert (Pi : Permutation (ids f) (ids f2)).
  { rewrite <- (rows_ids f 0), <- (rows_ids f2 0). rewrite (Permutation_map r_id P1), (Permutation_map r_id P2).
    rewrite !map_app, !rows_t_ids. reflexivity. }
  assert (Pk : Permutation (keys f) (keys f2)).
  { rewrite <- (rows_keys' f 0), <- (rows_keys' f2 0). rewrite (Permutation_map r_key P1), (Permutation_map r_key P2).
    rewrite !map_app, !rows_t_keys. reflexivity. }
  split; [|exact Pi].
  destruct H as [H1 H2 H3 H4 H5 H6 H7]. fold f in H1, H2, H3, H6, H7.
  eapply WF_intro; [reflexivity| | | | |].
  - apply (Permutation_NoDup Pi H1).
  - intros Y. apply H2. now apply (Permutation_in _ (Permutation_sym Pi)).
  - now rewrite H3.
  - apply (IdxOK_perm _ (keys f)); [now repeat split|exact Pk].
  - assert (Sl := SU_get q0 f _ H7 G).
    assert (S1 : SU f1). { unfold f1. apply (SU_upd q0 f (a ++ s :: b)); auto. now apply SU_remove in Sl. }
    unfold f2. rewrite (upd_ch_const pq f1 tch1 _ G1). apply (SU_upd pq f1 tch1); auto.
    destruct (place_split nb s tch1) as (a1 & b1 & E & ->). subst tch1. apply SU_insert; auto.
    + now apply (SU_get pq f1).
    + apply (SU_child _ s Sl). apply in_or_app. right. now left.
Qed.

(* ------------------------------------------------------------------ *)
(* re-labelling one node *)
Lemma set_info_at_spec n g f q0 i l : node_loc n f = Some (q0, i, l) ->
  exists a s b, l = a ++ s :: b /\ length a = i /\ rid s = n /\ get_ch q0 f = Some l /\
                set_info_at n g f = upd_ch q0 (fun _ => a ++ T n (g (rinfo s)) (rch s) :: b) f.
Proof.
  intros E. destruct (node_loc_spec n f q0 i l E) as (G & s & N & R & _).
  destruct (nth_error_split l i N) as (a & b & -> & <-). exists a, s, b. repeat split; auto.
  unfold set_info_at. rewrite E. rewrite (upd_ch_const q0 f _ _ G), upd_nth_split. destruct s as [id inf ch]. cbn in R. now subst.
Qed.

Lemma set_info_at_none n g f : node_loc n f = None -> set_info_at n g f = f.
Proof. unfold set_info_at. now intros ->. Qed.

(* SUB-STEP: change the payload of one node, data_id unchanged *)
Lemma WF_relabel_same t q0 a s b inf' :
  WF t -> get_ch q0 (forest_of t) = Some (a ++ s :: b) -> i_did inf' = rdid s ->
  WF (set_forest t (upd_ch q0 (fun _ => a ++ T (rid s) inf' (rch s) :: b) (forest_of t)))
  /\ ids (upd_ch q0 (fun _ => a ++ T (rid s) inf' (rch s) :: b) (forest_of t)) = ids (forest_of t).
Proof.
  intros H G Ed. set (f := forest_of t) in *. set (s' := T (rid s) inf' (rch s)). set (f' := upd_ch q0 (fun _ => a ++ s' :: b) f).
  destruct (ids_context q0 f _ G) as (A & B & E1 & E2). specialize (E2 (fun _ => a ++ s' :: b)). fold f' in E2. cbn beta in E2.
  destruct (keys_context q0 f _ G) as (A' & B' & K1 & K2). specialize (K2 (fun _ => a ++ s' :: b)). fold f' in K2. cbn beta in K2.
  assert (Ei : ids f' = ids f). { rewrite E1, E2, !ids_app, !ids_cons. reflexivity. }
  assert (Ek : keys f' = keys f).
  { rewrite K1, K2, !keys_app, !keys_cons.
    replace (rdid s') with (rdid s) by (unfold s', rdid; cbn [rinfo]; now rewrite Ed). reflexivity. }
  split; [|exact Ei].
  destruct H as [H1 H2 H3 H4 H5 H6 H7]. fold f in H1, H2, H3, H6, H7.
  eapply WF_intro; [reflexivity| | | | |]; rewrite ?Ei, ?Ek; auto; [now repeat split|].
  unfold f'. apply (SU_upd q0 f _ _ H7 G). assert (Sl := SU_get q0 f _ H7 G).
  constructor.
  - apply SU_top in Sl. rewrite map_app in *. cbn [map] in *.
    replace (rdid s') with (rdid s) by (unfold s', rdid; cbn [rinfo]; now rewrite Ed). exact Sl.
  - intros x Hx. apply in_app_or in Hx. destruct Hx as [Hx|[<-|Hx]].
    + apply (SU_child _ x Sl). apply in_or_app. now left.
    + cbn [rch]. apply (SU_child _ s Sl). apply in_or_app. right. now left.
    + apply (SU_child _ x Sl). apply in_or_app. right. now right.
Qed.

(* ------------------------------------------------------------------ *)
(* frame on identities: a step only adds freshly allocated identities; together with WFw
   of the result this is [WFx] *)
Definition Fr (w w' : world) : Prop :=
  next w <= next w' /\ forall m, In m (all_ids w') -> In m (all_ids w) \/ next w <= m.
Definition WFx (w w' : world) : Prop := WFw w' /\ Fr w w'.

Lemma WFx_refl w : WFw w -> WFx w w.
Proof. intros H. split; [assumption|]. split; [lia|]. intros m Hm. now left. Qed.

Lemma WFx_trans a b c : WFx a b -> WFx b c -> WFx a c.
Proof.
  intros (_ & L1 & F1) (H & L2 & F2). split; [assumption|]. split; [lia|]. intros m Hm.
  destruct (F2 m Hm) as [X|X]; [|right; lia]. now apply F1.
Qed.

Lemma WFx_put w ti t t' nx :
  WFw w -> get_tree w ti = Some t -> WF t' -> next w <= nx ->
  (forall m, In m (ids (forest_of t')) -> In m (ids (forest_of t)) \/ (next w <= m < nx)) ->
  WFx w (W (upd_nth ti (fun _ => t') (trees w)) nx).
Proof.
  intros H G Ht' Hnx F. split; [now apply (WFw_put w ti t)|]. split; [exact Hnx|].
  unfold get_tree in G. destruct (nth_error_split _ _ G) as (a & b & E & <-). destruct w as [ts nw]. cbn [trees next] in *. subst ts.
  rewrite upd_nth_split. intros m Hm. rewrite all_ids_split in Hm. rewrite all_ids_split.
  apply in_app_or in Hm. destruct Hm as [Hm|Hm]; [left; apply in_or_app; now left|].
  apply in_app_or in Hm. destruct Hm as [Hm|Hm]; [|left; apply in_or_app; right; apply in_or_app; now right].
  destruct (F m Hm) as [X|X]; [left; apply in_or_app; right; apply in_or_app; now left|right; lia].
Qed.

Lemma WFx_bump w k : WFw w -> WFx w (bump w k).
Proof. intros H. split; [now apply WFw_bump|]. split; [cbn; lia|]. intros m Hm. now left. Qed.

Lemma WFx_W w nx : WFw w -> next w <= nx -> WFx w (W (trees w) nx).
Proof.
  intros H L. replace nx with (next w + (nx - next w)) by lia. apply (WFx_bump w (nx - next w) H).
Qed.
