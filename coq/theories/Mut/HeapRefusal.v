(* The pointer-level reading of two forest-level theorems, through the refinement:
   C13 - a refused operation leaves every pointer of every tree as it was (only objects that
         are not nodes of any tree - the refused, dangling object - may differ);
   C02 - the registry and the clone index of the heap are exact with respect to the pointers. *)
From Coq Require Import List ZArith Bool Arith Lia Permutation.
From NT Require Import Sx Rose ListFacts RoseFacts Surgery SurgeryFacts Machine WF MachineFacts PreserveSteps Invariant
  QueriesProofs RefusalC13 C13Summary Heap HeapProofs HeapRemove HeapMore HeapRefine HeapFull.
Import ListNotations.

(* two heaps of one tree agree on everything the tree consists of *)
Record SameTree (h h' : hstate) : Prop := {
  st_reg : hreg h' = hreg h;
  st_idx : hidx h' = hidx h;
  st_typed : htyped h' = htyped h;
  st_calc : hcalc h' = hcalc h;
  st_ch : forall p, hch h' p = hch h p;                       (* EVERY child list, also of dead objects *)
  st_root : hpar h' 0 = hpar h 0 /\ htr h' 0 = htr h 0;
  st_node : forall n, In n (hreg h) -> hpar h' n = hpar h n /\ htr h' n = htr h n /\ hinf h' n = hinf h n;
  st_abs : abs_tstate h' = abs_tstate h
}.

Lemma Rep_same h h' t : WF t -> Rep h t -> Rep h' t -> SameTree h h'.
Proof.
  intros W R R'. constructor.
  - now rewrite (rep_reg h t R), (rep_reg h' t R').
  - now rewrite (rep_idx h t R), (rep_idx h' t R').
  - now rewrite (rep_typed h t R), (rep_typed h' t R').
  - now rewrite (rep_calc h t R), (rep_calc h' t R').
  - intros p. now rewrite (rep_ch h t R), (rep_ch h' t R').
  - destruct (rep_root h t R) as [A B], (rep_root h' t R') as [A' B']. split; congruence.
  - intros n Hn. rewrite (rep_reg h t R) in Hn. apply (Permutation_in _ (wf_reg t W)) in Hn.
    rewrite <- (rows_ids _ 0) in Hn. apply in_map_iff in Hn. destruct Hn as (r & <- & Hr).
    destruct (rep_node h t R r Hr) as (A & B & C), (rep_node h' t R' r Hr) as (A' & B' & C'). repeat split; congruence.
  - now rewrite (proj2 (abs_correct h t W R)), (proj2 (abs_correct h' t W R')).
Qed.

(* C13 at the level of the pointers: a refused operation (a library error) of ANY kind *)
Theorem heap_refusal hw w o e : WFw w -> RepW hw w ->
  fst (h_step hw o) = Err e -> library_error e = true ->
  Forall2 SameTree (htrees hw) (htrees (snd (h_step hw o))) /\ hnext hw <= hnext (snd (h_step hw o)) /\
  abs_world (snd (h_step hw o)) = option_map (fun w0 => W (trees w0) (hnext (snd (h_step hw o)))) (abs_world hw).
Proof.
  intros W RW E L. destruct (sim_step_all hw w o W RW) as [E1 R1]. rewrite E1 in E.
  destruct (refusal_summary w o e W E L) as (Et & Ln & W').
  assert (A1 := abs_world_correct _ _ W' R1). assert (A0 := abs_world_correct _ _ W RW).
  destruct R1 as [N1 F1]. destruct RW as [N0 F0]. rewrite Et in F1. split; [|split; [lia|]].
  - destruct W as [Wt _ _ _]. clear -F0 F1 Wt. revert F1. generalize (htrees (snd (h_step hw o))).
    induction F0 as [|h t hs ts Rh F0 IH]; intros l F1; inversion F1 as [|h' t' hs' ts' Rh' F1']; subst; constructor.
    + inversion Wt; subst. now apply (Rep_same h h' t).
    + inversion Wt; subst. now apply IH.
  - rewrite A1, A0. cbn [option_map]. rewrite N1, <- Et. now destruct (snd (step w o)).
Qed.

(* along any history *)
Theorem heap_refusal_reachable ops o e :
  fst (h_step (h_run ops h_empty_world) o) = Err e -> library_error e = true ->
  Forall2 SameTree (htrees (h_run ops h_empty_world)) (htrees (h_run (ops ++ [o]) h_empty_world)).
Proof.
  intros E L. assert (W := WFw_run ops _ WFw_empty). assert (R := sim_run_all ops _ _ WFw_empty RepW_empty).
  replace (h_run (ops ++ [o]) h_empty_world) with (snd (h_step (h_run ops h_empty_world) o)).
  - exact (proj1 (heap_refusal _ _ o e W R E L)).
  - unfold h_run. now rewrite fold_left_app.
Qed.

(* ---- C02: the dictionaries of the heap against its pointers ---- *)
Theorem heap_registry_exact h t : WF t -> Rep h t ->
  exists f, abs_forest h = Some f /\ NoDup (hreg h) /\
    (forall n, In n (hreg h) <-> In n (ids f)) /\ length (hreg h) = length (ids f).
Proof.
  intros W R. exists (forest_of t). split; [apply (abs_correct h t W R)|]. rewrite (rep_reg h t R).
  split; [apply (Permutation_NoDup (Permutation_sym (wf_reg t W))), W|]. split.
  - intros n. split; apply Permutation_in; [|symmetry]; apply W.
  - apply Permutation_length, W.
Qed.

(* the group the index lists for a data_id = exactly the registered nodes whose OBJECT carries that data_id *)
Theorem heap_index_exact h t : WF t -> Rep h t -> forall d n,
  In n (idx_get d (hidx h)) <-> In n (hreg h) /\ hdid h n = d.
Proof.
  intros W R d n. rewrite (rep_idx h t R), (idx_get_keys t n d W), keys_in_iff, (rep_reg h t R). split.
  - intros (s & Hs & <- & <-). split.
    + apply (Permutation_in _ (Permutation_sym (wf_reg t W))). unfold ids. now apply in_map.
    + unfold hdid. now rewrite (rep_info h t s R Hs).
  - intros [Hn Hd]. apply (Permutation_in _ (wf_reg t W)) in Hn. unfold ids in Hn. apply in_map_iff in Hn.
    destruct Hn as (s & <- & Hs). exists s. refine (conj Hs (conj eq_refl _)). unfold hdid in Hd. now rewrite (rep_info h t s R Hs) in Hd.
Qed.

(* no group is empty, no data_id is listed twice, every group is duplicate-free *)
Theorem heap_index_shape h t : WF t -> Rep h t ->
  NoDup (map fst (hidx h)) /\ Forall (fun e => snd e <> []) (hidx h) /\
  forall d, idx_has d (hidx h) = true <-> exists n, In n (hreg h) /\ hdid h n = d.
Proof.
  intros W R. rewrite (rep_idx h t R). refine (conj (wf_ikeys t W) (conj (wf_ine t W) _)). intros d.
  rewrite <- (rep_idx h t R). split.
  - intros H. rewrite (rep_idx h t R) in H. apply idx_has_In in H. apply in_map_iff in H. destruct H as (e & <- & He).
    assert (Ne := proj1 (Forall_forall _ _) (wf_ine t W) e He). destruct (snd e) as [|n l] eqn:Es; [congruence|].
    exists n. apply (heap_index_exact h t W R). rewrite (rep_idx h t R). unfold idx_get.
    assert (Hf : find (fun x => did_eqb (fst x) (fst e)) (idx t) = Some e).
    { assert (ND := wf_ikeys t W). clear -He ND. induction (idx t) as [|x ix IH]; [contradiction|]. cbn [find map] in *.
      inversion ND as [|y ys N1 N2]; subst. destruct (did_eqb (fst x) (fst e)) eqn:E.
      - apply did_eqb_eq in E. destruct He as [->|He]; [reflexivity|]. exfalso. apply N1. rewrite E. now apply in_map.
      - destruct He as [->|He]; [rewrite did_eqb_refl in E; discriminate|now apply IH]. }
    rewrite Hf, Es. now left.
  - intros (n & Hn). apply (heap_index_exact h t W R) in Hn. rewrite (rep_idx h t R) in *. unfold idx_get in Hn.
    destruct (find (fun e => did_eqb (fst e) d) (idx t)) as [e|] eqn:Ef; [|contradiction].
    apply find_some in Ef. destruct Ef as [He Ed]. unfold idx_has. apply existsb_exists. now exists e.
Qed.

(* ... for every heap any history of operations produces *)
Theorem heap_lookups_reachable ops h : In h (htrees (h_run ops h_empty_world)) ->
  exists t, abs_tstate h = Some t /\ WF t /\ hreg h = reg t /\ hidx h = idx t /\ hcalc h = calc t /\ htyped h = typed t /\
    (forall d n, In n (idx_get d (hidx h)) <-> In n (hreg h) /\ hdid h n = d) /\
    (forall n, In n (hreg h) <-> In n (ids (forest_of t))) /\ NoDup (hreg h).
Proof.
  intros Hh. assert (W := WFw_run ops _ WFw_empty). assert (R := sim_run_all ops _ _ WFw_empty RepW_empty).
  destruct R as [_ F]. destruct W as [Wt _ _ _].
  induction F as [|h0 t hs ts Rh F IH]; [contradiction|]. inversion Wt as [|x xs Wx Wxs]; subst.
  destruct Hh as [->|Hh]; [|now apply IH].
  exists t. destruct (heap_registry_exact h t Wx Rh) as (f & Af & ND & Hr & _).
  assert (Ef : f = forest_of t) by (destruct (abs_correct h t Wx Rh) as [A _]; congruence). subst f.
  refine (conj (proj2 (abs_correct h t Wx Rh)) (conj Wx (conj (rep_reg h t Rh) (conj (rep_idx h t Rh) (conj (rep_calc h t Rh) (conj (rep_typed h t Rh) (conj (heap_index_exact h t Wx Rh) (conj Hr ND)))))))).
Qed.
