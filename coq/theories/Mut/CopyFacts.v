(* C07 - facts about the copy family of the mutation machine.

   Part 1: the recursive copy [copy_t]/[copy_f] (Node._add_from):
           faithful  - the copy equals the source once identities (and the
                       per-node metadata, which a copy does not take over) are
                       stripped: same data objects, data_ids, kinds, order, shape;
           fresh     - the identities of the copy are exactly
                       [n, n+1, ..., n+size-1] in pre-order;
           no metadata on the copy.
   Part 2: the relation "x is a copy of s" and what it implies in elementary
           terms (pre-order lists of data objects / data_ids / kinds, shape).
   Part 3: one operation = one copy: add(node), copy_to(add_self=True),
           Tree.copy, Node.copy: effect (where the copy goes), faithful, fresh,
           source unchanged (other tree: the state is identical; same tree:
           every row (parent, node, payload) of the tree is unchanged, in
           unchanged order, the copy is one inserted block).
   Part 4: several sources = add(tree), copy_to(add_self=False).
   Part 5: histories: independence of source and copy. *)
From Coq Require Import List ZArith Bool Arith Lia Permutation.
From NT Require Import Sx Rose ListFacts RoseFacts Surgery SurgeryFacts Machine WF MachineFacts Effects FrameTrees.
Import ListNotations.

Local Ltac la := repeat (rewrite <- app_assoc || rewrite <- app_comm_cons); try reflexivity.

(* ------------------------------------------------------------------ *)
(* Part 1: copy_t / copy_f *)

(* payload without the node-local parts: [kk = false] also erases the kind
   (nodes of a plain tree have no kind attribute) *)
Definition strip_info (kk : bool) (i : info) : info :=
  I (i_obj i) (i_eqc i) (i_hash i) (i_isstr i) (i_name i) (i_did i) (if kk then i_kind i else None) [].

Fixpoint strip_ids (kk : bool) (t : rt) : rt :=
  match t with T _ i ch => T 0 (strip_info kk i) (map (strip_ids kk) ch) end.

Definition copy_info (keep_kind : bool) (dk : kind) (i : info) : info :=
  I (i_obj i) (i_eqc i) (i_hash i) (i_isstr i) (i_name i) (i_did i) (if keep_kind then i_kind i else dk) [].

Lemma copy_t_unfold kk dk n id i ch :
  copy_t kk dk n (T id i ch) =
  (T n (copy_info kk dk i) (fst (copy_f kk dk (S n) ch)), snd (copy_f kk dk (S n) ch)).
Proof.
  cbn [copy_t]. unfold copy_info.
  set (go := fix go (n0 : nat) (l : list rt) {struct l} : list rt * nat :=
               match l with
               | [] => ([], n0)
               | c :: l' => let (c', n1) := copy_t kk dk n0 c in let (r', n2) := go n1 l' in (c' :: r', n2)
               end).
  assert (E : forall l m, go m l = copy_f kk dk m l).
  { induction l as [|c l IH]; intros m; cbn [go copy_f]; [reflexivity|].
    destruct (copy_t kk dk m c) as [c' n1]. now rewrite IH. }
  now rewrite E.
Qed.

Lemma copy_f_cons kk dk n c l :
  copy_f kk dk n (c :: l) =
  (fst (copy_t kk dk n c) :: fst (copy_f kk dk (snd (copy_t kk dk n c)) l),
   snd (copy_f kk dk (snd (copy_t kk dk n c)) l)).
Proof.
  cbn [copy_f]. destruct (copy_t kk dk n c) as [c' n1]. cbn [fst snd].
  now destruct (copy_f kk dk n1 l) as [r' n2].
Qed.

Lemma ids_cons_t t f : ids (t :: f) = ids_t t ++ ids f.
Proof. unfold ids, ids_t. cbn [flat_map]. apply map_app. Qed.

Lemma size_f_cons t f : size_f (t :: f) = size t + size_f f.
Proof. reflexivity. Qed.

(* the allocator advances by the size of the source *)
Lemma copy_next kk dk :
  (forall t n, snd (copy_t kk dk n t) = n + size t) /\
  (forall f n, snd (copy_f kk dk n f) = n + size_f f).
Proof.
  apply rt_forest_ind.
  - intros id i ch IH n. rewrite copy_t_unfold. cbn [snd size]. rewrite IH. fold (size_f ch). lia.
  - intros n. cbn. lia.
  - intros t f IHt IHf n. rewrite copy_f_cons. cbn [snd]. rewrite IHf, IHt, size_f_cons. lia.
Qed.

Lemma copy_t_next kk dk t n : snd (copy_t kk dk n t) = n + size t.
Proof. apply copy_next. Qed.
Lemma copy_f_next kk dk f n : snd (copy_f kk dk n f) = n + size_f f.
Proof. apply copy_next. Qed.

(* fresh: the identities of the copy are n, n+1, ... in pre-order *)
Lemma copy_ids kk dk :
  (forall t n, ids_t (fst (copy_t kk dk n t)) = seq n (size t)) /\
  (forall f n, ids (fst (copy_f kk dk n f)) = seq n (size_f f)).
Proof.
  apply rt_forest_ind.
  - intros id i ch IH n. rewrite copy_t_unfold. cbn [fst]. rewrite ids_t_unfold. cbn [rid rch size seq].
    rewrite IH. reflexivity.
  - intros n. reflexivity.
  - intros t f IHt IHf n. rewrite copy_f_cons. cbn [fst].
    rewrite ids_cons_t, IHt, IHf, copy_t_next, size_f_cons. now rewrite seq_app.
Qed.

Lemma copy_t_ids kk dk t n : ids_t (fst (copy_t kk dk n t)) = seq n (size t).
Proof. apply copy_ids. Qed.
Lemma copy_f_ids kk dk f n : ids (fst (copy_f kk dk n f)) = seq n (size_f f).
Proof. apply copy_ids. Qed.

(* faithful: stripped of identities the copy is the source *)
Lemma strip_copy_info_keep i dk : strip_info true (copy_info true dk i) = strip_info true i.
Proof. reflexivity. Qed.
Lemma strip_copy_info_any kk dk i : strip_info false (copy_info kk dk i) = strip_info false i.
Proof. reflexivity. Qed.

Lemma copy_strip_keep dk :
  (forall t n, strip_ids true (fst (copy_t true dk n t)) = strip_ids true t) /\
  (forall f n, map (strip_ids true) (fst (copy_f true dk n f)) = map (strip_ids true) f).
Proof.
  apply rt_forest_ind.
  - intros id i ch IH n. rewrite copy_t_unfold. cbn [fst strip_ids]. now rewrite IH.
  - reflexivity.
  - intros t f IHt IHf n. rewrite copy_f_cons. cbn [fst map]. now rewrite IHt, IHf.
Qed.

Lemma copy_strip_any kk dk :
  (forall t n, strip_ids false (fst (copy_t kk dk n t)) = strip_ids false t) /\
  (forall f n, map (strip_ids false) (fst (copy_f kk dk n f)) = map (strip_ids false) f).
Proof.
  apply rt_forest_ind.
  - intros id i ch IH n. rewrite copy_t_unfold. cbn [fst strip_ids]. now rewrite IH.
  - reflexivity.
  - intros t f IHt IHf n. rewrite copy_f_cons. cbn [fst map]. now rewrite IHt, IHf.
Qed.

(* the form the machine uses: [copy_f (typed t) None]; a typed copy keeps the
   kinds, a plain one has none *)
Theorem copy_f_faithful ty f n :
  map (strip_ids ty) (fst (copy_f ty None n f)) = map (strip_ids ty) f.
Proof. destruct ty; [apply copy_strip_keep|apply copy_strip_any]. Qed.

Theorem copy_t_faithful ty t n :
  strip_ids ty (fst (copy_t ty None n t)) = strip_ids ty t.
Proof. destruct ty; [apply copy_strip_keep|apply copy_strip_any]. Qed.

(* a copy carries no metadata (the metadata dict of a node is not shared and not copied) *)
Definition no_meta (t : rt) : Prop := i_meta (rinfo t) = [].

Lemma copy_no_meta kk dk :
  (forall t n, Forall no_meta (pre (fst (copy_t kk dk n t)))) /\
  (forall f n, Forall no_meta (pre_f (fst (copy_f kk dk n f)))).
Proof.
  apply rt_forest_ind.
  - intros id i ch IH n. rewrite copy_t_unfold. cbn [fst pre]. constructor; [reflexivity|apply IH].
  - constructor.
  - intros t f IHt IHf n. rewrite copy_f_cons. cbn [fst flat_map]. apply Forall_app. split; [apply IHt|apply IHf].
Qed.

(* plain copies: no kinds at all *)
Lemma copy_plain_kinds :
  (forall t n, Forall (fun x => rkind x = None) (pre (fst (copy_t false None n t)))) /\
  (forall f n, Forall (fun x => rkind x = None) (pre_f (fst (copy_f false None n f)))).
Proof.
  apply rt_forest_ind.
  - intros id i ch IH n. rewrite copy_t_unfold. cbn [fst pre]. constructor; [reflexivity|apply IH].
  - constructor.
  - intros t f IHt IHf n. rewrite copy_f_cons. cbn [fst flat_map]. apply Forall_app. split; [apply IHt|apply IHf].
Qed.

Lemma size_f_pre f : length (pre_f f) = size_f f.
Proof.
  induction f as [|t f IH]; [reflexivity|]. cbn [flat_map]. rewrite app_length, size_pre, IH.
  now rewrite size_f_cons.
Qed.

Lemma size_ids_t t : length (ids_t t) = size t.
Proof. unfold ids_t. now rewrite map_length, size_pre. Qed.

(* ------------------------------------------------------------------ *)
(* Part 2: elementary reading of "equal after stripping" *)

(* the pre-order list of payloads *)
Definition infos (t : rt) : list info := map rinfo (pre t).
Definition infos_f (f : forest) : list info := map rinfo (pre_f f).

(* shape without anything else *)
Fixpoint shape (t : rt) : rt := match t with T _ _ ch => T 0 dummy_info (map shape ch) end.

Lemma strip_pre kk :
  (forall t, map rinfo (pre (strip_ids kk t)) = map (strip_info kk) (infos t)) /\
  (forall f, map rinfo (pre_f (map (strip_ids kk) f)) = map (strip_info kk) (infos_f f)).
Proof.
  apply rt_forest_ind.
  - intros id i ch IH. cbn [strip_ids pre infos map rinfo]. f_equal. exact IH.
  - reflexivity.
  - intros t f IHt IHf. cbn [map flat_map]. unfold infos_f. cbn [flat_map]. rewrite !map_app.
    unfold infos in IHt. unfold infos_f in IHf. now rewrite IHt, IHf.
Qed.

Lemma strip_shape kk :
  (forall t, shape (strip_ids kk t) = shape t) /\
  (forall f, map shape (map (strip_ids kk) f) = map shape f).
Proof.
  apply rt_forest_ind.
  - intros id i ch IH. cbn [strip_ids shape]. now rewrite IH.
  - reflexivity.
  - intros t f IHt IHf. cbn [map]. now rewrite IHt, IHf.
Qed.

(* what a stripped equality says, spelled out: in pre-order the two branches
   have the same data objects, the same equality classes / hashes / names, the
   same data_ids, (typed) the same kinds, and the same shape - hence the same
   child order everywhere *)
Theorem strip_eq_spelled kk a b : strip_ids kk a = strip_ids kk b ->
  map i_obj (infos a) = map i_obj (infos b) /\
  map i_did (infos a) = map i_did (infos b) /\
  map i_name (infos a) = map i_name (infos b) /\
  (kk = true -> map i_kind (infos a) = map i_kind (infos b)) /\
  shape a = shape b /\ size a = size b.
Proof.
  intros E.
  assert (E1 : map (strip_info kk) (infos a) = map (strip_info kk) (infos b)).
  { rewrite <- !(proj1 (strip_pre kk)). now rewrite E. }
  assert (Ho : forall g : info -> Z, (forall i, g (strip_info kk i) = g i) -> map g (infos a) = map g (infos b)).
  { intros g Hg. rewrite <- (map_ext _ _ Hg (infos a)), <- (map_ext _ _ Hg (infos b)).
    rewrite <- !map_map. now rewrite E1. }
  refine (conj _ (conj _ (conj _ (conj _ (conj _ _))))).
  - apply (Ho i_obj). reflexivity.
  - transitivity (map i_did (map (strip_info kk) (infos a))); [now rewrite map_map|]. rewrite E1. now rewrite map_map.
  - transitivity (map i_name (map (strip_info kk) (infos a))); [now rewrite map_map|]. rewrite E1. now rewrite map_map.
  - intros ->. transitivity (map i_kind (map (strip_info true) (infos a))); [now rewrite map_map|]. rewrite E1. now rewrite map_map.
  - rewrite <- (proj1 (strip_shape kk) a), <- (proj1 (strip_shape kk) b). now rewrite E.
  - rewrite <- !size_pre. transitivity (length (infos a)); [unfold infos; now rewrite map_length|].
    transitivity (length (map (strip_info kk) (infos a))); [now rewrite map_length|]. rewrite E1.
    unfold infos. now rewrite !map_length.
Qed.

(* the children of the two tops correspond one to one, in order *)
Lemma strip_eq_children kk a b : strip_ids kk a = strip_ids kk b ->
  map (strip_ids kk) (rch a) = map (strip_ids kk) (rch b).
Proof. destruct a, b. cbn. intros E. now injection E. Qed.

Lemma strip_map_Forall2 kk : forall a b, map (strip_ids kk) a = map (strip_ids kk) b ->
  Forall2 (fun x y => strip_ids kk x = strip_ids kk y) a b.
Proof.
  induction a as [|x a IH]; intros [|y b] E; try discriminate; constructor.
  - now injection E.
  - apply IH. now injection E.
Qed.
