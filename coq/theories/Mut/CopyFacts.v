(* C07 - facts about the copy family of the mutation machine.

   Part 1: the recursive copy [copy_t]/[copy_f] (Node._add_from):
           faithful  - the copy equals the source once identities (and the
                       per-node metadata, which a copy does not take over) are
                       stripped: same data objects, data_ids, kinds, order, shape;
           fresh     - the identities of the copy are exactly
                       [n, n+1, ..., n+size-1] in pre-order;
           no metadata on the copy.
   Part 2: the relation "x is a copy of s" and what it implies in elementary
           terms (pre-order lists of data objects / data_ids / kinds, shape).
   Part 3: one operation = one copy: add(node), copy_to(add_self=True),
           Tree.copy, Node.copy: effect (where the copy goes), faithful, fresh,
           source unchanged (other tree: the state is identical; same tree:
           every row (parent, node, payload) of the tree is unchanged, in
           unchanged order, the copy is one inserted block).
   Part 4: several sources = add(tree), copy_to(add_self=False).
   Part 5: histories: independence of source and copy. *)
From Coq Require Import List ZArith Bool Arith Lia Permutation.
From NT Require Import Sx Rose ListFacts RoseFacts Surgery SurgeryFacts Machine WF MachineFacts Effects FrameTrees.
Import ListNotations.

Local Ltac la := repeat (rewrite <- app_assoc || rewrite <- app_comm_cons); try reflexivity.

(* ------------------------------------------------------------------ *)
(* Part 1: copy_t / copy_f *)

(* payload without the node-local parts: [kk = false] also erases the kind
   (nodes of a plain tree have no kind attribute) *)
Definition strip_info (kk : bool) (i : info) : info :=
  I (i_obj i) (i_eqc i) (i_hash i) (i_isstr i) (i_name i) (i_did i) (if kk then i_kind i else None) [].

Fixpoint strip_ids (kk : bool) (t : rt) : rt :=
  match t with T _ i ch => T 0 (strip_info kk i) (map (strip_ids kk) ch) end.

Definition copy_info (keep_kind : bool) (dk : kind) (i : info) : info :=
  I (i_obj i) (i_eqc i) (i_hash i) (i_isstr i) (i_name i) (i_did i) (if keep_kind then i_kind i else dk) [].

Lemma copy_t_unfold kk dk n id i ch :
  copy_t kk dk n (T id i ch) =
  (T n (copy_info kk dk i) (fst (copy_f kk dk (S n) ch)), snd (copy_f kk dk (S n) ch)).
Proof.
  cbn [copy_t]. unfold copy_info.
  set (go := fix go (n0 : nat) (l : list rt) {struct l} : list rt * nat :=
               match l with
               | [] => ([], n0)
               | c :: l' => let (c', n1) := copy_t kk dk n0 c in let (r', n2) := go n1 l' in (c' :: r', n2)
               end).
  assert (E : forall l m, go m l = copy_f kk dk m l).
  { induction l as [|c l IH]; intros m; cbn [go copy_f]; [reflexivity|].
    destruct (copy_t kk dk m c) as [c' n1]. now rewrite IH. }
  now rewrite E.
Qed.

Lemma copy_f_cons kk dk n c l :
  copy_f kk dk n (c :: l) =
  (fst (copy_t kk dk n c) :: fst (copy_f kk dk (snd (copy_t kk dk n c)) l),
   snd (copy_f kk dk (snd (copy_t kk dk n c)) l)).
Proof.
  cbn [copy_f]. destruct (copy_t kk dk n c) as [c' n1]. cbn [fst snd].
  now destruct (copy_f kk dk n1 l) as [r' n2].
Qed.

Lemma ids_cons_t t f : ids (t :: f) = ids_t t ++ ids f.
Proof. unfold ids, ids_t. cbn [flat_map]. apply map_app. Qed.

Lemma size_f_cons t f : size_f (t :: f) = size t + size_f f.
Proof. reflexivity. Qed.

(* the allocator advances by the size of the source *)
Lemma copy_next kk dk :
  (forall t n, snd (copy_t kk dk n t) = n + size t) /\
  (forall f n, snd (copy_f kk dk n f) = n + size_f f).
Proof.
  apply rt_forest_ind.
  - intros id i ch IH n. rewrite copy_t_unfold. cbn [snd size]. rewrite IH. fold (size_f ch). lia.
  - intros n. cbn. lia.
  - intros t f IHt IHf n. rewrite copy_f_cons. cbn [snd]. rewrite IHf, IHt, size_f_cons. lia.
Qed.

Lemma copy_t_next kk dk t n : snd (copy_t kk dk n t) = n + size t.
Proof. apply copy_next. Qed.
Lemma copy_f_next kk dk f n : snd (copy_f kk dk n f) = n + size_f f.
Proof. apply copy_next. Qed.

(* fresh: the identities of the copy are n, n+1, ... in pre-order *)
Lemma copy_ids kk dk :
  (forall t n, ids_t (fst (copy_t kk dk n t)) = seq n (size t)) /\
  (forall f n, ids (fst (copy_f kk dk n f)) = seq n (size_f f)).
Proof.
  apply rt_forest_ind.
  - intros id i ch IH n. rewrite copy_t_unfold. cbn [fst]. rewrite ids_t_unfold. cbn [rid rch size seq].
    rewrite IH. reflexivity.
  - intros n. reflexivity.
  - intros t f IHt IHf n. rewrite copy_f_cons. cbn [fst].
    rewrite ids_cons_t, IHt, IHf, copy_t_next, size_f_cons. now rewrite seq_app.
Qed.

Lemma copy_t_ids kk dk t n : ids_t (fst (copy_t kk dk n t)) = seq n (size t).
Proof. apply copy_ids. Qed.
Lemma copy_f_ids kk dk f n : ids (fst (copy_f kk dk n f)) = seq n (size_f f).
Proof. apply copy_ids. Qed.

(* faithful: stripped of identities the copy is the source *)
Lemma strip_copy_info_keep i dk : strip_info true (copy_info true dk i) = strip_info true i.
Proof. reflexivity. Qed.
Lemma strip_copy_info_any kk dk i : strip_info false (copy_info kk dk i) = strip_info false i.
Proof. reflexivity. Qed.

Lemma copy_strip_keep dk :
  (forall t n, strip_ids true (fst (copy_t true dk n t)) = strip_ids true t) /\
  (forall f n, map (strip_ids true) (fst (copy_f true dk n f)) = map (strip_ids true) f).
Proof.
  apply rt_forest_ind.
  - intros id i ch IH n. rewrite copy_t_unfold. cbn [fst strip_ids]. now rewrite IH.
  - reflexivity.
  - intros t f IHt IHf n. rewrite copy_f_cons. cbn [fst map]. now rewrite IHt, IHf.
Qed.

Lemma copy_strip_any kk dk :
  (forall t n, strip_ids false (fst (copy_t kk dk n t)) = strip_ids false t) /\
  (forall f n, map (strip_ids false) (fst (copy_f kk dk n f)) = map (strip_ids false) f).
Proof.
  apply rt_forest_ind.
  - intros id i ch IH n. rewrite copy_t_unfold. cbn [fst strip_ids]. now rewrite IH.
  - reflexivity.
  - intros t f IHt IHf n. rewrite copy_f_cons. cbn [fst map]. now rewrite IHt, IHf.
Qed.

(* the form the machine uses: [copy_f (typed t) None]; a typed copy keeps the
   kinds, a plain one has none *)
Theorem copy_f_faithful ty f n :
  map (strip_ids ty) (fst (copy_f ty None n f)) = map (strip_ids ty) f.
Proof. destruct ty; [apply copy_strip_keep|apply copy_strip_any]. Qed.

Theorem copy_t_faithful ty t n :
  strip_ids ty (fst (copy_t ty None n t)) = strip_ids ty t.
Proof. destruct ty; [apply copy_strip_keep|apply copy_strip_any]. Qed.

(* a copy carries no metadata (the metadata dict of a node is not shared and not copied) *)
Definition no_meta (t : rt) : Prop := i_meta (rinfo t) = [].

Lemma copy_no_meta kk dk :
  (forall t n, Forall no_meta (pre (fst (copy_t kk dk n t)))) /\
  (forall f n, Forall no_meta (pre_f (fst (copy_f kk dk n f)))).
Proof.
  apply rt_forest_ind.
  - intros id i ch IH n. rewrite copy_t_unfold. cbn [fst pre]. constructor; [reflexivity|apply IH].
  - constructor.
  - intros t f IHt IHf n. rewrite copy_f_cons. cbn [fst flat_map]. apply Forall_app. split; [apply IHt|apply IHf].
Qed.

(* plain copies: no kinds at all *)
Lemma copy_plain_kinds :
  (forall t n, Forall (fun x => rkind x = None) (pre (fst (copy_t false None n t)))) /\
  (forall f n, Forall (fun x => rkind x = None) (pre_f (fst (copy_f false None n f)))).
Proof.
  apply rt_forest_ind.
  - intros id i ch IH n. rewrite copy_t_unfold. cbn [fst pre]. constructor; [reflexivity|apply IH].
  - constructor.
  - intros t f IHt IHf n. rewrite copy_f_cons. cbn [fst flat_map]. apply Forall_app. split; [apply IHt|apply IHf].
Qed.

Lemma size_f_pre f : length (pre_f f) = size_f f.
Proof.
  induction f as [|t f IH]; [reflexivity|]. cbn [flat_map]. rewrite app_length, size_pre, IH.
  now rewrite size_f_cons.
Qed.

Lemma size_ids_t t : length (ids_t t) = size t.
Proof. unfold ids_t. now rewrite map_length, size_pre. Qed.

(* ------------------------------------------------------------------ *)
(* Part 2: elementary reading of "equal after stripping" *)

(* the pre-order list of payloads *)
Definition infos (t : rt) : list info := map rinfo (pre t).
Definition infos_f (f : forest) : list info := map rinfo (pre_f f).

(* shape without anything else *)
Fixpoint shape (t : rt) : rt := match t with T _ _ ch => T 0 dummy_info (map shape ch) end.

Lemma strip_pre kk :
  (forall t, map rinfo (pre (strip_ids kk t)) = map (strip_info kk) (infos t)) /\
  (forall f, map rinfo (pre_f (map (strip_ids kk) f)) = map (strip_info kk) (infos_f f)).
Proof.
  apply rt_forest_ind.
  - intros id i ch IH. cbn [strip_ids pre infos map rinfo]. f_equal. exact IH.
  - reflexivity.
  - intros t f IHt IHf. cbn [map flat_map]. unfold infos_f. cbn [flat_map]. rewrite !map_app.
    unfold infos in IHt. unfold infos_f in IHf. now rewrite IHt, IHf.
Qed.

Lemma strip_shape kk :
  (forall t, shape (strip_ids kk t) = shape t) /\
  (forall f, map shape (map (strip_ids kk) f) = map shape f).
Proof.
  apply rt_forest_ind.
  - intros id i ch IH. cbn [strip_ids shape]. now rewrite IH.
  - reflexivity.
  - intros t f IHt IHf. cbn [map]. now rewrite IHt, IHf.
Qed.

(* what a stripped equality says, spelled out: in pre-order the two branches
   have the same data objects, the same equality classes / hashes / names, the
   same data_ids, (typed) the same kinds, and the same shape - hence the same
   child order everywhere *)
Lemma map_through {A B C} (s : A -> B) (g : B -> C) (h : A -> C) l1 l2 :
  (forall x, g (s x) = h x) -> map s l1 = map s l2 -> map h l1 = map h l2.
Proof.
  intros Hg E. rewrite <- (map_ext _ _ Hg l1), <- (map_ext _ _ Hg l2).
  rewrite <- (map_map s g l1), <- (map_map s g l2). now rewrite E.
Qed.

Theorem strip_eq_spelled kk a b : strip_ids kk a = strip_ids kk b ->
  map i_obj (infos a) = map i_obj (infos b) /\
  map i_did (infos a) = map i_did (infos b) /\
  map i_name (infos a) = map i_name (infos b) /\
  (kk = true -> map i_kind (infos a) = map i_kind (infos b)) /\
  shape a = shape b /\ size a = size b.
Proof.
  intros E.
  assert (E1 : map (strip_info kk) (infos a) = map (strip_info kk) (infos b)).
  { rewrite <- !(proj1 (strip_pre kk)). now rewrite E. }
  refine (conj _ (conj _ (conj _ (conj _ (conj _ _))))).
  - apply (map_through (strip_info kk) i_obj); [reflexivity|exact E1].
  - apply (map_through (strip_info kk) i_did); [reflexivity|exact E1].
  - apply (map_through (strip_info kk) i_name); [reflexivity|exact E1].
  - intros ->. apply (map_through (strip_info true) i_kind); [reflexivity|exact E1].
  - rewrite <- (proj1 (strip_shape kk) a), <- (proj1 (strip_shape kk) b). now rewrite E.
  - rewrite <- !size_pre. apply (f_equal (@length _)) in E1. rewrite !map_length in E1.
    unfold infos in E1. now rewrite !map_length in E1.
Qed.

(* the children of the two tops correspond one to one, in order *)
Lemma strip_eq_children kk a b : strip_ids kk a = strip_ids kk b ->
  map (strip_ids kk) (rch a) = map (strip_ids kk) (rch b).
Proof. destruct a, b. cbn. intros E. now injection E. Qed.

Lemma strip_map_Forall2 kk : forall a b, map (strip_ids kk) a = map (strip_ids kk) b ->
  Forall2 (fun x y => strip_ids kk x = strip_ids kk y) a b.
Proof.
  induction a as [|x a IH]; intros [|y b] E; try discriminate; constructor.
  - now injection E.
  - apply IH. now injection E.
Qed.

(* sibling uniqueness only reads data_ids and shape *)
Lemma rdid_strip kk t : rdid (strip_ids kk t) = rdid t.
Proof. now destruct t. Qed.

Lemma map_rdid_strip kk f : map rdid (map (strip_ids kk) f) = map rdid f.
Proof. rewrite map_map. apply map_ext. apply rdid_strip. Qed.

Lemma su_tb_strip kk : forall t, su_tb (strip_ids kk t) = su_tb t.
Proof.
  induction t as [id i ch IH] using rt_ind'. cbn [strip_ids su_tb]. rewrite map_rdid_strip. f_equal.
  induction IH as [|c ch Hc _ IHch]; [reflexivity|]. cbn [map forallb]. now rewrite Hc, IHch.
Qed.

Lemma su_b_strip kk f : su_b (map (strip_ids kk) f) = su_b f.
Proof.
  unfold su_b. rewrite map_rdid_strip. f_equal.
  induction f as [|c f IH]; [reflexivity|]. cbn [map forallb]. now rewrite su_tb_strip, IH.
Qed.

Lemma SU_strip_eq kk a b : map (strip_ids kk) a = map (strip_ids kk) b -> SU a -> SU b.
Proof. intros E H. apply su_b_SU. rewrite <- (su_b_strip kk b), <- E, su_b_strip. now apply su_b_SU. Qed.

Lemma copy_f_size kk dk f n : size_f (fst (copy_f kk dk n f)) = size_f f.
Proof.
  rewrite <- (size_f_pre (fst _)), <- length_ids, copy_f_ids. apply seq_length.
Qed.

(* ------------------------------------------------------------------ *)
(* Part 3: one operation, one copy *)

(* [x] is the copy of [s] made at identity [n]: the top node has the data
   object and the data_id of [s], kind [topk] and no metadata; below it (deep)
   the branch of [s] with new identities, or (shallow) nothing *)
Record is_copy (ty deep : bool) (topk : kind) (n : nat) (s x : rt) : Prop := {
  ic_id   : rid x = n;
  ic_info : rinfo x = I (i_obj (rinfo s)) (i_eqc (rinfo s)) (i_hash (rinfo s)) (i_isstr (rinfo s))
                        (i_name (rinfo s)) (rdid s) topk [];
  ic_kids : map (strip_ids ty) (rch x) = if deep then map (strip_ids ty) (rch s) else [];
  ic_ids  : ids_t x = seq n (if deep then size s else 1);
  ic_meta : Forall no_meta (pre x)
}.

(* a block of consecutive rows inserted, everything else in place *)
Definition ins_rows (blk : list row) (l l' : list row) : Prop :=
  exists A B, l = A ++ B /\ l' = A ++ blk ++ B.

Lemma size_unfold s : size s = S (size_f (rch s)).
Proof. now destruct s. Qed.

Lemma is_copy_size ty deep topk n s x : is_copy ty deep topk n s x -> size x = if deep then size s else 1.
Proof.
  intros H. rewrite <- size_ids_t, (ic_ids _ _ _ _ _ _ H), seq_length. reflexivity.
Qed.

Lemma get_put_same' w ti t t' n :
  get_tree w ti = Some t -> get_tree (put_tree (W (trees w) n) ti t') ti = Some t'.
Proof. intros H. now apply (get_put_same (W (trees w) n) ti t). Qed.

Lemma get_put_other' w ti tj t' n : ti <> tj -> get_tree (put_tree (W (trees w) n) ti t') tj = get_tree w tj.
Proof. intros H. now rewrite (get_put_other (W (trees w) n)). Qed.

Definition deep_of (deep : option bool) : bool := match deep with Some x => x | None => false end.

(* -- add_child(node) and copy_to(add_self=True) -- *)
Theorem add_node_effect w ti p sti src e k b deep r w' :
  op_add_node w ti p sti src e k b deep = (Ok r, w') ->
  exists t st s pq ch x t',
    get_tree w ti = Some t /\ get_tree w sti = Some st /\ get_tree w' ti = Some t' /\
    get_node src (forest_of st) = Some s /\
    parent_path p (forest_of t) = Some pq /\ get_ch pq (forest_of t) = Some ch /\
    typed t = typed st /\
    r = [next w] /\
    is_copy (typed t) (deep_of deep) (default_kind t k) (next w) s x /\
    next w' = next w + size x /\
    get_ch pq (forest_of t') = Some (place (norm_before b) x ch) /\
    ins_rows (rows_t p x) (rows 0 (forest_of t)) (rows 0 (forest_of t')) /\
    forest_of t' = upd_ch pq (place (norm_before b) x) (forest_of t) /\
    typed t' = typed t /\ calc t' = calc t /\
    before_ok (norm_before b) ch = true /\
    (forall tj, tj <> ti -> get_tree w' tj = get_tree w tj).
Proof.
  unfold op_add_node. intros H.
  destruct (get_tree w ti) as [t|] eqn:Et; [|discriminate].
  destruct (get_tree w sti) as [st|] eqn:Est; [|discriminate].
  destruct (get_node src (forest_of st)) as [s|] eqn:Es; [|discriminate].
  destruct (parent_path p (forest_of t)) as [pq|] eqn:Ep; [|discriminate].
  destruct (get_ch pq (forest_of t)) as [ch|] eqn:Ec; [|discriminate].
  destruct (typed t && negb (typed st)) eqn:Ety1; [discriminate|].
  fold (deep_of deep) in H. set (dp := deep_of deep) in *.
  destruct (dp && match e with Some _ => true | None => false end); [discriminate|].
  destruct (Nat.eqb ti sti && _); [discriminate|].
  destruct (match e with Some e0 => negb (did_eqb e0 (rdid s)) | None => false end) eqn:Ee; [discriminate|].
  destruct (dp && Nat.eqb ti sti && is_desc_or_self src p (forest_of st)); [discriminate|].
  destruct (negb (before_ok (norm_before b) ch)) eqn:Ebo; [discriminate|].
  apply negb_false_iff in Ebo.
  destruct (negb (typed t) && typed st) eqn:Ety2; [discriminate|].
  assert (Eid : match e with Some e0 => e0 | None => rdid s end = rdid s).
  { destruct e as [e0|]; [|reflexivity]. apply negb_false_iff, did_eqb_eq in Ee. exact Ee. }
  rewrite Eid in H.
  destruct (collides t p (rdid s)); [discriminate|].
  set (n := next w) in *.
  set (kn := if dp then copy_f (typed t) None (S n) (rch s) else ([], S n)) in H.
  destruct kn as [kids n'] eqn:Ekn.
  set (x := T n (I (i_obj (rinfo s)) (i_eqc (rinfo s)) (i_hash (rinfo s)) (i_isstr (rinfo s))
                   (i_name (rinfo s)) (rdid s) (default_kind t k) []) kids) in *.
  destruct (register_all (pre x) (reg t) (idx t)) as [r' ix'] eqn:Er.
  injection H as <- <-.
  set (t' := set_all t (upd_ch pq (place (norm_before b) x) (forest_of t)) r' ix').
  assert (Ek : map (strip_ids (typed t)) kids = (if dp then map (strip_ids (typed t)) (rch s) else []) /\
               ids kids = seq (S n) (if dp then size_f (rch s) else 0) /\
               n' = S n + (if dp then size_f (rch s) else 0) /\ Forall no_meta (pre_f kids)).
  { subst kn. destruct dp.
    - assert (kids = fst (copy_f (typed t) None (S n) (rch s))) as -> by now rewrite Ekn.
      assert (n' = snd (copy_f (typed t) None (S n) (rch s))) as -> by now rewrite Ekn.
      refine (conj (copy_f_faithful _ _ _) (conj (copy_f_ids _ _ _ _) (conj (copy_f_next _ _ _ _) _))).
      apply copy_no_meta.
    - injection Ekn as <- <-. refine (conj eq_refl (conj eq_refl (conj _ _))); [lia|constructor]. }
  destruct Ek as (Ek1 & Ek2 & Ek3 & Ek4).
  assert (Hc : is_copy (typed t) dp (default_kind t k) n s x).
  { constructor; try reflexivity.
    - exact Ek1.
    - rewrite ids_t_unfold. cbn [rid rch x]. rewrite Ek2. destruct dp; [now rewrite size_unfold|reflexivity].
    - cbn [pre x]. constructor; [reflexivity|exact Ek4]. }
  exists t, st, s, pq, ch, x, t'.
  refine (conj eq_refl (conj eq_refl (conj _ (conj Es (conj Ep (conj Ec (conj _ (conj eq_refl
          (conj Hc (conj _ (conj _ (conj _ (conj eq_refl (conj eq_refl (conj eq_refl (conj Ebo _)))))))))))))))).
  - now apply (get_put_same' w ti t).
  - apply andb_false_iff in Ety1, Ety2. destruct (typed t), (typed st); cbn in *; try reflexivity;
      destruct Ety1, Ety2; discriminate.
  - cbn [next put_tree]. rewrite (is_copy_size _ _ _ _ _ _ Hc), Ek3. fold n.
    destruct dp; [rewrite size_unfold|]; lia.
  - cbn [forest_of t' set_all]. now apply get_ch_upd_ch.
  - cbn [forest_of t' set_all].
    destruct (upd_ch_context pq (forest_of t) 0 ch Ec) as (A & B & E1 & E2).
    rewrite (parent_path_owner p _ pq ch Ep Ec) in E1, E2.
    destruct (place_split (norm_before b) x ch) as (a & c & Ea & Eb).
    exists (A ++ rows p a), (rows p c ++ B). split.
    + rewrite E1, Ea, rows_app. la.
    + rewrite E2, Eb, rows_app. cbn [flat_map]. la.
  - intros tj Hj. now rewrite get_put_other' by congruence.
Qed.

(* the registry and index of a freshly built tree *)
Lemma IdxOK_nil : IdxOK [] [].
Proof. repeat split; constructor. Qed.

Lemma register_fresh kids r' ix' :
  register_all (pre_f kids) [] [] = (r', ix') -> r' = ids kids /\ IdxOK ix' (keys kids).
Proof.
  rewrite register_all_eq. intros E. injection E as <- <-. split; [reflexivity|].
  pose proof (register_all_ok (pre_f kids) [] [] IdxOK_nil) as H. now rewrite app_nil_r in H.
Qed.

Lemma seq_not_in_0 n k : 0 < n -> ~ In 0 (seq n k).
Proof. intros H Hin. apply in_seq in Hin. lia. Qed.

(* a new tree holding a faithful copy of a well-formed forest is well-formed *)
Lemma WF_fresh_copy ty kids rg ix src n c :
  map (strip_ids ty) kids = map (strip_ids ty) src -> SU src ->
  ids kids = seq n (size_f src) -> 0 < n -> rg = ids kids -> IdxOK ix (keys kids) ->
  WF (TS kids rg ix ty c).
Proof.
  intros Es Hsu Ei Hn -> (I1 & I2 & I3). constructor; cbn [forest_of reg idx].
  - rewrite Ei. apply seq_NoDup.
  - rewrite Ei. now apply seq_not_in_0.
  - reflexivity.
  - exact I1.
  - exact I2.
  - exact I3.
  - apply (SU_strip_eq ty src); [now symmetry|exact Hsu].
Qed.

(* -- Tree.copy() -- *)
Theorem tree_copy_effect w sti r w' :
  op_tree_copy w sti = (Ok r, w') ->
  exists st kids rg ix,
    get_tree w sti = Some st /\ r = [length (trees w)] /\
    trees w' = trees w ++ [TS kids rg ix (typed st) None] /\
    map (strip_ids (typed st)) kids = map (strip_ids (typed st)) (forest_of st) /\
    ids kids = seq (next w) (size_f (forest_of st)) /\
    Forall no_meta (pre_f kids) /\
    next w' = next w + size_f (forest_of st) /\
    rg = ids kids /\ IdxOK ix (keys kids).
Proof.
  unfold op_tree_copy. intros H.
  destruct (get_tree w sti) as [st|] eqn:Est; [|discriminate].
  destruct (copy_f (typed st) None (next w) (forest_of st)) as [kids n'] eqn:Ek.
  destruct (register_all (pre_f kids) [] []) as [r' ix'] eqn:Er.
  injection H as <- <-.
  assert (kids = fst (copy_f (typed st) None (next w) (forest_of st))) as Ekids by now rewrite Ek.
  assert (n' = snd (copy_f (typed st) None (next w) (forest_of st))) as En by now rewrite Ek.
  destruct (register_fresh kids r' ix' Er) as (Hr & Hix).
  exists st, kids, r', ix'.
  refine (conj eq_refl (conj eq_refl (conj eq_refl (conj _ (conj _ (conj _ (conj _ (conj Hr Hix)))))))).
  - rewrite Ekids. apply copy_f_faithful.
  - rewrite Ekids. apply copy_f_ids.
  - rewrite Ekids. apply copy_no_meta.
  - cbn [next]. rewrite En. apply copy_f_next.
Qed.

(* Tree.copy() always succeeds on an existing tree *)
Lemma tree_copy_total w sti st : get_tree w sti = Some st -> exists w', op_tree_copy w sti = (Ok [length (trees w)], w').
Proof.
  intros H. unfold op_tree_copy. rewrite H.
  destruct (copy_f (typed st) None (next w) (forest_of st)) as [kids n'].
  destruct (register_all (pre_f kids) [] []) as [r' ix']. eexists. reflexivity.
Qed.

(* -- Node.copy(add_self) -- *)
Theorem node_copy_effect w sti src add_self r w' :
  op_node_copy w sti src add_self = (Ok r, w') ->
  exists st s kids rg ix,
    get_tree w sti = Some st /\ get_node src (forest_of st) = Some s /\ r = [length (trees w)] /\
    trees w' = trees w ++ [TS kids rg ix (typed st) None] /\
    (if add_self
     then exists x, kids = [x] /\ is_copy (typed st) true (default_kind st None) (next w) s x
     else map (strip_ids (typed st)) kids = map (strip_ids (typed st)) (rch s) /\
          ids kids = seq (next w) (size_f (rch s))) /\
    Forall no_meta (pre_f kids) /\
    next w' = next w + (if add_self then size s else size_f (rch s)) /\
    rg = ids kids /\ IdxOK ix (keys kids).
Proof.
  unfold op_node_copy. intros H.
  destruct (get_tree w sti) as [st|] eqn:Est; [|discriminate].
  destruct (get_node src (forest_of st)) as [s|] eqn:Es; [|discriminate].
  destruct (copy_f (typed st) None (next w) (if add_self then [s] else rch s)) as [kids0 n'] eqn:Ek.
  set (kids := if add_self && typed st then map _ kids0 else kids0) in H.
  destruct (register_all (pre_f kids) [] []) as [r' ix'] eqn:Er.
  injection H as <- <-.
  assert (Ekids : kids0 = fst (copy_f (typed st) None (next w) (if add_self then [s] else rch s))) by now rewrite Ek.
  assert (En : n' = snd (copy_f (typed st) None (next w) (if add_self then [s] else rch s))) by now rewrite Ek.
  destruct (register_fresh kids r' ix' Er) as (Hr & Hix).
  exists st, s, kids, r', ix'.
  refine (conj eq_refl (conj Es (conj eq_refl (conj eq_refl (conj _ (conj _ (conj _ (conj Hr Hix)))))))).
  - destruct add_self.
    + rewrite copy_f_cons in Ekids. cbn [fst copy_f] in Ekids.
      pose proof (copy_t_faithful (typed st) s (next w)) as Hf.
      pose proof (copy_t_ids (typed st) None s (next w)) as Hi.
      pose proof (proj1 (copy_no_meta (typed st) None) s (next w)) as Hm.
      pose proof (proj1 copy_plain_kinds s (next w)) as Hk.
      destruct s as [sid si sch]. rewrite copy_t_unfold in *. cbn [fst] in *.
      set (c := fst (copy_f (typed st) None (S (next w)) sch)) in *.
      destruct (typed st) eqn:Ety; cbn [andb] in kids; subst kids kids0; cbn [map].
      * eexists. split; [reflexivity|]. constructor; try reflexivity.
        -- cbn [rch]. cbn [strip_ids] in Hf. now injection Hf.
        -- exact Hi.
        -- cbn [pre] in *. inversion Hm as [|? ? H1 H2]; subst. constructor; [reflexivity|exact H2].
      * eexists. split; [reflexivity|]. constructor; try reflexivity.
        -- unfold default_kind. rewrite Ety. reflexivity.
        -- cbn [rch]. cbn [strip_ids] in Hf. now injection Hf.
        -- exact Hi.
        -- exact Hm.
    + cbn [andb] in kids. subst kids kids0. split; [apply copy_f_faithful|apply copy_f_ids].
  - assert (Hm0 : Forall no_meta (pre_f kids0)) by (rewrite Ekids; apply copy_no_meta).
    subst kids. destruct (add_self && typed st); [|exact Hm0].
    clear -Hm0. induction kids0 as [|[id i ch] l IH]; [constructor|]. cbn [map flat_map pre] in *.
    inversion Hm0 as [|? ? H1 H2]; subst. constructor; [exact H1|].
    apply Forall_app in H2. destruct H2 as [H2 H3]. apply Forall_app. split; [exact H2|now apply IH].
  - cbn [next]. rewrite En, copy_f_next. destruct add_self; [rewrite size_f_cons; cbn; lia|reflexivity].
Qed.

(* ------------------------------------------------------------------ *)
(* Part 5: histories - source and copy are independent *)

(* the existing tree an operation works on ([None]: it only creates a new tree) *)
Definition op_tree (o : op) : option nat :=
  match o with
  | OAdd ti _ _ _ _ _ | OShort ti _ _ _ _ _ | OAddNode ti _ _ _ _ _ _ _ | OAddTree ti _ _ _ _
  | OCopyTo _ _ ti _ _ _ _ | OMove ti _ _ _ _ | ORemove ti _ _ _ | ORemoveChildren ti _
  | OSort ti _ _ _ _ | OSetData ti _ _ _ _ | ORename ti _ _ | OMeta ti _ _ | OClear ti | ODel ti _
  | OFilter ti _ _ | OFromDict ti _ _ => Some ti
  | OTreeCopy _ | ONodeCopy _ _ _ | ONewTree _ _ | OTreeFromDict _ => None
  end.

(* the tree an operation reads its copy source from *)
Definition op_reads (o : op) : option nat :=
  match o with
  | OAddNode _ _ sti _ _ _ _ _ | OAddTree _ _ sti _ _ | OCopyTo sti _ _ _ _ _ _
  | OTreeCopy sti | ONodeCopy sti _ _ => Some sti
  | _ => None
  end.

Lemma op_target_tree w o : op_target w o = match op_tree o with Some ti => ti | None => length (trees w) end.
Proof. destruct o; reflexivity. Qed.

(* one step: every tree the operation does not work on is exactly as before *)
Theorem step_other_tree w o b :
  b < length (trees w) -> op_tree o <> Some b -> get_tree (snd (step w o)) b = get_tree w b.
Proof.
  intros Hb Hn. destruct (step_frame_trees w o) as (_ & H). apply H; [|exact Hb].
  rewrite op_target_tree. destruct (op_tree o) as [ti|]; [congruence|lia].
Qed.

Lemma step_length w o : length (trees w) <= length (trees (snd (step w o))).
Proof. apply (step_frame_trees w o). Qed.

(* reading a copy source does not modify it *)
Theorem reading_does_not_modify w o s :
  op_reads o = Some s -> op_tree o <> Some s -> s < length (trees w) ->
  get_tree (snd (step w o)) s = get_tree w s.
Proof. intros _ Hn Hs. now apply step_other_tree. Qed.

(* histories: any sequence of operations, none of which works on tree b *)
Theorem run_other_tree : forall ops w b,
  b < length (trees w) -> Forall (fun o => op_tree o <> Some b) ops ->
  get_tree (run ops w) b = get_tree w b.
Proof.
  unfold run. induction ops as [|o ops IH]; intros w b Hb Hf; [reflexivity|]. cbn [fold_left].
  inversion Hf as [|? ? H1 H2]; subst.
  rewrite IH; [now apply step_other_tree| |exact H2].
  pose proof (step_length w o). lia.
Qed.

(* the observation of a tree: forest (identities, data objects, data_ids, kinds,
   metadata, child order), registry order, index *)
Definition obs_tree (w : world) (b : nat) : option sx := option_map sx_tstate (get_tree w b).

Corollary run_other_obs ops w b :
  b < length (trees w) -> Forall (fun o => op_tree o <> Some b) ops -> obs_tree (run ops w) b = obs_tree w b.
Proof. intros Hb Hf. unfold obs_tree. now rewrite run_other_tree. Qed.

(* after ANY copy step from tree s into another tree c (an existing one: add(node),
   add(tree), copy_to; or the new one made by Tree.copy / Node.copy), whatever the
   outcome: the source is as before; every later history on c (and on any tree but s)
   leaves the source unchanged; every later history on s (and on any tree but c)
   leaves the copy unchanged *)
Theorem copy_independent w o s c w1 :
  op_reads o = Some s -> s < length (trees w) ->
  c = op_target w o -> c <> s -> w1 = snd (step w o) ->
  get_tree w1 s = get_tree w s /\
  (forall ops, Forall (fun o' => op_tree o' <> Some s) ops -> get_tree (run ops w1) s = get_tree w s) /\
  (forall ops, c < length (trees w1) -> Forall (fun o' => op_tree o' <> Some c) ops ->
               get_tree (run ops w1) c = get_tree w1 c).
Proof.
  intros Hr Hs -> Hc ->.
  assert (Hn : op_tree o <> Some s).
  { rewrite op_target_tree in Hc. destruct (op_tree o) as [ti|]; congruence. }
  assert (E : get_tree (snd (step w o)) s = get_tree w s) by now apply step_other_tree.
  refine (conj E (conj _ _)).
  - intros ops Hf. rewrite run_other_tree; [exact E| |exact Hf]. pose proof (step_length w o). lia.
  - intros ops Hl Hf. now apply run_other_tree.
Qed.

(* Tree.copy() / Node.copy(): the new tree is the last one *)
Lemma new_tree_target w o : op_tree o = None -> op_target w o = length (trees w).
Proof. intros H. now rewrite op_target_tree, H. Qed.

Corollary tree_copy_independent w s c w1 :
  step w (OTreeCopy s) = (Ok [c], w1) ->
  c = length (trees w) /\ s < c /\ c < length (trees w1) /\
  get_tree w1 s = get_tree w s /\
  (forall ops, Forall (fun o' => op_tree o' <> Some s) ops -> get_tree (run ops w1) s = get_tree w s) /\
  (forall ops, Forall (fun o' => op_tree o' <> Some c) ops -> get_tree (run ops w1) c = get_tree w1 c).
Proof.
  intros H. cbn [step] in H.
  destruct (tree_copy_effect w s _ _ H) as (st & kids & rg & ix & Est & Er & Et & _).
  injection Er as ->.
  assert (Hs : s < length (trees w)) by (apply nth_error_Some; unfold get_tree in Est; congruence).
  assert (Hl : length (trees w) < length (trees w1)) by (rewrite Et, app_length; cbn; lia).
  destruct (copy_independent w (OTreeCopy s) s (length (trees w)) w1 eq_refl Hs eq_refl) as (E1 & E2 & E3).
  - lia.
  - cbn [step]. now rewrite H.
  - refine (conj eq_refl (conj Hs (conj Hl (conj E1 (conj E2 _))))). intros ops Hf. now apply E3.
Qed.
