(* Heap refinement: remove_children, remove() *)
From Coq Require Import List ZArith Bool Arith Lia Permutation.
From NT Require Import Sx Rose ListFacts RoseFacts Surgery SurgeryFacts Machine WF MachineFacts PreserveSteps PreserveOps Heap HeapProofs.
Import ListNotations.

(* ---- the order of unregistering does not show ---- *)
Lemma remove_first_comm n n' l : remove_first n (remove_first n' l) = remove_first n' (remove_first n l).
Proof.
  induction l as [|x l IH]; [reflexivity|]. cbn [remove_first].
  destruct (Nat.eqb x n') eqn:E1; destruct (Nat.eqb x n) eqn:E2; cbn [remove_first]; rewrite ?E1, ?E2; try reflexivity.
  - apply Nat.eqb_eq in E1, E2. subst. reflexivity.
  - now rewrite IH.
Qed.

Lemma remove_first_nil_comm n n' l : remove_first n' l = [] -> remove_first n' (remove_first n l) = [].
Proof.
  destruct l as [|x [|y l]]; cbn; intros H; try reflexivity.
  - destruct (Nat.eqb x n); cbn; [reflexivity|exact H].
  - destruct (Nat.eqb x n'); discriminate.
Qed.

Definition piece (d : did) (n : nat) (e : did * list nat) : idxt :=
  if did_eqb (fst e) d then match remove_first n (snd e) with [] => [] | l => [(fst e, l)] end else [e].

Lemma idx_del_flat_map d n ix : idx_del d n ix = flat_map (piece d n) ix.
Proof. reflexivity. Qed.

Lemma flat_map_flat_map {X Y Z} (g : Y -> list Z) (h : X -> list Y) l :
  flat_map g (flat_map h l) = flat_map (fun x => flat_map g (h x)) l.
Proof. induction l as [|x l IH]; [reflexivity|]. cbn. now rewrite flat_map_app, IH. Qed.

Lemma piece_comm d n d' n' e : flat_map (piece d n) (piece d' n' e) = flat_map (piece d' n') (piece d n e).
Proof.
  destruct e as [k l]. unfold piece at 2 4. cbn [fst snd].
  destruct (did_eqb k d') eqn:E1; destruct (did_eqb k d) eqn:E2.
  - (* both *)
    assert (A : forall m m' , flat_map (piece d m) (match remove_first m' l with [] => [] | l0 => [(k, l0)] end)
                = match remove_first m (remove_first m' l) with [] => [] | l0 => [(k, l0)] end).
    { intros m m'. destruct (remove_first m' l) as [|y l0] eqn:R; [reflexivity|]. cbn [flat_map]. unfold piece. cbn [fst snd].
      rewrite E2, app_nil_r. reflexivity. }
    assert (B : forall m m' , flat_map (piece d' m) (match remove_first m' l with [] => [] | l0 => [(k, l0)] end)
                = match remove_first m (remove_first m' l) with [] => [] | l0 => [(k, l0)] end).
    { intros m m'. destruct (remove_first m' l) as [|y l0] eqn:R; [reflexivity|]. cbn [flat_map]. unfold piece. cbn [fst snd].
      rewrite E1, app_nil_r. reflexivity. }
    rewrite A, B, remove_first_comm. reflexivity.
  - cbn [flat_map]. unfold piece. cbn [fst snd]. rewrite E1. destruct (remove_first n' l) as [|y l0]; cbn [flat_map app fst snd]; rewrite ?E2; reflexivity.
  - cbn [flat_map]. unfold piece. cbn [fst snd]. rewrite E2. destruct (remove_first n l) as [|y l0]; cbn [flat_map app fst snd]; rewrite ?E1; reflexivity.
  - cbn [flat_map]. unfold piece. cbn [fst snd]. now rewrite E1, E2.
Qed.

Lemma idx_del_comm d n d' n' ix : idx_del d n (idx_del d' n' ix) = idx_del d' n' (idx_del d n ix).
Proof.
  rewrite !idx_del_flat_map, !flat_map_flat_map. apply flat_map_ext. intros e. apply piece_comm.
Qed.

Lemma reg_del_comm n n' r : reg_del n (reg_del n' r) = reg_del n' (reg_del n r).
Proof.
  unfold reg_del. induction r as [|x r IH]; [reflexivity|]. cbn.
  destruct (negb (Nat.eqb x n')) eqn:E1; destruct (negb (Nat.eqb x n)) eqn:E2; cbn; rewrite ?E1, ?E2, ?IH; reflexivity.
Qed.

Lemma fold_perm {S X} (g : S -> X -> S) : (forall s a b, g (g s a) b = g (g s b) a) ->
  forall l1 l2, Permutation l1 l2 -> forall s, fold_left g l1 s = fold_left g l2 s.
Proof.
  intros C l1 l2 P. induction P as [|x l1 l2 P IH|x y l|l1 l2 l3 P1 IH1 P2 IH2]; intros s; cbn [fold_left]; auto.
  - now rewrite C.
  - now rewrite IH1.
Qed.

(* ---- what a run of Tree._unregister does to the heap ---- *)
Lemma unreg_fold : forall L h,
  let h' := fold_left h_unregister L h in
  (forall x, hinf h' x = hinf h x) /\ hall h' = hall h /\ htyped h' = htyped h /\ hcalc h' = hcalc h /\
  (forall x, hpar h' x = if memn x L then None else hpar h x) /\
  (forall x, htr h' x = if memn x L then false else htr h x) /\
  (forall x, hch h' x = if memn x L then [] else hch h x) /\
  hreg h' = fold_left (fun r m => reg_del m r) L (hreg h) /\
  hidx h' = fold_left (fun ix m => idx_del (hdid h m) m ix) L (hidx h).
Proof.
  induction L as [|m L IH]; intros h; cbn [fold_left].
  - cbn. repeat split; reflexivity.
  - destruct (IH (h_unregister h m)) as (I1 & I2 & I3 & I4 & I5 & I6 & I7 & I8 & I9).
    cbn [h_unregister set_regidx set_chl set_par set_tr hinf hall htyped hcalc hpar htr hch hreg hidx] in *.
    refine (conj I1 (conj I2 (conj I3 (conj I4 (conj _ (conj _ (conj _ (conj I8 _)))))))).
    + intros x. rewrite I5. cbn [memn existsb]. unfold upd. rewrite (Nat.eqb_sym x m). destruct (Nat.eqb m x) eqn:E; cbn [orb].
      * apply Nat.eqb_eq in E. subst. now destruct (memn x L).
      * reflexivity.
    + intros x. rewrite I6. cbn [memn existsb]. unfold upd. rewrite (Nat.eqb_sym x m). destruct (Nat.eqb m x) eqn:E; cbn [orb].
      * apply Nat.eqb_eq in E. subst. now destruct (memn x L).
      * reflexivity.
    + intros x. rewrite I7. cbn [memn existsb]. unfold upd. rewrite (Nat.eqb_sym x m). destruct (Nat.eqb m x) eqn:E; cbn [orb].
      * apply Nat.eqb_eq in E. subst. now destruct (memn x L).
      * reflexivity.
    + rewrite I9. unfold hdid. cbn [hinf]. reflexivity.
Qed.

(* ---- post-order walk over the pointers = post-order of the forest value ---- *)
Fixpoint post_t (t : rt) : list nat := match t with T id _ ch => flat_map post_t ch ++ [id] end.
Notation post_f := (flat_map post_t).

Lemma post_perm : (forall t, Permutation (post_t t) (ids_t t)) /\ (forall f, Permutation (post_f f) (ids f)).
Proof.
  apply rt_forest_ind.
  - intros id i ch IH. cbn [post_t]. rewrite ids_t_unfold. cbn [rid rch]. rewrite <- IH. symmetry. apply Permutation_cons_append.
  - reflexivity.
  - intros t f IHt IHf. cbn [flat_map]. change (t :: f) with ([t] ++ f). rewrite ids_app, ids_single. now apply Permutation_app.
Qed.

Lemma kids_node :
  (forall t o s, NoDup (ids_t t) -> ~ In o (ids_t t) -> In s (pre t) -> kids (rid s) (rows_t o t) = map rid (rch s)) /\
  (forall f o s, NoDup (ids f) -> ~ In o (ids f) -> In s (pre_f f) -> kids (rid s) (rows o f) = map rid (rch s)).
Proof.
  apply rt_forest_ind.
  - intros id i ch IH o s ND No Hs. rewrite ids_t_unfold in ND, No. cbn [rid rch] in ND, No.
    inversion ND as [|x xs Nid NDc]; subst. cbn [rows_t]. rewrite kids_cons. cbn [r_par fst snd].
    cbn [pre] in Hs. destruct Hs as [<-|Hs].
    + cbn [rid rch]. replace (Nat.eqb o id) with false by (symmetry; apply Nat.eqb_neq; intros ->; apply No; now left).
      cbn [app]. now apply kids_top.
    + assert (Hin : In (rid s) (ids ch)) by (unfold ids; now apply in_map).
      replace (Nat.eqb o (rid s)) with false by (symmetry; apply Nat.eqb_neq; intros ->; apply No; now right).
      cbn [app]. now apply IH.
  - intros o s _ _ [].
  - intros t f IHt IHf o s ND No Hs. change (t :: f) with ([t] ++ f) in ND, No. rewrite ids_app, ids_single in ND, No.
    cbn [flat_map] in *. rewrite kids_app. apply in_app_or in Hs. destruct Hs as [Hs|Hs].
    + rewrite (IHt o s (NoDup_app_l _ _ ND)); [|intros X; apply No, in_or_app; now left|assumption].
      rewrite kids_none; [now rewrite app_nil_r|]. intros r Hr E. apply rows_par in Hr.
      assert (Hin : In (rid s) (ids_t t)) by (unfold ids_t; now apply in_map).
      destruct Hr as [Hr|Hr]; [apply No, in_or_app; left; congruence|]. apply (NoDup_app_disj _ _ (rid s) ND Hin). congruence.
    + rewrite (IHf o s (NoDup_app_r _ _ ND)); [|intros X; apply No, in_or_app; now right|assumption].
      rewrite kids_none; [reflexivity|]. intros r Hr E.
      assert (Hin : In (rid s) (ids f)) by (unfold ids; now apply in_map).
      destruct (rows_par_t t o r Hr) as [X|X]; [apply No, in_or_app; right; congruence|].
      rewrite rows_ids_t in X. apply (NoDup_app_disj _ _ (rid s) ND); [congruence|assumption].
Qed.

Lemma rep_node_children h t s : WF t -> Rep h t -> In s (pre_f (forest_of t)) -> hch h (rid s) = map rid (rch s).
Proof.
  intros W R Hs. rewrite (rep_ch h t R). apply (proj2 kids_node); [apply W|apply W|assumption].
Qed.

Lemma flat_map_map {X Y Z} (g : Y -> list Z) (h : X -> Y) l : flat_map g (map h l) = flat_map (fun x => g (h x)) l.
Proof. induction l as [|x l IH]; [reflexivity|]. cbn. now rewrite IH. Qed.

Lemma flat_map_ext_in' {X Y} (g h : X -> list Y) l : (forall x, In x l -> g x = h x) -> flat_map g l = flat_map h l.
Proof. induction l as [|x l IH]; intros H; [reflexivity|]. cbn. rewrite (H x (or_introl eq_refl)), IH; [reflexivity|]. intros y Hy. apply H. now right. Qed.

Lemma post_unfold c : post_t c = post_f (rch c) ++ [rid c].
Proof. now destruct c. Qed.

Lemma h_post_ok h : forall fuel l x,
  hch h x = map rid l -> (forall s, In s (pre_f l) -> hch h (rid s) = map rid (rch s)) -> size_f l < fuel ->
  h_post fuel h x = post_f l.
Proof.
  induction fuel as [|fuel IH]; intros l x Hx Hs Lt; [lia|]. cbn [h_post]. rewrite Hx, flat_map_map.
  apply flat_map_ext_in'. intros c Hc. rewrite post_unfold. f_equal.
  apply IH.
  - apply Hs. now apply in_pre_f_top.
  - intros s Hs'. apply Hs. apply in_flat_map. exists c. split; [assumption|]. rewrite pre_unfold. now right.
  - assert (size c <= size_f l).
    { clear -Hc. induction l as [|y l IH]; [contradiction|]. rewrite size_f_cons. destruct Hc as [->|Hc]; [lia|]. specialize (IH Hc). lia. }
    destruct c as [id i ch]. rewrite size_unfold in H. cbn [rch]. lia.
Qed.

Lemma memn_false n l : memn n l = false <-> ~ In n l.
Proof. rewrite <- memn_In. destruct (memn n l); split; congruence. Qed.

(* SUB-STEP: the branches [X] are unlinked from a child list and all their nodes cleared *)
Lemma Rep_cut h h' t pq a X b L r' ix' :
  WF t -> Rep h t -> get_ch pq (forest_of t) = Some (a ++ X ++ b) ->
  (forall x, In x L <-> In x (ids X)) ->
  (forall x, hinf h' x = hinf h x) -> hall h' = hall h -> htyped h' = htyped h -> hcalc h' = hcalc h ->
  (forall x, hpar h' x = if memn x L then None else hpar h x) ->
  (forall x, htr h' x = if memn x L then false else htr h x) ->
  (forall x, hch h' x = if memn x L then [] else
                        if Nat.eqb x (owner pq (forest_of t) 0) then map rid (a ++ b) else hch h x) ->
  hreg h' = r' -> hidx h' = ix' ->
  Rep h' (set_all t (upd_ch pq (fun _ => a ++ b) (forest_of t)) r' ix').
Proof.
  intros W R G HL Hi Ha Ht Hc Hp Htr Hch Hreg Hidx. set (f := forest_of t) in *. set (p := owner pq f 0) in *.
  assert (ND := wf_nodup t W). assert (Z := wf_pos t W). fold f in ND, Z.
  destruct (ctx_kids pq f 0 _ ND Z G) as (A & B & E1 & E2 & E3 & E4 & E5). fold p in E1, E2, E3, E4.
  specialize (E2 (fun _ => a ++ b)). cbn beta in E2. set (f' := upd_ch pq (fun _ => a ++ b) f) in *.
  destruct (WF_cut t pq a X b W G) as (W' & Pi). fold f f' in Pi.
  assert (NDx : NoDup (ids X ++ ids f')) by (apply (Permutation_NoDup Pi ND)).
  assert (Zx : ~ In 0 (ids X)) by (intros Y; apply Z, E5; rewrite !ids_app; apply in_or_app; right; apply in_or_app; now left).
  rewrite !rows_app in E1. rewrite rows_app in E2.
  assert (Sub : forall r, In r (rows 0 f') -> In r (rows 0 f)).
  { intros r. rewrite E1, E2, !in_app_iff. tauto. }
  assert (IdX : forall r, In r (rows 0 f') -> ~ In (r_id r) (ids X)).
  { intros r Hr Y. apply (NoDup_app_disj _ _ _ NDx Y). now apply (rows_id_in f' 0). }
  assert (ParX : forall r, In r (rows 0 f') -> ~ In (r_par r) (ids X)).
  { intros r Hr Y. destruct (rows_parent_in f' 0 r Hr) as [E|E]; [rewrite E in Y; contradiction|]. apply (NoDup_app_disj _ _ _ NDx Y E). }
  assert (Pab : ~ In p (ids (a ++ b))).
  { intros Y. apply E4. rewrite !ids_app in *. apply in_app_or in Y. apply in_or_app. destruct Y; [now left|right; apply in_or_app; now right]. }
  constructor; cbn [set_all forest_of reg idx typed calc]; fold f f'.
  - exact Hreg.
  - exact Hidx.
  - rewrite Ht. apply R.
  - rewrite Hc. apply R.
  - intros q. rewrite Hch. destruct (memn q L) eqn:Mq.
    + apply memn_In, HL in Mq. symmetry. apply kids_none. intros r Hr E. apply (ParX r Hr). now rewrite E.
    + apply memn_false in Mq. destruct (Nat.eqb q p) eqn:Eq.
      * apply Nat.eqb_eq in Eq. subst q. rewrite E2, <- rows_app, !kids_app.
        rewrite (kids_none p A), (kids_none p B), app_nil_r; try (intros r Hr; apply E3; apply in_or_app; tauto). cbn [app].
        symmetry. now apply kids_top.
      * apply Nat.eqb_neq in Eq. rewrite (rep_ch h t R q). fold f. rewrite E1, E2, !kids_app.
        rewrite (kids_none q (rows p X)); [reflexivity|]. intros r Hr E. apply rows_par in Hr. destruct Hr as [Hr|Hr]; [congruence|].
        apply Mq, HL. now rewrite <- E.
  - intros r Hr. assert (Nr : memn (r_id r) L = false) by (apply memn_false; intros Y; apply HL in Y; now apply (IdX r Hr)).
    rewrite Hp, Htr, Hi, Nr. apply (rep_node h t R). now apply Sub.
  - assert (N0 : memn 0 L = false) by (apply memn_false; intros Y; apply HL in Y; contradiction).
    rewrite Hp, Htr, N0. apply R.
  - rewrite Ha. intros m Hm. apply (rep_all h t R). fold f. apply (Permutation_in _ (Permutation_sym Pi)). apply in_or_app. now right.
Qed.

(* ---- auxiliary facts tying the heap to nodes of the forest ---- *)
Lemma rows_nodes_t : forall t o, map (fun r => (r_id r, r_info r)) (rows_t o t) = map (fun s => (rid s, rinfo s)) (pre t).
Proof.
  induction t as [id i ch IH] using rt_ind'. intros o. cbn [rows_t map pre]. f_equal.
  induction ch as [|c ch IHc]; [reflexivity|]. cbn [flat_map]. rewrite !map_app.
  inversion IH as [|x l H1 H2]; subst. rewrite (H1 id). f_equal. now apply IHc.
Qed.

Lemma rows_nodes f o : map (fun r => (r_id r, r_info r)) (rows o f) = map (fun s => (rid s, rinfo s)) (pre_f f).
Proof. induction f as [|t f IH]; [reflexivity|]. cbn [flat_map]. now rewrite !map_app, rows_nodes_t, IH. Qed.

Lemma row_of_node f o s : In s (pre_f f) -> exists r, In r (rows o f) /\ r_id r = rid s /\ r_info r = rinfo s.
Proof.
  intros Hs. assert (X : In (rid s, rinfo s) (map (fun s => (rid s, rinfo s)) (pre_f f))) by (apply in_map_iff; now exists s).
  rewrite <- (rows_nodes f o) in X. apply in_map_iff in X. destruct X as (r & E & Hr). injection E as E1 E2. now exists r.
Qed.

Lemma rep_info h t s : Rep h t -> In s (pre_f (forest_of t)) -> hinf h (rid s) = rinfo s.
Proof. intros R Hs. destruct (row_of_node _ 0 s Hs) as (r & Hr & <- & <-). apply (rep_node h t R r Hr). Qed.

Lemma rep_children_ctx h t q l : WF t -> Rep h t -> get_ch q (forest_of t) = Some l ->
  hch h (owner q (forest_of t) 0) = map rid l.
Proof.
  intros W R G. rewrite (rep_ch h t R).
  destruct (ctx_kids q _ 0 l (wf_nodup t W) (wf_pos t W) G) as (A & B & E1 & _ & E3 & E4 & _).
  rewrite E1, !kids_app. rewrite (kids_none _ A), (kids_none _ B), (kids_top l _ E4), app_nil_r; [reflexivity| |];
    intros r Hr; apply E3; apply in_or_app; [now right|now left].
Qed.

Lemma ids_length_size l : length (ids l) = size_f l.
Proof.
  rewrite length_ids. induction l as [|x f IH]; [reflexivity|]. cbn [flat_map]. rewrite app_length, size_pre, IH. reflexivity.
Qed.

Lemma fuel_enough h t l : WF t -> Rep h t -> NoDup (ids l) -> incl (ids l) (ids (forest_of t)) -> size_f l < h_fuel h.
Proof.
  intros W R ND I. unfold h_fuel. rewrite <- ids_length_size.
  assert (X : length (ids l) <= length (hall h)).
  { apply NoDup_incl_length; [assumption|]. intros x Hx. apply (rep_all h t R). now apply I. }
  lia.
Qed.

Lemma fold_unreg_reg l : forall r, fold_left (fun a s => reg_del (rid s) a) l r = fold_left (fun r m => reg_del m r) (map rid l) r.
Proof. induction l as [|s l IH]; intros r; [reflexivity|]. cbn. apply IH. Qed.

Lemma fold_unreg_idx h l : (forall s, In s l -> hdid h (rid s) = rdid s) -> forall ix,
  fold_left (fun a s => idx_del (rdid s) (rid s) a) l ix = fold_left (fun ix m => idx_del (hdid h m) m ix) (map rid l) ix.
Proof.
  induction l as [|s l IH]; intros H ix; [reflexivity|]. cbn. rewrite (H s (or_introl eq_refl)). apply IH. intros x Hx. apply H. now right.
Qed.

Lemma unreg_reg_perm L l r : Permutation L (map rid l) ->
  fold_left (fun r m => reg_del m r) L r = fold_left (fun a s => reg_del (rid s) a) l r.
Proof. intros P. rewrite fold_unreg_reg. apply fold_perm; [|assumption]. intros s a b. apply reg_del_comm. Qed.

Lemma unreg_idx_perm h L l ix : Permutation L (map rid l) -> (forall s, In s l -> hdid h (rid s) = rdid s) ->
  fold_left (fun ix m => idx_del (hdid h m) m ix) L ix = fold_left (fun a s => idx_del (rdid s) (rid s) a) l ix.
Proof. intros P H. rewrite (fold_unreg_idx h l H). apply fold_perm; [|assumption]. intros s a b. apply idx_del_comm. Qed.

(* ---- remove_children ---- *)
Lemma Rep_remove_children h t n pq ch : WF t -> Rep h t ->
  parent_path n (forest_of t) = Some pq -> get_ch pq (forest_of t) = Some ch ->
  Rep (h_remove_children h n)
      (set_all t (upd_ch pq (fun _ => []) (forest_of t))
         (fold_left (fun a s => reg_del (rid s) a) (pre_f ch) (reg t))
         (fold_left (fun a s => idx_del (rdid s) (rid s) a) (pre_f ch) (idx t))).
Proof.
  intros W R Gp G. set (f := forest_of t) in *.
  assert (Hn := rep_children h t n pq ch W R Gp G).
  assert (Sub : forall s, In s (pre_f ch) -> In s (pre_f f)) by (intros s Hs; now apply (get_ch_pre pq f ch G)).
  assert (NDc := NoDup_child_list pq f ch (wf_nodup t W) G).
  assert (Ic : incl (ids ch) (ids f)) by (now apply (ids_sub_child pq)).
  assert (EL : h_post (h_fuel h) h n = post_f ch).
  { apply h_post_ok; [assumption| |now apply (fuel_enough h t)]. intros s Hs. apply (rep_node_children h t s W R). now apply Sub. }
  assert (PL : Permutation (post_f ch) (map rid (pre_f ch))) by (apply (proj2 post_perm)).
  unfold h_remove_children. rewrite EL. apply Rep_touch.
  destruct (unreg_fold (post_f ch) h) as (I1 & I2 & I3 & I4 & I5 & I6 & I7 & I8 & I9).
  set (h1 := fold_left h_unregister (post_f ch) h) in *.
  assert (G' : get_ch pq f = Some ([] ++ ch ++ [])) by (now rewrite app_nil_r).
  apply (Rep_cut h _ t pq [] ch [] (post_f ch) _ _ W R G'); cbn [set_chl hinf hall htyped hcalc hpar htr hch hreg hidx]; auto.
  - intros x. split; intros Hx; [apply (Permutation_in _ PL Hx)|apply (Permutation_in _ (Permutation_sym PL) Hx)].
  - intros x. fold f. rewrite (parent_path_owner n f pq ch Gp G). unfold upd. rewrite I7. cbn [app map].
    destruct (Nat.eqb x n); [now destruct (memn x (post_f ch))|reflexivity].
  - rewrite I8, (rep_reg h t R). now apply unreg_reg_perm.
  - rewrite I9, (rep_idx h t R). apply unreg_idx_perm; [assumption|]. intros s Hs. unfold hdid. now rewrite (rep_info h t s R (Sub s Hs)).
Qed.

Theorem sim_op_remove_children hw w ti n : WFw w -> RepW hw w ->
  Sim (h_op_remove_children hw ti n) (op_remove_children w ti n).
Proof.
  intros W RW. unfold h_op_remove_children, op_remove_children. assert (G := RepW_get hw w ti RW).
  destruct (h_get hw ti) as [h|]; destruct (get_tree w ti) as [t|] eqn:Gt; try contradiction; [|now apply Sim_same].
  assert (Wt := WFw_tree w ti t W Gt). assert (Pl := h_plive_path h t n Wt G).
  destruct (parent_path n (forest_of t)) as [pq|] eqn:Gp.
  2:{ replace (h_plive h n) with false; [now apply Sim_same|]. destruct (h_plive h n); [|reflexivity].
      destruct (proj1 Pl eq_refl) as (pq & X). discriminate. }
  replace (h_plive h n) with true by (symmetry; apply Pl; now exists pq). cbn [negb].
  destruct (parent_path_get n _ pq Gp) as (ch & Gc). rewrite Gc, unregister_all_eq.
  split; [reflexivity|]. cbn [snd]. unfold h_put, put_tree. rewrite (repw_next hw w RW). apply RepW_put; [assumption|].
  now apply Rep_remove_children.
Qed.

(* ---- remove() ---- *)
Lemma remove_first_n_mid a n b : ~ In n a -> remove_first_n n (a ++ n :: b) = a ++ b.
Proof.
  induction a as [|x a IH]; intros H; cbn.
  - now rewrite Nat.eqb_refl.
  - replace (Nat.eqb x n) with false by (symmetry; apply Nat.eqb_neq; intros ->; apply H; now left).
    rewrite IH; [reflexivity|]. intros Y. apply H. now right.
Qed.

Lemma memn_app x a b : memn x (a ++ b) = memn x a || memn x b.
Proof. unfold memn. apply existsb_app. Qed.

Lemma Rep_remove_plain h t n t' : WF t -> Rep h t -> remove_branch t n = Some t' -> Rep (h_remove_plain h n) t'.
Proof.
  intros W R. unfold remove_branch. set (f := forest_of t).
  destruct (detach n f) as [[s f1]|] eqn:D; [|discriminate].
  destruct (detach_spec n f s f1 D) as (q0 & a & b & G & -> & Rs & Ps).
  rewrite unregister_all_eq. intros X. injection X as <-.
  set (p := owner q0 f 0).
  assert (ND := wf_nodup t W). fold f in ND.
  assert (Hs : In s (a ++ s :: b)) by (apply in_or_app; right; now left).
  assert (Row := rows_child_in q0 f _ 0 s G Hs). fold p in Row.
  destruct (rep_node h t R _ Row) as (Hp & _). cbn [r_id r_par fst snd] in Hp. rewrite Rs in Hp.
  unfold h_remove_plain. rewrite Hp.
  (* the children of n are walked in post-order *)
  assert (Hn : hch h n = map rid (rch s)) by (rewrite <- Rs; now apply (rep_node_children h t s W R)).
  assert (Sub : forall x, In x (pre_f (rch s)) -> In x (pre_f f)) by (intros x Hx; now apply (pre_f_sub f s)).
  assert (NDs := NoDup_ids_sub f s ND Ps). rewrite ids_t_unfold in NDs. inversion NDs as [|y ys Nn NDc]; subst y ys.
  assert (Ic : incl (ids (rch s)) (ids f)) by (intros x Hx; unfold ids in *; apply in_map_iff in Hx; destruct Hx as (y & <- & Hy); apply in_map; now apply Sub).
  assert (EL : h_post (h_fuel h) h n = post_f (rch s)).
  { apply h_post_ok; [assumption| |now apply (fuel_enough h t)]. intros x Hx. apply (rep_node_children h t x W R). now apply Sub. }
  assert (Nz : n <> 0) by (intros E0; apply (wf_pos t W); fold f; rewrite <- E0, <- Rs; unfold ids; now apply in_map).
  unfold h_remove_children. rewrite EL, (touch_root_id _ n Nz).
  destruct (unreg_fold (post_f (rch s)) h) as (I1 & I2 & I3 & I4 & I5 & I6 & I7 & I8 & I9).
  set (hD := fold_left h_unregister (post_f (rch s)) h) in *.
  assert (PD : Permutation (post_f (rch s)) (ids (rch s))) by (apply (proj2 post_perm)).
  assert (PL : Permutation (post_f (rch s) ++ [n]) (map rid (pre s))).
  { rewrite pre_unfold. cbn [map]. rewrite Rs. rewrite <- Permutation_cons_append. constructor. exact PD. }
  (* the parent is neither the node nor one of its descendants *)
  assert (NLs := NoDup_child_list q0 f _ ND G).
  destruct (ctx_kids q0 f 0 _ ND (wf_pos t W) G) as (A0 & B0 & E1 & E2 & E3 & E4 & E5). fold p in E4.
  assert (Pn : p <> n).
  { intros E. apply E4. rewrite ids_app, ids_cons. apply in_or_app. right. left. congruence. }
  assert (PD' : memn p (post_f (rch s)) = false).
  { apply memn_false. intros Y. apply (Permutation_in _ PD) in Y. apply E4. rewrite ids_app, ids_cons. apply in_or_app. right. right. apply in_or_app. now left. }
  assert (Hpl : hch h p = map rid (a ++ s :: b)) by (now apply (rep_children_ctx h t q0)).
  assert (Na : ~ In n (map rid a)).
  { rewrite ids_app, ids_cons in NLs. intros Y. apply (NoDup_app_disj _ _ n NLs); [now apply incl_top_ids|rewrite <- Rs; now left]. }
  apply (Rep_cut h _ t q0 a [s] b (post_f (rch s) ++ [n]) _ _ W R G);
    cbn [h_unregister set_regidx set_chl set_par set_tr hinf hall htyped hcalc hpar htr hch hreg hidx]; auto.
  - intros x. rewrite ids_single. fold (ids_t s). split; intros Hx; [apply (Permutation_in _ PL Hx)|apply (Permutation_in _ (Permutation_sym PL) Hx)].
  - intros x. rewrite memn_app. cbn [memn existsb]. rewrite orb_false_r. unfold upd. rewrite I5. destruct (Nat.eqb x n); [now rewrite orb_true_r|now rewrite orb_false_r].
  - intros x. rewrite memn_app. cbn [memn existsb]. rewrite orb_false_r. unfold upd. rewrite I6. destruct (Nat.eqb x n); [now rewrite orb_true_r|now rewrite orb_false_r].
  - intros x. fold f p. rewrite memn_app. cbn [memn existsb]. rewrite orb_false_r. unfold upd at 1. destruct (Nat.eqb x n) eqn:En; [now rewrite orb_true_r|].
    rewrite orb_false_r. unfold upd at 1. destruct (Nat.eqb x p) eqn:Ep.
    + apply Nat.eqb_eq in Ep. subst x. rewrite PD'. rewrite (upd_neq _ n [] p Pn), I7, PD', Hpl, map_app. cbn [map]. rewrite Rs.
      rewrite remove_first_n_mid by assumption. now rewrite map_app.
    + unfold upd. rewrite En. apply I7.
  - rewrite I8, (rep_reg h t R).
    change (reg_del n (fold_left (fun r m => reg_del m r) (post_f (rch s)) (reg t))) with (fold_left (fun r m => reg_del m r) [n] (fold_left (fun r m => reg_del m r) (post_f (rch s)) (reg t))).
    rewrite <- fold_left_app. now apply unreg_reg_perm.
  - unfold hdid at 1. cbn [set_chl hinf]. rewrite I1, I9, (rep_idx h t R).
    change (idx_del (i_did (hinf h n)) n (fold_left (fun ix m => idx_del (hdid h m) m ix) (post_f (rch s)) (idx t)))
      with (fold_left (fun ix m => idx_del (hdid h m) m ix) [n] (fold_left (fun ix m => idx_del (hdid h m) m ix) (post_f (rch s)) (idx t))).
    rewrite <- fold_left_app. apply unreg_idx_perm; [assumption|]. intros x Hx. unfold hdid. rewrite (rep_info h t x R); [reflexivity|].
    rewrite pre_unfold in Hx. destruct Hx as [<-|Hx]; [assumption|now apply Sub].
Qed.

Lemma bool_iff (a b : bool) : (a = true <-> b = true) -> a = b.
Proof. destruct a, b; intros [H1 H2]; try reflexivity; [symmetry; now apply H1|now apply H2]. Qed.

Lemma live_agree h t v : WF t -> Rep h t -> h_live h v = live t v.
Proof.
  intros W R. apply bool_iff. rewrite (h_live_ids h t v W R). unfold live. rewrite existsb_exists. split.
  - intros H. exists v. split; [assumption|apply Nat.eqb_refl].
  - intros (m & Hm & E). apply Nat.eqb_eq in E. now subst.
Qed.

Lemma remove_branch_complete' t v : In v (ids (forest_of t)) -> exists a, remove_branch t v = Some a.
Proof.
  intros Hv. destruct (get_node_complete v _ Hv) as (s & Gs). destruct (get_node_loc v _ s Gs) as (q0 & i & l & E & N).
  unfold remove_branch, detach. rewrite E, N. destruct (unregister_all _ _ _). eexists. reflexivity.
Qed.

Lemma fold_remove_plain vs : forall h t, WF t -> Rep h t ->
  Rep (fold_left (fun acc v => if h_live acc v then (if false then h_remove_keep acc v else h_remove_plain acc v) else acc) vs h)
      (fold_left (fun acc v => if live acc v then match remove_one acc v false with Some a => a | None => acc end else acc) vs t).
Proof.
  induction vs as [|v vs IH]; intros h t W R; cbn [fold_left]; [exact R|].
  rewrite (live_agree h t v W R). destruct (live t v) eqn:L; [|now apply IH]. cbn [remove_one].
  assert (Hv : In v (ids (forest_of t))).
  { unfold live in L. apply existsb_exists in L. destruct L as (m & Hm & E). apply Nat.eqb_eq in E. now subst. }
  destruct (remove_branch_complete' t v Hv) as (a & E). rewrite E.
  destruct (WF_remove_branch t v a W E) as (Wa & _). apply IH; [assumption|]. now apply (Rep_remove_plain h t v a).
Qed.

Lemma did_of_agree h t n : WF t -> Rep h t ->
  match did_of n (forest_of t) with
  | Some d => h_live h n = true /\ hdid h n = d
  | None => h_live h n = false
  end.
Proof.
  intros W R. unfold did_of. destruct (get_node n (forest_of t)) as [s|] eqn:Gn; cbn [option_map].
  - destruct (get_node_spec n _ s Gn) as (Ps & Rs). split.
    + apply (h_live_ids h t n W R). rewrite <- Rs. unfold ids. now apply in_map.
    + unfold hdid. rewrite <- Rs. now rewrite (rep_info h t s R Ps).
  - destruct (h_live h n) eqn:L; [|reflexivity]. apply (h_live_ids h t n W R) in L.
    destruct (get_node_complete n _ L) as (s & X). congruence.
Qed.

Theorem sim_op_remove_plain hw w ti n wc : WFw w -> RepW hw w ->
  Sim (h_op_remove hw ti n false wc) (op_remove w ti n false wc).
Proof.
  intros W RW. unfold h_op_remove, op_remove. assert (G := RepW_get hw w ti RW).
  destruct (h_get hw ti) as [h|]; destruct (get_tree w ti) as [t|] eqn:Gt; try contradiction; [|now apply Sim_same].
  assert (Wt := WFw_tree w ti t W Gt). assert (D := did_of_agree h t n Wt G).
  destruct (did_of n (forest_of t)) as [d|].
  2:{ rewrite D. now apply Sim_same. }
  destruct D as (L & Ed). rewrite L, Ed, (rep_idx h t G). cbn [negb andb].
  split; [reflexivity|]. cbn [snd]. unfold h_put, put_tree. rewrite (repw_next hw w RW). apply RepW_put; [assumption|].
  now apply fold_remove_plain.
Qed.
