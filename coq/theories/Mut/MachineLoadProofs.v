(* Tree.load on the mutation machine: well-formedness, frame, refusal. *)
From Coq Require Import List ZArith Bool Arith Lia Permutation.
From NT Require Import Sx Rose ListFacts RoseFacts Surgery SurgeryFacts Machine WF MachineFacts PreserveSteps PreserveOps PreserveCopy
  PreserveMore Invariant Effects FrameTrees Refusal MachineLoad.
Import ListNotations.

(* ---- well-formedness (C01) ---- *)
Lemma WFx_load_entry ti w m e : WFw w -> WFx w (snd (load_entry ti w m e)).
Proof.
  intros H. destruct e as [p d ex k|p r]; cbn [load_entry].
  - destruct (nth_error m p) as [P|]; [now apply WFx_op_add|now apply WFx_refl].
  - destruct (nth_error m p) as [P|]; [|now apply WFx_refl]. destruct (nth_error m r) as [src|]; [|now apply WFx_refl].
    destruct (Nat.eqb src 0); [now apply WFx_refl|]. destruct (get_tree w ti) as [t|]; [now apply WFx_op_add_node|now apply WFx_refl].
Qed.

Lemma WFx_load_go ti l : forall w m, WFw w -> WFx w (snd (load_go ti l w m)).
Proof.
  induction l as [|e l IH]; intros w m H; cbn [load_go]; [now apply WFx_refl|].
  assert (X := WFx_load_entry ti w m e H).
  destruct (load_entry ti w m e) as [[[|n [|n2 r]]|x] w1]; cbn [snd] in *; try exact X.
  exact (WFx_trans _ _ _ X (IH w1 (m ++ [n]) (proj1 X))).
Qed.

Theorem WFx_op_load w ty doc : WFw w -> WFx w (snd (op_load w ty doc)).
Proof.
  intros H. unfold op_load. assert (H0 := PreserveCopy_WFx_new_empty w ty None H).
  assert (X := WFx_load_go (length (trees w)) doc _ [0] (proj1 H0)).
  destruct (load_go (length (trees w)) doc _ [0]) as [[r|e] w1]; cbn [snd] in *; [exact (WFx_trans _ _ _ H0 X)|].
  apply WFx_W; [assumption|]. destruct X as (_ & L & _). cbn [next] in L. exact L.
Qed.

Theorem WFw_step_x w o : WFw w -> WFw (snd (step_x w o)).
Proof. intros H. destruct o as [o|ty doc]; cbn [step_x]; [now apply WFw_step|exact (proj1 (WFx_op_load w ty doc H))]. Qed.

Theorem WFw_run_x ops : forall w, WFw w -> WFw (run_x ops w).
Proof.
  induction ops as [|o ops IH]; intros w H; [exact H|]. unfold run_x. cbn [fold_left]. apply IH. now apply WFw_step_x.
Qed.

(* nodes never come back, the allocator only moves forward: the identity frame also holds with load *)
Theorem WFx_step_x w o : WFw w -> WFx w (snd (step_x w o)).
Proof. intros H. destruct o as [o|ty doc]; cbn [step_x]; [now apply WFx_step|now apply WFx_op_load]. Qed.

(* ---- frame: the trees that were there are untouched; a failed load adds nothing (C13) ---- *)
Lemma load_entry_ext ti w m e : ext ti w (snd (load_entry ti w m e)).
Proof.
  destruct e as [p d ex k|p r]; cbn [load_entry].
  - destruct (nth_error m p) as [P|]; [apply op_add_ext|apply ext_refl].
  - destruct (nth_error m p) as [P|]; [|apply ext_refl]. destruct (nth_error m r) as [src|]; [|apply ext_refl].
    destruct (Nat.eqb src 0); [apply ext_refl|]. destruct (get_tree w ti) as [t|]; [apply op_add_node_ext|apply ext_refl].
Qed.

Lemma load_go_ext ti l : forall w m, ext ti w (snd (load_go ti l w m)).
Proof.
  induction l as [|e l IH]; intros w m; cbn [load_go]; [apply ext_refl|].
  assert (X := load_entry_ext ti w m e).
  destruct (load_entry ti w m e) as [[[|n [|n2 r]]|x] w1]; cbn [snd] in *; try exact X.
  exact (ext_trans _ _ _ _ X (IH w1 (m ++ [n]))).
Qed.

Theorem load_frame w ty doc :
  (forall tj, tj < length (trees w) -> get_tree (snd (op_load w ty doc)) tj = get_tree w tj) /\
  (forall e, fst (op_load w ty doc) = Err e -> trees (snd (op_load w ty doc)) = trees w) /\
  (forall r, fst (op_load w ty doc) = Ok r -> r = [length (trees w)]).
Proof.
  unfold op_load. set (ti := length (trees w)). set (w0 := W (trees w ++ [TS [] [] [] ty None]) (next w)).
  assert (X := load_go_ext ti doc w0 [0]). assert (L0 : length (trees w0) = S ti) by (unfold w0, ti; cbn [trees]; rewrite app_length; cbn; lia).
  destruct (load_go ti doc w0 [0]) as [[r|e] w1]; cbn [fst snd] in *.
  - refine (conj _ (conj _ _)).
    + intros tj Hj. destruct X as [_ X]. rewrite X by lia. unfold get_tree, w0. cbn [trees]. now apply nth_error_app1.
    + intros e E. discriminate.
    + intros r0 E. now injection E as <-.
  - refine (conj _ (conj _ _)); [reflexivity|reflexivity|intros r0 E; discriminate].
Qed.

(* ---- refusal (C03) ---- *)
Lemma load_go_app ti l1 : forall l2 w m m1 w1, load_go ti l1 w m = (Ok m1, w1) ->
  load_go ti (l1 ++ l2) w m = load_go ti l2 w1 m1.
Proof.
  induction l1 as [|e l1 IH]; intros l2 w m m1 w1 H; cbn [load_go app] in *; [now injection H as <- <-|].
  destruct (load_entry ti w m e) as [[[|n [|n2 r]]|x] w0]; try discriminate. now apply IH.
Qed.

(* the route-independent statement: whenever the loop reaches an entry whose parent already has a child with
   the entry's data_id, the load is refused with UniqueConstraintError and no tree is added *)
Theorem load_refused_data w ty pre p d ex k rest m1 w1 t P id :
  load_go (length (trees w)) pre (W (trees w ++ [TS [] [] [] ty None]) (next w)) [0] = (Ok m1, w1) ->
  WFw w1 -> get_tree w1 (length (trees w)) = Some t -> nth_error m1 p = Some P ->
  (match ex with Some e => Some e | None => calc_id (calc t) d end) = Some id ->
  sibling_with (forest_of t) P id 0 ->
  fst (op_load w ty (pre ++ LData p d ex k :: rest)) = Err EUnique /\
  trees (snd (op_load w ty (pre ++ LData p d ex k :: rest))) = trees w.
Proof.
  intros Hpre W1 Gt Hp Eid Sb. unfold op_load. rewrite (load_go_app _ pre _ _ _ m1 w1 Hpre). cbn [load_go load_entry]. rewrite Hp.
  assert (E := add_refused w1 (length (trees w)) P d ex k BNone t id W1 Gt Eid Sb (fun ch _ => eq_refl)).
  destruct (op_add w1 (length (trees w)) P d ex k BNone) as [[r|e] w2]; cbn [fst] in E; [discriminate|]. injection E as ->. split; reflexivity.
Qed.

(* the same for a reference entry: a clone of a node below the parent the original (or another clone) is in *)
Theorem load_refused_ref w ty pre p r rest m1 w1 t P src s :
  load_go (length (trees w)) pre (W (trees w ++ [TS [] [] [] ty None]) (next w)) [0] = (Ok m1, w1) ->
  WFw w1 -> get_tree w1 (length (trees w)) = Some t -> nth_error m1 p = Some P -> nth_error m1 r = Some src -> src <> 0 ->
  get_node src (forest_of t) = Some s ->
  sibling_with (forest_of t) P (rdid s) 0 ->
  fst (op_load w ty (pre ++ LRef p r :: rest)) = Err EUnique /\
  trees (snd (op_load w ty (pre ++ LRef p r :: rest))) = trees w.
Proof.
  intros Hpre W1 Gt Hp Hr Nz Gn Sb. unfold op_load. rewrite (load_go_app _ pre _ _ _ m1 w1 Hpre). cbn [load_go load_entry]. rewrite Hp, Hr, Gt.
  apply Nat.eqb_neq in Nz. rewrite Nz.
  assert (Ed : did_of src (forest_of t) = Some (rdid s)) by (unfold did_of; now rewrite Gn).
  destruct Sb as (ch & c & Gc & Hc & Hd & Hz).
  assert (E := add_node_refused w1 (length (trees w)) P (length (trees w)) src (did_of src (forest_of t)) (kind_of src (forest_of t)) BNone None t t s ch
                 W1 Gt Gt Gn Gc).
  rewrite Ed in E. specialize (E (ex_intro _ ch (ex_intro _ c (conj Gc (conj Hc (conj Hd Hz)))))). cbv zeta in E.
  assert (E' := E (andb_negb_r (typed t)) eq_refl eq_refl eq_refl ltac:(rewrite andb_comm; apply andb_negb_r)). rewrite Ed.
  destruct (op_add_node w1 _ P _ src (Some (rdid s)) _ BNone None) as [[r0|e] w2]; cbn [fst] in E'; [discriminate|]. injection E' as ->. split; reflexivity.
Qed.

(* ---- the general form: two entries with one data_id under one parent, anything in between ---- *)
Definition entry_par (e : lentry) : nat := match e with LData p _ _ _ => p | LRef p _ => p end.
Definition entry_did (t : tstate) (m : list nat) (e : lentry) : option did :=
  match e with
  | LData _ d ex _ => match ex with Some x => Some x | None => calc_id (calc t) d end
  | LRef _ r => match nth_error m r with Some src => did_of src (forest_of t) | None => None end
  end.

Lemma rows_placed pq f ch nb x : get_ch pq f = Some ch ->
  incl (rows 0 f) (rows 0 (upd_ch pq (place nb x) f)) /\ In (owner pq f 0, rid x, rinfo x) (rows 0 (upd_ch pq (place nb x) f)).
Proof.
  intros G. assert (P := rows_insert_perm pq f ch 0 nb x G). split.
  - intros r Hr. apply (Permutation_in _ (Permutation_sym P)). apply in_or_app. now right.
  - apply (Permutation_in _ (Permutation_sym P)). apply in_or_app. left. rewrite rows_t_unfold. now left.
Qed.

(* what a successful iteration adds: one row below the parent the entry names, carrying the entry's data_id *)
Lemma entry_rows ti w m e n w1 t : get_tree w ti = Some t -> load_entry ti w m e = (Ok [n], w1) ->
  exists t1 P i, get_tree w1 ti = Some t1 /\ incl (rows 0 (forest_of t)) (rows 0 (forest_of t1)) /\
    nth_error m (entry_par e) = Some P /\ In (P, n, i) (rows 0 (forest_of t1)) /\
    entry_did t m e = Some (i_did i) /\ calc t1 = calc t /\ n = next w.
Proof.
  intros Gt H. destruct e as [p d ex k|p r]; cbn [load_entry entry_par entry_did] in *.
  - destruct (nth_error m p) as [P|]; [|discriminate]. unfold op_add in H. rewrite Gt in H.
    destruct (parent_path P (forest_of t)) as [pq|] eqn:Gp; [|discriminate]. destruct (get_ch pq (forest_of t)) as [ch|] eqn:Gc; [|discriminate].
    destruct (negb (before_ok (norm_before BNone) ch)); [discriminate|].
    destruct (match ex with Some e0 => Some e0 | None => calc_id (calc t) d end) as [id|] eqn:Eid; [|discriminate].
    destruct (collides t P id); [discriminate|]. injection H as <- <-.
    destruct (rows_placed pq (forest_of t) ch (norm_before BNone) (T (next w) (mk_info d id (default_kind t k) []) []) Gc) as [I1 I2].
    rewrite (parent_path_owner P _ pq ch Gp Gc) in I2.
    eexists _, P, _. split; [exact (get_put_same _ _ t _ Gt)|]. cbn [forest_of set_all calc].
    refine (conj I1 (conj eq_refl (conj I2 (conj eq_refl (conj eq_refl eq_refl))))).
  - destruct (nth_error m p) as [P|]; [|discriminate]. destruct (nth_error m r) as [src|]; [|discriminate].
    destruct (Nat.eqb src 0); [discriminate|]. rewrite Gt in H. unfold op_add_node in H. rewrite Gt in H.
    destruct (get_node src (forest_of t)) as [s|] eqn:Gn; [|discriminate].
    destruct (parent_path P (forest_of t)) as [pq|] eqn:Gp; [|discriminate]. destruct (get_ch pq (forest_of t)) as [ch|] eqn:Gc; [|discriminate].
    assert (Ed : did_of src (forest_of t) = Some (rdid s)) by (unfold did_of; now rewrite Gn). rewrite Ed in *.
    destruct (typed t && negb (typed t)); [discriminate|]. cbn [andb] in H.
    destruct (Nat.eqb ti ti && _); [discriminate|]. destruct (negb (did_eqb (rdid s) (rdid s))); [discriminate|].
    destruct (negb (before_ok (norm_before BNone) ch)); [discriminate|]. destruct (negb (typed t) && typed t); [discriminate|].
    destruct (collides t P (rdid s)); [discriminate|].
    match type of H with context [register_all ?a ?b ?c] => destruct (register_all a b c) as [r' ix'] end. injection H as <- <-.
    match goal with |- context [upd_ch pq (place ?nb ?x) _] => destruct (rows_placed pq (forest_of t) ch nb x Gc) as [I1 I2] end.
    rewrite (parent_path_owner P _ pq ch Gp Gc) in I2. cbn [rid rinfo] in I2.
    eexists _, P, _. split; [unfold put_tree; cbn [trees next]; apply (get_put_same (W (trees w) (S (next w))) ti t); exact Gt|].
    cbn [forest_of set_all calc]. refine (conj I1 (conj eq_refl (conj I2 (conj eq_refl (conj eq_refl eq_refl))))).
Qed.

Lemma sibling_of_row f p n i : NoDup (ids f) -> ~ In 0 (ids f) -> In (p, n, i) (rows 0 f) -> sibling_with f p (i_did i) 0.
Proof.
  intros ND Z H. assert (Hn : n <> 0).
  { intros ->. apply Z. rewrite <- (rows_ids f 0). change 0 with (r_id (p, 0, i)). now apply in_map. }
  destruct (proj2 rows_member f 0 p n i H) as [(-> & x & Hx & Rx & Ix)|(s & Hs & Rs & x & Hx & Rx & Ix)].
  - exists f, x. unfold children_of. cbn. refine (conj eq_refl (conj Hx (conj _ _))); [unfold rdid; now rewrite Ix|congruence].
  - assert (Hp : In p (ids f)) by (rewrite <- Rs; unfold ids; now apply in_map).
    assert (Pz : p <> 0) by (intros ->; contradiction).
    destruct (node_path_complete p f Hp) as (pq & Gq).
    assert (Gp : parent_path p f = Some pq) by (unfold parent_path; apply Nat.eqb_neq in Pz; now rewrite Pz).
    destruct (parent_path_get p f pq Gp) as (ch & Gc).
    destruct (parent_path_spec p f pq ch 0 Gp Gc) as [(X & _)|(_ & s' & Hs' & Rs' & Cs' & _)]; [contradiction|].
    assert (s' = s) by (apply (node_unique f); auto; congruence). subst s'.
    exists ch, x. unfold children_of. rewrite Gp, Gc. subst ch. refine (conj eq_refl (conj Hx (conj _ _))); [unfold rdid; now rewrite Ix|congruence].
Qed.

Lemma load_go_rows ti l : forall w m m1 w1 t, WFw w -> get_tree w ti = Some t -> load_go ti l w m = (Ok m1, w1) ->
  exists t1, get_tree w1 ti = Some t1 /\ incl (rows 0 (forest_of t)) (rows 0 (forest_of t1)) /\ calc t1 = calc t /\
             WFw w1 /\ exists m', m1 = m ++ m'.
Proof.
  induction l as [|e l IH]; intros w m m1 w1 t W Gt H; cbn [load_go] in H.
  - injection H as <- <-. exists t. refine (conj Gt (conj (incl_refl _) (conj eq_refl (conj W _)))). exists []. now rewrite app_nil_r.
  - assert (We := proj1 (WFx_load_entry ti w m e W)).
    destruct (load_entry ti w m e) as [[[|n [|n2 r]]|x] w0] eqn:Ee; try discriminate. cbn [snd] in We.
    destruct (entry_rows ti w m e n w0 t Gt Ee) as (t0 & P & i & Gt0 & I0 & _ & _ & _ & C0 & _).
    destruct (IH w0 (m ++ [n]) m1 w1 t0 We Gt0 H) as (t1 & Gt1 & I1 & C1 & W1 & m' & Em).
    exists t1. refine (conj Gt1 (conj (incl_tran I0 I1) (conj _ (conj W1 _)))); [congruence|]. exists (n :: m'). now rewrite Em, <- app_assoc.
Qed.

(* C03 for load: an entry (a data entry or a reference) puts a node with data_id [id] below the parent with
   index p; any entries later, a data entry names the same parent index and has the same data_id: refused *)
Theorem load_refused_general w ty pre e1 mid p d ex k rest m0 w0 t0 n1 wa m2 w2 t2 id :
  let ti := length (trees w) in
  load_go ti pre (W (trees w ++ [TS [] [] [] ty None]) (next w)) [0] = (Ok m0, w0) -> WFw w ->
  get_tree w0 ti = Some t0 -> load_entry ti w0 m0 e1 = (Ok [n1], wa) -> entry_par e1 = p -> entry_did t0 m0 e1 = Some id ->
  load_go ti mid wa (m0 ++ [n1]) = (Ok m2, w2) -> get_tree w2 ti = Some t2 ->
  (match ex with Some x => Some x | None => calc_id (calc t2) d end) = Some id ->
  fst (op_load w ty (pre ++ e1 :: mid ++ LData p d ex k :: rest)) = Err EUnique /\
  trees (snd (op_load w ty (pre ++ e1 :: mid ++ LData p d ex k :: rest))) = trees w.
Proof.
  intros ti Hpre Ww Gt0 He1 Ep Ed Hmid Gt2 Eid.
  assert (Ww0 : WFw (W (trees w ++ [TS [] [] [] ty None]) (next w))) by (apply (PreserveCopy_WFx_new_empty w ty None Ww)).
  assert (W0 : WFw w0) by (assert (X := WFx_load_go ti pre _ [0] Ww0); rewrite Hpre in X; apply X).
  assert (Wa : WFw wa) by (assert (X := WFx_load_entry ti w0 m0 e1 W0); rewrite He1 in X; apply X).
  destruct (entry_rows ti w0 m0 e1 n1 wa t0 Gt0 He1) as (ta & P & i & Gta & _ & Hp & Hrow & Ed' & _ & _).
  rewrite Ep in Hp. rewrite Ed in Ed'. injection Ed' as ->.
  destruct (load_go_rows ti mid wa (m0 ++ [n1]) m2 w2 ta Wa Gta Hmid) as (t2' & Gt2' & I2 & _ & W2 & m' & Em).
  assert (t2' = t2) by congruence. subst t2'.
  assert (Wt2 := WFw_tree w2 ti t2 W2 Gt2).
  assert (Sb : sibling_with (forest_of t2) P (i_did i) 0) by (apply (sibling_of_row _ P n1 i); [apply Wt2|apply Wt2|now apply I2]).
  assert (Hp2 : nth_error m2 p = Some P).
  { rewrite Em, <- app_assoc. rewrite nth_error_app1; [exact Hp|]. apply nth_error_Some. congruence. }
  assert (Hall : load_go ti (pre ++ e1 :: mid) (W (trees w ++ [TS [] [] [] ty None]) (next w)) [0] = (Ok m2, w2)).
  { rewrite (load_go_app ti pre (e1 :: mid) _ _ m0 w0 Hpre). cbn [load_go]. rewrite He1. exact Hmid. }
  replace (pre ++ e1 :: mid ++ LData p d ex k :: rest) with ((pre ++ e1 :: mid) ++ LData p d ex k :: rest) by (now rewrite <- app_assoc).
  exact (load_refused_data w ty (pre ++ e1 :: mid) p d ex k rest m2 w2 t2 P (i_did i) Hall W2 Gt2 Hp2 Eid Sb).
Qed.

(* the canonical bad file: two top-level entries with the same data (or the same explicit data_id) *)
Theorem load_refused_pair w ty d ex k k' rest : WFw w ->
  fst (op_load w ty (LData 0 d ex k :: LData 0 d ex k' :: rest)) = Err EUnique /\
  trees (snd (op_load w ty (LData 0 d ex k :: LData 0 d ex k' :: rest))) = trees w.
Proof.
  intros Ww. set (ti := length (trees w)). set (w0 := W (trees w ++ [TS [] [] [] ty None]) (next w)).
  assert (G0 : get_tree w0 ti = Some (TS [] [] [] ty None)) by (unfold get_tree, w0, ti; cbn [trees]; apply nth_error_app_len).
  set (id := match ex with Some x => x | None => DInt (d_hash d) end).
  assert (Eid : forall t, calc t = None -> (match ex with Some x => Some x | None => calc_id (calc t) d end) = Some id).
  { intros t Ct. unfold id. rewrite Ct. now destruct ex. }
  assert (E1 : exists wa, load_entry ti w0 [0] (LData 0 d ex k) = (Ok [next w], wa)).
  { cbn [load_entry nth_error]. unfold op_add. rewrite G0. cbn [forest_of parent_path Nat.eqb get_ch norm_before before_ok negb].
    rewrite (Eid (TS [] [] [] ty None) eq_refl). cbn [collides idx idx_get find existsb]. eexists. reflexivity. }
  destruct E1 as (wa & E1).
  destruct (entry_rows ti w0 [0] _ _ wa _ G0 E1) as (ta & P & i & Gta & _ & _ & _ & _ & Ca & _). cbn [calc] in Ca.
  exact (load_refused_general w ty [] (LData 0 d ex k) [] 0 d ex k' rest [0] w0 _ (next w) wa _ wa ta id eq_refl Ww G0 E1 eq_refl (Eid (TS [] [] [] ty None) eq_refl) eq_refl Gta (Eid ta Ca)).
Qed.
