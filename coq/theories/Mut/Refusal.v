(* C03: every route that would put a second child with an already present
   data_id under some parent is refused with the uniqueness error. *)
From Coq Require Import List ZArith Bool Arith Lia Permutation.
From NT Require Import Sx Rose ListFacts RoseFacts Surgery SurgeryFacts Machine WF MachineFacts PreserveSteps PreserveOps
  PreserveRelabel PreserveKeepClones.
Import ListNotations.

(* the route-independent collision predicate: parent [p] (0 = the root) has a child,
   other than node [excl], whose data_id is [d] *)
Definition sibling_with (f : forest) (p : nat) (d : did) (excl : nat) : Prop :=
  exists ch c, children_of p f = Some ch /\ In c ch /\ rdid c = d /\ rid c <> excl.

Lemma children_of_split p f ch : children_of p f = Some ch -> exists pq, parent_path p f = Some pq /\ get_ch pq f = Some ch.
Proof. unfold children_of. destruct (parent_path p f) as [pq|]; [|discriminate]. intros G. now exists pq. Qed.

Lemma collides_of_sibling t p d excl : WF t -> sibling_with (forest_of t) p d excl -> collides t p d = true.
Proof.
  intros H (ch & c & Gc & Hc & <- & _). destruct (children_of_split _ _ _ Gc) as (pq & Gp & G).
  apply (collides_complete t p pq ch); auto. now apply in_map.
Qed.

(* ---- add_child(data) ---- *)
Theorem add_refused w ti p d explicit k b t id :
  WFw w -> get_tree w ti = Some t ->
  (match explicit with Some e => Some e | None => calc_id (calc t) d end) = Some id ->
  sibling_with (forest_of t) p id 0 ->
  (forall ch, children_of p (forest_of t) = Some ch -> before_ok (norm_before b) ch = true) ->
  fst (op_add w ti p d explicit k b) = Err EUnique.
Proof.
  intros H Gt Eid S Hb. assert (Wt := WFw_tree w ti t H Gt).
  assert (Col := collides_of_sibling t p id 0 Wt S). destruct S as (ch & c & Gc & _).
  specialize (Hb ch Gc). destruct (children_of_split _ _ _ Gc) as (pq & Gp & G).
  unfold op_add. rewrite Gt, Gp, G, Hb. cbn [negb]. rewrite Eid, Col. reflexivity.
Qed.

Theorem add_never_succeeds w ti p d explicit k b t id :
  WFw w -> get_tree w ti = Some t ->
  (match explicit with Some e => Some e | None => calc_id (calc t) d end) = Some id ->
  sibling_with (forest_of t) p id 0 ->
  exists e, fst (op_add w ti p d explicit k b) = Err e /\ (e = EUnique \/ e = EValue).
Proof.
  intros H Gt Eid S. assert (Wt := WFw_tree w ti t H Gt).
  assert (Col := collides_of_sibling t p id 0 Wt S). destruct S as (ch & c & Gc & _).
  destruct (children_of_split _ _ _ Gc) as (pq & Gp & G).
  unfold op_add. rewrite Gt, Gp, G. destruct (negb (before_ok (norm_before b) ch)); [exists EValue; now split; [|right]|].
  rewrite Eid, Col. exists EUnique. split; [reflexivity|now left].
Qed.

(* ---- move_to ---- *)
Theorem move_refused w ti n target b t s tch cur :
  WFw w -> get_tree w ti = Some t -> typed t = false ->
  get_node n (forest_of t) = Some s -> children_of target (forest_of t) = Some tch ->
  parent_of n (forest_of t) = Some cur -> cur <> target ->
  is_desc_or_self n target (forest_of t) = false -> before_ok (norm_before b) tch = true ->
  sibling_with (forest_of t) target (rdid s) n ->
  fst (op_move w ti n ti target b) = Err EUnique.
Proof.
  intros H Gt Ty Gn Gc Gp Ne Nd Hb (ch & c & Gc' & Hc & Ed & _). rewrite Gc in Gc'. injection Gc' as <-.
  unfold op_move. rewrite Gt, Ty, Nat.eqb_refl. cbn [negb]. rewrite Gn, Gc, Gp, Nd, Hb. cbn [negb].
  replace (Nat.eqb cur target) with false by (symmetry; now apply Nat.eqb_neq). cbn [negb andb].
  replace (existsb (fun c0 => did_eqb (rdid c0) (rdid s)) tch) with true; [reflexivity|].
  symmetry. apply existsb_exists. exists c. split; [assumption|now apply did_eqb_eq].
Qed.

(* ---- set_data / rename ---- *)
Lemma sib_clash_of_sibling f G e m q0 i l x :
  node_loc m f = Some (q0, i, l) -> In x l -> rdid x = e -> ~ In (rid x) G -> sib_clash f G e m = true.
Proof.
  intros E Hx Ex Nx. unfold sib_clash. rewrite E. apply existsb_exists. exists x. split; [assumption|].
  apply andb_true_iff. split; [now apply did_eqb_eq|]. apply negb_true_iff. now apply inb_false.
Qed.

(* a single node (no clones, or with_clones=False) gets a new data_id that one of its siblings has *)
Theorem set_data_refused_single w ti n t s q0 i l x new_data e wcl :
  WFw w -> get_tree w ti = Some t -> get_node n (forest_of t) = Some s ->
  node_loc n (forest_of t) = Some (q0, i, l) -> In x l -> rid x <> n -> rdid x = e ->
  (Nat.ltb 1 (length (idx_get (rdid s) (idx t))) = false \/ wcl = Some false) ->
  fst (set_data_core w ti t n s new_data (Some e) wcl) = Err EUnique.
Proof.
  intros H Gt Gn E Hx Nx Ex Hc. unfold set_data_core.
  assert (G1 : (Nat.ltb 1 (length (idx_get (rdid s) (idx t))) && match wcl with None => true | _ => false end) = false).
  { destruct Hc as [-> | ->]; [reflexivity|apply andb_false_r]. }
  rewrite G1.
  assert (G2 : (Nat.ltb 1 (length (idx_get (rdid s) (idx t))) && match wcl with Some true => true | _ => false end) = false).
  { destruct Hc as [-> | ->]; [reflexivity|apply andb_false_r]. }
  rewrite G2. cbn [existsb]. rewrite (sib_clash_of_sibling _ [n] e n q0 i l x E Hx Ex); [reflexivity|].
  intros [X|[]]. now apply Nx.
Qed.

(* a whole clone group is re-keyed and some member has a sibling outside the group with that id *)
Theorem set_data_refused_group w ti n t s m q0 i l x new_data e :
  WFw w -> get_tree w ti = Some t -> get_node n (forest_of t) = Some s ->
  Nat.ltb 1 (length (idx_get (rdid s) (idx t))) = true ->
  In m (idx_get (rdid s) (idx t)) -> node_loc m (forest_of t) = Some (q0, i, l) ->
  In x l -> rdid x = e -> ~ In (rid x) (idx_get (rdid s) (idx t)) ->
  fst (set_data_core w ti t n s new_data (Some e) (Some true)) = Err EUnique.
Proof.
  intros H Gt Gn Hc Hm E Hx Ex Nx. unfold set_data_core. rewrite Hc. cbn [andb].
  replace (existsb (sib_clash (forest_of t) (idx_get (rdid s) (idx t)) e) (idx_get (rdid s) (idx t))) with true; [reflexivity|].
  symmetry. apply existsb_exists. exists m. split; [assumption|]. now apply (sib_clash_of_sibling _ _ e m q0 i l x).
Qed.

(* ---- remove(keep_children=True): a child's data_id occurs among the other siblings ---- *)
Lemma has_dup_did_true l : ~ NoDup l -> has_dup_did l = true.
Proof. intros H. destruct (has_dup_did l) eqn:E; [reflexivity|]. exfalso. apply H. now apply has_dup_did_spec. Qed.

Theorem remove_keep_refused w ti n t s q0 a b c o :
  WFw w -> get_tree w ti = Some t -> get_node n (forest_of t) = Some s ->
  node_loc n (forest_of t) = Some (q0, length a, a ++ s :: b) ->
  In c (rch s) -> In o (a ++ b) -> rdid o = rdid c ->
  fst (op_remove w ti n true false) = Err EUnique.
Proof.
  intros H Gt Gn E Hc Ho Ed. assert (Wt := WFw_tree w ti t H Gt). assert (ND := wf_nodup t Wt).
  unfold op_remove. rewrite Gt. unfold did_of. rewrite Gn. cbn [option_map andb existsb]. rewrite orb_false_r.
  replace (keep_collides_all t [n] n) with true; [reflexivity|]. symmetry.
  unfold keep_collides_all. rewrite E. apply has_dup_did_true. intros NDc.
  destruct (node_loc_spec n _ _ _ _ E) as (G & s' & N & R & _). rewrite nth_error_app_len in N. injection N as <-.
  assert (NL := NoDup_child_list q0 _ _ ND G). rewrite ids_app, ids_cons in NL.
  assert (Hs : ~ In n (ids (rch s))).
  { apply NoDup_app_r in NL. inversion NL as [|x l' H1 H2]; subst. intros X. apply H1. apply in_or_app. now left. }
  assert (Hab : forall x, In x (a ++ b) -> rid x <> n).
  { intros x Hx Ex. apply in_app_or in Hx. destruct Hx as [Hx|Hx].
    - apply (NoDup_app_disj _ _ n NL); [|rewrite <- R; now left]. rewrite <- Ex. now apply incl_top_ids, in_map.
    - apply NoDup_app_r in NL. inversion NL as [|y l' H1 H2]; subst. apply H1. apply in_or_app. right.
      rewrite <- Ex. now apply incl_top_ids, in_map. }
  rewrite flat_map_in_split in NDc. rewrite (contract_t_in [n] s) in NDc by (rewrite R; now left).
  rewrite !contract_out in NDc.
  2:{ intros x Hx [X|[]]. apply (Hab x); [apply in_or_app; now right|congruence]. }
  2:{ intros x Hx [X|[]]. apply Hs. rewrite X. now apply incl_top_ids, in_map. }
  2:{ intros x Hx [X|[]]. apply (Hab x); [apply in_or_app; now left|congruence]. }
  rewrite !map_app in NDc. apply in_app_or in Ho. destruct Ho as [Ho|Ho].
  - apply (NoDup_app_disj _ _ (rdid c) NDc); [rewrite <- Ed; now apply in_map|]. apply in_or_app. left. now apply in_map.
  - apply NoDup_app_r in NDc. apply (NoDup_app_disj _ _ (rdid c) NDc); [now apply in_map|rewrite <- Ed; now apply in_map].
Qed.

(* set_data(data_id=e) and rename at the level of the operations *)
Lemma op_set_data_explicit w ti n e wcl t s :
  get_tree w ti = Some t -> get_node n (forest_of t) = Some s -> e <> rdid s ->
  op_set_data w ti n None (Some e) wcl = set_data_core w ti t n s None (Some e) wcl.
Proof.
  intros Gt Gn Ne. rewrite op_set_data_eq, Gt, Gn. cbn [sd_new_data sd_did' sd_new_did].
  replace (did_eqb e (rdid s)) with false; [reflexivity|]. symmetry. destruct (did_eqb e (rdid s)) eqn:Q; [|reflexivity].
  apply did_eqb_eq in Q. contradiction.
Qed.

Theorem set_data_refused w ti n t s q0 i l x e wcl :
  WFw w -> get_tree w ti = Some t -> get_node n (forest_of t) = Some s -> e <> rdid s ->
  node_loc n (forest_of t) = Some (q0, i, l) -> In x l -> rid x <> n -> rdid x = e ->
  (Nat.ltb 1 (length (idx_get (rdid s) (idx t))) = false \/ wcl = Some false) ->
  fst (op_set_data w ti n None (Some e) wcl) = Err EUnique.
Proof.
  intros H Gt Gn Ne E Hx Nx Ex Hc. rewrite (op_set_data_explicit w ti n e wcl t s Gt Gn Ne).
  now apply (set_data_refused_single w ti n t s q0 i l x None e wcl).
Qed.

Theorem set_data_clones_refused w ti n t s m q0 i l x e :
  WFw w -> get_tree w ti = Some t -> get_node n (forest_of t) = Some s -> e <> rdid s ->
  Nat.ltb 1 (length (idx_get (rdid s) (idx t))) = true ->
  In m (idx_get (rdid s) (idx t)) -> node_loc m (forest_of t) = Some (q0, i, l) ->
  In x l -> rdid x = e -> ~ In (rid x) (idx_get (rdid s) (idx t)) ->
  fst (op_set_data w ti n None (Some e) (Some true)) = Err EUnique.
Proof.
  intros H Gt Gn Ne Hc Hm E Hx Ex Nx. rewrite (op_set_data_explicit w ti n e (Some true) t s Gt Gn Ne).
  now apply (set_data_refused_group w ti n t s m q0 i l x None e).
Qed.

Theorem rename_refused w ti n t s q0 i l x d e :
  WFw w -> get_tree w ti = Some t -> get_node n (forest_of t) = Some s ->
  i_isstr (rinfo s) = true -> Z.eqb (d_obj d) (i_obj (rinfo s)) = false ->
  calc_id (calc t) d = Some e -> e <> rdid s ->
  Nat.ltb 1 (length (idx_get (rdid s) (idx t))) = false ->
  node_loc n (forest_of t) = Some (q0, i, l) -> In x l -> rid x <> n -> rdid x = e ->
  fst (op_rename w ti n d) = Err EUnique.
Proof.
  intros H Gt Gn Is Ob Ce Ne Hc E Hx Nx Ex. unfold op_rename. rewrite Gt, Gn, Is.
  rewrite op_set_data_eq, Gt, Gn. cbn [sd_new_data]. rewrite Ob. cbn [sd_did']. rewrite Ce. cbn [option_map sd_new_did].
  replace (did_eqb e (rdid s)) with false.
  - apply (set_data_refused_single w ti n t s q0 i l x (Some d) e None); auto.
  - symmetry. destruct (did_eqb e (rdid s)) eqn:Q; [|reflexivity]. apply did_eqb_eq in Q. contradiction.
Qed.

(* ---- add_child(node) / copy_to(add_self) ---- *)
Theorem add_node_refused w ti p sti src explicit k b deep t st s ch :
  WFw w -> get_tree w ti = Some t -> get_tree w sti = Some st ->
  get_node src (forest_of st) = Some s -> children_of p (forest_of t) = Some ch ->
  sibling_with (forest_of t) p (match explicit with Some e => e | None => rdid s end) 0 ->
  let dp := match deep with Some x => x | None => false end in
  typed t && negb (typed st) = false ->
  dp && (match explicit with Some _ => true | None => false end) = false ->
  dp && Nat.eqb ti sti && is_desc_or_self src p (forest_of st) = false ->
  before_ok (norm_before b) ch = true ->
  negb (typed t) && typed st = false ->
  fst (op_add_node w ti p sti src explicit k b deep) = Err EUnique.
Proof.
  intros H Gt Gs Gn Gc S dp H1 H2 H3 H4 H5. assert (Wt := WFw_tree w ti t H Gt).
  assert (Col := collides_of_sibling t p _ 0 Wt S).
  destruct (children_of_split _ _ _ Gc) as (pq & Gp & G).
  unfold op_add_node. rewrite Gt, Gs, Gn, Gp, G, H1. fold dp. rewrite H2.
  match goal with |- context [if ?c then (Err EUnique, w) else _] => destruct c end; [reflexivity|].
  match goal with |- context [if ?c then (Err EUnique, w) else _] => destruct c end; [reflexivity|].
  rewrite H3, H4. cbn [negb]. rewrite H5, Col. reflexivity.
Qed.

Lemma did_of_member f c : NoDup (ids f) -> In c (pre_f f) -> did_of (rid c) f = Some (rdid c).
Proof. intros ND Hc. unfold did_of. now rewrite (get_node_unique (rid c) f c ND Hc eq_refl). Qed.

Lemma any_collides_of_sibling t p st srcs c :
  WF t -> WF st -> In c (pre_f (forest_of st)) -> In (rid c) srcs -> sibling_with (forest_of t) p (rdid c) 0 ->
  any_collides t p st srcs = true.
Proof.
  intros Wt Ws Pc Hc S. unfold any_collides. apply existsb_exists. exists (rid c). split; [assumption|].
  rewrite (did_of_member _ c (wf_nodup st Ws) Pc). now apply (collides_of_sibling t p _ 0).
Qed.

(* ---- copy_to(add_self=False): some copied child's data_id is already below the target ---- *)
Theorem copy_to_refused w sti src ti target b deep t st chs c :
  WFw w -> get_tree w ti = Some t -> get_tree w sti = Some st ->
  children_of src (forest_of st) = Some chs -> In c chs ->
  sibling_with (forest_of t) target (rdid c) 0 ->
  fst (op_copy_to w sti src ti target false b deep) = Err EUnique.
Proof.
  intros H Gt Gs Gc Hc S. assert (Wt := WFw_tree w ti t H Gt). assert (Ws := WFw_tree w sti st H Gs).
  unfold op_copy_to. rewrite Gt, Gs, Gc. destruct chs as [|c0 chs]; [contradiction|].
  destruct (children_of_split _ _ _ Gc) as (pq & _ & G).
  rewrite (any_collides_of_sibling t target st _ c Wt Ws); [reflexivity| |now apply in_map|assumption].
  apply (get_ch_pre pq _ _ G). now apply in_pre_f_top.
Qed.

(* ---- add(tree): the first colliding top node refuses the whole call ---- *)
Theorem add_tree_refused w ti p sti b deep t st c :
  WFw w -> get_tree w ti = Some t -> get_tree w sti = Some st ->
  typed t && negb (typed st) = false -> In c (forest_of st) ->
  sibling_with (forest_of t) p (rdid c) 0 ->
  fst (op_add_tree w ti p sti b deep) = Err EUnique.
Proof.
  intros H Gt Gs Ty Hc S. assert (Wt := WFw_tree w ti t H Gt). assert (Ws := WFw_tree w sti st H Gs).
  unfold op_add_tree. rewrite Gt, Gs, Ty.
  rewrite (any_collides_of_sibling t p st _ c Wt Ws); [reflexivity|now apply in_pre_f_top|now apply in_map|assumption].
Qed.

(* ---- the shortcuts ---- *)
Lemma index_by_id_in x ch : In x ch -> index_by_id (rid x) ch <> None.
Proof.
  induction ch as [|y ch IH]; intros H; [contradiction|]. cbn [index_by_id].
  destruct (Nat.eqb (rid y) (rid x)) eqn:E; [discriminate|]. destruct H as [->|H]; [rewrite Nat.eqb_refl in E; discriminate|].
  destruct (index_by_id (rid x) ch); [discriminate|]. now apply IH.
Qed.

Lemma before_ok_node x ch : In x ch -> before_ok (NNode (rid x)) ch = true.
Proof. intros H. cbn [before_ok]. assert (X := index_by_id_in x ch H). now destruct (index_by_id (rid x) ch). Qed.

Theorem append_child_refused w ti n d explicit k t id :
  WFw w -> get_tree w ti = Some t ->
  (match explicit with Some e => Some e | None => calc_id (calc t) d end) = Some id ->
  sibling_with (forest_of t) n id 0 ->
  fst (op_shortcut w ti n SAppendChild d explicit k) = Err EUnique.
Proof.
  intros H Gt Eid S. unfold op_shortcut. rewrite Gt. apply (add_refused w ti n d explicit k BNone t id); auto.
Qed.

Theorem prepend_child_refused w ti n d explicit k t id :
  WFw w -> get_tree w ti = Some t ->
  (match explicit with Some e => Some e | None => calc_id (calc t) d end) = Some id ->
  sibling_with (forest_of t) n id 0 ->
  fst (op_shortcut w ti n SPrependChild d explicit k) = Err EUnique.
Proof.
  intros H Gt Eid S. unfold op_shortcut. rewrite Gt. destruct S as (ch & c & Gc & Hc & Ed & Nc). rewrite Gc.
  destruct ch as [|c0 ch]; [contradiction|].
  apply (add_refused w ti n d explicit k _ t id); auto.
  - now exists (c0 :: ch), c.
  - intros ch' Gc'. rewrite Gc in Gc'. injection Gc' as <-. apply before_ok_node. now left.
Qed.

(* the sibling list of a node is the child list of its parent *)
Lemma siblings_are_children t n p q0 i l ch : WF t ->
  parent_of n (forest_of t) = Some p -> node_loc n (forest_of t) = Some (q0, i, l) ->
  children_of p (forest_of t) = Some ch -> l = ch.
Proof.
  intros H Gp E Gc. set (f := forest_of t) in *. assert (ND := wf_nodup t H). assert (Z := wf_pos t H). fold f in ND, Z.
  destruct (node_loc_spec n f q0 i l E) as (G & s & N & R & _ & Ps).
  destruct (children_of_split _ _ _ Gc) as (pq & Gpp & Gch).
  apply (parent_of_rows n f p ND) in Gp. destruct Gp as (inf & Row).
  rewrite <- (parent_path_owner p f pq ch Gpp Gch) in Row.
  destruct (rows_owner_member pq f ch n inf ND Z Gch Row) as (x & Hx & Rx & _).
  assert (x = s).
  { apply (node_unique f); auto; [|congruence]. apply (get_ch_pre pq f ch Gch). now apply in_pre_f_top. }
  subst x. apply (CL_unique f l ch s ND Z); [now apply (get_ch_CL q0)|now apply (get_ch_CL pq)|now apply nth_error_In in N|assumption].
Qed.

Theorem prepend_sibling_refused w ti n d explicit k t id p s :
  WFw w -> get_tree w ti = Some t ->
  parent_of n (forest_of t) = Some p -> get_node n (forest_of t) = Some s ->
  (match explicit with Some e => Some e | None => calc_id (calc t) d end) = Some id ->
  sibling_with (forest_of t) p id 0 ->
  fst (op_shortcut w ti n SPrependSibling d explicit k) = Err EUnique.
Proof.
  intros H Gt Gp Gn Eid S. assert (Wt := WFw_tree w ti t H Gt). unfold op_shortcut. rewrite Gt, Gp, Gn.
  apply (add_refused w ti p d explicit _ _ t id); auto.
  intros ch Gc. destruct (get_node_loc n _ s Gn) as (q0 & i & l & E & N).
  rewrite <- (siblings_are_children t n p q0 i l ch Wt Gp E Gc).
  destruct (get_node_spec n _ s Gn) as (_ & <-). apply before_ok_node. now apply nth_error_In in N.
Qed.

Theorem append_sibling_refused w ti n d explicit k t id p s :
  WFw w -> get_tree w ti = Some t ->
  parent_of n (forest_of t) = Some p -> get_node n (forest_of t) = Some s ->
  (match explicit with Some e => Some e | None => calc_id (calc t) d end) = Some id ->
  sibling_with (forest_of t) p id 0 ->
  fst (op_shortcut w ti n SAppendSibling d explicit k) = Err EUnique.
Proof.
  intros H Gt Gp Gn Eid Sb. assert (Wt := WFw_tree w ti t H Gt). unfold op_shortcut. rewrite Gt, Gp, Gn.
  destruct (get_node_loc n _ s Gn) as (q0 & i & l & E & N). rewrite E.
  apply (add_refused w ti p d explicit _ _ t id); auto.
  intros ch Gc. rewrite <- (siblings_are_children t n p q0 i l ch Wt Gp E Gc).
  destruct (nth_error l (S i)) as [nx|] eqn:Nx; [|reflexivity]. apply before_ok_node. now apply nth_error_In in Nx.
Qed.

(* ---- the uniqueness test of Tree._register is exactly the collision predicate ---- *)
Lemma collides_sound t p pq ch d :
  WF t -> parent_path p (forest_of t) = Some pq -> get_ch pq (forest_of t) = Some ch ->
  collides t p d = true -> In d (map rdid ch).
Proof.
  intros H Gp G Col. set (f := forest_of t) in *. assert (ND := wf_nodup t H). assert (Z := wf_pos t H). fold f in ND, Z.
  unfold collides in Col. apply existsb_exists in Col. destruct Col as (c & Hc & Pc).
  apply (idx_get_keys t c d H) in Hc. fold f in Hc, Pc.
  destruct (parent_of c f) as [q|] eqn:Pq; [|discriminate]. apply Nat.eqb_eq in Pc. subst q.
  apply (parent_of_rows c f p ND) in Pq. destruct Pq as (inf & Row).
  rewrite <- (parent_path_owner p f pq ch Gp G) in Row.
  destruct (rows_owner_member pq f ch c inf ND Z G Row) as (x & Hx & Rx & _).
  assert (Px : In x (pre_f f)) by (apply (get_ch_pre pq f ch G); now apply in_pre_f_top).
  assert (K := keys_in f x Px). rewrite Rx in K.
  assert (NK : NoDup (map fst (keys f))) by (now rewrite keys_fst).
  assert (E := NoDup_map_inj fst _ _ _ NK K Hc eq_refl). injection E as <-. now apply in_map.
Qed.

Theorem collides_iff_sibling t p ch d : WF t -> children_of p (forest_of t) = Some ch ->
  (collides t p d = true <-> sibling_with (forest_of t) p d 0).
Proof.
  intros H Gc. split; [|now apply collides_of_sibling].
  intros Col. destruct (children_of_split _ _ _ Gc) as (pq & Gp & G).
  assert (X := collides_sound t p pq ch d H Gp G Col). apply in_map_iff in X. destruct X as (c & Ed & Hc).
  exists ch, c. repeat split; auto. intros Ez. apply (wf_pos t H). rewrite <- Ez.
  unfold ids. apply in_map. apply (get_ch_pre pq _ ch G). now apply in_pre_f_top.
Qed.

(* no over-refusal on the add route: without a collision (and with a valid [before]) the node is added *)
Theorem add_accepted w ti p d explicit k b t id ch :
  WFw w -> get_tree w ti = Some t -> children_of p (forest_of t) = Some ch ->
  (match explicit with Some e => Some e | None => calc_id (calc t) d end) = Some id ->
  ~ sibling_with (forest_of t) p id 0 -> before_ok (norm_before b) ch = true ->
  fst (op_add w ti p d explicit k b) = Ok [next w].
Proof.
  intros H Gt Gc Eid NS Hb. assert (Wt := WFw_tree w ti t H Gt).
  destruct (children_of_split _ _ _ Gc) as (pq & Gp & G).
  unfold op_add. rewrite Gt, Gp, G, Hb. cbn [negb]. rewrite Eid.
  destruct (collides t p id) eqn:Col; [|reflexivity]. exfalso. apply NS. now apply (collides_iff_sibling t p ch id Wt Gc).
Qed.

(* ---- from_dict: an item whose data_id is already below its parent stops the whole call ---- *)
Theorem from_dict_item_refused w ti p d e ch t id :
  WFw w -> get_tree w ti = Some t ->
  (match e with Some x => Some x | None => calc_id (calc t) d end) = Some id ->
  sibling_with (forest_of t) p id 0 ->
  fst (from_dict_item ti p (DI d e ch) w) = Err EUnique.
Proof.
  intros H Gt Eid S. cbn [from_dict_item].
  assert (X := add_refused w ti p d e None BNone t id H Gt Eid S (fun _ _ => eq_refl)).
  destruct (op_add w ti p d e None BNone) as [[r|err] w1]; cbn [fst] in X; [discriminate|]. now injection X as ->.
Qed.

Lemma from_dict_items_err ti p x l w err : fst (from_dict_item ti p x w) = Err err ->
  fst (from_dict_items ti p (x :: l) w) = Err err.
Proof. cbn [from_dict_items]. destruct (from_dict_item ti p x w) as [[r|e0] w2]; cbn [fst]; [discriminate|auto]. Qed.

Lemma from_dict_items_step ti p x l w r w2 : from_dict_item ti p x w = (Ok r, w2) ->
  from_dict_items ti p (x :: l) w = from_dict_items ti p l w2.
Proof. cbn [from_dict_items]. now intros ->. Qed.

(* set_data(new data): the id calculated from the new data is a sibling's *)
Theorem set_data_by_data_refused w ti n t s q0 i l x d e wcl :
  WFw w -> get_tree w ti = Some t -> get_node n (forest_of t) = Some s ->
  Z.eqb (d_obj d) (i_obj (rinfo s)) = false ->
  calc_id (calc t) d = Some e -> e <> rdid s ->
  (Nat.ltb 1 (length (idx_get (rdid s) (idx t))) = false \/ wcl = Some false) ->
  node_loc n (forest_of t) = Some (q0, i, l) -> In x l -> rid x <> n -> rdid x = e ->
  fst (op_set_data w ti n (Some d) None wcl) = Err EUnique.
Proof.
  intros H Gt Gn Ob Ce Ne Hc E Hx Nx Ex.
  rewrite op_set_data_eq, Gt, Gn. cbn [sd_new_data]. rewrite Ob. cbn [sd_did']. rewrite Ce. cbn [option_map sd_new_did].
  replace (did_eqb e (rdid s)) with false.
  - apply (set_data_refused_single w ti n t s q0 i l x (Some d) e wcl); auto.
  - symmetry. destruct (did_eqb e (rdid s)) eqn:Q; [|reflexivity]. apply did_eqb_eq in Q. contradiction.
Qed.
