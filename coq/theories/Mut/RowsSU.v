(* Sibling uniqueness read off the rows: no two rows with the same (parent, data_id). *)
From Coq Require Import List ZArith Bool Arith Lia Permutation.
From NT Require Import Sx Rose ListFacts RoseFacts Surgery SurgeryFacts Machine WF MachineFacts PreserveSteps.
Import ListNotations.

Lemma rows_t_par_in t o r : In r (rows_t o t) -> r_par r = o \/ In (r_par r) (ids_t t).
Proof.
  intros H. destruct (rows_par_t t o r H) as [E|E]; [now left|right]. now rewrite rows_ids_t in E.
Qed.

(* a row of [rows o f] whose parent is the owner [o] (not itself a node of f) is a top-level node *)
Lemma rows_owner_top f o r : ~ In o (ids f) -> In r (rows o f) -> r_par r = o -> exists x, In x f /\ rid x = r_id r /\ rinfo x = r_info r.
Proof.
  intros No H E. destruct r as [[p c] inf]. cbn in E. subst p.
  destruct (proj2 rows_member f o o c inf H) as [(_ & x & Hx)|(s & Hs & Rs & _)]; [now exists x|].
  exfalso. apply No. rewrite <- Rs. unfold ids. now apply in_map.
Qed.

Lemma rows_SU_fwd :
  (forall t, SU (rch t) -> NoDup (ids_t t) -> NoDup (map r_pd (rows (rid t) (rch t)))) /\
  (forall f o, SU f -> NoDup (ids f) -> ~ In o (ids f) -> NoDup (map r_pd (rows o f))).
Proof.
  apply rt_forest_ind.
  - intros id i ch IH S ND. cbn [rid rch] in *. rewrite ids_t_unfold in ND. cbn [rid rch] in ND.
    inversion ND as [|x l H1 H2]; subst. now apply IH.
  - intros o _ _ _. constructor.
  - intros t f IHt IHf o S ND No.
    assert (St : SU (rch t)) by (apply (SU_child _ t S); now left).
    assert (Sf : SU f) by (apply (SU_remove [] t f S)).
    change (t :: f) with ([t] ++ f) in ND, No. rewrite ids_app, ids_single in ND, No.
    assert (NDt := NoDup_app_l _ _ ND). assert (NDf := NoDup_app_r _ _ ND).
    assert (Nof : ~ In o (ids f)) by (intros X; apply No, in_or_app; now right).
    assert (Not : ~ In o (ids_t t)) by (intros X; apply No, in_or_app; now left).
    rewrite rows_cons. cbn [map]. rewrite map_app. constructor.
    + intros X. apply in_app_or in X. destruct X as [X|X].
      * apply in_map_iff in X. destruct X as (r & E & Hr). assert (Ep : r_par r = o) by (unfold r_pd in E; now injection E).
        apply rows_par in Hr. rewrite Ep in Hr. destruct Hr as [Hr|Hr].
        -- apply Not. rewrite ids_t_unfold, <- Hr. now left.
        -- apply Not. rewrite ids_t_unfold. now right.
      * apply in_map_iff in X. destruct X as (r & E & Hr). assert (Ep : r_par r = o) by (unfold r_pd in E; now injection E).
        destruct (rows_owner_top f o r Nof Hr Ep) as (x & Hx & _ & Ix).
        apply SU_top in S. cbn [map] in S. inversion S as [|y l H1 H2]; subst. apply H1.
        apply in_map_iff. exists x. split; [|assumption]. assert (Ed : r_did r = rdid t) by (unfold r_pd, r_did, rdid in *; cbn in E; congruence). unfold rdid at 1. rewrite Ix. exact Ed.
    + apply NoDup_app_intro; [now apply IHt|now apply IHf|].
      intros pd X Y. apply in_map_iff in X. destruct X as (r1 & E1 & H1). apply in_map_iff in Y. destruct Y as (r2 & E2 & H2).
      assert (Ep : r_par r1 = r_par r2) by (unfold r_pd in *; congruence).
      apply rows_par in H1. apply rows_par in H2.
      assert (P1 : In (r_par r1) (ids_t t)) by (rewrite ids_t_unfold; destruct H1 as [->|H1]; [now left|now right]).
      destruct H2 as [H2|H2]; [apply Not; congruence|]. apply (NoDup_app_disj _ _ (r_par r1) ND P1). congruence.
Qed.

Lemma rows_SU_bwd :
  (forall t o, NoDup (map r_pd (rows_t o t)) -> SU (rch t)) /\
  (forall f o, NoDup (map r_pd (rows o f)) -> SU f).
Proof.
  apply rt_forest_ind.
  - intros id i ch IH o ND. cbn [rows_t map rch] in *. inversion ND as [|x l H1 H2]; subst. now apply (IH id).
  - intros o _. constructor; [constructor|intros t []].
  - intros t f IHt IHf o ND. cbn [flat_map] in ND. rewrite map_app in ND.
    assert (St := IHt o (NoDup_app_l _ _ ND)). assert (Sf := IHf o (NoDup_app_r _ _ ND)).
    constructor.
    + cbn [map]. constructor; [|now apply SU_top].
      intros X. apply in_map_iff in X. destruct X as (x & E & Hx).
      apply (NoDup_app_disj _ _ (o, rdid t) ND).
      * rewrite rows_t_unfold. now left.
      * apply in_map_iff. exists (o, rid x, rinfo x). split; [unfold r_pd, r_did; cbn; unfold rdid in E; now rewrite E|now apply rows_top].
    + intros x [<-|Hx]; [assumption|now apply (SU_child f)].
Qed.

Lemma SU_rows f : NoDup (ids f) -> ~ In 0 (ids f) -> (SU f <-> NoDup (map r_pd (rows 0 f))).
Proof. intros ND Z. split; [intros S; now apply (proj2 rows_SU_fwd)|apply (proj2 rows_SU_bwd)]. Qed.
