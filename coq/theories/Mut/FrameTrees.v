(* Frame across trees: an operation changes only the tree it names; every other
   tree of the world stays exactly as it is (forest, registry, index), and trees
   are only ever appended.  This is the C04 frame condition at the granularity
   of trees and the "source unchanged / independent" half of C07. *)
From Coq Require Import List ZArith Bool Arith Lia.
From NT Require Import Sx Rose Surgery Machine Effects.
Import ListNotations.

Definition ext (ti : nat) (w w' : world) : Prop :=
  length (trees w) <= length (trees w') /\
  forall tj, tj <> ti -> tj < length (trees w) -> get_tree w' tj = get_tree w tj.

Lemma ext_refl ti w : ext ti w w.
Proof. split; [lia|reflexivity]. Qed.

Lemma ext_trans ti w1 w2 w3 : ext ti w1 w2 -> ext ti w2 w3 -> ext ti w1 w3.
Proof.
  intros (L1 & H1) (L2 & H2). split; [lia|]. intros tj Hn Hl. rewrite H2 by (auto; lia). now apply H1.
Qed.

Lemma upd_nth_length {X} (g : X -> X) : forall l i, length (upd_nth i g l) = length l.
Proof. induction l as [|x l IH]; intros [|i]; cbn; auto. Qed.

Lemma ext_next ti w n : ext ti w (W (trees w) n).
Proof. split; [cbn; lia|reflexivity]. Qed.

Lemma ext_put ti w n t' : ext ti w (put_tree (W (trees w) n) ti t').
Proof.
  split; [unfold put_tree; cbn [trees]; rewrite upd_nth_length; lia|].
  intros tj Hn _. rewrite get_put_other by congruence. reflexivity.
Qed.

Lemma ext_put' ti w t' : ext ti w (put_tree w ti t').
Proof. destruct w as [ts n]. apply (ext_put ti (W ts n) n). Qed.

Lemma ext_put_bump ti w k t' : ext ti w (put_tree (bump w k) ti t').
Proof. apply (ext_put ti w (next w + k)). Qed.

Lemma ext_app ti w n t : ext ti w (W (trees w ++ [t]) n).
Proof.
  split; [cbn; rewrite app_length; lia|]. intros tj _ Hl. unfold get_tree. cbn [trees]. now rewrite nth_error_app1.
Qed.

(* the frame holds for any tree index, so it can be weakened to the one we need *)
#[local] Hint Resolve ext_refl ext_next ext_put ext_put' ext_put_bump ext_app : extdb.

Ltac ext_step :=
  match goal with
  | |- ext _ _ (snd (_, _)) => cbn [snd]
  | |- ext _ _ (snd (match ?x with _ => _ end)) => destruct x eqn:?
  | |- ext _ _ (snd (if ?c then _ else _)) => destruct c eqn:?
  | |- ext _ _ (snd (let (_, _) := ?x in _)) => destruct x eqn:?
  end.
Ltac ext_crush := repeat ext_step; try solve [unfold bump; auto with extdb].

Lemma op_add_ext w ti p d e k b : ext ti w (snd (op_add w ti p d e k b)).
Proof. unfold op_add. ext_crush. Qed.

Lemma op_add_node_ext w ti p sti src e k b deep : ext ti w (snd (op_add_node w ti p sti src e k b deep)).
Proof. unfold op_add_node. ext_crush. Qed.

Lemma add_nodes_ext ti p sti b deep : forall srcs w acc, ext ti w (snd (add_nodes w ti p sti srcs b deep acc)).
Proof.
  induction srcs as [|s srcs IH]; intros w acc; cbn [add_nodes]; [apply ext_refl|].
  pose proof (op_add_node_ext w ti p sti s None None b deep) as H.
  destruct (op_add_node w ti p sti s None None b deep) as [[r|x] w1]; cbn [snd] in *; [|exact H].
  eapply ext_trans; [exact H|apply IH].
Qed.

Lemma op_add_tree_ext w ti p sti b deep : ext ti w (snd (op_add_tree w ti p sti b deep)).
Proof.
  unfold op_add_tree. repeat ext_step; try solve [auto with extdb].
  all: match goal with H : add_nodes ?w ?ti ?p ?sti ?o ?b ?d ?a = (_, ?w') |- ext _ _ ?w' =>
         pose proof (add_nodes_ext ti p sti b d o w a) as X; rewrite H in X; exact X end.
Qed.

Lemma op_copy_to_ext w sti src ti target a b deep : ext ti w (snd (op_copy_to w sti src ti target a b deep)).
Proof.
  unfold op_copy_to. destruct a; [apply op_add_node_ext|].
  repeat ext_step; try solve [auto with extdb].
  all: match goal with H : add_nodes ?w ?ti ?p ?sti ?o ?b ?d ?a = (_, ?w') |- ext _ _ ?w' =>
         pose proof (add_nodes_ext ti p sti b d o w a) as X; rewrite H in X; exact X end.
Qed.

Lemma op_tree_copy_ext ti w sti : ext ti w (snd (op_tree_copy w sti)).
Proof. unfold op_tree_copy. ext_crush. Qed.

Lemma op_node_copy_ext ti w sti src a : ext ti w (snd (op_node_copy w sti src a)).
Proof. unfold op_node_copy. ext_crush. Qed.

Lemma op_move_ext w ti n tti target b : ext ti w (snd (op_move w ti n tti target b)).
Proof. unfold op_move. ext_crush. Qed.

Lemma op_remove_ext w ti n keep wc : ext ti w (snd (op_remove w ti n keep wc)).
Proof. unfold op_remove. ext_crush. Qed.

Lemma op_remove_children_ext w ti n : ext ti w (snd (op_remove_children w ti n)).
Proof. unfold op_remove_children. ext_crush. Qed.

Lemma op_sort_ext w ti p k rv dp : ext ti w (snd (op_sort w ti p k rv dp)).
Proof. unfold op_sort. ext_crush. Qed.

Lemma op_set_data_ext w ti n d e wc : ext ti w (snd (op_set_data w ti n d e wc)).
Proof. unfold op_set_data. ext_crush. Qed.

Lemma op_rename_ext w ti n d : ext ti w (snd (op_rename w ti n d)).
Proof. unfold op_rename. repeat ext_step; try solve [auto with extdb]. apply op_set_data_ext. Qed.

Lemma op_meta_ext w ti n o : ext ti w (snd (op_meta w ti n o)).
Proof. unfold op_meta. ext_crush. Qed.

Lemma op_shortcut_ext w ti n how d e k : ext ti w (snd (op_shortcut w ti n how d e k)).
Proof.
  unfold op_shortcut. destruct (get_tree w ti); [|apply ext_refl].
  destruct how; repeat ext_step; try solve [auto with extdb]; apply op_add_ext.
Qed.

Lemma op_del_ext w ti k : ext ti w (snd (op_del w ti k)).
Proof. unfold op_del. repeat ext_step; try solve [auto with extdb]. apply op_remove_ext. Qed.

Lemma op_filter_ext w ti n vd : ext ti w (snd (op_filter w ti n vd)).
Proof. unfold op_filter. ext_crush. Qed.

Lemma from_dict_item_ext ti : forall it p w, ext ti w (snd (from_dict_item ti p it w)).
Proof.
  fix IH 1. intros [d e ch] p w. cbn [from_dict_item].
  pose proof (op_add_ext w ti p d e None BNone) as H.
  destruct (op_add w ti p d e None BNone) as [[r|x] w1]; cbn [snd] in *; [|exact H].
  destruct r as [|n [|? ?]]; cbn [snd]; try exact H.
  revert w1 H. induction ch as [|c ch IHch]; intros w1 H; [exact H|].
  pose proof (IH c n w1) as Hc.
  destruct (from_dict_item ti n c w1) as [[r2|x2] w2]; cbn [snd] in *.
  - apply IHch. eapply ext_trans; eassumption.
  - eapply ext_trans; eassumption.
Qed.

Lemma from_dict_items_ext ti p : forall l w, ext ti w (snd (from_dict_items ti p l w)).
Proof.
  induction l as [|x l IH]; intros w; cbn [from_dict_items]; [apply ext_refl|].
  pose proof (from_dict_item_ext ti x p w) as H.
  destruct (from_dict_item ti p x w) as [[r|e] w2]; cbn [snd] in *; [|exact H].
  eapply ext_trans; [exact H|apply IH].
Qed.

Lemma op_from_dict_ext w ti p items : ext ti w (snd (op_from_dict w ti p items)).
Proof.
  unfold op_from_dict. repeat ext_step; try solve [auto with extdb].
  match goal with H : from_dict_items ?ti ?p ?l ?w = (_, ?w') |- ext _ _ ?w' =>
    pose proof (from_dict_items_ext ti p l w) as X; rewrite H in X; exact X end.
Qed.

(* Tree.from_dict only appends a tree (or nothing): every existing tree is untouched *)
Lemma op_tree_from_dict_ext ti w items : ti = length (trees w) -> ext ti w (snd (op_tree_from_dict w items)).
Proof.
  intros ->. unfold op_tree_from_dict.
  pose proof (from_dict_items_ext (length (trees w)) 0 items (W (trees w ++ [TS [] [] [] false None]) (next w))) as H.
  destruct (from_dict_items _ 0 items _) as [[r|e] w1]; cbn [snd] in *.
  - eapply ext_trans; [apply (ext_app _ w (next w))|exact H].
  - apply ext_next.
Qed.

(* the tree an operation works on *)
Definition op_target (w : world) (o : op) : nat :=
  match o with
  | OAdd ti _ _ _ _ _ | OShort ti _ _ _ _ _ | OAddNode ti _ _ _ _ _ _ _ | OAddTree ti _ _ _ _
  | OCopyTo _ _ ti _ _ _ _ | OMove ti _ _ _ _ | ORemove ti _ _ _ | ORemoveChildren ti _
  | OSort ti _ _ _ _ | OSetData ti _ _ _ _ | ORename ti _ _ | OMeta ti _ _ | OClear ti | ODel ti _
  | OFilter ti _ _ | OFromDict ti _ _ => ti
  | OTreeCopy _ | ONodeCopy _ _ _ | ONewTree _ _ | OTreeFromDict _ => length (trees w)
  end.

(* every public operation, whatever its outcome (success, refusal, failing callback):
   trees other than the one it works on are unchanged, existing trees are never dropped.
   In particular the SOURCE of every copy (add(node), add(tree), copy_to, Tree.copy, Node.copy)
   is unchanged when it is another tree. *)
Theorem step_frame_trees w o : ext (op_target w o) w (snd (step w o)).
Proof.
  destruct o; cbn [step op_target].
  - apply op_add_ext.
  - apply op_shortcut_ext.
  - apply op_add_node_ext.
  - apply op_add_tree_ext.
  - apply op_copy_to_ext.
  - apply op_tree_copy_ext.
  - apply op_node_copy_ext.
  - apply op_move_ext.
  - apply op_remove_ext.
  - apply op_remove_children_ext.
  - apply op_sort_ext.
  - apply op_set_data_ext.
  - apply op_rename_ext.
  - apply op_meta_ext.
  - cbn [snd]. apply ext_app.
  - apply op_remove_children_ext.
  - apply op_del_ext.
  - apply op_filter_ext.
  - apply op_from_dict_ext.
  - now apply op_tree_from_dict_ext.
Qed.

(* copies read their source: when the source is another tree it is left exactly as it was *)
Corollary copy_source_unchanged w o sti :
  sti <> op_target w o -> sti < length (trees w) -> get_tree (snd (step w o)) sti = get_tree w sti.
Proof. intros H L. now apply (step_frame_trees w o). Qed.
