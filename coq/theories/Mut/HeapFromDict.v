(* Heap refinement: from_dict / Tree.from_dict, with the `except: self.remove_children(); raise`
   handler of every level (fix D48). *)
From Coq Require Import List ZArith Bool Arith Lia Permutation.
From NT Require Import Sx Rose ListFacts RoseFacts Surgery SurgeryFacts Machine WF MachineFacts PreserveSteps PreserveOps
  PreserveMore PreserveKeepClones Heap HeapProofs HeapRemove HeapMore HeapMove HeapCopy HeapSortDeep HeapRefine HeapFilter.
Import ListNotations.

(* ---- a tree state is determined by its rows (through the canonical heap of a state) ---- *)
Definition heap_of (t : tstate) : hstate :=
  let R := rows 0 (forest_of t) in
  HS (fun n => option_map r_par (find (fun r => Nat.eqb (r_id r) n) R))
     (fun p => kids p R)
     (fun n => Nat.eqb n 0 || memn n (ids (forest_of t)))
     (fun n => match find (fun r => Nat.eqb (r_id r) n) R with Some r => r_info r | None => dummy_i end)
     (ids (forest_of t)) (reg t) (idx t) (typed t) (calc t) true.

Lemma find_row R r : NoDup (map r_id R) -> In r R -> find (fun x => Nat.eqb (r_id x) (r_id r)) R = Some r.
Proof.
  induction R as [|x R IH]; intros ND H; [contradiction|]. cbn [map] in ND. inversion ND as [|y ys N1 N2]; subst. cbn [find].
  destruct (Nat.eqb (r_id x) (r_id r)) eqn:E.
  - apply Nat.eqb_eq in E. destruct H as [->|H]; [reflexivity|]. exfalso. apply N1. rewrite E. now apply in_map.
  - destruct H as [->|H]; [rewrite Nat.eqb_refl in E; discriminate|now apply IH].
Qed.

Lemma Rep_heap_of t t' : NoDup (ids (forest_of t)) -> ~ In 0 (ids (forest_of t)) ->
  rows 0 (forest_of t') = rows 0 (forest_of t) -> reg t' = reg t -> idx t' = idx t -> typed t' = typed t -> calc t' = calc t ->
  Rep (heap_of t) t'.
Proof.
  intros ND Z Er E1 E2 E3 E4. assert (NDR : NoDup (map r_id (rows 0 (forest_of t)))) by (now rewrite rows_ids).
  constructor; cbn [heap_of hreg hidx htyped hcalc hch hpar htr hinf hall]; auto; rewrite ?Er.
  - reflexivity.
  - intros r Hr. rewrite (find_row _ r NDR Hr). cbn [option_map]. refine (conj eq_refl (conj _ eq_refl)).
    apply orb_true_iff. right. apply memn_In. now apply (rows_id_in _ 0).
  - split; [|reflexivity]. destruct (find (fun r => Nat.eqb (r_id r) 0) (rows 0 (forest_of t))) as [r|] eqn:E; [|reflexivity].
    apply find_some in E. destruct E as [Hr E]. apply Nat.eqb_eq in E. exfalso. apply Z. rewrite <- E. now apply (rows_id_in _ 0).
  - rewrite <- (rows_ids (forest_of t') 0), Er, rows_ids. apply incl_refl.
Qed.

Theorem tstate_eq_rows t t' : WF t -> WF t' ->
  rows 0 (forest_of t') = rows 0 (forest_of t) -> reg t' = reg t -> idx t' = idx t -> typed t' = typed t -> calc t' = calc t -> t' = t.
Proof.
  intros W W' Er E1 E2 E3 E4.
  assert (R1 : Rep (heap_of t) t) by (apply Rep_heap_of; auto; apply W).
  assert (R2 : Rep (heap_of t) t') by (apply Rep_heap_of; auto; apply W).
  assert (A1 := proj2 (abs_correct _ _ W R1)). assert (A2 := proj2 (abs_correct _ _ W' R2)). congruence.
Qed.

(* ---- small list facts ---- *)
Lemma filter_none {X} (P : X -> bool) l : (forall x, In x l -> P x = false) -> filter P l = [].
Proof. induction l as [|a l IH]; intros H; [reflexivity|]. cbn [filter]. rewrite (H a (or_introl eq_refl)). apply IH. intros x Hx. apply H. now right. Qed.

Lemma filter_all {X} (P : X -> bool) l : (forall x, In x l -> P x = true) -> filter P l = l.
Proof. induction l as [|a l IH]; intros H; [reflexivity|]. cbn [filter]. rewrite (H a (or_introl eq_refl)). f_equal. apply IH. intros x Hx. apply H. now right. Qed.

Lemma filter_filter_imp {X} (P Q : X -> bool) l : (forall x, In x l -> P x = true -> Q x = true) -> filter P (filter Q l) = filter P l.
Proof.
  induction l as [|a l IH]; intros H; [reflexivity|]. cbn [filter].
  assert (IH' := IH (fun x Hx => H x (or_intror Hx))). destruct (Q a) eqn:Eq; cbn [filter]; [now rewrite IH'|].
  destruct (P a) eqn:Ep; [|assumption]. rewrite (H a (or_introl eq_refl) Ep) in Eq. discriminate.
Qed.

Lemma remove_first_last n l : ~ In n l -> remove_first n (l ++ [n]) = l.
Proof.
  induction l as [|x l IH]; intros H; cbn [app remove_first]; [now rewrite Nat.eqb_refl|].
  destruct (Nat.eqb x n) eqn:E; [apply Nat.eqb_eq in E; exfalso; apply H; now left|]. f_equal. apply IH. intros Y. apply H. now right.
Qed.

(* registering and unregistering a fresh identity leaves the index as it was *)
Lemma idx_del_add d n ix : Forall (fun e => snd e <> []) ix -> (forall e, In e ix -> ~ In n (snd e)) ->
  idx_del d n (idx_add d n ix) = ix.
Proof.
  intros NE Fn. unfold idx_add, idx_del. destruct (idx_has d ix) eqn:E.
  - clear E. induction ix as [|e ix IH]; [reflexivity|]. cbn [map flat_map]. inversion NE as [|x l N1 N2]; subst.
    rewrite IH; [|assumption|intros x Hx; apply Fn; now right].
    destruct (did_eqb (fst e) d) eqn:Ed; cbn [fst snd]; rewrite Ed; [|reflexivity].
    rewrite remove_first_last by (apply Fn; now left). destruct e as [k [|a l]]; cbn [fst snd] in *; [congruence|reflexivity].
  - rewrite flat_map_app. cbn [flat_map fst snd]. rewrite did_eqb_refl. cbn [remove_first]. rewrite Nat.eqb_refl, !app_nil_r.
    unfold idx_has in E. clear NE Fn. induction ix as [|e ix IH]; [reflexivity|]. cbn [existsb] in E. apply orb_false_iff in E. destruct E as [E1 E2].
    cbn [flat_map]. rewrite E1, (IH E2). reflexivity.
Qed.

Lemma fold_map {S X Y} (g : S -> Y -> S) (k : X -> Y) l : forall s, fold_left (fun a x => g a (k x)) l s = fold_left g (map k l) s.
Proof. induction l as [|x l IH]; intros s; [reflexivity|]. cbn [map fold_left]. apply IH. Qed.

Definition delr (ix : idxt) (r : row) : idxt := idx_del (r_did r) (r_id r) ix.

Lemma delr_comm s a b : delr (delr s a) b = delr (delr s b) a.
Proof. unfold delr. apply idx_del_comm. Qed.

Lemma fold_idx_rows o l ix : fold_left (fun a t => idx_del (rdid t) (rid t) a) (pre_f l) ix = fold_left delr (rows o l) ix.
Proof.
  transitivity (fold_left (fun a k => idx_del (snd k) (fst k) a) (map (fun t => (rid t, rdid t)) (pre_f l)) ix).
  - now rewrite <- fold_map.
  - change (map (fun t => (rid t, rdid t)) (pre_f l)) with (keys_of l). rewrite <- (rows_keys l o), <- fold_map. reflexivity.
Qed.

Lemma filter_reg_fold (P : nat -> bool) nodes : (forall s, In s nodes -> P (rid s) = false) ->
  forall r, filter P (fold_left (fun a t => reg_del (rid t) a) nodes r) = filter P r.
Proof.
  induction nodes as [|s nodes IH]; intros H r; [reflexivity|]. cbn [fold_left]. rewrite IH by (intros x Hx; apply H; now right).
  unfold reg_del. apply filter_filter_imp. intros x _ Px. apply negb_true_iff, Nat.eqb_neq. intros ->. rewrite (H s (or_introl eq_refl)) in Px. discriminate.
Qed.

Lemma reg_fold_filter nodes : forall r,
  fold_left (fun a t => reg_del (rid t) a) nodes r = filter (fun m => negb (memn m (map rid nodes))) r.
Proof.
  induction nodes as [|s nodes IH]; intros r; cbn [fold_left map].
  - symmetry. now apply filter_all.
  - rewrite IH. unfold reg_del. induction r as [|x r IHr]; [reflexivity|]. cbn [filter].
    change (memn x (rid s :: map rid nodes)) with (Nat.eqb x (rid s) || memn x (map rid nodes)).
    destruct (Nat.eqb x (rid s)); cbn [negb orb filter]; rewrite IHr; reflexivity.
Qed.

(* rows outside the block of a parent have no parent inside the block *)
Lemma out_par f pq ch A B : NoDup (ids f) -> ~ In 0 (ids f) -> get_ch pq f = Some ch ->
  rows 0 f = A ++ rows (owner pq f 0) ch ++ B -> forall r, In r (A ++ B) -> ~ In (r_par r) (ids ch).
Proof.
  intros ND Z G E1. set (p := owner pq f 0) in *. assert (NDR : NoDup (map r_id (rows 0 f))) by (now rewrite rows_ids).
  intros r Hr Y. assert (Hr' : In r (rows 0 f)) by (rewrite E1, !in_app_iff in *; tauto).
  unfold ids in Y. apply in_map_iff in Y. destruct Y as (y & Ry & Hy).
  destruct r as [[q c] inf]. cbn [r_par fst snd] in Ry.
  destruct (proj2 rows_member f 0 q c inf Hr') as [(E0 & _)|(s' & Ps' & Rs' & x & Hx & Rx & Ix)].
  - apply Z. rewrite <- E0, <- Ry. unfold ids. apply in_map. now apply (get_ch_pre pq f ch G).
  - assert (s' = y) by (apply (node_unique f); auto; [now apply (get_ch_pre pq f ch G)|congruence]). subst s'.
    assert (Pc : In x (pre_f ch)) by (now apply (pre_f_child_closed ch y)).
    assert (InBlock : In (q, c, inf) (rows p ch)).
    { rewrite <- Rs', <- Rx, <- Ix. now apply (proj2 rows_child_of). }
    rewrite E1 in NDR. rewrite !map_app in NDR.
    assert (I1 : In c (map r_id (rows p ch))) by (change c with (r_id (q, c, inf)); now apply in_map).
    apply in_app_or in Hr. destruct Hr as [Hr|Hr].
    + apply (NoDup_app_disj _ _ c NDR); [change c with (r_id (q, c, inf)); now apply in_map|apply in_or_app; now left].
    + apply NoDup_app_r in NDR. apply (NoDup_app_disj _ _ c NDR I1). change c with (r_id (q, c, inf)). now apply in_map.
Qed.

(* the rows after a node has been placed below a parent *)
Lemma add_rows f pq ch nb n inf : NoDup (ids f) -> ~ In 0 (ids f) -> get_ch pq f = Some ch ->
  exists X Y, rows 0 f = X ++ Y /\ rows 0 (upd_ch pq (place nb (T n inf [])) f) = X ++ (owner pq f 0, n, inf) :: Y.
Proof.
  intros ND Z G. destruct (ctx_kids pq f 0 ch ND Z G) as (A & B & E1 & E2 & _).
  destruct (place_split nb (T n inf []) ch) as (a & b & Ech & Epl).
  exists (A ++ rows (owner pq f 0) a), (rows (owner pq f 0) b ++ B). split.
  - rewrite E1, Ech, rows_app, <- !app_assoc. reflexivity.
  - rewrite (E2 (place nb (T n inf []))), Epl, rows_app, rows_cons. cbn [rid rinfo rch flat_map app]. rewrite <- !app_assoc. reflexivity.
Qed.

(* ---- the half-built state: the tree as it was, plus new rows hanging below p0 ---- *)
Section Good.
  Variables (N0 p0 : nat) (t0 : tstate).
  Hypothesis N0pos : 0 < N0.
  Hypothesis W0 : WF t0.
  Hypothesis Lt0 : forall m, In m (ids (forest_of t0)) -> m < N0.

  Definition oldr (r : row) : bool := r_id r <? N0.
  Definition newr (r : row) : bool := N0 <=? r_id r.

  Record GoodT (tx : tstate) : Prop := {
    g_wf : WF tx;
    g_rows : filter oldr (rows 0 (forest_of tx)) = rows 0 (forest_of t0);
    g_par : forall r, In r (rows 0 (forest_of tx)) -> N0 <= r_id r -> r_par r = p0 \/ (N0 <= r_par r /\ r_par r < r_id r);
    g_reg : filter (fun m => m <? N0) (reg tx) = reg t0;
    g_idx : fold_left delr (filter newr (rows 0 (forest_of tx))) (idx tx) = idx t0;
    g_typed : typed tx = typed t0;
    g_calc : calc tx = calc t0
  }.

  Lemma GoodT_init : GoodT t0.
  Proof.
    assert (Old : forall r, In r (rows 0 (forest_of t0)) -> r_id r < N0) by (intros r Hr; apply Lt0; now apply (rows_id_in _ 0)).
    constructor; auto.
    - apply filter_all. intros r Hr. apply Nat.ltb_lt. now apply Old.
    - intros r Hr Hn. apply Old in Hr. lia.
    - apply filter_all. intros m Hm. apply Nat.ltb_lt. apply Lt0. apply (Permutation_in _ (wf_reg t0 W0) Hm).
    - rewrite filter_none; [reflexivity|]. intros r Hr. apply Nat.leb_gt. now apply Old.
  Qed.

  Section One.
    Variable tx : tstate.
    Hypothesis G : GoodT tx.
    Let Rx := rows 0 (forest_of tx).

    Definition Closed (q : nat) : Prop := forall r, In r Rx -> r_par r = q -> N0 <= r_id r.

    Lemma old_row r : In r Rx -> r_id r < N0 -> In r (rows 0 (forest_of t0)).
    Proof. intros H L. rewrite <- (g_rows tx G). apply filter_In. split; [exact H|]. now apply Nat.ltb_lt. Qed.

    Lemma closed_new q : N0 <= q -> Closed q.
    Proof.
      intros Hq r Hr E. destruct (Nat.lt_ge_cases (r_id r) N0) as [L|L]; [|assumption]. exfalso.
      assert (X := rows_par _ 0 r (old_row r Hr L)). rewrite E in X. destruct X as [X|X].
      - lia.
      - apply Lt0 in X. lia.
    Qed.

    Lemma block_new : (forall t o, incl (rows_t o t) Rx -> Closed o -> forall r, In r (rows_t o t) -> N0 <= r_id r) /\
                      (forall l o, incl (rows o l) Rx -> Closed o -> forall r, In r (rows o l) -> N0 <= r_id r).
    Proof.
      apply rt_forest_ind.
      - intros id i ch IH o I C r Hr. cbn [rows_t] in *.
        assert (Hid : N0 <= id) by (apply (C (o, id, i)); [apply I; now left|reflexivity]).
        destruct Hr as [<-|Hr]; [exact Hid|]. apply (IH id); [|now apply closed_new|assumption].
        intros x Hx. apply I. now right.
      - intros o _ _ r [].
      - intros t f IHt IHf o I C r Hr. cbn [flat_map] in *. apply in_app_or in Hr. destruct Hr as [Hr|Hr].
        + apply (IHt o); auto. intros x Hx. apply I. apply in_or_app. now left.
        + apply (IHf o); auto. intros x Hx. apply I. apply in_or_app. now right.
    Qed.
  End One.

  Lemma fresh_groups t n : WF t -> ~ In n (ids (forest_of t)) -> forall e, In e (idx t) -> ~ In n (snd e).
  Proof.
    intros W Fn e He Hn. apply Fn. rewrite <- keys_fst.
    assert (X : In (n, fst e) (idx_flat (idx t))).
    { unfold idx_flat. apply in_flat_map. exists e. split; [assumption|]. apply in_map_iff. now exists n. }
    apply (Permutation_in _ (wf_idx t W)) in X. change n with (fst (n, fst e)). now apply in_map.
  Qed.

  (* STEP: a node with a fresh identity is appended below p0 or below a new node *)
  Lemma GoodT_add tx p pq ch n inf nb t' : GoodT tx ->
    parent_path p (forest_of tx) = Some pq -> get_ch pq (forest_of tx) = Some ch ->
    N0 <= n -> ~ In n (ids (forest_of tx)) -> (p = p0 \/ (N0 <= p /\ p < n)) ->
    t' = set_all tx (upd_ch pq (place nb (T n inf [])) (forest_of tx)) (reg tx ++ [n]) (idx_add (i_did inf) n (idx tx)) ->
    WF t' -> GoodT t'.
  Proof.
    intros G Gp Gc Hn Fn Hp -> W'. assert (W := g_wf tx G).
    destruct (add_rows (forest_of tx) pq ch nb n inf (wf_nodup tx W) (wf_pos tx W) Gc) as (X & Y & E1 & E2).
    rewrite (parent_path_owner p _ pq ch Gp Gc) in E2.
    assert (Nn : newr (p, n, inf) = true) by (apply Nat.leb_le; exact Hn).
    assert (On : oldr (p, n, inf) = false) by (apply Nat.ltb_ge; exact Hn).
    constructor; cbn [set_all forest_of reg idx typed calc]; try apply G; [assumption| | | |].
    - rewrite E2, filter_app. cbn [filter]. rewrite On, <- filter_app, <- E1. apply G.
    - intros r Hr Hr'. rewrite E2 in Hr. apply in_app_or in Hr. cbn [In] in Hr.
      destruct Hr as [Hr|[<-|Hr]]; [apply (g_par tx G); [rewrite E1; apply in_or_app; now left|assumption]|exact Hp|
                                    apply (g_par tx G); [rewrite E1; apply in_or_app; now right|assumption]].
    - rewrite filter_app. cbn [filter]. replace (n <? N0) with false by (symmetry; now apply Nat.ltb_ge). rewrite app_nil_r. apply G.
    - rewrite E2, filter_app. cbn [filter]. rewrite Nn.
      rewrite (fold_perm delr delr_comm _ ((p, n, inf) :: filter newr X ++ filter newr Y)) by (symmetry; apply Permutation_middle).
      cbn [fold_left]. unfold delr at 2. cbn [r_did r_id fst snd].
      rewrite idx_del_add; [|apply W|now apply fresh_groups]. rewrite <- filter_app, <- E1. apply G.
  Qed.

  (* STEP: the children of a new node are removed again *)
  Lemma GoodT_rc tx n t' : GoodT tx -> N0 <= n -> remove_kids tx n = Some t' -> GoodT t'.
  Proof.
    intros G Hn H. assert (W := g_wf tx G). destruct (WF_remove_kids tx n t' W H) as [W' _].
    unfold remove_kids in H. destruct (parent_path n (forest_of tx)) as [pq|] eqn:Gp; [|discriminate].
    destruct (get_ch pq (forest_of tx)) as [ch|] eqn:Gc; [|discriminate]. rewrite unregister_all_eq in H. injection H as <-.
    destruct (ctx_kids pq (forest_of tx) 0 ch (wf_nodup tx W) (wf_pos tx W) Gc) as (A & B & E1 & E2 & _).
    rewrite (parent_path_owner n _ pq ch Gp Gc) in *. specialize (E2 (fun _ => [])). cbn [flat_map app] in E2.
    assert (Blk : forall r, In r (rows n ch) -> N0 <= r_id r).
    { apply (proj2 (block_new tx G) ch n); [|now apply closed_new]. intros r Hr. rewrite E1. apply in_or_app. right. apply in_or_app. now left. }
    clear W'. constructor; cbn [set_all forest_of reg idx typed calc]; try apply G.
      assert (H : remove_kids tx n = Some (set_all tx (upd_ch pq (fun _ => []) (forest_of tx))
                   (fold_left (fun a t => reg_del (rid t) a) (pre_f ch) (reg tx)) (fold_left (fun a t => idx_del (rdid t) (rid t) a) (pre_f ch) (idx tx)))).
      { unfold remove_kids. rewrite Gp, Gc, unregister_all_eq. reflexivity. }
      exact (proj1 (WF_remove_kids tx n _ W H)).
    - rewrite E2, <- (g_rows tx G), E1, !filter_app. rewrite (filter_none oldr (rows n ch)); [reflexivity|].
      intros r Hr. apply Nat.ltb_ge. now apply Blk.
    - intros r Hr. apply (g_par tx G). rewrite E1. rewrite E2 in Hr. rewrite !in_app_iff in *. tauto.
    - rewrite filter_reg_fold; [apply G|]. intros s Hs. apply Nat.ltb_ge.
      assert (X : In (rid s) (map r_id (rows n ch))) by (rewrite rows_ids; unfold ids; now apply in_map).
      apply in_map_iff in X. destruct X as (r & <- & Hr). now apply Blk.
    - rewrite (fold_idx_rows n ch), E2, <- fold_left_app, <- (g_idx tx G), E1, !filter_app.
      rewrite (filter_all newr (rows n ch)) by (intros r Hr; apply Nat.leb_le; now apply Blk).
      apply (fold_perm delr delr_comm). rewrite app_assoc. rewrite (Permutation_app_comm (rows n ch)). now rewrite <- app_assoc.
  Qed.

  (* FINAL STEP: removing the children of p0 gives back the tree as it was *)
  Lemma GoodT_restore tx t' : GoodT tx -> (forall r, In r (rows 0 (forest_of t0)) -> r_par r <> p0) ->
    remove_kids tx p0 = Some t' -> t' = t0.
  Proof.
    intros G NoKids H. assert (W := g_wf tx G). destruct (WF_remove_kids tx p0 t' W H) as [W' _].
    unfold remove_kids in H. destruct (parent_path p0 (forest_of tx)) as [pq|] eqn:Gp; [|discriminate].
    destruct (get_ch pq (forest_of tx)) as [ch|] eqn:Gc; [|discriminate]. rewrite unregister_all_eq in H. injection H as <-.
    assert (ND := wf_nodup tx W). assert (Z := wf_pos tx W).
    destruct (ctx_kids pq (forest_of tx) 0 ch ND Z Gc) as (A & B & E1 & E2 & E3 & _).
    assert (OP := out_par (forest_of tx) pq ch A B ND Z Gc E1).
    rewrite (parent_path_owner p0 _ pq ch Gp Gc) in *. specialize (E2 (fun _ => [])). cbn [flat_map app] in E2.
    assert (Cp : Closed tx p0).
    { intros r Hr E. destruct (Nat.lt_ge_cases (r_id r) N0) as [L|L]; [|assumption]. exfalso.
      apply (NoKids r); [now apply (old_row tx G)|assumption]. }
    assert (Blk : forall r, In r (rows p0 ch) -> N0 <= r_id r).
    { apply (proj2 (block_new tx G) ch p0); [|exact Cp]. intros r Hr. rewrite E1. apply in_or_app. right. apply in_or_app. now left. }
    assert (Out : forall k r, r_id r < k -> In r (A ++ B) -> r_id r < N0).
    { induction k as [|k IH]; intros r Lk Hr; [lia|]. destruct (Nat.lt_ge_cases (r_id r) N0) as [L|L]; [assumption|]. exfalso.
      assert (Hr' : In r (rows 0 (forest_of tx))) by (rewrite E1, !in_app_iff in *; tauto).
      destruct (g_par tx G r Hr' L) as [E|[Q1 Q2]]; [now apply (E3 r)|].
      destruct (rows_par _ 0 r Hr') as [X|X]; [lia|]. rewrite <- (rows_ids _ 0) in X. apply in_map_iff in X. destruct X as (rq & Eq & Hq).
      rewrite E1 in Hq. apply in_app_or in Hq. rewrite in_app_iff in Hq.
      assert (Hq' : In rq (rows p0 ch) \/ In rq (A ++ B)) by (rewrite in_app_iff; tauto). destruct Hq' as [Hq'|Hq'].
      - apply (OP r Hr). rewrite <- Eq, <- (rows_ids ch p0). now apply in_map.
      - assert (X := IH rq ltac:(lia) Hq'). lia. }
    assert (OA : forall r, In r (A ++ B) -> r_id r < N0) by (intros r Hr; apply (Out (S (r_id r))); [lia|assumption]).
    apply (tstate_eq_rows t0 _ W0 W'); cbn [set_all forest_of reg idx typed calc]; try apply G.
    - rewrite E2, <- (g_rows tx G), E1, !filter_app. rewrite (filter_none oldr (rows p0 ch)) by (intros r Hr; apply Nat.ltb_ge; now apply Blk).
      cbn [app]. rewrite <- filter_app. symmetry. apply filter_all. intros r Hr. apply Nat.ltb_lt. now apply OA.
    - rewrite <- (g_reg tx G), reg_fold_filter. apply filter_ext_in. intros m Hm.
      apply (Permutation_in _ (wf_reg tx W)) in Hm. rewrite <- (rows_ids _ 0) in Hm. apply in_map_iff in Hm. destruct Hm as (r & <- & Hr).
      rewrite E1 in Hr. assert (Hr' : In r (rows p0 ch) \/ In r (A ++ B)) by (rewrite !in_app_iff in *; tauto). destruct Hr' as [Hr'|Hr'].
      + replace (r_id r <? N0) with false by (symmetry; apply Nat.ltb_ge; now apply Blk).
        apply negb_false_iff, memn_In. change (map rid (pre_f ch)) with (ids ch). rewrite <- (rows_ids ch p0). now apply in_map.
      + replace (r_id r <? N0) with true by (symmetry; apply Nat.ltb_lt; now apply OA).
        apply negb_true_iff, memn_false. change (map rid (pre_f ch)) with (ids ch). intros Y. rewrite <- (rows_ids ch p0) in Y.
        apply in_map_iff in Y. destruct Y as (r2 & E & Hr2). apply Blk in Hr2. apply OA in Hr'. lia.
    - rewrite (fold_idx_rows p0 ch), <- (g_idx tx G), E1, !filter_app.
      rewrite (filter_all newr (rows p0 ch)) by (intros r Hr; apply Nat.leb_le; now apply Blk).
      rewrite (filter_none newr A), (filter_none newr B), app_nil_r; [reflexivity| |]; intros r Hr; apply Nat.leb_gt; apply OA; apply in_or_app; tauto.
  Qed.
End Good.

(* ---- the item loops, once and for all ---- *)
Lemma ditem_ind' (P : ditem -> Prop) : (forall d e ch, Forall P ch -> P (DI d e ch)) -> forall it, P it.
Proof.
  intros H. fix IH 1. intros [d e ch]. apply H. induction ch as [|x l IHl]; constructor; [apply IH|exact IHl].
Qed.

Section Seq.
  Context {Wd : Type} (f : ditem -> Wd -> res * Wd).
  Fixpoint seq_items (l : list ditem) (w : Wd) : res * Wd :=
    match l with
    | [] => (Ok [], w)
    | x :: l' => match f x w with
                 | (Ok _, w2) => seq_items l' w2
                 | err => err
                 end
    end.
End Seq.

(* a relation that holds between two runs: R as long as both go on, E once both have stopped with the same error *)
Definition Rel2 {A B} (R E : A -> B -> Prop) (x : res * A) (y : res * B) : Prop :=
  match x, y with
  | (Ok _, a), (Ok _, b) => R a b
  | (Err e, a), (Err e', b) => e = e' /\ E a b
  | _, _ => False
  end.

Lemma seq_rel {A B} (f : ditem -> A -> res * A) (g : ditem -> B -> res * B) (R E : A -> B -> Prop) l :
  Forall (fun x => forall a b, R a b -> Rel2 R E (f x a) (g x b)) l ->
  forall a b, R a b -> Rel2 R E (seq_items f l a) (seq_items g l b).
Proof.
  induction 1 as [|x l Hx Hl IH]; intros a b H; cbn [seq_items]; [exact H|].
  specialize (Hx a b H). unfold Rel2 in Hx. destruct (f x a) as [[r|e] a'], (g x b) as [[r'|e'] b']; try contradiction.
  - now apply IH.
  - exact Hx.
Qed.

Lemma seq_inv {A} (f : ditem -> A -> res * A) (P : A -> Prop) l :
  Forall (fun x => forall a, P a -> P (snd (f x a))) l -> forall a, P a -> P (snd (seq_items f l a)).
Proof.
  induction 1 as [|x l Hx Hl IH]; intros a H; cbn [seq_items]; [exact H|].
  specialize (Hx a H). destruct (f x a) as [[r|e] a']; cbn [snd] in *; [now apply IH|exact Hx].
Qed.

Lemma from_dict_item_eq ti p d e ch w : from_dict_item ti p (DI d e ch) w =
  match op_add w ti p d e None BNone with
  | (Ok [n], w1) => seq_items (from_dict_item ti n) ch w1
  | (Ok _, w1) => (Err EModel, w1)
  | (Err x, w1) => (Err x, w1)
  end.
Proof. reflexivity. Qed.

Lemma from_dict_items_eq ti p l : forall w, from_dict_items ti p l w = seq_items (from_dict_item ti p) l w.
Proof. induction l as [|x l IH]; intros w; cbn [from_dict_items seq_items]; [reflexivity|]. destruct (from_dict_item ti p x w) as [[r|e] w2]; [apply IH|reflexivity]. Qed.

Lemma h_from_dict_item_eq ti p d e ch w : h_from_dict_item ti p (DI d e ch) w =
  match h_op_add w ti p d e None BNone with
  | (Ok [n], w1) => match seq_items (h_from_dict_item ti n) ch w1 with
                    | (Err x, w2) => (Err x, h_cleanup w2 ti n)
                    | ok => ok
                    end
  | (Ok _, w1) => (Err EModel, w1)
  | (Err x, w1) => (Err x, w1)
  end.
Proof. cbn [h_from_dict_item]. destruct (h_op_add w ti p d e None BNone) as [[[|n [|n2 r]]|x] w1]; try reflexivity. destruct ch; reflexivity. Qed.

Lemma h_from_dict_items_eq ti p l : forall w, h_from_dict_items ti p l w = seq_items (h_from_dict_item ti p) l w.
Proof. induction l as [|x l IH]; intros w; cbn [h_from_dict_items seq_items]; [reflexivity|]. destruct (h_from_dict_item ti p x w) as [[r|e] w2]; [apply IH|reflexivity]. Qed.

(* ---- the same run on the Machine side, with the handlers of fix D48 spelled out ---- *)
Definition v_cleanup (w : world) (ti n : nat) : world := snd (op_remove_children w ti n).

Fixpoint v_item (ti p : nat) (it : ditem) (w : world) {struct it} : res * world :=
  match it with
  | DI d e ch =>
      match op_add w ti p d e None BNone with
      | (Ok [n], w1) => match seq_items (v_item ti n) ch w1 with
                        | (Err x, w2) => (Err x, v_cleanup w2 ti n)
                        | ok => ok
                        end
      | (Ok _, w1) => (Err EModel, w1)
      | (Err x, w1) => (Err x, w1)
      end
  end.

(* remove_children on an object that is not in the tree does nothing the representation sees *)
Lemma Rep_dead_rc h t n : WF t -> Rep h t -> h_plive h n = false -> Rep (h_remove_children h n) t.
Proof.
  intros W R Hp. assert (Nz : n <> 0) by (intros ->; discriminate).
  assert (Hc : hch h n = []).
  { rewrite (rep_ch h t R). apply kids_none. intros r Hr E.
    assert (X : h_plive h n = true); [|congruence]. apply (h_plive_path h t n W R), parent_path_live.
    destruct (rows_par _ 0 r Hr) as [Y|Y]; [left; congruence|right; now rewrite <- E]. }
  unfold h_remove_children, h_fuel. cbn [h_post]. rewrite Hc. cbn [flat_map fold_left]. rewrite (touch_root_id _ n Nz).
  constructor; cbn [set_chl hreg hidx htyped hcalc hch hpar htr hinf hall]; try apply R.
  intros p. destruct (Nat.eq_dec p n) as [->|Np]; [rewrite upd_eq, <- (rep_ch h t R); now symmetry|rewrite upd_neq by congruence; apply R].
Qed.

Lemma Forall2_upd_l {X Y} (R : X -> Y -> Prop) (f : X -> X) : forall l l' i,
  Forall2 R l l' -> (forall x y, nth_error l i = Some x -> nth_error l' i = Some y -> R x y -> R (f x) y) ->
  Forall2 R (upd_nth i f l) l'.
Proof.
  intros l l' i H. revert i. induction H as [|x y l l' Hxy H IH]; intros [|i] Hf; cbn [upd_nth]; constructor; auto.
Qed.

Lemma cleanup_rel hw w ti n : WFw w -> RepW hw w ->
  WFw (v_cleanup w ti n) /\ RepW (h_cleanup hw ti n) (v_cleanup w ti n).
Proof.
  intros W RW. split; [now apply WFw_op_remove_children|]. unfold v_cleanup, h_cleanup.
  assert (G := RepW_get hw w ti RW). assert (S1 := sim_op_remove_children hw w ti n W RW). unfold h_op_remove_children in S1.
  destruct (h_get hw ti) as [h|] eqn:Gh.
  - destruct (get_tree w ti) as [t|] eqn:Gt; [|contradiction].
    destruct (h_plive h n) eqn:Hp; cbn [negb] in S1; [exact (proj2 S1)|].
    assert (E : op_remove_children w ti n = (Err EModel, w)).
    { unfold op_remove_children. rewrite Gt. destruct (parent_path n (forest_of t)) as [pq|] eqn:Gp; [|reflexivity].
      assert (X : h_plive h n = true); [|congruence]. apply (h_plive_path h t n (WFw_tree w ti t W Gt) G). now exists pq. }
    rewrite E. cbn [snd]. destruct RW as [E1 F]. constructor; [exact E1|]. unfold h_put. cbn [htrees].
    apply Forall2_upd_l; [exact F|]. intros x y Hx Hy Rxy. unfold h_get in Gh. unfold get_tree in Gt.
    assert (x = h) by congruence. assert (y = t) by congruence. subst x y.
    apply Rep_dead_rc; auto. now apply (WFw_tree w ti t W Gt).
  - exact (proj2 S1).
Qed.

(* ---- heap run against the spelled-out Machine run ---- *)
Definition RW (hw : hworld) (w : world) : Prop := WFw w /\ RepW hw w.

Lemma v_item_eq ti p d e ch w : v_item ti p (DI d e ch) w =
  match op_add w ti p d e None BNone with
  | (Ok [n], w1) => match seq_items (v_item ti n) ch w1 with
                    | (Err x, w2) => (Err x, v_cleanup w2 ti n)
                    | ok => ok
                    end
  | (Ok _, w1) => (Err EModel, w1)
  | (Err x, w1) => (Err x, w1)
  end.
Proof. reflexivity. Qed.

Lemma sim_item : forall it ti p hw w, RW hw w -> Rel2 RW RW (h_from_dict_item ti p it hw) (v_item ti p it w).
Proof.
  induction it as [d e ch IH] using ditem_ind'. intros ti p hw w [W R]. rewrite h_from_dict_item_eq, v_item_eq.
  destruct (sim_op_add hw w ti p d e None BNone W R) as [E1 R1]. assert (W1 := WFw_op_add w ti p d e None BNone W).
  destruct (h_op_add hw ti p d e None BNone) as [hr hw1], (op_add w ti p d e None BNone) as [mr w1]. cbn [fst snd] in *. subst mr.
  destruct hr as [[|n [|n2 r]]|x]; try (split; [reflexivity|now split]).
  assert (F : Forall (fun x => forall a b, RW a b -> Rel2 RW RW (h_from_dict_item ti n x a) (v_item ti n x b)) ch).
  { revert IH. apply Forall_impl. intros x Hx. exact (Hx ti n). }
  assert (X := seq_rel _ _ RW RW ch F hw1 w1 (conj W1 R1)). unfold Rel2 in X.
  destruct (seq_items (h_from_dict_item ti n) ch hw1) as [[r|x] a], (seq_items (v_item ti n) ch w1) as [[r'|x'] b]; try contradiction; [exact X|].
  destruct X as [-> [Wb Rb]]. split; [reflexivity|]. now apply cleanup_rel.
Qed.

Lemma next_cleanup w ti n : next (v_cleanup w ti n) = next w.
Proof.
  unfold v_cleanup, op_remove_children. destruct (get_tree w ti) as [t|]; [|reflexivity].
  destruct (parent_path n (forest_of t)) as [pq|]; [|reflexivity]. destruct (get_ch pq (forest_of t)) as [ch|]; [|reflexivity].
  destruct (unregister_all (pre_f ch) (reg t) (idx t)). reflexivity.
Qed.

(* the spelled-out run and the Machine's run: the same until a refusal, then the same error and allocator *)
Lemma vm_item : forall it ti p w, Rel2 eq (fun a b => next a = next b) (v_item ti p it w) (from_dict_item ti p it w).
Proof.
  induction it as [d e ch IH] using ditem_ind'. intros ti p w. rewrite from_dict_item_eq, v_item_eq.
  destruct (op_add w ti p d e None BNone) as [[[|n [|n2 r]]|x] w1]; try (split; reflexivity).
  assert (F : Forall (fun x => forall a b : world, a = b -> Rel2 eq (fun a b => next a = next b) (v_item ti n x a) (from_dict_item ti n x b)) ch).
  { revert IH. apply Forall_impl. intros x Hx a b <-. exact (Hx ti n a). }
  assert (X := seq_rel _ _ eq (fun a b => next a = next b) ch F w1 w1 eq_refl). unfold Rel2 in X.
  destruct (seq_items (v_item ti n) ch w1) as [[r|x] a], (seq_items (from_dict_item ti n) ch w1) as [[r'|x'] b]; try contradiction; [exact X|].
  destruct X as [-> X]. split; [reflexivity|]. now rewrite next_cleanup.
Qed.

Lemma op_add_ok_next w ti p d e k b n w1 : op_add w ti p d e k b = (Ok [n], w1) -> n = next w.
Proof.
  unfold op_add. destruct (get_tree w ti) as [t|]; [|discriminate]. destruct (parent_path p (forest_of t)) as [pq|]; [|discriminate].
  destruct (get_ch pq (forest_of t)) as [ch|]; [|discriminate]. destruct (negb (before_ok (norm_before b) ch)); [discriminate|].
  destruct (match e with Some e0 => Some e0 | None => calc_id (calc t) d end) as [id|]; [|discriminate].
  destruct (collides t p id); [discriminate|]. intros H. now injection H.
Qed.

(* ---- the half-built world ---- *)
Section GoodW.
  Variables (a b : list tstate) (N0 p0 : nat) (t0 : tstate).
  Hypothesis N0pos : 0 < N0.
  Hypothesis W0 : WF t0.
  Hypothesis Lt0 : forall m, In m (ids (forest_of t0)) -> m < N0.
  Let ti := length a.

  Definition GoodW (w : world) : Prop :=
    WFw w /\ N0 <= next w /\ exists tx, trees w = a ++ tx :: b /\ GoodT N0 p0 t0 tx.
  Definition Allowed (p : nat) : Prop := p = p0 \/ N0 <= p.

  Lemma GoodW_get w tx : trees w = a ++ tx :: b -> get_tree w ti = Some tx.
  Proof. intros E. unfold get_tree. rewrite E. apply nth_error_app_len. Qed.

  Lemma GoodW_add w p d e : GoodW w -> Allowed p -> GoodW (snd (op_add w ti p d e None BNone)).
  Proof.
    intros (W & L & tx & Et & G) Hp. assert (Gt := GoodW_get w tx Et). assert (W1 := WFw_op_add w ti p d e None BNone W).
    assert (Same : GoodW w) by (split; [assumption|split; [assumption|now exists tx]]).
    assert (Bump : WFw (bump w 1) -> GoodW (bump w 1)).
    { intros Wb. split; [assumption|split; [cbn; lia|now exists tx]]. }
    unfold op_add in *. rewrite Gt in *. destruct (parent_path p (forest_of tx)) as [pq|] eqn:Gp; [|exact Same].
    destruct (get_ch pq (forest_of tx)) as [ch|] eqn:Gc; [|exact Same]. destruct (negb (before_ok (norm_before BNone) ch)); [exact Same|].
    destruct (match e with Some e0 => Some e0 | None => calc_id (calc tx) d end) as [id|]; [|now apply Bump].
    destruct (collides tx p id); [now apply Bump|]. cbn [snd] in *.
    set (t' := set_all tx _ _ _) in *.
    assert (Et' : trees (put_tree (bump w 1) ti t') = a ++ t' :: b).
    { unfold put_tree, bump. cbn [trees]. rewrite Et. apply upd_nth_split. }
    split; [assumption|]. split; [cbn; lia|]. exists t'. split; [exact Et'|].
    assert (Wt' : WF t').
    { assert (F := ww_trees _ W1). rewrite Et' in F. now apply Forall_elt in F. }
    assert (Lt : forall m, In m (ids (forest_of tx)) -> m < next w) by (intros m; now apply (WFw_tree_lt w ti tx)).
    apply (GoodT_add N0 p0 t0 tx p pq ch (next w) (mk_info d id (default_kind tx None) []) (norm_before BNone) t' G Gp Gc L); auto.
    - intros Y. apply Lt in Y. lia.
    - destruct Hp as [Hp|Hp]; [now left|right]. split; [assumption|].
      destruct (proj1 (parent_path_live p (forest_of tx)) (ex_intro _ pq Gp)) as [X|X]; [lia|now apply Lt].
  Qed.

  Lemma rc_unfold w tx n : WFw w -> trees w = a ++ tx :: b ->
    (remove_kids tx n = None /\ v_cleanup w ti n = w) \/
    (exists t', remove_kids tx n = Some t' /\ v_cleanup w ti n = W (a ++ t' :: b) (next w)).
  Proof.
    intros W Et. unfold v_cleanup, op_remove_children, remove_kids. rewrite (GoodW_get w tx Et).
    destruct (parent_path n (forest_of tx)) as [pq|]; [|now left]. destruct (get_ch pq (forest_of tx)) as [ch|]; [|now left].
    destruct (unregister_all (pre_f ch) (reg tx) (idx tx)) as [r' ix']. right. eexists. split; [reflexivity|].
    cbn [snd]. unfold put_tree, ti. cbn [trees]. rewrite Et, upd_nth_split. reflexivity.
  Qed.

  Lemma GoodW_rc w n : GoodW w -> N0 <= n -> GoodW (v_cleanup w ti n).
  Proof.
    intros (W & L & tx & Et & G) Hn. assert (W1 := WFw_op_remove_children w ti n W). fold (v_cleanup w ti n) in W1.
    destruct (rc_unfold w tx n W Et) as [[_ E]|(t' & E1 & E)]; rewrite E in *.
    - split; [assumption|split; [assumption|now exists tx]].
    - split; [assumption|split; [assumption|]]. exists t'. split; [reflexivity|]. now apply (GoodT_rc N0 p0 t0 N0pos Lt0 tx n).
  Qed.

  Lemma good_item : forall it p w, GoodW w -> Allowed p -> GoodW (snd (v_item ti p it w)).
  Proof.
    induction it as [d e ch IH] using ditem_ind'. intros p w G Hp. rewrite v_item_eq.
    assert (G1 := GoodW_add w p d e G Hp). assert (Nx := op_add_ok_next w ti p d e None BNone).
    destruct (op_add w ti p d e None BNone) as [[[|n [|n2 r]]|x] w1]; cbn [snd] in *; try exact G1.
    assert (Hn : N0 <= n) by (rewrite (Nx n w1 eq_refl); apply G).
    assert (F : Forall (fun x => forall a0, GoodW a0 -> GoodW (snd (v_item ti n x a0))) ch).
    { revert IH. apply Forall_impl. intros x Hx a0 Ha. apply Hx; [assumption|now right]. }
    assert (X := seq_inv _ GoodW ch F w1 G1).
    destruct (seq_items (v_item ti n) ch w1) as [[r|x] w2]; cbn [snd] in *; [exact X|]. now apply GoodW_rc.
  Qed.

  Lemma good_items l p w : GoodW w -> Allowed p -> GoodW (snd (seq_items (v_item ti p) l w)).
  Proof.
    intros G Hp. apply (seq_inv _ GoodW); [|assumption]. apply Forall_forall. intros x _ a0 Ha. now apply good_item.
  Qed.

  (* the handler of the outermost level gives back the world as it was (but for the allocator) *)
  Lemma good_restore w : GoodW w -> (exists pq, parent_path p0 (forest_of t0) = Some pq /\ get_ch pq (forest_of t0) = Some []) ->
    trees (v_cleanup w ti p0) = a ++ t0 :: b.
  Proof.
    intros (W & L & tx & Et & G) (pq0 & Gp0 & Gc0).
    assert (NoKids : forall r, In r (rows 0 (forest_of t0)) -> r_par r <> p0).
    { destruct (ctx_kids pq0 (forest_of t0) 0 [] (wf_nodup t0 W0) (wf_pos t0 W0) Gc0) as (A & B & E1 & _ & E3 & _).
      rewrite (parent_path_owner p0 _ pq0 [] Gp0 Gc0) in *. cbn [flat_map app] in E1. rewrite E1. exact E3. }
    destruct (rc_unfold w tx p0 W Et) as [[E1 _]|(t' & E1 & E)].
    - exfalso. (* p0 is still a parent in the half-built tree *)
      unfold remove_kids in E1.
      assert (Lv : p0 = 0 \/ In p0 (ids (forest_of tx))).
      { destruct (proj1 (parent_path_live p0 (forest_of t0)) (ex_intro _ pq0 Gp0)) as [X|X]; [now left|right].
        rewrite <- (rows_ids _ 0) in X. apply in_map_iff in X. destruct X as (r & Er & Hr).
        rewrite <- (g_rows _ _ _ tx G) in Hr. apply filter_In in Hr. rewrite <- Er. apply (rows_id_in _ 0). apply Hr. }
      destruct (proj2 (parent_path_live p0 (forest_of tx)) Lv) as (pq & Gp). rewrite Gp in E1.
      destruct (get_ch pq (forest_of tx)) as [ch|] eqn:Gc.
      + destruct (unregister_all (pre_f ch) (reg tx) (idx tx)); discriminate.
      + destruct (parent_path_get p0 (forest_of tx) pq Gp) as (ch & Gc'). congruence.
    - rewrite E. cbn [trees]. f_equal. f_equal. now apply (GoodT_restore N0 p0 t0 N0pos W0 Lt0 tx t' G NoKids).
  Qed.
End GoodW.

Lemma sim_items ti p l hw w : RW hw w -> Rel2 RW RW (seq_items (h_from_dict_item ti p) l hw) (seq_items (v_item ti p) l w).
Proof. intros H. apply (seq_rel _ _ RW RW); [|assumption]. apply Forall_forall. intros x _ a b Hab. now apply sim_item. Qed.

Lemma vm_items ti p l w : Rel2 eq (fun a b => next a = next b) (seq_items (v_item ti p) l w) (seq_items (from_dict_item ti p) l w).
Proof. apply (seq_rel _ _ eq (fun a b => next a = next b)); [|reflexivity]. apply Forall_forall. intros x _ a b <-. apply vm_item. Qed.

Theorem sim_op_from_dict hw w ti p items : WFw w -> RepW hw w ->
  Sim (h_op_from_dict hw ti p items) (op_from_dict w ti p items).
Proof.
  intros W RW0. unfold h_op_from_dict, op_from_dict. assert (G := RepW_get hw w ti RW0).
  destruct (h_get hw ti) as [h|]; destruct (get_tree w ti) as [t|] eqn:Gt; try contradiction; [|now apply Sim_same].
  assert (Wt := WFw_tree w ti t W Gt). unfold children_of. assert (Lp := h_plive_path h t p Wt G).
  destruct (parent_path p (forest_of t)) as [pq|] eqn:Gp.
  2:{ replace (h_plive h p) with false; [now apply Sim_same|]. destruct (h_plive h p); [|reflexivity]. destruct (proj1 Lp eq_refl) as (x & X). discriminate. }
  rewrite (proj2 Lp (ex_intro _ pq eq_refl)). cbn [negb]. destruct (parent_path_get p _ pq Gp) as (ch & Gc). rewrite Gc.
  rewrite (rep_children h t p pq ch Wt G Gp Gc). destruct ch as [|c ch]; cbn [map]; [|now apply Sim_same].
  rewrite h_from_dict_items_eq, from_dict_items_eq.
  assert (X1 := sim_items ti p items hw w (conj W RW0)). assert (X2 := vm_items ti p items w).
  (* the half-built world stays good *)
  unfold get_tree in Gt. destruct (nth_error_split _ _ Gt) as (a & b & Et & La). subst ti.
  assert (Lt0 : forall m, In m (ids (forest_of t)) -> m < next w).
  { intros m Hm. apply (WFw_tree_lt w (length a) t m W); [|assumption]. unfold get_tree. rewrite Et. apply nth_error_app_len. }
  assert (G0 : GoodW a b (next w) p t w).
  { split; [assumption|split; [lia|]]. exists t. split; [assumption|]. apply GoodT_init; auto. apply W. }
  assert (G1 := good_items a b (next w) p t (ww_pos w W) Lt0 items p w G0 (or_introl eq_refl)).
  unfold Rel2 in X1, X2.
  destruct (seq_items (h_from_dict_item (length a) p) items hw) as [[r1|e1] hw1],
           (seq_items (v_item (length a) p) items w) as [[r2|e2] wv],
           (seq_items (from_dict_item (length a) p) items w) as [[r3|e3] wm]; try contradiction; cbn [snd] in *.
  - subst wm. split; [reflexivity|apply X1].
  - destruct X1 as [-> [Wv Rv]]. destruct X2 as [-> En]. split; [reflexivity|]. cbn [snd].
    destruct (cleanup_rel hw1 wv (length a) p Wv Rv) as [_ Rc].
    assert (Etr := good_restore a b (next w) p t (ww_pos w W) Wt Lt0 wv G1 (ex_intro _ pq (conj Gp Gc))).
    assert (Enx := next_cleanup wv (length a) p).
    destruct (v_cleanup wv (length a) p) as [ts nx]. cbn [trees next] in *. subst ts nx. now rewrite Et, <- En.
Qed.

Theorem sim_op_tree_from_dict hw w items : WFw w -> RepW hw w ->
  Sim (h_op_tree_from_dict hw items) (op_tree_from_dict w items).
Proof.
  intros Ww RW0. unfold h_op_tree_from_dict, op_tree_from_dict. rewrite (RepW_length hw w RW0), (repw_next hw w RW0).
  set (ti := length (trees w)). rewrite h_from_dict_items_eq, from_dict_items_eq.
  assert (W1 : WFw (W (trees w ++ [TS [] [] [] false None]) (next w))) by (apply (WFw_new_tree w false None Ww)).
  assert (R1 : RepW (HW (htrees hw ++ [h_empty false None]) (next w)) (W (trees w ++ [TS [] [] [] false None]) (next w))).
  { apply RepW_app; [assumption|apply Rep_empty]. }
  assert (X1 := sim_items ti 0 items _ _ (conj W1 R1)). assert (X2 := vm_items ti 0 items (W (trees w ++ [TS [] [] [] false None]) (next w))).
  unfold Rel2 in X1, X2.
  destruct (seq_items (h_from_dict_item ti 0) items _) as [[r1|e1] hw1],
           (seq_items (v_item ti 0) items _) as [[r2|e2] wv],
           (seq_items (from_dict_item ti 0) items _) as [[r3|e3] wm]; try contradiction; cbn [snd] in *.
  - subst wm. split; [reflexivity|apply X1].
  - destruct X1 as [-> [Wv Rv]]. destruct X2 as [-> En]. split; [reflexivity|]. cbn [snd].
    constructor; cbn [hnext next htrees trees]; [now rewrite (repw_next _ _ Rv)|apply RW0].
Qed.
