(* Heap refinement: move_to inside one tree *)
From Coq Require Import List ZArith Bool Arith Lia Permutation.
From NT Require Import Sx Rose ListFacts RoseFacts Surgery SurgeryFacts Machine WF MachineFacts PreserveSteps PreserveOps
  PreserveKeepClones Heap HeapProofs HeapRemove.
Import ListNotations.

(* ---- walking the parent pointers upwards = membership in the branch ---- *)
Lemma is_anc_mono h a : forall fuel x, h_is_anc fuel h a x = true -> h_is_anc (S fuel) h a x = true.
Proof.
  induction fuel as [|fuel IH]; intros x H; [discriminate|]. cbn [h_is_anc] in H. change (h_is_anc (S (S fuel)) h a x) with
    (Nat.eqb x a || match hpar h x with Some q => if Nat.eqb q 0 then false else h_is_anc (S fuel) h a q | None => false end).
  destruct (Nat.eqb x a); [reflexivity|]. cbn [orb] in *. destruct (hpar h x) as [q|]; [|discriminate].
  destruct (Nat.eqb q 0); [discriminate|]. now apply IH.
Qed.

Lemma is_anc_mono_le h a x : forall k fuel, fuel <= k -> h_is_anc fuel h a x = true -> h_is_anc k h a x = true.
Proof. induction 1 as [|k L IH]; intros H; [exact H|]. apply is_anc_mono. now apply IH. Qed.

Lemma is_anc_extend h c n : n <> 0 -> hpar h c = Some n -> forall fuel x,
  h_is_anc fuel h c x = true -> h_is_anc (S fuel) h n x = true.
Proof.
  intros Nz Hc. induction fuel as [|fuel IH]; intros x H; [discriminate|]. cbn [h_is_anc] in H.
  change (h_is_anc (S (S fuel)) h n x) with
    (Nat.eqb x n || match hpar h x with Some q => if Nat.eqb q 0 then false else h_is_anc (S fuel) h n q | None => false end).
  destruct (Nat.eqb x n); [reflexivity|]. cbn [orb]. destruct (Nat.eqb x c) eqn:Exc.
  - apply Nat.eqb_eq in Exc. subst x. rewrite Hc. replace (Nat.eqb n 0) with false by (symmetry; now apply Nat.eqb_neq).
    cbn [h_is_anc]. now rewrite Nat.eqb_refl.
  - cbn [orb] in H. destruct (hpar h x) as [q|]; [|discriminate]. destruct (Nat.eqb q 0); [discriminate|]. now apply IH.
Qed.

Section Walk.
  Variables (h : hstate) (t : tstate).
  Hypothesis W : WF t.
  Hypothesis R : Rep h t.
  Let f := forest_of t.

  Lemma child_pointer s c : In s (pre_f f) -> In c (rch s) -> hpar h (rid c) = Some (rid s).
  Proof.
    intros Hs Hc. assert (Row := proj2 rows_child_of f 0 s c Hs Hc). apply (rep_node h t R _ Row).
  Qed.

  Lemma node_nonzero s : In s (pre_f f) -> rid s <> 0.
  Proof. intros Hs E. apply (wf_pos t W). rewrite <- E. unfold ids. now apply in_map. Qed.

  Lemma walk_down : forall s, In s (pre_f f) -> forall x, In x (ids_t s) -> h_is_anc (S (size s)) h (rid s) x = true.
  Proof.
    induction s as [id i ch IH] using rt_ind'. intros Hs x Hx. rewrite ids_t_unfold in Hx. cbn [rid rch] in *.
    destruct Hx as [<-|Hx]; [cbn [h_is_anc]; now rewrite Nat.eqb_refl|].
    unfold ids in Hx. apply in_map_iff in Hx. destruct Hx as (y & <- & Hy). apply in_flat_map in Hy. destruct Hy as (c & Hc & Hy).
    rewrite Forall_forall in IH.
    assert (Pc : In c (pre_f f)) by (now apply (pre_f_child_closed f (T id i ch))).
    assert (X := IH c Hc Pc (rid y) (in_map rid _ _ Hy)).
    assert (E := is_anc_extend h (rid c) id (node_nonzero _ Hs) (child_pointer _ c Hs Hc) _ _ X).
    apply (is_anc_mono_le h id (rid y) _ (S (S (size c)))); [|exact E].
    rewrite size_unfold. assert (size c <= size_f ch).
    { clear -Hc. induction ch as [|z l IHl]; [contradiction|]. rewrite size_f_cons. destruct Hc as [->|Hc]; [lia|]. specialize (IHl Hc). lia. }
    lia.
  Qed.

  Lemma walk_up s : In s (pre_f f) -> forall fuel x, In x (ids f) -> h_is_anc fuel h (rid s) x = true -> In x (ids_t s).
  Proof.
    intros Hs. induction fuel as [|fuel IH]; intros x Hx H; [discriminate|]. cbn [h_is_anc] in H.
    destruct (Nat.eqb x (rid s)) eqn:E; [apply Nat.eqb_eq in E; subst x; rewrite ids_t_unfold; now left|]. cbn [orb] in H.
    rewrite <- (rows_ids f 0) in Hx. apply in_map_iff in Hx. destruct Hx as ([[q x'] inf] & Ex & Hr). cbn in Ex. subst x'.
    destruct (rep_node h t R _ Hr) as (Hp & _). cbn [r_id r_par fst snd] in Hp. rewrite Hp in H.
    destruct (Nat.eqb q 0) eqn:Eq; [discriminate|]. apply Nat.eqb_neq in Eq.
    assert (Hq : In q (ids f)) by (destruct (rows_parent_in f 0 _ Hr) as [X|X]; [cbn in X; congruence|exact X]).
    specialize (IH q Hq H).
    destruct (proj2 rows_member f 0 q x inf Hr) as [(E0 & _)|(s' & Ps' & Rs' & c & Hc & Rc & _)]; [congruence|].
    unfold ids_t in IH. apply in_map_iff in IH. destruct IH as (s'' & Rs'' & Ps'').
    assert (s' = s'').
    { apply (node_unique f); auto; [apply W| |congruence]. destruct (pre_f_segment f s Hs) as (a0 & b0 & E0).
      fold f. rewrite E0. apply in_or_app. right. apply in_or_app. now left. }
    subst s''. rewrite <- Rc. unfold ids_t. apply in_map. now apply (pre_child_closed s s' c).
  Qed.

  Lemma is_anc_agree n target s : get_node n f = Some s -> In target (ids f) ->
    h_is_anc (h_fuel h) h n target = existsb (Nat.eqb target) (ids_t s).
  Proof.
    intros Gn Ht. destruct (get_node_spec n f s Gn) as (Ps & Rs). apply bool_iff. rewrite <- Rs. split.
    - intros H. apply existsb_exists. exists target. split; [|apply Nat.eqb_refl]. now apply (walk_up s Ps (h_fuel h)).
    - intros H. apply existsb_exists in H. destruct H as (m & Hm & E). apply Nat.eqb_eq in E. subst m.
      apply (is_anc_mono_le h (rid s) target _ (S (size s))); [|now apply walk_down].
      assert (X := fuel_enough h t [s] W R). rewrite ids_single in X. unfold size_f in X. cbn in X. rewrite Nat.add_0_r in X.
      assert (Y : size s < h_fuel h).
      { apply X; [exact (NoDup_ids_sub f s (wf_nodup t W) Ps)|]. intros y Hy. unfold ids_t in Hy. apply in_map_iff in Hy. destruct Hy as (z & <- & Hz).
        unfold ids. apply in_map. destruct (pre_f_segment f s Ps) as (a0 & b0 & E0). fold f. rewrite E0. apply in_or_app. right. apply in_or_app. now left. }
      lia.
  Qed.
End Walk.

Lemma kids_block_none' q o x : q <> o -> ~ In q (ids_t x) -> kids q (rows_t o x) = [].
Proof.
  intros Ne Nq. apply kids_none. intros r Hr E. destruct (rows_par_t x o r Hr) as [X|X]; [congruence|].
  rewrite rows_ids_t in X. apply Nq. now rewrite <- E.
Qed.

Lemma kids_block_owner q o o' x : q <> o -> q <> o' -> kids q (rows_t o x) = kids q (rows_t o' x).
Proof.
  intros N1 N2. rewrite !rows_t_unfold, !kids_cons. cbn [r_par fst snd].
  replace (Nat.eqb o q) with false by (symmetry; apply Nat.eqb_neq; congruence).
  replace (Nat.eqb o' q) with false by (symmetry; apply Nat.eqb_neq; congruence). reflexivity.
Qed.

Lemma ids_mid a s b : ids (a ++ s :: b) = ids a ++ ids_t s ++ ids b.
Proof. change (s :: b) with ([s] ++ b). now rewrite !ids_app, ids_single. Qed.

(* SUB-STEP: re-link a branch below another (or the same) parent of the same tree *)
Lemma Rep_move h t n target nb t' : WF t -> Rep h t -> move_in t n target nb = Some t' ->
  Rep (h_move_do h n target nb) t'.
Proof.
  intros W R M. unfold move_in in M. set (f := forest_of t) in *.
  destruct (detach n f) as [[s f1']|] eqn:D; [|discriminate].
  destruct (detach_spec n f s f1' D) as (q0 & a & b & G & -> & Rs & Ps).
  set (f1 := upd_ch q0 (fun _ => a ++ b) f) in *.
  destruct (parent_path target f1) as [pq|] eqn:Pp; [|discriminate]. injection M as <-.
  destruct (parent_path_get target f1 pq Pp) as (tch1 & G1).
  set (p := owner q0 f 0).
  assert (ND := wf_nodup t W). assert (Z := wf_pos t W). fold f in ND, Z.
  (* the two contexts *)
  destruct (ctx_kids q0 f 0 _ ND Z G) as (A & B & E1 & E2 & E3 & E4 & E5). fold p in E1, E2, E3, E4.
  specialize (E2 (fun _ => a ++ b)). cbn beta in E2. fold f1 in E2.
  destruct (WF_cut t q0 a [s] b W G) as (W1 & Pi1). cbn [forest_of set_all] in Pi1. fold f f1 in Pi1. rewrite ids_single in Pi1.
  assert (ND1 : NoDup (ids f1)) by (apply (wf_nodup _ W1)). assert (Z1 : ~ In 0 (ids f1)) by (apply (wf_pos _ W1)).
  destruct (ctx_kids pq f1 0 _ ND1 Z1 G1) as (A1 & B1 & F1 & F2 & F3 & F4 & F5).
  rewrite (parent_path_owner target f1 pq tch1 Pp G1) in *. specialize (F2 (place nb s)).
  destruct (place_split nb s tch1) as (a1 & b1 & Ech & Epl).
  set (f2 := upd_ch pq (place nb s) f1) in *.
  assert (NDx : NoDup (ids_t s ++ ids f1)) by (apply (Permutation_NoDup Pi1 ND)).
  assert (Hs : In s (a ++ s :: b)) by (apply in_or_app; right; now left).
  assert (Row := rows_child_in q0 f _ 0 s G Hs). fold p in Row.
  destruct (rep_node h t R _ Row) as (Hp & Htr0 & Hinf0). cbn [r_id r_par r_info fst snd] in Hp, Htr0, Hinf0. rewrite Rs in Hp, Htr0, Hinf0.
  (* where the involved parents are *)
  assert (Ps_in : forall x, In x (ids_t s) -> In x (ids (a ++ s :: b))).
  { intros x Hx. rewrite ids_mid. apply in_or_app. right. apply in_or_app. now left. }
  assert (Pns : ~ In p (ids_t s)) by (intros Y; apply E4; now apply Ps_in).
  assert (Tns : ~ In target (ids_t s)).
  { intros Y. destruct (proj1 (parent_path_live target f1) (ex_intro _ pq Pp)) as [X|X].
    - apply Z. apply E5. apply Ps_in. now rewrite <- X.
    - apply (NoDup_app_disj _ _ target NDx Y X). }
  assert (Nin : In n (ids_t s)) by (rewrite ids_t_unfold; left; exact Rs).
  rewrite flat_map_in_split in E1. rewrite rows_app in E2.
  rewrite Epl, flat_map_in_split in F2. rewrite Ech, rows_app in F1.
  (* rows of f1 have neither identities nor parents inside the moved branch *)
  assert (Id1 : forall r, In r (rows 0 f1) -> ~ In (r_id r) (ids_t s)).
  { intros r Hr Y. apply (NoDup_app_disj _ _ _ NDx Y). now apply (rows_id_in f1 0). }
  assert (Par1 : forall r, In r (rows 0 f1) -> ~ In (r_par r) (ids_t s)).
  { intros r Hr Y. destruct (rows_parent_in f1 0 r Hr) as [E|E].
    - apply Z, E5, Ps_in. now rewrite <- E.
    - apply (NoDup_app_disj _ _ _ NDx Y E). }
  assert (K1n : forall q, In q (ids_t s) -> kids q (rows 0 f1) = []).
  { intros q Hq. apply kids_none. intros r Hr E. apply (Par1 r Hr). now rewrite E. }
  assert (Sub1 : forall r, In r (rows 0 f1) -> In r (rows 0 f)).
  { intros r. rewrite E1, E2, !in_app_iff. tauto. }
  assert (SubS : forall r, In r (rows n (rch s)) -> In r (rows 0 f)).
  { intros r Hr. rewrite E1, !in_app_iff. right. left. right. left. rewrite rows_t_unfold, Rs. now right. }
  (* children of p and of the target in f1 *)
  assert (Kp1 : kids p (rows 0 f1) = map rid (a ++ b)).
  { rewrite E2, <- rows_app, !kids_app. rewrite (kids_none p A), (kids_none p B), app_nil_r; try (intros r Hr; apply E3; apply in_or_app; tauto).
    cbn [app]. apply kids_top. intros Y. apply E4. rewrite ids_mid. rewrite ids_app in Y. apply in_app_or in Y. apply in_or_app. destruct Y; [now left|right]. apply in_or_app. now right. }
  assert (Hpl : hch h p = map rid (a ++ s :: b)) by (now apply (rep_children_ctx h t q0)).
  assert (Na : ~ In n (map rid a)).
  { assert (NLs := NoDup_child_list q0 f _ ND G). rewrite ids_mid in NLs. intros Y.
    apply (NoDup_app_disj _ _ n NLs); [now apply incl_top_ids|apply in_or_app; now left]. }
  assert (Hrm : remove_first_n n (hch h p) = map rid (a ++ b)).
  { rewrite Hpl, !map_app. cbn [map]. rewrite Rs. now apply remove_first_n_mid. }
  assert (Kt1 : kids target (rows 0 f1) = map rid tch1).
  { rewrite F1, <- rows_app, <- Ech, !kids_app. rewrite (kids_none target A1), (kids_none target B1), app_nil_r; try (intros r Hr; apply F3; apply in_or_app; tauto).
    cbn [app]. now apply kids_top. }
  assert (Kt2 : kids target (rows 0 f2) = map rid (a1 ++ s :: b1)).
  { rewrite F2, !kids_app. rewrite (kids_none target A1), (kids_none target B1), app_nil_r; try (intros r Hr; apply F3; apply in_or_app; tauto).
    cbn [app]. rewrite <- !kids_app, <- flat_map_in_split. apply kids_top. rewrite ids_mid. rewrite Ech, ids_app in F4.
    intros Y. apply in_app_or in Y. destruct Y as [Y|Y]; [apply F4, in_or_app; now left|].
    apply in_app_or in Y. destruct Y as [Y|Y]; [contradiction|apply F4, in_or_app; now right]. }
  assert (Kq1 : forall q, q <> p -> ~ In q (ids_t s) -> kids q (rows 0 f1) = kids q (rows 0 f)).
  { intros q N1 N2. rewrite E1, E2, !kids_app. now rewrite (kids_block_none' q p s N1 N2). }
  assert (Kq2 : forall q, q <> target -> ~ In q (ids_t s) -> kids q (rows 0 f2) = kids q (rows 0 f1)).
  { intros q N1 N2. rewrite F1, F2, !kids_app. now rewrite (kids_block_none' q target s N1 N2). }
  assert (Ks : forall q, In q (ids_t s) -> kids q (rows 0 f2) = kids q (rows 0 f)).
  { intros q Hq. assert (Qp : q <> p) by (intros ->; contradiction). assert (Qt : q <> target) by (intros ->; contradiction).
    assert (Nil1 : forall X, incl X (rows 0 f1) -> kids q X = []).
    { intros X I. apply kids_none. intros r Hr E. apply (Par1 r (I r Hr)). now rewrite E. }
    rewrite F2, E1, !kids_app.
    rewrite (Nil1 A1), (Nil1 B1), (Nil1 (rows target a1)), (Nil1 (rows target b1)) by (intros r Hr; rewrite F1, !in_app_iff; tauto).
    rewrite (Nil1 A), (Nil1 B), (Nil1 (rows p a)), (Nil1 (rows p b)) by (intros r Hr; rewrite E2, !in_app_iff; tauto).
    cbn [app]. rewrite !app_nil_r. now apply kids_block_owner. }
  assert (Pn : p <> n) by (intros ->; contradiction). assert (Tn : target <> n) by (intros ->; contradiction).
  unfold h_move_do. rewrite Hp. apply Rep_touch.
  constructor; cbn [set_forest forest_of reg idx typed calc set_chl set_par hreg hidx htyped hcalc hch hpar htr hinf hall]; try apply R; fold f f1 f2.
  - intros q. unfold upd at 1. destruct (Nat.eqb q target) eqn:Eqt.
    + apply Nat.eqb_eq in Eqt. subst q. rewrite Kt2, <- Epl, <- place_ids_map, Rs. f_equal. rewrite <- Kt1. unfold upd.
      destruct (Nat.eqb target p) eqn:Etp.
      * apply Nat.eqb_eq in Etp. rewrite Etp, Hrm. now rewrite Kp1.
      * apply Nat.eqb_neq in Etp. rewrite (rep_ch h t R target). fold f. symmetry. now apply Kq1.
    + apply Nat.eqb_neq in Eqt. unfold upd. destruct (Nat.eqb q p) eqn:Eqp.
      * apply Nat.eqb_eq in Eqp. subst q. rewrite Hrm, <- Kp1. symmetry. now apply Kq2.
      * apply Nat.eqb_neq in Eqp. rewrite (rep_ch h t R q). fold f. destruct (in_dec Nat.eq_dec q (ids_t s)) as [Iq|Iq].
        -- symmetry. now apply Ks.
        -- rewrite Kq2, Kq1; auto.
  - intros r Hr. rewrite F2, !in_app_iff in Hr.
    assert (Cases : In r (rows 0 f1) \/ r = (target, n, rinfo s) \/ In r (rows n (rch s))).
    { rewrite F1, !in_app_iff. rewrite rows_t_unfold, Rs in Hr. cbn [In] in Hr. intuition auto. }
    destruct Cases as [C|[C|C]].
    + assert (Nr : r_id r <> n) by (intros E; apply (Id1 r C); now rewrite E). rewrite (upd_neq _ n _ _ Nr). apply (rep_node h t R). now apply Sub1.
    + subst r. cbn [r_id r_par r_info fst snd]. rewrite upd_eq. now repeat split.
    + assert (Nr : r_id r <> n).
      { intros E. assert (NS := NoDup_ids_sub f s ND Ps). rewrite ids_t_unfold in NS. inversion NS as [|y ys N1 N2]; subst. apply N1.
        rewrite <- E. now apply (rows_id_in (rch s) (rid s)). }
      rewrite (upd_neq _ n _ _ Nr). apply (rep_node h t R). now apply SubS.
  - rewrite (upd_neq _ n _ 0) by (intros E; apply Z, E5, Ps_in; now rewrite E). apply R.
  - intros m Hm. apply (rep_all h t R). fold f. apply (Permutation_in _ (Permutation_sym Pi1)).
    rewrite <- (rows_ids f2 0) in Hm. apply in_map_iff in Hm. destruct Hm as (r & <- & Hr). rewrite F2, !in_app_iff in Hr.
    assert (Cases : In r (rows 0 f1) \/ In r (rows_t target s)) by (rewrite F1, !in_app_iff; intuition auto).
    apply in_or_app. destruct Cases as [C|C]; [right; now apply (rows_id_in f1 0)|left].
    rewrite <- (rows_ids_t s target). now apply in_map.
Qed.

Lemma existsb_map {X Y} (g : X -> Y) p l : existsb p (map g l) = existsb (fun x => p (g x)) l.
Proof. induction l as [|x l IH]; [reflexivity|]. cbn. now rewrite IH. Qed.

Theorem sim_op_move hw w ti n tti target b : WFw w -> RepW hw w ->
  Sim (h_op_move hw ti n tti target b) (op_move w ti n tti target b).
Proof.
  intros W RW. unfold h_op_move, op_move. assert (G := RepW_get hw w ti RW).
  destruct (h_get hw ti) as [h|]; destruct (get_tree w ti) as [t|] eqn:Gt; try contradiction; [|now apply Sim_same].
  assert (Wt := WFw_tree w ti t W Gt). rewrite (rep_typed h t G).
  destruct (typed t); [now apply Sim_same|]. destruct (negb (Nat.eqb ti tti)); [now apply Sim_same|].
  set (f := forest_of t).
  assert (ND := wf_nodup t Wt). assert (Z := wf_pos t Wt). fold f in ND, Z.
  assert (Ln := h_live_ids h t n Wt G). fold f in Ln.
  destruct (get_node n f) as [s|] eqn:Gn.
  2:{ replace (h_live h n) with false; [now apply Sim_same|]. destruct (h_live h n); [|reflexivity].
      destruct (get_node_complete n f (proj1 Ln eq_refl)) as (s & X). congruence. }
  destruct (get_node_spec n f s Gn) as (Ps & Rs).
  assert (Hn : In n (ids f)) by (rewrite <- Rs; unfold ids; now apply in_map).
  replace (h_live h n) with true by (symmetry; now apply Ln). cbn [andb].
  assert (Pl := h_plive_path h t target Wt G). fold f in Pl. unfold children_of.
  destruct (parent_path target f) as [pq0|] eqn:Gp0.
  2:{ replace (h_plive h target) with false; [now apply Sim_same|]. destruct (h_plive h target); [|reflexivity].
      destruct (proj1 Pl eq_refl) as (pq & X). discriminate. }
  replace (h_plive h target) with true by (symmetry; apply Pl; now exists pq0). cbn [negb].
  destruct (parent_path_get target f pq0 Gp0) as (tch & Gc0). rewrite Gc0.
  (* the current parent *)
  destruct (row_of_node f 0 s Ps) as ([[cur n'] inf] & Hr & En & Ei). cbn in En, Ei. rewrite Rs in En. subst n'.
  destruct (rep_node h t G _ Hr) as (Hp & _). cbn [r_id r_par fst snd] in Hp. rewrite Hp.
  assert (Pof : parent_of n f = Some cur) by (apply parent_of_rows; [assumption|now exists inf]). rewrite Pof.
  (* descendant test *)
  assert (Ed : (if Nat.eqb target 0 then false else h_is_anc (h_fuel h) h n target) = is_desc_or_self n target f).
  { unfold is_desc_or_self. rewrite Gn. destruct (Nat.eqb target 0) eqn:E0.
    - apply Nat.eqb_eq in E0. subst target. symmetry. destruct (existsb (Nat.eqb 0) (ids_t s)) eqn:X; [|reflexivity].
      apply existsb_exists in X. destruct X as (m & Hm & E). apply Nat.eqb_eq in E. subst m. exfalso. apply Z.
      unfold ids_t in Hm. apply in_map_iff in Hm. destruct Hm as (y & <- & Hy). unfold ids. apply in_map.
      destruct (pre_f_segment f s Ps) as (a0 & b0 & E0). rewrite E0. apply in_or_app. right. apply in_or_app. now left.
    - apply Nat.eqb_neq in E0. apply (is_anc_agree h t Wt G n target s Gn).
      destruct (proj1 (parent_path_live target f) (ex_intro _ pq0 Gp0)) as [X|X]; [contradiction|exact X]. }
  rewrite Ed. destruct (is_desc_or_self n target f) eqn:Desc; [now apply Sim_same|].
  rewrite (before_ok_agree h t target pq0 tch _ Wt G Gp0 Gc0).
  destruct (negb (before_ok (norm_before b) tch)); [now apply Sim_same|].
  assert (Eu : existsb (fun c => did_eqb (hdid h c) (hdid h n)) (hch h target) = existsb (fun c => did_eqb (rdid c) (rdid s)) tch).
  { rewrite (rep_children h t target pq0 tch Wt G Gp0 Gc0), existsb_map. apply existsb_ext_in'. intros c Hc.
    assert (Pc : In c (pre_f f)) by (apply (get_ch_pre pq0 f tch Gc0); now apply in_pre_f_top).
    unfold hdid. rewrite (rep_info h t c G Pc). rewrite <- Rs, (rep_info h t s G Ps). reflexivity. }
  rewrite Eu. match goal with |- context [if ?c then (Err EUnique, hw) else _] => destruct c end; [now apply Sim_same|].
  match goal with |- context [if ?c then (Ok [], hw) else _] => destruct c end; [now apply Sim_same|].
  (* the move itself succeeds *)
  destruct (move_in t n target (norm_before b)) as [t'|] eqn:M.
  - split; [reflexivity|]. cbn [snd]. unfold h_put, put_tree. rewrite (repw_next hw w RW). apply RepW_put; [assumption|].
    now apply (Rep_move h t n target).
  - exfalso. unfold move_in in M. fold f in M. destruct (get_node_loc n f s Gn) as (q0 & i & l & E & N).
    assert (D : detach n f = Some (s, upd_ch q0 (remove_nth i) f)) by (unfold detach; now rewrite E, N). rewrite D in M.
    destruct (detach_spec n f s _ D) as (q0' & a & b0 & G' & Ef1 & _ & _). rewrite Ef1 in M.
    destruct (WF_cut t q0' a [s] b0 Wt G') as (_ & Pi). cbn [forest_of set_all] in Pi. fold f in Pi. rewrite ids_single in Pi.
    set (f1 := upd_ch q0' (fun _ => a ++ b0) f) in *.
    assert (X : exists pq, parent_path target f1 = Some pq).
    { apply parent_path_live. destruct (proj1 (parent_path_live target f) (ex_intro _ pq0 Gp0)) as [X|X]; [now left|right].
      apply (Permutation_in _ Pi) in X. apply in_app_or in X. destruct X as [X|X]; [|exact X]. exfalso.
      unfold is_desc_or_self in Desc. rewrite Gn in Desc.
      assert (Y : existsb (Nat.eqb target) (ids_t s) = true) by (apply existsb_exists; exists target; split; [assumption|apply Nat.eqb_refl]). congruence. }
    destruct X as (pq & X). rewrite X in M. discriminate.
Qed.
