(* Refinement of the pointer-level model (Heap.v) to the forest-level machine (Machine.v):
   the representation relation [Rep h t] says that the raw pointers of the heap are exactly the
   ones the forest value of [t] induces (child lists = the rows with that parent, in order;
   parent pointer, owner and payload of every node of the forest = its row), the system root has
   no parent, and registry / index are equal.  Every covered operation preserves it. *)
From Coq Require Import List ZArith Bool Arith Lia Permutation.
From NT Require Import Sx Rose ListFacts RoseFacts Surgery SurgeryFacts Machine WF MachineFacts PreserveSteps PreserveOps Heap.
Import ListNotations.

(* ---- functional update ---- *)
Lemma upd_eq {X} (f : nat -> X) k v : upd f k v k = v.
Proof. unfold upd. now rewrite Nat.eqb_refl. Qed.
Lemma upd_neq {X} (f : nat -> X) k v n : n <> k -> upd f k v n = f n.
Proof. intros H. unfold upd. apply Nat.eqb_neq in H. now rewrite H. Qed.

(* ---- the child list a forest induces for a parent ---- *)
Definition kids (p : nat) (R : list row) : list nat :=
  map r_id (filter (fun r => Nat.eqb (r_par r) p) R).

Lemma kids_app p a b : kids p (a ++ b) = kids p a ++ kids p b.
Proof. unfold kids. now rewrite filter_app, map_app. Qed.

Lemma kids_cons p r R : kids p (r :: R) = (if Nat.eqb (r_par r) p then [r_id r] else []) ++ kids p R.
Proof. unfold kids. cbn [filter]. now destruct (Nat.eqb (r_par r) p). Qed.

Lemma kids_none p R : (forall r, In r R -> r_par r <> p) -> kids p R = [].
Proof.
  induction R as [|r R IH]; intros H; [reflexivity|]. rewrite kids_cons, IH by (intros x Hx; apply H; now right).
  replace (Nat.eqb (r_par r) p) with false; [reflexivity|]. symmetry. apply Nat.eqb_neq. apply H. now left.
Qed.

Lemma kids_in p R c : In c (kids p R) <-> exists inf, In (p, c, inf) R.
Proof.
  unfold kids. rewrite in_map_iff. split.
  - intros ([[q c'] inf] & E & Hr). apply filter_In in Hr. destruct Hr as [Hr Ep]. cbn in *. apply Nat.eqb_eq in Ep. subst. now exists inf.
  - intros (inf & H). exists (p, c, inf). split; [reflexivity|]. apply filter_In. split; [assumption|]. cbn. apply Nat.eqb_refl.
Qed.

Lemma kids_top : forall l o, ~ In o (ids l) -> kids o (rows o l) = map rid l.
Proof.
  induction l as [|t l IH]; intros o H; [reflexivity|].
  change (t :: l) with ([t] ++ l) in H. rewrite ids_app, ids_single in H.
  rewrite rows_cons, kids_cons, kids_app. cbn [r_par r_id fst snd]. rewrite Nat.eqb_refl. cbn [app map]. f_equal.
  rewrite kids_none, IH; [reflexivity| |].
  - intros X. apply H. apply in_or_app. now right.
  - intros r Hr E. apply rows_par in Hr. apply H. apply in_or_app. left. rewrite ids_t_unfold, <- E. destruct Hr as [->|Hr]; [now left|now right].
Qed.

Lemma owner_in : forall q l o c, get_ch q l = Some c -> owner q l o = o \/ In (owner q l o) (ids l).
Proof.
  induction q as [|i rest IH]; intros l o c G; [now left|]. right. cbn [get_ch owner] in *.
  destruct (nth_error l i) as [t|] eqn:E; [|discriminate]. destruct (nth_error_split l i E) as (a & b & -> & _).
  rewrite ids_app, ids_cons. apply in_or_app. right. destruct (IH (rch t) (rid t) c G) as [->|X]; [now left|right].
  apply in_or_app. now left.
Qed.

(* the context lemma, with the facts about parents that the pointer model needs *)
Lemma ctx_kids : forall q f o l, NoDup (ids f) -> ~ In o (ids f) -> get_ch q f = Some l ->
  exists A B, rows o f = A ++ rows (owner q f o) l ++ B /\
              (forall g, rows o (upd_ch q g f) = A ++ rows (owner q f o) (g l) ++ B) /\
              (forall r, In r (A ++ B) -> r_par r <> owner q f o) /\
              ~ In (owner q f o) (ids l) /\ incl (ids l) (ids f).
Proof.
  induction q as [|i rest IH]; intros f o l ND No G.
  - cbn in G. injection G as <-. exists [], []. cbn [owner upd_ch app]. rewrite !app_nil_r.
    refine (conj eq_refl (conj _ (conj _ (conj No (incl_refl _))))); [intros g; now rewrite app_nil_r|intros r []].
  - cbn [get_ch owner] in *. destruct (nth_error f i) as [t|] eqn:E; [|discriminate].
    destruct (nth_error_split f i E) as (a & b & -> & <-).
    assert (ND' := ND). rewrite ids_app, ids_cons in ND'.
    assert (NDt : NoDup (rid t :: ids (rch t))).
    { apply NoDup_app_r in ND'. change (rid t :: ids (rch t) ++ ids b) with ((rid t :: ids (rch t)) ++ ids b) in ND'. now apply NoDup_app_l in ND'. }
    inversion NDt as [|x xs Nt NDc]; subst.
    destruct (IH (rch t) (rid t) l NDc Nt G) as (A & B & E1 & E2 & E3 & E4 & E5).
    set (o' := owner rest (rch t) (rid t)) in *.
    assert (Ho' : In o' (rid t :: ids (rch t))) by (destruct (owner_in rest (rch t) (rid t) l G) as [X|X]; [left; symmetry; exact X|now right]).
    assert (Hin : In o' (ids (a ++ t :: b))) by (rewrite ids_app, ids_cons; apply in_or_app; right; apply in_app_or in Ho' || idtac; destruct Ho' as [X|X]; [now left|right; apply in_or_app; now left]).
    exists (rows o a ++ (o, rid t, rinfo t) :: A), (B ++ rows o b).
    refine (conj _ (conj _ (conj _ (conj E4 _)))).
    + rewrite rows_app, rows_cons, E1. la.
    + intros g. cbn [upd_ch]. rewrite upd_nth_split, rows_app. cbn [flat_map]. rewrite rows_set_ch, E2. la.
    + intros r Hr Ep. rewrite <- app_assoc in Hr. cbn [app] in Hr. apply in_app_or in Hr. destruct Hr as [Hr|[Hr|Hr]].
      * apply rows_par in Hr. rewrite Ep in Hr. destruct Hr as [Hr|Hr]; [apply No; replace o with o' by exact Hr; exact Hin|].
        apply (NoDup_app_disj _ _ o' ND' Hr). destruct Ho' as [X|X]; [left; exact X|right; apply in_or_app; now left].
      * subst r. cbn in Ep. apply No. replace o with o' by (symmetry; exact Ep). exact Hin.
      * rewrite app_assoc in Hr. apply in_app_or in Hr. destruct Hr as [Hr|Hr]; [now apply (E3 r Hr)|].
        apply rows_par in Hr. rewrite Ep in Hr. destruct Hr as [Hr|Hr]; [apply No; replace o with o' by exact Hr; exact Hin|].
        apply NoDup_app_r in ND'. change (rid t :: ids (rch t) ++ ids b) with ((rid t :: ids (rch t)) ++ ids b) in ND'.
        apply (NoDup_app_disj _ _ o' ND' Ho' Hr).
    + intros x Hx. rewrite ids_app, ids_cons. apply in_or_app. right. right. apply in_or_app. left. now apply E5.
Qed.

Lemma existsb_ext_in' {X} (p q : X -> bool) l : (forall x, In x l -> p x = q x) -> existsb p l = existsb q l.
Proof.
  induction l as [|x l IH]; intros H; [reflexivity|]. cbn. rewrite (H x (or_introl eq_refl)), IH; [reflexivity|].
  intros y Hy. apply H. now right.
Qed.

(* ---- the representation relation ---- *)
Record Rep (h : hstate) (t : tstate) : Prop := {
  rep_reg : hreg h = reg t;
  rep_idx : hidx h = idx t;
  rep_typed : htyped h = typed t;
  rep_calc : hcalc h = calc t;
  rep_ch : forall p, hch h p = kids p (rows 0 (forest_of t));
  rep_node : forall r, In r (rows 0 (forest_of t)) ->
             hpar h (r_id r) = Some (r_par r) /\ htr h (r_id r) = true /\ hinf h (r_id r) = r_info r;
  rep_root : hpar h 0 = None /\ htr h 0 = true;
  rep_all : incl (ids (forest_of t)) (hall h)
}.

Record RepW (hw : hworld) (w : world) : Prop := {
  repw_next : hnext hw = next w;
  repw_trees : Forall2 Rep (htrees hw) (trees w)
}.

Lemma Forall2_nth {X Y} (P : X -> Y -> Prop) l1 l2 : Forall2 P l1 l2 -> forall i,
  match nth_error l1 i, nth_error l2 i with
  | Some a, Some b => P a b
  | None, None => True
  | _, _ => False
  end.
Proof. induction 1 as [|a b l1 l2 Hab F IH]; intros [|i]; cbn; auto. apply IH. Qed.

Lemma Forall2_upd {X Y} (P : X -> Y -> Prop) l1 l2 i a b : Forall2 P l1 l2 -> P a b ->
  Forall2 P (upd_nth i (fun _ => a) l1) (upd_nth i (fun _ => b) l2).
Proof. intros F Hab. revert i. induction F as [|x y l1 l2 Hxy F IH]; intros [|i]; cbn; constructor; auto. Qed.

Lemma RepW_get hw w ti : RepW hw w ->
  match h_get hw ti, get_tree w ti with
  | Some h, Some t => Rep h t
  | None, None => True
  | _, _ => False
  end.
Proof. intros [_ F]. apply (Forall2_nth _ _ _ F ti). Qed.

Lemma RepW_put hw w ti h t nx : RepW hw w -> Rep h t ->
  RepW (HW (upd_nth ti (fun _ => h) (htrees hw)) nx) (W (upd_nth ti (fun _ => t) (trees w)) nx).
Proof. intros [E F] R. constructor; [reflexivity|]. cbn. now apply Forall2_upd. Qed.

(* touching the root's list object changes no field the representation speaks about *)
Lemma touch_fields h p :
  hpar (touch_root h p) = hpar h /\ hch (touch_root h p) = hch h /\ htr (touch_root h p) = htr h /\
  hinf (touch_root h p) = hinf h /\ hall (touch_root h p) = hall h /\ hreg (touch_root h p) = hreg h /\
  hidx (touch_root h p) = hidx h /\ htyped (touch_root h p) = htyped h /\ hcalc (touch_root h p) = hcalc h.
Proof. unfold touch_root. destruct (Nat.eqb p 0); cbn; repeat split. Qed.

Lemma touch_root_id h p : p <> 0 -> touch_root h p = h.
Proof. intros H. unfold touch_root. apply Nat.eqb_neq in H. now rewrite H. Qed.

Lemma Rep_touch h t p : Rep h t -> Rep (touch_root h p) t.
Proof.
  intros R. destruct (touch_fields h p) as (E1 & E2 & E3 & E4 & E5 & E6 & E7 & E8 & E9).
  constructor; rewrite ?E1, ?E2, ?E3, ?E4, ?E5, ?E6, ?E7, ?E8, ?E9; apply R.
Qed.

(* ---- liveness and guards agree ---- *)
Lemma memn_In n l : memn n l = true <-> In n l.
Proof.
  unfold memn. rewrite existsb_exists. split; [intros (m & Hm & E); apply Nat.eqb_eq in E; now subst|].
  intros H. exists n. split; [assumption|apply Nat.eqb_refl].
Qed.

Lemma h_live_ids h t n : WF t -> Rep h t -> (h_live h n = true <-> In n (ids (forest_of t))).
Proof.
  intros W R. unfold h_live. rewrite memn_In, (rep_reg h t R). split; intros X.
  - apply (Permutation_in _ (wf_reg t W) X).
  - apply (Permutation_in _ (Permutation_sym (wf_reg t W)) X).
Qed.

Lemma parent_path_live p f : (exists pq, parent_path p f = Some pq) <-> p = 0 \/ In p (ids f).
Proof.
  unfold parent_path. destruct (Nat.eqb p 0) eqn:E.
  - apply Nat.eqb_eq in E. split; [now left|intros _; now exists []].
  - apply Nat.eqb_neq in E. split.
    + intros (pq & H). right. destruct (node_path_sound p f pq H) as (s & H1 & <-).
      destruct (node_at_loc pq f s 0 H1) as (_ & _ & H3 & _). unfold ids. now apply in_map.
    + intros [X|X]; [contradiction|]. now apply node_path_complete.
Qed.

Lemma h_plive_path h t p : WF t -> Rep h t ->
  (h_plive h p = true <-> exists pq, parent_path p (forest_of t) = Some pq).
Proof.
  intros W R. rewrite parent_path_live. unfold h_plive. rewrite orb_true_iff, Nat.eqb_eq, (h_live_ids h t p W R). reflexivity.
Qed.

(* the child list at a live parent *)
Lemma rep_children h t p pq ch : WF t -> Rep h t -> parent_path p (forest_of t) = Some pq ->
  get_ch pq (forest_of t) = Some ch -> hch h p = map rid ch.
Proof.
  intros W R Gp G. rewrite (rep_ch h t R).
  destruct (ctx_kids pq _ 0 ch (wf_nodup t W) (wf_pos t W) G) as (A & B & E1 & _ & E3 & E4 & _).
  rewrite (parent_path_owner p _ pq ch Gp G) in *. rewrite E1, !kids_app.
  rewrite (kids_none p A), (kids_none p B), (kids_top ch p E4), app_nil_r; [reflexivity| |];
    intros r Hr; apply E3; apply in_or_app; [now right|now left].
Qed.

Lemma index_of_map n l : index_of n (map rid l) = index_by_id n l.
Proof. induction l as [|x l IH]; [reflexivity|]. cbn. rewrite IH. reflexivity. Qed.

Lemma place_ids_map nb x ch : place_ids nb (rid x) (map rid ch) = map rid (place nb x ch).
Proof.
  unfold place_ids, place. destruct ch as [|c ch]; [reflexivity|]. cbn [map].
  change (rid c :: map rid ch) with (map rid (c :: ch)).
  destruct nb as [|z|s].
  - now rewrite map_app.
  - unfold py_insert, insert_at. rewrite map_length, map_app, firstn_map, skipn_map. reflexivity.
  - rewrite index_of_map. destruct (index_by_id s (c :: ch)); [|now rewrite map_app].
    unfold insert_at. rewrite map_app, firstn_map, skipn_map. reflexivity.
Qed.

Lemma before_ok_agree h t p pq ch nb : WF t -> Rep h t -> parent_path p (forest_of t) = Some pq ->
  get_ch pq (forest_of t) = Some ch -> h_before_ok h p nb = before_ok nb ch.
Proof.
  intros W R Gp G. destruct nb as [|z|s]; try reflexivity. cbn [h_before_ok before_ok].
  rewrite (rep_children h t p pq ch W R Gp G). rewrite <- index_of_map.
  induction (map rid ch) as [|x l IH]; [reflexivity|]. cbn [memn existsb index_of]. rewrite Nat.eqb_sym.
  destruct (Nat.eqb x s); [reflexivity|]. cbn [orb]. unfold memn in IH. rewrite IH. now destruct (index_of s l).
Qed.

Lemma collides_agree h t p d : WF t -> Rep h t -> h_collides h p d = collides t p d.
Proof.
  intros W R. unfold h_collides, collides. rewrite (rep_idx h t R). apply existsb_ext_in'. intros c Hc.
  apply (idx_get_keys t c d W) in Hc. rewrite <- (rows_keys' _ 0) in Hc. apply in_map_iff in Hc.
  destruct Hc as ([[q c'] inf] & E & Hr). assert (Ec : c' = c) by (unfold r_key in E; cbn in E; congruence). subst c'. clear E.
  destruct (rep_node h t R _ Hr) as (Hp & _). cbn in Hp. rewrite Hp.
  assert (Pq : parent_of c (forest_of t) = Some q) by (apply parent_of_rows; [apply W|now exists inf]).
  now rewrite Pq.
Qed.

(* ---- add_child(data): link a fresh leaf ---- *)
Lemma rows_parent_in f o r : In r (rows o f) -> r_par r = o \/ In (r_par r) (ids f).
Proof. apply rows_par. Qed.

Lemma rows_id_in f o r : In r (rows o f) -> In (r_id r) (ids f).
Proof. intros H. rewrite <- (rows_ids f o). now apply in_map. Qed.

Lemma Rep_add_leaf h t p pq ch n inf nb :
  WF t -> Rep h t -> parent_path p (forest_of t) = Some pq -> get_ch pq (forest_of t) = Some ch ->
  ~ In n (ids (forest_of t)) -> n <> 0 ->
  Rep (set_chl (h_register (h_init h n p inf) n) p (place_ids nb n (hch (h_register (h_init h n p inf) n) p)))
      (set_all t (upd_ch pq (place nb (T n inf [])) (forest_of t)) (reg t ++ [n]) (idx_add (i_did inf) n (idx t))).
Proof.
  intros W R Gp G Fn Nz. set (f := forest_of t) in *. set (x := T n inf []).
  assert (Hc := rep_children h t p pq ch W R Gp G).
  destruct (ctx_kids pq f 0 ch (wf_nodup t W) (wf_pos t W) G) as (A & B & E1 & E2 & E3 & E4 & E5).
  rewrite (parent_path_owner p f pq ch Gp G) in *. specialize (E2 (place nb x)).
  destruct (place_split nb x ch) as (a & b & Ech & Epl).
  assert (Pn : p <> n).
  { intros ->. destruct (proj1 (parent_path_live n f) (ex_intro _ pq Gp)) as [X|X]; contradiction. }
  assert (Npar : forall r, In r (rows 0 f) -> r_par r <> n).
  { intros r Hr E. destruct (rows_parent_in f 0 r Hr) as [X|X]; [congruence|]. apply Fn. now rewrite <- E. }
  assert (Mem : forall r, In r (rows 0 (upd_ch pq (place nb x) f)) <-> In r (rows 0 f) \/ r = (p, n, inf)).
  { intros r. rewrite E2, E1, Epl, Ech, !flat_map_in_split, !rows_app. cbn [rows_t flat_map x app]. repeat rewrite in_app_iff. cbn [In]. repeat rewrite in_app_iff.
    split; intros X; intuition (auto 10; try congruence). }
  constructor; cbn [set_all forest_of reg idx typed calc set_chl h_register set_regidx h_init add_all set_inf set_tr set_par hreg hidx htyped hcalc hch hpar htr hinf hall].
  - now rewrite (rep_reg h t R).
  - unfold hdid, h_init, add_all, set_inf. cbn [hinf]. rewrite upd_eq. now rewrite (rep_idx h t R).
  - apply R.
  - apply R.
  - intros q. fold f. rewrite (upd_neq _ n [] p Pn), Hc. unfold upd at 1. destruct (Nat.eqb q p) eqn:Eq.
    + apply Nat.eqb_eq in Eq. subst q. change n with (rid x). rewrite place_ids_map, E2, !kids_app.
      rewrite (kids_none p A), (kids_none p B), app_nil_r; try (intros r Hr; apply E3; apply in_or_app; tauto). cbn [app].
      rewrite kids_top; [reflexivity|]. rewrite Epl, ids_app, ids_cons. cbn [rid rch x]. rewrite ids_nil. cbn [app].
      rewrite Ech, ids_app in E4. intros Y. apply in_app_or in Y. destruct Y as [Y|[Y|Y]]; [apply E4, in_or_app; now left|congruence|apply E4, in_or_app; now right].
    + apply Nat.eqb_neq in Eq. unfold upd. destruct (Nat.eqb q n) eqn:En.
      * apply Nat.eqb_eq in En. subst q. symmetry. apply kids_none. intros r Hr. apply Mem in Hr. destruct Hr as [Hr| ->]; [now apply Npar|cbn; congruence].
      * rewrite (rep_ch h t R q). fold f. rewrite E2, E1, Epl, Ech, !flat_map_in_split, !rows_app, !kids_app. cbn [rows_t flat_map x]. rewrite kids_cons. cbn [r_par fst snd].
        replace (Nat.eqb p q) with false by (symmetry; apply Nat.eqb_neq; congruence). reflexivity.
  - intros r Hr. fold f in Hr. apply Mem in Hr. destruct Hr as [Hr| ->].
    + assert (Nr : r_id r <> n) by (intros E; apply Fn; rewrite <- E; now apply (rows_id_in f 0)).
      rewrite !(upd_neq _ n _ _ Nr). now apply (rep_node h t R).
    + cbn [r_id r_par r_info fst snd]. now rewrite !upd_eq.
  - rewrite !(upd_neq _ n _ 0) by congruence. apply R.
  - intros m Hm. fold f in Hm. rewrite <- (rows_ids _ 0) in Hm. apply in_map_iff in Hm. destruct Hm as (r & <- & Hr).
    apply Mem in Hr. apply in_or_app. destruct Hr as [Hr| ->]; [left; apply (rep_all h t R); now apply (rows_id_in f 0)|right; now left].
Qed.

Lemma Rep_dangling h t n p inf : Rep h t -> ~ In n (ids (forest_of t)) -> n <> 0 -> Rep (h_init h n p inf) t.
Proof.
  intros R Fn Nz.
  assert (Npar : forall r, In r (rows 0 (forest_of t)) -> r_par r <> n).
  { intros r Hr E. destruct (rows_parent_in _ 0 r Hr) as [X|X]; [congruence|]. apply Fn. now rewrite <- E. }
  constructor; cbn [h_init add_all set_inf set_tr set_par set_chl hreg hidx htyped hcalc hch hpar htr hinf hall]; try apply R.
  - intros q. unfold upd. destruct (Nat.eqb q n) eqn:En; [|apply R].
    apply Nat.eqb_eq in En. subst q. symmetry. now apply kids_none.
  - intros r Hr. assert (Nr : r_id r <> n) by (intros E; apply Fn; rewrite <- E; now apply (rows_id_in _ 0)).
    rewrite !(upd_neq _ n _ _ Nr). now apply (rep_node h t R).
  - rewrite !(upd_neq _ n _ 0) by congruence. apply R.
  - intros m Hm. apply in_or_app. left. now apply (rep_all h t R).
Qed.

Lemma upd_nth_same {X} (l : list X) i x : nth_error l i = Some x -> upd_nth i (fun _ => x) l = l.
Proof. intros H. destruct (nth_error_split l i H) as (a & b & -> & <-). now rewrite upd_nth_split. Qed.

Lemma RepW_put_l hw w ti h t nx : RepW hw w -> get_tree w ti = Some t -> Rep h t ->
  RepW (HW (upd_nth ti (fun _ => h) (htrees hw)) nx) (W (trees w) nx).
Proof.
  intros RW Gt R. assert (X := RepW_put hw w ti h t nx RW R). unfold get_tree in Gt. now rewrite (upd_nth_same _ _ _ Gt) in X.
Qed.

Lemma RepW_next hw w nx : RepW hw w -> RepW (HW (htrees hw) nx) (W (trees w) nx).
Proof. intros [E F]. now constructor. Qed.

(* one simulation statement: same result, related final states *)
Definition Sim (hr : res * hworld) (mr : res * world) : Prop := fst hr = fst mr /\ RepW (snd hr) (snd mr).

Lemma Sim_same r hw w : RepW hw w -> Sim (r, hw) (r, w).
Proof. intros H. now split. Qed.

Theorem sim_op_add hw w ti p d explicit k b : WFw w -> RepW hw w ->
  Sim (h_op_add hw ti p d explicit k b) (op_add w ti p d explicit k b).
Proof.
  intros W RW. unfold h_op_add, op_add. assert (G := RepW_get hw w ti RW).
  destruct (h_get hw ti) as [h|]; destruct (get_tree w ti) as [t|] eqn:Gt; try contradiction; [|now apply Sim_same].
  assert (Wt := WFw_tree w ti t W Gt). assert (Pl := h_plive_path h t p Wt G).
  destruct (parent_path p (forest_of t)) as [pq|] eqn:Gp.
  2:{ replace (h_plive h p) with false; [now apply Sim_same|]. destruct (h_plive h p); [|reflexivity].
      destruct (proj1 Pl eq_refl) as (pq & X). discriminate. }
  replace (h_plive h p) with true by (symmetry; apply Pl; now exists pq). cbn [negb].
  destruct (parent_path_get p _ pq Gp) as (ch & Gc). rewrite Gc.
  rewrite (before_ok_agree h t p pq ch _ Wt G Gp Gc).
  destruct (negb (before_ok (norm_before b) ch)); [now apply Sim_same|].
  rewrite (rep_calc h t G), (repw_next hw w RW).
  assert (Fn : ~ In (next w) (ids (forest_of t))) by (intros X; apply (WFw_tree_lt w ti t _ W Gt) in X; lia).
  assert (Nz : next w <> 0) by (destruct W; lia).
  destruct (match explicit with Some e => Some e | None => calc_id (calc t) d end) as [id|].
  2:{ split; [reflexivity|]. cbn [snd]. unfold h_put, h_bump, bump. cbn [htrees hnext trees next].
      rewrite (repw_next hw w RW). apply (RepW_put_l hw w ti _ t); auto. now apply Rep_dangling. }
  rewrite (collides_agree h t p id Wt G).
  replace (if htyped h then match k with Some _ => k | None => Some [99; 104; 105; 108; 100]%Z end else None) with (default_kind t k)
    by (unfold default_kind; now rewrite (rep_typed h t G)).
  destruct (collides t p id).
  - split; [reflexivity|]. cbn [snd]. unfold h_put, h_bump, bump. cbn [htrees hnext trees next].
    rewrite (repw_next hw w RW). apply (RepW_put_l hw w ti _ t); auto. now apply Rep_dangling.
  - split; [reflexivity|]. cbn [snd]. unfold h_put, put_tree, h_bump, bump. cbn [htrees hnext trees next].
    rewrite (repw_next hw w RW). apply RepW_put; [assumption|]. apply Rep_touch.
    apply (Rep_add_leaf h t p pq ch (next w) (mk_info d id (default_kind t k) []) (norm_before b) Wt G Gp Gc Fn Nz).
Qed.
