(* Heap refinement for EVERY operation of the Machine: no coverage hypothesis is left. *)
From Coq Require Import List ZArith Bool Arith Lia Permutation.
From NT Require Import Sx Rose Surgery Machine WF Invariant Heap HeapProofs HeapMore HeapRefine HeapFilter HeapFromDict.
Import ListNotations.

Theorem sim_step_all hw w o : WFw w -> RepW hw w -> Sim (h_step hw o) (step w o).
Proof.
  intros W RW. destruct (covered_heap o) eqn:C; [now apply sim_step|].
  destruct o; cbn [covered_heap] in C; try discriminate C; cbn [h_step step].
  - now apply sim_op_filter.
  - now apply sim_op_from_dict.
  - now apply sim_op_tree_from_dict.
Qed.

Theorem sim_run_all ops : forall hw w, WFw w -> RepW hw w -> RepW (h_run ops hw) (run ops w).
Proof.
  induction ops as [|o ops IH]; intros hw w W RW; [exact RW|].
  unfold h_run, run. cbn [fold_left]. apply IH; [now apply WFw_step|]. now apply (sim_step_all hw w o).
Qed.

(* every result along a history is the Machine's result *)
Theorem sim_trace_all ops : forall hw w, WFw w -> RepW hw w ->
  map fst (map (fun k => h_step (h_run (firstn k ops) hw) (nth k ops (ONewTree false None))) (seq 0 (length ops))) =
  map fst (map (fun k => step (run (firstn k ops) w) (nth k ops (ONewTree false None))) (seq 0 (length ops))).
Proof.
  intros hw w W RW. rewrite !map_map. apply map_ext_in. intros k Hk.
  apply (sim_step_all _ _ _ (WFw_run _ _ W) (sim_run_all _ _ _ W RW)).
Qed.

Theorem heap_refinement_all ops :
  RepW (h_run ops h_empty_world) (run ops empty_world) /\
  Forall HeapOK (htrees (h_run ops h_empty_world)) /\
  map abs_tstate (htrees (h_run ops h_empty_world)) = map Some (trees (run ops empty_world)).
Proof.
  assert (RW := sim_run_all ops _ _ WFw_empty RepW_empty). assert (W := WFw_run ops _ WFw_empty).
  split; [exact RW|]. destruct RW as [_ F]. destruct W as [Wt _ _ _].
  induction F as [|h t hs ts Rht F IH]; [split; [constructor|reflexivity]|].
  inversion Wt as [|x xs Wx Wxs]; subst. destruct (IH Wxs) as (I1 & I2). split.
  - constructor; [now apply (Rep_HeapOK h t)|assumption].
  - cbn [map]. rewrite I2. f_equal. now apply abs_correct.
Qed.

Theorem heap_commutes_all hw w o : WFw w -> RepW hw w ->
  abs_world hw = Some w /\
  fst (h_step hw o) = fst (step w o) /\
  abs_world (snd (h_step hw o)) = Some (snd (step w o)).
Proof.
  intros W RW. destruct (sim_step_all hw w o W RW) as (E1 & E2).
  refine (conj (abs_world_correct hw w W RW) (conj E1 _)). apply abs_world_correct; [now apply WFw_step|exact E2].
Qed.
