(* Facts about path-based forest surgery (Surgery.v).

   The master flattening is [rows o f]: one row (parent id, node id, info) per
   node, in pre-order, [o] being the owner of the top-level list.  Identities,
   (id, data_id) keys and (parent, data_id) pairs are all maps of it, and one
   CONTEXT LEMMA says what an update at a path does to it:

     get_ch p f = Some c ->
       rows o f = A ++ rows (owner p f o) c ++ B /\
       forall g, rows o (upd_ch p g f) = A ++ rows (owner p f o) (g c) ++ B.     *)
From Coq Require Import List ZArith Bool Arith Lia Permutation.
From NT Require Import Sx Rose ListFacts RoseFacts Surgery.
Import ListNotations.

(* ------------------------------------------------------------------ *)
(* lists *)
Lemma upd_nth_split {X} (g : X -> X) (a : list X) x b :
  upd_nth (length a) g (a ++ x :: b) = a ++ g x :: b.
Proof. induction a as [|y a IH]; cbn; [reflexivity|now rewrite IH]. Qed.

Lemma remove_nth_split {X} (a : list X) x b : remove_nth (length a) (a ++ x :: b) = a ++ b.
Proof. induction a as [|y a IH]; cbn; [reflexivity|now rewrite IH]. Qed.

Lemma nth_error_split' {X} (l : list X) i x :
  nth_error l i = Some x -> exists a b, l = a ++ x :: b /\ length a = i.
Proof. apply nth_error_split. Qed.

Lemma upd_nth_none {X} (g : X -> X) l i : nth_error l i = None -> upd_nth i g l = l.
Proof.
  revert i. induction l as [|x l IH]; intros [|i] H; cbn in *; try reflexivity; try discriminate.
  now rewrite IH.
Qed.

Lemma firstn_skipn_split {X} (a : list X) x b :
  firstn (length a) (a ++ x :: b) = a /\ skipn (S (length a)) (a ++ x :: b) = b.
Proof. split; [apply firstn_app_len|apply skipn_S_app_len]. Qed.

Lemma insert_at_perm {X} j (x : X) l : Permutation (insert_at j x l) (x :: l).
Proof.
  unfold insert_at. rewrite <- (firstn_skipn j l) at 3.
  symmetry. apply Permutation_middle.
Qed.

Lemma py_insert_perm {X} i (x : X) l : Permutation (py_insert i x l) (x :: l).
Proof. apply insert_at_perm. Qed.

Lemma insert_at_split {X} j (x : X) l : exists a b, l = a ++ b /\ insert_at j x l = a ++ x :: b.
Proof. exists (firstn j l), (skipn j l). split; [symmetry; apply firstn_skipn|reflexivity]. Qed.

(* ------------------------------------------------------------------ *)
(* rows *)
Definition row := (nat * nat * info)%type.
Definition r_par (r : row) : nat := fst (fst r).
Definition r_id (r : row) : nat := snd (fst r).
Definition r_info (r : row) : info := snd r.
Definition r_did (r : row) : did := i_did (snd r).
Definition r_key (r : row) : nat * did := (r_id r, r_did r).
Definition r_pd (r : row) : nat * did := (r_par r, r_did r).

Fixpoint rows_t (o : nat) (t : rt) : list row :=
  match t with T id i ch => (o, id, i) :: flat_map (rows_t id) ch end.
Notation rows o := (flat_map (rows_t o)).

Lemma rows_t_unfold o t : rows_t o t = (o, rid t, rinfo t) :: rows (rid t) (rch t).
Proof. destruct t; reflexivity. Qed.

Lemma rows_cons o t f : rows o (t :: f) = (o, rid t, rinfo t) :: rows (rid t) (rch t) ++ rows o f.
Proof. cbn [flat_map]. rewrite rows_t_unfold. reflexivity. Qed.

Lemma rows_app o a b : rows o (a ++ b) = rows o a ++ rows o b.
Proof. apply flat_map_app. Qed.

Lemma rows_ids_t : forall t o, map r_id (rows_t o t) = ids_t t.
Proof.
  induction t as [id i ch IH] using rt_ind'. intros o. cbn [rows_t map]. unfold ids_t. cbn [pre map rid].
  f_equal. induction ch as [|c ch IHc]; [reflexivity|]. cbn [flat_map]. rewrite !map_app.
  inversion IH as [|x l H1 H2]; subst. rewrite (H1 id). unfold ids_t. f_equal. now apply IHc.
Qed.

Lemma rows_ids f o : map r_id (rows o f) = ids f.
Proof.
  induction f as [|t f IH]; [reflexivity|]. cbn [flat_map]. rewrite map_app, rows_ids_t, IH.
  unfold ids, ids_t. cbn [flat_map]. now rewrite map_app.
Qed.

Definition keys_of (f : forest) : list (nat * did) := map (fun t => (rid t, rdid t)) (pre_f f).

Lemma rows_keys_t : forall t o, map r_key (rows_t o t) = map (fun t => (rid t, rdid t)) (pre t).
Proof.
  induction t as [id i ch IH] using rt_ind'. intros o. cbn [rows_t map pre].
  f_equal. induction ch as [|c ch IHc]; [reflexivity|]. cbn [flat_map]. rewrite !map_app.
  inversion IH as [|x l H1 H2]; subst. rewrite (H1 id). f_equal. now apply IHc.
Qed.

Lemma rows_keys f o : map r_key (rows o f) = keys_of f.
Proof.
  unfold keys_of. induction f as [|t f IH]; [reflexivity|]. cbn [flat_map]. now rewrite !map_app, rows_keys_t, IH.
Qed.

(* parents occurring in rows are the owner or nodes of the forest *)
Lemma rows_par_t : forall t o r, In r (rows_t o t) -> r_par r = o \/ In (r_par r) (map r_id (rows_t o t)).
Proof.
  induction t as [id i ch IH] using rt_ind'. intros o r H. cbn [rows_t] in H. destruct H as [<-|H]; [now left|].
  right. apply in_flat_map in H. destruct H as (c & Hc & H). rewrite Forall_forall in IH.
  cbn [rows_t map]. destruct (IH c Hc id r H) as [E|E].
  - rewrite E. now left.
  - right. apply in_map_iff in E. destruct E as (r' & E & Hr'). apply in_map_iff. exists r'. split; [assumption|].
    apply in_flat_map. now exists c.
Qed.

Lemma rows_par f o r : In r (rows o f) -> r_par r = o \/ In (r_par r) (ids f).
Proof.
  intros H. apply in_flat_map in H. destruct H as (t & Ht & H). destruct (rows_par_t t o r H) as [E|E]; [now left|right].
  rewrite <- (rows_ids f o). apply in_map_iff in E. destruct E as (r' & E & Hr'). apply in_map_iff. exists r'.
  split; [assumption|]. apply in_flat_map. now exists t.
Qed.

(* ------------------------------------------------------------------ *)
(* the context lemma *)
Fixpoint owner (p : path) (f : forest) (o : nat) : nat :=
  match p with
  | [] => o
  | i :: rest => match nth_error f i with Some t => owner rest (rch t) (rid t) | None => o end
  end.

Lemma rows_set_ch o g t : rows_t o (set_ch g t) = (o, rid t, rinfo t) :: rows (rid t) (g (rch t)).
Proof. destruct t; reflexivity. Qed.

Theorem upd_ch_context : forall p f o c, get_ch p f = Some c ->
  exists A B, rows o f = A ++ rows (owner p f o) c ++ B /\
              forall g, rows o (upd_ch p g f) = A ++ rows (owner p f o) (g c) ++ B.
Proof.
  induction p as [|i rest IH]; intros f o c H.
  - cbn in H. injection H as <-. exists [], []. cbn [owner upd_ch app]. split; [now rewrite app_nil_r|].
    intros g. now rewrite app_nil_r.
  - cbn [get_ch owner] in *. destruct (nth_error f i) as [t|] eqn:E; [|discriminate].
    destruct (nth_error_split f i E) as (a & b & -> & <-).
    destruct (IH (rch t) (rid t) c H) as (A & B & E1 & E2).
    exists (rows o a ++ (o, rid t, rinfo t) :: A), (B ++ rows o b). split.
    + rewrite rows_app, rows_cons, E1. la.
    + intros g. cbn [upd_ch]. rewrite upd_nth_split, rows_app. cbn [flat_map]. rewrite rows_set_ch, E2. la.
Qed.

Lemma pre_f_sub f t s : In t (pre_f f) -> In s (pre_f (rch t)) -> In s (pre_f f).
Proof.
  intros Ht Hs. destruct (pre_f_segment f t Ht) as (a & b & ->). rewrite pre_unfold.
  apply in_or_app. right. apply in_or_app. left. now right.
Qed.

(* get_ch / upd_ch basics *)
Lemma upd_ch_const : forall p f c g, get_ch p f = Some c -> upd_ch p g f = upd_ch p (fun _ => g c) f.
Proof.
  induction p as [|i rest IH]; intros f c g H.
  - cbn in *. now injection H as <-.
  - cbn [get_ch upd_ch] in *. destruct (nth_error f i) as [t|] eqn:E; [|discriminate].
    destruct (nth_error_split f i E) as (a & b & -> & <-). rewrite !upd_nth_split. f_equal. f_equal.
    destruct t as [id inf ch]. cbn [set_ch rch] in *. f_equal. now apply IH.
Qed.

Lemma get_ch_pre : forall p f c, get_ch p f = Some c -> incl (pre_f c) (pre_f f).
Proof.
  induction p as [|i rest IH]; intros f c H.
  - cbn in H. injection H as <-. apply incl_refl.
  - cbn [get_ch] in H. destruct (nth_error f i) as [t|] eqn:E; [|discriminate].
    intros x Hx. apply (IH _ _ H) in Hx. apply in_flat_map. exists t. split; [now apply nth_error_In in E|].
    rewrite pre_unfold. now right.
Qed.

Lemma get_ch_owner : forall p f o c, get_ch p f = Some c ->
  (p = [] /\ c = f /\ owner p f o = o) \/ (exists s, In s (pre_f f) /\ rid s = owner p f o /\ rch s = c).
Proof.
  induction p as [|i rest IH]; intros f o c H.
  - cbn in H. injection H as <-. left. now cbn.
  - right. cbn [get_ch owner] in *. destruct (nth_error f i) as [t|] eqn:E; [|discriminate].
    assert (Ht : In t (pre_f f)) by (apply in_pre_f_top; now apply nth_error_In in E).
    destruct (IH (rch t) (rid t) c H) as [(-> & -> & ->)|(s & Hs & E1 & E2)].
    + exists t. cbn. now repeat split.
    + exists s. repeat split; try assumption. now apply (pre_f_sub f t).
Qed.

(* ------------------------------------------------------------------ *)
(* tree / forest mutual induction *)
Lemma rt_forest_ind (P : rt -> Prop) (Q : forest -> Prop) :
  (forall id i ch, Q ch -> P (T id i ch)) -> Q [] -> (forall t f, P t -> Q f -> Q (t :: f)) ->
  (forall t, P t) /\ (forall f, Q f).
Proof.
  intros HT HN HC.
  assert (HP : forall t, P t).
  { induction t as [id i ch IH] using rt_ind'. apply HT. induction IH; [exact HN|now apply HC]. }
  split; [exact HP|]. induction f as [|t f IHf]; [exact HN|apply HC; auto].
Qed.

(* ------------------------------------------------------------------ *)
(* paths of nodes *)
Fixpoint sub_at (p : path) (t : rt) : option rt :=
  match p with
  | [] => Some t
  | i :: r => match nth_error (rch t) i with Some c => sub_at r c | None => None end
  end.
Definition node_at (q : path) (f : forest) : option rt :=
  match q with
  | [] => None
  | i :: r => match nth_error f i with Some c => sub_at r c | None => None end
  end.

Lemma find_path_unfold n id i ch :
  find_path n (T id i ch) = if Nat.eqb id n then Some [] else find_path_in n ch 0.
Proof.
  cbn [find_path]. destruct (Nat.eqb id n); [reflexivity|]. generalize 0.
  induction ch as [|c ch IH]; intros k; cbn [find_path_in]; [reflexivity|].
  destruct (find_path n c); [reflexivity|]. apply IH.
Qed.

Lemma find_path_sound :
  (forall t n p, find_path n t = Some p -> exists s, sub_at p t = Some s /\ rid s = n) /\
  (forall f n k q, find_path_in n f k = Some q ->
     exists j r c s, q = (k + j) :: r /\ nth_error f j = Some c /\ sub_at r c = Some s /\ rid s = n).
Proof.
  apply rt_forest_ind.
  - intros id i ch IH n p H. rewrite find_path_unfold in H. destruct (Nat.eqb id n) eqn:E.
    + injection H as <-. apply Nat.eqb_eq in E. exists (T id i ch). now split.
    + destruct (IH n 0 p H) as (j & r & c & s & -> & H1 & H2 & H3). exists s. split; [|assumption].
      cbn [sub_at rch Nat.add]. now rewrite H1.
  - intros n k q H. discriminate.
  - intros t f IHt IHf n k q H. cbn [find_path_in] in H. destruct (find_path n t) as [p|] eqn:E.
    + injection H as <-. destruct (IHt n p E) as (s & H1 & H2). exists 0, p, t, s.
      rewrite Nat.add_0_r. now repeat split.
    + destruct (IHf n (S k) q H) as (j & r & c & s & -> & H1 & H2 & H3). exists (S j), r, c, s.
      repeat split; try assumption. f_equal. lia.
Qed.

Lemma node_path_sound n f q : node_path n f = Some q -> exists s, node_at q f = Some s /\ rid s = n.
Proof.
  intros H. destruct (proj2 find_path_sound f n 0 q H) as (j & r & c & s & -> & H1 & H2 & H3).
  exists s. split; [|assumption]. cbn. now rewrite H1.
Qed.

Lemma find_path_complete :
  (forall t n, find_path n t = None -> ~ In n (ids_t t)) /\
  (forall f n k, find_path_in n f k = None -> ~ In n (ids f)).
Proof.
  apply rt_forest_ind.
  - intros id i ch IH n H. rewrite find_path_unfold in H. destruct (Nat.eqb id n) eqn:E; [discriminate|].
    apply Nat.eqb_neq in E. rewrite ids_t_unfold. cbn [rid rch]. intros [E'|E']; [contradiction|].
    now apply (IH n 0 H).
  - intros n k _ [].
  - intros t f IHt IHf n k H. cbn [find_path_in] in H. destruct (find_path n t) as [p|] eqn:E; [discriminate|].
    change (t :: f) with ([t] ++ f). rewrite ids_app, in_app_iff.
    replace (ids [t]) with (ids_t t) by (unfold ids, ids_t; cbn; now rewrite app_nil_r).
    intros [H1|H1]; [now apply (IHt n E)|now apply (IHf n (S k) H)].
Qed.

Lemma node_path_complete n f : In n (ids f) -> exists q, node_path n f = Some q.
Proof.
  intros H. unfold node_path. destruct (find_path_in n f 0) as [q|] eqn:E; [now exists q|].
  exfalso. now apply (proj2 find_path_complete f n 0 E).
Qed.

Lemma split_path_cons i r q0 j : split_path r = Some (q0, j) -> split_path (i :: r) = Some (i :: q0, j).
Proof.
  unfold split_path. cbn [rev]. destruct (rev r) as [|x rr] eqn:E; [discriminate|].
  intros H. injection H as <- <-. cbn [app]. rewrite rev_app_distr. reflexivity.
Qed.

Lemma sub_at_loc : forall r c s, sub_at r c = Some s ->
  get_ch r (rch c) = Some (rch s) /\ owner r (rch c) (rid c) = rid s /\ In s (pre c) /\
  (r <> [] -> exists q0 i l, split_path r = Some (q0, i) /\ get_ch q0 (rch c) = Some l /\ nth_error l i = Some s).
Proof.
  induction r as [|j r IH]; intros c s H.
  - cbn in H. injection H as <-. cbn. repeat split; auto. { apply pre_in_self. } intros E. now contradiction E.
  - cbn [sub_at] in H. destruct (nth_error (rch c) j) as [d|] eqn:E; [|discriminate].
    destruct (IH d s H) as (H1 & H2 & H3 & H4). cbn [get_ch owner]. rewrite E.
    refine (conj H1 (conj H2 (conj _ _))).
    + rewrite pre_unfold. right. apply in_flat_map. exists d. split; [now apply nth_error_In in E|assumption].
    + intros _. destruct r as [|j' r'].
      * cbn in H. injection H as <-. exists [], j, (rch c). now repeat split.
      * destruct H4 as (q0 & i & l & S1 & S2 & S3); [discriminate|].
        exists (j :: q0), i, l. split; [now apply split_path_cons|]. split; [|assumption].
        cbn [get_ch]. now rewrite E.
Qed.

Lemma node_at_loc q f s o : node_at q f = Some s ->
  get_ch q f = Some (rch s) /\ owner q f o = rid s /\ In s (pre_f f) /\
  exists q0 i l, split_path q = Some (q0, i) /\ get_ch q0 f = Some l /\ nth_error l i = Some s.
Proof.
  destruct q as [|j r]; [discriminate|]. cbn [node_at]. destruct (nth_error f j) as [c|] eqn:E; [|discriminate].
  intros H. destruct (sub_at_loc r c s H) as (H1 & H2 & H3 & H4). cbn [get_ch owner]. rewrite E.
  refine (conj H1 (conj H2 (conj _ _))).
  - apply in_flat_map. exists c. split; [now apply nth_error_In in E|assumption].
  - destruct r as [|j' r'].
    + cbn in H. injection H as <-. exists [], j, f. now repeat split.
    + destruct H4 as (q0 & i & l & S1 & S2 & S3); [discriminate|].
      exists (j :: q0), i, l. split; [now apply split_path_cons|]. split; [|assumption]. cbn [get_ch]. now rewrite E.
Qed.

(* what the model's resolvers return *)
Lemma node_loc_spec n f q0 i l : node_loc n f = Some (q0, i, l) ->
  get_ch q0 f = Some l /\ exists s, nth_error l i = Some s /\ rid s = n /\ get_node n f = Some s /\ In s (pre_f f).
Proof.
  unfold node_loc, get_node. destruct (node_path n f) as [q|] eqn:E; [|discriminate].
  destruct (node_path_sound n f q E) as (s & H1 & H2).
  destruct (node_at_loc q f s 0 H1) as (_ & _ & H3 & q0' & i' & l' & S1 & S2 & S3).
  rewrite S1, S2. intros H. injection H as <- <- <-. split; [assumption|]. exists s. now repeat split.
Qed.

Lemma get_node_spec n f s : get_node n f = Some s -> In s (pre_f f) /\ rid s = n.
Proof.
  unfold get_node. destruct (node_path n f) as [q|] eqn:E; [|discriminate].
  destruct (node_path_sound n f q E) as (s' & H1 & H2).
  destruct (node_at_loc q f s' 0 H1) as (_ & _ & H3 & q0' & i' & l' & S1 & S2 & S3).
  rewrite S1, S2, S3. intros H. injection H as <-. now split.
Qed.

Lemma get_node_loc n f s : get_node n f = Some s -> exists q0 i l, node_loc n f = Some (q0, i, l) /\ nth_error l i = Some s.
Proof.
  unfold get_node, node_loc. destruct (node_path n f) as [q|]; [|discriminate].
  destruct (split_path q) as [[q0 i]|]; [|discriminate]. destruct (get_ch q0 f) as [l|]; [|discriminate].
  intros H. now exists q0, i, l.
Qed.

Lemma get_node_complete n f : In n (ids f) -> exists s, get_node n f = Some s.
Proof.
  intros H. destruct (node_path_complete n f H) as (q & E). unfold get_node. rewrite E.
  destruct (node_path_sound n f q E) as (s & H1 & H2).
  destruct (node_at_loc q f s 0 H1) as (_ & _ & H3 & q0' & i' & l' & S1 & S2 & S3).
  rewrite S1, S2, S3. now exists s.
Qed.

Lemma get_node_unique n f s : NoDup (ids f) -> In s (pre_f f) -> rid s = n -> get_node n f = Some s.
Proof.
  intros ND Hs E. assert (Hn : In n (ids f)) by (subst n; unfold ids; now apply in_map).
  destruct (get_node_complete n f Hn) as (s' & H). rewrite H. f_equal.
  destruct (get_node_spec n f s' H) as (H1 & H2). apply (node_unique f); auto. congruence.
Qed.

Lemma parent_path_spec p f pq ch o : parent_path p f = Some pq -> get_ch pq f = Some ch ->
  (p = 0 /\ pq = [] /\ ch = f) \/ (p <> 0 /\ exists s, In s (pre_f f) /\ rid s = p /\ rch s = ch /\ owner pq f o = p).
Proof.
  unfold parent_path. destruct (Nat.eqb p 0) eqn:E.
  - apply Nat.eqb_eq in E. intros H. injection H as <-. cbn. intros H. injection H as <-. now left.
  - apply Nat.eqb_neq in E. intros H G. right. split; [assumption|].
    destruct (node_path_sound p f pq H) as (s & H1 & H2).
    destruct (node_at_loc pq f s o H1) as (G1 & G2 & G3 & _). exists s. rewrite G in G1. injection G1 as ->.
    repeat split; auto. congruence.
Qed.

Lemma parent_path_owner p f pq ch : parent_path p f = Some pq -> get_ch pq f = Some ch -> owner pq f 0 = p.
Proof.
  intros H G. destruct (parent_path_spec p f pq ch 0 H G) as [(-> & -> & _)|(_ & s & _ & _ & _ & E)]; [reflexivity|exact E].
Qed.

(* ------------------------------------------------------------------ *)
(* which node a row belongs to *)
Lemma rows_member :
  (forall t o p c inf, In (p, c, inf) (rows_t o t) ->
     (p = o /\ rid t = c /\ rinfo t = inf) \/
     (exists s, In s (pre t) /\ rid s = p /\ exists x, In x (rch s) /\ rid x = c /\ rinfo x = inf)) /\
  (forall f o p c inf, In (p, c, inf) (rows o f) ->
     (p = o /\ exists x, In x f /\ rid x = c /\ rinfo x = inf) \/
     (exists s, In s (pre_f f) /\ rid s = p /\ exists x, In x (rch s) /\ rid x = c /\ rinfo x = inf)).
Proof.
  apply rt_forest_ind.
  - intros id i ch IH o p c inf H. cbn [rows_t] in H. destruct H as [H|H].
    + injection H as <- <- <-. left. now repeat split.
    + right. destruct (IH id p c inf H) as [(-> & x & Hx)|(s & Hs & Hr)].
      * exists (T id i ch). split; [now left|]. split; [reflexivity|]. now exists x.
      * exists s. split; [now right|assumption].
  - intros o p c inf [].
  - intros t f IHt IHf o p c inf H. cbn [flat_map] in H. apply in_app_or in H. destruct H as [H|H].
    + destruct (IHt o p c inf H) as [(-> & E1 & E2)|(s & Hs & Hr)].
      * left. split; [reflexivity|]. exists t. split; [now left|now split].
      * right. exists s. split; [|assumption]. cbn [flat_map]. apply in_or_app. now left.
    + destruct (IHf o p c inf H) as [(-> & x & Hx & Hr)|(s & Hs & Hr)].
      * left. split; [reflexivity|]. exists x. split; [now right|assumption].
      * right. exists s. split; [|assumption]. cbn [flat_map]. apply in_or_app. now right.
Qed.

(* a row whose parent column is the owner of a child list describes a member of that list *)
Lemma rows_owner_member q f l c inf : NoDup (ids f) -> ~ In 0 (ids f) -> get_ch q f = Some l ->
  In (owner q f 0, c, inf) (rows 0 f) -> exists x, In x l /\ rid x = c /\ rinfo x = inf.
Proof.
  intros ND Z G H. destruct (proj2 rows_member f 0 _ c inf H) as [(E & x & Hx)|(s' & Hs' & E' & x & Hx)].
  - destruct (get_ch_owner q f 0 l G) as [(_ & -> & _)|(s & Hs & E1 & E2)]; [now exists x|].
    exfalso. apply Z. rewrite <- E, <- E1. unfold ids. now apply in_map.
  - destruct (get_ch_owner q f 0 l G) as [(_ & _ & E1)|(s & Hs & E1 & E2)].
    + exfalso. apply Z. rewrite <- E1, <- E'. unfold ids. now apply in_map.
    + assert (s' = s) by (apply (node_unique f); auto; congruence). subst s'. rewrite <- E2. now exists x.
Qed.

Lemma parent_path_get p f pq : parent_path p f = Some pq -> exists ch, get_ch pq f = Some ch.
Proof.
  unfold parent_path. destruct (Nat.eqb p 0).
  - intros H. injection H as <-. now exists f.
  - intros H. destruct (node_path_sound p f pq H) as (s & H1 & _).
    destruct (node_at_loc pq f s 0 H1) as (G & _). now exists (rch s).
Qed.
