(* Well-formedness of a tree state and of a world (the C01-C03 invariant),
   a boolean checker and the reflection lemma.

   [WF t] is stated with a minimal set of clauses (permutations of flattened
   lists); [WF_spelled] derives the longer DESIGN.md 3.2 formulation from it
   (duplicate-free registry, distinct index keys, non-empty duplicate-free
   groups, membership characterisation of the index). *)
From Coq Require Import List ZArith Bool Arith Lia Permutation.
From NT Require Import Sx Rose ListFacts RoseFacts Surgery Machine.
Import ListNotations.

(* ------------------------------------------------------------------ *)
(* boolean list predicates over a type with a reflecting equality test *)
Section BoolLists.
  Context {X : Type} (eqb : X -> X -> bool).
  Hypothesis eqb_eq : forall x y, eqb x y = true <-> x = y.

  Definition memb (x : X) (l : list X) : bool := existsb (eqb x) l.
  Fixpoint nodupb (l : list X) : bool :=
    match l with [] => true | x :: l' => negb (memb x l') && nodupb l' end.
  Definition inclb (a b : list X) : bool := forallb (fun x => memb x b) a.
  (* permutation test, complete when the second list is duplicate-free *)
  Definition permb (a b : list X) : bool := nodupb a && inclb a b && inclb b a.

  Lemma memb_In x l : memb x l = true <-> In x l.
  Proof.
    unfold memb. rewrite existsb_exists. split.
    - intros (y & Hy & E). apply eqb_eq in E. now subst.
    - intros H. exists x. split; [assumption|now apply eqb_eq].
  Qed.

  Lemma memb_false x l : memb x l = false <-> ~ In x l.
  Proof. rewrite <- memb_In. destruct (memb x l); split; congruence. Qed.

  Lemma nodupb_NoDup l : nodupb l = true <-> NoDup l.
  Proof.
    induction l as [|x l IH]; cbn.
    - split; [constructor|reflexivity].
    - rewrite andb_true_iff, negb_true_iff, memb_false, IH. split.
      + intros [H1 H2]. now constructor.
      + intros H. inversion H as [|y l' H1 H2]; subst. now split.
  Qed.

  Lemma inclb_incl a b : inclb a b = true <-> incl a b.
  Proof.
    unfold inclb, incl. rewrite forallb_forall. split; intros H x Hx.
    - apply memb_In. now apply H.
    - apply memb_In. now apply H.
  Qed.

  Lemma permb_Permutation a b : NoDup b -> (permb a b = true <-> Permutation a b).
  Proof.
    intros Nb. unfold permb. rewrite !andb_true_iff, nodupb_NoDup, !inclb_incl. split.
    - intros [[Na Hab] Hba]. apply NoDup_Permutation; try assumption.
      intros x. split; [apply Hab|apply Hba].
    - intros P. split; [split|].
      + apply (Permutation_NoDup (Permutation_sym P) Nb).
      + intros x Hx. now apply (Permutation_in _ P).
      + intros x Hx. now apply (Permutation_in _ (Permutation_sym P)).
  Qed.
End BoolLists.

Definition key_eqb (a b : nat * did) : bool := Nat.eqb (fst a) (fst b) && did_eqb (snd a) (snd b).
Lemma key_eqb_eq a b : key_eqb a b = true <-> a = b.
Proof.
  destruct a as [x d], b as [y e]. unfold key_eqb. cbn [fst snd].
  rewrite andb_true_iff, Nat.eqb_eq, did_eqb_eq. split.
  - intros [-> ->]. reflexivity.
  - intros E. injection E as -> ->. now split.
Qed.

(* ------------------------------------------------------------------ *)
(* flattenings *)
Definition key_of_node (t : rt) : nat * did := (rid t, rdid t).
Definition keys (f : forest) : list (nat * did) := map key_of_node (pre_f f).
Definition idx_flat (ix : idxt) : list (nat * did) :=
  flat_map (fun e => map (fun n => (n, fst e)) (snd e)) ix.

Lemma keys_fst f : map fst (keys f) = ids f.
Proof. unfold keys, ids. rewrite map_map. reflexivity. Qed.

(* ------------------------------------------------------------------ *)
(* no two siblings (top level included) with the same data_id *)
Inductive SU : forest -> Prop :=
| SU_intro f : NoDup (map rdid f) -> (forall t, In t f -> SU (rch t)) -> SU f.

Fixpoint su_tb (t : rt) : bool :=
  match t with T _ _ ch => nodupb did_eqb (map rdid ch) && forallb su_tb ch end.
Definition su_b (f : forest) : bool := nodupb did_eqb (map rdid f) && forallb su_tb f.

Lemma su_tb_unfold t : su_tb t = su_b (rch t).
Proof. destruct t; reflexivity. Qed.

Lemma su_tb_SU : forall t, su_tb t = true <-> SU (rch t).
Proof.
  induction t as [id i ch IH] using rt_ind'. cbn [su_tb rch].
  rewrite andb_true_iff, (nodupb_NoDup did_eqb did_eqb_eq), forallb_forall. split.
  - intros [H1 H2]. constructor; [assumption|]. intros t Ht.
    rewrite Forall_forall in IH. apply IH; [assumption|]. now apply H2.
  - intros H. inversion H as [f H1 H2 E]; subst. split; [assumption|]. intros t Ht.
    rewrite Forall_forall in IH. apply IH; [assumption|]. now apply H2.
Qed.

Lemma su_b_SU f : su_b f = true <-> SU f.
Proof.
  unfold su_b. rewrite andb_true_iff, (nodupb_NoDup did_eqb did_eqb_eq), forallb_forall. split.
  - intros [H1 H2]. constructor; [assumption|]. intros t Ht. apply su_tb_SU. now apply H2.
  - intros H. inversion H as [f' H1 H2 E]; subst. split; [assumption|]. intros t Ht. apply su_tb_SU. now apply H2.
Qed.

(* the path-free reading of SU *)
Definition sib_unique (f : forest) : Prop :=
  NoDup (map rdid f) /\ forall t, In t (pre_f f) -> NoDup (map rdid (rch t)).

Lemma SU_top f : SU f -> NoDup (map rdid f).
Proof. intros H. now inversion H. Qed.
Lemma SU_child f t : SU f -> In t f -> SU (rch t).
Proof. intros H. inversion H as [f' H1 H2 E]; subst. apply H2. Qed.

Lemma SU_pre : forall t s, SU (rch t) -> In s (pre t) -> SU (rch s).
Proof.
  induction t as [id i ch IH] using rt_ind'. intros s H Hs. cbn in Hs. destruct Hs as [<-|Hs]; [exact H|].
  apply in_flat_map in Hs. destruct Hs as (c & Hc & Hs). rewrite Forall_forall in IH.
  apply (IH c Hc s); [|assumption]. cbn [rch] in H. now apply (SU_child ch).
Qed.

Lemma SU_pre_f f s : SU f -> In s (pre_f f) -> SU (rch s).
Proof.
  intros H Hs. apply in_flat_map in Hs. destruct Hs as (c & Hc & Hs).
  apply (SU_pre c); [now apply (SU_child f)|assumption].
Qed.

Lemma SU_of_pre_t : forall t, (forall s, In s (pre t) -> NoDup (map rdid (rch s))) -> SU (rch t).
Proof.
  induction t as [id i ch IH] using rt_ind'. intros H. cbn [rch]. constructor.
  - apply (H (T id i ch)). now left.
  - intros c Hc. rewrite Forall_forall in IH. apply IH; [assumption|]. intros s Hs. apply H.
    cbn. right. apply in_flat_map. now exists c.
Qed.

Lemma SU_sib_unique f : SU f <-> sib_unique f.
Proof.
  split.
  - intros H. split; [now apply SU_top|]. intros t Ht. apply SU_top. now apply (SU_pre_f f).
  - intros [H1 H2]. constructor; [assumption|]. intros t Ht. apply SU_of_pre_t. intros s Hs. apply H2.
    apply in_flat_map. now exists t.
Qed.

(* ------------------------------------------------------------------ *)
Record WF (t : tstate) : Prop := {
  wf_nodup : NoDup (ids (forest_of t));                       (* node identities are unique *)
  wf_pos   : ~ In 0 (ids (forest_of t));                      (* 0 denotes the system root *)
  wf_reg   : Permutation (reg t) (ids (forest_of t));         (* _node_by_id = the nodes of the tree *)
  wf_ikeys : NoDup (map fst (idx t));                         (* one group per data_id *)
  wf_ine   : Forall (fun e => snd e <> []) (idx t);           (* no empty group *)
  wf_idx   : Permutation (idx_flat (idx t)) (keys (forest_of t));  (* groups = nodes by current data_id *)
  wf_su    : SU (forest_of t)                                 (* sibling uniqueness *)
}.

Definition all_ids (w : world) : list nat := flat_map (fun t => ids (forest_of t)) (trees w).

Record WFw (w : world) : Prop := {
  ww_trees : Forall WF (trees w);
  ww_disj  : NoDup (all_ids w);                               (* no node in two trees (or twice in one) *)
  ww_next  : Forall (fun n => n < next w) (all_ids w);        (* the allocator is ahead of every node *)
  ww_pos   : 0 < next w                                       (* 0 is never allocated *)
}.

(* ---- checker ---- *)
Definition wf_b (t : tstate) : bool :=
  let f := forest_of t in
  nodupb Nat.eqb (ids f)
  && negb (memb Nat.eqb 0 (ids f))
  && permb Nat.eqb (reg t) (ids f)
  && nodupb did_eqb (map fst (idx t))
  && forallb (fun e => match snd e with [] => false | _ => true end) (idx t)
  && permb key_eqb (idx_flat (idx t)) (keys f)
  && su_b f.

Definition wf_world_b (w : world) : bool :=
  forallb wf_b (trees w) && nodupb Nat.eqb (all_ids w) && forallb (fun n => Nat.ltb n (next w)) (all_ids w)
  && Nat.ltb 0 (next w).

Lemma NoDup_keys f : NoDup (ids f) -> NoDup (keys f).
Proof. intros H. rewrite <- keys_fst in H. now apply NoDup_map_inv in H. Qed.

Theorem wf_b_WF t : wf_b t = true <-> WF t.
Proof.
  unfold wf_b. rewrite !andb_true_iff, negb_true_iff.
  rewrite (nodupb_NoDup Nat.eqb Nat.eqb_eq), (memb_false Nat.eqb Nat.eqb_eq),
          (nodupb_NoDup did_eqb did_eqb_eq), su_b_SU, forallb_forall.
  split.
  - intros [[[[[[H1 H2] H3] H4] H5] H6] H7].
    apply (permb_Permutation Nat.eqb Nat.eqb_eq _ _ H1) in H3.
    apply (permb_Permutation key_eqb key_eqb_eq _ _ (NoDup_keys _ H1)) in H6.
    constructor; try assumption.
    apply Forall_forall. intros e He. specialize (H5 e He). destruct (snd e); [discriminate|discriminate].
  - intros [H1 H2 H3 H4 H5 H6 H7].
    refine (conj (conj (conj (conj (conj (conj H1 H2) _) H4) _) _) H7).
    + now apply (permb_Permutation Nat.eqb Nat.eqb_eq _ _ H1).
    + intros e He. rewrite Forall_forall in H5. specialize (H5 e He). destruct (snd e); [congruence|reflexivity].
    + now apply (permb_Permutation key_eqb key_eqb_eq _ _ (NoDup_keys _ H1)).
Qed.

Theorem wf_world_b_WFw w : wf_world_b w = true <-> WFw w.
Proof.
  unfold wf_world_b. rewrite !andb_true_iff, !forallb_forall, (nodupb_NoDup Nat.eqb Nat.eqb_eq). split.
  - intros [[[H1 H2] H3] H4]. constructor; [|assumption| |now apply Nat.ltb_lt].
    + apply Forall_forall. intros t Ht. apply wf_b_WF. now apply H1.
    + apply Forall_forall. intros n Hn. apply Nat.ltb_lt. now apply H3.
  - intros [H1 H2 H3 H4]. rewrite Forall_forall in H1, H3. refine (conj (conj (conj _ H2) _) _).
    + intros t Ht. apply wf_b_WF. now apply H1.
    + intros n Hn. apply Nat.ltb_lt. now apply H3.
    + now apply Nat.ltb_lt.
Qed.

(* ------------------------------------------------------------------ *)
(* index lookups against the flattened index *)
Lemma idx_get_flat : forall ix d n, NoDup (map fst ix) -> (In n (idx_get d ix) <-> In (n, d) (idx_flat ix)).
Proof.
  unfold idx_get. induction ix as [|[e l] ix IH]; intros d n ND; cbn [find fst snd idx_flat flat_map].
  - cbn. tauto.
  - cbn [map fst] in ND. inversion ND as [|x xs Hx ND' E]; subst.
    rewrite in_app_iff, in_map_iff. fold (idx_flat ix). destruct (did_eqb e d) eqn:Ed.
    + apply did_eqb_eq in Ed. subst e. cbn [snd]. split.
      * intros H. left. now exists n.
      * intros [(m & E & Hm)|H]; [now injection E as ->|].
        exfalso. apply Hx. unfold idx_flat in H. apply in_flat_map in H. destruct H as (e' & He' & H).
        apply in_map_iff in H. destruct H as (m & E & _). injection E as _ <-.
        apply in_map_iff. now exists e'.
    + rewrite (IH d n ND'). split; [tauto|]. intros [(m & E & _)|H]; [|assumption].
      injection E as _ ->. rewrite did_eqb_refl in Ed. discriminate.
Qed.

Lemma idx_flat_group_nodup : forall ix, NoDup (idx_flat ix) -> Forall (fun e => NoDup (snd e)) ix.
Proof.
  induction ix as [|[e l] ix IH]; intros H; constructor.
  - cbn in H. apply NoDup_app_l in H. cbn [snd]. now apply NoDup_map_inv in H.
  - apply IH. cbn in H. now apply NoDup_app_r in H.
Qed.

(* data_id of a node identity, read off the flattening (no paths) *)
Definition has_key (f : forest) (n : nat) (d : did) : Prop := In (n, d) (keys f).

(* DESIGN.md 3.2, spelled out *)
Theorem WF_spelled t : WF t ->
  NoDup (ids (forest_of t))
  /\ NoDup (reg t) /\ Permutation (reg t) (ids (forest_of t))
  /\ NoDup (map fst (idx t))
  /\ Forall (fun e => snd e <> [] /\ NoDup (snd e)) (idx t)
  /\ (forall n d, In n (idx_get d (idx t)) <-> In (n, d) (keys (forest_of t)))
  /\ sib_unique (forest_of t).
Proof.
  intros [H1 H2 H3 H4 H5 H6 H7].
  assert (NK : NoDup (idx_flat (idx t))).
  { apply (Permutation_NoDup (Permutation_sym H6)). now apply NoDup_keys. }
  refine (conj H1 (conj _ (conj H3 (conj H4 (conj _ (conj _ _)))))).
  - apply (Permutation_NoDup (Permutation_sym H3) H1).
  - apply idx_flat_group_nodup in NK. rewrite Forall_forall in *. intros e He. split; auto.
  - intros n d. rewrite (idx_get_flat _ d n H4). split; intros H.
    + now apply (Permutation_in _ H6).
    + now apply (Permutation_in _ (Permutation_sym H6)).
  - now apply SU_sib_unique.
Qed.

(* ------------------------------------------------------------------ *)
(* the empty world, and creating a tree *)
Lemma WF_empty ty c : WF (TS [] [] [] ty c).
Proof.
  constructor; cbn; try (now constructor); auto.
  constructor; [constructor|intros t []].
Qed.

Lemma WFw_empty : WFw empty_world.
Proof. constructor; cbn; try constructor. Qed.

Lemma all_ids_app ts1 ts2 n :
  all_ids (W (ts1 ++ ts2) n) = all_ids (W ts1 n) ++ all_ids (W ts2 n).
Proof. unfold all_ids. cbn. apply flat_map_app. Qed.

Lemma WFw_new_tree w ty c : WFw w -> WFw (snd (step w (ONewTree ty c))).
Proof.
  intros [H1 H2 H3 H4]. cbn. constructor; [| | |exact H4].
  - cbn. apply Forall_app. split; [assumption|]. constructor; [apply WF_empty|constructor].
  - unfold all_ids in *. cbn in *. rewrite flat_map_app. cbn. now rewrite app_nil_r.
  - unfold all_ids in *. cbn in *. rewrite flat_map_app. cbn. now rewrite app_nil_r.
Qed.

(* ------------------------------------------------------------------ *)
(* conversely: the DESIGN.md 3.2 clauses (plus "0 is not a node") give WF, so [WF] is exactly
   that formulation *)
Lemma idx_flat_nodup : forall ix, NoDup (map fst ix) -> Forall (fun e => NoDup (snd e)) ix -> NoDup (idx_flat ix).
Proof.
  induction ix as [|[e l] ix IH]; intros K G; [constructor|]. cbn [map fst] in K.
  inversion K as [|x xs Hx K' E]; subst. inversion G as [|y ys G1 G2]; subst. cbn [snd] in G1.
  change (idx_flat ((e, l) :: ix)) with (map (fun n => (n, e)) l ++ idx_flat ix).
  apply NoDup_app_intro; [|now apply IH|].
  - clear -G1. induction G1 as [|n l Hn G1 IH]; [constructor|]. cbn. constructor; [|assumption].
    intros X. apply in_map_iff in X. destruct X as (m & E & Hm). injection E as ->. contradiction.
  - intros [n d] H1 H2. apply in_map_iff in H1. destruct H1 as (m & E & _). injection E as _ <-.
    apply Hx. unfold idx_flat in H2. apply in_flat_map in H2. destruct H2 as (e' & He' & H2).
    apply in_map_iff in H2. destruct H2 as (m' & E' & _). injection E' as _ <-. apply in_map_iff. now exists e'.
Qed.

Theorem WF_of_spelled t :
  NoDup (ids (forest_of t)) -> ~ In 0 (ids (forest_of t)) ->
  Permutation (reg t) (ids (forest_of t)) ->
  NoDup (map fst (idx t)) ->
  Forall (fun e => snd e <> [] /\ NoDup (snd e)) (idx t) ->
  (forall n d, In n (idx_get d (idx t)) <-> In (n, d) (keys (forest_of t))) ->
  sib_unique (forest_of t) ->
  WF t.
Proof.
  intros H1 H2 H3 H4 H5 H6 H7. constructor; try assumption.
  - eapply Forall_impl; [|exact H5]. cbn. intros e [X _]. exact X.
  - apply NoDup_Permutation.
    + apply idx_flat_nodup; [assumption|]. eapply Forall_impl; [|exact H5]. cbn. intros e [_ X]. exact X.
    + now apply NoDup_keys.
    + intros [n d]. rewrite <- (idx_get_flat _ d n H4). apply H6.
  - now apply SU_sib_unique.
Qed.
