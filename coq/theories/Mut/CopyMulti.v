(* C07, part 4: several sources copied by one call - add(tree), copy_to(add_self=False),
   Tree.copy_to.  Built on CopyFacts.add_node_effect. *)
From Coq Require Import List ZArith Bool Arith Lia Permutation Relations.
From NT Require Import Sx Rose ListFacts RoseFacts Surgery SurgeryFacts Machine WF MachineFacts Effects FrameTrees CopyFacts.
Import ListNotations.

Local Ltac la := repeat (rewrite <- app_assoc || rewrite <- app_comm_cons); try reflexivity.

(* ------------------------------------------------------------------ *)
(* the path of a node does not depend on what is below it *)
Lemma find_path_stable :
  (forall t n r g, find_path n t = Some r -> find_path n (set_ch (upd_ch r g) t) = Some r) /\
  (forall f n k q g, find_path_in n f k = Some q ->
     exists i r, q = (k + i) :: r /\ find_path_in n (upd_nth i (set_ch (upd_ch r g)) f) k = Some q).
Proof.
  apply rt_forest_ind.
  - intros id inf ch IH n r g H. rewrite find_path_unfold in H. cbn [set_ch]. rewrite find_path_unfold.
    destruct (Nat.eqb id n) eqn:E; [now injection H as <-|].
    destruct (IH n 0 r g H) as (i & r' & -> & H2). cbn [Nat.add upd_ch]. exact H2.
  - intros n k q g H. discriminate.
  - intros t f IHt IHf n k q g H. cbn [find_path_in] in H.
    destruct (find_path n t) as [r|] eqn:E.
    + injection H as <-. exists 0, r. split; [f_equal; lia|]. cbn [upd_nth find_path_in].
      now rewrite (IHt n r g E).
    + destruct (IHf n (S k) q g H) as (i & r & -> & H2). exists (S i), r. split; [f_equal; lia|].
      cbn [upd_nth find_path_in]. rewrite E. exact H2.
Qed.

Lemma node_path_stable n f q g : node_path n f = Some q -> node_path n (upd_ch q g f) = Some q.
Proof.
  unfold node_path. intros H. destruct (proj2 find_path_stable f n 0 q g H) as (i & r & -> & H2).
  cbn [Nat.add upd_ch]. exact H2.
Qed.

Lemma parent_path_stable p f q g : parent_path p f = Some q -> parent_path p (upd_ch q g f) = Some q.
Proof.
  unfold parent_path. destruct (Nat.eqb p 0); [auto|]. apply node_path_stable.
Qed.

(* ------------------------------------------------------------------ *)
(* inserting several nodes one after the other with the same `before` *)
Definition place_all (nb : nbefore) (xs ch : list rt) : list rt := fold_left (fun c x => place nb x c) xs ch.

Lemma place_all_app xs : forall ch, place_all NApp xs ch = ch ++ xs.
Proof.
  unfold place_all. induction xs as [|x xs IH]; intros ch; cbn [fold_left]; [now rewrite app_nil_r|].
  rewrite IH, place_append. la.
Qed.

Lemma place_idx_le j x ch : j <= length ch -> place (NIdx (Z.of_nat j)) x ch = firstn j ch ++ x :: skipn j ch.
Proof.
  intros H. destruct ch as [|c ch].
  - cbn in H. assert (j = 0) by lia. subst. reflexivity.
  - unfold place. now apply py_insert_nonneg.
Qed.

(* a fixed index: each new node goes in front of the previous one *)
Lemma place_all_idx j xs : forall ch, j <= length ch ->
  place_all (NIdx (Z.of_nat j)) xs ch = firstn j ch ++ rev xs ++ skipn j ch.
Proof.
  unfold place_all. induction xs as [|x xs IH]; intros ch H; cbn [fold_left rev].
  - cbn [app]. now rewrite firstn_skipn.
  - rewrite place_idx_le by exact H.
    assert (L : length (firstn j ch) = j) by (rewrite firstn_length; lia).
    rewrite IH by (rewrite app_length, L; cbn; lia).
    rewrite <- L at 1. rewrite firstn_app_len. rewrite <- L at 2. rewrite skipn_app_len. la.
Qed.

(* in front of a fixed node: the new nodes keep their order *)
Lemma place_all_node s xs : forall a t b, rid t = s -> Forall (fun u => rid u <> s) a ->
  Forall (fun u => rid u <> s) xs ->
  place_all (NNode s) xs (a ++ t :: b) = a ++ xs ++ t :: b.
Proof.
  unfold place_all. induction xs as [|x xs IH]; intros a t b Ht Fa Fx; cbn [fold_left]; [reflexivity|].
  inversion Fx as [|? ? Hx Fx']; subst.
  assert (Hi : index_by_id (rid t) (a ++ t :: b) = Some (length a)).
  { rewrite index_by_id_app by exact Fa. cbn [index_by_id]. rewrite Nat.eqb_refl. cbn. f_equal. lia. }
  destruct (place_node (rid t) x (a ++ t :: b) (length a) Hi) as (a' & t' & b' & E & Rt & Fa' & Ep).
  assert (Ea : a' = a /\ t' = t /\ b' = b).
  { clear -E Fa Fa' Rt. revert a' E Fa'. induction a as [|c a IHa]; intros [|c' a'] E Fa'; cbn in E.
    - injection E as -> ->. auto.
    - injection E as -> _. inversion Fa' as [|? ? Hc _]; subst. congruence.
    - injection E as <- _. inversion Fa as [|? ? Hc _]; subst. congruence.
    - injection E as -> E. inversion Fa as [|? ? _ Fa2]; inversion Fa' as [|? ? _ Fa2']; subst.
      destruct (IHa Fa2 a' E Fa2') as (-> & -> & ->). auto. }
  destruct Ea as (-> & -> & ->). rewrite Ep.
  change (a ++ x :: t :: b) with (a ++ [x] ++ t :: b). rewrite app_assoc.
  rewrite IH; [la|reflexivity| |exact Fx'].
  apply Forall_app. split; [exact Fa|constructor; [exact Hx|constructor]].
Qed.

(* ------------------------------------------------------------------ *)
(* several sources, one after the other *)

(* xs are the copies of the nodes srcs of forest f, made at consecutive identities n .. n' *)
Inductive copies (ty dp : bool) (topk : kind) (f : forest) : nat -> list nat -> list rt -> nat -> Prop :=
| copies_nil n : copies ty dp topk f n [] [] n
| copies_cons n src srcs s x xs n' :
    get_node src f = Some s -> is_copy ty dp topk n s x ->
    copies ty dp topk f (n + size x) srcs xs n' ->
    copies ty dp topk f n (src :: srcs) (x :: xs) n'.

Lemma default_kind_typed t1 t k : typed t1 = typed t -> default_kind t1 k = default_kind t k.
Proof. unfold default_kind. now intros ->. Qed.

Lemma copies_mono ty dp topk f n srcs xs n' : copies ty dp topk f n srcs xs n' -> n <= n'.
Proof. induction 1; lia. Qed.

(* every copy corresponds to its source, position by position; all identities are fresh *)
Lemma copies_Forall2 ty dp topk f n srcs xs n' : copies ty dp topk f n srcs xs n' ->
  Forall2 (fun src x => exists s m, get_node src f = Some s /\ is_copy ty dp topk m s x /\ n <= m /\ m + size x <= n') srcs xs.
Proof.
  induction 1 as [|n src srcs s x xs n' Hs Hc Hrest IH]; constructor.
  - exists s, n. pose proof (copies_mono _ _ _ _ _ _ _ _ Hrest).
    refine (conj Hs (conj Hc (conj _ _))); lia.
  - clear -IH. induction IH as [|a b l1 l2 (s' & m & H1 & H2 & H3 & H4) _ IH2]; constructor; [|exact IH2].
    exists s', m. refine (conj H1 (conj H2 (conj _ _))); lia.
Qed.

Lemma copies_ids ty dp topk f n srcs xs n' : copies ty dp topk f n srcs xs n' -> ids xs = seq n (n' - n).
Proof.
  induction 1 as [|n src srcs s x xs n' Hs Hc Hrest IH]; [now rewrite Nat.sub_diag|].
  rewrite ids_cons_t, IH. pose proof (copies_mono _ _ _ _ _ _ _ _ Hrest) as Hm.
  rewrite (ic_ids _ _ _ _ _ _ Hc), <- (is_copy_size _ _ _ _ _ _ Hc).
  replace (n' - n) with (size x + (n' - (n + size x))) by lia. now rewrite seq_app.
Qed.

Theorem add_nodes_effect ti p sti b deep : forall srcs w acc r w' t st pq ch,
  add_nodes w ti p sti srcs b deep acc = (Ok r, w') -> ti <> sti ->
  get_tree w ti = Some t -> get_tree w sti = Some st ->
  parent_path p (forest_of t) = Some pq -> get_ch pq (forest_of t) = Some ch ->
  exists xs t',
    r = acc ++ map rid xs /\ get_tree w' ti = Some t' /\
    copies (typed t) (deep_of deep) (default_kind t None) (forest_of st) (next w) srcs xs (next w') /\
    parent_path p (forest_of t') = Some pq /\
    get_ch pq (forest_of t') = Some (place_all (norm_before b) xs ch) /\
    typed t' = typed t /\
    (forall tj, tj <> ti -> get_tree w' tj = get_tree w tj).
Proof.
  induction srcs as [|src srcs IH]; intros w acc r w' t st pq ch H Hne Et Est Ep Ec; cbn [add_nodes] in H.
  - injection H as <- <-. exists [], t. cbn [map place_all fold_left]. rewrite app_nil_r.
    refine (conj eq_refl (conj Et (conj (copies_nil _ _ _ _ _) (conj Ep (conj Ec (conj eq_refl _)))))). reflexivity.
  - destruct (op_add_node w ti p sti src None None b deep) as [[r1|e1] w1] eqn:E1; [|discriminate].
    destruct (add_node_effect _ _ _ _ _ _ _ _ _ _ _ E1)
      as (t0 & st0 & s & pq0 & ch0 & x & t1 & Et0 & Est0 & Et1 & Es & Ep0 & Ec0 & Ety & -> & Hc & Hn & Hch & _ & Hf & Hty1 & _ & _ & Hoth).
    rewrite Et in Et0. injection Et0 as <-. rewrite Est in Est0. injection Est0 as <-.
    rewrite Ep in Ep0. injection Ep0 as <-. rewrite Ec in Ec0. injection Ec0 as <-.
    assert (Ep1 : parent_path p (forest_of t1) = Some pq) by (rewrite Hf; now apply parent_path_stable).
    assert (Est1 : get_tree w1 sti = Some st) by (rewrite Hoth by congruence; exact Est).
    destruct (IH w1 (acc ++ [next w]) r w' t1 st pq _ H Hne Et1 Est1 Ep1 Hch)
      as (xs & t' & -> & Et' & Hcs & Ep' & Ech' & Hty' & Hoth').
    exists (x :: xs), t'. cbn [map place_all fold_left].
    refine (conj _ (conj Et' (conj _ (conj Ep' (conj Ech' (conj _ _)))))).
    + rewrite (ic_id _ _ _ _ _ _ Hc). la.
    + econstructor; [exact Es|exact Hc|]. rewrite <- Hn.
      rewrite Hty1, (default_kind_typed t1 t None Hty1) in Hcs. exact Hcs.
    + congruence.
    + intros tj Hj. rewrite Hoth' by exact Hj. now apply Hoth.
Qed.

Lemma add_nodes_before_ok ti p sti b deep : forall srcs w acc r w' t pq ch,
  add_nodes w ti p sti srcs b deep acc = (Ok r, w') -> srcs <> [] ->
  get_tree w ti = Some t -> parent_path p (forest_of t) = Some pq -> get_ch pq (forest_of t) = Some ch ->
  before_ok (norm_before b) ch = true.
Proof.
  intros [|src srcs] w acc r w' t pq ch H Hne Et Ep Ec; [congruence|]. cbn [add_nodes] in H.
  destruct (op_add_node w ti p sti src None None b deep) as [[r1|e1] w1] eqn:E1; [|discriminate].
  destruct (add_node_effect _ _ _ _ _ _ _ _ _ _ _ E1)
    as (t0 & st0 & s & pq0 & ch0 & x & t1 & Et0 & _ & _ & _ & Ep0 & Ec0 & _ & _ & _ & _ & _ & _ & _ & _ & _ & Hb & _).
  rewrite Et in Et0. injection Et0 as <-. rewrite Ep in Ep0. injection Ep0 as <-.
  rewrite Ec in Ec0. injection Ec0 as <-. exact Hb.
Qed.

(* ------------------------------------------------------------------ *)
(* add(tree) and copy_to(add_self=False) into another tree *)

Lemma py_index_le z n : py_index z n <= n.
Proof.
  unfold py_index. destruct (z <? 0)%Z eqn:E.
  - apply Z.ltb_lt in E. assert (H : (Z.max 0 (Z.of_nat n + z) <= Z.of_nat n)%Z) by (apply Z.max_lub; lia).
    set (a := Z.max 0 (Z.of_nat n + z)) in *. lia.
  - assert (H : (Z.min z (Z.of_nat n) <= Z.of_nat n)%Z) by apply Z.le_min_r.
    set (a := Z.min z (Z.of_nat n)) in *. lia.
Qed.

Lemma Forall2_rev' {A B} (R : A -> B -> Prop) : forall l1 l2, Forall2 R l1 l2 -> Forall2 R (rev l1) (rev l2).
Proof.
  induction 1 as [|a b l1 l2 Hab _ IH]; [constructor|]. cbn [rev]. apply Forall2_app; [exact IH|].
  constructor; [exact Hab|constructor].
Qed.

Lemma incl_pre_f_top f : incl f (pre_f f).
Proof. intros t Ht. now apply in_pre_f_top. Qed.

Lemma Forall2_In_r {A B} (R : A -> B -> Prop) l1 l2 y : Forall2 R l1 l2 -> In y l2 -> exists x, In x l1 /\ R x y.
Proof.
  induction 1 as [|a b l1 l2 Hab _ IH]; intros Hy; [destruct Hy|]. destruct Hy as [<-|Hy].
  - exists a. split; [now left|exact Hab].
  - destruct (IH Hy) as (x & Hx & Hr). exists x. split; [now right|exact Hr].
Qed.

(* x is a copy of c with all its identities in [lo, hi) *)
Definition copy_rel (ty dp : bool) (topk : kind) (lo hi : nat) (c x : rt) : Prop :=
  exists m, is_copy ty dp topk m c x /\ lo <= m /\ m + size x <= hi.

Lemma copies_tops ty dp topk f n n' : NoDup (ids f) -> forall l xs, incl l (pre_f f) ->
  copies ty dp topk f n (map rid l) xs n' -> Forall2 (copy_rel ty dp topk n n') l xs.
Proof.
  intros ND l xs Hin H. apply copies_Forall2 in H. revert xs H.
  induction l as [|c l IH]; intros xs H; cbn [map] in H; inversion H as [|? x ? xs' Hx Hrest]; subst; constructor.
  - destruct Hx as (s & m & Hs & Hc & H1 & H2).
    rewrite (get_node_unique (rid c) f c ND) in Hs; [|apply Hin; now left|reflexivity].
    injection Hs as <-. now exists m.
  - apply IH; [intros y Hy; apply Hin; now right|exact Hrest].
Qed.

Lemma copy_rel_fresh ty dp topk lo hi c x : copy_rel ty dp topk lo hi c x -> lo <= rid x.
Proof. intros (m & Hc & H1 & _). now rewrite (ic_id _ _ _ _ _ _ Hc). Qed.

(* where the block of copies sits in the target's child list a ++ c *)
Definition block_pos (b : before) (a c : list rt) (nonempty : bool) : Prop :=
  match b with
  | BNone | BFalse => c = []                                   (* appended *)
  | BTrue => a = []                                            (* prepended *)
  | BIdx z => length a = py_index z (length (a ++ c))          (* at the index, as list.insert resolves it *)
  | BNode s => nonempty = true ->                              (* directly in front of child s *)
               exists t0 c', c = t0 :: c' /\ rid t0 = s /\ Forall (fun u => rid u <> s) a
  end.

Definition deep_tree (deep : option bool) : bool := match deep with Some x => x | None => true end.

Theorem add_tree_effect w ti p sti b deep r w' t st ch :
  op_add_tree w ti p sti b deep = (Ok r, w') -> ti <> sti ->
  get_tree w ti = Some t -> get_tree w sti = Some st ->
  children_of p (forest_of t) = Some ch ->
  (forall n, In n (ids (forest_of t)) -> n < next w) -> NoDup (ids (forest_of st)) ->
  exists t' pq a c xs,
    get_tree w' ti = Some t' /\ get_tree w' sti = Some st /\
    parent_path p (forest_of t) = Some pq /\ ch = a ++ c /\
    get_ch pq (forest_of t') = Some (a ++ xs ++ c) /\
    Forall2 (copy_rel (typed t) (deep_tree deep) (default_kind t None) (next w) (next w')) (forest_of st) xs /\
    block_pos b a c (match forest_of st with [] => false | _ => true end) /\
    (forall tj, tj <> ti -> get_tree w' tj = get_tree w tj).
Proof.
  intros H Hne Et Est Hch Hlt ND. unfold op_add_tree in H. rewrite Et, Est, Hch in H.
  destruct (typed t && negb (typed st)); [discriminate|].
  destruct (any_collides t p st (map rid (forest_of st))); [discriminate|].
  destruct (any_into_own_branch _ _ _ _ _ _); [discriminate|].
  unfold children_of in Hch. destruct (parent_path p (forest_of t)) as [pq|] eqn:Ep; [|discriminate].
  set (dp := match deep with Some x => Some x | None => Some true end) in *.
  assert (Edp : deep_of dp = deep_tree deep) by (destruct deep as [[|]|]; reflexivity).
  set (tops := map rid (forest_of st)) in *.
  assert (Hfresh : forall lo hi l xs, next w <= lo ->
            Forall2 (copy_rel (typed t) (deep_tree deep) (default_kind t None) lo hi) l xs ->
            forall s, In s (map rid ch) -> Forall (fun u => rid u <> s) xs).
  { intros lo hi l xs Hlo F s Hs. apply Forall_forall. intros x Hx.
    destruct (Forall2_In_r _ _ _ x F Hx) as (c0 & _ & Hc0).
    apply copy_rel_fresh in Hc0.
    assert (s < next w).
    { apply Hlt. apply in_map_iff in Hs. destruct Hs as (u & <- & Hu). unfold ids. apply in_map.
      apply (get_ch_pre pq (forest_of t) ch Hch). now apply in_pre_f_top. }
    lia. }
  destruct b as [| | |z|s]; cbn [norm_before] in H.
  - (* None: appended in source order *)
    destruct (add_nodes w ti p sti tops BNone dp []) as [[r0|e] w0] eqn:EA; [|discriminate].
    injection H as _ <-.
    destruct (add_nodes_effect ti p sti BNone dp tops w [] r0 w0 t st pq ch EA Hne Et Est Ep Hch)
      as (xs & t' & _ & Et' & Hcs & _ & Hg & _ & Hoth).
    rewrite Edp in Hcs. cbn [norm_before] in Hg. rewrite place_all_app in Hg.
    exists t', pq, ch, [], xs. rewrite !app_nil_r.
    refine (conj Et' (conj _ (conj eq_refl (conj eq_refl (conj Hg (conj _ (conj eq_refl Hoth))))))).
    + rewrite Hoth by congruence. exact Est.
    + apply (copies_tops _ _ _ _ _ _ ND); [apply incl_pre_f_top|exact Hcs].
  - (* True: prepended, reversed insertion at index 0 *)
    destruct (add_nodes w ti p sti (rev tops) (BIdx (Z.of_nat 0)) dp []) as [[r0|e] w0] eqn:EA; [|discriminate].
    injection H as _ <-.
    destruct (add_nodes_effect ti p sti _ dp (rev tops) w [] r0 w0 t st pq ch EA Hne Et Est Ep Hch)
      as (xs & t' & _ & Et' & Hcs & _ & Hg & _ & Hoth).
    rewrite Edp in Hcs. cbn [norm_before] in Hg. rewrite place_all_idx in Hg by lia. cbn [firstn skipn app] in Hg.
    exists t', pq, [], ch, (rev xs). cbn [app].
    refine (conj Et' (conj _ (conj eq_refl (conj eq_refl (conj Hg (conj _ (conj eq_refl Hoth))))))).
    + rewrite Hoth by congruence. exact Est.
    + unfold tops in Hcs. rewrite <- map_rev in Hcs.
      apply (copies_tops _ _ _ _ _ _ ND) in Hcs; [|intros y Hy; apply incl_pre_f_top; now apply in_rev].
      apply Forall2_rev' in Hcs. now rewrite rev_involutive in Hcs.
  - (* False = None *)
    destruct (add_nodes w ti p sti tops BFalse dp []) as [[r0|e] w0] eqn:EA; [|discriminate].
    injection H as _ <-.
    destruct (add_nodes_effect ti p sti BFalse dp tops w [] r0 w0 t st pq ch EA Hne Et Est Ep Hch)
      as (xs & t' & _ & Et' & Hcs & _ & Hg & _ & Hoth).
    rewrite Edp in Hcs. cbn [norm_before] in Hg. rewrite place_all_app in Hg.
    exists t', pq, ch, [], xs. rewrite !app_nil_r.
    refine (conj Et' (conj _ (conj eq_refl (conj eq_refl (conj Hg (conj _ (conj eq_refl Hoth))))))).
    + rewrite Hoth by congruence. exact Est.
    + apply (copies_tops _ _ _ _ _ _ ND); [apply incl_pre_f_top|exact Hcs].
  - (* an index: resolved once, the copies form one block there *)
    set (j := py_index z (length ch)) in *.
    destruct (add_nodes w ti p sti (rev tops) (BIdx (Z.of_nat j)) dp []) as [[r0|e] w0] eqn:EA; [|discriminate].
    injection H as _ <-.
    destruct (add_nodes_effect ti p sti _ dp (rev tops) w [] r0 w0 t st pq ch EA Hne Et Est Ep Hch)
      as (xs & t' & _ & Et' & Hcs & _ & Hg & _ & Hoth).
    assert (Hj : j <= length ch) by apply py_index_le.
    rewrite Edp in Hcs. cbn [norm_before] in Hg. rewrite place_all_idx in Hg by exact Hj.
    exists t', pq, (firstn j ch), (skipn j ch), (rev xs).
    refine (conj Et' (conj _ (conj eq_refl (conj _ (conj Hg (conj _ (conj _ Hoth))))))).
    + rewrite Hoth by congruence. exact Est.
    + now rewrite firstn_skipn.
    + unfold tops in Hcs. rewrite <- map_rev in Hcs.
      apply (copies_tops _ _ _ _ _ _ ND) in Hcs; [|intros y Hy; apply incl_pre_f_top; now apply in_rev].
      apply Forall2_rev' in Hcs. now rewrite rev_involutive in Hcs.
    + cbn [block_pos]. rewrite firstn_skipn, firstn_length. fold j. lia.
  - (* a node: every copy goes directly in front of it, which keeps the order *)
    destruct (add_nodes w ti p sti tops (BNode s) dp []) as [[r0|e] w0] eqn:EA; [|discriminate].
    injection H as _ <-.
    destruct (add_nodes_effect ti p sti (BNode s) dp tops w [] r0 w0 t st pq ch EA Hne Et Est Ep Hch)
      as (xs & t' & _ & Et' & Hcs & _ & Hg & _ & Hoth).
    rewrite Edp in Hcs. cbn [norm_before] in Hg.
    assert (HF : Forall2 (copy_rel (typed t) (deep_tree deep) (default_kind t None) (next w) (next w0)) (forest_of st) xs)
      by (apply (copies_tops _ _ _ _ _ _ ND); [apply incl_pre_f_top|exact Hcs]).
    destruct (forest_of st) as [|c0 f0] eqn:Ef.
    + inversion HF; subst. cbn [place_all fold_left] in Hg.
      exists t', pq, ch, [], []. rewrite !app_nil_r.
      refine (conj Et' (conj _ (conj eq_refl (conj eq_refl (conj Hg (conj (Forall2_nil _) (conj _ Hoth))))))).
      * rewrite Hoth by congruence. exact Est.
      * cbn [block_pos]. discriminate.
    + assert (Hb : before_ok (NNode s) ch = true).
      { apply (add_nodes_before_ok ti p sti (BNode s) dp tops w [] r0 w0 t pq ch EA); auto.
        unfold tops. cbn [map]. discriminate. }
      cbn [before_ok] in Hb. destruct (index_by_id s ch) as [j|] eqn:Ei; [|discriminate].
      destruct (index_by_id_spec s ch j Ei) as (a & t0 & c' & -> & _ & Rt & Fa).
      rewrite place_all_node in Hg; [|exact Rt|exact Fa|].
      * exists t', pq, a, (t0 :: c'), xs.
        refine (conj Et' (conj _ (conj eq_refl (conj eq_refl (conj Hg (conj HF (conj _ Hoth))))))).
        -- rewrite Hoth by congruence. exact Est.
        -- cbn [block_pos]. intros _. exists t0, c'. auto.
      * apply (Hfresh (next w) (next w0) (c0 :: f0) xs (le_n _) HF). rewrite map_app, in_app_iff. right. left. exact Rt.
Qed.

(* -- copy_to(add_self=False) and Tree.copy_to: the children of src (src = 0: the top-level nodes),
      appended below the target in source order -- *)
Theorem copy_to_children_effect w sti src ti target b deep r w' t st ch sch :
  op_copy_to w sti src ti target false b deep = (Ok r, w') -> ti <> sti ->
  get_tree w ti = Some t -> get_tree w sti = Some st ->
  children_of target (forest_of t) = Some ch ->
  children_of src (forest_of st) = Some sch ->
  NoDup (ids (forest_of st)) ->
  exists t' pq xs,
    get_tree w' ti = Some t' /\ get_tree w' sti = Some st /\
    parent_path target (forest_of t) = Some pq /\
    get_ch pq (forest_of t') = Some (ch ++ xs) /\
    Forall2 (copy_rel (typed t) deep (default_kind t None) (next w) (next w')) sch xs /\ sch <> [] /\
    (forall tj, tj <> ti -> get_tree w' tj = get_tree w tj).
Proof.
  intros H Hne Et Est Hch Hsch ND. unfold op_copy_to in H. rewrite Et, Est, Hsch in H.
  destruct sch as [|c0 sch0]; [discriminate|].
  destruct (any_collides t target st (map rid (c0 :: sch0))); [discriminate|].
  destruct (any_into_own_branch _ _ _ _ _ _); [discriminate|].
  destruct (add_nodes w ti target sti (map rid (c0 :: sch0)) BNone (Some deep) []) as [[r0|e] w0] eqn:EA; [|discriminate].
  injection H as _ <-.
  unfold children_of in Hch. destruct (parent_path target (forest_of t)) as [pq|] eqn:Ep; [|discriminate].
  destruct (add_nodes_effect ti target sti BNone (Some deep) _ w [] r0 w0 t st pq ch EA Hne Et Est Ep Hch)
    as (xs & t' & _ & Et' & Hcs & _ & Hg & _ & Hoth).
  cbn [norm_before deep_of] in *. rewrite place_all_app in Hg.
  exists t', pq, xs.
  refine (conj Et' (conj _ (conj eq_refl (conj Hg (conj _ (conj _ Hoth)))))).
  - rewrite Hoth by congruence. exact Est.
  - apply (copies_tops _ _ _ _ _ _ ND); [|exact Hcs].
    unfold children_of in Hsch. destruct (parent_path src (forest_of st)) as [q|]; [|discriminate].
    intros y Hy. apply (get_ch_pre q (forest_of st) _ Hsch). now apply in_pre_f_top.
  - discriminate.
Qed.

(* ------------------------------------------------------------------ *)
(* any tree, the same one included: the rows of the tree only grow *)
Inductive subseq {A} : list A -> list A -> Prop :=
| subseq_nil : subseq [] []
| subseq_both x l l' : subseq l l' -> subseq (x :: l) (x :: l')
| subseq_right x l l' : subseq l l' -> subseq l (x :: l').

Lemma subseq_refl {A} (l : list A) : subseq l l.
Proof. induction l; constructor; auto. Qed.

Lemma subseq_trans {A} : forall (l2 l3 : list A), subseq l2 l3 -> forall l1, subseq l1 l2 -> subseq l1 l3.
Proof.
  induction 1 as [|x l2 l3 _ IH|x l2 l3 _ IH]; intros l1 H1.
  - exact H1.
  - inversion H1; subst; [apply subseq_both|apply subseq_right]; auto.
  - apply subseq_right. auto.
Qed.

Lemma subseq_app_r {A} (b l l' : list A) : subseq l l' -> subseq l (b ++ l').
Proof. intros H. induction b; cbn; [exact H|now apply subseq_right]. Qed.

Lemma subseq_app_l {A} (a l l' : list A) : subseq l l' -> subseq (a ++ l) (a ++ l').
Proof. intros H. induction a; cbn; [exact H|now apply subseq_both]. Qed.

Lemma ins_rows_subseq blk l l' : ins_rows blk l l' -> subseq l l'.
Proof. intros (A & B & -> & ->). apply subseq_app_l, subseq_app_r, subseq_refl. Qed.

Lemma subseq_In {A} (l l' : list A) x : subseq l l' -> In x l -> In x l'.
Proof. induction 1; cbn; intuition. Qed.

Theorem add_nodes_rows ti p sti b deep : forall srcs w acc r w' t,
  add_nodes w ti p sti srcs b deep acc = (Ok r, w') -> get_tree w ti = Some t ->
  exists t', get_tree w' ti = Some t' /\ subseq (rows 0 (forest_of t)) (rows 0 (forest_of t')) /\
             next w <= next w' /\ length r = length acc + length srcs /\
             (forall m, In m r -> In m acc \/ next w <= m < next w').
Proof.
  induction srcs as [|src srcs IH]; intros w acc r w' t H Et; cbn [add_nodes] in H.
  - injection H as <- <-. exists t. refine (conj Et (conj (subseq_refl _) (conj (le_n _) (conj _ _)))); [cbn; lia|auto].
  - destruct (op_add_node w ti p sti src None None b deep) as [[r1|e1] w1] eqn:E1; [|discriminate].
    destruct (add_node_effect _ _ _ _ _ _ _ _ _ _ _ E1)
      as (t0 & st0 & s & pq0 & ch0 & x & t1 & Et0 & _ & Et1 & _ & _ & _ & _ & -> & Hc & Hn & _ & Hr & _).
    rewrite Et in Et0. injection Et0 as <-.
    destruct (IH w1 _ r w' t1 H Et1) as (t' & Et' & Hs & Hle & Hlen & Hin).
    assert (0 < size x) by (destruct x; cbn; lia).
    exists t'. refine (conj Et' (conj _ (conj _ (conj _ _)))).
    + eapply subseq_trans; [exact Hs|]. now apply (ins_rows_subseq (rows_t p x)).
    + lia.
    + rewrite Hlen, app_length. cbn. lia.
    + intros m Hm. destruct (Hin m Hm) as [Ha|Hb]; [|right; lia].
      apply in_app_iff in Ha. destruct Ha as [Ha|[<-|[]]]; [now left|right; lia].
Qed.

(* add(tree) / copy_to(add_self=False) into ANY tree (the source tree itself included): every row
   (parent, node, payload) the target tree had is still there, in the same order *)
Theorem add_tree_rows w ti p sti b deep r w' t :
  op_add_tree w ti p sti b deep = (Ok r, w') -> get_tree w ti = Some t ->
  exists t', get_tree w' ti = Some t' /\ subseq (rows 0 (forest_of t)) (rows 0 (forest_of t')) /\ next w <= next w'.
Proof.
  intros H Et. unfold op_add_tree in H. rewrite Et in H.
  destruct (get_tree w sti) as [st|]; [|discriminate].
  destruct (typed t && negb (typed st)); [discriminate|].
  destruct (any_collides _ _ _ _); [discriminate|].
  destruct (any_into_own_branch _ _ _ _ _ _); [discriminate|].
  match type of H with (match add_nodes ?w ?ti ?p ?sti ?o ?b' ?d ?a with _ => _ end) = _ =>
    destruct (add_nodes w ti p sti o b' d a) as [[r0|e] w0] eqn:EA; [|discriminate];
    destruct (add_nodes_rows ti p sti b' d o w a r0 w0 t EA Et) as (t' & Et' & Hs & Hle & _) end.
  injection H as _ <-. exists t'. auto.
Qed.

Theorem copy_to_children_rows w sti src ti target b deep r w' t :
  op_copy_to w sti src ti target false b deep = (Ok r, w') -> get_tree w ti = Some t ->
  exists t', get_tree w' ti = Some t' /\ subseq (rows 0 (forest_of t)) (rows 0 (forest_of t')) /\ next w <= next w'.
Proof.
  intros H Et. unfold op_copy_to in H. rewrite Et in H.
  destruct (get_tree w sti) as [st|]; [|discriminate].
  destruct (children_of src (forest_of st)) as [[|c0 sch]|]; try discriminate.
  destruct (any_collides _ _ _ _); [discriminate|].
  destruct (any_into_own_branch _ _ _ _ _ _); [discriminate|].
  match type of H with (match add_nodes ?w ?ti ?p ?sti ?o ?b' ?d ?a with _ => _ end) = _ =>
    destruct (add_nodes w ti p sti o b' d a) as [[r0|e] w0] eqn:EA; [|discriminate];
    destruct (add_nodes_rows ti p sti b' d o w a r0 w0 t EA Et) as (t' & Et' & Hs & Hle & _) end.
  injection H as _ <-. exists t'. auto.
Qed.
