(* C13: what exactly remains after a callback fault.

   sort: list.sort computes every key of a level before it moves anything, so a
   level is either sorted as a whole or left as it is - never half sorted; after
   the first failure nothing further is touched.  [SRel k rev t t']: t' is t with
   some levels replaced by their sorted form (recursively, descending through the
   sorted order).

   in-place filter: the removals executed before the predicate raised are exactly
   the action list the scan had emitted ([fvisit]); each action removes one whole
   branch (or all children of one node) and the rows of the tree before are the
   removed rows plus the remaining rows - nothing is lost, duplicated or moved. *)
From Coq Require Import List ZArith Bool Arith Lia Permutation.
From NT Require Import Sx Rose ListFacts RoseFacts Surgery SurgeryFacts Machine WF MachineFacts
  PreserveSteps PreserveOps PreserveSort PreserveMore Effects RefusalC13 Faults.
Import ListNotations.

(* ------------------------------------------------------------------ *)
Section Sort.
Variables (k : keyt) (rev : bool).

Inductive SRel : rt -> rt -> Prop :=
| SRel_intro id i ch ch' l :
    (l = ch \/ (keys_ok k ch = true /\ l = py_sort k rev ch)) -> Forall2 SRel l ch' -> SRel (T id i ch) (T id i ch').

Lemma SRel_refl : forall t, SRel t t.
Proof.
  induction t as [id i ch IH] using rt_ind'. apply (SRel_intro id i ch ch ch); [now left|].
  induction IH; constructor; auto.
Qed.

Lemma Forall2_SRel_refl l : Forall2 SRel l l.
Proof. induction l; constructor; [apply SRel_refl|assumption]. Qed.

Lemma go_srel (sd : rt -> bool -> rt * bool) (go : list rt -> bool -> list rt * bool) :
  (forall fl, go [] fl = ([], fl)) ->
  (forall c l fl, go (c :: l) fl = let (c', f1) := sd c fl in let (r', f2) := go l f1 in (c' :: r', f2)) ->
  (forall c fl, SRel c (fst (sd c fl))) ->
  forall l fl, Forall2 SRel l (fst (go l fl)).
Proof.
  intros G0 G1 Hsd. induction l as [|c l IH]; intros fl.
  - rewrite G0. constructor.
  - rewrite G1. specialize (Hsd c fl). destruct (sd c fl) as [c' f1]. specialize (IH f1).
    destruct (go l f1) as [r' f2]. cbn [fst] in *. now constructor.
Qed.

(* whole levels or nothing, at every depth *)
Lemma sort_deep_srel : forall fuel t failed, SRel t (fst (sort_deep fuel k rev t failed)).
Proof.
  induction fuel as [|fuel IH]; intros t failed; [apply SRel_refl|].
  destruct t as [id i ch]. cbn [sort_deep]. destruct failed; [apply SRel_refl|].
  destruct ch as [|c0 ch0]; [apply SRel_refl|].
  destruct (keys_ok k (c0 :: ch0)) eqn:K; cbn [negb]; [|apply SRel_refl].
  cbv zeta. cbn [fst]. apply (SRel_intro id i _ _ (py_sort k rev (c0 :: ch0))); [right; now split|].
  apply (go_srel (sort_deep fuel k rev)); [reflexivity|reflexivity|apply IH].
Qed.

(* after a failure nothing further is touched *)
Lemma sort_deep_failed fuel t : sort_deep fuel k rev t true = (t, true).
Proof. destruct fuel; [reflexivity|]. destruct t. reflexivity. Qed.

(* a level with a raising key is left as it is, and the failure is reported *)
Lemma sort_deep_level_fault fuel id i ch :
  ch <> [] -> keys_ok k ch = false -> sort_deep (S fuel) k rev (T id i ch) false = (T id i ch, true).
Proof. intros N K. cbn [sort_deep]. destruct ch; [congruence|]. now rewrite K. Qed.

(* the top level of sort_children / Tree.sort *)
Definition LSRel (ch ch' : list rt) : Prop :=
  exists l, (l = ch \/ (keys_ok k ch = true /\ l = py_sort k rev ch)) /\ Forall2 SRel l ch'.

Lemma sort_list_srel deep ch : LSRel ch (fst (sort_list k rev deep ch)).
Proof.
  unfold sort_list, LSRel. destruct ch as [|c0 ch0]; [exists []; split; [now left|constructor]|].
  destruct (Nat.eqb (length (c0 :: ch0)) 1 && negb deep); [exists (c0 :: ch0); split; [now left|apply Forall2_SRel_refl]|].
  destruct (keys_ok k (c0 :: ch0)) eqn:K; cbn [negb]; [|exists (c0 :: ch0); split; [now left|apply Forall2_SRel_refl]].
  cbv zeta. exists (py_sort k rev (c0 :: ch0)). split; [right; now split|]. destruct deep.
  - apply (go_srel (sort_deep (S (size_f (c0 :: ch0))) k rev)); [reflexivity|reflexivity|apply sort_deep_srel].
  - cbn [fst]. apply Forall2_SRel_refl.
Qed.

Lemma sort_list_level_fault deep ch :
  (Nat.eqb (length ch) 1 && negb deep) = false -> keys_ok k ch = false -> sort_list k rev deep ch = (ch, true).
Proof. intros N K. unfold sort_list. destruct ch; [discriminate K|]. now rewrite N, K. Qed.
End Sort.

Theorem sort_fault_exact w ti p kt rv dp t pq ch :
  get_tree w ti = Some t -> parent_path p (forest_of t) = Some pq -> get_ch pq (forest_of t) = Some ch ->
  exists ch', LSRel kt rv ch ch'
    /\ snd (op_sort w ti p kt rv dp) = put_tree w ti (set_forest t (upd_ch pq (fun _ => ch') (forest_of t))).
Proof.
  intros Gt Gp Gc. unfold op_sort. rewrite Gt, Gp, Gc.
  assert (L := sort_list_srel kt rv dp ch). destruct (sort_list kt rv dp ch) as [ch' failed]. cbn [fst snd] in *.
  now exists ch'.
Qed.

(* ------------------------------------------------------------------ *)
(* in-place filter: exact accounting of the removals *)
Lemma rows_cut_perm' pq f a X b : get_ch pq f = Some (a ++ X ++ b) ->
  Permutation (rows 0 f) (rows (owner pq f 0) X ++ rows 0 (upd_ch pq (fun _ => a ++ b) f)).
Proof. apply rows_cut_perm. Qed.

(* the rows one action removes: a whole branch rooted at n / everything below n *)
Definition removed_by (t : tstate) (a : fact) (R : list row) : Prop :=
  R = []                                                        (* the action names a node that is gone *)
  \/ (exists s, In s (pre_f (forest_of t)) /\
        match a with
        | FBranch n => rid s = n /\ map r_id R = ids_t s        (* the whole branch rooted at n *)
        | FKids n => rid s = n /\ map r_id R = ids (rch s)      (* everything below n *)
        end)
  \/ (a = FKids 0 /\ map r_id R = ids (forest_of t)).

Lemma apply_fact_account t a :
  exists R, Permutation (rows 0 (forest_of t)) (R ++ rows 0 (forest_of (apply_fact t a))) /\ removed_by t a R.
Proof.
  unfold removed_by. destruct a as [n|n]; cbn [apply_fact].
  - destruct (remove_branch t n) as [t'|] eqn:E; [|exists []; split; [reflexivity|now left]].
    unfold remove_branch in E. destruct (detach n (forest_of t)) as [[s f1]|] eqn:D; [|discriminate].
    destruct (detach_spec n _ s f1 D) as (q0 & a & b & G & -> & R & P).
    destruct (unregister_all _ _ _). injection E as <-. cbn [forest_of set_all].
    exists (rows (owner q0 (forest_of t) 0) [s]). split; [apply (rows_cut_perm' q0 _ a [s] b G)|].
    right. left. exists s. split; [assumption|]. split; [assumption|]. rewrite rows_single. apply rows_t_ids.
  - destruct (remove_kids t n) as [t'|] eqn:E; [|exists []; split; [reflexivity|now left]].
    unfold remove_kids in E. destruct (parent_path n (forest_of t)) as [pq|] eqn:Gp; [|discriminate].
    destruct (get_ch pq (forest_of t)) as [ch|] eqn:G; [|discriminate].
    destruct (unregister_all _ _ _). injection E as <-. cbn [forest_of set_all].
    assert (G' : get_ch pq (forest_of t) = Some ([] ++ ch ++ [])) by (now rewrite app_nil_r).
    exists (rows (owner pq (forest_of t) 0) ch). split; [apply (rows_cut_perm' pq _ [] ch [] G')|].
    right. destruct (parent_path_spec n _ pq ch 0 Gp G) as [(-> & -> & ->)|(Nz & s & Hs & Rs & Cs & _)].
    + right. split; [reflexivity|]. apply rows_ids.
    + left. exists s. split; [assumption|]. split; [assumption|]. rewrite Cs. apply rows_ids.
Qed.

(* the removed rows, action by action, each read on the state the action found *)
Inductive accounts : tstate -> list fact -> list row -> Prop :=
| acc_nil t : accounts t [] []
| acc_cons t a acts R1 R2 : removed_by t a R1 -> accounts (apply_fact t a) acts R2 -> accounts t (a :: acts) (R1 ++ R2).

Lemma apply_facts_account acts : forall t,
  exists R, accounts t acts R /\ Permutation (rows 0 (forest_of t)) (R ++ rows 0 (forest_of (fold_left apply_fact acts t))).
Proof.
  induction acts as [|a acts IH]; intros t; cbn [fold_left]; [exists []; split; [constructor|reflexivity]|].
  destruct (apply_fact_account t a) as (R1 & P1 & A1). destruct (IH (apply_fact t a)) as (R2 & A2 & P2).
  exists (R1 ++ R2). split; [now constructor|]. rewrite P1. rewrite <- app_assoc. apply Permutation_app_head. exact P2.
Qed.

(* the state after the in-place filter - clean or interrupted by a raising predicate - is the
   state after executing, in order, exactly the actions the scan had emitted; the result says
   whether the predicate raised; rows before = removed rows + rows after; registry and index are
   those of a well-formed tree over the remaining forest *)
Theorem filter_fault_exact w ti n vd t ch :
  WFw w -> get_tree w ti = Some t -> children_of n (forest_of t) = Some ch ->
  let '(_, acts, _, failed) := fvisit vd (T 0 dummy_info ch) false in
  let t' := fold_left apply_fact acts t in
  step w (OFilter ti n vd) = ((if failed then Err ECrash else Ok []), put_tree w ti t')
  /\ WF t'
  /\ exists R, accounts t acts R /\ Permutation (rows 0 (forest_of t)) (R ++ rows 0 (forest_of t')).
Proof.
  intros H Gt Gc. cbn [step]. unfold op_filter. rewrite Gt, Gc.
  destruct (fvisit vd (T 0 dummy_info ch) false) as [[[must acts] stopped] failed].
  split; [reflexivity|]. split; [apply (WF_apply_facts acts t (WFw_tree w ti t H Gt))|apply apply_facts_account].
Qed.

(* ------------------------------------------------------------------ *)
(* the fuel of sort_deep is never the reason of a failure: with a key for every node the
   deep sort does not fail (so ECrash of a sort is always a raising key) *)
Definition total_keys (k : keyt) : Prop := forall n, key_of k n <> None.

Lemma total_keys_ok k l : total_keys k -> keys_ok k l = true.
Proof.
  intros T. unfold keys_ok. apply forallb_forall. intros t _. specialize (T (rid t)). destruct (key_of k (rid t)); congruence.
Qed.

Lemma size_in_le c l : In c l -> size c <= size_f l.
Proof.
  induction l as [|x l IH]; intros []; rewrite size_f_cons; [subst; lia|]. specialize (IH H). lia.
Qed.

Lemma go_no_fail (sd : rt -> bool -> rt * bool) (go : list rt -> bool -> list rt * bool) :
  (forall fl, go [] fl = ([], fl)) ->
  (forall c l fl, go (c :: l) fl = let (c', f1) := sd c fl in let (r', f2) := go l f1 in (c' :: r', f2)) ->
  forall l, (forall c, In c l -> snd (sd c false) = false) -> snd (go l false) = false.
Proof.
  intros G0 G1. induction l as [|c l IH]; intros Hs; [now rewrite G0|].
  rewrite G1. assert (Hc := Hs c (or_introl eq_refl)). destruct (sd c false) as [c' f1]. cbn [snd] in Hc. subst f1.
  assert (Hl : snd (go l false) = false) by (apply IH; intros x Hx; apply Hs; now right).
  destruct (go l false) as [r' f2]. exact Hl.
Qed.

Lemma sort_deep_fuel_enough k rev : total_keys k ->
  forall fuel t, size t <= fuel -> snd (sort_deep fuel k rev t false) = false.
Proof.
  intros T. induction fuel as [|fuel IH]; intros [id i ch] Hs; [rewrite size_unfold in Hs; lia|].
  cbn [sort_deep]. destruct ch as [|c0 ch0]; [reflexivity|].
  rewrite (total_keys_ok k _ T). cbn [negb]. cbv zeta. cbn [snd].
  apply (go_no_fail (sort_deep fuel k rev)); [reflexivity|reflexivity|].
  intros c Hc. apply IH. assert (Hin : In c (c0 :: ch0)) by (apply (Permutation_in _ (py_sort_perm k rev (c0 :: ch0))); exact Hc).
  apply size_in_le in Hin. rewrite size_unfold in Hs. lia.
Qed.

Theorem sort_total_never_fails k rev deep ch : total_keys k -> snd (sort_list k rev deep ch) = false.
Proof.
  intros T. unfold sort_list. destruct ch as [|c0 ch0]; [reflexivity|].
  destruct (Nat.eqb (length (c0 :: ch0)) 1 && negb deep); [reflexivity|].
  rewrite (total_keys_ok k _ T). cbn [negb]. cbv zeta. destruct deep; [|reflexivity].
  apply (go_no_fail (sort_deep (S (size_f (c0 :: ch0))) k rev)); [reflexivity|reflexivity|].
  intros c Hc. apply (sort_deep_fuel_enough k rev T).
  assert (Hin : In c (c0 :: ch0)) by (apply (Permutation_in _ (py_sort_perm k rev (c0 :: ch0))); exact Hc).
  apply size_in_le in Hin. lia.
Qed.

Corollary sort_crash_is_a_raising_key w ti p k rev deep :
  fst (op_sort w ti p k rev deep) = Err ECrash -> ~ total_keys k.
Proof.
  intros E T. unfold op_sort in E. destruct (get_tree w ti) as [t|]; [|discriminate].
  destruct (parent_path p (forest_of t)) as [pq|]; [|discriminate]. destruct (get_ch pq (forest_of t)) as [ch|]; [|discriminate].
  assert (X := sort_total_never_fails k rev deep ch T). destruct (sort_list k rev deep ch) as [ch' failed]. cbn [snd] in X. subst failed.
  discriminate E.
Qed.
