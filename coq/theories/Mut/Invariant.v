(* WF is an invariant of the mutation machine: step and history theorems,
   assembled from the per-operation theorems, plus corollaries. *)
From Coq Require Import List ZArith Bool Arith Lia Permutation.
From NT Require Import Sx Rose ListFacts RoseFacts Surgery SurgeryFacts Machine WF MachineFacts
  PreserveSteps PreserveOps PreserveSort PreserveCopy PreserveMore.
Import ListNotations.

(* operations whose preservation proof is closed *)
Definition covered (o : op) : bool :=
  match o with
  | OSetData _ _ _ _ _ | ORename _ _ _ => false
  | ORemove _ _ keep wc => negb (keep && wc)
  | _ => true
  end.

Theorem WFw_step_partial w o : covered o = true -> WFw w -> WFw (snd (step w o)).
Proof.
  intros C H. destruct o; cbn [step]; try discriminate C.
  - now apply WFw_op_add.
  - now apply WFw_op_shortcut.
  - now apply WFw_op_add_node.
  - now apply WFw_op_add_tree.
  - now apply WFw_op_copy_to.
  - now apply WFw_op_tree_copy.
  - now apply WFw_op_node_copy.
  - now apply WFw_op_move.
  - apply WFw_op_remove; [assumption|]. cbn [covered] in C. now apply negb_true_iff in C.
  - now apply WFw_op_remove_children.
  - now apply WFw_op_sort.
  - now apply WFw_op_meta.
  - now apply (WFw_new_tree w is_typed c).
  - now apply WFw_op_clear.
  - now apply WFw_op_del.
  - now apply WFw_op_filter.
  - now apply WFw_op_from_dict.
  - now apply WFw_op_tree_from_dict.
Qed.

Theorem WFw_run_partial ops : forall w, forallb covered ops = true -> WFw w -> WFw (run ops w).
Proof.
  induction ops as [|o ops IH]; intros w C H; [exact H|]. cbn [forallb] in C. apply andb_true_iff in C. destruct C as [C1 C2].
  unfold run. cbn [fold_left]. apply IH; [assumption|]. now apply WFw_step_partial.
Qed.

(* ---- corollaries spelled out from WF ---- *)
Lemma WF_count t : WF t -> length (reg t) = length (ids (forest_of t)) /\ length (ids (forest_of t)) = size_f (forest_of t).
Proof.
  intros H. split; [apply Permutation_length, H|].
  rewrite length_ids. induction (forest_of t) as [|x f IH]; [reflexivity|].
  cbn [flat_map]. rewrite app_length, size_pre, IH. reflexivity.
Qed.

Lemma get_put_tree w ti t t' : get_tree w ti = Some t -> get_tree (put_tree w ti t') ti = Some t'.
Proof.
  unfold get_tree, put_tree. cbn [trees]. intros G. destruct (nth_error_split _ _ G) as (a & b & -> & <-).
  rewrite upd_nth_split. apply nth_error_app_len.
Qed.

Lemma live_true t n : In n (ids (forest_of t)) -> live t n = true.
Proof. intros H. unfold live. apply existsb_exists. exists n. split; [assumption|apply Nat.eqb_refl]. Qed.

(* remove(): the node and its whole branch are neither reachable nor registered afterwards *)
Theorem removed_branch_gone w ti n t s :
  WFw w -> get_tree w ti = Some t -> get_node n (forest_of t) = Some s ->
  exists t', get_tree (snd (op_remove w ti n false false)) ti = Some t' /\ fst (op_remove w ti n false false) = Ok [] /\
    forall m, In m (ids_t s) -> ~ In m (ids (forest_of t')) /\ ~ In m (reg t').
Proof.
  intros H Gt Gn. assert (Wt := WFw_tree w ti t H Gt). unfold op_remove. rewrite Gt. unfold did_of. rewrite Gn. cbn [option_map andb].
  cbn [fold_left]. destruct (get_node_spec n _ s Gn) as (Ps & Rs).
  rewrite live_true by (rewrite <- Rs; unfold ids; now apply in_map). cbn [remove_one].
  destruct (get_node_loc n _ s Gn) as (q0 & i & l & E & N).
  assert (D : detach n (forest_of t) = Some (s, upd_ch q0 (remove_nth i) (forest_of t))) by (unfold detach; now rewrite E, N).
  destruct (remove_branch t n) as [a|] eqn:Rb; [|unfold remove_branch in Rb; rewrite D in Rb; destruct (unregister_all _ _ _); discriminate].
  destruct (WF_remove_branch t n a Wt Rb) as (Wa & s' & Ps' & Rs' & P).
  assert (s' = s) by (apply (node_unique (forest_of t)); auto; [apply Wt|congruence]). subst s'.
  exists a. cbn [fst snd]. split; [now apply (get_put_tree w ti t)|]. split; [reflexivity|].
  assert (ND : NoDup (ids_t s ++ ids (forest_of a))) by (apply (Permutation_NoDup P), Wt).
  intros m Hm. assert (X : ~ In m (ids (forest_of a))) by (intros Y; apply (NoDup_app_disj _ _ m ND Hm Y)).
  split; [assumption|]. intros Y. apply X. apply (Permutation_in _ (wf_reg a Wa) Y).
Qed.

(* remove_children(): all descendants are gone *)
Theorem removed_children_gone w ti n t ch :
  WFw w -> get_tree w ti = Some t -> children_of n (forest_of t) = Some ch ->
  exists t', get_tree (snd (op_remove_children w ti n)) ti = Some t' /\
    forall m, In m (ids ch) -> ~ In m (ids (forest_of t')) /\ ~ In m (reg t').
Proof.
  intros H Gt Gc. assert (Wt := WFw_tree w ti t H Gt). unfold op_remove_children. rewrite Gt.
  unfold children_of in Gc. destruct (parent_path n (forest_of t)) as [pq|]; [|discriminate]. rewrite Gc.
  rewrite unregister_all_eq. cbn [snd].
  assert (G' : get_ch pq (forest_of t) = Some ([] ++ ch ++ [])) by (now rewrite app_nil_r).
  destruct (WF_cut t pq [] ch [] Wt G') as (W1 & W2). cbn [app] in W1, W2.
  eexists. split; [now apply (get_put_tree w ti t)|]. cbn [forest_of set_all reg].
  assert (ND : NoDup (ids ch ++ ids (upd_ch pq (fun _ => []) (forest_of t)))) by (apply (Permutation_NoDup W2), Wt).
  intros m Hm. assert (X : ~ In m (ids (upd_ch pq (fun _ => []) (forest_of t)))) by (intros Y; apply (NoDup_app_disj _ _ m ND Hm Y)).
  split; [assumption|]. intros Y. apply X. apply (Permutation_in _ (wf_reg _ W1) Y).
Qed.
