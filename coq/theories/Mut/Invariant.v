(* WF is an invariant of the mutation machine: step and history theorems,
   assembled from the per-operation theorems, plus corollaries. *)
From Coq Require Import List ZArith Bool Arith Lia Permutation.
From NT Require Import Sx Rose ListFacts RoseFacts Surgery SurgeryFacts Machine WF MachineFacts
  PreserveSteps PreserveOps PreserveSort PreserveCopy PreserveMore PreserveRelabel PreserveKeepClones.
Import ListNotations.

Theorem WFx_step w o : WFw w -> WFx w (snd (step w o)).
Proof.
  intros H. destruct o; cbn [step].
  - now apply WFx_op_add.
  - now apply WFx_op_shortcut.
  - now apply WFx_op_add_node.
  - now apply WFx_op_add_tree.
  - now apply WFx_op_copy_to.
  - now apply WFx_op_tree_copy.
  - now apply WFx_op_node_copy.
  - now apply WFx_op_move.
  - now apply WFx_op_remove_full.
  - now apply WFx_op_remove_children.
  - now apply WFx_op_sort.
  - now apply WFx_op_set_data.
  - now apply WFx_op_rename.
  - now apply WFx_op_meta.
  - now apply (PreserveCopy_WFx_new_empty w is_typed c).
  - now apply WFx_op_clear.
  - now apply WFx_op_del.
  - now apply WFx_op_filter.
  - now apply WFx_op_from_dict.
  - now apply WFx_op_tree_from_dict.
Qed.

Theorem WFw_step w o : WFw w -> WFw (snd (step w o)).
Proof. intros H. exact (proj1 (WFx_step w o H)). Qed.

Theorem WFx_run ops : forall w, WFw w -> WFx w (run ops w).
Proof.
  induction ops as [|o ops IH]; intros w H; [exact (WFx_refl w H)|].
  unfold run. cbn [fold_left]. assert (X := WFx_step w o H). exact (WFx_trans _ _ _ X (IH _ (proj1 X))).
Qed.

Theorem WFw_run ops : forall w, WFw w -> WFw (run ops w).
Proof. intros w H. exact (proj1 (WFx_run ops w H)). Qed.

(* identities are never reused: a node that is not in the world now (removed, or never created with
   an identity below the allocator) is in no later world of the history *)
Theorem never_comes_back ops w m : WFw w -> m < next w -> ~ In m (all_ids w) -> ~ In m (all_ids (run ops w)).
Proof.
  intros H L N Y. destruct (WFx_run ops w H) as (_ & _ & F). destruct (F m Y) as [X|X]; [contradiction|lia].
Qed.

(* every state along a history *)
Theorem WFw_trace ops : forall w, WFw w -> forall k, WFw (run (firstn k ops) w).
Proof. intros w H k. now apply WFw_run. Qed.

(* ---- corollaries spelled out from WF ---- *)
Lemma WF_count t : WF t -> length (reg t) = length (ids (forest_of t)) /\ length (ids (forest_of t)) = size_f (forest_of t).
Proof.
  intros H. split; [apply Permutation_length, H|].
  rewrite length_ids. induction (forest_of t) as [|x f IH]; [reflexivity|].
  cbn [flat_map]. rewrite app_length, size_pre, IH. reflexivity.
Qed.

Lemma get_put_tree w ti t t' : get_tree w ti = Some t -> get_tree (put_tree w ti t') ti = Some t'.
Proof.
  unfold get_tree, put_tree. cbn [trees]. intros G. destruct (nth_error_split _ _ G) as (a & b & -> & <-).
  rewrite upd_nth_split. apply nth_error_app_len.
Qed.

Lemma live_true t n : In n (ids (forest_of t)) -> live t n = true.
Proof. intros H. unfold live. apply existsb_exists. exists n. split; [assumption|apply Nat.eqb_refl]. Qed.

(* remove(): the node and its whole branch are neither reachable nor registered afterwards *)
Theorem removed_branch_gone w ti n t s :
  WFw w -> get_tree w ti = Some t -> get_node n (forest_of t) = Some s ->
  exists t', get_tree (snd (op_remove w ti n false false)) ti = Some t' /\ fst (op_remove w ti n false false) = Ok [] /\
    forall m, In m (ids_t s) -> ~ In m (ids (forest_of t')) /\ ~ In m (reg t').
Proof.
  intros H Gt Gn. assert (Wt := WFw_tree w ti t H Gt). unfold op_remove. rewrite Gt. unfold did_of. rewrite Gn. cbn [option_map andb].
  cbn [fold_left]. destruct (get_node_spec n _ s Gn) as (Ps & Rs).
  rewrite live_true by (rewrite <- Rs; unfold ids; now apply in_map). cbn [remove_one].
  destruct (get_node_loc n _ s Gn) as (q0 & i & l & E & N).
  assert (D : detach n (forest_of t) = Some (s, upd_ch q0 (remove_nth i) (forest_of t))) by (unfold detach; now rewrite E, N).
  destruct (remove_branch t n) as [a|] eqn:Rb; [|unfold remove_branch in Rb; rewrite D in Rb; destruct (unregister_all _ _ _); discriminate].
  destruct (WF_remove_branch t n a Wt Rb) as (Wa & s' & Ps' & Rs' & P).
  assert (s' = s) by (apply (node_unique (forest_of t)); auto; [apply Wt|congruence]). subst s'.
  exists a. cbn [fst snd]. split; [now apply (get_put_tree w ti t)|]. split; [reflexivity|].
  assert (ND : NoDup (ids_t s ++ ids (forest_of a))) by (apply (Permutation_NoDup P), Wt).
  intros m Hm. assert (X : ~ In m (ids (forest_of a))) by (intros Y; apply (NoDup_app_disj _ _ m ND Hm Y)).
  split; [assumption|]. intros Y. apply X. apply (Permutation_in _ (wf_reg a Wa) Y).
Qed.

(* remove_children(): all descendants are gone *)
Theorem removed_children_gone w ti n t ch :
  WFw w -> get_tree w ti = Some t -> children_of n (forest_of t) = Some ch ->
  exists t', get_tree (snd (op_remove_children w ti n)) ti = Some t' /\
    forall m, In m (ids ch) -> ~ In m (ids (forest_of t')) /\ ~ In m (reg t').
Proof.
  intros H Gt Gc. assert (Wt := WFw_tree w ti t H Gt). unfold op_remove_children. rewrite Gt.
  unfold children_of in Gc. destruct (parent_path n (forest_of t)) as [pq|]; [|discriminate]. rewrite Gc.
  rewrite unregister_all_eq. cbn [snd].
  assert (G' : get_ch pq (forest_of t) = Some ([] ++ ch ++ [])) by (now rewrite app_nil_r).
  destruct (WF_cut t pq [] ch [] Wt G') as (W1 & W2). cbn [app] in W1, W2.
  eexists. split; [now apply (get_put_tree w ti t)|]. cbn [forest_of set_all reg].
  assert (ND : NoDup (ids ch ++ ids (upd_ch pq (fun _ => []) (forest_of t)))) by (apply (Permutation_NoDup W2), Wt).
  intros m Hm. assert (X : ~ In m (ids (upd_ch pq (fun _ => []) (forest_of t)))) by (intros Y; apply (NoDup_app_disj _ _ m ND Hm Y)).
  split; [assumption|]. intros Y. apply X. apply (Permutation_in _ (wf_reg _ W1) Y).
Qed.

(* ---- derived parent pointers (hold by construction of the model; stated for the record) ---- *)
Theorem parent_total_unique t n : WF t -> In n (ids (forest_of t)) ->
  exists p ch, parent_of n (forest_of t) = Some p /\ (p = 0 \/ In p (ids (forest_of t))) /\ p <> n /\
               children_of p (forest_of t) = Some ch /\ In n (map rid ch) /\ NoDup (map rid ch).
Proof.
  intros H Hn. set (f := forest_of t) in *. assert (ND := wf_nodup t H). assert (Z := wf_pos t H). fold f in ND, Z.
  destruct (parent_of n f) as [p|] eqn:Pp.
  2:{ exfalso. apply (proj2 parent_in_complete f n 0 Pp Hn). }
  assert (Row := Pp). apply (parent_of_rows n f p ND) in Row. destruct Row as (inf & Row).
  assert (Hp : p = 0 \/ In p (ids f)) by (destruct (rows_par f 0 _ Row) as [E|E]; [left; exact E|right; exact E]).
  assert (Gc : exists pq ch, parent_path p f = Some pq /\ get_ch pq f = Some ch).
  { unfold parent_path. destruct (Nat.eqb p 0) eqn:E0; [exists [], f; now split|].
    apply Nat.eqb_neq in E0. destruct Hp as [Hp|Hp]; [contradiction|].
    destruct (node_path_complete p f Hp) as (pq & Gp). exists pq.
    assert (Gp' : parent_path p f = Some pq) by (unfold parent_path; apply Nat.eqb_neq in E0; now rewrite E0).
    destruct (parent_path_get p f pq Gp') as (ch & G). now exists ch. }
  destruct Gc as (pq & ch & Gp & G). exists p, ch.
  rewrite <- (parent_path_owner p f pq ch Gp G) in Row.
  destruct (rows_owner_member pq f ch n inf ND Z G Row) as (x & Hx & Rx & _).
  refine (conj eq_refl (conj Hp (conj _ (conj _ (conj _ _))))).
  - intros ->. destruct Hp as [->|_]; [contradiction|].
    (* node n would be its own child *)
    assert (Px : In x (pre_f f)) by (apply (get_ch_pre pq f ch G); now apply in_pre_f_top).
    destruct (parent_path_spec n f pq ch 0 Gp G) as [(E0 & _)|(_ & s & Ps & Rs & Cs & _)]; [apply Z; rewrite <- E0; exact Hn|].
    assert (x = s) by (apply (node_unique f); auto; congruence). subst x. subst ch.
    assert (NS := NoDup_ids_sub f s ND Ps). rewrite ids_t_unfold in NS. inversion NS as [|y l N1 N2]; subst.
    apply N1. now apply incl_top_ids, in_map.
  - unfold children_of. now rewrite Gp.
  - rewrite <- Rx. now apply in_map.
  - apply NoDup_ids_top. now apply (NoDup_child_list pq f ch).
Qed.

(* no node belongs to two trees *)
Lemma NoDup_flat_map_disj {X Y} (g : X -> list Y) : forall l i j a b y,
  NoDup (flat_map g l) -> nth_error l i = Some a -> nth_error l j = Some b -> i <> j -> In y (g a) -> ~ In y (g b).
Proof.
  induction l as [|x l IH]; intros i j a b y ND Hi Hj Ne Ha Hb; [destruct i; discriminate|].
  cbn [flat_map] in ND. destruct i as [|i]; destruct j as [|j]; cbn in Hi, Hj.
  - contradiction.
  - injection Hi as ->. apply (NoDup_app_disj _ _ y ND Ha). apply in_flat_map. exists b. split; [now apply nth_error_In in Hj|assumption].
  - injection Hj as ->. apply (NoDup_app_disj _ _ y ND Hb). apply in_flat_map. exists a. split; [now apply nth_error_In in Hi|assumption].
  - apply (IH i j a b y (NoDup_app_r _ _ ND) Hi Hj); auto.
Qed.

Theorem trees_disjoint w i j ti tj n : WFw w -> i <> j -> get_tree w i = Some ti -> get_tree w j = Some tj ->
  In n (ids (forest_of ti)) -> ~ In n (ids (forest_of tj)).
Proof.
  intros H Ne Gi Gj Hn. apply (NoDup_flat_map_disj (fun t => ids (forest_of t)) (trees w) i j ti tj n); auto. apply H.
Qed.

(* remove(keep_children=True) of a single node: the node is gone, its children stay *)
Theorem removed_keep_gone w ti n t s :
  WFw w -> get_tree w ti = Some t -> get_node n (forest_of t) = Some s ->
  fst (op_remove w ti n true false) = Ok [] ->
  exists t', get_tree (snd (op_remove w ti n true false)) ti = Some t' /\
             ~ In n (ids (forest_of t')) /\ ~ In n (reg t') /\
             forall m, In m (ids (forest_of t)) -> m <> n -> In m (ids (forest_of t')).
Proof.
  intros H Gt Gn. assert (Wt := WFw_tree w ti t H Gt). unfold op_remove. rewrite Gt. unfold did_of. rewrite Gn. cbn [option_map andb existsb].
  rewrite orb_false_r. destruct (keep_collides_all t [n] n) eqn:Col; [discriminate|]. intros _.
  apply keep_all_single in Col; [|apply Wt]. cbn [fold_left snd].
  destruct (get_node_spec n _ s Gn) as (Ps & Rs).
  rewrite live_true by (rewrite <- Rs; unfold ids; now apply in_map). cbn [remove_one].
  destruct (remove_keep t n) as [a|] eqn:Rk.
  2:{ exfalso. unfold remove_keep in Rk. destruct (get_node_loc n _ s Gn) as (q0 & i & l & E & N). now rewrite E, N in Rk. }
  destruct (WF_remove_keep t n a Wt Col Rk) as (Wa & P).
  exists a. split; [now apply (get_put_tree w ti t)|].
  assert (ND : NoDup (n :: ids (forest_of a))) by (apply (Permutation_NoDup P), Wt). inversion ND as [|x l N1 N2]; subst.
  refine (conj N1 (conj _ _)).
  - intros Y. apply N1. apply (Permutation_in _ (wf_reg a Wa) Y).
  - intros m Hm Nm. apply (Permutation_in _ P) in Hm. destruct Hm as [E|Hm]; [exfalso; apply Nm; now symmetry|assumption].
Qed.

(* remove(with_clones=True): every clone (and its branch root) is gone *)
Lemma remove_branch_complete t v : WF t -> In v (ids (forest_of t)) -> exists a, remove_branch t v = Some a.
Proof.
  intros H Hv. destruct (get_node_complete v _ Hv) as (s & Gs). destruct (get_node_loc v _ s Gs) as (q0 & i & l & E & N).
  unfold remove_branch, detach. rewrite E, N. destruct (unregister_all _ _ _). eexists. reflexivity.
Qed.

Lemma remove_fold_gone vs : forall t, WF t ->
  let t' := fold_left (fun acc v => if live acc v
                                     then match remove_one acc v false with Some a => a | None => acc end
                                     else acc) vs t in
  forall v, In v vs -> ~ In v (ids (forest_of t')).
Proof.
  induction vs as [|u vs IH]; intros t H t' v Hv; [contradiction|]. cbn [fold_left] in t'.
  destruct Hv as [->|Hv]; [|unfold t'; destruct (live t u); [cbn [remove_one]; destruct (remove_branch t u) as [a|] eqn:E|];
                                try (now apply IH); apply IH; [|assumption]; now destruct (WF_remove_branch t u a H E)].
  unfold t'. destruct (live t v) eqn:L.
  - cbn [remove_one]. assert (Hin : In v (ids (forest_of t))).
    { unfold live in L. apply existsb_exists in L. destruct L as (m & Hm & E). apply Nat.eqb_eq in E. now subst. }
    destruct (remove_branch_complete t v H Hin) as (a & E). rewrite E.
    destruct (WF_remove_branch t v a H E) as (Wa & s & Ps & Rs & P).
    destruct (remove_fold_branch vs a Wa) as (_ & I). intros Y. apply I in Y.
    assert (ND : NoDup (ids_t s ++ ids (forest_of a))) by (apply (Permutation_NoDup P), H).
    apply (NoDup_app_disj _ _ v ND); [|assumption]. rewrite ids_t_unfold, Rs. now left.
  - destruct (remove_fold_branch vs t H) as (_ & I). intros Y. apply I in Y.
    assert (X : live t v = true) by (now apply live_true). congruence.
Qed.

Theorem removed_clones_gone w ti n t d :
  WFw w -> get_tree w ti = Some t -> did_of n (forest_of t) = Some d ->
  exists t', get_tree (snd (op_remove w ti n false true)) ti = Some t' /\
             forall c, In c (idx_get d (idx t)) -> ~ In c (ids (forest_of t')) /\ ~ In c (reg t').
Proof.
  intros H Gt Dn. assert (Wt := WFw_tree w ti t H Gt). unfold op_remove. rewrite Gt, Dn. cbn [andb snd].
  set (vs := filter (fun c => negb (Nat.eqb c n)) (idx_get d (idx t)) ++ [n]).
  destruct (remove_fold_branch vs t Wt) as (W' & _). assert (Gone := remove_fold_gone vs t Wt).
  eexists. split; [now apply (get_put_tree w ti t)|]. intros c Hc.
  assert (Hv : In c vs).
  { unfold vs. destruct (Nat.eq_dec c n) as [->|Nc]; [apply in_or_app; right; now left|]. apply in_or_app. left.
    apply filter_In. split; [assumption|]. apply negb_true_iff. now apply Nat.eqb_neq. }
  specialize (Gone c Hv). split; [exact Gone|]. intros Y. apply Gone. apply (Permutation_in _ (wf_reg _ W') Y).
Qed.

(* what is not reachable is neither registered nor indexed (any tree state satisfying WF) *)
Theorem unreachable_uncounted t n : WF t -> ~ In n (ids (forest_of t)) ->
  ~ In n (reg t) /\ forall d, ~ In n (idx_get d (idx t)).
Proof.
  intros H Hn. split.
  - intros Y. apply Hn. apply (Permutation_in _ (wf_reg t H) Y).
  - intros d Y. apply (idx_get_keys t n d H) in Y. apply Hn. rewrite <- (keys_fst (forest_of t)).
    change n with (fst (n, d)). now apply in_map.
Qed.

(* clear(): nothing is left *)
Theorem cleared_gone w ti t :
  WFw w -> get_tree w ti = Some t ->
  exists t', get_tree (snd (op_clear w ti)) ti = Some t' /\ forest_of t' = [] /\ reg t' = [] /\ idx t' = [].
Proof.
  intros H Gt. assert (Wt := WFw_tree w ti t H Gt).
  assert (W' := WFw_op_clear w ti H). unfold op_clear, op_remove_children in *. rewrite Gt in *. cbn [parent_path Nat.eqb get_ch] in *.
  rewrite unregister_all_eq in *. cbn [snd] in *.
  eexists. split; [now apply (get_put_tree w ti t)|]. cbn [forest_of set_all reg idx upd_ch].
  match goal with |- _ /\ ?r = [] /\ ?ix = [] => set (r' := r); set (ix' := ix) end.
  assert (Wt' : WF (set_all t [] r' ix')).
  { apply (WFw_tree _ ti _ W'). now apply (get_put_tree w ti t). }
  refine (conj eq_refl (conj _ _)).
  - assert (P := wf_reg _ Wt'). cbn in P. apply Permutation_sym in P. now apply Permutation_nil in P.
  - assert (P := wf_idx _ Wt'). cbn in P. assert (Ne := wf_ine _ Wt'). cbn [idx set_all] in *.
    destruct ix' as [|e ix0]; [reflexivity|]. exfalso. inversion Ne as [|x l N1 N2]; subst.
    destruct (snd e) as [|m l0] eqn:E; [contradiction|]. apply Permutation_sym in P. apply Permutation_nil in P. unfold idx_flat in P. cbn in P. rewrite E in P. discriminate.
Qed.

Lemma not_in_put w ti t t' m : WFw w -> get_tree w ti = Some t -> In m (ids (forest_of t)) ->
  ~ In m (ids (forest_of t')) -> ~ In m (all_ids (put_tree w ti t')).
Proof.
  intros H G Hm Nm. unfold get_tree in G. destruct (nth_error_split _ _ G) as (a & b & E & <-).
  assert (ND := ww_disj w H). destruct w as [ts nw]. cbn [trees next] in *. subst ts.
  unfold put_tree. cbn [trees next]. rewrite upd_nth_split, all_ids_split. rewrite all_ids_split in ND.
  intros Y. apply in_app_or in Y. destruct Y as [Y|Y].
  - apply (NoDup_app_disj _ _ m ND Y). apply in_or_app. now left.
  - apply in_app_or in Y. destruct Y as [Y|Y]; [contradiction|].
    apply NoDup_app_r in ND. apply (NoDup_app_disj _ _ m ND Hm Y).
Qed.

(* a removed branch is absent from every later state of every continuation of the history *)
Theorem removed_never_returns w ti n t s ops :
  WFw w -> get_tree w ti = Some t -> get_node n (forest_of t) = Some s ->
  forall m, In m (ids_t s) -> ~ In m (all_ids (run ops (snd (op_remove w ti n false false)))).
Proof.
  intros H Gt Gn m Hm. assert (Wt := WFw_tree w ti t H Gt).
  destruct (get_node_spec n _ s Gn) as (Ps & Rs).
  assert (Hmt : In m (ids (forest_of t))).
  { destruct (pre_f_segment _ s Ps) as (a & b & E). unfold ids. rewrite E, !map_app. apply in_or_app. right. apply in_or_app. now left. }
  assert (L : m < next w) by (apply (WFw_tree_lt w ti t m H Gt Hmt)).
  assert (X := WFx_op_remove_full w ti n false false H).
  apply never_comes_back; [apply X|destruct X as (_ & L2 & _); lia|].
  (* absent right after the removal *)
  destruct (removed_branch_gone w ti n t s H Gt Gn) as (t' & G' & _ & Gone).
  revert G' X. unfold op_remove. rewrite Gt. unfold did_of. rewrite Gn. cbn [option_map andb snd].
  intros G' _. match goal with |- ~ In m (all_ids (put_tree w ti ?a)) => set (a' := a) in * end.
  assert (a' = t') by (rewrite (get_put_tree w ti t a' Gt) in G'; now injection G'). subst t'.
  apply (not_in_put w ti t a' m H Gt Hmt). now apply Gone.
Qed.

(* del tree[key]: the node found by the key and its branch are gone *)
Theorem deleted_gone w ti k t n s :
  WFw w -> get_tree w ti = Some t -> getitem t k = Some [n] -> get_node n (forest_of t) = Some s ->
  exists t', get_tree (snd (op_del w ti k)) ti = Some t' /\ fst (op_del w ti k) = Ok [] /\
    forall m, In m (ids_t s) -> ~ In m (ids (forest_of t')) /\ ~ In m (reg t').
Proof.
  intros H Gt Gk Gn. unfold op_del. rewrite Gt, Gk. now apply (removed_branch_gone w ti n t s).
Qed.

(* filter(): every branch the predicate rejected is gone *)
Lemma apply_facts_gone acts : forall t, WF t -> forall v, In (FBranch v) acts ->
  ~ In v (ids (forest_of (fold_left apply_fact acts t))).
Proof.
  induction acts as [|a acts IH]; intros t H v Hv; [contradiction|]. cbn [fold_left].
  destruct (WF_apply_fact t a H) as (W1 & I1). destruct Hv as [->|Hv]; [|now apply IH].
  destruct (WF_apply_facts acts _ W1) as (_ & I2). intros Y. apply I2 in Y. revert Y. cbn [apply_fact].
  destruct (in_dec Nat.eq_dec v (ids (forest_of t))) as [Hin|Hin].
  - destruct (remove_branch_complete t v H Hin) as (a' & E). rewrite E.
    destruct (WF_remove_branch t v a' H E) as (Wa & s & Ps & Rs & P).
    assert (ND : NoDup (ids_t s ++ ids (forest_of a'))) by (apply (Permutation_NoDup P), H).
    intros Y. apply (NoDup_app_disj _ _ v ND); [|assumption]. rewrite ids_t_unfold, Rs. now left.
  - intros Y. apply Hin. cbn [apply_fact] in I1. now apply I1.
Qed.

Theorem filtered_gone w ti n vd t ch must acts stopped failed :
  WFw w -> get_tree w ti = Some t -> children_of n (forest_of t) = Some ch ->
  fvisit vd (T 0 dummy_info ch) false = (must, acts, stopped, failed) ->
  exists t', get_tree (snd (op_filter w ti n vd)) ti = Some t' /\
    forall v, In (FBranch v) acts -> ~ In v (ids (forest_of t')) /\ ~ In v (reg t').
Proof.
  intros H Gt Gc Fv. assert (Wt := WFw_tree w ti t H Gt). unfold op_filter. rewrite Gt, Gc, Fv. cbn [snd].
  eexists. split; [now apply (get_put_tree w ti t)|]. intros v Hv.
  destruct (WF_apply_facts acts t Wt) as (W' & _). assert (G := apply_facts_gone acts t Wt v Hv).
  split; [exact G|]. intros Y. apply G. apply (Permutation_in _ (wf_reg _ W') Y).
Qed.
