(* C04 - remove() / remove(with_clones=True) against a structural specification:
   [prune V f] deletes every branch of f whose root is in V.  The machine removes
   the victims one after the other by path surgery (and skips those that went away
   with an outer clone); the result is [prune victims forest]. *)
From Coq Require Import List ZArith Bool Arith Lia Permutation.
From NT Require Import Sx Rose ListFacts RoseFacts Surgery SurgeryFacts Machine MachineFacts Effects.
Import ListNotations.

Fixpoint prune_t (V : list nat) (t : rt) : list rt :=
  match t with
  | T id i ch => if existsb (Nat.eqb id) V then [] else [T id i (flat_map (prune_t V) ch)]
  end.
Notation prune V := (flat_map (prune_t V)).

Lemma prune_app V a b : prune V (a ++ b) = prune V a ++ prune V b.
Proof. apply flat_map_app. Qed.

Lemma in_ids_t v id i ch : In v (ids_t (T id i ch)) <-> v = id \/ In v (ids ch).
Proof. rewrite ids_t_unfold. cbn [rid rch In]. split; intros [H|H]; auto. Qed.

Lemma in_ids_cons v t f : In v (ids (t :: f)) <-> In v (ids_t t) \/ In v (ids f).
Proof.
  rewrite ids_cons, ids_t_unfold. cbn [In]. rewrite in_app_iff. tauto.
Qed.

(* pruning identities that do not occur changes nothing *)
Lemma prune_absent_aux V : forall ch,
  Forall (fun c => (forall v, In v V -> ~ In v (ids_t c)) -> prune_t V c = [c]) ch ->
  (forall v, In v V -> ~ In v (ids ch)) -> prune V ch = ch.
Proof.
  induction ch as [|c ch IHch]; intros F H; [reflexivity|]. inversion F as [|? ? Hc Hch]; subst.
  cbn [flat_map]. rewrite Hc.
  - cbn [app]. f_equal. apply IHch; [exact Hch|]. intros v Hv Hin. apply (H v Hv). apply in_ids_cons. now right.
  - intros v Hv Hin. apply (H v Hv). apply in_ids_cons. now left.
Qed.

Lemma prune_absent V : forall t, (forall v, In v V -> ~ In v (ids_t t)) -> prune_t V t = [t].
Proof.
  induction t as [id i ch IH] using rt_ind'. intros H. cbn [prune_t].
  destruct (existsb (Nat.eqb id) V) eqn:E.
  - exfalso. apply existsb_exists in E. destruct E as (v & Hv & Ev). apply Nat.eqb_eq in Ev. subst v.
    apply (H id Hv). apply in_ids_t. now left.
  - f_equal. f_equal. apply prune_absent_aux; [exact IH|]. intros v Hv Hin. apply (H v Hv). apply in_ids_t. now right.
Qed.

Lemma prune_absent_f V f : (forall v, In v V -> ~ In v (ids f)) -> prune V f = f.
Proof.
  intros H. apply prune_absent_aux; [|exact H]. apply Forall_forall. intros c _. apply prune_absent.
Qed.

Lemma nodup_app_disj {X} (l1 l2 : list X) x : NoDup (l1 ++ l2) -> In x l1 -> In x l2 -> False.
Proof.
  induction l1 as [|y l1 IH]; intros ND H1 H2; [destruct H1|]. cbn [app] in ND.
  inversion ND as [|? ? Hn ND']; subst. destruct H1 as [->|H1].
  - apply Hn. apply in_or_app. now right.
  - now apply IH.
Qed.

(* removing one branch by path surgery = pruning its root *)
Lemma prune_one_path v : forall q0 f i l s,
  get_ch q0 f = Some l -> nth_error l i = Some s -> rid s = v -> NoDup (ids f) ->
  prune [v] f = upd_ch q0 (remove_nth i) f.
Proof.
  induction q0 as [|j rest IH]; intros f i l s Hg Hn Hr ND.
  - cbn in Hg. injection Hg as <-. cbn [upd_ch].
    destruct (nth_error_split f i Hn) as (a & b & -> & <-).
    rewrite remove_nth_split, prune_app. cbn [flat_map].
    rewrite ids_app in ND.
    assert (Hv : In v (ids (s :: b))) by (apply in_ids_cons; left; rewrite ids_t_unfold; left; exact Hr).
    assert (Ha : prune [v] a = a).
    { apply prune_absent_f. intros x [<-|[]] Hin. exact (nodup_app_disj _ _ _ ND Hin Hv). }
    apply NoDup_app_r in ND. rewrite ids_cons, Hr in ND.
    assert (Hb : prune [v] b = b).
    { apply prune_absent_f. intros x [<-|[]] Hin. apply NoDup_cons_iff in ND. destruct ND as (Hnn & _). apply Hnn. apply in_or_app. now right. }
    rewrite Ha, Hb. destruct s as [id inf ch]. cbn [rid] in Hr. subst id. cbn [prune_t existsb]. rewrite Nat.eqb_refl. reflexivity.
  - cbn [get_ch] in Hg. destruct (nth_error f j) as [t|] eqn:Ej; [|discriminate].
    destruct (nth_error_split f j Ej) as (a & b & -> & <-).
    cbn [upd_ch]. rewrite upd_nth_split, prune_app. cbn [flat_map].
    assert (Hin : In v (ids (rch t))).
    { pose proof (get_ch_pre rest (rch t) l Hg) as Hi. unfold ids. rewrite <- Hr. apply in_map. apply Hi.
      apply in_flat_map. exists s. split; [now apply nth_error_In in Hn|]. destruct s; now left. }
    rewrite ids_app in ND.
    assert (Hv : In v (ids (t :: b))) by (apply in_ids_cons; left; rewrite ids_t_unfold; right; exact Hin).
    assert (Ha : prune [v] a = a).
    { apply prune_absent_f. intros x [<-|[]] Hx. exact (nodup_app_disj _ _ _ ND Hx Hv). }
    apply NoDup_app_r in ND. rewrite ids_cons in ND.
    apply NoDup_cons_iff in ND. destruct ND as (Hnt & ND2).
    assert (Hb : prune [v] b = b).
    { apply prune_absent_f. intros x [<-|[]] Hx. exact (nodup_app_disj _ _ _ ND2 Hin Hx). }
    assert (Ht : rid t <> v) by (intros E; apply Hnt; apply in_or_app; left; now rewrite E).
    rewrite Ha, Hb. destruct t as [id inf ch]. cbn [rid rch set_ch] in *. cbn [prune_t existsb].
    apply Nat.eqb_neq in Ht. rewrite Ht. cbn [orb app].
    rewrite (IH ch i l s Hg Hn Hr); [reflexivity|]. now apply NoDup_app_l in ND2.
Qed.

Lemma remove_branch_prune t n t' : NoDup (ids (forest_of t)) ->
  remove_branch t n = Some t' -> forest_of t' = prune [n] (forest_of t).
Proof.
  intros ND H. unfold remove_branch, detach in H.
  destruct (node_loc n (forest_of t)) as [[[q0 i] l]|] eqn:El; [|discriminate].
  destruct (nth_error l i) as [s|] eqn:En; [|discriminate].
  destruct (unregister_all (pre s) (reg t) (idx t)) as [r' ix']. injection H as <-. cbn [forest_of set_all].
  destruct (node_loc_spec n _ q0 i l El) as (Hg & s' & Hs & Hr & _). rewrite En in Hs. injection Hs as <-.
  symmetry. now apply (prune_one_path n q0 _ i l s).
Qed.

Lemma nodup_drop_block {X} (A M B : list X) : NoDup (A ++ M ++ B) -> NoDup (A ++ B).
Proof.
  intros ND. apply NoDup_app_intro.
  - now apply NoDup_app_l in ND.
  - apply NoDup_app_r in ND. now apply NoDup_app_r in ND.
  - intros x Ha Hb. apply (NoDup_app_disj _ _ x ND Ha). apply in_or_app. now right.
Qed.

Lemma remove_branch_nodup t n t' : NoDup (ids (forest_of t)) ->
  remove_branch t n = Some t' -> NoDup (ids (forest_of t')).
Proof.
  intros ND H. destruct (remove_branch_effect t n t' H) as (q0 & i & l & s & o & _ & _ & _ & _ & A & B & E1 & E2).
  rewrite <- (rows_ids (forest_of t) 0) in ND. rewrite <- (rows_ids (forest_of t') 0).
  rewrite E2. rewrite E1, !map_app in ND. cbn [app]. rewrite map_app.
  now apply nodup_drop_block in ND.
Qed.

Lemma prune_prune A B : forall t, prune A (prune_t B t) = prune_t (B ++ A) t.
Proof.
  induction t as [id i ch IH] using rt_ind'. cbn [prune_t]. rewrite existsb_app.
  destruct (existsb (Nat.eqb id) B); [reflexivity|]. cbn [orb flat_map prune_t]. rewrite app_nil_r.
  destruct (existsb (Nat.eqb id) A); [reflexivity|]. f_equal. f_equal.
  induction ch as [|c ch IHch]; [reflexivity|]. inversion IH as [|? ? Hc Hch]; subst.
  cbn [flat_map]. rewrite prune_app, Hc, (IHch Hch). reflexivity.
Qed.

Lemma prune_prune_f A B f : prune A (prune B f) = prune (B ++ A) f.
Proof.
  induction f as [|t f IH]; [reflexivity|]. cbn [flat_map]. rewrite prune_app, prune_prune, IH. reflexivity.
Qed.

(* one round of the loop in op_remove (keep_children = False) *)
Definition rm_step (acc : tstate) (v : nat) : tstate :=
  if live acc v then match remove_one acc v false with Some a => a | None => acc end else acc.

Lemma rm_step_prune acc v : NoDup (ids (forest_of acc)) ->
  forest_of (rm_step acc v) = prune [v] (forest_of acc) /\ NoDup (ids (forest_of (rm_step acc v))).
Proof.
  intros ND. unfold rm_step. destruct (live acc v) eqn:El.
  - cbn [remove_one]. destruct (remove_branch acc v) as [a|] eqn:E.
    + split; [now apply remove_branch_prune|now apply (remove_branch_nodup acc v)].
    + exfalso. unfold live in El. apply existsb_exists in El. destruct El as (m & Hm & Em). apply Nat.eqb_eq in Em. subst m.
      destruct (get_node_complete v _ Hm) as (s & Hs). destruct (remove_one_some acc v false s Hs) as (t' & Ht).
      cbn [remove_one] in Ht. congruence.
  - split; [|exact ND]. symmetry. apply prune_absent_f. intros x [<-|[]] Hin.
    unfold live in El. assert (existsb (Nat.eqb v) (ids (forest_of acc)) = true); [|congruence].
    apply existsb_exists. exists v. split; [exact Hin|apply Nat.eqb_refl].
Qed.

Lemma rm_fold_prune : forall V acc, NoDup (ids (forest_of acc)) ->
  forest_of (fold_left rm_step V acc) = prune V (forest_of acc).
Proof.
  induction V as [|v V IH]; intros acc ND; cbn [fold_left].
  - symmetry. apply prune_absent_f. intros v [].
  - destruct (rm_step_prune acc v ND) as (E & ND'). rewrite (IH _ ND'), E, prune_prune_f. reflexivity.
Qed.

(* remove() and remove(with_clones=True): every branch rooted at the node / at a member of its clone
   group is deleted, nothing else changes (prune keeps every other node, its payload, parent and order) *)
Theorem remove_prune w ti n wc r w' :
  op_remove w ti n false wc = (Ok r, w') ->
  exists t t' d,
    get_tree w ti = Some t /\ get_tree w' ti = Some t' /\ did_of n (forest_of t) = Some d /\
    (NoDup (ids (forest_of t)) ->
     forest_of t' = prune (if wc then filter (fun c => negb (Nat.eqb c n)) (idx_get d (idx t)) ++ [n] else [n]) (forest_of t)).
Proof.
  unfold op_remove. intros H.
  destruct (get_tree w ti) as [t|] eqn:Et; [|discriminate].
  destruct (did_of n (forest_of t)) as [d|] eqn:Ed; [|discriminate].
  cbn [andb] in H. injection H as <- <-.
  eexists t, _, d. split; [first [reflexivity|exact Et]|]. split; [exact (get_put_same _ _ t _ Et)|].
  split; [first [reflexivity|exact Ed]|]. intros ND.
  exact (rm_fold_prune _ t ND).
Qed.
