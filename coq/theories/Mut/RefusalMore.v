(* Refusal at the level of the whole operation for the two routes whose C03 theorems spoke about an inner
   step only, and totality of the removals whose C01 theorems did not say that the call succeeds. *)
From Coq Require Import List ZArith Bool Arith Lia Permutation.
From NT Require Import Sx Rose ListFacts RoseFacts Surgery SurgeryFacts Machine WF MachineFacts PreserveSteps PreserveOps
  PreserveMore Invariant Effects Refusal HeapFromDict EffectsMore.
Import ListNotations.

Lemma seq_items_app {Wd} (f : ditem -> Wd -> res * Wd) l1 : forall l2 w,
  seq_items f (l1 ++ l2) w = match seq_items f l1 w with (Ok _, w') => seq_items f l2 w' | err => err end.
Proof.
  induction l1 as [|x l1 IH]; intros l2 w; cbn [app seq_items]; [reflexivity|].
  destruct (f x w) as [[r|e] w1]; [apply IH|reflexivity].
Qed.

Definition item_did (t : tstate) (it : ditem) : option did :=
  match it with DI d e _ => match e with Some y => Some y | None => calc_id (calc t) d end end.

(* from_dict with two items of one data_id (the first item and any later one, whatever succeeded in
   between): the whole call is refused with UniqueConstraintError and leaves every tree as it was *)
Theorem from_dict_duplicate_refused w ti p x mid d e ch rest t r w2 id :
  WFw w -> get_tree w ti = Some t -> children_of p (forest_of t) = Some [] ->
  from_dict_items ti p (x :: mid) w = (Ok r, w2) ->
  item_did t x = Some id -> (match e with Some y => Some y | None => calc_id (calc t) d end) = Some id ->
  fst (op_from_dict w ti p (x :: mid ++ DI d e ch :: rest)) = Err EUnique /\
  trees (snd (op_from_dict w ti p (x :: mid ++ DI d e ch :: rest))) = trees w.
Proof.
  intros W Gt Gc0 H Hx Hd. destruct (children_of_split _ _ _ Gc0) as (pq & Gp & Gc).
  rewrite from_dict_items_eq in H.
  destruct (items_ok (x :: mid) (proj2 (Forall_forall _ _) (fun y _ => item_ok y)) ti p w r w2 t pq [] W Gt Gp Gc H)
    as (kids & t2 & B & Gt2 & F2 & _ & Ca2 & W2 & _).
  inversion B as [|n0 x0 l0 X xs n1 n2 Bx Bxs]; subst. cbn [app] in F2.
  assert (Eid : rdid X = id /\ rid X = next w).
  { destruct x as [dx ex chx]. inversion Bx as [n0 d0 e0 ch0 idx kds n' Hid Hk]; subst. cbn [rdid rid rinfo mk_info i_did]. split; [|reflexivity].
    cbn [item_did] in Hx. destruct Hid as [->|[-> Hc]]; congruence. }
  destruct Eid as [Ed Er].
  assert (Gp2 : parent_path p (forest_of t2) = Some pq) by (rewrite F2; now apply parent_path_stable).
  assert (Gc2 : get_ch pq (forest_of t2) = Some (X :: xs)) by (rewrite F2; exact (get_ch_upd_ch pq (fun c => c ++ X :: xs) _ [] Gc)).
  assert (Sb : sibling_with (forest_of t2) p id 0).
  { exists (X :: xs), X. unfold children_of. rewrite Gp2, Gc2. refine (conj eq_refl (conj (or_introl eq_refl) (conj Ed _))).
    rewrite Er. destruct W. lia. }
  assert (Hd2 : (match e with Some y => Some y | None => calc_id (calc t2) d end) = Some id) by (now rewrite Ca2).
  assert (R := from_dict_item_refused w2 ti p d e ch t2 id W2 Gt2 Hd2 Sb).
  unfold op_from_dict. rewrite Gt, Gc0, from_dict_items_eq.
  change (x :: mid ++ DI d e ch :: rest) with ((x :: mid) ++ DI d e ch :: rest). rewrite seq_items_app, H. cbn [seq_items].
  destruct (from_dict_item ti p (DI d e ch) w2) as [[r'|e'] w3]; cbn [fst] in R; [discriminate|]. injection R as ->. split; reflexivity.
Qed.

(* remove() / remove(with_clones=True) of a node of the tree always succeeds *)
Theorem remove_total w ti n wc t d : get_tree w ti = Some t -> did_of n (forest_of t) = Some d ->
  fst (op_remove w ti n false wc) = Ok [].
Proof. intros Gt Gd. unfold op_remove. rewrite Gt, Gd. reflexivity. Qed.

Theorem remove_children_total w ti n t ch : get_tree w ti = Some t -> children_of n (forest_of t) = Some ch ->
  fst (op_remove_children w ti n) = Ok [].
Proof.
  intros Gt Gc. destruct (children_of_split _ _ _ Gc) as (pq & Gp & G). unfold op_remove_children. rewrite Gt, Gp, G.
  destruct (unregister_all (pre_f ch) (reg t) (idx t)). reflexivity.
Qed.

(* ---- set_data / rename: the exact payload function and group (C04_set_data leaves them existential) ---- *)
From NT Require Import PreserveRelabel.

Theorem set_data_exact w ti n d e wc r w' : op_set_data w ti n d e wc = (Ok r, w') ->
  exists t s did', get_tree w ti = Some t /\ get_node n (forest_of t) = Some s /\
    sd_did' t (sd_new_data s d) e = Some did' /\ r = [] /\
    let nd := sd_new_data s d in
    let ne := sd_new_did s did' in
    let cur := idx_get (rdid s) (idx t) in
    let hc := Nat.ltb 1 (length cur) in
    let wcb := match wc with Some true => true | _ => false end in
    let setd := fun inf => match nd with Some x => set_dat_i x inf | None => inf end in
    hc && (match wc with None => true | _ => false end) = false /\
    match ne, nd with
    | Some x, _ =>
        exists t', get_tree w' ti = Some t' /\
          forest_of t' = relabel (if hc && wcb then cur else [n]) (fun inf => set_did_i x (setd inf)) (forest_of t) /\
          reg t' = reg t /\
          idx t' = (if hc && wcb then idx_move_group (rdid s) x cur (idx t) else idx_add x n (idx_del (rdid s) n (idx t)))
    | None, Some _ =>
        exists t', get_tree w' ti = Some t' /\ forest_of t' = relabel (if wcb then cur else [n]) setd (forest_of t) /\
          reg t' = reg t /\ idx t' = idx t
    | None, None => w' = w
    end.
Proof.
  rewrite op_set_data_eq. intros H. destruct (get_tree w ti) as [t|] eqn:Gt; [|discriminate].
  destruct (get_node n (forest_of t)) as [s|] eqn:Gn; [|discriminate].
  assert (H' : match sd_did' t (sd_new_data s d) e with
               | None => (Err ECrash, w)
               | Some did' => set_data_core w ti t n s (sd_new_data s d) (sd_new_did s did') wc
               end = (Ok r, w')) by (destruct d, e; try exact H; discriminate).
  clear H. destruct (sd_did' t (sd_new_data s d) e) as [did'|] eqn:Ed; [|discriminate].
  exists t, s, did'. refine (conj eq_refl (conj Gn (conj Ed _))). unfold set_data_core in H'. cbv zeta in H'.
  destruct (Nat.ltb 1 (length (idx_get (rdid s) (idx t))) && (match wc with None => true | _ => false end)) eqn:Eamb; [discriminate|].
  destruct (sd_new_did s did') as [x|] eqn:Ene.
  - destruct (existsb _ _) in H'; [discriminate|]. injection H' as <- <-. cbv zeta. split; [reflexivity|]. split; [exact Eamb|].
    eexists. split; [exact (get_put_same _ _ t _ Gt)|]. cbn [forest_of reg idx set_all]. repeat split.
  - destruct (sd_new_data s d) as [nd|] eqn:End.
    + injection H' as <- <-. cbv zeta. split; [reflexivity|]. split; [exact Eamb|].
      eexists. split; [exact (get_put_same _ _ t _ Gt)|]. destruct t; cbn. repeat split.
    + injection H' as <- <-. cbv zeta. split; [reflexivity|]. split; [exact Eamb|reflexivity].
Qed.
