(* Refusal at the level of the whole operation for the two routes whose C03 theorems spoke about an inner
   step only, and totality of the removals whose C01 theorems did not say that the call succeeds. *)
From Coq Require Import List ZArith Bool Arith Lia Permutation.
From NT Require Import Sx Rose ListFacts RoseFacts Surgery SurgeryFacts Machine WF MachineFacts PreserveSteps PreserveOps
  PreserveMore Invariant Effects Refusal HeapFromDict EffectsMore.
Import ListNotations.

Lemma seq_items_app {Wd} (f : ditem -> Wd -> res * Wd) l1 : forall l2 w,
  seq_items f (l1 ++ l2) w = match seq_items f l1 w with (Ok _, w') => seq_items f l2 w' | err => err end.
Proof.
  induction l1 as [|x l1 IH]; intros l2 w; cbn [app seq_items]; [reflexivity|].
  destruct (f x w) as [[r|e] w1]; [apply IH|reflexivity].
Qed.

Definition item_did (t : tstate) (it : ditem) : option did :=
  match it with DI d e _ => match e with Some y => Some y | None => calc_id (calc t) d end end.

(* from_dict with two items of one data_id (the first item and any later one, whatever succeeded in
   between): the whole call is refused with UniqueConstraintError and leaves every tree as it was *)
Theorem from_dict_duplicate_refused w ti p x mid d e ch rest t r w2 id :
  WFw w -> get_tree w ti = Some t -> children_of p (forest_of t) = Some [] ->
  from_dict_items ti p (x :: mid) w = (Ok r, w2) ->
  item_did t x = Some id -> (match e with Some y => Some y | None => calc_id (calc t) d end) = Some id ->
  fst (op_from_dict w ti p (x :: mid ++ DI d e ch :: rest)) = Err EUnique /\
  trees (snd (op_from_dict w ti p (x :: mid ++ DI d e ch :: rest))) = trees w.
Proof.
  intros W Gt Gc0 H Hx Hd. destruct (children_of_split _ _ _ Gc0) as (pq & Gp & Gc).
  rewrite from_dict_items_eq in H.
  destruct (items_ok (x :: mid) (proj2 (Forall_forall _ _) (fun y _ => item_ok y)) ti p w r w2 t pq [] W Gt Gp Gc H)
    as (kids & t2 & B & Gt2 & F2 & _ & Ca2 & W2 & _).
  inversion B as [|n0 x0 l0 X xs n1 n2 Bx Bxs]; subst. cbn [app] in F2.
  assert (Eid : rdid X = id /\ rid X = next w).
  { destruct x as [dx ex chx]. inversion Bx as [n0 d0 e0 ch0 idx kds n' Hid Hk]; subst. cbn [rdid rid rinfo mk_info i_did]. split; [|reflexivity].
    cbn [item_did] in Hx. destruct Hid as [->|[-> Hc]]; congruence. }
  destruct Eid as [Ed Er].
  assert (Gp2 : parent_path p (forest_of t2) = Some pq) by (rewrite F2; now apply parent_path_stable).
  assert (Gc2 : get_ch pq (forest_of t2) = Some (X :: xs)) by (rewrite F2; exact (get_ch_upd_ch pq (fun c => c ++ X :: xs) _ [] Gc)).
  assert (Sb : sibling_with (forest_of t2) p id 0).
  { exists (X :: xs), X. unfold children_of. rewrite Gp2, Gc2. refine (conj eq_refl (conj (or_introl eq_refl) (conj Ed _))).
    rewrite Er. destruct W. lia. }
  assert (Hd2 : (match e with Some y => Some y | None => calc_id (calc t2) d end) = Some id) by (now rewrite Ca2).
  assert (R := from_dict_item_refused w2 ti p d e ch t2 id W2 Gt2 Hd2 Sb).
  unfold op_from_dict. rewrite Gt, Gc0, from_dict_items_eq.
  change (x :: mid ++ DI d e ch :: rest) with ((x :: mid) ++ DI d e ch :: rest). rewrite seq_items_app, H. cbn [seq_items].
  destruct (from_dict_item ti p (DI d e ch) w2) as [[r'|e'] w3]; cbn [fst] in R; [discriminate|]. injection R as ->. split; reflexivity.
Qed.

(* remove() / remove(with_clones=True) of a node of the tree always succeeds *)
Theorem remove_total w ti n wc t d : get_tree w ti = Some t -> did_of n (forest_of t) = Some d ->
  fst (op_remove w ti n false wc) = Ok [].
Proof. intros Gt Gd. unfold op_remove. rewrite Gt, Gd. reflexivity. Qed.

Theorem remove_children_total w ti n t ch : get_tree w ti = Some t -> children_of n (forest_of t) = Some ch ->
  fst (op_remove_children w ti n) = Ok [].
Proof.
  intros Gt Gc. destruct (children_of_split _ _ _ Gc) as (pq & Gp & G). unfold op_remove_children. rewrite Gt, Gp, G.
  destruct (unregister_all (pre_f ch) (reg t) (idx t)). reflexivity.
Qed.

(* ---- set_data / rename: the exact payload function and group (C04_set_data leaves them existential) ---- *)
From NT Require Import PreserveRelabel.

Theorem set_data_exact w ti n d e wc r w' : op_set_data w ti n d e wc = (Ok r, w') ->
  exists t s did', get_tree w ti = Some t /\ get_node n (forest_of t) = Some s /\
    sd_did' t (sd_new_data s d) e = Some did' /\ r = [] /\
    let nd := sd_new_data s d in
    let ne := sd_new_did s did' in
    let cur := idx_get (rdid s) (idx t) in
    let hc := Nat.ltb 1 (length cur) in
    let wcb := match wc with Some true => true | _ => false end in
    let setd := fun inf => match nd with Some x => set_dat_i x inf | None => inf end in
    hc && (match wc with None => true | _ => false end) = false /\
    match ne, nd with
    | Some x, _ =>
        exists t', get_tree w' ti = Some t' /\
          forest_of t' = relabel (if hc && wcb then cur else [n]) (fun inf => set_did_i x (setd inf)) (forest_of t) /\
          reg t' = reg t /\
          idx t' = (if hc && wcb then idx_move_group (rdid s) x cur (idx t) else idx_add x n (idx_del (rdid s) n (idx t)))
    | None, Some _ =>
        exists t', get_tree w' ti = Some t' /\ forest_of t' = relabel (if wcb then cur else [n]) setd (forest_of t) /\
          reg t' = reg t /\ idx t' = idx t
    | None, None => w' = w
    end.
Proof.
  rewrite op_set_data_eq. intros H. destruct (get_tree w ti) as [t|] eqn:Gt; [|discriminate].
  destruct (get_node n (forest_of t)) as [s|] eqn:Gn; [|discriminate].
  assert (H' : match sd_did' t (sd_new_data s d) e with
               | None => (Err ECrash, w)
               | Some did' => set_data_core w ti t n s (sd_new_data s d) (sd_new_did s did') wc
               end = (Ok r, w')) by (destruct d, e; try exact H; discriminate).
  clear H. destruct (sd_did' t (sd_new_data s d) e) as [did'|] eqn:Ed; [|discriminate].
  exists t, s, did'. refine (conj eq_refl (conj Gn (conj Ed _))). unfold set_data_core in H'. cbv zeta in H'.
  destruct (Nat.ltb 1 (length (idx_get (rdid s) (idx t))) && (match wc with None => true | _ => false end)) eqn:Eamb; [discriminate|].
  destruct (sd_new_did s did') as [x|] eqn:Ene.
  - destruct (existsb _ _) in H'; [discriminate|]. injection H' as <- <-. cbv zeta. split; [reflexivity|]. split; [exact Eamb|].
    eexists. split; [exact (get_put_same _ _ t _ Gt)|]. cbn [forest_of reg idx set_all]. repeat split.
  - destruct (sd_new_data s d) as [nd|] eqn:End.
    + injection H' as <- <-. cbv zeta. split; [reflexivity|]. split; [exact Eamb|].
      eexists. split; [exact (get_put_same _ _ t _ Gt)|]. destruct t; cbn. repeat split.
    + injection H' as <- <-. cbv zeta. split; [reflexivity|]. split; [exact Eamb|reflexivity].
Qed.

(* ---- C02: set_data / rename re-key the node (group): found under the new id, no longer under the old one ---- *)
From NT Require Import Lookup QueriesProofs HeapRemove.

Lemma did_of_relabel group g f m : NoDup (ids f) -> NoDup group -> In m group ->
  forall s, get_node m f = Some s -> did_of m (relabel group g f) = Some (i_did (g (rinfo s))).
Proof.
  intros ND NDg Hm s Gs. destruct (PreserveRelabel.relabel_rows g 0 group f ND NDg) as [Er Ei].
  assert (ND' : NoDup (ids (relabel group g f))) by (now rewrite Ei).
  apply (did_of_keys _ _ _ ND'). change (keys (relabel group g f)) with (keys_of (relabel group g f)). rewrite <- (rows_keys _ 0), Er.
  destruct (get_node_spec m f s Gs) as (Ps & Rs). destruct (HeapRemove.row_of_node f 0 s Ps) as (r & Hr & E1 & E2).
  apply in_map_iff. exists (rel_row group g r). split; [|now apply in_map].
  unfold rel_row. rewrite E1, Rs.
  replace (inb m group) with true by (symmetry; unfold inb; apply existsb_exists; exists m; split; [assumption|apply Nat.eqb_refl]).
  unfold r_key, r_id, r_did. cbn [fst snd]. now rewrite E2.
Qed.

Theorem set_data_rekeys w ti n d e wc r w' : WFw w -> op_set_data w ti n d e wc = (Ok r, w') ->
  exists t s did', get_tree w ti = Some t /\ get_node n (forest_of t) = Some s /\
    sd_did' t (sd_new_data s d) e = Some did' /\
    forall x, sd_new_did s did' = Some x ->
      x <> rdid s /\
      exists t', get_tree w' ti = Some t' /\
        let cur := idx_get (rdid s) (idx t) in
        let group := if Nat.ltb 1 (length cur) && (match wc with Some true => true | _ => false end) then cur else [n] in
        In n group /\
        forall m, In m group ->
          did_of m (forest_of t') = Some x /\ In m (lk_find_all_did t' x) /\ ~ In m (lk_find_all_did t' (rdid s)).
Proof.
  intros W H. assert (W' := WFw_op_set_data w ti n d e wc W). rewrite H in W'. cbn [snd] in W'.
  destruct (set_data_exact w ti n d e wc r w' H) as (t & s & did' & Gt & Gn & Ed & _ & X). cbv zeta in X. destruct X as [_ X].
  exists t, s, did'. refine (conj Gt (conj Gn (conj Ed _))). intros x Ex. rewrite Ex in X.
  assert (Nx : x <> rdid s).
  { unfold sd_new_did in Ex. destruct did' as [e0|]; [|discriminate]. destruct (did_eqb e0 (rdid s)) eqn:E; [discriminate|].
    injection Ex as <-. intros Y. rewrite Y, did_eqb_refl in E. discriminate. }
  split; [exact Nx|]. destruct X as (t' & Gt' & F' & _ & _). exists t'. split; [exact Gt'|]. cbv zeta.
  assert (Wt := WFw_tree w ti t W Gt). assert (Wt' := WFw_tree w' ti t' W' Gt').
  destruct (get_node_spec n _ s Gn) as (Ps & Rs).
  assert (Kn : In n (idx_get (rdid s) (idx t))) by (apply (idx_get_keys t n (rdid s) Wt); rewrite <- Rs; now apply keys_in).
  set (group := if Nat.ltb 1 (length (idx_get (rdid s) (idx t))) && _ then _ else [n]) in *.
  assert (Gin : In n group) by (unfold group; destruct (_ && _); [exact Kn|now left]).
  assert (NDg : NoDup group) by (unfold group; destruct (_ && _); [now apply idx_group_nodup|constructor; [intros []|constructor]]).
  assert (Live : forall m, In m group -> In m (ids (forest_of t))).
  { intros m Hm. unfold group in Hm. destruct (_ && _).
    - now apply (find_all_live t Wt m (rdid s)).
    - destruct Hm as [<-|[]]. rewrite <- Rs. unfold ids. now apply in_map. }
  split; [exact Gin|]. intros m Hm. assert (Lm := Live m Hm). destruct (get_node_complete m _ Lm) as (sm & Gm).
  assert (Dm : did_of m (forest_of t') = Some x).
  { rewrite F'. rewrite (did_of_relabel group _ _ m (wf_nodup t Wt) NDg Hm sm Gm). reflexivity. }
  assert (Lm' : In m (ids (forest_of t'))).
  { rewrite F'. destruct (PreserveRelabel.relabel_rows (fun inf => set_did_i x (match sd_new_data s d with Some x0 => set_dat_i x0 inf | None => inf end)) 0 group (forest_of t) (wf_nodup t Wt) NDg) as [_ Ei]. now rewrite Ei. }
  refine (conj Dm (conj _ _)).
  - apply (find_all_live t' Wt'). now split.
  - intros Y. apply (find_all_live t' Wt') in Y. destruct Y as [_ Y]. congruence.
Qed.

(* ---- C04: the sibling shortcuts at the level of step (audit C04 F1, the D14-D16 area) ---- *)
Lemma prepend_sibling_is_add w ti n d e k t p s :
  get_tree w ti = Some t -> parent_of n (forest_of t) = Some p -> get_node n (forest_of t) = Some s ->
  step w (OShort ti n SPrependSibling d e k) = step w (OAdd ti p d e (if typed t then rkind s else None) (BNode n)).
Proof. intros Et Ep Es. cbn [step]. unfold op_shortcut. now rewrite Et, Ep, Es. Qed.

Lemma append_sibling_is_add w ti n d e k t p s q0 i l :
  get_tree w ti = Some t -> parent_of n (forest_of t) = Some p -> get_node n (forest_of t) = Some s ->
  node_loc n (forest_of t) = Some (q0, i, l) ->
  step w (OShort ti n SAppendSibling d e k) =
  step w (OAdd ti p d e (if typed t then rkind s else None)
               (match nth_error l (S i) with Some nx => BNode (rid nx) | None => BNone end)).
Proof. intros Et Ep Es El. cbn [step]. unfold op_shortcut. now rewrite Et, Ep, El, Es. Qed.

(* composed with the effect of add and the list law: the new node is a child of n's PARENT, directly before /
   directly after n, carries n's kind in a typed tree (the kind argument of the call is not used), and
   everything else is as add() leaves it *)
Theorem sibling_shortcut_effect w ti n (after : bool) d e k r w' t :
  WFw w -> get_tree w ti = Some t ->
  step w (OShort ti n (if after then SAppendSibling else SPrependSibling) d e k) = (Ok r, w') ->
  exists p s pq a c t' id,
    parent_of n (forest_of t) = Some p /\ get_node n (forest_of t) = Some s /\
    parent_path p (forest_of t) = Some pq /\ get_ch pq (forest_of t) = Some (a ++ s :: c) /\
    get_tree w' ti = Some t' /\ r = [next w] /\
    (e = Some id \/ e = None /\ calc_id (calc t) d = Some id) /\
    let x := T (next w) (mk_info d id (default_kind t (if typed t then rkind s else None)) []) [] in
    get_ch pq (forest_of t') = Some (if after then a ++ s :: x :: c else a ++ x :: s :: c) /\
    ins_row (p, next w, rinfo x) (rows 0 (forest_of t)) (rows 0 (forest_of t')) /\
    (forall tj, tj <> ti -> get_tree w' tj = get_tree w tj).
Proof.
  intros W Gt H. assert (Wt := WFw_tree w ti t W Gt).
  assert (Hs : exists p s q0 i l, parent_of n (forest_of t) = Some p /\ get_node n (forest_of t) = Some s /\ node_loc n (forest_of t) = Some (q0, i, l)).
  { cbn [step] in H. unfold op_shortcut in H. rewrite Gt in H. destruct (parent_of n (forest_of t)) as [p|]; [|destruct after; discriminate].
    destruct (get_node n (forest_of t)) as [s|] eqn:Gn; [|destruct after; [destruct (node_loc n (forest_of t)) as [[[? ?] ?]|]|]; discriminate].
    destruct (get_node_loc n _ s Gn) as (q0 & i & l & E & _). now exists p, s, q0, i, l. }
  destruct Hs as (p & s & q0 & i & l & Gp & Gn & El).
  destruct (node_loc_spec n _ q0 i l El) as (Gq0 & s' & Ns & Rs & Gn' & Ps). assert (s' = s) by congruence. subst s'.
  destruct (nth_error_split l i Ns) as (a & c & -> & La).
  set (kk := if typed t then rkind s else None) in *.
  set (b := if after then (match nth_error (a ++ s :: c) (S i) with Some nx => BNode (rid nx) | None => BNone end) else BNode n).
  assert (Hadd : step w (OAdd ti p d e kk b) = (Ok r, w')).
  { rewrite <- H. unfold b, kk. destruct after; symmetry; [now apply (append_sibling_is_add w ti n d e k t p s q0 i _)|now apply prepend_sibling_is_add]. }
  destruct (add_effect w ti p d e kk b r w' Hadd) as (t0 & t' & pq & ch & id & Gt0 & Gt' & Gpp & Gc & Hid & Er & _ & X). cbv zeta in X.
  assert (t0 = t) by congruence. subst t0. destruct X as (Gc' & Ins & Oth).
  assert (Ech : a ++ s :: c = ch).
  { apply (siblings_are_children t n p q0 i _ ch Wt Gp El). unfold children_of. now rewrite Gpp. }
  subst ch. exists p, s, pq, a, c, t', id. refine (conj Gp (conj Gn (conj Gpp (conj Gc (conj Gt' (conj Er (conj Hid _))))))). cbv zeta.
  refine (conj _ (conj Ins Oth)). rewrite Gc'. f_equal.
  assert (NDl : NoDup (map rid (a ++ s :: c))).
  { assert (X := NoDup_child_list pq _ _ (wf_nodup t Wt) Gc). unfold ids in X. apply NoDup_map_inv with (f := fun y => y).
    rewrite map_id. clear -X. revert X. generalize (a ++ s :: c). intros l0 X.
    induction l0 as [|y l0 IH]; [constructor|]. cbn [flat_map map] in X. rewrite pre_unfold in X. cbn [map app] in X.
    inversion X as [|? ? N1 N2]; subst. constructor.
    - intros Y. apply N1. rewrite map_app. apply in_or_app. right. apply in_map_iff in Y. destruct Y as (z & Ez & Hz).
      rewrite <- Ez. apply in_map. now apply in_pre_f_top.
    - apply IH. rewrite map_app in N2. now apply NoDup_app_r in N2. }
  destruct (sibling_positions a s c (T (next w) (mk_info d id (default_kind t kk) []) []) NDl) as [S1 S2].
  unfold b. destruct after.
  - rewrite <- La. exact S2.
  - cbn [norm_before]. rewrite <- Rs. exact S1.
Qed.

(* ====================================================================================== *)
(* audit C03 (medium-low): the refusing shapes no C03 theorem matched - set_data with NEW DATA (the id recomputed
   through the callback), with an explicit id next to new data, with_clones=True; remove(keep_children=True) with
   with_clones=True. *)
From NT Require Import Refusal.

Lemma op_set_data_core w ti n d e wc t s did' : get_tree w ti = Some t -> get_node n (forest_of t) = Some s ->
  (d <> None \/ e <> None) -> sd_did' t (sd_new_data s d) e = Some did' ->
  op_set_data w ti n d e wc = set_data_core w ti t n s (sd_new_data s d) (sd_new_did s did') wc.
Proof.
  intros Gt Gn Hde Hd. rewrite op_set_data_eq, Gt, Gn, Hd. destruct d, e; try reflexivity. destruct Hde; congruence.
Qed.

(* whatever mix of new data / explicit id: the id [x] the node is about to get is carried by another child of its parent *)
Theorem set_data_refused_any w ti n d e wcl t s did' x q0 i l y :
  WFw w -> get_tree w ti = Some t -> get_node n (forest_of t) = Some s -> (d <> None \/ e <> None) ->
  sd_did' t (sd_new_data s d) e = Some did' -> sd_new_did s did' = Some x ->
  node_loc n (forest_of t) = Some (q0, i, l) -> In y l -> rid y <> n -> rdid y = x ->
  (Nat.ltb 1 (length (idx_get (rdid s) (idx t))) = false \/ wcl = Some false) ->
  fst (op_set_data w ti n d e wcl) = Err EUnique.
Proof.
  intros H Gt Gn Hde Hd Hx E Hy Ny Ey Hc. rewrite (op_set_data_core w ti n d e wcl t s did' Gt Gn Hde Hd), Hx.
  exact (set_data_refused_single w ti n t s q0 i l y (sd_new_data s d) x wcl H Gt Gn E Hy Ny Ey Hc).
Qed.

(* with_clones=True: some member of the clone group has a sibling outside the group that carries the new id *)
Theorem set_data_refused_any_group w ti n d e t s did' x m q0 i l y :
  WFw w -> get_tree w ti = Some t -> get_node n (forest_of t) = Some s -> (d <> None \/ e <> None) ->
  sd_did' t (sd_new_data s d) e = Some did' -> sd_new_did s did' = Some x ->
  Nat.ltb 1 (length (idx_get (rdid s) (idx t))) = true ->
  In m (idx_get (rdid s) (idx t)) -> node_loc m (forest_of t) = Some (q0, i, l) ->
  In y l -> rdid y = x -> ~ In (rid y) (idx_get (rdid s) (idx t)) ->
  fst (op_set_data w ti n d e (Some true)) = Err EUnique.
Proof.
  intros H Gt Gn Hde Hd Hx Hc Hm E Hy Ey Ny. rewrite (op_set_data_core w ti n d e (Some true) t s did' Gt Gn Hde Hd), Hx.
  exact (set_data_refused_group w ti n t s m q0 i l y (sd_new_data s d) x H Gt Gn Hc Hm E Hy Ey Ny).
Qed.

(* remove(keep_children=True), with or without clones: refused exactly when, for some victim, the child list its
   parent would hold after ALL victims are replaced by their children ([contract_t]) repeats a data_id; the world is
   untouched.  Without keep_children a remove is never refused. *)
Theorem remove_refused_iff w ti n (keep wc : bool) t d : get_tree w ti = Some t -> did_of n (forest_of t) = Some d ->
  let victims := if wc then filter (fun c => negb (Nat.eqb c n)) (idx_get d (idx t)) ++ [n] else [n] in
  (fst (op_remove w ti n keep wc) = Err EUnique <->
   keep = true /\ exists v q0 i l, In v victims /\ node_loc v (forest_of t) = Some (q0, i, l) /\
                   ~ NoDup (map rdid (flat_map (contract_t victims) l))) /\
  (fst (op_remove w ti n keep wc) = Err EUnique -> snd (op_remove w ti n keep wc) = w) /\
  (fst (op_remove w ti n keep wc) = Err EUnique \/ fst (op_remove w ti n keep wc) = Ok []).
Proof.
  intros Gt Gd victims. unfold op_remove. rewrite Gt, Gd. fold victims.
  destruct (keep && existsb (keep_collides_all t victims) victims) eqn:E; cbn [fst snd].
  - refine (conj _ (conj (fun _ => eq_refl) (or_introl eq_refl))). split; [intros _|reflexivity].
    apply andb_true_iff in E. destruct E as [-> E]. split; [reflexivity|]. apply existsb_exists in E. destruct E as (v & Hv & K).
    unfold keep_collides_all in K. destruct (node_loc v (forest_of t)) as [[[q0 i] l]|] eqn:L; [|discriminate].
    exists v, q0, i, l. refine (conj Hv (conj L _)). intros ND. apply has_dup_did_spec in ND. congruence.
  - refine (conj _ (conj (fun X => _) (or_intror eq_refl))); [|discriminate X]. split; [discriminate|].
    intros (-> & v & q0 & i & l & Hv & L & ND). exfalso. cbn [andb] in E.
    assert (X : existsb (keep_collides_all t victims) victims = true).
    { apply existsb_exists. exists v. split; [exact Hv|]. unfold keep_collides_all. rewrite L. now apply has_dup_did_true. }
    congruence.
Qed.
