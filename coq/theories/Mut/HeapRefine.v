(* Heap refinement: the step / history theorems, the executable abstraction, and the
   pointer-level reading of well-formedness (HeapOK). *)
From Coq Require Import List ZArith Bool Arith Lia Permutation.
From NT Require Import Sx Rose ListFacts RoseFacts Surgery SurgeryFacts Machine WF MachineFacts PreserveSteps PreserveOps
  PreserveKeepClones Invariant Heap HeapProofs HeapRemove HeapMore HeapMove HeapShort HeapKeep HeapData HeapCopy HeapSortDeep.
Import ListNotations.

(* operations whose simulation proof is closed *)
Definition covered_heap (o : op) : bool :=
  match o with
  | OAdd _ _ _ _ _ _ => true
  | ORemove _ _ _ _ => true
  | ORemoveChildren _ _ => true
  | OClear _ => true
  | OMove _ _ _ _ _ => true
  | OSort _ _ _ _ _ => true
  | OMeta _ _ _ => true
  | ONewTree _ _ => true
  | ODel _ _ => true
  | OShort _ _ _ _ _ _ => true
  | OSetData _ _ _ _ _ => true
  | ORename _ _ _ => true
  | OAddNode _ _ _ _ _ _ _ _ => true
  | OAddTree _ _ _ _ _ => true
  | OCopyTo _ _ _ _ _ _ _ => true
  | OTreeCopy _ => true
  | ONodeCopy _ _ _ => true
  | _ => false
  end.

Lemma Forall2_length' {X Y} (P : X -> Y -> Prop) l1 l2 : Forall2 P l1 l2 -> length l1 = length l2.
Proof. induction 1; cbn; congruence. Qed.

Theorem sim_step hw w o : covered_heap o = true -> WFw w -> RepW hw w -> Sim (h_step hw o) (step w o).
Proof.
  intros C W RW. destruct o; cbn [covered_heap] in C; try discriminate C; cbn [h_step step].
  - now apply sim_op_add.
  - now apply sim_op_shortcut.
  - now apply sim_op_add_node.
  - now apply sim_op_add_tree.
  - now apply sim_op_copy_to.
  - now apply sim_op_tree_copy.
  - now apply sim_op_node_copy.
  - now apply sim_op_move.
  - destruct keep; [now apply sim_op_remove_keep|now apply sim_op_remove_plain].
  - now apply sim_op_remove_children.
  - destruct deep; [now apply sim_op_sort_deep|now apply sim_op_sort_flat].
  - now apply sim_op_set_data.
  - now apply sim_op_rename.
  - now apply sim_op_meta.
  - split; [cbn [fst]; f_equal; f_equal; destruct RW as [_ F]; now rewrite (Forall2_length' _ _ _ F)|].
    cbn [snd]. destruct RW as [E F]. constructor; [exact E|]. cbn. apply Forall2_app; [assumption|]. constructor; [apply Rep_empty|constructor].
  - unfold op_clear. now apply sim_op_remove_children.
  - now apply sim_op_del.
Qed.

Theorem sim_run ops : forall hw w, forallb covered_heap ops = true -> WFw w -> RepW hw w -> RepW (h_run ops hw) (run ops w).
Proof.
  induction ops as [|o ops IH]; intros hw w C W RW; [exact RW|]. cbn [forallb] in C. apply andb_true_iff in C. destruct C as [C1 C2].
  unfold h_run, run. cbn [fold_left]. apply IH; [assumption|now apply WFw_step|]. now apply (sim_step hw w o).
Qed.

Theorem sim_trace ops : forall hw w, forallb covered_heap ops = true -> WFw w -> RepW hw w ->
  map fst (map (fun k => h_step (h_run (firstn k ops) hw) (nth k ops (ONewTree false None))) (seq 0 (length ops))) =
  map fst (map (fun k => step (run (firstn k ops) w) (nth k ops (ONewTree false None))) (seq 0 (length ops))).
Proof.
  intros hw w C W RW. rewrite !map_map. apply map_ext_in. intros k Hk. apply in_seq in Hk.
  assert (Ck : forallb covered_heap (firstn k ops) = true).
  { rewrite forallb_forall in *. intros o Ho. apply C. rewrite <- (firstn_skipn k ops). apply in_or_app. now left. }
  assert (Co : covered_heap (nth k ops (ONewTree false None)) = true).
  { rewrite forallb_forall in C. apply C. apply nth_In. lia. }
  apply (sim_step _ _ _ Co (WFw_run _ _ W) (sim_run _ _ _ Ck W RW)).
Qed.

(* ---- the executable abstraction finds exactly the forest (in particular: no cycle, fuel suffices) ---- *)
Lemma mapM_map_ok {X} (g : nat -> option X) (key : X -> nat) l : (forall c, In c l -> g (key c) = Some c) -> mapM g (map key l) = Some l.
Proof.
  induction l as [|c l IH]; intros H; [reflexivity|]. cbn [map mapM]. rewrite (H c (or_introl eq_refl)), IH; [reflexivity|].
  intros x Hx. apply H. now right.
Qed.

Lemma build_ok h : forall fuel s,
  (forall x, In x (pre s) -> hch h (rid x) = map rid (rch x) /\ hinf h (rid x) = rinfo x) -> size s <= fuel ->
  h_build fuel h (rid s) = Some s.
Proof.
  induction fuel as [|fuel IH]; intros s H L; [destruct s; rewrite size_unfold in L; lia|].
  cbn [h_build]. destruct (H s (pre_in_self s)) as (Hc & Hi). rewrite Hc, Hi.
  rewrite (mapM_map_ok (h_build fuel h) rid (rch s)); [now destruct s|].
  intros c Hc'. apply IH.
  - intros x Hx. apply H. rewrite pre_unfold. right. apply in_flat_map. now exists c.
  - assert (size c <= size_f (rch s)).
    { clear -Hc'. induction (rch s) as [|z l IHl]; [contradiction|]. rewrite size_f_cons. destruct Hc' as [->|Hc']; [lia|]. specialize (IHl Hc'). lia. }
    destruct s as [id i ch]. rewrite size_unfold in L. cbn [rch] in *. lia.
Qed.

Theorem abs_correct h t : WF t -> Rep h t -> abs_forest h = Some (forest_of t) /\ abs_tstate h = Some t.
Proof.
  intros W R. set (f := forest_of t).
  assert (H0 : hch h 0 = map rid f) by (apply (rep_children h t 0 [] f W R); reflexivity).
  assert (A : abs_forest h = Some f).
  { unfold abs_forest. rewrite H0. apply mapM_map_ok. intros c Hc. apply build_ok.
    - intros x Hx. assert (Px : In x (pre_f f)) by (apply in_flat_map; now exists c). split; [now apply (rep_node_children h t x W R)|now apply (rep_info h t x R)].
    - assert (X := fuel_enough h t f W R (wf_nodup t W) (incl_refl _)). fold f in X.
      assert (size c <= size_f f). { clear -Hc. induction f as [|z l IHl]; [contradiction|]. rewrite size_f_cons. destruct Hc as [->|Hc]; [lia|]. specialize (IHl Hc). lia. }
      lia. }
  split; [exact A|]. unfold abs_tstate. rewrite A. cbn [option_map].
  rewrite (rep_reg h t R), (rep_idx h t R), (rep_typed h t R), (rep_calc h t R). now destruct t.
Qed.

(* ---- well-formedness in terms of the raw pointers ---- *)
Record HeapOK (h : hstate) : Prop := {
  (* the system root has no parent and belongs to the tree *)
  ok_root : hpar h 0 = None /\ htr h 0 = true;
  (* no node occurs twice (by identity) in a child list *)
  ok_once : forall p, NoDup (hch h p);
  (* c is in p's child list exactly when c is a node of the tree whose parent pointer is p *)
  ok_link : forall p c, In c (hch h p) <-> In c (hreg h) /\ hpar h c = Some p;
  (* every node of the tree has exactly one parent: the root or another node of the tree *)
  ok_parent : forall n, In n (hreg h) -> exists p, hpar h n = Some p /\ (p = 0 \/ In p (hreg h));
  (* owner *)
  ok_owner : forall n, In n (hreg h) -> htr h n = true;
  (* never its own ancestor *)
  ok_acyclic : forall n, In n (hreg h) -> ~ In n (anc_heap (h_fuel h) h n);
  (* unfolding the child lists from the root terminates and reaches exactly the registered nodes *)
  ok_reach : exists f, abs_forest h = Some f /\ Permutation (hreg h) (ids f) /\ NoDup (ids f)
}.

Lemma kids_nodup p f o : NoDup (ids f) -> NoDup (kids p (rows o f)).
Proof.
  intros ND. rewrite <- (rows_ids f o) in ND. unfold kids. induction (rows o f) as [|r R IH]; [constructor|].
  cbn [map filter] in *. inversion ND as [|x xs N1 N2]; subst. destruct (Nat.eqb (r_par r) p); [|auto]. cbn [map]. constructor; [|auto].
  intros Y. apply N1. apply in_map_iff in Y. destruct Y as (r' & E & Hr'). apply filter_In in Hr'. rewrite <- E. apply in_map. tauto.
Qed.

Section OK.
  Variables (h : hstate) (t : tstate).
  Hypothesis W : WF t.
  Hypothesis R : Rep h t.
  Let f := forest_of t.

  Lemma reg_ids n : In n (hreg h) <-> In n (ids f).
  Proof. unfold f. rewrite <- (h_live_ids h t n W R). unfold h_live. now rewrite memn_In. Qed.

  Lemma node_row n : In n (ids f) -> exists q inf, In (q, n, inf) (rows 0 f).
  Proof.
    intros Hn. rewrite <- (rows_ids f 0) in Hn. apply in_map_iff in Hn. destruct Hn as ([[q n'] inf] & E & Hr). cbn in E. subst n'. now exists q, inf.
  Qed.

  Lemma anc_strict : forall k n x, In n (ids f) -> In x (anc_heap k h n) ->
    exists sx, In sx (pre_f f) /\ rid sx = x /\ In n (ids (rch sx)).
  Proof.
    induction k as [|k IH]; intros n x Hn Hx; [contradiction|]. cbn [anc_heap] in Hx.
    destruct (node_row n Hn) as (q & inf & Hr). destruct (rep_node h t R _ Hr) as (Hp & _). cbn [r_id r_par fst snd] in Hp. rewrite Hp in Hx.
    destruct (Nat.eqb q 0) eqn:Eq; [contradiction|]. apply Nat.eqb_neq in Eq.
    destruct (proj2 rows_member f 0 q n inf Hr) as [(E0 & _)|(s' & Ps' & Rs' & c & Hc & Rc & _)]; [congruence|].
    assert (Nc : In n (ids (rch s'))) by (rewrite <- Rc; now apply incl_top_ids, in_map).
    destruct Hx as [<-|Hx]; [now exists s'|].
    assert (Hq : In q (ids f)) by (rewrite <- Rs'; unfold ids; now apply in_map).
    destruct (IH q x Hq Hx) as (sx & Psx & Rsx & Iq). exists sx. refine (conj Psx (conj Rsx _)).
    unfold ids in Iq. apply in_map_iff in Iq. destruct Iq as (s'' & Rs'' & Ps'').
    assert (s'' = s') by (apply (node_unique f); auto; [apply W|now apply (pre_f_sub f sx)|congruence]). subst s''.
    rewrite <- Rc. unfold ids. apply in_map. now apply (pre_f_child_closed (rch sx) s' c).
  Qed.

  Theorem Rep_HeapOK : HeapOK h.
  Proof.
    constructor.
    - apply R.
    - intros p. rewrite (rep_ch h t R). apply kids_nodup, W.
    - intros p c. rewrite (rep_ch h t R), kids_in, reg_ids. fold f. split.
      + intros (inf & Hr). split; [now apply (rows_id_in f 0 _ Hr)|apply (rep_node h t R _ Hr)].
      + intros (Hc & Hp). destruct (node_row c Hc) as (q & inf & Hr). destruct (rep_node h t R _ Hr) as (Hp' & _).
        cbn [r_id r_par fst snd] in Hp'. assert (q = p) by congruence. subst q. now exists inf.
    - intros n Hn. apply reg_ids in Hn. destruct (node_row n Hn) as (q & inf & Hr). exists q. split; [apply (rep_node h t R _ Hr)|].
      destruct (rows_parent_in f 0 _ Hr) as [X|X]; [now left|right; now apply reg_ids].
    - intros n Hn. apply reg_ids in Hn. destruct (node_row n Hn) as (q & inf & Hr). apply (rep_node h t R _ Hr).
    - intros n Hn Y. apply reg_ids in Hn. destruct (anc_strict _ n n Hn Y) as (sx & Psx & Rsx & Iq).
      assert (NS := NoDup_ids_sub f sx (wf_nodup t W) Psx). rewrite ids_t_unfold, Rsx in NS. inversion NS as [|y ys N1 N2]; subst. contradiction.
    - exists f. refine (conj (proj1 (abs_correct h t W R)) (conj _ (wf_nodup t W))). rewrite (rep_reg h t R). apply W.
  Qed.
End OK.

(* after every history of covered operations the heap is well-formed, its abstraction is the state of
   the forest-level machine, and results agree *)
Theorem heap_refinement ops : forallb covered_heap ops = true ->
  RepW (h_run ops h_empty_world) (run ops empty_world) /\
  Forall HeapOK (htrees (h_run ops h_empty_world)) /\
  map abs_tstate (htrees (h_run ops h_empty_world)) = map Some (trees (run ops empty_world)).
Proof.
  intros C. assert (RW := sim_run ops _ _ C WFw_empty RepW_empty). assert (W := WFw_run ops _ WFw_empty).
  split; [exact RW|]. destruct RW as [_ F]. destruct W as [Wt _ _ _].
  induction F as [|h t hs ts Rht F IH]; [split; [constructor|reflexivity]|].
  inversion Wt as [|x xs Wx Wxs]; subst. destruct (IH Wxs) as (I1 & I2). split.
  - constructor; [now apply (Rep_HeapOK h t)|assumption].
  - cbn [map]. rewrite I2. f_equal. now apply abs_correct.
Qed.

(* ---- the commuting square, with the executable abstraction on worlds ---- *)
Definition abs_world (hw : hworld) : option world :=
  option_map (fun ts => W ts (hnext hw)) (mapM abs_tstate (htrees hw)).

Lemma abs_world_correct hw w : WFw w -> RepW hw w -> abs_world hw = Some w.
Proof.
  intros [Wt _ _ _] [E F]. unfold abs_world.
  assert (M : mapM abs_tstate (htrees hw) = Some (trees w)).
  { induction F as [|h t hs ts Rht F IH]; [reflexivity|]. inversion Wt as [|x xs Wx Wxs]; subst. cbn [mapM].
    rewrite (proj2 (abs_correct h t Wx Rht)), (IH Wxs). reflexivity. }
  rewrite M, E. cbn. now destruct w.
Qed.

Theorem heap_commutes hw w o : covered_heap o = true -> WFw w -> RepW hw w ->
  abs_world hw = Some w /\
  fst (h_step hw o) = fst (step w o) /\
  abs_world (snd (h_step hw o)) = Some (snd (step w o)).
Proof.
  intros C W RW. destruct (sim_step hw w o C W RW) as (E1 & E2).
  refine (conj (abs_world_correct hw w W RW) (conj E1 _)). apply abs_world_correct; [now apply WFw_step|exact E2].
Qed.
